(* mdiff/reader.go: readUnified and ReadUnified = the model's read_unified_lines (variant pinned,
   unbounded ints): the header, then chunks until io.EOF; an unexpected prefix reaches the caller
   as the error of readUnifiedChunk (the model's EPrefix); header errors are wrapped in
   "diff header: %w" (esite looks through the wrapper). *)
From Coq Require Import ZArith NArith List Bool Lia.
Require Coq.Strings.String.
From Mds Require Import Mdiff.ReaderModel Gen.MdiffReadSpan.
From Mds Require Import Common.FnRt Common.FnHeap Common.FnText GenTie.TieLib GenTie.MdiffFmtTieBase
  GenTie.MdiffReadTieBase GenTie.MdiffReadTieSpan GenTie.MdiffReadModelW GenTie.MdiffReadTieHeader GenTie.MdiffReadTieChunk.
Import ListNotations.
Local Open Scope Z_scope.

Notation idw := (fun z : Z => z).

(* ---- facts about the model's chunk reader ---- *)
Lemma body_rest_len : forall ls es b es' rest,
  read_uchunk_body ls es = (b, es', rest) -> (length rest <= length ls)%nat.
Proof.
  induction ls as [|l ls IH]; intros es b es' rest H; cbn [read_uchunk_body] in H.
  - inversion H. simpl. lia.
  - destruct l as [|c tl].
    + inversion H. simpl. lia.
    + destruct (N.eqb c 32); [apply IH in H; simpl; lia|].
      destruct (N.eqb c 45); [apply IH in H; simpl; lia|].
      destruct (N.eqb c 43); [apply IH in H; simpl; lia|].
      destruct (N.eqb c 64); inversion H; simpl; lia.
Qed.

Lemma uchunk_cases ls :
  match w_read_uchunk idw pinned ls with
  | UEof => ls = []
  | UErr e => e = EHeader \/ e = ESpan \/ e = EBlank
  | UChunk _ rest => (length rest < length ls)%nat
  | UUnexpected _ rest => (length rest < length ls)%nat
  end.
Proof.
  destruct ls as [|l rest]; [reflexivity|]. cbn [w_read_uchunk]. cbv zeta.
  destruct (read_uchunk_min_fields _ _ _); [left; reflexivity|].
  destruct (w_read_uspan idw pinned s_minus _) as [[llo lhi]|]; [|right; left; reflexivity].
  destruct (w_read_uspan idw pinned s_plus _) as [[rlo rhi]|]; [|right; left; reflexivity].
  destruct (read_uchunk_body rest []) as [[b es] rest'] eqn:E.
  apply body_rest_len in E. destruct b; cbn [length]; try lia. right; right; reflexivity.
Qed.

(* an error with a site other than the end of input is not io.EOF *)
Lemma esite_not_eof x e : esite x = Some e -> e <> EEof -> go_xerr_isvar (Some x) "io.EOF" = false.
Proof.
  intros H N. destruct x as [n|m|f a w|k]; cbn [go_xerr_isvar]; try reflexivity.
  cbn [esite] in H. destruct (String.eqb n "io.EOF"); [|reflexivity]. inversion H. congruence.
Qed.

Section Time.
Variable time : Type.
Variable zero_time : time.
Variable parse_time : bytes -> option time.
Notation XP := (X_Parse time zero_time parse_time).

Definition ru_ret : Type :=
  (go_xerr * list Z * Z * option (list Z) * option (R.FileInfo time) * list (option nat) * list R.Chunk)%type.

(* what a run of the chunk loop must satisfy *)
Definition ru_spec (fi : option (R.FileInfo time)) (r : res ru_ret) (m : rres (list (chunk line))) (h : list R.Chunk) : Prop :=
  exists t' ln' sv' ads' h', hext h h' /\
  match m with
  | ROk cs => cellsR h' ads' cs /\ r = Ok (None, zb t', ln', option_map zb sv', fi, ads', h')
  | RErr e => e <> EFuel /\ exists x, esite x = Some e /\ r = Ok (Some x, zb t', ln', option_map zb sv', fi, ads', h')
  end.

Lemma ru_spec_ext fi r m h h1 : hext h h1 -> ru_spec fi r m h1 -> ru_spec fi r m h.
Proof.
  intros He (t' & ln' & sv' & ads' & h' & He' & H). exists t', ln', sv', ads', h'. split; [|exact H].
  eapply hext_trans; eassumption.
Qed.

Definition unret (r : res (ctl (list Z * Z * option (list Z) * list (option nat) * list R.Chunk) ru_ret)) : res ru_ret :=
  bind r (fun c => match c with Ret x => Ok x | Next _ => Panic (PMsg "unreachable") end).

Lemma readUnified_loop_ok fuel fi : forall n ls, (length ls <= n)%nat ->
  forall mf gas t sv ln ads h acc,
  lines_of sv t = ls -> (length ls < fuel)%nat -> (length ls < gas)%nat -> (length ls < mf)%nat ->
  cellsR h ads acc ->
  ru_spec fi
    (unret (R.readUnified_loop1 fuel gas fi X_ReadString X_TrimSuffix X_CutPrefix X_Fields X_SplitN X_Atoi
              (zb t) ln (option_map zb sv) ads h))
    (w_read_uchunks idw pinned mf ls acc) h.
Proof.
  induction n as [|n IH]; intros ls Hn mf gas t sv ln ads h acc Hl Hf Hg Hm Hc;
    (destruct gas as [|gas]; [lia|]); (destruct mf as [|mf]; [lia|]);
    cbn [R.readUnified_loop1 w_read_uchunks];
    destruct (C14_readUnifiedChunk_is_source ls t sv ln fuel h ads Hl Hf) as (t1 & ln1 & sv1 & Hk);
    pose proof (uchunk_cases ls) as Hcase;
    revert Hk Hcase; destruct (w_read_uchunk idw pinned ls) as [|e|c rest|c rest]; intros Hk Hcase.
  (* the four outcomes of readUnifiedChunk, once for n = 0 and once for the step *)
  Local Ltac eof_case Hk Hc t1 ln1 sv1 ads h :=
    rewrite Hk; cbn [bind unret go_xerr_isvar String.eqb Ascii.eqb Bool.eqb];
    exists t1, ln1, sv1, ads, h; (split; [apply hext_refl | split; [exact Hc | reflexivity]]).
  Local Ltac err_case Hk Hcase e t1 ln1 sv1 ads :=
    let x := fresh "x" in let h' := fresh "h'" in let Hx := fresh "Hx" in let He := fresh "He" in
    destruct Hk as (x & h' & Hx & He & Hk); rewrite Hk; cbn [bind unret];
    rewrite (esite_not_eof x e Hx) by (destruct Hcase as [-> | [-> | ->]]; discriminate);
    cbn [go_xerr_isnil negb bind];
    exists t1, ln1, sv1, ads, h';
    (split; [exact He | split; [destruct Hcase as [-> | [-> | ->]]; discriminate | exists x; split; [exact Hx | reflexivity]]]).
  Local Ltac unexp_case Hk c t1 ln1 sv1 ads h :=
    let x := fresh "x" in let Hr := fresh "Hr" in let Hx := fresh "Hx" in let Hi := fresh "Hi" in
    destruct Hk as [Hr (x & Hx & Hi & Hk)]; rewrite Hk; cbn [bind unret];
    rewrite (esite_not_eof x EPrefix Hx) by discriminate; cbn [go_xerr_isnil negb bind];
    exists t1, ln1, sv1, (ads ++ [Some (length h)]), (h ++ [hencR c]);
    (split; [eexists; reflexivity | split; [discriminate | exists x; split; [exact Hx | reflexivity]]]).
  - eof_case Hk Hc t1 ln1 sv1 ads h.
  - err_case Hk Hcase e t1 ln1 sv1 ads.
  - exfalso. destruct ls; cbn [length] in *; lia.
  - unexp_case Hk c t1 ln1 sv1 ads h.
  - eof_case Hk Hc t1 ln1 sv1 ads h.
  - err_case Hk Hcase e t1 ln1 sv1 ads.
  - (* a chunk, and more *)
    destruct Hk as [Hr Hk]. rewrite Hk. cbn [bind go_xerr_isvar go_xerr_isnil negb].
    apply (ru_spec_ext fi _ _ h (h ++ [hencR c])); [eexists; reflexivity|].
    apply (IH rest); try lia; [exact Hr | apply cellsR_snoc; exact Hc].
  - unexp_case Hk c t1 ln1 sv1 ads h.
Qed.

Lemma uheader_rest_len ls :
  match read_uheader time zero_time parse_time ls with
  | ROk (_, rest) => (length rest <= length ls)%nat
  | RErr _ => True
  end.
Proof.
  destruct ls as [|l rest]; cbn [read_uheader]; [cbn [length]; lia|].
  destruct (cut_prefix s_mmm l); [|cbn [length]; lia].
  destruct (parse_file_line time zero_time parse_time b). destruct rest as [|r rest']; [exact I|].
  destruct (cut_prefix s_ppp r); [|exact I].
  destruct (parse_file_line time zero_time parse_time b1). cbn [length]. lia.
Qed.

Lemma uheader_err ls e :
  read_uheader time zero_time parse_time ls = RErr e -> e = EEof \/ e = ERight.
Proof.
  destruct ls as [|l rest]; cbn [read_uheader]; [discriminate|].
  destruct (cut_prefix s_mmm l); [|discriminate].
  destruct (parse_file_line time zero_time parse_time b). destruct rest as [|r rest']; [intros H; inversion H; left; reflexivity|].
  destruct (cut_prefix s_ppp r); [|intros H; inversion H; right; reflexivity].
  destruct (parse_file_line time zero_time parse_time b1). discriminate.
Qed.

(* readUnified on a fresh reader (no FileInfo, no chunks yet) *)
Lemma C14_readUnified_is_source : forall ls t sv ln fuel h,
  lines_of sv t = ls -> (length ls + 1 < fuel)%nat ->
  exists t' ln' sv' fi' ads' h', hext h h' /\
  match w_read_unified_lines idw time zero_time parse_time pinned ls with
  | ROk p =>
    fi' = option_map fiencR (p_info p) /\ cellsR h' ads' (p_chunks p) /\
    R.readUnified (zb t) ln (option_map zb sv) None [] X_ReadString X_TrimSuffix X_CutPrefix X_Cut XP X_Fields X_SplitN X_Atoi h zero_time fuel
    = Ok (None, zb t', ln', option_map zb sv', fi', ads', h')
  | RErr e =>
    e <> EFuel /\ exists x, esite x = Some e /\
    R.readUnified (zb t) ln (option_map zb sv) None [] X_ReadString X_TrimSuffix X_CutPrefix X_Cut XP X_Fields X_SplitN X_Atoi h zero_time fuel
    = Ok (Some x, zb t', ln', option_map zb sv', fi', ads', h')
  end.
Proof.
  intros ls t sv ln fuel h Hl Hf. unfold R.readUnified, w_read_unified_lines.
  destruct (C14_readUnifiedHeader_is_source time zero_time parse_time ls t sv ln None fuel Hl ltac:(lia)) as (t1 & ln1 & sv1 & Hh).
  pose proof (uheader_rest_len ls) as Hlen. pose proof (uheader_err ls) as Herr.
  destruct (read_uheader time zero_time parse_time ls) as [[fi rest]|e].
  - destruct Hh as [Hr Hh]. rewrite Hh. cbn [bind go_xerr_isnil negb].
    set (fi1 := match fi with Some f => Some (fiencR f) | None => None end).
    assert (Hc0 : cellsR h [] []) by constructor.
    pose proof (readUnified_loop_ok fuel fi1 (length rest) rest (le_n _) (S (length rest)) fuel t1 sv1 ln1 [] h [] Hr
                  ltac:(lia) ltac:(lia) ltac:(lia) Hc0) as (t' & ln' & sv' & ads' & h' & He & Hs).
    unfold unret in Hs.
    exists t', ln', sv', fi1, ads', h'. split; [exact He|].
    destruct (w_read_uchunks idw pinned (S (length rest)) rest []) as [cs|e].
    + destruct Hs as [Hc Hs]. cbn [p_info p_chunks]. split; [destruct fi; reflexivity|]. split; [exact Hc|].
      destruct (R.readUnified_loop1 _ _ _ _ _ _ _ _ _ _ _ _ _ _) as [[st|ret]| |]; cbn [bind] in Hs |- *; try discriminate Hs.
      exact Hs.
    + destruct Hs as [Hne (x & Hx & Hs)]. split; [exact Hne|]. exists x. split; [exact Hx|].
      destruct (R.readUnified_loop1 _ _ _ _ _ _ _ _ _ _ _ _ _ _) as [[st|ret]| |]; cbn [bind] in Hs |- *; try discriminate Hs.
      exact Hs.
  - destruct Hh as (x & Hx & Hh). rewrite Hh. cbn [bind go_xerr_isnil negb].
    exists t1, ln1, sv1, None, [], h. split; [apply hext_refl|]. split.
    + destruct (Herr e eq_refl) as [-> | ->]; discriminate.
    + exists (XFmt "diff header: %w" [] (Some x)). split; [|reflexivity].
      destruct (Herr e eq_refl) as [-> | ->]; cbn [esite String.eqb Ascii.eqb Bool.eqb]; exact Hx.
Qed.

(* ReadUnified(r): the io.Reader is the text *)
Lemma C14_ReadUnified_is_source : forall t h fuel,
  (length (split_lines t) + 1 < fuel)%nat ->
  match w_read_unified_lines idw time zero_time parse_time pinned (split_lines t) with
  | ROk p =>
    exists ads h', hext h h' /\ cellsR h' ads (p_chunks p) /\
    R.ReadUnified (zb t) X_NewReader X_ReadString X_TrimSuffix X_CutPrefix X_Cut XP X_Fields X_SplitN X_Atoi h zero_time fuel
    = Ok (Some (R.mk_Patch (option_map fiencR (p_info p)) ads), None, h')
  | RErr e =>
    e <> EFuel /\ exists x h', hext h h' /\ esite x = Some e /\
    R.ReadUnified (zb t) X_NewReader X_ReadString X_TrimSuffix X_CutPrefix X_Cut XP X_Fields X_SplitN X_Atoi h zero_time fuel
    = Ok (None, Some x, h')
  end.
Proof.
  intros t h fuel Hf. unfold R.ReadUnified, X_NewReader. cbn [bind]. cbv zeta.
  cbn [R.diffReader_br R.diffReader_ln R.diffReader_saved R.diffReader_fileInfo R.diffReader_chunks].
  destruct (C14_readUnified_is_source (split_lines t) t None 0 fuel h eq_refl Hf) as (t' & ln' & sv' & fi' & ads' & h' & He & Hs).
  change (option_map zb None) with (@None (list Z)) in Hs.
  destruct (w_read_unified_lines idw time zero_time parse_time pinned (split_lines t)) as [p|e].
  - destruct Hs as (Hfi & Hc & Hs). rewrite Hs. cbn [bind go_xerr_isnil negb R.diffReader_fileInfo R.diffReader_chunks].
    exists ads', h'. split; [exact He|]. split; [exact Hc|]. rewrite Hfi. reflexivity.
  - destruct Hs as (Hne & x & Hx & Hs). rewrite Hs. cbn [bind go_xerr_isnil negb].
    split; [exact Hne|]. exists x, h'. split; [exact He|]. split; [exact Hx | reflexivity].
Qed.
End Time.

Print Assumptions C14_readUnified_is_source.
Print Assumptions C14_ReadUnified_is_source.
