(* LNDSFunc, LISFunc and the wrappers LNDS, LIS of slice/lis.go: the top-level statements (the
   loops are in LisTieFunc.v, the searches in LisTieBisect.v; conventions in LisTieBase.v).

   [sres_of vs_v early out]: the slice the generated function returns: the argument itself
   ([SlOf vs_v]) on the early return -- taken exactly when the model's generated condition
   [lnds_empty_cond] / [lis_empty_cond] holds, where the model answers [Some vs] -- and a slice made
   by the function ([SlNew out]) otherwise. *)
From Coq Require Import ZArith List Bool Lia ZifyBool.
From Mds Require Import Common.FnRt GenTie.TieLib Gen.LisIdx Gen.FnLis Gen.FnSlices Slice.LcsModel Slice.LisModel
  GenTie.LisTieBase GenTie.LisTieBisect GenTie.LisTieFunc.
Import ListNotations.
Local Open Scope Z_scope.

Definition sres_of {T : Type} (vs_v : view) (early : bool) (out : list T) : go_sres T :=
  if early then SlOf vs_v else SlNew out.

Lemma req_map {A B} (f : A -> B) (o : option A) (m : res A) :
  req (emb o) m -> req (emb (option_map f o)) (bind m (fun a => Ok (f a))).
Proof. destruct o, m; simpl; intros H; try contradiction; auto. subst; reflexivity. Qed.

Lemma make_check_ok n c : 0 <= n <= c -> go_make_check n c = Ok tt.
Proof. intros H. unfold go_make_check. replace ((0 <=? n) && (n <=? c)) with true by lia. reflexivity. Qed.

Lemma zslice_lo_1 {A} (l : list A) : 1 <= FnRt.zlen l -> zslice_lo l 1 = Some (skipn 1 l).
Proof.
  intros H. unfold zslice_lo. change (LcsModel.zlen l) with (FnRt.zlen l).
  replace ((1 <? 0) || (FnRt.zlen l <? 1)) with false by lia. reflexivity.
Qed.

Section Top.
Context {T : Type}.
Variable cmp : T -> T -> Z.

Theorem C12_lnds_is_source : forall (vs : list T) (vs_v : view) (zero : T) (fuel : nat),
  (length vs + 2 <= fuel)%nat ->
  req (emb (option_map (sres_of vs_v (lnds_empty_cond (FnRt.zlen vs))) (lnds_func T cmp vs)))
      (LNDSFunc vs vs_v cmp zero fuel).
Proof.
  intros vs vs_v zero fuel Hf. unfold lnds_func, run_func, LNDSFunc.
  cbn [g_empty_cond g_range_lo g_ret_len g_start_idx lnds_gen].
  change (LcsModel.zlen vs) with (FnRt.zlen vs).
  unfold lnds_empty_cond at 2. destruct (FnRt.zlen vs =? 0) eqn:E0.
  { unfold lnds_empty_cond. rewrite E0. reflexivity. }
  unfold lnds_empty_cond. rewrite E0.
  assert (Hn : 1 <= FnRt.zlen vs) by (unfold FnRt.zlen in *; lia).
  unfold init_state. cbn [g_tails_len0 g_prev_len g_prev0_idx g_prev0_val g_tails0_idx g_tails0_val lnds_gen].
  unfold lnds_tails_len0, lnds_prev_len, lnds_prev0_idx, lnds_prev0_val, lnds_tails0_idx, lnds_tails0_val,
    lnds_range_lo, lnds_ret_len, lnds_start_idx.
  change (Z.opp 1) with (-1). change (LcsModel.zlen vs) with (FnRt.zlen vs).
  rewrite !make_check_ok by lia. cbn [bind].
  set (prev0 := repeat 0 (Z.to_nat (FnRt.zlen vs))).
  set (tails0 := repeat 0 (Z.to_nat 1)).
  destruct (zupd prev0 0 (-1)) as [prev1|] eqn:Ep.
  2:{ destruct (set_none _ _ _ Ep) as [k Ek]. rewrite Ek. exact I. }
  rewrite (set_some _ _ _ _ Ep). cbn [bind].
  destruct (zupd tails0 0 0) as [tails1|] eqn:Et.
  2:{ destruct (set_none _ _ _ Et) as [k Ek]. rewrite Ek. exact I. }
  rewrite (set_some _ _ _ _ Et). cbn [bind].
  rewrite zslice_lo_1, go_sub_tail by exact Hn. cbn [bind].
  assert (Hl1 : length tails1 = 1%nat) by (rewrite (zupd_length _ _ _ _ Et); reflexivity).
  assert (Hr : length (skipn 1 vs) = (length vs - 1)%nat) by apply skipn_length.
  pose proof (lnds_loop_agree cmp vs (skipn 1 vs) fuel fuel 0 tails1 prev1) as HL.
  change (0 + FnRt.zlen (skipn 1 vs)) with (FnRt.zlen (skipn 1 vs)) in HL.
  specialize (HL ltac:(lia) ltac:(lia)).
  destruct (main_loop T cmp (no_std T) lnds_gen vs (skipn 1 vs) 0 (tails1, prev1)) as [[tails prev]|];
    destruct (LNDSFunc_loop1 fuel fuel vs cmp (FnRt.zlen (skipn 1 vs)) tails1 prev1 0) as [[[tails' prev'] r']| |];
    cbn [agree same_state] in HL; try contradiction; cbn [bind option_map emb]; try exact I.
  destruct HL as (<- & <- & Hlt).
  change (LcsModel.zlen tails) with (FnRt.zlen tails).
  rewrite make_check_ok by (unfold FnRt.zlen; lia). cbn [bind].
  destruct (znth tails (FnRt.zlen tails - 1)) as [seqIdx|] eqn:Es.
  2:{ destruct (get_none _ _ Es) as [k Ek]. rewrite Ek. exact I. }
  rewrite (get_some _ _ _ Es). cbn [bind].
  unfold FnRt.zlen. rewrite !Nat2Z.id, !repeat_length.
  pose proof (lnds_walk_req vs (length tails) fuel fuel prev 0 [] seqIdx zero eq_refl ltac:(lia)) as HW.
  cbn [map] in HW. rewrite !app_nil_r in HW. change (Z.of_nat 0) with 0 in HW.
  change (0 + length tails)%nat with (length tails) in HW.
  apply (req_map (sres_of vs_v false)) in HW.
  match type of HW with req ?a (bind (bind ?x _) _) => match goal with |- req ?a' ?g =>
    change a' with a; replace g with (bind (bind x (fun '(r, _, _) => Ok r)) (fun a0 => Ok (sres_of vs_v false a0))) end end.
  - exact HW.
  - destruct (LNDSFunc_loop2 fuel fuel vs prev (Z.of_nat (length tails)) (repeat zero (length tails)) seqIdx 0) as [[[r1 s1] i1]| |]; reflexivity.
Qed.

(* LISFunc over ANY implementation of slices.BinarySearchFunc: [std] (model) and [bsf] (generated
   code) related on every slice shorter than the input, for the callback LISFunc hands in *)
Theorem C12_lis_is_source_any_search : forall (std : std_search T) bsf (vs : list T) (vs_v : view) (zero : T) (fuel : nat),
  (forall sub target, (length sub < length vs)%nat ->
     req (emb (std vs sub target)) (bind (bsf sub target (clo cmp vs)) (fun '(i, _) => Ok i))) ->
  (length vs + 2 <= fuel)%nat ->
  req (emb (option_map (sres_of vs_v (lis_empty_cond (FnRt.zlen vs))) (run_func T cmp std lis_gen_ vs)))
      (LISFunc vs vs_v cmp bsf zero fuel).
Proof.
  intros std bsf vs vs_v zero fuel Hstd Hf. unfold run_func, LISFunc.
  cbn [g_empty_cond g_range_lo g_ret_len g_start_idx lis_gen_].
  change (LcsModel.zlen vs) with (FnRt.zlen vs).
  unfold lis_empty_cond at 2. destruct (FnRt.zlen vs =? 0) eqn:E0.
  { unfold lis_empty_cond. rewrite E0. reflexivity. }
  unfold lis_empty_cond. rewrite E0.
  assert (Hn : 1 <= FnRt.zlen vs) by (unfold FnRt.zlen in *; lia).
  unfold init_state. cbn [g_tails_len0 g_prev_len g_prev0_idx g_prev0_val g_tails0_idx g_tails0_val lis_gen_].
  unfold lis_tails_len0, lis_prev_len, lis_prev0_idx, lis_prev0_val, lis_tails0_idx, lis_tails0_val,
    lis_range_lo, lis_ret_len, lis_start_idx.
  change (Z.opp 1) with (-1). change (LcsModel.zlen vs) with (FnRt.zlen vs).
  rewrite !make_check_ok by lia. cbn [bind].
  set (prev0 := repeat 0 (Z.to_nat (FnRt.zlen vs))).
  set (tails0 := repeat 0 (Z.to_nat 1)).
  destruct (zupd prev0 0 (-1)) as [prev1|] eqn:Ep.
  2:{ destruct (set_none _ _ _ Ep) as [k Ek]. rewrite Ek. exact I. }
  rewrite (set_some _ _ _ _ Ep). cbn [bind].
  destruct (zupd tails0 0 0) as [tails1|] eqn:Et.
  2:{ destruct (set_none _ _ _ Et) as [k Ek]. rewrite Ek. exact I. }
  rewrite (set_some _ _ _ _ Et). cbn [bind].
  rewrite zslice_lo_1, go_sub_tail by exact Hn. cbn [bind].
  assert (Hl1 : length tails1 = 1%nat) by (rewrite (zupd_length _ _ _ _ Et); reflexivity).
  assert (Hr : length (skipn 1 vs) = (length vs - 1)%nat) by apply skipn_length.
  pose proof (lis_loop_agree cmp vs std bsf (length vs) Hstd (skipn 1 vs) fuel fuel 0 tails1 prev1) as HL.
  change (0 + FnRt.zlen (skipn 1 vs)) with (FnRt.zlen (skipn 1 vs)) in HL.
  assert (Hn' : (1 <= length vs)%nat) by (unfold FnRt.zlen in Hn; lia).
  specialize (HL ltac:(lia) ltac:(lia)).
  destruct (main_loop T cmp std lis_gen_ vs (skipn 1 vs) 0 (tails1, prev1)) as [[tails prev]|];
    destruct (LISFunc_loop1 fuel fuel vs cmp bsf (FnRt.zlen (skipn 1 vs)) tails1 prev1 0) as [[[tails' prev'] r']| |];
    cbn [agree same_state] in HL; try contradiction; cbn [bind option_map emb]; try exact I.
  destruct HL as (<- & <- & Hlt).
  change (LcsModel.zlen tails) with (FnRt.zlen tails).
  rewrite make_check_ok by (unfold FnRt.zlen; lia). cbn [bind].
  destruct (znth tails (FnRt.zlen tails - 1)) as [seqIdx|] eqn:Es.
  2:{ destruct (get_none _ _ Es) as [k Ek]. rewrite Ek. exact I. }
  rewrite (get_some _ _ _ Es). cbn [bind].
  unfold FnRt.zlen. rewrite !Nat2Z.id, !repeat_length.
  pose proof (lis_walk_req vs (length tails) fuel fuel prev 0 [] seqIdx zero eq_refl ltac:(lia)) as HW.
  cbn [map] in HW. rewrite !app_nil_r in HW. change (Z.of_nat 0) with 0 in HW.
  change (0 + length tails)%nat with (length tails) in HW.
  apply (req_map (sres_of vs_v false)) in HW.
  match type of HW with req ?a (bind (bind ?x _) _) => match goal with |- req ?a' ?g =>
    change a' with a; replace g with (bind (bind x (fun '(r, _, _) => Ok r)) (fun a0 => Ok (sres_of vs_v false a0))) end end.
  - exact HW.
  - destruct (LISFunc_loop2 fuel fuel vs prev (Z.of_nat (length tails)) (repeat zero (length tails)) seqIdx 0) as [[[r1 s1] i1]| |]; reflexivity.
Qed.

(* LISFunc with the standard library's own slices.BinarySearchFunc (the function generated from
   GOROOT/src/slices/sort.go, go1.23) = the model lis_func (built on the hand copy of that loop) *)
Theorem C12_lis_is_source : forall (vs : list T) (vs_v : view) (zero : T) (fuel : nat),
  (length vs + 2 <= fuel)%nat ->
  req (emb (option_map (sres_of vs_v (lis_empty_cond (FnRt.zlen vs))) (lis_func T cmp vs)))
      (LISFunc vs vs_v cmp (fun sub target c => BinarySearchFunc sub target c fuel) zero fuel).
Proof.
  intros vs vs_v zero fuel Hf. unfold lis_func.
  apply C12_lis_is_source_any_search; [|exact Hf].
  intros sub target Hs.
  apply (C12_BinarySearchFunc_is_source cmp lis_gen_ vs (clo cmp vs) (clo_ok_lis cmp vs)). lia.
Qed.

(* the wrappers hand on their argument and cmp.Compare (the argument cmp_T), nothing else *)
Theorem C12_lnds_wrapper_is_source : forall (vs : list T) (vs_v : view) (zero : T) (fuel : nat),
  (length vs + 2 <= fuel)%nat ->
  req (emb (option_map (sres_of vs_v (lnds_empty_cond (FnRt.zlen vs))) (lnds_func T cmp vs)))
      (LNDS vs vs_v cmp zero fuel).
Proof. intros. unfold LNDS. apply C12_lnds_is_source. assumption. Qed.

Theorem C12_lis_wrapper_is_source : forall (vs : list T) (vs_v : view) (zero : T) (fuel : nat),
  (length vs + 2 <= fuel)%nat ->
  req (emb (option_map (sres_of vs_v (lis_empty_cond (FnRt.zlen vs))) (lis_func T cmp vs)))
      (LIS vs vs_v (fun sub target c => BinarySearchFunc sub target c fuel) cmp zero fuel).
Proof. intros. unfold LIS. apply C12_lis_is_source. assumption. Qed.
End Top.

Print Assumptions C12_lnds_is_source.
Print Assumptions C12_lis_is_source_any_search.
Print Assumptions C12_lis_is_source.
Print Assumptions C12_lnds_wrapper_is_source.
Print Assumptions C12_lis_wrapper_is_source.
