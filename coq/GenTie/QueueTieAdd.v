(* Queue.Add of queue/queue.go: model = generated function (see QueueTieBase.v) *)
From Coq Require Import ZArith List Bool Lia.
From Mds Require Import Common.FnRt GenTie.TieLib Gen.FnQueue Gen.QueueIdx GenTie.QueueTieBase.
Import ListNotations.
Local Open Scope Z_scope.

Section Queue.
Context {T : Type}.
Variable zero : T.
Notation queue := (Q.queue T).
Notation vs := (@Q.vs T).
Notation head := (@Q.head T).
Notation qn := (@Q.n T).
Notation rot := (@rot T).
Notation app_or := (app_or zero).
Notation grow_eq := (grow_eq zero).

Theorem C07_add_is_source : forall (q : queue) (v : T) (c : Z),
  Add (vs q) (head q) (qn q) v rot (app_or c) = embf fields (Q.add Q.idw T zero q v c).
Proof.
  intros [l h n] v c. unfold Add, Q.add. cbn [Q.vs Q.head Q.n]. qunf.
  change (Q.zlen T l) with (zlen l).
  case_if.
  { rewrite set_eq. case_if; cbv zeta;
      match goal with |- context[Q.upd T l ?p v] => destruct (Q.upd T l p v) end; reflexivity. }
  unfold Q.rotate_home. cbn [Q.vs Q.head]. qunf.
  assert (K : forall l1 h1,
    bind (app_or c l1 [v]) (fun '(w, w_spare) =>
      bind (go_sub_cap w w_spare 0 (zlen w + zlen w_spare)) (fun q_vs => Ok (q_vs, h1, n + 1)))
    = embf fields (match Q.append_cap T zero l1 v c with
                   | None => Q.BadOracle
                   | Some wbuf => Q.bind (Q.of_opt (Q.reslice T wbuf c c) Q.PIndex)
                                    (fun vs2 => Q.QOk {| Q.vs := vs2; Q.head := h1; Q.n := n + 1 |})
                   end)).
  { intros l1 h1. unfold app_or, Q.append_cap. change (Q.zlen T l1) with (zlen l1).
    destruct (c >? zlen l1) eqn:E; [|reflexivity].
    destruct (grow_eq l1 v c E) as [G1 G2]. cbn [bind]. rewrite G1, G2. reflexivity. }
  case_if; cbn [bind].
  - unfold rot. destruct (Q.rotate_go T l (- h)) as [l1| | |]; cbn [embf bind Q.bind]; try reflexivity.
    apply K.
  - apply K.
Qed.

End Queue.

Print Assumptions C07_add_is_source.
