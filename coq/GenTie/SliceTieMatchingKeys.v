(* slice.MatchingKeys (slice/slice.go, outside property C17): model = generated function.

   MatchingKeys(m, f) returns the iterator closure
       func(yield) { for k, v := range m { if f(v) { if !yield(k) { return } } } }.
   As for Select, the heap backend translates F(m, f)(yield) as ONE function of both parameter lists
   (the outer function does nothing before it returns the closure, which assigns none of the captured
   parameters) with a STATEFUL consumer: yield threads a state and answers the bool Go's yield
   function returns.  The map is only ranged over: the generated function takes it as the list of
   its entries IN THE ORDER THIS ITERATION VISITS THEM (Gen/FnSliceIterMK.v: `m : list (T * U)`,
   translator kind rmap).  Go leaves that order open and visits every key once; the statements below
   are for EVERY list of entries (every order, duplicate keys or not), so in particular for every
   enumeration of a map.  The supplementary model (SliceUtilExtraModel.matching_loop) reads a map
   the same way and also counts the calls of f; tied to its first component (the consumer's final
   state), for every consumer, every test f, every start state, fuel above the number of entries.

   Still outside: that the Go runtime's iteration is an enumeration of the map (each key once) and
   the identity of the closure value; `comparable` is not used by the function. *)
From Coq Require Import ZArith List Bool Lia Permutation.
From Mds Require Import Common.FnRt Common.FnHeap GenTie.TieLib.
From Mds Require Gen.FnSliceIterMK Slice.SliceUtilExtraModel Slice.SliceUtilExtraProofs.
Import ListNotations.
Local Open Scope Z_scope.

Module MK := FnSliceIterMK.
Module XM := SliceUtilExtraModel.
Module XP := SliceUtilExtraProofs.

Section Iter.
Context {K U S : Type}.
Variable yieldK : S -> K -> S * bool.
Variable f : U -> bool.

(* the model's consumer as the generated code's callback: (state, key) -> (answer, state) *)
Definition kyield (s : S) (k : K) : res (bool * S) := Ok (snd (yieldK s k), fst (yieldK s k)).

Lemma matching_loop_eq : forall (suf pre : list (K * U)) (s : S) (calls : Z) (fuel gas : nat),
  (gas > length suf)%nat ->
  bind (MK.MatchingKeys_loop1 fuel gas (pre ++ suf) f kyield (zlen (pre ++ suf)) s (zlen pre))
       (fun r => match r with Ret s' => Ok s' | Next (s', _) => Ok s' end)
  = Ok (fst (XM.matching_loop yieldK f suf s calls)).
Proof.
  induction suf as [|[k v] suf IH]; intros pre s calls fuel gas Hg.
  - destruct gas; [simpl in Hg; lia|]. cbn [MK.MatchingKeys_loop1 XM.matching_loop]. rewrite app_nil_r.
    rewrite Z.ltb_irrefl. reflexivity.
  - destruct gas; [simpl in Hg; lia|]. cbn [MK.MatchingKeys_loop1 XM.matching_loop].
    assert (C : zlen pre <? zlen (pre ++ (k, v) :: suf) = true) by (apply Z.ltb_lt; unfold zlen; rewrite app_length; simpl; lia).
    rewrite C.
    assert (G : go_get (pre ++ (k, v) :: suf) (zlen pre) = Ok (k, v)).
    { unfold go_get.
      assert (C2 : (0 <=? zlen pre) && (zlen pre <? zlen (pre ++ (k, v) :: suf)) = true)
        by (rewrite C; apply andb_true_intro; split; [apply Z.leb_le; unfold zlen; lia|reflexivity]).
      rewrite C2. unfold zlen. rewrite Nat2Z.id, nth_error_app2 by lia. rewrite Nat.sub_diag. reflexivity. }
    rewrite G. cbn [bind].
    replace (pre ++ (k, v) :: suf) with ((pre ++ [(k, v)]) ++ suf) by (rewrite <- app_assoc; reflexivity).
    replace (zlen pre + 1) with (zlen (pre ++ [(k, v)])) by (unfold zlen; rewrite app_length; simpl; lia).
    destruct (f v).
    + unfold kyield at 1. cbn [bind]. destruct (yieldK s k) as [s1 b]. cbn [fst snd].
      destruct b; cbn [negb].
      * apply IH. simpl in Hg. lia.
      * reflexivity.
    + apply IH. simpl in Hg. lia.
Qed.

Theorem matchingkeys_is_source : forall (kvs : list (K * U)) (s : S) (fuel : nat),
  (fuel > length kvs)%nat ->
  MK.MatchingKeys kvs f kyield s fuel = Ok (fst (XM.matching_loop yieldK f kvs s 0)).
Proof.
  intros kvs s fuel Hf. unfold MK.MatchingKeys. cbv zeta.
  rewrite <- (matching_loop_eq kvs [] s 0 fuel fuel Hf). cbn [app]. change (zlen (@nil (K * U))) with 0.
  destruct (MK.MatchingKeys_loop1 fuel fuel kvs f kyield (zlen kvs) s 0) as [c| |]; [destruct c as [[s' r]|s']| |]; reflexivity.
Qed.

(* what the consumer sees: exactly the keys whose value satisfies f, in the order of the iteration,
   until it answers false *)
Theorem matchingkeys_source_spec : forall (kvs : list (K * U)) (s : S) (fuel : nat),
  (fuel > length kvs)%nat ->
  MK.MatchingKeys kvs f kyield s fuel
  = Ok (XP.feed yieldK (map fst (filter (fun kv => f (snd kv)) kvs)) s).
Proof. intros kvs s fuel Hf. rewrite matchingkeys_is_source by exact Hf. rewrite XP.matching_spec. reflexivity. Qed.

End Iter.

(* consumed completely by `for k := range seq { out = append(out, k) }`: in whatever order the
   runtime iterates the map (kvs any permutation of the entries ref), the generated function hands
   over a permutation of the matching keys *)
Theorem matchingkeys_source_any_order {K U : Type} (f : U -> bool) (kvs ref : list (K * U)) (fuel : nat) :
  Permutation kvs ref -> (fuel > length kvs)%nat ->
  exists ks c, MK.MatchingKeys kvs f (kyield (XM.take_consumer 0)) ([], 0) fuel = Ok (ks, c) /\
               Permutation ks (map fst (filter (fun kv => f (snd kv)) ref)).
Proof.
  intros P Hf. rewrite (matchingkeys_is_source (XM.take_consumer 0) f kvs ([], 0) fuel Hf).
  destruct (XP.matching_keys_any_order f kvs ref P) as [ks [E Pk]].
  destruct (fst (XM.matching_loop (XM.take_consumer 0) f kvs ([], 0) 0)) as [ks' c] eqn:Em.
  cbn [fst] in E. subst ks'. exists ks, c. split; [reflexivity | exact Pk].
Qed.

Print Assumptions matchingkeys_is_source.
Print Assumptions matchingkeys_source_spec.
Print Assumptions matchingkeys_source_any_order.
