(* stree: node.clone generated from the source, separation-style: on ANY heap that represents t at
   a (repr: the original may even share cells) the copy is a TREE-SHAPED region (trepr, StreeSep.v)
   made of cells allocated by the call only -- every address of its footprint lies beyond the old
   heap, which is untouched (h ++ ext).  With the frame lemmas of StreeSep.v this is "operations on
   the clone do not affect t and vice versa": a mutator run on one of the two regions leaves every
   cell outside that region's footprint as it was. *)
From Coq Require Import ZArith List Bool Arith Lia.
From Mds Require Import Gen.StreeConst Gen.StreeNode.
From Mds Require Import Common.FnRt Common.FnHeap GenTie.TieLib GenTie.StreeTieBase GenTie.StreeSep.
Import ListNotations.

Section CloneSep.
Context {T : Type}.
Notation tree := (SM.tree T).
Notation heap := (list (G.node T)).

Theorem C01_clone_sep_is_source : forall (fuel : nat) (h : heap) (a : option nat) (t : tree),
  repr h a t -> (fuel > depth t)%nat ->
  exists a' ext F', G.node_clone a h fuel = Ok (a', h ++ ext) /\
                    trepr (h ++ ext) a' (SM.clone t) F' /\
                    (forall k, In k F' -> (length h <= k)%nat).
Proof.
  induction fuel as [|fuel IH]; intros h a t R Hf; [lia|].
  destruct t as [|l x r]; cbn [G.node_clone].
  - apply repr_leaf_inv in R. subst a. exists None, [], []. rewrite app_nil_r.
    split; [reflexivity|]. split; [constructor|intros k []].
  - rnode R k c Hk Hl Hr. cbn [go_pnil depth SM.clone] in *.
    rewrite (hget_repr h k c Hk). cbn [bind].
    destruct (IH h _ l Hl ltac:(lia)) as [al [e1 [F1 [E1 [R1 B1]]]]]. rewrite E1. cbn [bind].
    assert (Hk1 : nth_error (h ++ e1) k = Some c).
    { rewrite nth_error_app1; [exact Hk|]. apply nth_error_Some. rewrite Hk. discriminate. }
    rewrite (hget_repr (h ++ e1) k c Hk1). cbn [bind].
    destruct (IH (h ++ e1) _ r (repr_app h e1 _ _ Hr) ltac:(lia)) as [ar [e2 [F2 [E2 [R2 B2]]]]]. rewrite E2. cbn [bind].
    unfold go_hnew. set (n := length ((h ++ e1) ++ e2)). set (c' := G.mk_node (G.node_X c) al ar).
    exists (Some n), (e1 ++ e2 ++ [c']), (n :: F1 ++ F2).
    assert (EH : h ++ e1 ++ e2 ++ [c'] = ((h ++ e1) ++ e2) ++ [c']) by (rewrite !app_assoc; reflexivity).
    split; [rewrite EH; reflexivity|]. rewrite EH.
    pose proof (trepr_bound _ _ _ _ R1) as U1. pose proof (trepr_bound _ _ _ _ R2) as U2.
    assert (Ln : (length (h ++ e1) <= n)%nat) by (unfold n; rewrite (app_length (h ++ e1) e2); lia).
    split.
    + apply (trepr_mk _ n c' (SM.clone l) (SM.clone r) F1 F2); cbn [G.node_left G.node_right G.node_X]; unfold c'.
      * rewrite nth_error_app2 by (unfold n; lia). unfold n. rewrite Nat.sub_diag. reflexivity.
      * cbn [G.node_left]. apply trepr_app. apply trepr_app. exact R1.
      * cbn [G.node_right]. apply trepr_app. exact R2.
      * intros X. apply U1 in X. lia.
      * intros X. apply U2 in X. unfold n in X. lia.
      * intros j Hj X. apply U1 in Hj. apply B2 in X. lia.
      * reflexivity.
    + intros j [<-|Hj]; [rewrite app_length in Ln; lia|].
      apply in_app_iff in Hj. destruct Hj as [Hj|Hj]; [apply B1; exact Hj|]. apply B2 in Hj. rewrite app_length in Hj. lia.
Qed.

End CloneSep.

Print Assumptions C01_clone_sep_is_source.
