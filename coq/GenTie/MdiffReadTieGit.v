(* mdiff/reader.go: ReadGitPatch = the model's read_git_lines (variant pinned, unbounded ints).

   The local `rd := &diffReader{...}` of the source is a RECORD variable of the generated function;
   its projections are handed to scanToPrefix / readUnifiedHeader / readUnifiedChunk and it is
   rebuilt from what they hand back.  [mkrd] is that record for a reader that will deliver the
   lines [lines_of sv t].

   The inner loop ends a patch on `err == io.EOF || errors.Is(err, errUnexpectedPrefix)`.  The
   chunk tie of MdiffReadTieChunk.v says of an error of readUnifiedChunk only its site; here the
   test needs more: an error of the sites EHeader / ESpan / EBlank is neither io.EOF nor wraps the
   sentinel ([plain_err]), and at io.EOF no line is left.  [body_loop_strong] and
   [readUnifiedChunk_strong] are the chunk tie with these two clauses added (same proofs).

   After scanToPrefix("--- ") succeeds the first line left has the prefix "--- "
   ([scan_to_prefix_some]), so readUnifiedHeader answers a FileInfo or an error, never "no header"
   ([read_uheader_pfx]): the model's branch `ROk (None, _) => RErr EPatchHeader` and the source's
   `if rd.fileInfo == nil` (on a field that may still hold the PREVIOUS patch's FileInfo) are both
   unreachable. *)
From Coq Require Import ZArith NArith List Bool Lia.
Require Coq.Strings.String.
From Mds Require Import Mdiff.ReaderModel Gen.MdiffReadSpan.
From Mds Require Import Common.FnRt Common.FnHeap Common.FnText GenTie.TieLib GenTie.MdiffFmtTieBase
  GenTie.MdiffReadTieBase GenTie.MdiffReadTieSpan GenTie.MdiffReadTieScan GenTie.MdiffReadTieHeader
  GenTie.MdiffReadTieChunk GenTie.MdiffReadModelW.
Import ListNotations.
Local Open Scope Z_scope.

Notation idw := (fun z : Z => z).

(* ---- an error that does not end a patch ---- *)
Definition plain_err (x : go_xerrv) : Prop :=
  go_xerr_isvar (Some x) "io.EOF" = false /\ go_xerr_is (Some x) "mdiff.errUnexpectedPrefix" = false.

Lemma span_err_is tag s name : go_xerrv_is (span_err tag s) name = false.
Proof. unfold span_err. destruct (cut_prefix tag s); reflexivity. Qed.

(* ---- the body loop of readUnifiedChunk, with the blank-line error known to be plain ---- *)
Section Body.
Variables (pre : list R.Chunk) (a b c d : Z) (ads : list (option nat)).
Notation ch := (Some (length pre)).
Notation cell es := (R.mk_Chunk (map eencR es) a b c d).

Lemma body_loop_strong fuel : forall ls t sv ln gas es,
  lines_of sv t = ls -> (length ls < gas)%nat ->
  exists t' ln' sv',
  match read_uchunk_body ls es with
  | (BodyBlank, es', rest) =>
    exists x, esite x = Some EBlank /\ plain_err x /\
    R.readUnifiedChunk_loop1 fuel gas X_ReadString X_TrimSuffix ch (zb t) ln (option_map zb sv) ads (pre ++ [cell es])
    = Ok (Ret (Some x, zb t', ln', option_map zb sv', ads, pre ++ [cell es']))
  | (BodyUnexpected, es', rest) =>
    lines_of sv' t' = rest /\
    exists x, esite x = Some EPrefix /\ go_xerr_is (Some x) "mdiff.errUnexpectedPrefix" = true /\
    R.readUnifiedChunk_loop1 fuel gas X_ReadString X_TrimSuffix ch (zb t) ln (option_map zb sv) ads (pre ++ [cell es])
    = Ok (Ret (Some x, zb t', ln', option_map zb sv', ads ++ [ch], pre ++ [cell es']))
  | (_, es', rest) =>
    lines_of sv' t' = rest /\
    R.readUnifiedChunk_loop1 fuel gas X_ReadString X_TrimSuffix ch (zb t) ln (option_map zb sv) ads (pre ++ [cell es])
    = Ok (Next (zb t', ln', option_map zb sv', ads, pre ++ [cell es']))
  end.
Proof.
  induction ls as [|l rest IH]; intros t sv ln gas es Hl Hg; (destruct gas as [|gas]; [simpl in Hg; lia|]);
    rewrite chunk_loop_unfold, C14_readline_is_source; rewrite lines_of_next in Hl.
  - destruct (rl_next sv t) as [[l0 t1]|]; [discriminate|].
    cbn [bind go_xerr_isvar String.eqb Ascii.eqb Bool.eqb read_uchunk_body].
    exists [], ln, None. split; reflexivity.
  - destruct (rl_next sv t) as [[l0 t1]|]; [|discriminate].
    assert (E0 : l0 = l) by congruence. assert (H1 : lines_of None t1 = rest) by congruence. subst l0. clear Hl.
    cbn [bind go_xerr_isvar go_xerr_isnil negb]. rewrite str_eqb_nil.
    destruct l as [|c0 tl].
    + (* a blank line *)
      cbn [is_nil read_uchunk_body].
      exists t1, (match sv with Some _ => ln | None => ln + 1 end), None.
      exists (XFmt "line %d: unexpected blank line" [FInt (match sv with Some _ => ln | None => ln + 1 end)] None).
      split; [reflexivity | split; [split; reflexivity | reflexivity]].
    + cbn [is_nil]. rewrite zb_cons, go_get_0. cbn [bind]. cbv zeta.
      change 32 with (Z.of_N 32). change 45 with (Z.of_N 45). change 43 with (Z.of_N 43). change 64 with (Z.of_N 64).
      rewrite !of_N_eqb. cbn [read_uchunk_body].
      change (Z.of_N 32) with 32. change (Z.of_N 45) with 45. change (Z.of_N 43) with 43.
      destruct (N.eqb c0 32); [|destruct (N.eqb c0 45); [|destruct (N.eqb c0 43); [|destruct (N.eqb c0 64)]]].
      * rewrite substr_tail. cbn [bind].
        change 61 with (op_code Emit). rewrite add_blk_ok by (left; reflexivity).
        apply (IH t1 None); [exact H1 | simpl in Hg; lia].
      * rewrite substr_tail. cbn [bind].
        change 45 with (op_code Drop). rewrite add_blk_ok by (right; left; reflexivity).
        apply (IH t1 None); [exact H1 | simpl in Hg; lia].
      * rewrite substr_tail. cbn [bind].
        change 43 with (op_code Copy). rewrite add_blk_ok by (right; right; reflexivity).
        apply (IH t1 None); [exact H1 | simpl in Hg; lia].
      * (* '@': another chunk follows *)
        rewrite C14_unread_is_source.
        exists t1, (match sv with Some _ => ln | None => ln + 1 end), (Some (c0 :: tl)).
        split; [rewrite lines_of_saved, H1; reflexivity | reflexivity].
      * (* anything else *)
        cbn [bind]. rewrite C14_unread_is_source.
        exists t1, (match sv with Some _ => ln | None => ln + 1 end), (Some (c0 :: tl)).
        split; [rewrite lines_of_saved, H1; reflexivity|].
        eexists. split; [|split; [|reflexivity]]; reflexivity.
Qed.
End Body.

(* an error answered before the chunk is allocated: the heap as it is *)
Ltac err_here h :=
  eexists; exists h; (split; [| split; [| split; [apply hext_refl | reflexivity]]]);
  [reflexivity | split; [reflexivity | first [reflexivity | cbn [go_xerr_is go_xerrv_is]; apply span_err_is]]].

Lemma readUnifiedChunk_strong : forall ls t sv ln fuel h ads,
  lines_of sv t = ls -> (length ls < fuel)%nat ->
  exists t' ln' sv',
  match w_read_uchunk (fun z => z) pinned ls with
  | UEof =>
    lines_of sv' t' = [] /\
    R.readUnifiedChunk (zb t) ln (option_map zb sv) ads X_ReadString X_TrimSuffix X_Fields X_CutPrefix X_SplitN X_Atoi h fuel
    = Ok (Some (XVar "io.EOF"), zb t', ln', option_map zb sv', ads, h)
  | UErr e =>
    exists x h', esite x = Some e /\ plain_err x /\ hext h h' /\
    R.readUnifiedChunk (zb t) ln (option_map zb sv) ads X_ReadString X_TrimSuffix X_Fields X_CutPrefix X_SplitN X_Atoi h fuel
    = Ok (Some x, zb t', ln', option_map zb sv', ads, h')
  | UChunk c rest =>
    lines_of sv' t' = rest /\
    R.readUnifiedChunk (zb t) ln (option_map zb sv) ads X_ReadString X_TrimSuffix X_Fields X_CutPrefix X_SplitN X_Atoi h fuel
    = Ok (None, zb t', ln', option_map zb sv', ads ++ [Some (length h)], h ++ [hencR c])
  | UUnexpected c rest =>
    lines_of sv' t' = rest /\
    exists x, esite x = Some EPrefix /\ go_xerr_is (Some x) "mdiff.errUnexpectedPrefix" = true /\
    R.readUnifiedChunk (zb t) ln (option_map zb sv) ads X_ReadString X_TrimSuffix X_Fields X_CutPrefix X_SplitN X_Atoi h fuel
    = Ok (Some x, zb t', ln', option_map zb sv', ads ++ [Some (length h)], h ++ [hencR c])
  end.
Proof.
  intros ls t sv ln fuel h ads Hl Hf. unfold R.readUnifiedChunk.
  rewrite C14_readline_is_source. rewrite lines_of_next in Hl.
  destruct (rl_next sv t) as [[l t1]|].
  2:{ subst ls. cbn [bind go_xerr_isnil negb w_read_uchunk]. exists [], ln, None. split; reflexivity. }
  subst ls. cbn [bind go_xerr_isnil negb w_read_uchunk]. cbv zeta.
  set (ln1 := match sv with Some _ => ln | None => ln + 1 end).
  rewrite X_Fields_zb. cbn [bind].
  unfold read_uchunk_min_fields.
  destruct (fields l) as [|p0 [|p1 [|p2 [|p3 ps]]]] eqn:Ef;
    try (cbn [map zlen length Z.of_nat Pos.of_succ_nat Pos.succ Z.ltb Z.compare Pos.compare Pos.compare_cont bind llen orb];
         exists t1, ln1, None; err_here h).
  (* at least four fields *)
  cbn [map]. rewrite (zlen_ge4 (zb p0) (zb p1) (zb p2) (zb p3) (map zb ps)), go_get_0. cbn [bind].
  replace (llen (p0 :: p1 :: p2 :: p3 :: ps) <? 4) with false by (symmetry; apply (zlen_ge4 p0 p1 p2 p3 ps)).
  cbn [nth_field nth orb].
  change (go_str "@@") with (zb s_atat). rewrite !str_eqb_zb.
  destruct (bytes_eqb p0 s_atat); cbn [negb bind orb].
  2:{ exists t1, ln1, None. err_here h. }
  rewrite go_get_3. cbn [bind]. rewrite str_eqb_zb.
  destruct (bytes_eqb p3 s_atat); cbn [negb bind].
  2:{ exists t1, ln1, None. err_here h. }
  rewrite go_get_1. cbn [bind].
  change (go_str "-") with (zb s_minus). rewrite C14_parseSpan_is_source, uspan_pinned.
  destruct (parse_span parse_span_omitted_hi s_minus p1) as [[llo lhi]|]; cbn [bind go_xerr_isnil negb].
  2:{ exists t1, ln1, None. err_here h. }
  rewrite go_get_2. cbn [bind].
  change (go_str "+") with (zb s_plus). rewrite C14_parseSpan_is_source, uspan_pinned.
  destruct (parse_span parse_span_omitted_hi s_plus p2) as [[rlo rhi]|]; cbn [bind go_xerr_isnil negb].
  2:{ exists t1, ln1, None. err_here h. }
  cbn [go_hnew]. cbv zeta.
  assert (H1 : lines_of None t1 = lines_of None t1) by reflexivity.
  destruct (body_loop_strong h llo (llo + lhi) rlo (rlo + rhi) ads fuel (lines_of None t1) t1 None ln1 fuel [] H1)
    as (t' & ln' & sv' & Hb).
  { simpl in Hf. lia. }
  change (R.mk_Chunk (map eencR []) llo (llo + lhi) rlo (rlo + rhi)) with (R.mk_Chunk [] llo (llo + lhi) rlo (rlo + rhi)) in Hb.
  change (option_map zb None) with (@None (list Z)) in Hb.
  subst ln1. exists t', ln', sv'.
  destruct (read_uchunk_body (lines_of None t1) []) as [[bend es] rest'].
  destruct bend; cbn iota beta.
  - destruct Hb as [Hr Hb]. setoid_rewrite Hb. cbn [bind]. split; [exact Hr | reflexivity].
  - destruct Hb as [Hr Hb]. setoid_rewrite Hb. cbn [bind]. split; [exact Hr | reflexivity].
  - destruct Hb as [Hr (x & Hx & Hi & Hb)]. setoid_rewrite Hb. cbn [bind]. split; [exact Hr|].
    exists x. split; [exact Hx | split; [exact Hi | reflexivity]].
  - destruct Hb as (x & Hx & Hp & Hb). setoid_rewrite Hb. cbn [bind].
    exists x. eexists. split; [exact Hx | split; [exact Hp | split; [|reflexivity]]]. eexists; reflexivity.
Qed.

(* ---- facts of the model ---- *)
Lemma read_uchunk_body_len : forall ls es,
  (length (snd (read_uchunk_body ls es)) <= length ls)%nat.
Proof.
  induction ls as [|l rest IH]; intros es; cbn [read_uchunk_body]; [apply Nat.le_refl|].
  destruct l as [|c0 tl]; [cbn [snd length]; lia|].
  destruct (N.eqb c0 32); [specialize (IH (add_text Emit tl es)); cbn [length]; lia|].
  destruct (N.eqb c0 45); [specialize (IH (add_text Drop tl es)); cbn [length]; lia|].
  destruct (N.eqb c0 43); [specialize (IH (add_text Copy tl es)); cbn [length]; lia|].
  destruct (N.eqb c0 64); cbn [snd]; apply Nat.le_refl.
Qed.

(* a chunk takes at least its header line; an error of readUnifiedChunk is not the fuel marker *)
Lemma w_read_uchunk_facts ls :
  match w_read_uchunk idw pinned ls with
  | UEof => True
  | UErr e => e <> EFuel
  | UChunk _ rest => (length rest < length ls)%nat
  | UUnexpected _ rest => (length rest < length ls)%nat
  end.
Proof.
  destruct ls as [|l rest]; cbn [w_read_uchunk]; [exact I|].
  destruct (read_uchunk_min_fields _ _ _); [discriminate|].
  destruct (w_read_uspan idw pinned s_minus _) as [[llo lhi]|]; [|discriminate].
  destruct (w_read_uspan idw pinned s_plus _) as [[rlo rhi]|]; [|discriminate].
  pose proof (read_uchunk_body_len rest []) as Hlen.
  destruct (read_uchunk_body rest []) as [[bend es] rest']. cbn [snd] in Hlen.
  destruct bend; cbn [length]; try lia. discriminate.
Qed.

Lemma scan_to_prefix_some p : forall ls r, scan_to_prefix p ls = Some r ->
  (length r <= length ls)%nat /\ exists l r', r = l :: r' /\ has_prefix p l = true.
Proof.
  induction ls as [|l rest IH]; intros r H; cbn [scan_to_prefix] in H; [discriminate|].
  destruct (has_prefix p l) eqn:Hp.
  - assert (r = l :: rest) by congruence. subst r. split; [apply Nat.le_refl|]. exists l, rest. split; [reflexivity | exact Hp].
  - destruct (IH r H) as [Hlen Hex]. split; [cbn [length]; lia | exact Hex].
Qed.

(* [line] and [bytes] are the same type under two names: one name for lia *)
Ltac llia := unfold line in *; lia.

Section Git.
Variable time : Type.
Variable zero_time : time.
Variable parse_time : bytes -> option time.
Notation XP := (X_Parse time zero_time parse_time).

(* on a first line with the prefix "--- " the header is read or an error: never "no header" *)
Lemma read_uheader_pfx ls l r' : ls = l :: r' -> has_prefix s_mmm l = true ->
  match read_uheader time zero_time parse_time ls with
  | ROk (Some _, rest) => (length rest < length ls)%nat
  | ROk (None, _) => False
  | RErr e => e <> EFuel
  end.
Proof.
  intros ->. unfold has_prefix. cbn [read_uheader]. destruct (cut_prefix s_mmm l) as [lhs|]; [intros _|discriminate].
  destruct (parse_file_line time zero_time parse_time lhs) as [lname ltime].
  destruct r' as [|r rest]; [discriminate|].
  destruct (cut_prefix s_ppp r) as [rhs|]; [|discriminate].
  destruct (parse_file_line time zero_time parse_time rhs) as [rname rtime].
  cbn [length]. apply Nat.lt_lt_succ_r, Nat.lt_succ_diag_r.
Qed.

(* ---- the reader record ---- *)
Definition mkrd (t : bytes) (ln : Z) (sv : option line) (fi : option (R.FileInfo time)) (ads : list (option nat))
  : R.diffReader (list Z) time :=
  R.mk_diffReader (zb t) ln (option_map zb sv) fi ads.

(* ---- the inner loop: the chunks of one patch ---- *)
Lemma ReadGitPatch_loop2_ok fuel : forall n ls, (length ls < n)%nat ->
  forall mf gas t sv ln fi ads h acc (out : list (option (R.Patch time))),
  lines_of sv t = ls -> (length ls < fuel)%nat -> (length ls < gas)%nat -> (length ls < mf)%nat ->
  cellsR h ads acc ->
  match w_read_git_chunks idw pinned mf ls acc with
  | ROk (cs, rest) =>
    exists t' ln' sv' ads' h', hext h h' /\ cellsR h' ads' cs /\ lines_of sv' t' = rest /\
      (length rest <= length ls)%nat /\
      R.ReadGitPatch_loop2 fuel gas X_ReadString X_TrimSuffix X_CutPrefix X_Fields X_SplitN X_Atoi out (mkrd t ln sv fi ads) h
      = Ok (Next (out ++ [Some (R.mk_Patch fi ads')], mkrd t' ln' sv' fi [], h'))
  | RErr e =>
    e <> EFuel /\ exists x h', hext h h' /\ esite x = Some e /\
      R.ReadGitPatch_loop2 fuel gas X_ReadString X_TrimSuffix X_CutPrefix X_Fields X_SplitN X_Atoi out (mkrd t ln sv fi ads) h
      = Ok (Ret ([], Some x, h'))
  end.
Proof.
  induction n as [|n IH]; intros ls Hn; [lia|].
  intros mf gas t sv ln fi ads h acc out Hl Hf Hg Hm Hc.
  destruct gas as [|gas]; [lia|]. destruct mf as [|mf]; [lia|].
  cbn [R.ReadGitPatch_loop2 w_read_git_chunks]. unfold mkrd.
  cbn [R.diffReader_br R.diffReader_ln R.diffReader_saved R.diffReader_chunks R.diffReader_fileInfo].
  destruct (readUnifiedChunk_strong ls t sv ln fuel h ads Hl Hf) as (t' & ln' & sv' & H).
  pose proof (w_read_uchunk_facts ls) as Hfacts.
  destruct (w_read_uchunk idw pinned ls) as [|e|c rest|c rest].
  - (* io.EOF: the patch ends *)
    destruct H as [Hr H]. rewrite H. cbn [bind]. cbv zeta.
    change (go_xerr_isvar (Some (XVar "io.EOF")) "io.EOF") with true. cbn [orb].
    cbn [R.diffReader_br R.diffReader_ln R.diffReader_saved R.diffReader_chunks R.diffReader_fileInfo].
    exists t', ln', sv', ads, h. split; [apply hext_refl|]. split; [exact Hc|]. split; [exact Hr|].
    split; [cbn [length]; lia | reflexivity].
  - (* an error of the chunk *)
    destruct H as (x & h' & Hx & [Hp1 Hp2] & He & H). rewrite H. cbn [bind]. cbv zeta.
    rewrite Hp1, Hp2. cbn [orb go_xerr_isnil negb].
    split; [exact Hfacts|]. exists x, h'. split; [exact He|]. split; [exact Hx | reflexivity].
  - (* a chunk, another one follows *)
    destruct H as [Hr H]. rewrite H. cbn [bind]. cbv zeta.
    cbn [go_xerr_isvar go_xerr_is orb go_xerr_isnil negb].
    cbn [R.diffReader_br R.diffReader_ln R.diffReader_saved R.diffReader_chunks R.diffReader_fileInfo].
    assert (Hn' : (length rest < n)%nat) by lia.
    pose proof (IH rest Hn' mf gas t' sv' ln' fi (ads ++ [Some (length h)]) (h ++ [hencR c]) (acc ++ [c]) out
                  Hr ltac:(lia) ltac:(lia) ltac:(lia) (cellsR_snoc h ads acc c Hc)) as HI.
    unfold mkrd in HI.
    destruct (w_read_git_chunks idw pinned mf rest (acc ++ [c])) as [[cs rest2]|e].
    + destruct HI as (t2 & ln2 & sv2 & ads2 & h2 & He & Hc2 & Hr2 & Hlen & HI).
      exists t2, ln2, sv2, ads2, h2.
      split; [eapply hext_trans; [exists [hencR c]; reflexivity | exact He]|].
      split; [exact Hc2|]. split; [exact Hr2|]. split; [lia | exact HI].
    + destruct HI as (Hne & x & h2 & He & Hx & HI). split; [exact Hne|]. exists x, h2.
      split; [eapply hext_trans; [exists [hencR c]; reflexivity | exact He]|]. split; [exact Hx | exact HI].
  - (* a chunk that ends at a line of another kind: the patch ends *)
    destruct H as [Hr (x & Hx & Hi & H)]. rewrite H. cbn [bind]. cbv zeta.
    rewrite Hi, orb_true_r.
    cbn [R.diffReader_br R.diffReader_ln R.diffReader_saved R.diffReader_chunks R.diffReader_fileInfo].
    exists t', ln', sv', (ads ++ [Some (length h)]), (h ++ [hencR c]).
    split; [exists [hencR c]; reflexivity|]. split; [apply cellsR_snoc; exact Hc|]. split; [exact Hr|].
    split; [lia | reflexivity].
Qed.

(* ---- the patches read so far ---- *)
Definition pat_addr : Type := (option (R.FileInfo time) * list (option nat))%type.

Definition patsR (h : list R.Chunk) (ps : list (patch time)) (pas : list pat_addr) : Prop :=
  Forall2 (fun p pa => fst pa = option_map fiencR (p_info p) /\ cellsR h (snd pa) (p_chunks p)) ps pas.

Definition outenc (pas : list pat_addr) : list (option (R.Patch time)) :=
  map (fun pa => Some (R.mk_Patch (fst pa) (snd pa))) pas.

Lemma patsR_ext h h' ps pas : hext h h' -> patsR h ps pas -> patsR h' ps pas.
Proof.
  intros He H. induction H as [|p pa ps pas [H1 H2] _ IH]; constructor; [|exact IH].
  split; [exact H1 | eapply cellsR_ext; eassumption].
Qed.

Lemma patsR_snoc h ps pas fi ads cs :
  patsR h ps pas -> cellsR h ads cs ->
  patsR h (ps ++ [mkPatch (Some fi) cs]) (pas ++ [(Some (fiencR fi), ads)]).
Proof.
  intros H Hc. apply Forall2_app; [exact H|]. constructor; [|constructor]. split; [reflexivity | exact Hc].
Qed.

Lemma outenc_snoc pas fi ads : outenc (pas ++ [(fi, ads)]) = outenc pas ++ [Some (R.mk_Patch fi ads)].
Proof. unfold outenc. rewrite map_app. reflexivity. Qed.

(* ---- the outer loop: one patch per iteration ---- *)
Lemma ReadGitPatch_loop1_ok fuel : forall n ls, (length ls < n)%nat ->
  forall mf gas t sv ln fi0 h ps pas,
  lines_of sv t = ls -> (length ls + 1 < fuel)%nat -> (length ls < gas)%nat -> (length ls < mf)%nat ->
  patsR h ps pas ->
  match w_read_git_loop idw time zero_time parse_time pinned mf ls ps with
  | ROk ps' =>
    exists pas' h', hext h h' /\ patsR h' ps' pas' /\
      R.ReadGitPatch_loop1 fuel gas zero_time X_ReadString X_TrimSuffix X_HasPrefix X_CutPrefix X_Cut XP X_Fields X_SplitN X_Atoi
        (outenc pas) (mkrd t ln sv fi0 []) h
      = Ok (Ret (outenc pas', None, h'))
  | RErr e =>
    e <> EFuel /\ exists x h', hext h h' /\ esite x = Some e /\
      R.ReadGitPatch_loop1 fuel gas zero_time X_ReadString X_TrimSuffix X_HasPrefix X_CutPrefix X_Cut XP X_Fields X_SplitN X_Atoi
        (outenc pas) (mkrd t ln sv fi0 []) h
      = Ok (Ret ([], Some x, h'))
  end.
Proof.
  induction n as [|n IH]; intros ls Hn; [lia|].
  intros mf gas t sv ln fi0 h ps pas Hl Hf Hg Hm Hp.
  destruct gas as [|gas]; [lia|]. destruct mf as [|mf]; [lia|].
  cbn [R.ReadGitPatch_loop1 w_read_git_loop]. unfold mkrd.
  cbn [R.diffReader_br R.diffReader_ln R.diffReader_saved R.diffReader_chunks R.diffReader_fileInfo].
  (* scanToPrefix("diff ") *)
  change (go_str "diff ") with (zb s_diff).
  destruct (C14_scanToPrefix_is_source s_diff ls t sv ln fuel Hl ltac:(llia)) as (t1 & ln1 & sv1 & Hl1 & E1).
  rewrite E1. cbn [bind]. cbv zeta.
  cbn [R.diffReader_br R.diffReader_ln R.diffReader_saved R.diffReader_chunks R.diffReader_fileInfo].
  destruct (scan_to_prefix s_diff ls) as [ls1|] eqn:S1.
  2:{ (* no further patch *)
      change (go_xerr_isvar (Some (XVar "io.EOF")) "io.EOF") with true. cbv iota.
      destruct Hp as [|p pa ps pas Hh Ht].
      - cbn [is_nil]. change (zlen (outenc []) =? 0) with true. cbv iota.
        split; [discriminate|]. exists (XNew "no patches found"), h.
        split; [apply hext_refl|]. split; reflexivity.
      - cbn [is_nil].
        replace (zlen (outenc (pa :: pas)) =? 0) with false
          by (symmetry; apply Z.eqb_neq; unfold zlen, outenc; cbn [map length]; lia).
        exists (pa :: pas), h. split; [apply hext_refl|]. split; [constructor; assumption | reflexivity]. }
  destruct (scan_to_prefix_some _ _ _ S1) as [Hlen1 _].
  cbn [go_xerr_isvar].
  (* scanToPrefix("--- ") *)
  change (go_str "--- ") with (zb s_mmm).
  destruct (C14_scanToPrefix_is_source s_mmm ls1 t1 sv1 ln1 fuel Hl1 ltac:(llia)) as (t2 & ln2 & sv2 & Hl2 & E2).
  rewrite E2. cbn [bind]. cbv zeta.
  cbn [R.diffReader_br R.diffReader_ln R.diffReader_saved R.diffReader_chunks R.diffReader_fileInfo].
  destruct (scan_to_prefix s_mmm ls1) as [ls2|] eqn:S2.
  2:{ change (go_xerr_isvar (Some (XVar "io.EOF")) "io.EOF") with true. cbv iota.
      split; [discriminate|]. eexists. exists h. split; [apply hext_refl|]. split; [|reflexivity]. reflexivity. }
  destruct (scan_to_prefix_some _ _ _ S2) as [Hlen2 (l & r' & El & Hpl)].
  cbn [go_xerr_isvar go_xerr_isnil negb].
  (* readUnifiedHeader: the first line has the prefix *)
  destruct (C14_readUnifiedHeader_is_source time zero_time parse_time ls2 t2 sv2 ln2 fi0 fuel Hl2 ltac:(llia))
    as (t3 & ln3 & sv3 & H3).
  pose proof (read_uheader_pfx ls2 l r' El Hpl) as Hhd.
  destruct (read_uheader time zero_time parse_time ls2) as [[[fi|] ls3]|e]; [| contradiction |].
  2:{ destruct H3 as (x & Hx & H3). rewrite H3. cbn [bind]. cbv zeta. cbn [go_xerr_isnil negb].
      split; [exact Hhd|]. eexists. exists h. split; [apply hext_refl|]. split; [|reflexivity].
      change (esite x = Some e) in Hx. exact Hx. }
  destruct H3 as [Hl3 H3]. rewrite H3. cbn [bind]. cbv zeta.
  cbn [go_xerr_isnil negb go_onil].
  cbn [R.diffReader_br R.diffReader_ln R.diffReader_saved R.diffReader_chunks R.diffReader_fileInfo].
  (* the chunks of the patch *)
  pose proof (ReadGitPatch_loop2_ok fuel (S (length ls3)) ls3 (Nat.lt_succ_diag_r _) (S (length ls3)) fuel
                t3 sv3 ln3 (Some (fiencR fi)) [] h [] (outenc pas) Hl3 ltac:(llia) ltac:(llia) (Nat.lt_succ_diag_r _)
                (Forall2_nil _)) as H4.
  unfold mkrd in H4.
  destruct (w_read_git_chunks idw pinned (S (length ls3)) ls3 []) as [[cs ls4]|e].
  2:{ destruct H4 as (Hne & x & h' & He & Hx & H4). rewrite H4. cbn [bind].
      split; [exact Hne|]. exists x, h'. split; [exact He|]. split; [exact Hx | reflexivity]. }
  destruct H4 as (t4 & ln4 & sv4 & ads4 & h4 & He4 & Hc4 & Hl4 & Hlen4 & H4). rewrite H4. cbn [bind].
  rewrite <- outenc_snoc.
  assert (Hn4 : (length ls4 < n)%nat) by llia.
  pose proof (IH ls4 Hn4 mf gas t4 sv4 ln4 (Some (fiencR fi)) h4 (ps ++ [mkPatch (Some fi) cs])
                (pas ++ [(Some (fiencR fi), ads4)]) Hl4 ltac:(llia) ltac:(llia) ltac:(llia)
                (patsR_snoc h4 ps pas fi ads4 cs (patsR_ext h h4 ps pas He4 Hp) Hc4)) as H5.
  destruct (w_read_git_loop idw time zero_time parse_time pinned mf ls4 (ps ++ [mkPatch (Some fi) cs])) as [ps'|e].
  - destruct H5 as (pas' & h5 & He5 & Hp5 & H5). exists pas', h5.
    split; [eapply hext_trans; eassumption|]. split; [exact Hp5 | exact H5].
  - destruct H5 as (Hne & x & h5 & He5 & Hx & H5). split; [exact Hne|]. exists x, h5.
    split; [eapply hext_trans; eassumption|]. split; [exact Hx | exact H5].
Qed.

(* ---- ReadGitPatch ---- *)
Theorem C14_ReadGitPatch_is_source : forall t h fuel,
  (length (split_lines t) + 1 < fuel)%nat ->
  match w_read_git_lines (fun z => z) time zero_time parse_time pinned (split_lines t) with
  | ROk ps =>
    exists pas h', hext h h' /\
      Forall2 (fun p pa => fst pa = option_map fiencR (p_info p) /\ cellsR h' (snd pa) (p_chunks p)) ps pas /\
      R.ReadGitPatch (zb t) X_NewReader X_ReadString X_TrimSuffix X_HasPrefix X_CutPrefix X_Cut XP X_Fields X_SplitN X_Atoi
        h zero_time fuel
      = Ok (map (fun pa => Some (R.mk_Patch (fst pa) (snd pa))) pas, None, h')
  | RErr e =>
    e <> EFuel /\ exists x h', hext h h' /\ esite x = Some e /\
      R.ReadGitPatch (zb t) X_NewReader X_ReadString X_TrimSuffix X_HasPrefix X_CutPrefix X_Cut XP X_Fields X_SplitN X_Atoi
        h zero_time fuel
      = Ok ([], Some x, h')
  end.
Proof.
  intros t h fuel Hf. unfold R.ReadGitPatch, w_read_git_lines.
  unfold X_NewReader. cbn [bind]. cbv zeta.
  pose proof (ReadGitPatch_loop1_ok fuel (S (length (split_lines t))) (split_lines t) (Nat.lt_succ_diag_r _)
                (S (length (split_lines t))) fuel t None 0 None h [] [] eq_refl Hf ltac:(llia) (Nat.lt_succ_diag_r _)
                (Forall2_nil _)) as H.
  unfold mkrd in H. cbn [option_map outenc map] in H.
  destruct (w_read_git_loop idw time zero_time parse_time pinned (S (length (split_lines t))) (split_lines t) []) as [ps|e].
  - destruct H as (pas & h' & He & Hp & H). exists pas, h'. split; [exact He|]. split; [exact Hp|].
    rewrite H. reflexivity.
  - destruct H as (Hne & x & h' & He & Hx & H). split; [exact Hne|]. exists x, h'. split; [exact He|]. split; [exact Hx|].
    rewrite H. reflexivity.
Qed.
End Git.

Print Assumptions readUnifiedChunk_strong.
Print Assumptions C14_ReadGitPatch_is_source.
