(* Composition: one call of the cache model ([C.step]) = the function generated from cache.go,
   given as its store the functions generated from lru.go, given as their heap the heapq model.

   [src_Check] ... [src_Evict] are the generated lruStore methods (Gen/FnLru.v) over the heapq model
   ([hp_Peek] ... of LruTieBase.v), packaged as an implementation of the Store interface on the
   state (c.present, c.access, c.clock); [store_ok_source] shows they behave like the model's
   lruStore (from LruTieOps.v), so every tie of CacheTie{Base,Put,Clear}.v applies to them.
   [gen_step] dispatches one operation to the generated Cache method; [C08_step_is_source]: with
   at least the model's loop fuel it returns exactly what the model's [step] returns (result,
   callback log, the new store, size, count; limit unchanged; the same panic) whenever that is not
   CFuel. *)
From Coq Require Import ZArith List Bool Lia.
From Mds Require Import Common.FnRt GenTie.TieLib Gen.FnCache Gen.FnLru Gen.CacheIdx
  GenTie.LruTieBase GenTie.LruTieOps GenTie.CacheTieBase GenTie.CacheTiePut GenTie.CacheTieClear.
From Mds Require Cache.CacheSpec.
Import ListNotations.
Local Open Scope Z_scope.

Module S := CacheSpec.

Section Compose.
Context {K V : Type}.
Variable keqb : K -> K -> bool.
Variable kzero : K.
Variable vzero : V.
Variable sizeOf : V -> Z.
Variable hv : H.variant.

Notation lru := (C.lru K V).
Notation cache := (C.cache K V).
Notation prio := (C.prio K V).

(* the store state of the generated lruStore methods: c.present, c.access, c.clock *)
Definition sstate : Type := go_map K Z * H.queue prio * Z.
Definition srep (s : lru) : sstate := (C.present s, C.access s, C.clock s).

Definition src_Check (st : sstate) (k : K) : res (V * bool * sstate) :=
  let '(p, q, clk) := st in
  bind (FnLru.Check p q k keqb (hp_Peek kzero vzero) vzero) (fun '(v, ok, p', q') => Ok (v, ok, (p', q', clk))).
Definition src_Access (st : sstate) (k : K) : res (V * bool * sstate) :=
  let '(p, q, clk) := st in
  bind (FnLru.Access p q clk k keqb (hp_Remove keqb kzero vzero hv) (hp_Add keqb hv) vzero)
       (fun '(v, ok, p', q', clk') => Ok (v, ok, (p', q', clk'))).
Definition src_Store (st : sstate) (k : K) (v : V) : res sstate :=
  let '(p, q, clk) := st in
  FnLru.Store p q clk k v keqb (hp_Add keqb hv).
Definition src_Remove (st : sstate) (k : K) : res sstate :=
  let '(p, q, clk) := st in
  bind (FnLru.Remove (Value := V) p q k keqb (hp_Remove keqb kzero vzero hv)) (fun '(p', q') => Ok (p', q', clk)).
Definition src_Evict (st : sstate) : res (K * V * sstate) :=
  let '(p, q, clk) := st in
  bind (FnLru.Evict p q (hp_Pop keqb kzero vzero hv) keqb) (fun '(k, v, p', q') => Ok (k, v, (p', q', clk))).

Theorem C08_store_ok_source :
  store_ok keqb kzero vzero hv srep src_Check src_Access src_Store src_Remove src_Evict.
Proof.
  unfold store_ok, srep, src_Check, src_Access, src_Store, src_Remove, src_Evict. repeat split.
  - intros s k. rewrite C08_lru_check_is_source.
    destruct (C.lru_check K V keqb vzero s k) as [[v ok]| |]; reflexivity.
  - intros s k. rewrite C08_lru_access_is_source.
    destruct (C.lru_access K V keqb kzero vzero hv s k) as [[s' [v ok]]| |]; reflexivity.
  - intros s k v. rewrite C08_lru_store_is_source. reflexivity.
  - intros s k. rewrite C08_lru_remove_is_source.
    destruct (C.lru_remove K V keqb hv s k) as [s'| |] eqn:E; cbn [embf bind]; [|reflexivity|reflexivity].
    rewrite (lru_remove_clock keqb hv _ _ _ E). reflexivity.
  - intros s. rewrite C08_lru_evict_is_source.
    destruct (C.lru_evict K V keqb hv s) as [[s' [k v]]| |] eqn:E; cbn [embf bind]; [|reflexivity|reflexivity].
    rewrite (lru_evict_clock keqb hv _ _ _ E). reflexivity.
Qed.

(* the model's own lruStore functions are (trivially) such an implementation as well *)
Theorem C08_store_ok_model :
  store_ok keqb kzero vzero hv (fun s : lru => s)
    (fun s k => embf (fun '(v, ok) => (v, ok, s)) (C.lru_check K V keqb vzero s k))
    (fun s k => embf (fun '(s', (v, ok)) => (v, ok, s')) (C.lru_access K V keqb kzero vzero hv s k))
    (fun s k v => embf (fun s' => s') (C.lru_store K V keqb hv s k v))
    (fun s k => embf (fun s' => s') (C.lru_remove K V keqb hv s k))
    (fun s => embf (fun '(s', (k, v)) => (k, v, s')) (C.lru_evict K V keqb hv s)).
Proof. unfold store_ok. repeat split; intros; reflexivity. Qed.

(* ---- one call ---- *)
(* the cache as the generated functions see it: store state, c.size, c.count, c.limit *)
Definition gstate : Type := sstate * Z * Z * Z.
Definition grep (c : cache) : gstate := (srep (C.store c), C.csize c, C.count c, C.limit c).

Definition gen_step (fuel : nat) (g : gstate) (o : S.op K V) : res (gstate * (S.out V * S.evlog K V)) :=
  let '(st, size, cnt, lim) := g in
  match o with
  | S.OPut k v =>
    bind (FnCache.Put st size lim cnt sizeOf k v src_Check src_Remove src_Evict src_Store fuel)
         (fun '(b, st', size', cnt', log) => Ok ((st', size', cnt', lim), (S.RBool b, log)))
  | S.OGet k =>
    bind (FnCache.Get st k src_Access) (fun '(v, ok, st') => Ok ((st', size, cnt, lim), (S.RGet v ok, [])))
  | S.OHas k =>
    bind (FnCache.Has st k src_Check) (fun '(b, st') => Ok ((st', size, cnt, lim), (S.RBool b, [])))
  | S.ORemove k =>
    bind (FnCache.Remove st size cnt sizeOf k src_Check src_Remove)
         (fun '(b, st', size', cnt', log) => Ok ((st', size', cnt', lim), (S.RBool b, log)))
  | S.OClear =>
    bind (FnCache.Clear st size cnt sizeOf src_Evict fuel)
         (fun '(st', size', cnt', log) => Ok ((st', size', cnt', lim), (S.RUnit, log)))
  | S.OLen => Ok (g, (S.RNum (FnCache.Len cnt), []))
  | S.OSize => Ok (g, (S.RNum (FnCache.Size size), []))
  end.

(* the fuel the model gives the loop of this call *)
Definition step_fuel (c : cache) (o : S.op K V) : nat :=
  match o with
  | S.OPut k _ => put_fuel keqb vzero hv c k
  | S.OClear => S (length (H.data (C.access (C.store c))))
  | _ => O
  end.

Lemma bind_bind_ok {A B D} (m : res A) (f : A -> res B) (g : B -> D) (h : A -> res D) :
  (forall a, bind (f a) (fun b => Ok (g b)) = h a) ->
  bind (bind m f) (fun b => Ok (g b)) = bind m h.
Proof. intros E. destruct m; cbn [bind]; [apply E|reflexivity|reflexivity]. Qed.

Theorem C08_step_is_source : forall (c : cache) (o : S.op K V) (fuel : nat),
  (step_fuel c o <= fuel)%nat ->
  res_le (embf (fun '(c', r) => (grep c', r)) (C.step K V keqb kzero vzero sizeOf hv c o))
         (gen_step fuel (grep c) o).
Proof.
  intros c o fuel F. pose proof C08_store_ok_source as OK.
  destruct o as [k v|k|k|k| | |]; unfold gen_step, grep, C.step; cbn [step_fuel] in F.
  - (* Put *)
    pose proof (C08_put_is_source keqb kzero vzero sizeOf hv _ _ _ _ _ _ OK c k v fuel F) as P.
    destruct (C.cache_put K V keqb vzero sizeOf hv c k v) as [[[c' b] log]| |]; cbn [embf C.cbind] in *.
    + destruct P as [P|P]; [discriminate|].
      destruct (FnCache.Put _ _ _ _ _ _ _ _ _ _ _ _) as [[[[[b' st'] size'] cnt'] log']| |]; cbn [bind] in *; try discriminate.
      inversion P; subst. apply res_le_refl.
    + destruct P as [P|P]; [discriminate|].
      destruct (FnCache.Put _ _ _ _ _ _ _ _ _ _ _ _) as [[[[[b' st'] size'] cnt'] log']| |]; cbn [bind] in *; try discriminate.
      inversion P; subst. apply res_le_refl.
    + apply res_le_oof.
  - (* Get *)
    pose proof (C08_get_is_source keqb kzero vzero hv _ _ _ _ _ _ OK c k) as P.
    destruct (C.cache_get K V keqb kzero vzero hv c k) as [[c' [v ok]]| |]; cbn [embf C.cbind fst snd] in *;
      destruct (FnCache.Get _ _ _) as [[[v' ok'] st']| |]; cbn [bind] in *; try discriminate;
      inversion P; subst; apply res_le_refl.
  - (* Has *)
    pose proof (C08_has_is_source keqb kzero vzero hv _ _ _ _ _ _ OK c k) as P.
    destruct (C.cache_has K V keqb vzero c k) as [b| |]; cbn [embf C.cbind] in *;
      rewrite P; apply res_le_refl.
  - (* Remove *)
    pose proof (C08_remove_is_source keqb kzero vzero sizeOf hv _ _ _ _ _ _ OK c k) as P.
    destruct (C.cache_remove K V keqb vzero sizeOf hv c k) as [[[c' b] log]| |]; cbn [embf C.cbind] in *;
      destruct (FnCache.Remove _ _ _ _ _ _ _) as [[[[[b' st'] size'] cnt'] log']| |]; cbn [bind] in *; try discriminate;
      inversion P; subst; apply res_le_refl.
  - (* Clear *)
    pose proof (C08_clear_is_source keqb kzero vzero sizeOf hv _ _ _ _ _ _ OK c fuel F) as P.
    destruct (C.cache_clear K V keqb sizeOf hv c) as [[c' log]| |]; cbn [embf C.cbind] in *.
    + destruct P as [P|P]; [discriminate|].
      destruct (FnCache.Clear _ _ _ _ _ _) as [[[[st' size'] cnt'] log']| |]; cbn [bind] in *; try discriminate.
      inversion P; subst. apply res_le_refl.
    + destruct P as [P|P]; [discriminate|].
      destruct (FnCache.Clear _ _ _ _ _ _) as [[[[st' size'] cnt'] log']| |]; cbn [bind] in *; try discriminate.
      inversion P; subst. apply res_le_refl.
    + apply res_le_oof.
  - apply res_le_refl.
  - apply res_le_refl.
Qed.

End Compose.

Print Assumptions C08_store_ok_source.
Print Assumptions C08_store_ok_model.
Print Assumptions C08_step_is_source.
