(* mdiff/reader.go: readNormalEdit.  The loop `for { line, err := r.readline(); ... }` with its
   three line kinds ("< " delete lines, "> " insert lines, the "---" separator), the three
   "unexpected ..." errors and the unread of the first line that is none of them = the model's
   read_normal_edit on the lines the reader will deliver.  e.X / e.Y of the generated code are the
   model's accumulators xs / ys. *)
From Coq Require Import ZArith NArith List Bool Lia.
Require Coq.Strings.String.
From Mds Require Import Mdiff.ReaderModel.
From Mds Require Import Common.FnRt Common.FnHeap Common.FnText GenTie.TieLib GenTie.MdiffFmtTieBase GenTie.MdiffReadTieBase.
Import ListNotations.
Local Open Scope Z_scope.

(* len(e.Y) != 0 on the encoded lines is the model's emptiness test *)
Lemma zlen_map_zb_nil (ys : list line) : (zlen (map zb ys) =? 0) = is_nil ys.
Proof. destruct ys as [|y ys]; [reflexivity|]. unfold zlen. cbn [map length is_nil]. apply Z.eqb_neq. lia. Qed.

Lemma map_zb_snoc (xs : list line) r : map zb xs ++ [zb r] = map zb (xs ++ [r]).
Proof. rewrite map_app. reflexivity. Qed.

Lemma readNormalEdit_loop_ok fuel : forall ls t sv ln gas xs ys below,
  lines_of sv t = ls -> (length ls < gas)%nat ->
  exists t' ln' sv',
    match read_normal_edit ls xs ys below with
    | ROk (xs', ys', rest) =>
      lines_of sv' t' = rest /\
      exists below',
      R.readNormalEdit_loop1 fuel gas X_ReadString X_TrimSuffix X_CutPrefix (zb t) ln (option_map zb sv)
        (R.mk_Edit 0 (map zb xs) (map zb ys)) below
      = Ok (Next (zb t', ln', option_map zb sv', R.mk_Edit 0 (map zb xs') (map zb ys'), below'))
    | RErr e =>
      exists x, esite x = Some e /\
      R.readNormalEdit_loop1 fuel gas X_ReadString X_TrimSuffix X_CutPrefix (zb t) ln (option_map zb sv)
        (R.mk_Edit 0 (map zb xs) (map zb ys)) below
      = Ok (Ret (R.mk_Edit 0 [] [], Some x, zb t', ln', option_map zb sv'))
    end.
Proof.
  induction ls as [|l rest IH]; intros t sv ln gas xs ys below Hl Hg; (destruct gas as [|gas]; [simpl in Hg; lia|]);
    cbn [R.readNormalEdit_loop1]; rewrite C14_readline_is_source; rewrite lines_of_next in Hl.
  - destruct (rl_next sv t) as [[l t']|]; [discriminate|].
    cbn [bind go_xerr_isvar go_xerr_isnil negb read_normal_edit].
    exists [], ln, None. split; [reflexivity|]. exists below. reflexivity.
  - destruct (rl_next sv t) as [[l0 t']|]; [|discriminate].
    assert (E0 : l0 = l) by congruence. assert (H1 : lines_of None t' = rest) by congruence. subst l0. clear Hl.
    assert (Hg' : (length rest < gas)%nat) by (simpl in Hg; lia).
    cbn [bind go_xerr_isvar go_xerr_isnil negb read_normal_edit].
    set (ln1 := match sv with Some _ => ln | None => ln + 1 end).
    change (go_str "< ") with (zb s_lt). rewrite X_CutPrefix_zb.
    destruct (cut_prefix s_lt l) as [r|]; cbn [bind].
    + cbn [R.Edit_Op R.Edit_X R.Edit_Y]. rewrite zlen_map_zb_nil.
      destruct (below || negb (is_nil ys)).
      * exists t', ln1, None. eexists. split; [|reflexivity]. reflexivity.
      * rewrite map_zb_snoc. apply (IH t' None ln1 gas (xs ++ [r]) ys below H1 Hg').
    + change (go_str "> ") with (zb s_gt). rewrite X_CutPrefix_zb.
      destruct (cut_prefix s_gt l) as [r|]; cbn [bind].
      * cbn [R.Edit_Op R.Edit_X R.Edit_Y]. rewrite zlen_map_zb_nil.
        destruct (negb (is_nil xs) && negb below).
        -- exists t', ln1, None. eexists. split; [|reflexivity]. reflexivity.
        -- rewrite map_zb_snoc. apply (IH t' None ln1 gas xs (ys ++ [r]) below H1 Hg').
      * change (go_str "---") with (zb s_sep). rewrite str_eqb_zb.
        destruct (bytes_eqb l s_sep).
        -- destruct below.
           ++ exists t', ln1, None. eexists. split; [|reflexivity]. reflexivity.
           ++ apply (IH t' None ln1 gas xs ys true H1 Hg').
        -- rewrite C14_unread_is_source.
           exists t', ln1, (Some l). split; [rewrite lines_of_saved, H1; reflexivity|].
           exists below. reflexivity.
Qed.

Lemma C14_readNormalEdit_is_source : forall ls t sv ln fuel,
  lines_of sv t = ls -> (length ls < fuel)%nat ->
  exists t' ln' sv',
    match read_normal_edit ls [] [] false with
    | ROk (xs, ys, rest) =>
      lines_of sv' t' = rest /\
      R.readNormalEdit (zb t) ln (option_map zb sv) X_ReadString X_TrimSuffix X_CutPrefix fuel
      = Ok (R.mk_Edit 0 (map zb xs) (map zb ys), None, zb t', ln', option_map zb sv')
    | RErr e =>
      exists x, esite x = Some e /\
      R.readNormalEdit (zb t) ln (option_map zb sv) X_ReadString X_TrimSuffix X_CutPrefix fuel
      = Ok (R.mk_Edit 0 [] [], Some x, zb t', ln', option_map zb sv')
    end.
Proof.
  intros ls t sv ln fuel Hl Hf. unfold R.readNormalEdit. cbv zeta.
  destruct (readNormalEdit_loop_ok fuel ls t sv ln fuel [] [] false Hl Hf) as (t' & ln' & sv' & H).
  exists t', ln', sv'. cbn [map] in H.
  destruct (read_normal_edit ls [] [] false) as [[[xs ys] rest]|e].
  - destruct H as (H1 & b' & H2). split; [exact H1|]. rewrite H2. reflexivity.
  - destruct H as (x & Hx & H2). exists x. split; [exact Hx|]. rewrite H2. reflexivity.
Qed.

Print Assumptions C14_readNormalEdit_is_source.
