(* shell/shell.go, C15: quotable, quote, Quote, Join of the model = the functions generated from the
   Go source (Gen/FnShell.v), with the *bytes.Buffer object instantiated as a byte list
   (ShellTieBase.v).  Plain equalities for every input string, every previous content of the
   buffer (quote appends) and every state the pool hands out (Quote and Join call Reset first),
   given fuel above the loop lengths. *)
From Coq Require Import ZArith NArith List Bool Lia.
From Mds Require Import Common.FnRt GenTie.TieLib Gen.ShellTable Gen.FnShell.
From Mds Require Import Shell.ShellModel Shell.ShellSkel GenTie.ShellTieBase.
Import ListNotations.
Local Open Scope Z_scope.

(* ---- quotable ---- *)
Definition flagq (v : Z) : bool := negb (Z.land v 1 =? 0).
Definition flago (v : Z) : bool := negb (Z.land v 2 =? 0).

Lemma index_byte_mem : forall l b i, 0 <= i ->
  (go_index_byte_from (zs l) (zb b) i >=? 0) = M.mem b l.
Proof.
  induction l as [|x l IH]; intros b i Hi.
  - reflexivity.
  - cbn [zs map go_index_byte_from M.mem existsb]. fold (zs l).
    rewrite zb_eqb, N.eqb_sym. destruct (N.eqb b x).
    + cbn [orb]. apply Z.geb_le. lia.
    + cbn [orb]. apply IH. lia.
Qed.

Lemma quotable_loop_ok : forall rest pre v fuel gas,
  (length rest < gas)%nat -> 0 <= v <= 3 ->
  exists v' i', G.quotable_loop1 fuel gas (zs (pre ++ rest)) v (zlen (zs pre)) = Ok (v', i') /\
    flagq v' = flagq v || H.has_q rest /\ flago v' = flago v || H.has_other rest.
Proof.
  induction rest as [|c rest IH]; intros pre v fuel gas Hg Hv; (destruct gas as [|gas]; [simpl in Hg; lia|]);
    cbn [G.quotable_loop1].
  - rewrite app_nil_r, Z.ltb_irrefl. cbn [andb]. exists v, (zlen (zs pre)).
    cbn [H.has_q H.has_other existsb]. rewrite !orb_false_r. auto.
  - assert (L : (zlen (zs pre) <? zlen (zs (pre ++ c :: rest))) = true).
    { apply Z.ltb_lt. rewrite !zlen_zs, app_length. cbn [length]. lia. }
    rewrite L. cbn [andb].
    destruct (v <? 1 + 2) eqn:Ev.
    + apply Z.ltb_lt in Ev.
      rewrite go_get_zs. cbn [bind].
      change (zb c =? 39) with (zb c =? zb 39%N). rewrite zb_eqb.
      assert (Hrec : forall v1, 0 <= v1 <= 3 ->
        exists v' i', G.quotable_loop1 fuel gas (zs (pre ++ c :: rest)) v1 (zlen (zs pre) + 1) = Ok (v', i') /\
          flagq v' = flagq v1 || H.has_q rest /\ flago v' = flago v1 || H.has_other rest).
      { intros v1 Hv1. specialize (IH (pre ++ [c]) v1 fuel gas).
        rewrite <- app_assoc in IH. cbn [app] in IH. rewrite zlen_zs_snoc in IH.
        apply IH; [simpl in Hg; lia | exact Hv1]. }
      cbn [H.has_q H.has_other existsb]. fold (H.has_q rest). fold (H.has_other rest).
      rewrite (N.eqb_sym 39%N c).
      assert (Cv : v = 0 \/ v = 1 \/ v = 2) by lia.
      destruct (N.eqb c 39) eqn:Ec.
      * cbn [bind negb andb orb].
        destruct (Hrec (Z.lor v 1)) as (v' & i' & E & Fq & Fo).
        { destruct Cv as [ -> | [ -> | -> ] ]; cbn; lia. }
        exists v', i'. split; [exact E|]. rewrite Fq, Fo.
        destruct Cv as [ -> | [ -> | -> ] ]; cbn; auto.
      * cbn [bind negb andb orb].
        match goal with |- context[go_index_byte ?L (zb c)] => change L with (zs T.allQuote) end.
        unfold go_index_byte. rewrite index_byte_mem by lia.
        destruct (M.mem c T.allQuote).
        -- cbn [bind]. destruct (Hrec (Z.lor v 2)) as (v' & i' & E & Fq & Fo).
           { destruct Cv as [ -> | [ -> | -> ] ]; cbn; lia. }
           exists v', i'. split; [exact E|]. rewrite Fq, Fo.
           destruct Cv as [ -> | [ -> | -> ] ]; cbn; auto.
        -- cbn [bind]. destruct (Hrec v Hv) as (v' & i' & E & Fq & Fo).
           exists v', i'. split; [exact E|]. rewrite Fq, Fo. auto.
    + apply Z.ltb_ge in Ev. assert (v = 3) by lia. subst v.
      exists 3, (zlen (zs pre)). split; [reflexivity|]. cbn. auto.
Qed.

Lemma quotable_hand s fuel : (length s < fuel)%nat ->
  G.quotable (zs s) fuel = Ok (H.has_q s, H.has_other s).
Proof.
  intros Hf. unfold G.quotable.
  destruct (quotable_loop_ok s [] 0 fuel fuel Hf) as (v' & i' & E & Fq & Fo); [lia|].
  cbn [app] in E. change (zlen (zs [])) with 0 in E. rewrite E. cbn [bind].
  fold (flagq v'). fold (flago v'). rewrite Fq, Fo. reflexivity.
Qed.

Theorem C15_quotable_is_source : forall s fuel, (length s < fuel)%nat ->
  G.quotable (zs s) fuel = Ok (M.has_q s, M.has_other s).
Proof. intros. rewrite has_q_hand, has_other_hand. apply quotable_hand. assumption. Qed.

(* ---- quote ---- *)
Lemma quote_loop_ok : forall rest pre buf inq ho fuel gas,
  (length rest < gas)%nat ->
  exists buf' inq' i',
    G.quote_loop1 fuel gas (zs (pre ++ rest)) bb_WriteByte ho (zlen (zs (pre ++ rest))) buf inq (zlen (zs pre))
      = Ok (buf', inq', i') /\
    buf' ++ (if inq' then [39] else []) = buf ++ zs (H.quote_loop rest inq ho).
Proof.
  induction rest as [|c rest IH]; intros pre buf inq ho fuel gas Hg; (destruct gas as [|gas]; [simpl in Hg; lia|]);
    cbn [G.quote_loop1].
  - rewrite app_nil_r, Z.ltb_irrefl. exists buf, inq, (zlen (zs pre)). split; [reflexivity|].
    cbn [H.quote_loop]. destruct inq; reflexivity.
  - assert (L : (zlen (zs pre) <? zlen (zs (pre ++ c :: rest))) = true).
    { apply Z.ltb_lt. rewrite !zlen_zs, app_length. cbn [length]. lia. }
    rewrite L.
    assert (Hrec : forall b1 q1,
      exists buf' inq' i',
        G.quote_loop1 fuel gas (zs (pre ++ c :: rest)) bb_WriteByte ho (zlen (zs (pre ++ c :: rest))) b1 q1 (zlen (zs pre) + 1)
          = Ok (buf', inq', i') /\
        buf' ++ (if inq' then [39] else []) = b1 ++ zs (H.quote_loop rest q1 ho)).
    { intros b1 q1. specialize (IH (pre ++ [c]) b1 q1 ho fuel gas).
      rewrite <- app_assoc in IH. cbn [app] in IH.
      rewrite zlen_zs_snoc in IH.
      apply IH. simpl in Hg. lia. }
    rewrite go_get_zs. cbn [bind].
    change (zb c =? 39) with (zb c =? zb 39%N). rewrite zb_eqb.
    cbn [H.quote_loop]. unfold bb_WriteByte at 1 2 3 4.
    destruct (N.eqb c 39) eqn:Ec.
    + apply N.eqb_eq in Ec. subst c.
      destruct inq; cbn [bind].
      * destruct (Hrec (((buf ++ [39]) ++ [92]) ++ [zb 39%N]) false) as (b' & q' & i' & E & Q).
        exists b', q', i'. split; [exact E|].
        rewrite Q. cbn [zs map app]. rewrite <- !app_assoc. reflexivity.
      * destruct (Hrec ((buf ++ [92]) ++ [zb 39%N]) false) as (b' & q' & i' & E & Q).
        exists b', q', i'. split; [exact E|].
        rewrite Q. cbn [zs map app]. rewrite <- !app_assoc. reflexivity.
    + destruct (negb inq && ho) eqn:Eq; cbn [bind].
      * destruct (Hrec ((buf ++ [39]) ++ [zb c]) true) as (b' & q' & i' & E & Q).
        exists b', q', i'. split; [exact E|].
        rewrite Q. cbn [zs map app]. rewrite <- !app_assoc. reflexivity.
      * destruct (Hrec (buf ++ [zb c]) inq) as (b' & q' & i' & E & Q).
        exists b', q', i'. split; [exact E|].
        rewrite Q. cbn [zs map app]. rewrite <- !app_assoc. reflexivity.
Qed.

Lemma quote_hand_src s b fuel : (length s < fuel)%nat ->
  G.quote (zs s) b bb_WriteString bb_Grow bb_WriteByte fuel = Ok (b ++ zs (H.quote s)).
Proof.
  intros Hf. unfold G.quote. rewrite str_eqb_nil.
  destruct s as [|c s].
  - reflexivity.
  - cbn [zs map]. fold (zs s). change (zb c :: zs s) with (zs (c :: s)).
    rewrite quotable_hand by exact Hf. cbn [bind].
    unfold H.quote.
    destruct (negb (H.has_q (c :: s)) && negb (H.has_other (c :: s))).
    + reflexivity.
    + unfold bb_Grow.
      assert (G0 : (zlen (zs (c :: s)) + 2 <? 0) = false).
      { apply Z.ltb_ge. pose proof (zlen_nonneg (zs (c :: s))). lia. }
      rewrite G0. cbn [bind].
      destruct (quote_loop_ok (c :: s) [] b false (H.has_other (c :: s)) fuel fuel Hf) as (b' & q' & i' & E & Q).
      cbn [app] in E. change (zlen (zs [])) with 0 in E. rewrite E. cbn [bind].
      rewrite <- Q. destruct q'.
      * reflexivity.
      * rewrite app_nil_r. reflexivity.
Qed.

Theorem C15_quote_is_source : forall s b fuel, (length s < fuel)%nat ->
  G.quote (zs s) b bb_WriteString bb_Grow bb_WriteByte fuel = Ok (b ++ zs (M.quote_buf s)).
Proof. intros. rewrite quote_buf_hand. apply quote_hand_src. assumption. Qed.

(* ---- Quote: for every state b0 of the buffer the pool hands out ---- *)
Theorem C15_Quote_is_source : forall s b0 fuel, (length s < fuel)%nat ->
  G.Quote (zs s) b0 bb_Reset bb_WriteString bb_Grow bb_WriteByte bb_String fuel = Ok (zs (M.quote s)).
Proof.
  intros s b0 fuel Hf. rewrite quote_hand. unfold G.Quote. rewrite str_eqb_nil.
  destruct s as [|c s].
  - reflexivity.
  - cbn [zs map]. fold (zs s). change (zb c :: zs s) with (zs (c :: s)).
    rewrite quotable_hand by exact Hf. cbn [bind].
    unfold H.quote at 1.
    destruct (negb (H.has_q (c :: s)) && negb (H.has_other (c :: s))) eqn:E.
    + reflexivity.
    + unfold bb_Reset. cbn [bind]. rewrite quote_hand_src by exact Hf. cbn [bind app].
      unfold H.quote. rewrite E. reflexivity.
Qed.

(* ---- Join ---- *)
Lemma go_sub_tail {A} (x : A) l : go_sub (x :: l) 1 (zlen (x :: l)) = Ok l.
Proof.
  unfold go_sub.
  assert (E1 : (0 <=? 1) && (1 <=? zlen (x :: l)) = true).
  { unfold zlen. cbn [length]. apply andb_true_iff; split; apply Z.leb_le; lia. }
  rewrite E1, Z.leb_refl. f_equal.
  unfold zlen. cbn [length]. replace (Z.to_nat (Z.of_nat (S (length l)) - 1)) with (length l) by lia.
  change (Z.to_nat 1) with 1%nat. cbn [skipn]. apply firstn_all.
Qed.

Lemma join_loop_ok : forall rest (pre : list (list Z)) buf fuel gas,
  (length rest < gas)%nat -> (forall s, In s rest -> (length s < fuel)%nat) ->
  exists r',
    G.Join_loop1 fuel gas bb_WriteString bb_Grow bb_WriteByte (pre ++ map zs rest) (zlen (pre ++ map zs rest)) buf (zlen pre)
      = Ok (buf ++ zs (M.join_tail rest), r').
Proof.
  induction rest as [|s rest IH]; intros pre buf fuel gas Hg Hs; (destruct gas as [|gas]; [simpl in Hg; lia|]);
    cbn [G.Join_loop1].
  - cbn [map]. rewrite app_nil_r, Z.ltb_irrefl. exists (zlen pre). cbn [M.join_tail zs map]. rewrite app_nil_r. reflexivity.
  - assert (L : (zlen pre <? zlen (pre ++ map zs (s :: rest))) = true).
    { apply Z.ltb_lt. rewrite zlen_app. unfold zlen. cbn [map length]. lia. }
    rewrite L. cbn [map]. rewrite go_get_mid. cbn [bind]. unfold bb_WriteByte at 1. cbn [bind].
    rewrite quote_hand_src by (apply Hs; left; reflexivity). cbn [bind].
    specialize (IH (pre ++ [zs s]) ((buf ++ [32]) ++ zs (H.quote s)) fuel gas).
    rewrite <- app_assoc in IH. cbn [app] in IH. rewrite zlen_snoc in IH.
    destruct IH as (r' & E); [simpl in Hg; lia | intros; apply Hs; right; assumption |].
    exists r'. cbn [map] in E. rewrite E. f_equal. f_equal.
    cbn [M.join_tail]. rewrite quote_buf_hand. change T.join_sep with [32%N].
    rewrite !zs_app. cbn [zs map app]. rewrite <- !app_assoc. reflexivity.
Qed.

Theorem C15_Join_is_source : forall ss b0 fuel,
  (length ss < fuel)%nat -> (forall s, In s ss -> (length s < fuel)%nat) ->
  G.Join (map zs ss) b0 bb_Reset bb_WriteString bb_Grow bb_WriteByte bb_String fuel = Ok (zs (M.join ss)).
Proof.
  intros ss b0 fuel Hf Hs. unfold G.Join.
  destruct ss as [|s ss].
  - reflexivity.
  - assert (Z0 : (zlen (map zs (s :: ss)) =? 0) = false).
    { apply Z.eqb_neq. unfold zlen. cbn [map length]. lia. }
    rewrite Z0. unfold bb_Reset. cbn [bind map].
    change (go_get (zs s :: map zs ss) 0) with (go_get ([] ++ zs s :: map zs ss) (zlen (@nil (list Z)))).
    rewrite go_get_mid. cbn [bind app].
    rewrite quote_hand_src by (apply Hs; left; reflexivity). cbn [bind app].
    rewrite go_sub_tail. cbn [bind].
    destruct (join_loop_ok ss [] (zs (H.quote s)) fuel fuel) as (r' & E).
    { simpl in Hf. lia. }
    { intros; apply Hs; right; assumption. }
    cbn [app] in E. change (zlen (@nil (list Z))) with 0 in E. rewrite E. cbn [bind]. unfold bb_String. cbn [bind].
    cbn [M.join]. rewrite quote_buf_hand, zs_app. reflexivity.
Qed.

Print Assumptions C15_quotable_is_source.
Print Assumptions C15_quote_is_source.
Print Assumptions C15_Quote_is_source.
Print Assumptions C15_Join_is_source.
