(* stree: the functions the heap backend generates from stree/node.go and stree/stree.go
   (Gen/FnStree.v: node cells in a heap [list (node T)], *node = option nat) against the
   FUNCTIONAL model Stree/StreeModel.v (a *node is a [tree]).  The ties are representation lemmas:

     [repr h a t]: the heap h, read from address a, is the tree t (nil = Leaf).

   "If the heap at a represents t, the generated function returns the model function's result on
   t"; functions that only read the heap do not return it (it is unchanged by construction);
   node.clone returns the heap extended by fresh cells that represent [clone t].  [repr] does not
   ask the cells of a tree to be distinct: sharing cannot be observed by reading.

   Fuel: a generated recursive function consumes one unit per nesting level, a loop one unit of
   gas per iteration: [depth t] (+1, +2) suffices. *)
From Coq Require Import ZArith List Bool Arith Lia.
From Mds Require Import Gen.StreeConst Gen.StreeNode.
From Mds Require Stree.StreeModel.
From Mds Require Import Common.FnRt Common.FnHeap GenTie.TieLib.
From Mds Require Gen.FnStree.
Import ListNotations.

Module SM := StreeModel.
Module G := FnStree.

Section Base.
Context {T : Type}.
Notation tree := (SM.tree T).
Notation heap := (list (G.node T)).

Inductive repr (h : heap) : option nat -> tree -> Prop :=
| repr_leaf : repr h None (SM.Leaf)
| repr_node : forall a c l r,
    nth_error h a = Some c ->
    repr h (G.node_left c) l -> repr h (G.node_right c) r ->
    repr h (Some a) (SM.Node l (G.node_X c) r).

Fixpoint depth (t : tree) : nat :=
  match t with
  | SM.Leaf => O
  | SM.Node l _ r => S (Nat.max (depth l) (depth r))
  end.

Lemma repr_nil h t : repr h None t -> t = SM.Leaf.
Proof. intros H. inversion H. reflexivity. Qed.

Lemma repr_some h a t : repr h (Some a) t ->
  exists c l r, nth_error h a = Some c /\ t = SM.Node l (G.node_X c) r /\
                repr h (G.node_left c) l /\ repr h (G.node_right c) r.
Proof. intros H. inversion H; subst. exists c, l, r. auto. Qed.

Lemma repr_leaf_inv h a : repr h a (SM.Leaf) -> a = None.
Proof. intros H. inversion H. reflexivity. Qed.

Lemma repr_node_inv h a l x r : repr h a (SM.Node l x r) ->
  exists k c, a = Some k /\ nth_error h k = Some c /\ G.node_X c = x /\
              repr h (G.node_left c) l /\ repr h (G.node_right c) r.
Proof. intros H. inversion H; subst. exists a0, c. auto. Qed.

(* the heap only grows: a representation survives an extension *)
Lemma repr_app h ext a t : repr h a t -> repr (h ++ ext) a t.
Proof.
  induction 1 as [|a c l r Hn _ IHl _ IHr]; [constructor|].
  apply repr_node; [|exact IHl|exact IHr].
  rewrite nth_error_app1; [exact Hn|]. apply nth_error_Some. rewrite Hn. discriminate.
Qed.

(* p.f of a represented node *)
Lemma hget_repr (h : heap) a c : nth_error h a = Some c -> go_hget h (Some a) = Ok c.
Proof. intros H. unfold go_hget. rewrite H. reflexivity. Qed.

End Base.

(* split a representation of a non-nil pointer / of a Node *)
Ltac rnode H k c Hk Hl Hr :=
  apply repr_node_inv in H; destruct H as [k [c [-> [Hk [<- [Hl Hr]]]]]].
