(* The hand-written model of heapq/heapq.go (Heapq/HeapqModel.v), at the variant the source
   currently is ([current_variant]), equals the functions generated from the Go source
   (Gen/FnHeapq.v, regenerated on every run): swap, pushUp, pushDown, pop, Add, Pop, Remove.

   Representation: the generated functions take the fields q.data and q.cmp as arguments and return
   (Go results, q.data, the calls of q.move in order); the model returns (q.data, moves, result).
   The model's only failure is IndexPanic ([emb] maps it to Panic PIndex).  The model gives its
   loops a fuel of their own; the generated functions take one fuel: statements with [res_le] say
   that with at least the model's fuel the generated function returns the model's result whenever
   that is not OutOfFuel.

   The proofs of pop/Pop/Remove use the value of [current_variant] (pop calls pushDown only):
   a repair of finding F2 in the Go source changes both sides and needs the proof redone. *)
From Coq Require Import ZArith List Bool Lia.
From Mds Require Import Common.FnRt GenTie.TieLib Gen.FnHeapq Gen.HeapqIdx.
From Mds Require Heapq.HeapqModel.
Import ListNotations.
Local Open Scope Z_scope.

Module H := HeapqModel.
Local Arguments Z.mul : simpl never.
Local Arguments Z.quot : simpl never.

Definition emb {A : Type} (r : H.res A) : res A :=
  match r with
  | H.Ok a => Ok a
  | H.IndexPanic => Panic PIndex
  | H.OutOfFuel => OutOfFuel
  end.

Lemma emb_bind {A B} (m : H.res A) (k : A -> H.res B) :
  emb (H.bind m k) = bind (emb m) (fun a => emb (k a)).
Proof. destruct m; reflexivity. Qed.

Definition of_opt {A} (o : option A) : res A :=
  match o with Some x => Ok x | None => Panic PIndex end.

Section Elem.
Context {T : Type}.
Implicit Types l : list T.

Lemma get_eq l i : go_get l i = of_opt (H.get l i).
Proof.
  unfold go_get, H.get, zlen.
  destruct (i <? 0) eqn:E.
  - replace (0 <=? i) with false by lia. reflexivity.
  - replace (0 <=? i) with true by lia. simpl.
    destruct (i <? Z.of_nat (length l)) eqn:E2.
    + destruct (nth_error l (Z.to_nat i)); reflexivity.
    + assert (N : nth_error l (Z.to_nat i) = None) by (apply nth_error_None; lia).
      rewrite N; reflexivity.
Qed.

Lemma get_range l i x : H.get l i = Some x -> 0 <= i < zlen l.
Proof.
  unfold H.get, zlen. destruct (i <? 0) eqn:E; [discriminate|]. intros G.
  assert (Z.to_nat i < length l)%nat by (apply nth_error_Some; congruence). lia.
Qed.

Lemma get_none l i : H.get l i = None -> i < 0 \/ zlen l <= i.
Proof.
  unfold H.get, zlen. destruct (i <? 0) eqn:E; [lia|]. intros G.
  apply nth_error_None in G. lia.
Qed.

Lemma upd_nat_eq l n x : upd l n x = H.upd_nat T l n x.
Proof. revert n; induction l; destruct n; simpl; f_equal; auto. Qed.

Lemma upd_length' l i x : length (H.upd l i x) = length l.
Proof. unfold H.upd. destruct (i <? 0); [reflexivity|]. rewrite <- upd_nat_eq. apply upd_length. Qed.

Lemma set_eq l i x : 0 <= i < zlen l -> go_set l i x = Ok (H.upd l i x).
Proof.
  intros R. unfold go_set, H.upd.
  replace ((0 <=? i) && (i <? zlen l)) with true by lia.
  replace (i <? 0) with false by lia. rewrite upd_nat_eq. reflexivity.
Qed.

(* ---------------------------------------------------------------- swap *)
Theorem C05_swap_is_source : forall l i j, swap l i j = emb (H.swap T l i j).
Proof.
  intros. unfold swap, H.swap. rewrite !get_eq.
  destruct (H.get l i) as [a|] eqn:Ei; destruct (H.get l j) as [b|] eqn:Ej; simpl; try reflexivity.
  pose proof (get_range _ _ _ Ei). pose proof (get_range _ _ _ Ej).
  rewrite set_eq by assumption. simpl.
  rewrite set_eq by (unfold zlen in *; rewrite upd_length'; assumption). simpl.
  rewrite !get_eq.
  destruct (H.get (H.upd (H.upd l i b) j a) i); simpl; try reflexivity.
  destruct (H.get (H.upd (H.upd l i b) j a) j); simpl; reflexivity.
Qed.

Lemma swap_length l i j l' m : swap l i j = Ok (l', m) -> length l' = length l.
Proof.
  rewrite C05_swap_is_source. unfold H.swap.
  destruct (H.get l i); [|discriminate]. destruct (H.get l j); [|discriminate].
  destruct (H.get _ i); [|discriminate]. destruct (H.get _ j); [|discriminate].
  simpl. intros E; inversion E; subst. rewrite !upd_length'. reflexivity.
Qed.

Variable cmp : T -> T -> Z.
Notation cv := H.current_variant.

(* ---------------------------------------------------------------- pushUp *)
Definition up_out (log : list (T * Z)) (r : list T * H.moves T * Z) : res (list T * Z * list (T * Z)) :=
  let '(l, m, i) := r in Ok (l, i, log ++ m).

Lemma pushUp_loop1_eq : forall gas f0 l i log,
  pushUp_loop1 f0 gas cmp l i log = bind (emb (H.push_up T cv cmp gas l i)) (up_out log).
Proof.
  induction gas; intros; [reflexivity|].
  cbn [pushUp_loop1 H.push_up].
  change (H.parent_of cv i) with (Z.quot i 2).
  unfold pushup_continue, pushup_break.
  destruct (i >? 0); [|simpl; rewrite app_nil_r; reflexivity].
  rewrite !get_eq.
  destruct (H.get l i) as [a|]; simpl; [|reflexivity].
  destruct (H.get l (Z.quot i 2)) as [b|]; simpl; [|reflexivity].
  destruct (cmp a b >=? 0); [simpl; rewrite app_nil_r; reflexivity|].
  rewrite C05_swap_is_source.
  destruct (H.swap T l i (Z.quot i 2)) as [[l' m]| |]; simpl; try reflexivity.
  rewrite IHgas.
  destruct (H.push_up T cv cmp gas l' (Z.quot i 2)) as [[[l'' m'] r]| |]; simpl; try reflexivity.
  rewrite app_assoc. reflexivity.
Qed.

Lemma pushUp_loop1_mono : forall gas gas' f0 f0' l i log, (gas <= gas')%nat ->
  res_le (pushUp_loop1 f0 gas cmp l i log) (pushUp_loop1 f0' gas' cmp l i log).
Proof.
  induction gas; intros; [apply res_le_oof|]. destruct gas'; [lia|]. simpl.
  mono. apply IHgas; lia.
Qed.

Definition up_ret (r : list T * H.moves T * Z) : Z * list T * list (T * Z) :=
  let '(l, m, i) := r in (i, l, m).

Definition embf {A B} (f : A -> B) (r : H.res A) : res B :=
  match r with H.Ok a => Ok (f a) | H.IndexPanic => Panic PIndex | H.OutOfFuel => OutOfFuel end.

(* pushUp with the fuel the model's push_up is given *)
Theorem C05_pushUp_is_source : forall l i fuel,
  pushUp l cmp i fuel = embf up_ret (H.push_up T cv cmp fuel l i).
Proof.
  intros. unfold pushUp. rewrite pushUp_loop1_eq.
  destruct (H.push_up T cv cmp fuel l i) as [[[l' m] r]| |]; reflexivity.
Qed.

Lemma pushUp_mono l i fuel fuel' : (fuel <= fuel')%nat -> res_le (pushUp l cmp i fuel) (pushUp l cmp i fuel').
Proof. intros. unfold pushUp. mono. apply pushUp_loop1_mono; lia. Qed.

(* ---------------------------------------------------------------- pushDown *)
Definition down_out (log : list (T * Z)) (r : list T * H.moves T * Z) : res (list T * Z * list (T * Z)) :=
  let '(l, m, i) := r in Ok (l, i, log ++ m).

Lemma pushDown_loop1_eq : forall gas f0 l i log lc,
  bind (pushDown_loop1 f0 gas cmp l i log lc) (fun '(l', i', log', _) => Ok (l', i', log'))
  = bind (emb (H.push_down_loop T cmp gas l i lc)) (down_out log).
Proof.
  induction gas; intros; [reflexivity|].
  cbn [pushDown_loop1 H.push_down_loop].
  unfold pushdown_continue, pushdown_left_less, pushdown_right_less, pushdown_done, rchild, lchild_next.
  change (H.len l) with (zlen l).
  destruct (lc <? zlen l); [|simpl; rewrite app_nil_r; reflexivity].
  rewrite !get_eq.
  destruct (H.get l lc) as [x|] eqn:Elc; simpl; [|reflexivity].
  destruct (H.get l i) as [y|] eqn:Ei; simpl; [|reflexivity].
  (* the second read of data[min] gives the value already read *)
  assert (Emin : forall (c : bool), go_get l (if c then lc else i) = Ok (if c then x else y)).
  { intros [|]; rewrite get_eq; [rewrite Elc|rewrite Ei]; reflexivity. }
  set (c1 := cmp x y <? 0).
  replace (if c1 then (lc, x) else (i, y)) with (if c1 then lc else i, if c1 then x else y) by (destruct c1; reflexivity).
  cbv zeta.
  match goal with |- context[of_opt (H.get l ?r)] => set (rc := r) in * end.
  destruct (H.get l rc) as [z|] eqn:Erc.
  - pose proof (get_range _ _ _ Erc) as R. replace (rc <? zlen l) with true by lia.
    simpl. rewrite Emin. simpl.
    set (min2 := if cmp z (if c1 then x else y) <? 0 then rc else if c1 then lc else i).
    destruct (min2 =? i); [simpl; rewrite app_nil_r; reflexivity|].
    rewrite C05_swap_is_source.
    destruct (H.swap T l i min2) as [[l' m]| |]; simpl; try reflexivity.
    rewrite IHgas.
    destruct (H.push_down_loop T cmp gas l' min2 (2 * min2 + 1)) as [[[l'' m'] r]| |]; simpl; try reflexivity.
    rewrite app_assoc. reflexivity.
  - destruct (rc <? zlen l) eqn:Eb; simpl.
    + reflexivity.
    + set (min2 := if c1 then lc else i).
      destruct (min2 =? i); [simpl; rewrite app_nil_r; reflexivity|].
      rewrite C05_swap_is_source.
      destruct (H.swap T l i min2) as [[l' m]| |]; simpl; try reflexivity.
      rewrite IHgas.
      destruct (H.push_down_loop T cmp gas l' min2 (2 * min2 + 1)) as [[[l'' m'] r]| |]; simpl; try reflexivity.
      rewrite app_assoc. reflexivity.
Qed.

Lemma pushDown_loop1_mono : forall gas gas' f0 f0' l i log lc, (gas <= gas')%nat ->
  res_le (pushDown_loop1 f0 gas cmp l i log lc) (pushDown_loop1 f0' gas' cmp l i log lc).
Proof.
  induction gas; intros; [apply res_le_oof|]. destruct gas'; [lia|]. simpl.
  mono. apply IHgas; lia.
Qed.

Lemma pushDown_mono l i fuel fuel' : (fuel <= fuel')%nat -> res_le (pushDown l cmp i fuel) (pushDown l cmp i fuel').
Proof. intros. unfold pushDown. mono. apply pushDown_loop1_mono; lia. Qed.

(* pushDown at loop fuel [fuel] is the model's loop at that fuel *)
Lemma pushDown_eq l i fuel :
  pushDown l cmp i fuel = embf up_ret (H.push_down_loop T cmp fuel l i (lchild i)).
Proof.
  unfold pushDown, lchild.
  pose proof (pushDown_loop1_eq fuel fuel l i [] (2 * i + 1)) as E.
  destruct (pushDown_loop1 fuel fuel cmp l i [] (2 * i + 1)) as [[[[l' i'] log'] lc']| |];
    destruct (H.push_down_loop T cmp fuel l i (2 * i + 1)) as [[[l'' m] r]| |]; simpl in *;
    try discriminate; try (inversion E; subst; reflexivity).
Qed.

Theorem C05_pushDown_is_source : forall l i fuel, (S (length l) <= fuel)%nat ->
  res_le (embf up_ret (H.push_down T cmp l i)) (pushDown l cmp i fuel).
Proof.
  intros. unfold H.push_down. rewrite <- pushDown_eq. apply pushDown_mono; assumption.
Qed.

(* ---------------------------------------------------------------- pop *)
Definition pop_ret (r : list T * H.moves T * T) : T * list T * list (T * Z) :=
  let '(l, m, out) := r in (out, l, m).

Lemma zlen_nonneg l : 0 <= zlen l.
Proof. unfold zlen; lia. Qed.

Lemma go_sub_prefix l n : 0 <= n <= zlen l -> go_sub l 0 n = Ok (firstn (Z.to_nat n) l).
Proof.
  intros R. unfold go_sub.
  replace ((0 <=? 0) && (0 <=? n)) with true by lia. replace (n <=? zlen l) with true by lia.
  rewrite Z.sub_0_r. reflexivity.
Qed.

Theorem C05_pop_is_source : forall l i fuel, (S (length l) <= fuel)%nat ->
  res_le (embf pop_ret (H.pop T cv cmp l i)) (pop l cmp i fuel).
Proof.
  intros l i fuel Hf. unfold pop, H.pop. rewrite get_eq.
  destruct (H.get l i) as [out|] eqn:Ei; cbn [of_opt bind]; [|apply res_le_refl].
  pose proof (get_range _ _ _ Ei) as Ri. pose proof (zlen_nonneg l) as Hl.
  unfold pop_last, pop_single. change (H.len l) with (zlen l).
  destruct (zlen l - 1 =? 0) eqn:E0.
  { rewrite go_sub_prefix by lia. apply res_le_refl. }
  rewrite get_eq.
  destruct (H.get l (zlen l - 1)) as [last|] eqn:En; cbn [of_opt bind]; [|apply res_le_refl].
  pose proof (get_range _ _ _ En) as Rn.
  rewrite set_eq by assumption. cbn [bind].
  rewrite set_eq by (unfold zlen in *; rewrite upd_length'; assumption). cbn [bind].
  set (l1 := H.upd (H.upd l i last) (zlen l - 1) out).
  assert (L1 : length l1 = length l) by (unfold l1; rewrite !upd_length'; reflexivity).
  rewrite get_eq.
  destruct (H.get l1 i) as [moved|]; cbn [of_opt bind]; [|apply res_le_refl].
  replace (zlen l - 1 <? 0) with false by lia.
  rewrite go_sub_prefix by (unfold zlen in *; rewrite L1; lia). cbn [bind].
  change (0 <? pop_ncalls_move) with true. change (0 <? pop_ncalls_pushDown) with true.
  change (H.pop_no_siftup cv) with true. cbv iota.
  set (l2 := firstn (Z.to_nat (zlen l - 1)) l1).
  assert (L2 : (length l2 <= length l)%nat) by (unfold l2; rewrite firstn_length; lia).
  destruct (C05_pushDown_is_source l2 i fuel ltac:(lia)) as [O|E].
  - left. destruct (H.push_down T cmp l2 i) as [[[l3 m1] j]| |]; simpl in *; try discriminate. reflexivity.
  - right. rewrite <- E. destruct (H.push_down T cmp l2 i) as [[[l3 m1] j]| |]; reflexivity.
Qed.

End Elem.

(* ---------------------------------------------------------------- the Queue methods *)
Section Queue.
Context {T : Type}.
Notation cv := H.current_variant.

Definition add_ret (r : H.queue T * H.moves T * Z) : Z * list T * list (T * Z) :=
  let '(q, m, i) := r in (i, H.data q, m).

Theorem C05_add_is_source : forall (q : H.queue T) (x : T) (fuel : nat),
  (S (length (H.data q ++ [x])) <= fuel)%nat ->
  res_le (embf add_ret (H.Add T cv q x)) (Add (H.data q) (H.qcmp q) x fuel).
Proof.
  intros q x fuel Hf. unfold Add, H.Add. cbv zeta. change (H.len (H.data q)) with (zlen (H.data q)).
  rewrite get_eq.
  destruct (H.get (H.data q ++ [x]) (zlen (H.data q))) as [x'|]; cbn [of_opt bind]; [|apply res_le_refl].
  change (0 <? add_ncalls_move) with true. change (0 <? add_ncalls_pushUp) with true. cbv iota.
  pose proof (pushUp_mono (H.qcmp q) (H.data q ++ [x]) (zlen (H.data q)) _ _ Hf) as [O|E].
  - left. rewrite C05_pushUp_is_source in O.
    destruct (H.push_up T cv (H.qcmp q) _ _ _) as [[[l' m] r]| |]; simpl in *; try discriminate. reflexivity.
  - right. rewrite <- E, C05_pushUp_is_source.
    destruct (H.push_up T cv (H.qcmp q) _ _ _) as [[[l' m] r]| |]; reflexivity.
Qed.

(* Pop / Remove return (zero, false) where the model returns None; Remove's explicit panic is the
   model's RemPanic outcome *)
Definition pop_out (zero : T) (r : H.queue T * H.moves T * option T) : T * bool * list T * list (T * Z) :=
  let '(q, m, o) := r in
  match o with
  | None => (zero, false, H.data q, m)
  | Some x => (x, true, H.data q, m)
  end.

Theorem C05_Pop_is_source : forall (q : H.queue T) (zero : T) (fuel : nat),
  (S (length (H.data q)) <= fuel)%nat ->
  res_le (embf (pop_out zero) (H.Pop T cv q)) (Pop (H.data q) (H.qcmp q) zero fuel).
Proof.
  intros q zero fuel Hf. unfold Pop, H.Pop. unfold Pop_empty, Pop_index.
  change (H.len (H.data q)) with (zlen (H.data q)).
  destruct (zlen (H.data q) =? 0); [apply res_le_refl|].
  destruct (C05_pop_is_source (H.qcmp q) (H.data q) 0 fuel Hf) as [O|E].
  - left. destruct (H.pop T cv (H.qcmp q) (H.data q) 0) as [[[l m] out]| |]; simpl in *; try discriminate. reflexivity.
  - right. rewrite <- E. destruct (H.pop T cv (H.qcmp q) (H.data q) 0) as [[[l m] out]| |]; reflexivity.
Qed.

Definition remove_out (zero : T) (r : H.res (H.queue T * H.moves T * H.removed T)) : res (T * bool * list T * list (T * Z)) :=
  match r with
  | H.Ok (q, m, H.RemPanic) => Panic (PMsg "index out of range")
  | H.Ok (q, m, H.RemNone) => Ok (zero, false, H.data q, m)
  | H.Ok (q, m, H.RemSome x) => Ok (x, true, H.data q, m)
  | H.IndexPanic => Panic PIndex
  | H.OutOfFuel => OutOfFuel
  end.

Theorem C06_Remove_is_source : forall (q : H.queue T) (n : Z) (zero : T) (fuel : nat),
  (S (length (H.data q)) <= fuel)%nat ->
  res_le (remove_out zero (H.Remove T cv q n)) (Remove (H.data q) (H.qcmp q) n zero fuel).
Proof.
  intros q n zero fuel Hf. unfold Remove, H.Remove. unfold Remove_negative, Remove_beyond.
  change (H.len (H.data q)) with (zlen (H.data q)).
  destruct (n <? 0); [apply res_le_refl|].
  destruct (n >=? zlen (H.data q)); [apply res_le_refl|].
  destruct (C05_pop_is_source (H.qcmp q) (H.data q) n fuel Hf) as [O|E].
  - left. destruct (H.pop T cv (H.qcmp q) (H.data q) n) as [[[l m] out]| |]; simpl in *; try discriminate. reflexivity.
  - right. rewrite <- E. destruct (H.pop T cv (H.qcmp q) (H.data q) n) as [[[l m] out]| |]; reflexivity.
Qed.
End Queue.

Print Assumptions C05_swap_is_source.
Print Assumptions C05_pushUp_is_source.
Print Assumptions C05_pushDown_is_source.
Print Assumptions C05_pop_is_source.
Print Assumptions C05_add_is_source.
Print Assumptions C05_Pop_is_source.
Print Assumptions C06_Remove_is_source.
