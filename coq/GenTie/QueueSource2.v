(* C07 at source level, second round: the machine of QueueSource.v extended by the functions tied
   in round 6 (GenTie/QueueTieRest.v): Queue.Slice as an operation of histories and the
   constructors New / NewSize(k) as the GENERATED start states.

   [gstep2 R]  = [gstep R] of QueueSource.v, except OSlice: the generated Slice on the three fields
                 with fuel n + 1 (the bound of C07_slice_is_source), output RList.
   [ginit i]   = the start state: IZero -> the zero value `var q Queue[T]` (no constructor runs);
                 INew -> the fields the generated New returns; ISize k -> the fields the generated
                 NewSize k returns (make's panic for k < 0 is its Panic result).
   OEach m stays out ([src_op2]): the generated Each takes a PURE callback and returns unit, so the
   sequence the recording callback of the model's OEach sees cannot be an output; Each is covered
   per reachable state by each_peek_source (QueueSource.v). *)
From Coq Require Import ZArith List Bool Lia.
From Mds Require Import Common.FnRt GenTie.TieLib Gen.FnQueue Gen.QueueIdx GenTie.QueueTieBase.
From Mds Require Import GenTie.QueueTieRest GenTie.QueueSource.
From Mds Require Gen.FnSlice.
From Mds Require Queue.QueueSpec Props.C07.
Import ListNotations.
Local Open Scope Z_scope.

Section Src2.
Context {T : Type}.
Variable zero : T.
Notation queue := (Q.queue T).
Notation vs := (@Q.vs T).
Notation head := (@Q.head T).
Notation qn := (@Q.n T).
Notation mkq := (@mkq T).

Definition src_op2 (o : Q.op T) : bool :=
  match o with Q.OEach _ => false | _ => true end.

(* the start state from the generated constructors *)
Definition ginit (i : Q.init) : res queue :=
  match i with
  | Q.IZero => Ok (Q.zero_queue T)
  | Q.INew => Ok (mkq (@New T))
  | Q.ISize k => do r <- NewSize k zero; Ok (mkq r)
  end.

Section Step.
Variable R : list T -> Z -> res (list T).

Definition gstep2 (q : queue) (o : Q.op T) : res (queue * Q.out T) :=
  match o with
  | Q.OSlice => do l <- Slice (vs q) (head q) (qn q) zero (S (Z.to_nat (qn q))); Ok (q, Q.RList l)
  | _ => gstep zero R q o
  end.

Fixpoint grun2 (q : queue) (ops : list (Q.op T)) : list (res (Q.out T)) :=
  match ops with
  | [] => []
  | o :: rest =>
    match gstep2 q o with
    | Ok (q', r) => Ok r :: grun2 q' rest
    | Panic k => [Panic k]
    | OutOfFuel => [OutOfFuel]
    end
  end.

Fixpoint gexec2 (q : queue) (ops : list (Q.op T)) : res queue :=
  match ops with
  | [] => Ok q
  | o :: rest => do r <- gstep2 q o; gexec2 (fst r) rest
  end.

(* histories from the generated constructor *)
Definition grun2_init (i : Q.init) (ops : list (Q.op T)) : list (res (Q.out T)) :=
  match ginit i with
  | Ok q => grun2 q ops
  | Panic k => [Panic k]
  | OutOfFuel => [OutOfFuel]
  end.
End Step.

(* ---- the constructors ---- *)
Theorem ginit_is_init (i : Q.init) : ginit i = embf (fun x => x) (Q.mk_init T zero i).
Proof.
  destruct i as [| |k]; cbn [ginit Q.mk_init embf].
  - reflexivity.
  - rewrite C07_new_is_source, mkq_fields. reflexivity.
  - rewrite (C07_newsize_is_source zero k).
    destruct (Q.new_size T zero k) as [q| | |]; cbn [embf bind]; try reflexivity.
    rewrite mkq_fields. reflexivity.
Qed.

(* ---- one step with the model's Rotate: equality with the model's step ---- *)
Theorem gstep2_is_step : forall (q : queue) (o : Q.op T), src_op2 o = true ->
  gstep2 rot q o = embf (fun x => x) (Q.step Q.idw T zero q o).
Proof.
  intros q o Ho. destruct o; try discriminate Ho; try (apply (gstep_is_step zero); reflexivity).
  cbn [gstep2 Q.step]. rewrite (C07_slice_is_source zero q) by lia.
  destruct (Q.slice Q.idw T zero q); reflexivity.
Qed.

Lemma gstep2_ok12 (R1 R2 : list T -> Z -> res (list T)) :
  (forall l k r, R1 l k = Ok r -> R2 l k = Ok r) ->
  forall q o x, gstep2 R1 q o = Ok x -> gstep2 R2 q o = Ok x.
Proof.
  intros R12 q o x. destruct o; try (apply (gstep_ok12 zero R1 R2 R12)). cbn [gstep2]. auto.
Qed.

Theorem gstep2_src_ok : forall (q : queue) (o : Q.op T) (x : queue * Q.out T), src_op2 o = true ->
  Q.step Q.idw T zero q o = Q.QOk x -> gstep2 rot_src q o = Ok x.
Proof.
  intros q o x Ho H. apply (gstep2_ok12 rot rot_src rot_src_ok).
  rewrite (gstep2_is_step q o Ho), H. reflexivity.
Qed.

Theorem grun2_src_ok : forall (ops : list (Q.op T)) (q : queue) (outs : list (Q.out T)),
  forallb src_op2 ops = true ->
  Q.run Q.idw T zero q ops = map Q.QOk outs -> grun2 rot_src q ops = map Ok outs.
Proof.
  induction ops as [|o rest IH]; intros q outs Hs H.
  - destruct outs; [reflexivity|discriminate H].
  - cbn [forallb] in Hs. apply andb_prop in Hs. destruct Hs as [Ho Hr].
    cbn [grun2 Q.run] in *.
    destruct (Q.step Q.idw T zero q o) as [[q' r]| | |] eqn:E;
      (destruct outs as [|r0 outs]; [discriminate H|]); cbn [map] in H; try discriminate H.
    inversion H; subst r0. rewrite (gstep2_src_ok q o _ Ho E).
    cbn [map]. f_equal. apply IH; assumption.
Qed.

(* a valid initial configuration: the model's constructor succeeds *)
Lemma mk_init_ok (i : Q.init) : QS.init_ok i -> exists q0, Q.mk_init T zero i = Q.QOk q0.
Proof.
  destruct i as [| |k]; cbn [QS.init_ok Q.mk_init]; intros Hi; try (eexists; reflexivity).
  unfold Q.new_size, Q.make. qunf_rest. replace (k <? 0) with false by lia.
  eexists. reflexivity.
Qed.

(* ---- composition with Props/C07.v ---- *)
Theorem history_source_full : forall (i : Q.init) (ops : list (Q.op T)),
  QS.init_ok i -> forallb src_op2 ops = true -> QS.oracles_ok T (QS.init_cap i) 0 ops ->
  grun2_init rot_src i ops = map Ok (QS.spec_run T zero [] ops).
Proof.
  intros i ops Hi Hs Hor. unfold grun2_init.
  destruct (mk_init_ok i Hi) as [q0 Hq]. rewrite ginit_is_init, Hq. cbn [embf].
  apply grun2_src_ok; [exact Hs|].
  pose proof (C07.C07_history T zero i ops Hi Hor) as H.
  unfold Q.run_init in H. rewrite Hq in H. exact H.
Qed.

(* NewSize with a negative size: make's panic, in the generated constructor as in the model's *)
Theorem newsize_negative_source : forall (k : Z) (ops : list (Q.op T)), k < 0 ->
  grun2_init rot_src (Q.ISize k) ops = [Panic PMake].
Proof.
  intros k ops Hk. unfold grun2_init, ginit, NewSize, go_make_check.
  replace ((0 <=? k) && (k <=? k)) with false by lia. reflexivity.
Qed.

End Src2.

Print Assumptions history_source_full.
Print Assumptions gstep2_is_step.
Print Assumptions ginit_is_init.
