(* UnifyChunks / Diff.Unify of mdiff/mdiff.go: the model's unify_chunks (Mdiff/MdiffModel.v) = the
   function generated from the whole body by the heap backend (Gen/FnMdiffHeap.v). *)
From Coq Require Import ZArith List Bool Lia ZifyBool.
From Mds Require Import Common.FnRt Common.FnHeap GenTie.TieLib Gen.MdiffIdx Gen.EditIdx GenTie.MdiffTieFind.
From Mds Require Import Gen.FnMdiffHeap GenTie.MdiffTieHeap GenTie.MdiffTieNew.
From Mds Require Mdiff.MdiffModel.
Import ListNotations.
Local Open Scope Z_scope.

Notation line := (list Z) (only parsing).
Notation edit := (EditLoop.edit (list Z)) (only parsing).
Notation chunk := (M.chunk (list Z)) (only parsing).

(* one merging step of the model with BOTH cells it changes: the merged `last` (what unify_step
   keeps) and the chunk c as Go leaves it behind (trimmed, its first edit moved: c stays in the
   caller's slice cs but not in the result) *)
Definition ustep_full (last c : chunk) : M.res (chunk * chunk) :=
  let lap := uc_lap (M.LStart c) (M.LEnd last) in
  M.bind (if uc_overlap lap then M.uc_trim last c lap else M.Ok (last, c)) (fun lc =>
  M.bind (M.uc_fusion (fst lc) (snd lc)) (fun lc' =>
  M.Ok (M.uc_merge (fst lc') (snd lc'), snd lc'))).

Lemma unify_step_full (done : list chunk) (last c : chunk) :
  M.unify_step (done, last) c =
  if uc_apart (M.LStart c) (M.LEnd last) then M.Ok (done ++ [last], c)
  else M.bind (ustep_full last c) (fun p => M.Ok (done, fst p)).
Proof.
  unfold M.unify_step, ustep_full. cbn [fst snd]. destruct (uc_apart _ _); [reflexivity|].
  destruct (if uc_overlap _ then _ else _) as [lc|k]; cbn [M.bind]; [|reflexivity].
  destruct (M.uc_fusion _ _) as [lc'|k]; reflexivity.
Qed.

Lemma apart_ne (a b : nat) : a <> b -> go_apart (Some a) (Some b) = Ok tt.
Proof. intros H. unfold go_apart, go_peq. destruct (Nat.eqb_spec a b); [contradiction|reflexivity]. Qed.

Lemma snoc_case {A} (l : list A) : l = [] \/ exists l' x, l = l' ++ [x].
Proof. destruct (rev l) eqn:E.
  - left. apply (f_equal (@rev A)) in E. rewrite rev_involutive in E. exact E.
  - right. exists (rev l0), a. apply (f_equal (@rev A)) in E. rewrite rev_involutive in E. exact E.
Qed.

Lemma take_snoc {A} (l : list A) x : M.take (l ++ [x]) (zlen (l ++ [x]) - 1) = M.Ok l.
Proof.
  rewrite take_ok; unfold zlen; rewrite ?app_length; simpl length; try lia.
  replace (Z.to_nat (Z.of_nat (length l + 1) - 1)) with (length l) by lia. rewrite firstn_snoc. reflexivity.
Qed.

Lemma sub_snoc {A} (l : list A) x : go_sub (l ++ [x]) 0 (zlen (l ++ [x]) - 1) = Ok l.
Proof.
  rewrite sub_take; unfold zlen; rewrite ?app_length; simpl length; try lia.
  replace (Z.to_nat (Z.of_nat (length l + 1) - 1)) with (length l) by lia. rewrite firstn_snoc. reflexivity.
Qed.

Lemma drop_cons {A} (x : A) l : M.drop (x :: l) 1 = M.Ok l.
Proof. rewrite drop_ok; unfold zlen; simpl length; try lia. reflexivity. Qed.

Lemma sub_cons {A} (x : A) l : go_sub (x :: l) 1 (zlen (x :: l)) = Ok l.
Proof. rewrite sub_drop; unfold zlen; simpl length; try lia. reflexivity. Qed.

Section Step.
Variables (h0 : list Chunk) (al ac : nat).
Hypothesis Hne : al <> ac.
Hypothesis Hl : (al < length h0)%nat.
Hypothesis Hc : (ac < length h0)%nat.

Notation HH := (H2 h0 al ac).

Ltac h2 := repeat first
  [ rewrite (H2_get_l h0 al ac Hne Hl) | rewrite (H2_get_c h0 al ac Hc)
  | rewrite (H2_mod_l h0 al ac Hne Hl) | rewrite (H2_mod_c h0 al ac Hc)
  | progress cbn [bind henc Chunk_Edits Chunk_LStart Chunk_LEnd Chunk_RStart Chunk_REnd M.edits M.LStart M.LEnd M.RStart M.REnd
                  Edit_Op Edit_X Edit_Y fst snd] ].

Ltac tfin := cbn [M.bind fst snd M.edits M.LStart M.LEnd M.RStart M.REnd];
  unfold uc_bad_merge, uc_end_lend, uc_end_rend, uc_start_lstart, uc_start_rstart; h2;
  match goal with |- context [if ?b then _ else _] => destruct b eqn:? end;
  unfold henc, M.set_X; cbn [M.edits M.LStart M.LEnd M.RStart M.REnd EditLoop.eop EditLoop.X EditLoop.Y];
  rewrite ?map_app; cbn [map]; rewrite ?ptrat_last, ?ptrat_first; unfold eenc; cbn [EditLoop.eop EditLoop.X EditLoop.Y]; try reflexivity.

Ltac h3 := repeat first [progress h2 | rewrite eget_first | rewrite eset_first | rewrite esnap_first | rewrite eget_mid | rewrite eset_mid
  | rewrite sub_cons | progress cbn [map go_deref eenc EditLoop.eop EditLoop.X EditLoop.Y]].

Ltac mfin := cbn [M.bind fst snd]; unfold M.uc_merge, uc_merge_lend, uc_merge_rend, uc_fuse_lend, uc_fuse_rend, uc_fuse_lstart, uc_fuse_rstart, M.set_X;
  cbn [M.edits M.LStart M.LEnd M.RStart M.REnd EditLoop.eop EditLoop.X EditLoop.Y];
  unfold henc; cbn [M.edits M.LStart M.LEnd M.RStart M.REnd];
  rewrite ?map_app; cbn [map]; unfold eenc; cbn [EditLoop.eop EditLoop.X EditLoop.Y]; rewrite <- ?app_assoc; try reflexivity.

Lemma body_eq : forall (last c : chunk) f gas lim win merged r,
  (r <? lim) = true -> go_get win r = Ok (Some ac) -> go_at merged (-1) = Ok (Some al) ->
  UnifyChunks_loop1 f (S gas) lim win merged r (HH (henc last) (henc c)) =
  if uc_apart (M.LStart c) (M.LEnd last) then UnifyChunks_loop1 f gas lim win (merged ++ [Some ac]) (r + 1) (HH (henc last) (henc c))
  else match ustep_full last c with
       | M.Ok (last', c') => UnifyChunks_loop1 f gas lim win merged (r + 1) (HH (henc last') (henc c'))
       | M.Panic k => Panic (memb_panic k)
       end.
Proof.
  intros last c f gas lim win merged r Hr Hw Hm.
  destruct last as [led lls lle lrs lre]. destruct c as [ced cls cle crs cre].
  cbn [UnifyChunks_loop1 M.LStart M.LEnd]. rewrite Hr, Hw. cbn [bind]. rewrite Hm. cbn [bind].
  set (K := UnifyChunks_loop1 f gas lim win). h2. unfold uc_apart.
  destruct (cls >? lle) eqn:Hap; [reflexivity|].
  h2. rewrite (apart_ne ac al) by congruence. cbn [bind].
  unfold ustep_full, uc_lap, uc_overlap. cbn [M.LStart M.LEnd]. set (lap := lle - cls).
  set (last := M.mkChunk led lls lle lrs lre). set (c := M.mkChunk ced cls cle crs cre).
  match goal with |- bind ?A ?F = _ =>
    assert (HA : A = match (if lap >? 0 then M.uc_trim last c lap else M.Ok (last, c)) with
                     | M.Ok (last', c') => Ok (go_ptrat (map eenc (M.edits last')) (-1), go_ptrat (map eenc (M.edits c')) 0, HH (henc last') (henc c'))
                     | M.Panic k => Panic (memb_panic k) end) end.
  { destruct (lap >? 0) eqn:Hlap; [|reflexivity].
    unfold M.uc_trim. change uc_end_idx with (-1). change uc_start_idx with 0. change (@M.len) with (@zlen).
    subst last c. cbn [M.edits M.LStart M.LEnd M.RStart M.REnd].
    destruct (snoc_case led) as [->|[l [en ->]]].
    - reflexivity.
    - rewrite map_app. cbn [map]. rewrite ptrat_last, !eget_mid, mptr_last. cbn [M.deref M.bind bind].
      cbn [eenc Edit_Op Edit_X Edit_Y]. rewrite op_code_emit. unfold uc_end_emit, M.is_emit.
      destruct (EditLoop.op_eqb (EditLoop.eop en) EditLoop.Emit) eqn:Hem.
      + unfold uc_end_whole. change (Z.geb lap (zlen (EditLoop.X en))) with (lap >=? zlen (EditLoop.X en)).
        destruct (lap >=? zlen (EditLoop.X en)) eqn:Hwh.
        * rewrite sub_snoc. h2. unfold uc_end_drop_hi. rewrite take_snoc. tfin.
        * pose proof (zlen_nonneg (EditLoop.X en)).
          rewrite sub_take by lia. h2. rewrite eset_mid. h2.
          unfold uc_end_trim_hi. rewrite take_ok by lia. cbn [M.bind]. rewrite mset_last. tfin.
      + unfold uc_start_emit. destruct ced as [|st tl].
        * reflexivity.
        * cbn [map]. rewrite ptrat_first, !eget_first. change (M.ptr_at (st :: tl) 0) with (Some st). cbn [M.deref M.bind bind].
          cbn [eenc Edit_Op Edit_X Edit_Y]. rewrite op_code_emit.
          destruct (EditLoop.op_eqb (EditLoop.eop st) EditLoop.Emit) eqn:Hes.
          -- unfold uc_start_whole. change (Z.geb lap (zlen (EditLoop.X st))) with (lap >=? zlen (EditLoop.X st)).
             destruct (lap >=? zlen (EditLoop.X st)) eqn:Hwh.
             ++ h2. rewrite sub_cons. h2. unfold uc_start_drop_lo. rewrite drop_cons. tfin.
             ++ pose proof (zlen_nonneg (EditLoop.X st)).
                rewrite sub_drop by lia. h2. rewrite eset_first. h2.
                unfold uc_start_trim_lo. rewrite drop_ok by lia. cbn [M.bind]. rewrite mset_first. tfin.
          -- tfin. }
  rewrite HA. clear HA.
  destruct (if lap >? 0 then M.uc_trim last c lap else M.Ok (last, c)) as [[last' c']|k]; cbn [bind M.bind fst snd]; [|reflexivity].
  clear last c lap Hap. destruct last' as [led' lls' lle' lrs' lre']. destruct c' as [ced' cls' cle' crs' cre'].
  h2. unfold M.uc_fusion. change uc_end_idx with (-1). change uc_start_idx with 0. change (@M.len) with (@zlen).
  cbn [M.edits M.LStart M.LEnd M.RStart M.REnd].
  destruct (snoc_case led') as [->|[l [en ->]]].
  - reflexivity.
  - rewrite map_app. cbn [map]. rewrite ptrat_last, !eget_mid, mptr_last. cbn [M.deref M.bind bind].
    cbn [eenc Edit_Op Edit_X Edit_Y]. rewrite op_code_emit. unfold M.is_emit.
    destruct (EditLoop.op_eqb (EditLoop.eop en) EditLoop.Emit) eqn:Hem.
    + destruct ced' as [|st tl].
      * reflexivity.
      * cbn [map]. rewrite ptrat_first, !eget_first. change (M.ptr_at (st :: tl) 0) with (Some st). cbn [M.deref M.bind bind].
        cbn [eenc Edit_Op Edit_X Edit_Y]. rewrite op_code_emit. unfold uc_fuse. cbn [andb].
        destruct (EditLoop.op_eqb (EditLoop.eop st) EditLoop.Emit) eqn:Hes.
        -- h2. rewrite eset_mid. h3.
           unfold uc_fuse_drop_lo. rewrite drop_cons. cbn [M.bind]. rewrite mset_last. mfin.
        -- h3. mfin.
    + h3. mfin.
Qed.
End Step.

(* ---- the model with every cell it changes ----
   state: (done, fin, last, abs): done = the chunks kept so far (the model's own state with last);
   fin = the final values of all cells before last, in input order; abs = the chunks absorbed into
   last, as Go leaves them behind. *)
Definition ustate : Type := (list chunk * list chunk * chunk * list chunk)%type.

Definition ustep_all (s : ustate) (c : chunk) : M.res ustate :=
  let '(done, fin, last, abs) := s in
  if uc_apart (M.LStart c) (M.LEnd last) then M.Ok (done ++ [last], fin ++ last :: abs, c, [])
  else M.bind (ustep_full last c) (fun p => M.Ok (done, fin, fst p, abs ++ [snd p])).

Fixpoint uloop_all (s : ustate) (cs : list chunk) : M.res ustate :=
  match cs with
  | [] => M.Ok s
  | c :: rest => M.bind (ustep_all s c) (fun s' => uloop_all s' rest)
  end.

(* (the chunks UnifyChunks returns, the final values of ALL input cells in input order) *)
Definition unify_all (cs : list chunk) : M.res (list chunk * list chunk) :=
  match cs with
  | [] => M.Ok ([], [])
  | c0 :: rest => M.bind (uloop_all ([], [], c0, []) rest) (fun s =>
                  let '(done, fin, last, abs) := s in M.Ok (done ++ [last], fin ++ last :: abs))
  end.

Lemma uloop_all_model : forall rest done fin last abs,
  M.unify_loop (done, last) rest
  = M.bind (uloop_all (done, fin, last, abs) rest) (fun s => let '(done', _, last', _) := s in M.Ok (done', last')).
Proof.
  induction rest as [|c rest IH]; intros done fin last abs; cbn [M.unify_loop uloop_all M.bind]; [reflexivity|].
  rewrite unify_step_full. unfold ustep_all. destruct (uc_apart _ _); cbn [M.bind].
  - apply IH.
  - destruct (ustep_full last c) as [[last' c']|k]; cbn [M.bind fst snd]; [apply IH|reflexivity].
Qed.

(* the model's unify_chunks is the first component *)
Theorem unify_all_model : forall cs, M.unify_chunks cs = M.bind (unify_all cs) (fun p => M.Ok (fst p)).
Proof.
  intros [|c0 rest]; [reflexivity|].
  unfold M.unify_chunks, unify_all. change (uc_empty (M.len (c0 :: rest))) with false. cbv iota.
  change (EditLoop.zth (c0 :: rest) 0) with (Some c0). unfold uc_rest_lo. rewrite drop_cons. cbn [M.bind].
  rewrite (uloop_all_model rest [] [] c0 []).
  destruct (uloop_all _ rest) as [[[[done fin] last] abs]|k]; reflexivity.
Qed.

(* ---- cells ---- *)
Lemma cells_app h a1 a2 c1 c2 : cells h a1 c1 -> cells h a2 c2 -> cells h (a1 ++ a2) (c1 ++ c2).
Proof. apply Forall2_app. Qed.

Lemma cells_frame h h' ads cs : cells h ads cs -> (forall a, In a ads -> nth_error h' a = nth_error h a) -> cells h' ads cs.
Proof.
  intros H. induction H; intros F; constructor.
  - rewrite F by (left; reflexivity). assumption.
  - apply IHForall2. intros a Ha. apply F. right. exact Ha.
Qed.

Lemma cells_one h a c : nth_error h a = Some (henc c) -> cells h [a] [c].
Proof. intros. constructor; [assumption|constructor]. Qed.

Lemma at_last {A} (l : list A) x : go_at (l ++ [x]) (-1) = Ok x.
Proof.
  unfold go_at, go_index_check, zlen. rewrite app_length. simpl length.
  replace (-1 <? 0) with true by reflexivity.
  replace ((-1 + Z.of_nat (length l + 1) >=? 0) && (-1 + Z.of_nat (length l + 1) <? Z.of_nat (length l + 1))) with true by lia.
  cbn [negb]. unfold go_get, zlen. rewrite app_length. simpl length.
  replace ((0 <=? -1 + Z.of_nat (length l + 1)) && (-1 + Z.of_nat (length l + 1) <? Z.of_nat (length l + 1))) with true by lia.
  replace (Z.to_nat (-1 + Z.of_nat (length l + 1))) with (length l) by lia. rewrite mh_nth_snoc. reflexivity.
Qed.

Lemma get_mid_some (l1 l2 : list nat) x : go_get (map Some (l1 ++ x :: l2)) (zlen l1) = Ok (Some x).
Proof.
  unfold go_get, zlen. rewrite map_length, app_length. simpl length.
  replace ((0 <=? Z.of_nat (length l1)) && (Z.of_nat (length l1) <? Z.of_nat (length l1 + S (length l2)))) with true by lia.
  rewrite Nat2Z.id, map_app, nth_error_app2 by (rewrite map_length; lia).
  rewrite map_length, Nat.sub_diag. reflexivity.
Qed.

Lemma NoDup_snoc {A} (l : list A) x : NoDup l -> ~ In x l -> NoDup (l ++ [x]).
Proof.
  induction l as [|a l IH]; intros ND Hx; simpl.
  - constructor; [intros []|constructor].
  - inversion ND; subst. constructor.
    + intros Hi. apply in_app_or in Hi. destruct Hi as [Hi|[<-|[]]]; [contradiction|]. apply Hx. left. reflexivity.
    + apply IH; [assumption|]. intros Hi. apply Hx. right. exact Hi.
Qed.

(* what the generated loop does, for a model run that ends in (done', fin', last', abs') *)
Definition loop_post (h : list Chunk) (ads : list nat) (touched : list nat) (lim : Z)
    (s' : ustate) (g : res (list (option nat) * Z * list Chunk)) : Prop :=
  let '(done', fin', last', abs') := s' in
  exists akept' al' h',
    g = Ok (map Some (akept' ++ [al']), lim, h') /\
    cells h' (akept' ++ [al']) (done' ++ [last']) /\
    cells h' ads (fin' ++ last' :: abs') /\
    length h' = length h /\
    (forall k, ~ In k touched -> nth_error h' k = nth_error h k) /\
    incl (akept' ++ [al']) ads /\ NoDup (akept' ++ [al']).

Lemma NoDup_mid_neq {A} (l1 l2 : list A) x : NoDup (l1 ++ x :: l2) -> forall k, In k (l1 ++ l2) -> k <> x.
Proof. intros ND k Hk ->. apply NoDup_remove_2 in ND. contradiction. Qed.

Lemma loop_post_weaken h ads t1 t2 lim s g : (forall k, In k t1 -> In k t2) -> loop_post h ads t1 lim s g -> loop_post h ads t2 lim s g.
Proof.
  unfold loop_post. destruct s as [[[d fi] la] ab]. intros Ht (ak & al' & h' & A & B & C & D & E & F).
  exists ak, al', h'. repeat (split; [assumption|]). split; [|exact F]. intros k Hk. apply E. intros Hi. apply Hk. apply Ht. exact Hi.
Qed.

Lemma loop_eq : forall (rest : list chunk) (arest : list nat) f gas (awin0 : list nat) (h : list Chunk)
    (akept afin aabs : list nat) (al : nat) (done fin abs : list chunk) (last : chunk),
  (length rest < gas)%nat ->
  NoDup (afin ++ al :: aabs ++ arest) -> incl akept afin -> NoDup akept ->
  cells h akept done -> cells h afin fin -> nth_error h al = Some (henc last) -> cells h aabs abs -> cells h arest rest ->
  let g := UnifyChunks_loop1 f gas (zlen (map Some (awin0 ++ arest))) (map Some (awin0 ++ arest)) (map Some (akept ++ [al])) (zlen awin0) h in
  match uloop_all (done, fin, last, abs) rest with
  | M.Ok s' => loop_post h (afin ++ al :: aabs ++ arest) (al :: arest) (zlen (map Some (awin0 ++ arest))) s' g
  | M.Panic k => g = Panic (memb_panic k)
  end.
Proof.
  induction rest as [|c rest IH]; intros arest f gas awin0 h akept afin aabs al done fin abs last Hg ND Hin NDk Ck Cf Cl Ca Cr g;
    (destruct gas; [simpl in Hg; lia|]); inversion Cr as [|ac c0 arest' rest0 Hc Cr' E1 E2]; subst.
  - cbn [uloop_all]. unfold loop_post. exists akept, al, h. subst g. cbn [UnifyChunks_loop1]. rewrite app_nil_r.
    rewrite zlen_map. replace (zlen awin0 <? zlen awin0) with false by lia.
    split; [reflexivity|]. split; [apply cells_app; [exact Ck|apply cells_one; exact Cl]|].
    split. { rewrite app_nil_r. apply cells_app; [exact Cf|]. constructor; [exact Cl|exact Ca]. }
    split; [reflexivity|]. split; [reflexivity|]. split.
    + intros k Hk. apply in_app_or in Hk. apply in_or_app. destruct Hk as [Hk|[<-|[]]]; [left; apply Hin; exact Hk|right; left; reflexivity].
    + apply NoDup_snoc; [exact NDk|]. intros Hi. apply NoDup_remove_2 in ND. apply ND. apply in_or_app. left. apply Hin. exact Hi.
  - assert (Hne : al <> ac).
    { apply NoDup_remove_2 in ND. intros ->. apply ND. apply in_or_app. right. apply in_or_app. right. left. reflexivity. }
    assert (Hl : (al < length h)%nat) by (apply nth_error_Some; congruence).
    assert (Hlc : (ac < length h)%nat) by (apply nth_error_Some; congruence).
    cbn [uloop_all]. unfold ustep_all.
    pose proof (body_eq h al ac Hne Hl Hlc last c f gas (zlen (map Some (awin0 ++ ac :: arest'))) (map Some (awin0 ++ ac :: arest'))
                  (map Some (akept ++ [al])) (zlen awin0)) as HB.
    rewrite (H2_id h al ac _ _ Cl Hc) in HB.
    specialize (HB ltac:(rewrite zlen_map; unfold zlen; rewrite app_length; simpl; lia) (get_mid_some awin0 arest' ac)).
    assert (Hat : go_at (map Some (akept ++ [al])) (-1) = Ok (Some al)) by (rewrite map_app; apply at_last).
    specialize (HB Hat). clear Hat.
    subst g. rewrite HB. clear HB.
    replace (awin0 ++ ac :: arest') with ((awin0 ++ [ac]) ++ arest') by (rewrite <- app_assoc; reflexivity).
    replace (zlen awin0 + 1) with (zlen (awin0 ++ [ac])) by (rewrite zlen_app1; reflexivity).
    destruct (uc_apart (M.LStart c) (M.LEnd last)); cbn [M.bind].
    + (* apart: c becomes the new last *)
      replace (map Some (akept ++ [al]) ++ [Some ac]) with (map Some ((akept ++ [al]) ++ [ac])) by (rewrite !map_app; reflexivity).
      specialize (IH arest' f gas (awin0 ++ [ac]) h (akept ++ [al]) (afin ++ al :: aabs) [] ac (done ++ [last]) (fin ++ last :: abs) [] c).
      replace ((afin ++ al :: aabs) ++ ac :: [] ++ arest') with (afin ++ al :: aabs ++ ac :: arest') in IH
        by (rewrite <- app_assoc; reflexivity).
      assert (P1 : incl (akept ++ [al]) (afin ++ al :: aabs)).
      { intros k Hk. apply in_app_or in Hk. apply in_or_app. destruct Hk as [Hk|[<-|[]]]; [left; apply Hin; exact Hk|right; left; reflexivity]. }
      assert (P2 : NoDup (akept ++ [al])).
      { apply NoDup_snoc; [exact NDk|]. intros Hi. apply NoDup_remove_2 in ND. apply ND. apply in_or_app. left. apply Hin. exact Hi. }
      specialize (IH ltac:(simpl in Hg; lia) ND P1 P2 (cells_app _ _ _ _ _ Ck (cells_one _ _ _ Cl))
                     (cells_app _ _ _ _ _ Cf (Forall2_cons _ _ Cl Ca)) Hc (Forall2_nil _) Cr').
      cbv zeta in IH. destruct (uloop_all _ rest) as [s'|k]; [|exact IH].
      eapply loop_post_weaken; [|exact IH]. intros k Hk. right. exact Hk.
    + (* merge: last absorbs c *)
      destruct (ustep_full last c) as [[last' c']|k]; cbn [M.bind fst snd]; [|reflexivity].
      set (h1 := H2 h al ac (henc last') (henc c')).
      assert (F1 : forall k, k <> al -> k <> ac -> nth_error h1 k = nth_error h k) by (intros; apply H2_nth_other; assumption).
      assert (NDa : forall k, In k (afin ++ aabs ++ arest') -> k <> al /\ k <> ac).
      { intros k Hk. split; intros ->.
        - apply (NoDup_mid_neq _ _ _ ND al); [|reflexivity]. rewrite !in_app_iff in *. simpl. tauto.
        - replace (afin ++ al :: aabs ++ ac :: arest') with ((afin ++ al :: aabs) ++ ac :: arest') in ND by (rewrite <- app_assoc; reflexivity).
          apply (NoDup_mid_neq _ _ _ ND ac); [|reflexivity]. rewrite !in_app_iff in *. simpl. tauto. }
      assert (Fr : forall l cs, cells h l cs -> (forall k, In k l -> In k (afin ++ aabs ++ arest')) -> cells h1 l cs).
      { intros l cs Hcs Hsub. apply (cells_frame h); [exact Hcs|]. intros a Ha. destruct (NDa a (Hsub a Ha)). apply F1; assumption. }
      specialize (IH arest' f gas (awin0 ++ [ac]) h1 akept afin (aabs ++ [ac]) al done fin (abs ++ [c']) last').
      replace (afin ++ al :: (aabs ++ [ac]) ++ arest') with (afin ++ al :: aabs ++ ac :: arest') in IH
        by (rewrite <- app_assoc; reflexivity).
      specialize (IH ltac:(simpl in Hg; lia) ND Hin NDk).
      specialize (IH (Fr _ _ Ck ltac:(intros k Hk; apply in_or_app; left; apply Hin; exact Hk))).
      specialize (IH (Fr _ _ Cf ltac:(intros k Hk; apply in_or_app; left; exact Hk))).
      specialize (IH (H2_nth_l h al ac Hne Hl _ _)).
      specialize (IH (cells_app _ _ _ _ _ (Fr _ _ Ca ltac:(intros k Hk; apply in_or_app; right; apply in_or_app; left; exact Hk))
                                         (cells_one _ _ _ (H2_nth_c h al ac Hlc _ _)))).
      specialize (IH (Fr _ _ Cr' ltac:(intros k Hk; apply in_or_app; right; apply in_or_app; right; exact Hk))).
      cbv zeta in IH. destruct (uloop_all _ rest) as [s'|k]; [|exact IH].
      unfold loop_post in *. destruct s' as [[[d' f'] l'] a']. destruct IH as (ak & al2 & h' & A & B & C & D & E & F & G).
      exists ak, al2, h'. split; [exact A|]. split; [exact B|]. split; [exact C|].
      split; [rewrite D; apply H2_length|]. split; [|split; [exact F|exact G]].
      intros k Hk. rewrite E by (intros [<-|Hi]; apply Hk; [left; reflexivity|right; right; exact Hi]).
      apply F1; intros ->; apply Hk; [left; reflexivity|right; left; reflexivity].
Qed.

Theorem C13_UnifyChunks_is_source : forall (h : list Chunk) (ads : list nat) (cs : list chunk) (fuel : nat),
  NoDup ads -> cells h ads cs -> (length cs <= fuel)%nat ->
  match unify_all cs with
  | M.Ok (out, allc) =>
      exists aout h', UnifyChunks (map Some ads) h fuel = Ok (map Some aout, h') /\
        cells h' aout out /\ cells h' ads allc /\ length h' = length h /\
        (forall k, ~ In k ads -> nth_error h' k = nth_error h k) /\ incl aout ads /\ NoDup aout
  | M.Panic k => UnifyChunks (map Some ads) h fuel = Panic (memb_panic k)
  end.
Proof.
  intros h ads cs fuel ND Hc Hf. unfold UnifyChunks. inversion Hc as [|a0 c0 arest rest Hc0 Hcr E1 E2]; subst.
  - cbn. exists [], h. repeat (split; [first [reflexivity | constructor]|]). split; [|constructor]. intros k [].
  - cbn [unify_all]. rewrite zlen_map. replace (zlen (a0 :: arest) =? 0) with false by (unfold zlen; simpl length; lia).
    change (go_get (map Some (a0 :: arest)) 0) with (@Ok (option nat) (Some a0)). cbn [bind].
    assert (Hs : go_sub (map Some (a0 :: arest)) 1 (zlen (a0 :: arest)) = Ok (map Some arest)).
    { rewrite <- (zlen_map (@Some nat) (a0 :: arest)). cbn [map]. apply sub_cons. }
    rewrite Hs. clear Hs. cbn [bind].
    pose proof (loop_eq rest arest fuel fuel [] h [] [] [] a0 [] [] [] c0 ltac:(simpl in Hf; lia) ND
                  (fun k Hk => Hk) (NoDup_nil _) (Forall2_nil _) (Forall2_nil _) Hc0 (Forall2_nil _) Hcr) as HL.
    cbv zeta in HL. cbn [app map] in HL. change (zlen (@nil nat)) with 0 in HL.
    destruct (uloop_all _ rest) as [[[[done fin] last] abs]|k]; cbn [M.bind].
    + unfold loop_post in HL. destruct HL as (ak & al' & h' & A & B & C & D & E & F & G).
      rewrite A. cbn [bind]. exists (ak ++ [al']), h'. split; [reflexivity|]. split; [exact B|]. split; [exact C|].
      split; [exact D|]. split; [exact E|]. split; [exact F|exact G].
    + rewrite HL. reflexivity.
Qed.

(* the same against the model's own function: the chunks UnifyChunks returns are the model's, held
   by cells of the input (modified in place), pairwise distinct; nothing outside the input cells
   changes and nothing is allocated *)
Corollary C13_UnifyChunks_model : forall (h : list Chunk) (ads : list nat) (cs : list chunk) (fuel : nat),
  NoDup ads -> cells h ads cs -> (length cs <= fuel)%nat ->
  match M.unify_chunks cs with
  | M.Ok out =>
      exists aout h', UnifyChunks (map Some ads) h fuel = Ok (map Some aout, h') /\
        cells h' aout out /\ length h' = length h /\
        (forall k, ~ In k ads -> nth_error h' k = nth_error h k) /\ incl aout ads /\ NoDup aout
  | M.Panic k => UnifyChunks (map Some ads) h fuel = Panic (memb_panic k)
  end.
Proof.
  intros h ads cs fuel ND Hc Hf. rewrite unify_all_model.
  pose proof (C13_UnifyChunks_is_source h ads cs fuel ND Hc Hf) as H.
  destruct (unify_all cs) as [[out allc]|k]; cbn [M.bind fst]; [|exact H].
  destruct H as (aout & h' & A & B & C & D & E & F & G). exists aout, h'. tauto.
Qed.

(* Diff.Unify: d.Chunks = UnifyChunks(d.Chunks); return d *)
Theorem C13_Unify_is_source : forall (d_Chunks : list (option nat)) (h : list Chunk) (fuel : nat),
  Diff_Unify d_Chunks h fuel = UnifyChunks d_Chunks h fuel.
Proof.
  intros. unfold Diff_Unify. destruct (UnifyChunks d_Chunks h fuel) as [[t h']| |]; reflexivity.
Qed.

Corollary C13_Unify_model : forall (h : list Chunk) (ads : list nat) (d : M.diff line) (fuel : nat),
  NoDup ads -> cells h ads (M.Chunks d) -> (length (M.Chunks d) <= fuel)%nat ->
  match M.diff_unify d with
  | M.Ok d' =>
      M.Left d' = M.Left d /\ M.Right d' = M.Right d /\ M.Edits d' = M.Edits d /\
      exists aout h', Diff_Unify (map Some ads) h fuel = Ok (map Some aout, h') /\
        cells h' aout (M.Chunks d') /\ length h' = length h /\
        (forall k, ~ In k ads -> nth_error h' k = nth_error h k) /\ incl aout ads /\ NoDup aout
  | M.Panic k => Diff_Unify (map Some ads) h fuel = Panic (memb_panic k)
  end.
Proof.
  intros h ads d fuel ND Hc Hf. unfold M.diff_unify. rewrite C13_Unify_is_source.
  pose proof (C13_UnifyChunks_model h ads (M.Chunks d) fuel ND Hc Hf) as H.
  destruct (M.unify_chunks (M.Chunks d)) as [out|k]; cbn [M.bind]; [|exact H].
  cbn [M.Left M.Right M.Edits M.Chunks]. repeat (split; [reflexivity|]). exact H.
Qed.

(* composition of the two ties on one heap: the Diff that the generated New returns satisfies the
   side conditions of the Unify tie (its chunks are distinct fresh cells holding the model's
   chunks), so the generated Unify run on it returns the model's unify_chunks (new_chunks es) and
   leaves every cell that existed before New alone *)
Theorem C13_New_Unify_compose : forall (lhs rhs : list line) (es : list edit)
    (ES : list line -> list line -> res (list (Edit line))) (h0 : list Chunk) (fuel fuel2 : nat),
  ES lhs rhs = Ok (map eenc es) -> (length es < fuel)%nat -> (length (M.new_chunks es) <= fuel2)%nat ->
  exists d h1, New lhs rhs ES h0 fuel = Ok (d, h1) /\
    Diff_Left d = lhs /\ Diff_Right d = rhs /\ Diff_Edits d = map eenc es /\
    match M.unify_chunks (M.new_chunks es) with
    | M.Ok out =>
        exists aout h2, Diff_Unify (Diff_Chunks d) h1 fuel2 = Ok (map Some aout, h2) /\ cells h2 aout out /\
          (forall k, (k < length h0)%nat -> nth_error h2 k = nth_error h0 k)
    | M.Panic k => Diff_Unify (Diff_Chunks d) h1 fuel2 = Panic (memb_panic k)
    end.
Proof.
  intros lhs rhs es ES h0 fuel fuel2 HES Hf Hf2.
  pose proof (C13_New_is_source h0 lhs rhs es ES fuel HES Hf) as HN. cbv zeta in HN.
  destruct (C13_New_chunks_distinct h0 es) as (ND & _ & Hrange & Hcells).
  eexists _, _. split; [exact HN|]. cbn [Diff_Left Diff_Right Diff_Edits Diff_Chunks]. repeat (split; [reflexivity|]).
  unfold addrs. rewrite C13_Unify_is_source.
  pose proof (C13_UnifyChunks_model _ _ _ fuel2 ND Hcells Hf2) as HU.
  destruct (M.unify_chunks (M.new_chunks es)) as [out|k]; [|exact HU].
  destruct HU as (aout & h2 & A & B & _ & E & _). exists aout, h2. split; [exact A|]. split; [exact B|].
  intros k Hk. rewrite E.
  - apply nth_error_app1. exact Hk.
  - intros Hi. rewrite Forall_forall in Hrange. apply Hrange in Hi. lia.
Qed.

Print Assumptions C13_UnifyChunks_is_source.
Print Assumptions C13_UnifyChunks_model.
Print Assumptions C13_Unify_is_source.
Print Assumptions C13_Unify_model.
Print Assumptions unify_all_model.
Print Assumptions C13_New_Unify_compose.
