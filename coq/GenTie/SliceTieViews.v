(* Head, Tail, At of slice/slice.go: model = generated function (see SliceTieBase.v).
   No loops on either side: plain equalities, for every view / list and every int argument. *)
From Coq Require Import ZArith List Bool Lia.
From Mds Require Import Common.FnRt GenTie.TieLib Gen.FnSlice Gen.SliceIdx GenTie.SliceTieBase.
Import ListNotations.
Local Open Scope Z_scope.

(* Head: the length test, else vs[:n] -- a two-index slice keeps the capacity of vs *)
Theorem C17_head_is_source : forall (v : M.view) (n : Z),
  Head (vw v) n = embf vw (M.head v n).
Proof.
  intros v n. unfold Head, M.head, hd_short, hd_hi, go_slice2. simpl vlen. simpl vcap.
  case_if; [reflexivity|]. apply slice3_eq.
Qed.

(* Tail: the length test, else vs[len(vs)-n:] *)
Theorem C17_tail_is_source : forall (v : M.view) (n : Z),
  Tail (vw v) n = embf vw (M.tail v n).
Proof.
  intros v n. unfold Tail, M.tail, tl_short, tl_lo, go_slice2. simpl vlen. simpl vcap.
  case_if; [reflexivity|]. apply slice3_eq.
Qed.

(* At: indexCheck, the documented panic, the indexing *)
Theorem C17_at_is_source : forall (T : Type) (l : list T) (i : Z),
  At l i = emb (M.at_ l i).
Proof.
  intros T l i. unfold At, M.at_, at_arg_i, at_arg_n, at_bad, at_idx.
  rewrite C17_indexCheck_is_source. change (M.zlen l) with (zlen l).
  destruct (M.index_check i (zlen l)) as [b ok]. cbn [fst snd].
  case_if; [reflexivity|]. apply get_eq.
Qed.

Print Assumptions C17_head_is_source.
Print Assumptions C17_tail_is_source.
Print Assumptions C17_at_is_source.
