(* CompareNatural of mstr/mstr.go: the model with an unbounded accumulator (compare_natural_wide)
   = the generated function *)
From Coq Require Import ZArith List Bool Lia.
From Mds Require Import Common.FnRt GenTie.TieLib Gen.FnMstr Gen.MstrMasks GenTie.MstrTieBase GenTie.MstrTieParse.
Import ListNotations.
Local Open Scope Z_scope.

Lemma bindB_le {A C} (m m' : B.res A) (k k' : A -> B.res C) :
  res_leB m m' -> (forall a, m' = B.Ok a -> res_leB (k a) (k' a)) -> res_leB (B.bind m k) (B.bind m' k').
Proof.
  intros [H|H] K; subst; [left; reflexivity|].
  destruct m' as [a| | |]; simpl; try (right; reflexivity). apply K; reflexivity.
Qed.

Lemma substr_len (s r : list Z) lo hi : go_substr s lo hi = Ok r -> (length r <= length s)%nat.
Proof.
  unfold go_substr. destruct ((0 <=? lo) && (lo <=? hi) && (hi <=? zlen s)); [|discriminate].
  intros E; inversion E; subst. rewrite firstn_length, skipn_length. lia.
Qed.

Lemma unb_ok {A} (r : res A) x : unb r = B.Ok x -> r = Ok x.
Proof. destruct r; simpl; intros E; inversion E; reflexivity. Qed.

Lemma parseInt_rest s f v r ok : parseInt s f = Ok (v, r, ok) -> (length r <= length s)%nat.
Proof.
  unfold parseInt. cbv zeta. destruct (parseInt_loop1 f f s 0 0) as [[i v']| |]; cbn [bind]; try discriminate.
  destruct (go_substr s i (zlen s)) as [t| |] eqn:G; cbn [bind]; try discriminate.
  intros E; inversion E; subst. eapply substr_len; eassumption.
Qed.

Lemma parseStr_rest s f p r : parseStr s f = Ok (p, r) -> (length r <= length s)%nat.
Proof.
  unfold parseStr. cbv zeta. destruct (parseStr_loop1 f f s 0) as [i| |]; cbn [bind]; try discriminate.
  destruct (go_substr s 0 i) as [t| |]; cbn [bind]; try discriminate.
  destruct (go_substr s i (zlen s)) as [t'| |] eqn:G; cbn [bind]; try discriminate.
  intros E; inversion E; subst. eapply substr_len; eassumption.
Qed.

Definition cn_exit (r : ctl (list Z * list Z) Z) : res Z :=
  match r with
  | Ret x => Ok x
  | Next (a, b) => Ok (go_cmp_str a b)
  end.

Lemma cn_loop_le : forall gas f0 a b, (S (length a) <= f0)%nat -> (S (length b) <= f0)%nat ->
  res_leB (MM.cn_loop false gas a b) (unb (bind (CompareNatural_loop1 f0 gas a b) cn_exit)).
Proof.
  induction gas; intros f0 a b Ha Hb; [left; reflexivity|].
  cbn [MM.cn_loop CompareNatural_loop1].
  unfold cn_for, cn_both, cn_num_ne, cn_mixed, cn_str_ne, cn_ret0, cn_ret2.
  unfold cn_pi0_arg, cn_pi1_arg, cn_cmp0_l, cn_cmp0_r, cn_next0_a, cn_next0_b, cn_cmp1_l, cn_cmp1_r,
       cn_ps0_arg, cn_ps1_arg, cn_cmp2_l, cn_cmp2_r, cn_next1_a, cn_next1_b, cn_cmp3_l, cn_cmp3_r.
  cbn [MM.pick2 Z.eqb].
  assert (Cnd : (negb (str_eqb a []) && negb (str_eqb b [])) = (MM.nonempty a && MM.nonempty b)) by (destruct a, b; reflexivity).
  rewrite Cnd. clear Cnd.
  case_if; [|cbn [bind cn_exit unb]; apply res_leB_refl].
  rewrite bind_assoc, unb_bind.
  apply bindB_le; [apply C20_parseInt_is_source; assumption|].
  intros [[va ra] aok] Ea. apply unb_ok, parseInt_rest in Ea.
  rewrite bind_assoc, unb_bind.
  apply bindB_le; [apply C20_parseInt_is_source; assumption|].
  intros [[vb rb] bok] Eb. apply unb_ok, parseInt_rest in Eb.
  change (MM.cmp_int va vb) with (go_cmp_int va vb).
  case_if.
  { cbv zeta. case_if; [apply res_leB_refl|]. apply IHgas; lia. }
  case_if.
  { cbn [bind cn_exit unb]. apply res_leB_refl. }
  rewrite bind_assoc, unb_bind.
  apply bindB_le; [apply C20_parseStr_is_source; assumption|].
  intros [pa ra'] Ea'. apply unb_ok, parseStr_rest in Ea'.
  rewrite bind_assoc, unb_bind.
  apply bindB_le; [apply C20_parseStr_is_source; assumption|].
  intros [pb rb'] Eb'. apply unb_ok, parseStr_rest in Eb'.
  change (MM.cmp_bytes pa pb) with (go_cmp_str pa pb). cbv zeta.
  case_if; [apply res_leB_refl|]. apply IHgas; lia.
Qed.

Lemma cn_loop1_mono : forall gas gas' f0 a b, (gas <= gas')%nat ->
  res_le (CompareNatural_loop1 f0 gas a b) (CompareNatural_loop1 f0 gas' a b).
Proof.
  induction gas; intros; [apply res_le_oof|]. destruct gas'; [lia|]. simpl.
  mono; apply IHgas; lia.
Qed.

Lemma res_leB_trans {A} (a b c : B.res A) : res_leB a b -> res_leB b c -> res_leB a c.
Proof. intros [H|H] H'; subst; [left; reflexivity | exact H']. Qed.

Theorem C20_compare_natural_is_source : forall a b fuel, (S (length a + length b) <= fuel)%nat ->
  res_leB (MM.compare_natural_wide a b) (unb (CompareNatural a b fuel)).
Proof.
  intros a b fuel Hf. unfold MM.compare_natural_wide.
  change (CompareNatural a b fuel) with (bind (CompareNatural_loop1 fuel fuel a b) cn_exit).
  eapply res_leB_trans.
  - apply (cn_loop_le (S (length a + length b)) fuel a b); lia.
  - apply unb_le. apply bind_le; [apply cn_loop1_mono; lia|]. intros; apply res_le_refl.
Qed.

Print Assumptions C20_compare_natural_is_source.
