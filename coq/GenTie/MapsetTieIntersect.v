(* Intersect of mapset/mapset.go: model = generated function (see MapsetTieBase.v).
   The variadic ss ...Set[T] is a list of maps; `continue nextElt` (a labelled continue out of
   the inner loop) is translated as a flag set before a break of the inner loop and tested after
   it. *)
From Coq Require Import ZArith List Bool Lia.
From Mds Require Import Common.FnRt GenTie.TieLib Gen.FnMapset Gen.MapsetFacts GenTie.MapsetTieBase GenTie.MapsetTieWrite.
Import ListNotations.
Local Open Scope Z_scope.

Section Elem.
Context {T : Type}.
Variable eqb : T -> T -> bool.
Hypothesis eqb_spec : forall x y, eqb x y = true <-> x = y.

Notation gomap := (M.gomap T).
Notation forget := (@forget T).
Notation wf := (@wf T).
Notation Has_eq := (Has_eq eqb eqb_spec).
Notation len_eq := (len_eq eqb eqb_spec).
Notation has_eq := (has_eq eqb eqb_spec).
Notation order_check_eq := (order_check_eq eqb eqb_spec).

Lemma skipn_map {A B} (f : A -> B) n (l : list A) : skipn n (map f l) = map f (skipn n l).
Proof. revert l; induction n as [|n IH]; intros [|a l]; cbn; auto. Qed.

(* for _, s := range ss[1:] { if len(s) < len(min) { min = s } } *)
Lemma min_loop_eq (win : list gomap) fuel : forall rest (min : gomap) r gas,
  wf min -> (forall s, In s rest -> wf s) ->
  0 <= r -> skipn (Z.to_nat r) win = rest -> (length rest < gas)%nat ->
  bind (Intersect_loop1 fuel gas (map forget win) (zlen (map forget win)) eqb (forget min) r) (fun '(m, _) => Ok m)
  = Ok (forget (M.intersect_min T min rest)) /\ wf (M.intersect_min T min rest).
Proof.
  induction rest as [|s rest IH]; intros min r gas Wm Wr R E G; (destruct gas as [|gas]; [cbn in G; lia|]); cbn [Intersect_loop1].
  - assert (E' : skipn (Z.to_nat r) (map forget win) = []) by (rewrite skipn_map, E; reflexivity).
    rewrite (skipn_nil_end _ _ R E'). split; [reflexivity | exact Wm].
  - assert (E' : skipn (Z.to_nat r) (map forget win) = forget s :: map forget rest) by (rewrite skipn_map, E; reflexivity).
    destruct (skipn_cons_get _ _ _ _ R E') as [B [Gt S']]. rewrite B, Gt. cbn [bind M.intersect_min].
    rewrite !len_eq by (try exact Wm; apply Wr; left; reflexivity). unfold intersect_smaller.
    assert (S'' : skipn (Z.to_nat (r + 1)) win = rest).
    { replace (Z.to_nat (r + 1)) with (S (Z.to_nat r)) by lia.
      clear - E. revert E. generalize (Z.to_nat r). intros n. revert win. induction n as [|n IHn]; intros [|a w] H; cbn in *; try discriminate.
      - inversion H; reflexivity.
      - apply IHn; exact H. }
    destruct (M.m_len T s <? M.m_len T min).
    + apply IH; [apply Wr; left; reflexivity | intros x I; apply Wr; right; exact I | lia | exact S'' | cbn in G; lia].
    + apply IH; [exact Wm | intros x I; apply Wr; right; exact I | lia | exact S'' | cbn in G; lia].
Qed.

(* for _, s := range ss { if !s.Has(v) { continue nextElt } }: the flag *)
Lemma inner_loop_eq (ss : list gomap) (v : T) fuel : forall rest r gas,
  0 <= r -> skipn (Z.to_nat r) ss = rest -> (length rest < gas)%nat ->
  bind (Intersect_loop3 fuel gas (map forget ss) eqb v (zlen (map forget ss)) false r) (fun '(c, _) => Ok c)
  = Ok (negb (M.intersect_inner T eqb rest v)).
Proof.
  induction rest as [|s rest IH]; intros r gas R E G; (destruct gas as [|gas]; [cbn in G; lia|]); cbn [Intersect_loop3].
  - assert (E' : skipn (Z.to_nat r) (map forget ss) = []) by (rewrite skipn_map, E; reflexivity).
    rewrite (skipn_nil_end _ _ R E'). reflexivity.
  - assert (E' : skipn (Z.to_nat r) (map forget ss) = forget s :: map forget rest) by (rewrite skipn_map, E; reflexivity).
    destruct (skipn_cons_get _ _ _ _ R E') as [B [Gt S']]. rewrite B, Gt. cbn [bind M.intersect_inner].
    rewrite Has_eq. unfold intersect_miss. destruct (M.Has_raw T eqb s v); cbn [negb]; [|reflexivity].
    apply IH; [lia | | cbn in G; lia].
    replace (Z.to_nat (r + 1)) with (S (Z.to_nat r)) by lia.
    clear - E. revert E. generalize (Z.to_nat r). intros n. revert ss. induction n as [|n IHn]; intros [|a w] H; cbn in *; try discriminate.
    + inversion H; reflexivity.
    + apply IHn; exact H.
Qed.

Lemma main_loop_eq (ss : list gomap) (min : gomap) (ord : list T) fuel fresh : (1 < fuel)%nat -> (length ss < fuel)%nat ->
  forall rest (out : gomap) r gas,
  (forall x, In x rest -> M.m_get T eqb min x = true) ->
  0 <= r -> skipn (Z.to_nat r) ord = rest -> (length rest < gas)%nat ->
  bind (Intersect_loop2 fuel gas (map forget ss) (forget min) eqb ord (zlen ord) (forget out) r) (fun '(o, _) => Ok o)
  = embf forget (M.intersect_loop T eqb ss rest out fresh).
Proof.
  intros F1 Fs. induction rest as [|v rest IH]; intros out r gas P R E G; (destruct gas as [|gas]; [cbn in G; lia|]); cbn [Intersect_loop2].
  - rewrite (skipn_nil_end _ _ R E). reflexivity.
  - destruct (skipn_cons_get _ _ _ _ R E) as [B [Gt S']]. rewrite B, Gt. cbn [bind M.intersect_loop].
    rewrite has_eq, (P v (or_introl eq_refl)). cbn [negb]. cbv zeta.
    pose proof (inner_loop_eq ss v fuel ss 0 fuel (Z.le_refl 0) eq_refl Fs) as I.
    destruct (Intersect_loop3 _ _ _ _ _ _ _ _) as [[c r2]| |]; cbn [bind] in I; try discriminate.
    injection I as Ic. rewrite Ic. cbn [bind].
    destruct (M.intersect_inner T eqb ss v); cbn [negb].
    + rewrite called_1 by reflexivity.
      rewrite (C18_add_is_source eqb eqb_spec out fresh [v] fuel) by (cbn; lia).
      destruct (M.Add T eqb out fresh [v]) as [o| | | | |]; cbn [embf bind M.bind both]; try reflexivity.
      apply IH; [intros y Iy; apply P; right; exact Iy | lia | exact S' | cbn in G; lia].
    + apply IH; [intros y Iy; apply P; right; exact Iy | lia | exact S' | cbn in G; lia].
Qed.

Theorem C18_intersect_is_source : forall (ss : list gomap) (fresh : positive) (ord : list T) (fuel : nat),
  (forall s, In s ss -> wf s) -> (length ord < fuel)%nat -> (length ss < fuel)%nat -> (1 < fuel)%nat ->
  Intersect (map forget ss) eqb ord fuel = embf forget (M.Intersect T eqb ss fresh ord).
Proof.
  intros ss fresh ord fuel W F Fs F1. unfold Intersect, M.Intersect. anchors.
  unfold intersect_noargs, zlen. rewrite map_length.
  destruct ss as [|m0 rest]; [reflexivity|].
  replace (Z.of_nat (length (m0 :: rest)) =? 0) with false by (cbn [length]; symmetry; apply Z.eqb_neq; lia).
  (* min := ss[0]; the scan of ss[1:] *)
  unfold M.intersect_operand, intersect_first_idx, intersect_rest_lo.
  cbn [Z.to_nat nth_error map]. 
  replace (1 >? Z.of_nat (length (m0 :: rest))) with false by (cbn [length]; symmetry; rewrite Z.gtb_ltb; apply Z.ltb_ge; lia).
  change (Pos.to_nat 1) with 1%nat. cbn [skipn M.bind].
  destruct (skipn_cons_get (forget m0 :: map forget rest) 0 (forget m0) (map forget rest) (Z.le_refl 0) eq_refl) as [_ [G0 _]].
  rewrite G0. cbn [bind].
  assert (Sub : go_sub (forget m0 :: map forget rest) 1 (Z.of_nat (length (m0 :: rest))) = Ok (map forget rest)).
  { unfold go_sub, zlen. cbn [length]. rewrite map_length.
    replace ((0 <=? 1) && (1 <=? Z.of_nat (S (length rest)))) with true by (symmetry; apply andb_true_iff; split; apply Z.leb_le; lia).
    rewrite Z.leb_refl. cbn [Z.to_nat Pos.to_nat Pos.iter_op Nat.add skipn].
    replace (Z.to_nat (Z.of_nat (S (length rest)) - 1)) with (length (map forget rest)) by (rewrite map_length; lia).
    rewrite firstn_all. reflexivity. }
  rewrite Sub. cbn [bind]. cbv zeta.
  assert (Wm0 : wf m0) by (apply W; left; reflexivity).
  assert (Wr : forall s, In s rest -> wf s) by (intros s I; apply W; right; exact I).
  destruct (min_loop_eq rest fuel rest m0 0 fuel Wm0 Wr (Z.le_refl 0) eq_refl ltac:(cbn in Fs; lia)) as [L Wmin].
  destruct (Intersect_loop1 _ _ _ _ _ _ _) as [[mn r1]| |]; cbn [bind] in L; try discriminate.
  injection L as Lm. rewrite Lm. cbn [bind].
  set (min := M.intersect_min T m0 rest) in *.
  rewrite order_check_eq by exact Wmin. unfold M.m_range.
  destruct (M.valid_order T eqb ord min) eqn:V; [|reflexivity].
  change (@go_nmap_make T unit) with (forget (M.m_make T fresh)).
  pose proof (main_loop_eq (m0 :: rest) min ord fuel (Pos.succ fresh) F1 Fs ord (M.m_make T fresh) 0 fuel
                (valid_order_in eqb _ _ V) (Z.le_refl 0) eq_refl F) as ML.
  cbn [map] in ML.
  destruct (Intersect_loop2 _ _ _ _ _ _ _ _ _) as [[o r2]| |]; destruct (M.intersect_loop _ _ _ _ _ _); cbn [bind embf M.bind] in *;
    try discriminate; anchors; inversion ML; subst; reflexivity.
Qed.

End Elem.

Print Assumptions C18_intersect_is_source.
