(* pushDown, pop, Pop and Remove of heapq/heapq.go: model = generated function (see HeapqTieBase.v) *)
From Coq Require Import ZArith List Bool Lia.
From Mds Require Import Common.FnRt GenTie.TieLib Gen.FnHeapq Gen.HeapqIdx GenTie.HeapqTieBase.
Import ListNotations.
Local Open Scope Z_scope.
Local Arguments Z.mul : simpl never.
Local Arguments Z.quot : simpl never.

Section Elem.
Context {T : Type}.
Implicit Types l : list T.
Variable cmp : T -> T -> Z.
Notation cv := H.current_variant.
(* ---------------------------------------------------------------- pushDown *)
Definition down_out (log : list (T * Z)) (r : list T * H.moves T * Z) : res (list T * Z * list (T * Z)) :=
  let '(l, m, i) := r in Ok (l, i, log ++ m).

Lemma pushDown_loop1_eq : forall gas f0 l i log lc,
  bind (pushDown_loop1 f0 gas cmp l i log lc) (fun '(l', i', log', _) => Ok (l', i', log'))
  = bind (emb (H.push_down_loop T cmp gas l i lc)) (down_out log).
Proof.
  induction gas; intros; [reflexivity|].
  cbn [pushDown_loop1 H.push_down_loop].
  unfold pushdown_continue, pushdown_left_less, pushdown_right_less, pushdown_done, rchild, lchild_next.
  change (H.len l) with (zlen l).
  destruct (lc <? zlen l); [|simpl; rewrite app_nil_r; reflexivity].
  rewrite !get_eq.
  destruct (H.get l lc) as [x|] eqn:Elc; simpl; [|reflexivity].
  destruct (H.get l i) as [y|] eqn:Ei; simpl; [|reflexivity].
  (* the second read of data[min] gives the value already read *)
  assert (Emin : forall (c : bool), go_get l (if c then lc else i) = Ok (if c then x else y)).
  { intros [|]; rewrite get_eq; [rewrite Elc|rewrite Ei]; reflexivity. }
  set (c1 := cmp x y <? 0).
  replace (if c1 then (lc, x) else (i, y)) with (if c1 then lc else i, if c1 then x else y) by (destruct c1; reflexivity).
  cbv zeta.
  match goal with |- context[of_opt (H.get l ?r)] => set (rc := r) in * end.
  destruct (H.get l rc) as [z|] eqn:Erc.
  - pose proof (get_range _ _ _ Erc) as R. replace (rc <? zlen l) with true by lia.
    simpl. rewrite Emin. simpl.
    set (min2 := if cmp z (if c1 then x else y) <? 0 then rc else if c1 then lc else i).
    destruct (min2 =? i); [simpl; rewrite app_nil_r; reflexivity|].
    rewrite C05_swap_is_source.
    destruct (H.swap T l i min2) as [[l' m]| |]; simpl; try reflexivity.
    rewrite IHgas.
    destruct (H.push_down_loop T cmp gas l' min2 (2 * min2 + 1)) as [[[l'' m'] r]| |]; simpl; try reflexivity.
    rewrite app_assoc. reflexivity.
  - destruct (rc <? zlen l) eqn:Eb; simpl.
    + reflexivity.
    + set (min2 := if c1 then lc else i).
      destruct (min2 =? i); [simpl; rewrite app_nil_r; reflexivity|].
      rewrite C05_swap_is_source.
      destruct (H.swap T l i min2) as [[l' m]| |]; simpl; try reflexivity.
      rewrite IHgas.
      destruct (H.push_down_loop T cmp gas l' min2 (2 * min2 + 1)) as [[[l'' m'] r]| |]; simpl; try reflexivity.
      rewrite app_assoc. reflexivity.
Qed.

Lemma pushDown_loop1_mono : forall gas gas' f0 f0' l i log lc, (gas <= gas')%nat ->
  res_le (pushDown_loop1 f0 gas cmp l i log lc) (pushDown_loop1 f0' gas' cmp l i log lc).
Proof.
  induction gas; intros; [apply res_le_oof|]. destruct gas'; [lia|]. simpl.
  mono. apply IHgas; lia.
Qed.

Lemma pushDown_mono l i fuel fuel' : (fuel <= fuel')%nat -> res_le (pushDown l cmp i fuel) (pushDown l cmp i fuel').
Proof. intros. unfold pushDown. mono. apply pushDown_loop1_mono; lia. Qed.

(* pushDown at loop fuel [fuel] is the model's loop at that fuel *)
Lemma pushDown_eq l i fuel :
  pushDown l cmp i fuel = embf up_ret (H.push_down_loop T cmp fuel l i (lchild i)).
Proof.
  unfold pushDown, lchild.
  pose proof (pushDown_loop1_eq fuel fuel l i [] (2 * i + 1)) as E.
  destruct (pushDown_loop1 fuel fuel cmp l i [] (2 * i + 1)) as [[[[l' i'] log'] lc']| |];
    destruct (H.push_down_loop T cmp fuel l i (2 * i + 1)) as [[[l'' m] r]| |]; simpl in *;
    try discriminate; try (inversion E; subst; reflexivity).
Qed.

Theorem C05_pushDown_is_source : forall l i fuel, (S (length l) <= fuel)%nat ->
  res_le (embf up_ret (H.push_down T cmp l i)) (pushDown l cmp i fuel).
Proof.
  intros. unfold H.push_down. rewrite <- pushDown_eq. apply pushDown_mono; assumption.
Qed.

(* ---------------------------------------------------------------- pop *)
Definition pop_ret (r : list T * H.moves T * T) : T * list T * list (T * Z) :=
  let '(l, m, out) := r in (out, l, m).


Lemma go_sub_prefix l n : 0 <= n <= zlen l -> go_sub l 0 n = Ok (firstn (Z.to_nat n) l).
Proof.
  intros R. unfold go_sub.
  replace ((0 <=? 0) && (0 <=? n)) with true by lia. replace (n <=? zlen l) with true by lia.
  rewrite Z.sub_0_r. reflexivity.
Qed.

Theorem C05_pop_is_source : forall l i fuel, (S (length l) <= fuel)%nat ->
  res_le (embf pop_ret (H.pop T cv cmp l i)) (pop l cmp i fuel).
Proof.
  intros l i fuel Hf. unfold pop, H.pop. rewrite get_eq.
  destruct (H.get l i) as [out|] eqn:Ei; cbn [of_opt bind]; [|apply res_le_refl].
  pose proof (get_range _ _ _ Ei) as Ri. pose proof (zlen_nonneg l) as Hl.
  unfold pop_last, pop_single. change (H.len l) with (zlen l).
  destruct (zlen l - 1 =? 0) eqn:E0.
  { rewrite go_sub_prefix by lia. apply res_le_refl. }
  rewrite get_eq.
  destruct (H.get l (zlen l - 1)) as [last|] eqn:En; cbn [of_opt bind]; [|apply res_le_refl].
  pose proof (get_range _ _ _ En) as Rn.
  rewrite set_eq by assumption. cbn [bind].
  rewrite set_eq by (unfold zlen in *; rewrite upd_length'; assumption). cbn [bind].
  set (l1 := H.upd (H.upd l i last) (zlen l - 1) out).
  assert (L1 : length l1 = length l) by (unfold l1; rewrite !upd_length'; reflexivity).
  rewrite get_eq.
  destruct (H.get l1 i) as [moved|]; cbn [of_opt bind]; [|apply res_le_refl].
  replace (zlen l - 1 <? 0) with false by lia.
  rewrite go_sub_prefix by (unfold zlen in *; rewrite L1; lia). cbn [bind].
  change (0 <? pop_ncalls_move) with true. change (0 <? pop_ncalls_pushDown) with true.
  change (H.pop_no_siftup cv) with true. cbv iota.
  set (l2 := firstn (Z.to_nat (zlen l - 1)) l1).
  assert (L2 : (length l2 <= length l)%nat) by (unfold l2; rewrite firstn_length; lia).
  destruct (C05_pushDown_is_source l2 i fuel ltac:(lia)) as [O|E].
  - left. destruct (H.push_down T cmp l2 i) as [[[l3 m1] j]| |]; simpl in *; try discriminate. reflexivity.
  - right. rewrite <- E. destruct (H.push_down T cmp l2 i) as [[[l3 m1] j]| |]; reflexivity.
Qed.


End Elem.

Section Queue.
Context {T : Type}.
Notation cv := H.current_variant.
(* Pop / Remove return (zero, false) where the model returns None; Remove's explicit panic is the
   model's RemPanic outcome *)
Definition pop_out (zero : T) (r : H.queue T * H.moves T * option T) : T * bool * list T * list (T * Z) :=
  let '(q, m, o) := r in
  match o with
  | None => (zero, false, H.data q, m)
  | Some x => (x, true, H.data q, m)
  end.

Theorem C05_Pop_is_source : forall (q : H.queue T) (zero : T) (fuel : nat),
  (S (length (H.data q)) <= fuel)%nat ->
  res_le (embf (pop_out zero) (H.Pop T cv q)) (Pop (H.data q) (H.qcmp q) zero fuel).
Proof.
  intros q zero fuel Hf. unfold Pop, H.Pop. unfold Pop_empty, Pop_index.
  change (H.len (H.data q)) with (zlen (H.data q)).
  case_if; [apply res_le_refl|].
  destruct (C05_pop_is_source (H.qcmp q) (H.data q) 0 fuel Hf) as [O|E].
  - left. destruct (H.pop T cv (H.qcmp q) (H.data q) 0) as [[[l m] out]| |]; simpl in *; try discriminate. reflexivity.
  - right. rewrite <- E. destruct (H.pop T cv (H.qcmp q) (H.data q) 0) as [[[l m] out]| |]; reflexivity.
Qed.

Definition remove_out (zero : T) (r : H.res (H.queue T * H.moves T * H.removed T)) : res (T * bool * list T * list (T * Z)) :=
  match r with
  | H.Ok (q, m, H.RemPanic) => Panic (PMsg "index out of range")
  | H.Ok (q, m, H.RemNone) => Ok (zero, false, H.data q, m)
  | H.Ok (q, m, H.RemSome x) => Ok (x, true, H.data q, m)
  | H.IndexPanic => Panic PIndex
  | H.OutOfFuel => OutOfFuel
  end.

Theorem C06_Remove_is_source : forall (q : H.queue T) (n : Z) (zero : T) (fuel : nat),
  (S (length (H.data q)) <= fuel)%nat ->
  res_le (remove_out zero (H.Remove T cv q n)) (Remove (H.data q) (H.qcmp q) n zero fuel).
Proof.
  intros q n zero fuel Hf. unfold Remove, H.Remove. unfold Remove_negative, Remove_beyond.
  change (H.len (H.data q)) with (zlen (H.data q)).
  case_if; [apply res_le_refl|].
  case_if; [apply res_le_refl|].
  destruct (C05_pop_is_source (H.qcmp q) (H.data q) n fuel Hf) as [O|E].
  - left. destruct (H.pop T cv (H.qcmp q) (H.data q) n) as [[[l m] out]| |]; simpl in *; try discriminate. reflexivity.
  - right. rewrite <- E. destruct (H.pop T cv (H.qcmp q) (H.data q) n) as [[[l m] out]| |]; reflexivity.
Qed.
End Queue.

Print Assumptions C05_pushDown_is_source.
Print Assumptions C05_pop_is_source.
Print Assumptions C05_Pop_is_source.
Print Assumptions C06_Remove_is_source.
