(* stree, source-level histories: cursors OBTAINED FROM THE GENERATED Tree.Cursor(key), Tree.Root
   and Cursor.Clone (tied in GenTie/StreeTieRest.v), on the multi-tree states of StreeSource2.v.

   A *Cursor result of the generated code is a [go_vres G.Cursor]: VNil (the nil pointer), VNew v
   (a new struct with c.path = v), VRecv (the receiver itself, Cursor.Clone of an invalid
   cursor); [vdec self r] is the (nil flag, path) pair the Cursor methods of StreeSourceCursor.v
   take.

   cursor_lookup   on a heap that represents a search tree on a tree-shaped region: the generated
                   Tree.Cursor(key) answers nil exactly when the reference list holds no key
                   equivalent to key; otherwise a new cursor whose generated Valid is true, whose
                   generated Key is the STORED representative, which stands at that key's index
                   in the reference list, and from which every sequence of moves runs and
                   observes as C03_history demands (composition of C03_tree_cursor_is_source,
                   C03_cursor_lookup and cursor_history);
   cursor_root     the same from the generated Tree.Root (its result decodes to the hand-written
                   groot_cursor of StreeSourceCursor.v: tree_root_decode);
   cursor_clone    the generated Cursor.Clone of a represented cursor decodes to the SAME
                   (nil flag, path) pair as its receiver -- so every move sequence and every
                   observation of the clone is the receiver's -- and it is the receiver itself
                   exactly when the generated Valid answers false.  (That moving one of the two
                   leaves the other alone is not a statement of this representation: a path is a
                   list VALUE here; it stays with C03_clone_independent and the correspondence.)
   *_source        the first two on tree i of every state a multi-tree history reaches. *)
From Coq Require Import ZArith List Bool Arith Lia.
From Mds Require Import Gen.StreeConst Gen.StreeNode Gen.CursorIdx.
From Mds Require Import Common.FnRt Common.FnHeap GenTie.TieLib GenTie.StreeTieBase GenTie.StreeSep
  GenTie.StreeTieWalk GenTie.StreeTieCursor GenTie.StreeTieRest GenTie.StreeSource GenTie.StreeSourceSim
  GenTie.StreeSourceCursor GenTie.StreeSource2 GenTie.StreeSource2Sim.
From Mds Require Stree.CursorModel Stree.CursorSpec Stree.CursorProofs Props.C03.
Import ListNotations.
Local Open Scope Z_scope.

Section Lookup.
Context {T : Type}.
Variable zero : T.
Variable cmp : T -> T -> Z.
Hypothesis HP : SP.total_preorder cmp.
Notation tree := (SM.tree T).
Notation heap := (list (G.node T)).

(* Tree.Root's result is the root cursor written out by hand in StreeSourceCursor.v *)
Lemma tree_root_decode (root : option nat) (self : bool * list (option nat)) :
  vdec self (G.Tree_Root root) = groot_cursor root.
Proof. destruct root; reflexivity. Qed.

(* the Key field of an observation is what the generated Key answers *)
Lemma cobserve_key (h : heap) n ps fuel o k :
  cobserve zero h n ps fuel = Ok o -> G.Cursor_Key n ps h zero = Ok k -> CM.o_key o = k.
Proof.
  unfold cobserve. intros H K.
  destruct (G.Cursor_Valid n ps); cbn [bind] in H; try discriminate.
  rewrite K in H. cbn [bind] in H.
  destruct (G.Cursor_HasNext n ps h fuel); cbn [bind] in H; try discriminate.
  destruct (G.Cursor_HasPrev n ps h fuel); cbn [bind] in H; try discriminate.
  destruct (G.Cursor_HasLeft n ps h); cbn [bind] in H; try discriminate.
  destruct (G.Cursor_HasRight n ps h); cbn [bind] in H; try discriminate.
  destruct (G.Cursor_HasParent n ps); cbn [bind] in H; try discriminate.
  destruct (G.Cursor_Inorder n ps all_keys [] h fuel); cbn [bind] in H; try discriminate.
  inversion H. reflexivity.
Qed.

Theorem cursor_lookup (h : heap) root (t : tree) F (key : T) fuel :
  trepr h root t F -> SP.sorted cmp (SM.inorder t) -> (fuel > 2 * depth t + 1)%nat ->
  exists r, G.Tree_Cursor root cmp key h fuel = Ok r /\
    match SP.s_get cmp key (SM.inorder t) with
    | None => r = VNil
    | Some x =>
      exists ps p0, r = VNew (G.mk_Cursor ps) /\
        G.Cursor_Valid false ps = Ok true /\ G.Cursor_Key false ps h zero = Ok x /\
        nth_error (SM.inorder t) (CS.ix p0) = Some x /\
        forall ms : list CM.move, exists pss bs,
          crun h false ps ms fuel = Ok pss /\
          CS.follows (length (SM.inorder t)) (Some p0) ms bs /\
          Forall2 (fun ps' p => exists o, cobserve zero h false ps' fuel = Ok o /\
                                          CS.obs_spec zero (SM.inorder t) p o)
                  (ps :: pss) (Some p0 :: bs)
    end.
Proof.
  intros R S Hf. pose proof (trepr_repr _ _ _ _ R) as Rr.
  destruct (C03_tree_cursor_is_source cmp h root t key fuel (true, []) Rr ltac:(lia))
    as [r [c [E [Em [Cr [W Hnil]]]]]].
  destruct (C03.C03_cursor_lookup T zero cmp HP key t S) as [c' [Em' [_ Hm]]].
  rewrite Em in Em'. inversion Em'; subst c'. clear Em'.
  exists r. split; [exact E|].
  destruct (SP.s_get cmp key (SM.inorder t)) as [x|].
  - destruct Hm as [V K].
    assert (Nn : c <> CNil) by (intros ->; discriminate).
    destruct r as [| |[ps]]; cbn [vdec fst snd G.Cursor_path] in Cr.
    + exfalso. apply Nn. apply (crepr_true _ _ _ _ Cr).
    + exfalso. apply Nn. apply Hnil. reflexivity.
    + destruct c as [| |p]; try discriminate.
      assert (Ea : exists p0, CP.abs T t (CAt p) = Some p0) by (eexists; reflexivity).
      destruct Ea as [p0 Ea]. exists ps, p0.
      split; [reflexivity|].
      pose proof (C03_valid_is_source h root _ false ps Cr) as Ev. rewrite V in Ev.
      split; [exact Ev|].
      destruct (C03_key_is_source zero h root t _ false ps Rr Cr W) as [k [K1 K2]].
      rewrite K in K1. inversion K1; subst k.
      split; [exact K2|].
      assert (Hist : forall ms, exists pss bs,
                crun h false ps ms fuel = Ok pss /\
                CS.follows (length (SM.inorder t)) (CP.abs T t (CAt p)) ms bs /\
                Forall2 (fun ps' q => exists o, cobserve zero h false ps' fuel = Ok o /\
                                                CS.obs_spec zero (SM.inorder t) q o)
                        (ps :: pss) (CP.abs T t (CAt p) :: bs)).
      { intros ms. apply (cursor_history zero h root t F (CAt p) false ps ms fuel R Cr W Hf). }
      rewrite Ea in Hist.
      split; [|exact Hist].
      destruct (Hist []) as [pss [bs [_ [_ Ob]]]].
      inversion Ob as [|? ? ? ? [o [Eo So]] _]; subst.
      cbn [CS.obs_spec] in So. destruct So as [_ [Hn _]].
      rewrite (cobserve_key h false ps fuel o x Eo K2) in Hn. exact Hn.
  - apply Hnil. exact Hm.
Qed.

Theorem cursor_root (h : heap) root (t : tree) F fuel (self : bool * list (option nat)) (ms : list CM.move) :
  trepr h root t F -> (fuel > 2 * depth t + 1)%nat ->
  let n := fst (vdec self (G.Tree_Root root)) in
  let ps := snd (vdec self (G.Tree_Root root)) in
  (G.Tree_Root root = VNil <-> SM.inorder t = []) /\
  exists pss p0 bs,
    crun h n ps ms fuel = Ok pss /\
    match SM.inorder t with
    | [] => p0 = None
    | _ :: _ => exists q, p0 = Some q /\ CS.lo q = O /\ CS.hi q = length (SM.inorder t)
    end /\
    CS.follows (length (SM.inorder t)) p0 ms bs /\
    Forall2 (fun ps' p => exists o, cobserve zero h n ps' fuel = Ok o /\ CS.obs_spec zero (SM.inorder t) p o)
            (ps :: pss) (p0 :: bs).
Proof.
  intros R Hf. cbn zeta. split.
  - destruct (C03_tree_root_is_source h root t self (trepr_repr _ _ _ _ R)) as [_ [_ Hn]].
    rewrite Hn. destruct t as [|l x r]; cbn [SM.inorder]; split; intros H; try reflexivity; try discriminate.
    destruct (SM.inorder l); discriminate.
  - rewrite tree_root_decode.
    destruct (groot_repr h root t F R) as [Cr W].
    destruct (cursor_history zero h root t F _ _ _ ms fuel R Cr W Hf) as [pss [bs [E1 [Fo Ob]]]].
    exists pss, (CP.abs T t (CM.tree_root t)), bs. split; [exact E1|]. split; [|split; assumption].
    destruct (C03.C03_root T t) as [_ Hr].
    destruct (SM.inorder t); [rewrite Hr; reflexivity|exact Hr].
Qed.

Theorem cursor_clone (h : heap) root (c : CM.cursor) (n : bool) (ps : list (option nat)) :
  crepr h root c n ps ->
  exists r, G.Cursor_Clone n ps = Ok r /\ vdec (n, ps) r = (n, ps) /\
            (r = VRecv <-> G.Cursor_Valid n ps = Ok false).
Proof.
  intros Cr. destruct (C03_cursor_clone_is_source h root c n ps Cr) as [r [E [_ [Hv Hn]]]].
  exists r. split; [exact E|]. rewrite (C03_valid_is_source h root c n ps Cr).
  destruct (CM.valid c) eqn:V.
  - rewrite (Hn eq_refl). destruct Cr as [ps| |p ps P]; cbn in V; try discriminate.
    split; [reflexivity|]. split; discriminate.
  - assert (r = VRecv) as -> by (apply Hv; reflexivity). split; [reflexivity|]. split; reflexivity.
Qed.

End Lookup.

(* ---- on tree i of every state a multi-tree history of the generated Tree methods reaches ---- *)
Section OnStates.
Context {T : Type}.
Variable cmp : T -> T -> Z.
Hypothesis HP : SP.total_preorder cmp.
Variable limit : Z -> Z -> Z.
Variable zero : T.
Variable b : Z.
Variable h0 : list (G.node T).

Lemma fuel_enough (t : SM.tree T) (size : Z) :
  size = Z.of_nat (length (SM.inorder t)) -> (fuel_for size > 2 * depth t + 1)%nat.
Proof.
  intros ->. unfold fuel_for. rewrite Nat2Z.id, PB.count_inorder.
  pose proof (depth_le_count t). lia.
Qed.

Theorem cursor_lookup_source (ops : list (mop T)) (i : nat) (g : G.Tree T) (key : T) :
  let st := mexec zero (minit cmp limit b h0) ops in
  let fuel := fuel_for (G.Tree_size g) in
  nth_error (m_trees st) i = Some g ->
  exists Ls r, nth_error (mref_exec zero cmp [[]] ops) i = Some Ls /\
    G.Tree_Cursor (G.Tree_root g) (G.Tree_compare g) key (m_heap st) fuel = Ok r /\
    match SP.s_get cmp key Ls with
    | None => r = VNil
    | Some x =>
      exists ps p0, r = VNew (G.mk_Cursor ps) /\
        G.Cursor_Valid false ps = Ok true /\ G.Cursor_Key false ps (m_heap st) zero = Ok x /\
        nth_error Ls (CS.ix p0) = Some x /\
        forall ms : list CM.move, exists pss bs,
          crun (m_heap st) false ps ms fuel = Ok pss /\
          CS.follows (length Ls) (Some p0) ms bs /\
          Forall2 (fun ps' p => exists o, cobserve zero (m_heap st) false ps' fuel = Ok o /\
                                          CS.obs_spec zero Ls p o)
                  (ps :: pss) (Some p0 :: bs)
    end.
Proof.
  cbn zeta. intros Eg.
  destruct (reached_tree cmp HP limit zero b h0 ops i g Eg) as [l [t [F [El [R [I [S [Esz Ec]]]]]]]].
  exists l. subst l. rewrite Ec.
  destruct (cursor_lookup zero cmp HP _ _ t F key (fuel_for (G.Tree_size g)) R S (fuel_enough t _ Esz)) as [r [E M]].
  exists r. split; [exact El|]. split; [exact E|exact M].
Qed.

Theorem cursor_root_source (ops : list (mop T)) (i : nat) (g : G.Tree T)
        (self : bool * list (option nat)) (ms : list CM.move) :
  let st := mexec zero (minit cmp limit b h0) ops in
  let fuel := fuel_for (G.Tree_size g) in
  let n := fst (vdec self (G.Tree_Root (G.Tree_root g))) in
  let ps := snd (vdec self (G.Tree_Root (G.Tree_root g))) in
  nth_error (m_trees st) i = Some g ->
  exists Ls, nth_error (mref_exec zero cmp [[]] ops) i = Some Ls /\
    (G.Tree_Root (G.Tree_root g) = VNil <-> Ls = []) /\
    exists pss p0 bs,
      crun (m_heap st) n ps ms fuel = Ok pss /\
      match Ls with
      | [] => p0 = None
      | _ :: _ => exists q, p0 = Some q /\ CS.lo q = O /\ CS.hi q = length Ls
      end /\
      CS.follows (length Ls) p0 ms bs /\
      Forall2 (fun ps' p => exists o, cobserve zero (m_heap st) n ps' fuel = Ok o /\ CS.obs_spec zero Ls p o)
              (ps :: pss) (p0 :: bs).
Proof.
  cbn zeta. intros Eg.
  destruct (reached_tree cmp HP limit zero b h0 ops i g Eg) as [l [t [F [El [R [I [S [Esz Ec]]]]]]]].
  exists l. subst l. split; [exact El|].
  apply (cursor_root zero _ _ t F (fuel_for (G.Tree_size g)) self ms R (fuel_enough t _ Esz)).
Qed.

End OnStates.

Print Assumptions cursor_lookup.
Print Assumptions cursor_root.
Print Assumptions cursor_clone.
Print Assumptions cursor_lookup_source.
Print Assumptions cursor_root_source.
