(* Queue.PopLast of queue/queue.go: model = generated function (see QueueTieBase.v) *)
From Coq Require Import ZArith List Bool Lia.
From Mds Require Import Common.FnRt GenTie.TieLib Gen.FnQueue Gen.QueueIdx GenTie.QueueTieBase.
Import ListNotations.
Local Open Scope Z_scope.

Section Queue.
Context {T : Type}.
Variable zero : T.
Notation queue := (Q.queue T).
Notation vs := (@Q.vs T).
Notation head := (@Q.head T).
Notation qn := (@Q.n T).
Notation rot := (@rot T).
Notation app_or := (app_or zero).
Notation grow_eq := (grow_eq zero).

Theorem C07_poplast_is_source : forall (q : queue),
  PopLast (vs q) (head q) (qn q) zero = embf pop_ret (Q.pop_last Q.idw T zero q).
Proof.
  intros [l h n]. unfold PopLast, Q.pop_last. cbn [Q.vs Q.head Q.n]. qunf.
  case_if; [reflexivity|].
  change (Q.zlen T l) with (zlen l). cbv zeta.
  rewrite get_eq.
  case_if;
    match goal with |- context[Q.idx T l ?p] => destruct (Q.idx T l p) end;
    cbn [bind Q.bind Q.of_opt embf]; try reflexivity;
    case_if; reflexivity.
Qed.

End Queue.

Print Assumptions C07_poplast_is_source.
