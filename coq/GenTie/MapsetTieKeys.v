(* Keys and Values of mapset/mapset.go: model = generated function (see MapsetTieBase.v).
   The model takes the sequence the argument map produces (its keys resp. values in the runtime's
   order) as its input; the generated functions take the map [m] itself and the order of its keys
   as the oracle [ord]: for every valid order the generated function on (m, ord) is the model on
   ord resp. on the values of m at ord; an invalid order is [Panic PBadOrder]. *)
From Coq Require Import ZArith List Bool Lia.
From Mds Require Import Common.FnRt GenTie.TieLib Gen.FnMapset Gen.MapsetFacts GenTie.MapsetTieBase GenTie.MapsetTieWrite.
Import ListNotations.
Local Open Scope Z_scope.

Lemma order_ok_has {K V} (eqb : K -> K -> bool) (m : go_nmap K V) ord :
  go_nmap_order_ok eqb m ord = true -> forall x, In x ord -> go_nmap_has eqb m x = true.
Proof.
  unfold go_nmap_order_ok. intros O x I. apply andb_true_iff in O. destruct O as [_ O].
  rewrite forallb_forall in O. apply O; exact I.
Qed.

Section Keys.
Context {T U : Type}.
Variable eqb : T -> T -> bool.
Hypothesis eqb_spec : forall x y, eqb x y = true <-> x = y.

Notation gomap := (M.gomap T).
Notation forget := (@forget T).

Lemma keys_loop_eq (m : go_nmap T U) (ord : list T) fuel fresh : (1 < fuel)%nat -> forall rest (out : gomap) r gas,
  (forall x, In x rest -> go_nmap_has eqb m x = true) ->
  0 <= r -> skipn (Z.to_nat r) ord = rest -> (length rest < gas)%nat ->
  bind (Keys_loop1 fuel gas m eqb ord (zlen ord) (forget out) r) (fun '(o, _) => Ok o)
  = embf forget (M.collect_loop T eqb keys_ncalls_add out fresh rest).
Proof.
  intros F1. induction rest as [|x rest IH]; intros out r gas P R E G; (destruct gas as [|gas]; [cbn in G; lia|]); cbn [Keys_loop1].
  - rewrite (skipn_nil_end _ _ R E). reflexivity.
  - destruct (skipn_cons_get _ _ _ _ R E) as [B [Gt S']]. rewrite B, Gt. cbn [bind M.collect_loop].
    rewrite (P x (or_introl eq_refl)). cbn [negb]. rewrite called_1 by reflexivity.
    rewrite (C18_add_is_source eqb eqb_spec out fresh [x] fuel) by (cbn; lia).
    destruct (M.Add T eqb out fresh [x]) as [o| | | | |]; cbn [embf bind M.bind both]; try reflexivity.
    apply IH; [intros y I; apply P; right; exact I | lia | exact S' | cbn in G; lia].
Qed.

Theorem C18_keys_is_source : forall (m : go_nmap T U) (ord : list T) (fresh : positive) (fuel : nat),
  go_nmap_order_ok eqb m ord = true -> (length ord < fuel)%nat -> (1 < fuel)%nat ->
  Keys m eqb ord fuel = embf forget (M.Keys T eqb ord fresh).
Proof.
  intros m ord fresh fuel O F F1. unfold Keys, M.Keys, go_nmap_order_check. anchors. rewrite O. cbn [bind]. cbv zeta.
  change (@go_nmap_make T unit) with (forget (M.m_make T fresh)).
  pose proof (keys_loop_eq m ord fuel (Pos.succ fresh) F1 ord (M.m_make T fresh) 0 fuel (order_ok_has eqb m ord O) (Z.le_refl 0) eq_refl F) as L.
  destruct (Keys_loop1 _ _ _ _ _ _ _ _) as [[o r']| |]; destruct (M.collect_loop _ _ _ _ _ _); cbn [bind embf M.bind] in *;
    try discriminate; anchors; inversion L; subst; reflexivity.
Qed.

Theorem C18_keys_bad_order : forall (m : go_nmap T U) (ord : list T) (fuel : nat),
  go_nmap_order_ok eqb m ord = false -> Keys m eqb ord fuel = Panic PBadOrder.
Proof. intros m ord fuel O. unfold Keys, go_nmap_order_check. rewrite O. reflexivity. Qed.

End Keys.

Section Values.
Context {T U : Type}.
Variable eqbT : T -> T -> bool.
Variable eqb : U -> U -> bool.
Hypothesis eqb_spec : forall x y, eqb x y = true <-> x = y.
Variable zeroU : U.

Notation gomap := (M.gomap U).
Notation forget := (@forget U).

Lemma values_loop_eq (m : go_nmap T U) (ord : list T) fuel fresh : (1 < fuel)%nat -> forall rest (out : gomap) r gas,
  (forall x, In x rest -> go_nmap_has eqbT m x = true) ->
  0 <= r -> skipn (Z.to_nat r) ord = rest -> (length rest < gas)%nat ->
  bind (Values_loop1 fuel gas m eqbT ord (zlen ord) zeroU eqb (forget out) r) (fun '(o, _) => Ok o)
  = embf forget (M.collect_loop U eqb values_ncalls_add out fresh (map (go_nmap_get1 eqbT zeroU m) rest)).
Proof.
  intros F1. induction rest as [|x rest IH]; intros out r gas P R E G; (destruct gas as [|gas]; [cbn in G; lia|]); cbn [Values_loop1].
  - rewrite (skipn_nil_end _ _ R E). reflexivity.
  - destruct (skipn_cons_get _ _ _ _ R E) as [B [Gt S']]. rewrite B, Gt. cbn [bind M.collect_loop map].
    rewrite (P x (or_introl eq_refl)). cbn [negb]. cbv zeta. rewrite called_1 by reflexivity.
    rewrite (C18_add_is_source eqb eqb_spec out fresh [go_nmap_get1 eqbT zeroU m x] fuel) by (cbn; lia).
    destruct (M.Add U eqb out fresh _) as [o| | | | |]; cbn [embf bind M.bind both]; try reflexivity.
    apply IH; [intros y I; apply P; right; exact I | lia | exact S' | cbn in G; lia].
Qed.

Theorem C18_values_is_source : forall (m : go_nmap T U) (ord : list T) (fresh : positive) (fuel : nat),
  go_nmap_order_ok eqbT m ord = true -> (length ord < fuel)%nat -> (1 < fuel)%nat ->
  Values m eqbT ord eqb zeroU fuel = embf forget (M.Values U eqb (map (go_nmap_get1 eqbT zeroU m) ord) fresh).
Proof.
  intros m ord fresh fuel O F F1. unfold Values, M.Values, go_nmap_order_check. anchors. rewrite O. cbn [bind]. cbv zeta.
  change (@go_nmap_make U unit) with (forget (M.m_make U fresh)).
  pose proof (values_loop_eq m ord fuel (Pos.succ fresh) F1 ord (M.m_make U fresh) 0 fuel (order_ok_has eqbT m ord O) (Z.le_refl 0) eq_refl F) as L.
  destruct (Values_loop1 _ _ _ _ _ _ _ _ _ _) as [[o r']| |]; destruct (M.collect_loop _ _ _ _ _ _); cbn [bind embf M.bind] in *;
    try discriminate; anchors; inversion L; subst; reflexivity.
Qed.

End Values.

Print Assumptions C18_keys_is_source.
Print Assumptions C18_keys_bad_order.
Print Assumptions C18_values_is_source.
