(* The hand-written model of slice/slice.go (Slice/SliceUtilModel.v) equals the functions
   generated from the Go source (Gen/FnSlice.v, regenerated on every run).

   The two sides use their own result types; [emb] maps the model's into FnRt's (run-time panics
   onto run-time panics, the documented panics onto the message of the panic statement).  Generated
   functions take one fuel argument used by all their loops, the model chooses a fuel per loop:
   the statements say that, given at least as much fuel as the model uses, the generated function
   returns the model's result whenever that is not OutOfFuel ([res_le]). *)
From Coq Require Import ZArith List Bool Lia.
From Mds Require Import Common.FnRt GenTie.TieLib Gen.FnSlice Gen.SliceIdx.
From Mds Require Slice.SliceUtilModel.
Import ListNotations.
Local Open Scope Z_scope.

Module M := SliceUtilModel.

Definition emb_panic (p : M.panic) : panic_kind :=
  match p with
  | M.PRtIndex => PIndex
  | M.PRtSlice => PSlice
  | M.PRtDiv => PDiv
  | M.PRtMake => PMake
  | M.PDocIndex => PMsg "index out of range"
  | M.PDocOffset => PMsg "offset out of range"
  | M.PDocMax => PMsg "max must be positive"
  | M.PDocN => PMsg "n out of range"
  end.

Definition emb {A : Type} (r : M.res A) : res A :=
  match r with
  | M.Ok a => Ok a
  | M.Panic p => Panic (emb_panic p)
  | M.OutOfFuel => OutOfFuel
  end.

Definition embf {A B : Type} (f : A -> B) (r : M.res A) : res B :=
  match r with
  | M.Ok a => Ok (f a)
  | M.Panic p => Panic (emb_panic p)
  | M.OutOfFuel => OutOfFuel
  end.

Definition vw (v : M.view) : view := mkView (M.voff v) (M.vlen v) (M.vcap v).

Lemma emb_bind {A B} (m : M.res A) (k : A -> M.res B) :
  emb (M.bind m k) = bind (emb m) (fun a => emb (k a)).
Proof. destruct m; reflexivity. Qed.

Lemma embf_bind {A B C} (f : B -> C) (m : M.res A) (k : A -> M.res B) :
  embf f (M.bind m k) = bind (emb m) (fun a => embf f (k a)).
Proof. destruct m; reflexivity. Qed.

Lemma zlen_eq {A} (l : list A) : zlen l = M.zlen l.
Proof. reflexivity. Qed.

Lemma upd_eq {A} (l : list A) n x : upd l n x = M.upd l n x.
Proof. revert n; induction l; destruct n; simpl; f_equal; auto. Qed.

Lemma get_eq {A} (l : list A) i : go_get l i = emb (M.get l i).
Proof.
  unfold go_get, M.get. change (M.zlen l) with (zlen l).
  destruct ((0 <=? i) && (i <? zlen l)); [destruct (nth_error l (Z.to_nat i))|]; reflexivity.
Qed.

Lemma set_eq {A} (l : list A) i x : go_set l i x = emb (M.set l i x).
Proof.
  unfold go_set, M.set. change (M.zlen l) with (zlen l).
  destruct ((0 <=? i) && (i <? zlen l)); simpl; [rewrite upd_eq|]; reflexivity.
Qed.

Lemma slice3_eq v lo hi mx : go_slice3 (vw v) lo hi mx = embf vw (M.slice3 v lo hi mx).
Proof.
  unfold go_slice3, M.slice3, vw; simpl.
  destruct ((0 <=? lo) && (lo <=? hi) && (hi <=? mx) && (mx <=? M.vcap v)); reflexivity.
Qed.

Lemma M_bind_assoc {A B C} (m : M.res A) (f : A -> M.res B) (g : B -> M.res C) :
  M.bind (M.bind m f) g = M.bind m (fun a => M.bind (f a) g).
Proof. destruct m; reflexivity. Qed.


(* ---------------------------------------------------------------- sliceCheck / indexCheck *)
Lemma C17_sliceCheck_is_source i n : sliceCheck i n = M.slice_check i n.
Proof. reflexivity. Qed.

Lemma C17_indexCheck_is_source i n : indexCheck i n = M.index_check i n.
Proof. reflexivity. Qed.


Print Assumptions C17_sliceCheck_is_source.
Print Assumptions C17_indexCheck_is_source.
