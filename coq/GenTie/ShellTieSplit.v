(* shell/shell.go, C16: Scanner.Split, Scanner.Each and Split of the model = the functions generated
   from the Go source (Gen/FnShell.v), over the instantiations of ShellTieBase.v.

   Fuel.  The model's loops run with fuel length(input)+2 and answer None both for a panic and for
   exhausted fuel; the tie shows that with that fuel None is always the panic: every Next that
   answers true either consumed a byte or latched io.EOF ([measure]).

   Each.  The generated Each takes a PURE callback (a function of the token); the model's callback
   is a counter ("answer false at call number stop").  The tie is stated for every pure callback
   against [each_pure] (the model's loop with such a callback) and instantiated with the two
   callbacks that are both: never stop (stop = 0) and stop at the first token (stop = 1).  The
   tokens passed to the callback are not a result of the generated function (no log for a callback
   with a result); only the scanner it leaves behind is compared.

   Split.  The pooled scanner plays the receiver: the generated function takes the four fields of
   whatever scanner the pool hands out and returns, after the Go results, the fields it leaves
   (what is put back). *)
From Coq Require Import ZArith NArith List Bool Lia.
From Mds Require Import Common.FnRt GenTie.TieLib Gen.ShellTable Gen.FnShell.
From Mds Require Import Shell.ShellModel Shell.ShellSkel GenTie.ShellTieBase GenTie.ShellTieNext.
Import ListNotations.
Local Open Scope Z_scope.

Definition measure (sc : M.scanner) : nat := if M.eof sc then O else S (length (M.inp sc)).

Lemma scan_next_emit_suffix : forall l s acc tok rest s',
  H.scan_next l s acc = NEmit tok rest s' -> (length rest < length l)%nat /\ (bytes_ok l -> bytes_ok rest).
Proof.
  induction l as [|c l IH]; intros s acc tok rest s' E; cbn [H.scan_next] in E.
  - discriminate.
  - destruct (T.update s (T.class_of c)) as [[s1 a]|]; [|discriminate].
    assert (R : forall acc1, H.scan_next l s1 acc1 = NEmit tok rest s' ->
                (length rest < length (c :: l))%nat /\ (bytes_ok (c :: l) -> bytes_ok rest)).
    { intros acc1 E1. destruct (IH _ _ _ _ _ E1) as [L B]. split; [simpl; lia|].
      intros Hb. apply bytes_ok_cons in Hb. apply B, Hb. }
    destruct a; try (eapply R; exact E).
    inversion E; subst. split; [simpl; lia|]. intros Hb. apply bytes_ok_cons in Hb. apply Hb.
Qed.

Lemma next_true_measure sc sc' : H.next sc = Some (sc', true) ->
  (measure sc' < measure sc)%nat /\ (bytes_ok (M.inp sc) -> bytes_ok (M.inp sc')) /\
  (length (M.inp sc') <= length (M.inp sc))%nat.
Proof.
  unfold H.next, measure. destruct (M.eof sc) eqn:Ee; [discriminate|].
  destruct (H.scan_next (M.inp sc) (M.st sc) []) as [|tok rest s'|has tok s'] eqn:E; intros N; inversion N; subst; cbn.
  - destruct (scan_next_emit_suffix _ _ _ _ _ _ E) as [L B]. repeat split; [lia | exact B | lia].
  - repeat split; [lia | intros; constructor | lia].
Qed.

(* ---- Scanner.Split ---- *)
Definition enc_split (r : option (M.scanner * list M.bytes))
  : res (list Z * list Z * Z * go_error * list (list Z)) :=
  match r with
  | None => Panic PIndex
  | Some (sc', toks) => Ok (zs (M.inp sc'), zs (M.cur sc'), st_z (M.st sc'), err_z (M.eof sc'), map zs toks)
  end.

Lemma split_loop_ok : forall n sc toks f gas fuel,
  (measure sc <= n)%nat -> (n < f)%nat -> (n < gas)%nat ->
  bytes_ok (M.inp sc) -> (length (M.inp sc) < fuel)%nat ->
  G.Scanner_Split_loop1 fuel gas bb_Reset rd_ReadByte bb_WriteByte bb_Write bb_String
    (zs (M.inp sc)) (zs (M.cur sc)) (st_z (M.st sc)) (err_z (M.eof sc)) (map zs toks)
  = enc_split (H.split_loop f sc toks).
Proof.
  induction n as [|n IH]; intros sc toks f gas fuel Hm Hf Hg Hb Hl;
    (destruct f as [|f]; [lia|]); (destruct gas as [|gas]; [lia|]);
    cbn [G.Scanner_Split_loop1 H.split_loop]; rewrite next_hand_src by assumption;
    destruct (H.next sc) as [[sc' ok]|] eqn:En; try reflexivity; cbn [enc_next bind]; destruct ok; try reflexivity.
  - destruct (next_true_measure _ _ En) as (Lm & _ & _). lia.
  - destruct (next_true_measure _ _ En) as (Lm & Bk & Ll).
    unfold G.Text, bb_String. cbn [bind].
    change (map zs toks ++ [zs (M.cur sc')]) with (map zs toks ++ map zs [M.text sc']). rewrite <- map_app.
    apply IH; [lia | lia | lia | apply Bk; exact Hb | lia].
Qed.

Theorem C16_scanner_split_is_source : forall sc fuel,
  bytes_ok (M.inp sc) -> (length (M.inp sc) + 2 <= fuel)%nat ->
  G.Scanner_Split (zs (M.inp sc)) (zs (M.cur sc)) (st_z (M.st sc)) (err_z (M.eof sc))
    bb_Reset rd_ReadByte bb_WriteByte bb_Write bb_String fuel
  = match M.scanner_split sc with
    | None => Panic PIndex
    | Some (sc', toks) => Ok (map zs toks, zs (M.inp sc'), zs (M.cur sc'), st_z (M.st sc'), err_z (M.eof sc'))
    end.
Proof.
  intros sc fuel Hb Hf. rewrite scanner_split_hand. unfold G.Scanner_Split, H.scanner_split.
  change (@nil (list Z)) with (map zs []).
  rewrite (split_loop_ok (S (length (M.inp sc))) sc [] (S (S (length (M.inp sc)))) fuel fuel); try assumption; try lia.
  - destruct (H.split_loop _ sc []) as [[sc' toks]|]; reflexivity.
  - unfold measure. destruct (M.eof sc); lia.
Qed.

(* ---- Scanner.Each with a pure callback ---- *)
Fixpoint each_pure (fuel : nat) (sc : M.scanner) (f : M.bytes -> bool) : option M.scanner :=
  match fuel with
  | O => None
  | S k =>
    match H.next sc with
    | None => None
    | Some (sc', true) => if f (M.text sc') then each_pure k sc' f else Some sc'
    | Some (sc', false) => Some sc'
    end
  end.

Definition enc_state (r : option M.scanner) : res (list Z * list Z * Z * go_error) :=
  match r with None => Panic PIndex | Some sc' => Ok (enc_sc sc') end.

Definition unctl {S} (g : res (ctl S S)) : res S :=
  match g with Ok (Ret s) => Ok s | Ok (Next s) => Ok s | Panic k => Panic k | OutOfFuel => OutOfFuel end.

Lemma each_loop_ok : forall n sc f fz k gas fuel,
  (forall t, fz (zs t) = f t) ->
  (measure sc <= n)%nat -> (n < k)%nat -> (n < gas)%nat ->
  bytes_ok (M.inp sc) -> (length (M.inp sc) < fuel)%nat ->
  unctl (G.Each_loop1 fuel gas fz bb_Reset rd_ReadByte bb_WriteByte bb_Write bb_String
    (zs (M.inp sc)) (zs (M.cur sc)) (st_z (M.st sc)) (err_z (M.eof sc)))
  = enc_state (each_pure k sc f).
Proof.
  induction n as [|n IH]; intros sc f fz k gas fuel Hfz Hm Hk Hg Hb Hl;
    (destruct k as [|k]; [lia|]); (destruct gas as [|gas]; [lia|]);
    cbn [G.Each_loop1 each_pure]; rewrite next_hand_src by assumption;
    destruct (H.next sc) as [[sc' ok]|] eqn:En; try reflexivity; cbn [enc_next bind]; destruct ok; try reflexivity.
  - destruct (next_true_measure _ _ En) as (Lm & _ & _). lia.
  - destruct (next_true_measure _ _ En) as (Lm & Bk & Ll).
    unfold G.Text, bb_String. cbn [bind]. rewrite Hfz. unfold M.text.
    destruct (f (M.cur sc')); cbn [negb].
    + apply IH; [exact Hfz | lia | lia | lia | apply Bk; exact Hb | lia].
    + reflexivity.
Qed.

Theorem C16_each_is_source : forall sc f fz fuel,
  (forall t, fz (zs t) = f t) ->
  bytes_ok (M.inp sc) -> (length (M.inp sc) + 2 <= fuel)%nat ->
  G.Each (zs (M.inp sc)) (zs (M.cur sc)) (st_z (M.st sc)) (err_z (M.eof sc)) fz
    bb_Reset rd_ReadByte bb_WriteByte bb_Write bb_String fuel
  = enc_state (each_pure (S (S (length (M.inp sc)))) sc f).
Proof.
  intros sc f fz fuel Hfz Hb Hf. unfold G.Each.
  rewrite <- (each_loop_ok (S (length (M.inp sc))) sc f fz _ fuel fuel Hfz); try assumption; try lia.
  - destruct (G.Each_loop1 _ _ _ _ _ _ _ _ _ _ _ _) as [[[[[a b] c] d]|[[[a b] c] d]]| |]; reflexivity.
  - unfold measure. destruct (M.eof sc); lia.
Qed.

Lemma each_pure_all : forall k sc toks,
  each_pure k sc (fun _ => true) = option_map fst (H.each_loop k sc 0 toks).
Proof.
  induction k as [|k IH]; intros sc toks; cbn [each_pure H.each_loop]; [reflexivity|].
  destruct (H.next sc) as [[sc' ok]|]; [|reflexivity]. destruct ok; [|reflexivity].
  replace (Nat.eqb (length (toks ++ [M.text sc'])) 0) with false
    by (symmetry; apply Nat.eqb_neq; rewrite app_length; simpl; lia).
  apply IH.
Qed.

Lemma each_pure_first : forall k sc,
  each_pure k sc (fun _ => false) = option_map fst (H.each_loop k sc 1 []).
Proof.
  destruct k as [|k]; intros sc; cbn [each_pure H.each_loop]; [reflexivity|].
  destruct (H.next sc) as [[sc' ok]|]; [|reflexivity]. destruct ok; reflexivity.
Qed.

(* the model's Each with a callback that never stops / that stops at the first token: the scanner left behind *)
Theorem C16_each_all_is_source : forall sc fuel,
  bytes_ok (M.inp sc) -> (length (M.inp sc) + 2 <= fuel)%nat ->
  G.Each (zs (M.inp sc)) (zs (M.cur sc)) (st_z (M.st sc)) (err_z (M.eof sc)) (fun _ => true)
    bb_Reset rd_ReadByte bb_WriteByte bb_Write bb_String fuel
  = enc_state (option_map fst (M.scanner_each sc 0)).
Proof.
  intros. rewrite scanner_each_hand. unfold H.scanner_each. rewrite <- each_pure_all.
  apply C16_each_is_source; auto.
Qed.

Theorem C16_each_first_is_source : forall sc fuel,
  bytes_ok (M.inp sc) -> (length (M.inp sc) + 2 <= fuel)%nat ->
  G.Each (zs (M.inp sc)) (zs (M.cur sc)) (st_z (M.st sc)) (err_z (M.eof sc)) (fun _ => false)
    bb_Reset rd_ReadByte bb_WriteByte bb_Write bb_String fuel
  = enc_state (option_map fst (M.scanner_each sc 1)).
Proof.
  intros. rewrite scanner_each_hand. unfold H.scanner_each. rewrite <- each_pure_first.
  apply C16_each_is_source; auto.
Qed.

(* ---- Split: for every state sc0 of the scanner the pool hands out ---- *)
Theorem C16_Split_is_source : forall sc0 s fuel,
  bytes_ok s -> (length s + 2 <= fuel)%nat ->
  G.Split (zs (M.inp sc0)) (zs (M.cur sc0)) (st_z (M.st sc0)) (err_z (M.eof sc0)) (zs s)
    rd_Reset bb_Reset new_reader rd_ReadByte bb_WriteByte bb_Write bb_String as_reader fuel
  = match M.scanner_split (M.reset_sc sc0 s) with
    | None => Panic PIndex
    | Some (sc', toks) =>
        Ok (map zs toks, M.complete sc', zs (M.inp sc'), zs (M.cur sc'), st_z (M.st sc'), err_z (M.eof sc'))
    end.
Proof.
  intros sc0 s fuel Hb Hf. unfold G.Split, new_reader, as_reader. cbn [bind].
  rewrite C16_reset_is_source. unfold enc_sc. cbn [bind].
  rewrite C16_scanner_split_is_source.
  - destruct (M.scanner_split (M.reset_sc sc0 s)) as [[sc' toks]|]; [|reflexivity].
    cbn [bind]. rewrite C16_complete_is_source. reflexivity.
  - exact Hb.
  - exact Hf.
Qed.

(* ... and the model's shell.Split result is its first two components *)
Corollary C16_Split_result_is_source : forall sc0 s fuel,
  bytes_ok s -> (length s + 2 <= fuel)%nat ->
  match M.split_from sc0 s with
  | None => G.Split (zs (M.inp sc0)) (zs (M.cur sc0)) (st_z (M.st sc0)) (err_z (M.eof sc0)) (zs s)
              rd_Reset bb_Reset new_reader rd_ReadByte bb_WriteByte bb_Write bb_String as_reader fuel = Panic PIndex
  | Some (toks, ok) => exists back,
            G.Split (zs (M.inp sc0)) (zs (M.cur sc0)) (st_z (M.st sc0)) (err_z (M.eof sc0)) (zs s)
              rd_Reset bb_Reset new_reader rd_ReadByte bb_WriteByte bb_Write bb_String as_reader fuel
            = Ok (map zs toks, ok, zs (M.inp back), zs (M.cur back), st_z (M.st back), err_z (M.eof back))
  end.
Proof.
  intros sc0 s fuel Hb Hf. rewrite C16_Split_is_source by assumption. unfold M.split_from.
  change (if T.split_resets then M.reset_sc sc0 s else sc0) with (M.reset_sc sc0 s).
  destruct (M.scanner_split (M.reset_sc sc0 s)) as [[sc' toks]|]; [|reflexivity].
  exists sc'. reflexivity.
Qed.

Print Assumptions C16_scanner_split_is_source.
Print Assumptions C16_each_is_source.
Print Assumptions C16_each_all_is_source.
Print Assumptions C16_each_first_is_source.
Print Assumptions C16_Split_is_source.
Print Assumptions C16_Split_result_is_source.
