(* No generated call fails in a history of the generated omap functions (C04_history_source made
   explicit): every element of [orun ... (ginit h0) ops] is a normal answer, neither a panic nor
   "out of fuel".  Proved from the per-function ties (the same chain as omap_run_sim), not read off
   the equation with the reference; the hypothesis is the one of C04_history_source (comparator laws). *)
From Coq Require Import ZArith List Bool Lia.
From Mds Require Import Common.FnRt Common.FnHeap GenTie.StreeTieBase GenTie.StreeSep GenTie.StreeSource
  GenTie.StreeSourceSim GenTie.StreeTieNew GenTie.StreeSourceNew
  GenTie.OmapTieBase GenTie.OmapTieRead GenTie.OmapTieWrite GenTie.OmapTieIter GenTie.OmapTieSeq GenTie.OmapTieFirst
  GenTie.OmapSource GenTie.OmapTieNew.
From Mds Require Gen.FnOmapNew Gen.OmapConst Omap.OmapSpec.
From Mds Require Import Stree.StreeSpec.
Import ListNotations.
Local Open Scope Z_scope.

Definition gres_ok {K V : Type} (x : gres K V) : Prop := (forall k, x <> GoPanic k) /\ x <> GoFuel.

Section Safe.
Context {K V : Type}.
Variable kcmp : K -> K -> Z.
Hypothesis HK : SP.total_preorder kcmp.
Variable limit : Z -> Z -> Z.
Variable zk : K.
Variable zv : V.
Variable b : Z.
Variable h0 : list (G.node (K * V)).
Notation kv := (K * V)%type.

Lemma omap_step_safe (st : gst kv) (t : SM.Tree kv) (o : gop K V) :
  osim kcmp b h0 false st (Some t) ->
  exists st' t' x, ostep kcmp limit zk zv b st o = (st', x) /\ gres_ok x /\
                   osim kcmp b h0 false st' (Some t').
Proof.
  intros Hs. destruct o as [k v|k| |k|k| | |s ms]; cbn [OmapSource.ostep].
  - destruct (set_tie kcmp HK limit zk zv b h0 st t k v Hs) as [t' [bb [st' [M [G1 Hs']]]]].
    rewrite G1. exists st', t', (GoBool bb). split; [reflexivity|]. split; [split; [intros ?|]; discriminate|exact Hs'].
  - destruct (delete_tie kcmp HK zk zv b h0 false st (Some t) k Hs) as [m' [bb [st' [M [G1 Hs']]]]].
    rewrite G1. destruct m' as [t'|]; [|discriminate Hs'].
    exists st', t', (GoBool bb). split; [reflexivity|]. split; [split; [intros ?|]; discriminate|exact Hs'].
  - destruct (clear_tie kcmp b h0 false st (Some t) Hs) as [st' [G1 Hs']]. rewrite G1.
    exists st', (SM.Clear t), GoUnit. split; [reflexivity|]. split; [split; [intros ?|]; discriminate|exact Hs'].
  - rewrite (getok_tie kcmp zk zv b h0 false st (Some t) k Hs).
    eexists st, t, _. split; [reflexivity|]. split; [split; [intros ?|]; discriminate|exact Hs].
  - rewrite (get_tie kcmp zk zv b h0 false st (Some t) k Hs).
    eexists st, t, _. split; [reflexivity|]. split; [split; [intros ?|]; discriminate|exact Hs].
  - rewrite (len_tie kcmp b h0 false st (Some t) Hs).
    eexists st, t, _. split; [reflexivity|]. split; [split; [intros ?|]; discriminate|exact Hs].
  - destruct (keys_tie kcmp b h0 false st (Some t) Hs) as [r [M G1]]. rewrite G1.
    eexists st, t, _. split; [reflexivity|]. split; [split; [intros ?|]; discriminate|exact Hs].
  - destruct (iter_sim kcmp HK zk zv b h0 st t s ms Hs) as [os [M G1]]. rewrite G1.
    eexists st, t, _. split; [reflexivity|]. split; [split; [intros ?|]; discriminate|exact Hs].
Qed.

Lemma omap_run_safe (ops : list (gop K V)) : forall (st : gst kv) (t : SM.Tree kv),
  osim kcmp b h0 false st (Some t) ->
  Forall gres_ok (orun kcmp limit zk zv b st ops).
Proof.
  induction ops as [|o r IH]; intros st t Hs; [constructor|].
  cbn [OmapSource.orun].
  destruct (omap_step_safe st t o Hs) as [st' [t' [x [E1 [E2 Hs']]]]]. rewrite E1.
  constructor; [exact E2|]. apply (IH st' t'). exact Hs'.
Qed.

End Safe.

Theorem omap_history_source_no_failure {K V : Type} (kcmp : K -> K -> Z) (HK : SP.total_preorder kcmp)
  (limit : Z -> Z -> Z) (zk : K) (zv : V) (h0 : list (G.node (K * V))) (ops : list (gop K V)) :
  Forall (fun x => (forall k, x <> GoPanic k) /\ x <> GoFuel)
         (orun kcmp limit zk zv OmapConst.omap_beta (ginit h0) ops).
Proof.
  apply (omap_run_safe kcmp HK limit zk zv OmapConst.omap_beta h0 ops (ginit h0)
           (SM.mkTree SM.Leaf OmapConst.omap_beta 0 0)).
  split; [reflexivity|]. split; [apply sim_init|]. exists []. apply rel_empty.
Qed.

Section OmapNewSafe.
Context {K V : Type}.
Notation kv := (K * V)%type.
Variable limitFunc : Z -> Z -> Z.
Variable srt : list ptr -> (unit -> ptr -> ptr -> res (Z * unit)) -> res (list ptr).
Variable cpt : list ptr -> (unit -> ptr -> ptr -> res (bool * unit)) -> res (list ptr).
Variable h0 : list (G.node kv).

Theorem history_source_newfunc_no_failure (kcmp : K -> K -> Z) (HK : total_preorder kcmp) (zk : K) (zv : V)
  (ops : list (gop K V)) :
  exists (tr : G.Tree kv) (h : list (G.node kv)),
    FnOmapNew.Map_m (newfunc_g limitFunc srt cpt h0 (Some kcmp)) = Ok (tr, h) /\
    Forall (fun x => (forall k, x <> GoPanic k) /\ x <> GoFuel)
           (orun kcmp (fun _ => G.Tree_limit tr) zk zv (G.Tree_β tr) (gst_of tr h) ops).
Proof.
  eexists _, h0. split; [apply newfunc_is_source|].
  cbn [G.Tree_β G.Tree_limit].
  apply (omap_history_source_no_failure kcmp HK).
Qed.

End OmapNewSafe.
