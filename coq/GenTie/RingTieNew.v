(* ring/ring.go: New and Of -- model = generated function (see RingTieBase.v).  The model gives
   New's loop the requested count as its budget and walks Of's argument structurally; the
   generated loops are fuelled, so the statements are [res_le] with a fuel bound (TieLib.v):
   whenever the model's verdict is not OutOfFuel the generated function returns exactly it. *)
From Coq Require Import ZArith List Bool Arith Lia.
From Mds Require Import Gen.RingIdx Ring.RingBase.
From Mds Require Import Common.FnRt Common.FnHeap GenTie.TieLib GenTie.RingTieBase GenTie.RingTieOps.
Import ListNotations.
Import RingNotations.
Local Open Scope Z_scope.

Section New.
Context {T : Type}.
Variable zero : T.
Notation heap := (RingBase.heap T).

(* the loop of New: elt := newRing(); elt.next = r.next; r.next.prev = elt; elt.prev = r;
   r.next = elt; n-- *)
Lemma new_loop_le : forall (f : nat) (gas fuel : nat) (r : ptr) (n : Z) (h : heap),
  (gas > f)%nat ->
  res_le (embh (Pl.new_loop T zero f r n h))
         (bind (G.New_loop1 fuel gas zero r n (henc h)) (fun x => Ok (snd x))).
Proof.
  induction f as [|f IH]; intros gas fuel r n h Hg; (destruct gas as [|gas]; [lia|]);
    cbn [Pl.new_loop G.New_loop1]; unfold new_more; destruct (n >? 1) eqn:En.
  - fin.
  - fin.
  - rewrite C10_ring_newRing_is_source. change (Mo.new_ring T zero h) with (Pl.new_ring T zero h).
    unfold RingBase.bind at 1.
    destruct (Pl.new_ring T zero h) as [h0 [elt| | |]]; cbn [embw bind idf]; try fin.
    gstep. unfold RingBase.bind at 1. mload (@get_next T) (@get_next_heap T) r h0 rn.
    gstep. unfold RingBase.bind at 1. mstore (set_next elt rn h0) h1.
    gstep. unfold RingBase.bind at 1. mload (@get_next T) (@get_next_heap T) r h1 rn'.
    gstep. unfold RingBase.bind at 1. mstore (set_prev rn' elt h1) h2.
    gstep. unfold RingBase.bind at 1. mstore (set_prev elt r h2) h3.
    gstep. unfold RingBase.bind at 1. mstore (set_next r elt h3) h4.
    apply IH. lia.
  - fin.
Qed.

Theorem C10_ring_new_is_source : forall (n : Z) (h : heap) (fuel : nat),
  (fuel > Z.to_nat n)%nat ->
  res_le (embw idf (Mo.new T zero n h)) (G.New n (henc h) zero fuel).
Proof.
  intros n h fuel Hf. rewrite mp_new. unfold Pl.new, G.New, new_nonpos.
  destruct (n <=? 0); [fin|].
  rewrite C10_ring_newRing_is_source. change (Mo.new_ring T zero h) with (Pl.new_ring T zero h). unfold RingBase.bind at 1.
  destruct (Pl.new_ring T zero h) as [h0 [r| | |]]; cbn [embw bind idf]; try fin.
  unfold idf. unfold RingBase.bind at 1.
  pose proof (new_loop_le (Z.to_nat n) fuel fuel r n h0 Hf) as L.
  destruct (Pl.new_loop T zero (Z.to_nat n) r n h0) as [h1 [[]| | |]]; cbn [embh] in L.
  - apply res_le_eq in L; [|discriminate].
    destruct (G.New_loop1 fuel fuel zero r n (henc h0)) as [[n1 g1]| |]; cbn [bind snd] in L; try discriminate.
    inversion L; subst. apply res_le_refl.
  - apply res_le_eq in L; [|discriminate].
    destruct (G.New_loop1 fuel fuel zero r n (henc h0)) as [[n1 g1]| |]; cbn [bind snd] in L; try discriminate.
    inversion L; subst. apply res_le_refl.
  - apply res_le_eq in L; [|discriminate].
    destruct (G.New_loop1 fuel fuel zero r n (henc h0)) as [[n1 g1]| |]; cbn [bind snd] in L; try discriminate.
    inversion L; subst. apply res_le_refl.
  - apply res_le_oof.
Qed.

Lemma skipn_S_of_cons {A} : forall (i : nat) (l : list A) x r, skipn i l = x :: r -> skipn (S i) l = r.
Proof.
  induction i as [|i IH]; intros l x r H.
  - cbn [skipn] in H. subst l. reflexivity.
  - destruct l as [|y l]; [discriminate|]. cbn [skipn] in H. change (skipn (S (S i)) (y :: l)) with (skipn (S i) l).
    apply (IH _ _ _ H).
Qed.

(* the loop of Of: cur.Value = v; cur = cur.Next() over the elements from index i on *)
Lemma of_loop_le : forall (rest : list T) (gas fuel : nat) (vs : list T) (i : nat) (cur : ptr) (h : heap),
  skipn i vs = rest -> (i <= length vs)%nat -> (gas > length rest)%nat ->
  res_le (embh (Pl.of_loop rest cur h))
         (bind (G.Of_loop1 fuel gas vs (zlen vs) cur (Z.of_nat i) (henc h)) (fun x => Ok (snd x))).
Proof.
  induction rest as [|v rest IH]; intros gas fuel vs i cur h Hs Hi Hg;
    (destruct gas as [|gas]; [cbn [length] in Hg; lia|]); cbn [Pl.of_loop G.Of_loop1].
  - assert (i = length vs).
    { destruct (Nat.eq_dec i (length vs)); [assumption|].
      assert (length (skipn i vs) = (length vs - i)%nat) by apply skipn_length.
      rewrite Hs in H. cbn [length] in H. lia. }
    subst i. unfold zlen. rewrite Z.ltb_irrefl. fin.
  - assert (Hlt : (i < length vs)%nat).
    { assert (length (skipn i vs) = (length vs - i)%nat) by apply skipn_length.
      rewrite Hs in H. cbn [length] in H. lia. }
    unfold zlen at 1. replace (Z.of_nat i <? Z.of_nat (length vs)) with true by (symmetry; apply Z.ltb_lt; lia).
    assert (Hget : go_get vs (Z.of_nat i) = Ok v).
    { unfold go_get, zlen. replace ((0 <=? Z.of_nat i) && (Z.of_nat i <? Z.of_nat (length vs)))%bool with true
        by (symmetry; apply andb_true_iff; split; [apply Z.leb_le | apply Z.ltb_lt]; lia).
      rewrite Nat2Z.id.
      assert (nth_error vs i = Some v).
      { rewrite <- (firstn_skipn i vs) at 1. rewrite nth_error_app2 by (rewrite firstn_length; lia).
        rewrite firstn_length, Nat.min_l by lia. rewrite Nat.sub_diag, Hs. reflexivity. }
      rewrite H. reflexivity. }
    rewrite Hget. cbn [bind].
    gstep. unfold RingBase.bind at 1. mstore (set_val cur v h) h1.
    unfold G.Ring_Next. gstep.
    unfold RingBase.bind at 1. mload (@get_next T) (@get_next_heap T) cur h1 cur'.
    cbn [bind].
    replace (Z.of_nat i + 1) with (Z.of_nat (S i)) by lia.
    apply IH; [|lia|cbn [length] in Hg; lia].
    apply (skipn_S_of_cons _ _ _ _ Hs).
Qed.

Theorem C10_ring_of_is_source : forall (vs : list T) (h : heap) (fuel : nat),
  (fuel > length vs)%nat ->
  res_le (embw idf (Mo.of T zero vs h)) (G.Of vs (henc h) zero fuel).
Proof.
  intros vs h fuel Hf. rewrite mp_of. unfold Pl.of, G.Of, of_len.
  unfold RingBase.bind at 1.
  assert (Hf' : (fuel > Z.to_nat (Z.of_nat (length vs)))%nat) by (rewrite Nat2Z.id; exact Hf).
  pose proof (C10_ring_new_is_source (Z.of_nat (length vs)) h fuel Hf') as LN. rewrite mp_new in LN.
  change (zlen vs) with (Z.of_nat (length vs)) at 1.
  destruct (Pl.new T zero (Z.of_nat (length vs)) h) as [h0 [r| | |]]; cbn [embw idf] in LN.
  2,3: (apply res_le_eq in LN; [|discriminate]); rewrite LN; apply res_le_refl.
  2: apply res_le_oof.
  apply res_le_eq in LN; [|discriminate]. rewrite LN. cbn [bind]. unfold idf.
  unfold RingBase.bind at 1.
  pose proof (of_loop_le vs fuel fuel vs 0 r h0 eq_refl (Nat.le_0_l _) Hf) as L.
  change (Z.of_nat 0) with 0 in L.
  destruct (Pl.of_loop vs r h0) as [h1 [[]| | |]]; cbn [embh] in L.
  4: apply res_le_oof.
  all: (apply res_le_eq in L; [|discriminate]);
    destruct (G.Of_loop1 fuel fuel vs (zlen vs) r 0 (henc h0)) as [[[c1 i1] g1]| |]; cbn [bind snd] in L; try discriminate;
    inversion L; subst; apply res_le_refl.
Qed.

End New.

Print Assumptions C10_ring_new_is_source.
Print Assumptions C10_ring_of_is_source.
