(* C08 at source level: whole histories of the function generated from cache/cache.go, given as its
   store the functions generated from cache/lru.go, given as their heap the heapq model.

   GenTie/CacheTieCompose.v has ONE call: [gen_step fuel (grep c) o] returns what the model's step
   returns (C08_step_is_source).  Here:
   [gstep hv g o] = gen_step with the fuel chosen from the STATE: 1 + the number of heap entries
       ([gfuel]; it bounds the model's loop fuel of Put and Clear: [step_fuel_le]);
   [gstate] = (c.present, c.access, c.clock), c.size, c.count, c.limit: the fields the generated
       methods read and write; c.access is a queue of the heapq MODEL at variant [hv], operated by
       the model's Peek/Remove/Add/Pop with the move log replayed on c.present (how lru.go's
       Update callback is tied: C08_lru_update_is_source); the heapq model is tied to heapq.go
       separately (C05/C06 ties and C05_conservation_source).
   [ginit lim] = the state cache.New(lim, LRU()...) produces ACCORDING TO THE MODEL: New and LRU()
       are not translated (closures, interface values); lim <= 0 is New's panic
       (C08_new_bad_limit), so the source statements are for 0 < lim, as the model-level ones.
   [grun] collects the generated calls' results; a failing call ends the list (as the model's run). *)
From Coq Require Import ZArith List Bool Lia Permutation.
From Mds Require Import Common.FnRt GenTie.TieLib Gen.FnCache Gen.FnLru Gen.CacheIdx
  GenTie.LruTieBase GenTie.LruTieOps GenTie.CacheTieBase GenTie.CacheTiePut GenTie.CacheTieClear GenTie.CacheTieCompose.
From Mds Require Cache.CacheSpec Heapq.HeapqSpec Heapq.HeapqHist.
Import ListNotations.
Local Open Scope Z_scope.

Section Src.
Context {K V : Type}.
Variable keqb : K -> K -> bool.
Variable kzero : K.
Variable vzero : V.
Variable sizeOf : V -> Z.
Variable hv : H.variant.

Notation lru := (C.lru K V).
Notation cache := (C.cache K V).
Notation prio := (C.prio K V).
Notation gstate := (@gstate K V).

Definition gfuel (g : gstate) : nat :=
  let '((_, q, _), _, _, _) := g in S (length (H.data q)).

Definition gstep (g : gstate) (o : S.op K V) : res (gstate * (S.out V * S.evlog K V)) :=
  gen_step keqb kzero vzero sizeOf hv (gfuel g) g o.

Fixpoint grun (g : gstate) (ops : list (S.op K V)) : list (res (S.out V * S.evlog K V)) :=
  match ops with
  | [] => []
  | o :: ops' =>
    match gstep g o with
    | Ok (g', r) => Ok r :: grun g' ops'
    | Panic k => [Panic k]
    | OutOfFuel => [OutOfFuel]
    end
  end.

Definition ginit (lim : Z) : gstate :=
  (([], H.New prio (C.compare_prio K V), 0), 0, 0, lim).

(* ---- the fuel ---- *)
Lemma remove_length (q q1 : H.queue prio) (i : Z) (m : H.moves prio) (r : H.removed prio) :
  H.Remove prio hv q i = H.Ok (q1, m, r) -> (length (H.data q1) <= length (H.data q))%nat.
Proof.
  intros E. destruct (HeapqHist.step_conserved prio hv q (H.ORemove i)) as (q' & r' & m' & Es & Hc & _).
  cbn [H.step] in Es. rewrite E in Es. cbn [H.bind] in Es. inversion Es; subst q' r' m'. clear Es.
  unfold HeapqSpec.conserved in Hc. destruct r; cbn in Hc.
  - destruct Hc as [_ ->]. apply le_n.
  - destruct Hc as [_ ->]. apply le_n.
  - destruct Hc as [P _]. apply Permutation_length in P. cbn [length] in P. rewrite P. apply le_S, le_n.
Qed.

Lemma step_fuel_le (c : cache) (o : S.op K V) :
  (step_fuel keqb vzero hv c o <= gfuel (grep c))%nat.
Proof.
  destruct c as [s size cnt lim]. destruct o; cbn [step_fuel grep srep gfuel C.store]; try apply Nat.le_0_l; [|apply le_n].
  unfold put_fuel. cbn [C.store].
  destruct (C.lru_check K V keqb vzero s k) as [[old [|]]| |]; try apply le_n.
  unfold C.lru_remove. destruct (C.map_get K keqb (C.present s) k) as [pos|]; [|apply le_n].
  destruct (H.Remove prio hv (C.access s) (CacheLru.lremove_at pos)) as [[[q m] r]| |] eqn:E; cbn [C.lift C.cbind]; try apply Nat.le_0_l.
  pose proof (remove_length _ _ _ _ _ E) as L.
  destruct r; try apply Nat.le_0_l; cbn [C.access]; apply le_n_S; exact L.
Qed.

(* ---- one call: C08_step_is_source at the state's own fuel ---- *)
Theorem gstep_le : forall (c : cache) (o : S.op K V),
  res_le (embf (fun '(c', r) => (grep c', r)) (C.step K V keqb kzero vzero sizeOf hv c o)) (gstep (grep c) o).
Proof. intros c o. apply C08_step_is_source. apply step_fuel_le. Qed.

Corollary gstep_ok : forall (c c' : cache) (o : S.op K V) r,
  C.step K V keqb kzero vzero sizeOf hv c o = C.COk (c', r) -> gstep (grep c) o = Ok (grep c', r).
Proof.
  intros c c' o r E. pose proof (gstep_le c o) as L. rewrite E in L.
  destruct L as [L|L]; [discriminate|]. symmetry; exact L.
Qed.

(* ---- whole histories ---- *)
Theorem grun_ok : forall (ops : list (S.op K V)) (c : cache) (obs : list (S.out V * S.evlog K V)),
  C.run K V keqb kzero vzero sizeOf hv c ops = map C.ok_event obs -> grun (grep c) ops = map Ok obs.
Proof.
  induction ops as [|o ops IH]; intros c obs E.
  - destruct obs; [reflexivity|discriminate E].
  - cbn [grun C.run] in *.
    destruct (C.step K V keqb kzero vzero sizeOf hv c o) as [[c' [r log]]| |] eqn:Es;
      (destruct obs as [|[r0 log0] obs]; [discriminate E|]); cbn [map C.ok_event fst snd] in E; try discriminate E.
    inversion E; subst r0 log0. rewrite (gstep_ok _ _ _ _ Es). cbn [map]. f_equal. apply IH; assumption.
Qed.

(* the verdict of every call, failures included: the generated run is the model's run *)
Definition emb_event (e : C.event K V) : res (S.out V * S.evlog K V) :=
  match e with C.EOk r log => Ok (r, log) | C.EPanic k => Panic (pmsg k) | C.EFuel => OutOfFuel end.

Theorem grun_le : forall (ops : list (S.op K V)) (c : cache),
  ~ In C.EFuel (C.run K V keqb kzero vzero sizeOf hv c ops) ->
  grun (grep c) ops = map emb_event (C.run K V keqb kzero vzero sizeOf hv c ops).
Proof.
  induction ops as [|o ops IH]; intros c N; [reflexivity|].
  cbn [grun C.run] in *. pose proof (gstep_le c o) as L.
  destruct (C.step K V keqb kzero vzero sizeOf hv c o) as [[c' [r log]]| |] eqn:Es; cbn [embf] in L.
  - destruct L as [L|L]; [discriminate|]. rewrite <- L. cbn [map emb_event]. f_equal. apply IH.
    intros I. apply N. right; exact I.
  - destruct L as [L|L]; [discriminate|]. rewrite <- L. reflexivity.
  - exfalso. apply N. left; reflexivity.
Qed.

Theorem grun_new_ok : forall (lim : Z) (ops : list (S.op K V)) (obs : list (S.out V * S.evlog K V)),
  0 < lim ->
  C.run_new K V keqb kzero vzero sizeOf hv lim ops = map C.ok_event obs -> grun (ginit lim) ops = map Ok obs.
Proof.
  intros lim ops obs Hl E. unfold C.run_new, C.cache_new, CacheIdx.new_bad_limit in E.
  replace (lim <=? 0) with false in E by (symmetry; apply Z.leb_gt; exact Hl).
  exact (grun_ok ops _ obs E).
Qed.

End Src.

(* ---- composition with Props/C08.v ---- *)
From Mds Require Props.C08.

Theorem refines_S1_source :
  forall (K V : Type) (keqb : K -> K -> bool),
    (forall a b, keqb a b = true <-> a = b) ->
  forall (kzero : K) (vzero : V) (sizeOf : V -> Z),
    (forall v, 0 <= sizeOf v) ->
  forall (hv : H.variant) (lim : Z) (ops : list (S.op K V)),
    0 < lim ->
    exists obs,
      grun keqb kzero vzero sizeOf hv (ginit lim) ops = map Ok obs /\
      S.s1_accepts K V keqb vzero sizeOf lim [] ops obs.
Proof.
  intros K V keqb Hk kzero vzero sizeOf Hs hv lim ops Hl.
  destruct (C08.C08_refines_S1_partial K V keqb Hk kzero vzero sizeOf Hs hv lim ops Hl) as (obs & E & A).
  exists obs. split; [apply grun_new_ok; assumption | exact A].
Qed.

Theorem lru_source :
  forall (K V : Type) (keqb : K -> K -> bool),
    (forall a b, keqb a b = true <-> a = b) ->
  forall (kzero : K) (vzero : V) (sizeOf : V -> Z),
  forall (hv : H.variant), H.pop_no_siftup hv = true ->
  forall (lim : Z) (ops : list (S.op K V)),
    0 < lim ->
    C.run_new_safe K V keqb kzero vzero sizeOf hv lim ops = true ->
    grun keqb kzero vzero sizeOf hv (ginit lim) ops = map Ok (S.s2_run K V keqb vzero sizeOf lim [] ops).
Proof.
  intros K V keqb Hk kzero vzero sizeOf hv Hp lim ops Hl Hsafe. apply grun_new_ok; [exact Hl|].
  exact (C08.C08_lru_partial K V keqb Hk kzero vzero sizeOf hv Hp lim ops Hl Hsafe).
Qed.

Theorem lru_settled_source :
  forall (K V : Type) (keqb : K -> K -> bool),
    (forall a b, keqb a b = true <-> a = b) ->
  forall (kzero : K) (vzero : V) (sizeOf : V -> Z),
  forall (hv : H.variant), H.pop_no_siftup hv = true ->
  forall (lim : Z) (ops : list (S.op K V)),
    0 < lim ->
    S.settled K V keqb vzero sizeOf lim true [] ops = true ->
    grun keqb kzero vzero sizeOf hv (ginit lim) ops = map Ok (S.s2_run K V keqb vzero sizeOf lim [] ops).
Proof.
  intros K V keqb Hk kzero vzero sizeOf hv Hp lim ops Hl Hs. apply grun_new_ok; [exact Hl|].
  exact (C08.C08_lru_settled_partial K V keqb Hk kzero vzero sizeOf hv Hp lim ops Hl Hs).
Qed.

Theorem refines_S2_repaired_source :
  forall (K V : Type) (keqb : K -> K -> bool),
    (forall a b, keqb a b = true <-> a = b) ->
  forall (kzero : K) (vzero : V) (sizeOf : V -> Z),
  forall (lim : Z) (ops : list (S.op K V)),
    0 < lim ->
    grun keqb kzero vzero sizeOf H.repaired (ginit lim) ops = map Ok (S.s2_run K V keqb vzero sizeOf lim [] ops).
Proof.
  intros K V keqb Hk kzero vzero sizeOf lim ops Hl. apply grun_new_ok; [exact Hl|].
  exact (C08.C08_refines_S2_repaired K V keqb Hk kzero vzero sizeOf lim ops Hl).
Qed.
