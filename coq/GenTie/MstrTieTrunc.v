(* Trunc of mstr/mstr.go: model = generated function *)
From Coq Require Import ZArith List Bool Lia.
From Mds Require Import Common.FnRt GenTie.TieLib Gen.FnMstr Gen.MstrMasks GenTie.MstrTieBase.
Import ListNotations.
Local Open Scope Z_scope.

(* `n > 0 && s[n-1]&0xc0 == K`: the model's rendering of the short circuit is the generated one *)
Lemma guard_eq (s : list Z) (n K : Z) (f : Z -> Z -> bool) :
  (forall c, f n c = (n >? 0) && (Z.land c 192 =? K)) ->
  existsb (f n) MM.mask_probes = (n >? 0) && existsb (fun c => Z.land c 192 =? K) MM.mask_probes ->
  existsb (fun c => Z.land c 192 =? K) MM.mask_probes = true ->
  unb (if n >? 0 then bind (go_get s (n - 1)) (fun t => Ok (Z.land t 192 =? K)) else Ok false)
  = B.cond_res (B.str_at s (n - 1)) (f n) (existsb (f n) MM.mask_probes).
Proof.
  intros Hf He Hp. rewrite He, Hp, andb_true_r.
  pose proof (get_eq s (n - 1)) as G.
  destruct (n >? 0) eqn:E.
  - destruct (go_get s (n - 1)) as [c| |]; cbn [unb] in G; rewrite <- G; cbn [bind unb B.cond_res]; try reflexivity.
    rewrite Hf. reflexivity.
  - assert (P : B.str_at s (n - 1) = B.PanicIndex).
    { unfold B.str_at. replace (0 <=? n - 1) with false by lia. reflexivity. }
    rewrite P. reflexivity.
Qed.

Lemma Trunc_loop1_eq : forall gas f0 s n,
  unb (Trunc_loop1 f0 gas s n) = MM.trunc_back gas s n.
Proof.
  induction gas; intros; [reflexivity|].
  cbn [Trunc_loop1 MM.trunc_back]. unfold trunc_idx0, trunc_dec0.
  rewrite unb_bind, (guard_eq s n 128 trunc_for0); try reflexivity.
  - destruct (B.cond_res _ _ _) as [[|]| | |]; cbn [B.bind]; try reflexivity. apply IHgas.
  - unfold trunc_for0, MM.mask_probes. simpl. destruct (n >? 0); reflexivity.
Qed.

Lemma Trunc_loop1_mono : forall gas gas' f0 f0' s n, (gas <= gas')%nat ->
  res_le (Trunc_loop1 f0 gas s n) (Trunc_loop1 f0' gas' s n).
Proof.
  induction gas; intros; [apply res_le_oof|]. destruct gas'; [lia|]. simpl.
  mono. apply IHgas; lia.
Qed.

Lemma Trunc_eq s n fuel :
  unb (Trunc s n fuel) =
  if trunc_whole n (B.zlen s) then B.Ok s else
  B.bind (MM.trunc_back fuel s n) (fun n1 =>
  B.bind (B.cond_res (B.str_at s (trunc_idx1 n1)) (trunc_if1 n1) (existsb (trunc_if1 n1) MM.mask_probes)) (fun b =>
  let n2 := if b then trunc_dec1 n1 else n1 in B.slice_to s (trunc_hi n2))).
Proof.
  unfold Trunc, trunc_whole. change (B.zlen s) with (zlen s).
  case_if; [reflexivity|].
  rewrite unb_bind, Trunc_loop1_eq.
  destruct (MM.trunc_back fuel s n) as [n1| | |]; cbn [B.bind]; try reflexivity.
  unfold trunc_idx1, trunc_dec1, trunc_hi.
  rewrite unb_bind, (guard_eq s n1 192 trunc_if1); try reflexivity.
  - destruct (B.cond_res _ _ _) as [[|]| | |]; cbn [B.bind]; try reflexivity; apply substr_to.
  - unfold trunc_if1, MM.mask_probes. simpl. destruct (n1 >? 0); reflexivity.
Qed.

Lemma Trunc_mono s n fuel fuel' : (fuel <= fuel')%nat -> res_le (Trunc s n fuel) (Trunc s n fuel').
Proof. intros. unfold Trunc. mono. apply Trunc_loop1_mono; lia. Qed.

Theorem C20_trunc_is_source : forall s n fuel, (S (length s) <= fuel)%nat ->
  res_leB (MM.trunc s n) (unb (Trunc s n fuel)).
Proof.
  intros. unfold MM.trunc. rewrite <- Trunc_eq. apply unb_le, Trunc_mono. assumption.
Qed.

Print Assumptions C20_trunc_is_source.
