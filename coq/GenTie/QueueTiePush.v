(* Queue.Push of queue/queue.go: model = generated function (see QueueTieBase.v) *)
From Coq Require Import ZArith List Bool Lia.
From Mds Require Import Common.FnRt GenTie.TieLib Gen.FnQueue Gen.QueueIdx GenTie.QueueTieBase.
Import ListNotations.
Local Open Scope Z_scope.

Section Queue.
Context {T : Type}.
Variable zero : T.
Notation queue := (Q.queue T).
Notation vs := (@Q.vs T).
Notation head := (@Q.head T).
Notation qn := (@Q.n T).
Notation rot := (@rot T).
Notation app_or := (app_or zero).
Notation grow_eq := (grow_eq zero).

Theorem C07_push_is_source : forall (q : queue) (v : T) (c : Z),
  Push (vs q) (head q) (qn q) v rot (app_or c) = embf fields (Q.push Q.idw T zero q v c).
Proof.
  intros [l h n] v c. unfold Push, Q.push. cbn [Q.vs Q.head Q.n]. qunf.
  change (Q.zlen T l) with (zlen l).
  case_if.
  { rewrite set_eq. case_if; cbv zeta;
      match goal with |- context[Q.upd T l ?p v] => destruct (Q.upd T l p v) end; reflexivity. }
  unfold Q.rotate_home. cbn [Q.vs Q.head]. qunf.
  assert (K : forall l1 (h1 : Z),
    bind (app_or c l1 [v]) (fun '(w, w_spare) =>
      bind (go_sub_cap w w_spare 0 (zlen w + zlen w_spare)) (fun q_vs =>
        bind (go_set q_vs (zlen q_vs - 1) v) (fun q_vs0 => Ok (q_vs0, zlen q_vs - 1, n + 1))))
    = embf fields (match Q.append_cap T zero l1 v c with
                   | None => Q.BadOracle
                   | Some wbuf => Q.bind (Q.of_opt (Q.reslice T wbuf c c) Q.PIndex)
                                    (fun vs2 => Q.bind (Q.of_opt (Q.upd T vs2 (Q.zlen T vs2 - 1) v) Q.PIndex)
                                       (fun vs3 => Q.QOk {| Q.vs := vs3; Q.head := Q.zlen T vs2 - 1; Q.n := n + 1 |}))
                   end)).
  { intros l1 h1. unfold app_or, Q.append_cap. change (Q.zlen T l1) with (zlen l1).
    destruct (c >? zlen l1) eqn:E; [|reflexivity].
    destruct (grow_eq l1 v c E) as [G1 G2]. cbn [bind]. rewrite G1, G2. cbn [bind Q.bind Q.of_opt].
    rewrite set_eq. change (Q.zlen T) with (@zlen T).
    destruct (Q.upd T _ _ v); reflexivity. }
  case_if; cbn [bind].
  - unfold rot. destruct (Q.rotate_go T l (- h)) as [l1| | |]; cbn [embf bind Q.bind]; try reflexivity.
    apply (K l1 0).
  - apply (K l h).
Qed.

End Queue.

Print Assumptions C07_push_is_source.
