(* Reorder of heapq/heapq.go: model = generated function (see HeapqTieBase.v).

   The generated function stores the new comparison function first (q.cmp = cmp), then runs
   for i := len(q.data)/2; i >= 0; i-- { q.pushDown(i) } with that function; it returns
   (q.data, q.cmp, the calls of q.move).  The model's Reorder is heapify_loop over the generated
   start / continue / next expressions with a gas of len+2; the generated loop takes the caller's
   fuel both as its gas and as the fuel of every pushDown (which needs len+1: pushDown permutes, so
   the length stays what it was). *)
From Coq Require Import ZArith List Bool Lia Permutation.
From Mds Require Import Common.FnRt GenTie.TieLib Gen.FnHeapq Gen.HeapqIdx GenTie.HeapqTieBase GenTie.HeapqTieDown.
From Mds Require Heapq.HeapqProofs.
Import ListNotations.
Local Open Scope Z_scope.
Local Arguments Z.mul : simpl never.
Local Arguments Z.quot : simpl never.

Section Elem.
Context {T : Type}.
Implicit Types l : list T.
Variable cmp : T -> T -> Z.

Definition heapify_out (log : list (T * Z)) (r : list T * H.moves T) : res (list T * list (T * Z)) :=
  let '(l, m) := r in Ok (l, log ++ m).

Lemma Reorder_loop1_le : forall gas f0 l log i, (S (length l) <= f0)%nat ->
  res_le (bind (emb (H.heapify_loop T cmp heapify_continue_reorder heapify_next_reorder gas l i)) (heapify_out log))
         (bind (Reorder_loop1 f0 gas cmp l log i) (fun '(l', log', _) => Ok (l', log'))).
Proof.
  induction gas; intros f0 l log i Hf; [apply res_le_oof|].
  cbn [Reorder_loop1 H.heapify_loop].
  change (heapify_continue_reorder i) with (i >=? 0). change (heapify_next_reorder i) with (i - 1).
  destruct (i >=? 0) eqn:Ei; [|cbn [emb bind heapify_out]; rewrite app_nil_r; apply res_le_refl].
  assert (Hi : 0 <= i) by lia.
  destruct (HeapqProofs.push_down_total T cmp l i Hi) as (l1 & m1 & r & Hpd & Hp & _).
  pose proof (C05_pushDown_is_source cmp l i f0 Hf) as Hd. rewrite Hpd in Hd.
  destruct Hd as [Hd|Hd]; [discriminate|]. cbn [embf up_ret] in Hd. rewrite <- Hd.
  rewrite Hpd. cbn [H.bind bind].
  assert (Hl1 : length l1 = length l) by (apply Permutation_length; exact Hp).
  specialize (IHgas f0 l1 (log ++ m1) (i - 1) ltac:(lia)).
  destruct (H.heapify_loop T cmp heapify_continue_reorder heapify_next_reorder gas l1 (i - 1)) as [[l2 m2]| |];
    cbn [emb bind heapify_out H.bind] in *.
  - rewrite app_assoc. exact IHgas.
  - exact IHgas.
  - apply res_le_oof.
Qed.

Lemma Reorder_loop1_mono : forall gas gas' f0 l log i, (gas <= gas')%nat ->
  res_le (Reorder_loop1 f0 gas cmp l log i) (Reorder_loop1 f0 gas' cmp l log i).
Proof.
  induction gas; intros; [apply res_le_oof|]. destruct gas'; [lia|]. cbn [Reorder_loop1].
  mono. apply IHgas; lia.
Qed.

End Elem.

Section Queue.
Context {T : Type}.

Definition reorder_ret (r : H.queue T * H.moves T) : list T * (T -> T -> Z) * list (T * Z) :=
  let '(q, m) := r in (H.data q, H.qcmp q, m).

Theorem C05_Reorder_is_source : forall (q : H.queue T) (c : T -> T -> Z) (fuel : nat),
  (S (S (length (H.data q))) <= fuel)%nat ->
  res_le (embf reorder_ret (H.Reorder T q c)) (Reorder (H.data q) (H.qcmp q) c fuel).
Proof.
  intros q c fuel Hf. unfold Reorder, H.Reorder. unfold heapify_start_reorder.
  change (H.len (H.data q)) with (zlen (H.data q)).
  set (i0 := Z.quot (zlen (H.data q)) 2).
  set (gm := S (S (length (H.data q)))) in *.
  pose proof (Reorder_loop1_le c gm fuel (H.data q) [] i0 ltac:(lia)) as L.
  pose proof (Reorder_loop1_mono c gm fuel fuel (H.data q) [] i0 Hf) as M.
  destruct (H.heapify_loop T c heapify_continue_reorder heapify_next_reorder gm (H.data q) i0) as [[l m]| |];
    cbn [emb bind heapify_out H.bind embf reorder_ret app H.data H.qcmp] in *.
  - destruct L as [L|L]; [discriminate|].
    destruct (Reorder_loop1 fuel gm c (H.data q) [] i0) as [[[l' log'] i']| |]; cbn [bind] in L; try discriminate.
    inversion L; subst l' log'.
    destruct M as [M|M]; [discriminate|]. rewrite <- M. cbn [bind]. apply res_le_refl.
  - destruct L as [L|L]; [discriminate|].
    destruct (Reorder_loop1 fuel gm c (H.data q) [] i0) as [[[l' log'] i']| |]; cbn [bind] in L; try discriminate.
    destruct M as [M|M]; [discriminate|]. rewrite <- M. cbn [bind]. inversion L; subst. apply res_le_refl.
  - apply res_le_oof.
Qed.

End Queue.

Print Assumptions C05_Reorder_is_source.
