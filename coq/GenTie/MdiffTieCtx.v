(* Diff.AddContext of mdiff/mdiff.go: the model (Mdiff/MdiffModel.v: add_context = ac_loop over
   the generated definitions of Gen/MdiffIdx.v, at lines = byte strings) = the function generated
   from the whole body (Gen/FnMdiff.v).

   Representation.  `d.Chunks []*Chunk` is declared `distinct:Diff.Chunks` for the translator: the
   pointers it holds are taken to be pairwise distinct and non-nil (New allocates every chunk), so
   the list is represented by the records; `for i, c := range d.Chunks` binds c to record i and
   every store through c (c.Edits = ..., c.LStart -= ...) is written back at position i at once
   (three go_set per branch in Gen/FnMdiff.v); d.Chunks[i+1].LStart reads record i+1.  The slice
   fields Chunk.Edits, Edit.X, Edit.Y are declared `owned:`: held by value; the translator checks
   that only nil, a local list that is merely measured afterwards (pre, post) or the field's own
   value appended to / prepended to is stored there.  The model's chunks hold [edit] records with
   an [op]; [eenc]/[cenc] encode them as the generated records (Op = the byte op_code gives).

   The model walks the list of chunks still to do, with the list as it was on entry for the
   look-ahead; the generated code walks by index over the list it updates in place.  Equality for
   every input, with fuel above len(d.Chunks) and above n. *)
From Coq Require Import ZArith List Bool Lia ZifyBool.
From Mds Require Import Common.FnRt GenTie.TieLib Gen.MdiffIdx Gen.EditIdx Gen.FnMdiff GenTie.MdiffTieFind.
From Mds Require Mdiff.MdiffModel.
Import ListNotations.
Local Open Scope Z_scope.

Notation line := (list Z) (only parsing).

Definition eenc (e : EditLoop.edit line) : Edit line :=
  mk_Edit (EditLoop.op_code (EditLoop.eop e)) (EditLoop.X e) (EditLoop.Y e).

Definition cenc (c : M.chunk line) : Chunk :=
  mk_Chunk (map eenc (M.edits c)) (M.LStart c) (M.LEnd c) (M.RStart c) (M.REnd c).

Lemma get_mid {A B} (f : A -> B) (l1 l2 : list A) x :
  go_get (map f (l1 ++ x :: l2)) (Z.of_nat (length l1)) = Ok (f x).
Proof.
  unfold go_get, zlen. rewrite map_length, app_length. simpl length.
  replace ((0 <=? Z.of_nat (length l1)) && (Z.of_nat (length l1) <? Z.of_nat (length l1 + S (length l2)))) with true by lia.
  rewrite Nat2Z.id, map_app, nth_error_app2 by (rewrite map_length; lia).
  rewrite map_length, Nat.sub_diag. reflexivity.
Qed.

Lemma set_mid {A B} (f : A -> B) (l1 l2 : list A) x y :
  go_set (map f (l1 ++ x :: l2)) (Z.of_nat (length l1)) (f y) = Ok (map f (l1 ++ y :: l2)).
Proof.
  unfold go_set, zlen. rewrite map_length, app_length. simpl length.
  replace ((0 <=? Z.of_nat (length l1)) && (Z.of_nat (length l1) <? Z.of_nat (length l1 + S (length l2)))) with true by lia.
  rewrite Nat2Z.id. f_equal. induction l1; simpl; [reflexivity|]. f_equal. exact IHl1.
Qed.

Lemma get_next {A B} (f : A -> B) (l1 l2 : list A) x :
  go_get (map f (l1 ++ x :: l2)) (Z.of_nat (length l1) + 1)
  = match l2 with y :: _ => Ok (f y) | [] => Panic PIndex end.
Proof.
  rewrite go_get_zth. unfold EditLoop.zth.
  replace (Z.of_nat (length l1) + 1 <? 0) with false by lia.
  replace (Z.to_nat (Z.of_nat (length l1) + 1)) with (S (length l1)) by lia.
  rewrite map_app, nth_error_app2 by (rewrite map_length; lia).
  rewrite map_length. replace (S (length l1) - length l1)%nat with 1%nat by lia.
  destruct l2; reflexivity.
Qed.

Lemma zth_next {A} (l1 l2 : list A) x :
  EditLoop.zth (l1 ++ x :: l2) (Z.of_nat (length l1) + 1) = match l2 with y :: _ => Some y | [] => None end.
Proof.
  unfold EditLoop.zth. replace (Z.of_nat (length l1) + 1 <? 0) with false by lia.
  replace (Z.to_nat (Z.of_nat (length l1) + 1)) with (S (length l1)) by lia.
  rewrite nth_error_app2 by lia. replace (S (length l1) - length l1)%nat with 1%nat by lia.
  destruct l2; reflexivity.
Qed.

Section Ctx.
Variables L R : list line.

Lemma M_bind_assoc {A B C} (m : M.res A) (f : A -> M.res B) (g : B -> M.res C) :
  M.bind (M.bind m f) g = M.bind m (fun a => M.bind (f a) g).
Proof. destruct m; reflexivity. Qed.

Lemma M_bind_ext {A B} (m : M.res A) (f g : A -> M.res B) : (forall a, f a = g a) -> M.bind m f = M.bind m g.
Proof. intros H. destruct m; simpl; [apply H | reflexivity]. Qed.

Lemma ac_loop_eq : forall (todo : list (M.chunk line)) gas f0 (done' od : list (M.chunk line)) n prevEnd,
  length od = length done' -> (length todo < gas)%nat -> (Z.to_nat n < f0)%nat ->
  bind (AddContext_loop1 f0 gas L R n rev_ok (Z.of_nat (length (od ++ todo)))
          (map cenc (done' ++ todo)) prevEnd (Z.of_nat (length done')))
       (fun '(cs, _, _) => Ok cs)
  = memb (M.bind (M.ac_loop str_eqb true L R n (od ++ todo) todo (Z.of_nat (length done')) prevEnd)
                 (fun rest' => M.Ok (map cenc (done' ++ rest')))).
Proof.
  induction todo as [|c rest IH]; intros gas f0 done' od n prevEnd Hod Hg Hf; (destruct gas; [simpl in Hg; lia|]);
    cbn [AddContext_loop1 M.ac_loop].
  - rewrite !app_nil_r, Hod, Z.ltb_irrefl. cbn [M.bind memb bind]. rewrite app_nil_r. reflexivity.
  - replace (Z.of_nat (length done') <? Z.of_nat (length (od ++ c :: rest))) with true
      by (rewrite app_length; simpl length; lia).
    rewrite get_mid. cbn [bind].
    unfold ac_has_next, ac_next_idx, ac_next_default, ac_prev_next.
    change (M.len (od ++ c :: rest)) with (zlen (od ++ c :: rest)). change (M.len L) with (zlen L).
    assert (Hlen : zlen (map cenc (done' ++ c :: rest)) = zlen (od ++ c :: rest)).
    { unfold zlen. rewrite map_length, !app_length, Hod. reflexivity. }
    rewrite Hlen.
    rewrite get_next. rewrite <- Hod, zth_next, Hod.
    (* what follows the computation of nextStart, for a given nextStart *)
    assert (Hbody : forall nextStart,
      bind (bind (findContext L R (Chunk_LStart (cenc c)) (Chunk_LEnd (cenc c)) (Chunk_RStart (cenc c)) (Chunk_REnd (cenc c))
                    (Z.min n (Chunk_LStart (cenc c) - prevEnd)) (Z.min n (nextStart - Chunk_LEnd (cenc c))) rev_ok f0)
        (fun '(pre, post) =>
           let prevEnd0 := Chunk_LEnd (cenc c) in
           bind (if negb (zlen pre =? 0) then
                   let c0 := mk_Chunk ([mk_Edit 61 pre []] ++ Chunk_Edits (cenc c)) (Chunk_LStart (cenc c)) (Chunk_LEnd (cenc c)) (Chunk_RStart (cenc c)) (Chunk_REnd (cenc c)) in
                   bind (go_set (map cenc (done' ++ c :: rest)) (Z.of_nat (length done')) c0) (fun d_Chunks =>
                   let c1 := mk_Chunk (Chunk_Edits c0) (Chunk_LStart c0 - zlen pre) (Chunk_LEnd c0) (Chunk_RStart c0) (Chunk_REnd c0) in
                   bind (go_set d_Chunks (Z.of_nat (length done')) c1) (fun d_Chunks =>
                   let c2 := mk_Chunk (Chunk_Edits c1) (Chunk_LStart c1) (Chunk_LEnd c1) (Chunk_RStart c1 - zlen pre) (Chunk_REnd c1) in
                   bind (go_set d_Chunks (Z.of_nat (length done')) c2) (fun d_Chunks => Ok (d_Chunks, c2))))
                 else Ok (map cenc (done' ++ c :: rest), cenc c))
           (fun '(d_Chunks, c0) =>
           bind (if negb (zlen post =? 0) then
                   let c1 := mk_Chunk (Chunk_Edits c0 ++ [mk_Edit 61 post []]) (Chunk_LStart c0) (Chunk_LEnd c0) (Chunk_RStart c0) (Chunk_REnd c0) in
                   bind (go_set d_Chunks (Z.of_nat (length done')) c1) (fun d_Chunks =>
                   let c2 := mk_Chunk (Chunk_Edits c1) (Chunk_LStart c1) (Chunk_LEnd c1 + zlen post) (Chunk_RStart c1) (Chunk_REnd c1) in
                   bind (go_set d_Chunks (Z.of_nat (length done')) c2) (fun d_Chunks =>
                   let c3 := mk_Chunk (Chunk_Edits c2) (Chunk_LStart c2) (Chunk_LEnd c2) (Chunk_RStart c2) (Chunk_REnd c2 + zlen post) in
                   bind (go_set d_Chunks (Z.of_nat (length done')) c3) (fun d_Chunks => Ok (d_Chunks, c3))))
                 else Ok (d_Chunks, c0))
           (fun '(d_Chunks, _) =>
              AddContext_loop1 f0 gas L R n rev_ok (Z.of_nat (length (od ++ c :: rest))) d_Chunks prevEnd0 (Z.of_nat (length done') + 1)))))
        (fun '(cs, _, _) => Ok cs)
      = memb (M.bind (M.bind (M.ac_chunk str_eqb true L R n c prevEnd nextStart) (fun c' =>
                M.bind (M.ac_loop str_eqb true L R n (od ++ c :: rest) rest (Z.of_nat (length done') + 1) (M.LEnd c))
                       (fun rest' => M.Ok (c' :: rest'))))
               (fun rest' => M.Ok (map cenc (done' ++ rest'))))).
    { intros nextStart. unfold M.ac_chunk, ac_npre, ac_npost. cbv zeta.
      destruct c as [es ls le rs re].
      cbn [cenc Chunk_Edits Chunk_LStart Chunk_LEnd Chunk_RStart Chunk_REnd M.edits M.LStart M.LEnd M.RStart M.REnd].
      pose proof (C13_findContext_is_source L R (M.mkChunk es ls le rs re) (Z.min n (ls - prevEnd)) (Z.min n (nextStart - le)) f0
                    ltac:(lia) ltac:(lia)) as HF.
      cbn [M.LStart M.LEnd M.RStart M.REnd] in HF. rewrite HF. clear HF.
      destruct (M.find_context str_eqb L R (M.mkChunk es ls le rs re) (Z.min n (ls - prevEnd)) (Z.min n (nextStart - le))) as [[pre post]|k];
        [|reflexivity].
      cbn [memb bind M.bind fst snd].
      unfold ac_has_pre, ac_has_post, ac_pre_lstart, ac_pre_rstart, ac_post_lend, ac_post_rend.
      change (M.len pre) with (zlen pre). change (M.len post) with (zlen post).
      (* the chunk after the first and after the second update, as the model has them *)
      set (c1 := if negb (zlen pre =? 0) then M.mkChunk (M.emit_edit pre :: es) (ls - zlen pre) le (rs - zlen pre) re
                 else M.mkChunk es ls le rs re).
      assert (H1 : (if negb (zlen pre =? 0) then
                   bind (go_set (map cenc (done' ++ M.mkChunk es ls le rs re :: rest)) (Z.of_nat (length done'))
                           (mk_Chunk ([mk_Edit 61 pre []] ++ map eenc es) ls le rs re)) (fun d_Chunks =>
                   bind (go_set d_Chunks (Z.of_nat (length done')) (mk_Chunk ([mk_Edit 61 pre []] ++ map eenc es) (ls - zlen pre) le rs re)) (fun d_Chunks =>
                   bind (go_set d_Chunks (Z.of_nat (length done')) (mk_Chunk ([mk_Edit 61 pre []] ++ map eenc es) (ls - zlen pre) le (rs - zlen pre) re))
                        (fun d_Chunks => Ok (d_Chunks, mk_Chunk ([mk_Edit 61 pre []] ++ map eenc es) (ls - zlen pre) le (rs - zlen pre) re))))
                 else Ok (map cenc (done' ++ M.mkChunk es ls le rs re :: rest), cenc (M.mkChunk es ls le rs re)))
                = Ok (map cenc (done' ++ c1 :: rest), cenc c1)).
      { unfold c1. destruct (negb (zlen pre =? 0)); [|reflexivity].
        change (mk_Chunk ([mk_Edit 61 pre []] ++ map eenc es) ls le rs re) with (cenc (M.mkChunk (M.emit_edit pre :: es) ls le rs re)).
        rewrite set_mid. cbn [bind].
        change (mk_Chunk ([mk_Edit 61 pre []] ++ map eenc es) (ls - zlen pre) le rs re) with (cenc (M.mkChunk (M.emit_edit pre :: es) (ls - zlen pre) le rs re)).
        rewrite set_mid. cbn [bind].
        change (mk_Chunk ([mk_Edit 61 pre []] ++ map eenc es) (ls - zlen pre) le (rs - zlen pre) re) with (cenc (M.mkChunk (M.emit_edit pre :: es) (ls - zlen pre) le (rs - zlen pre) re)).
        rewrite set_mid. reflexivity. }
      cbn [Chunk_Edits Chunk_LStart Chunk_LEnd Chunk_RStart Chunk_REnd] in H1 |- *.
      rewrite H1. clear H1. cbn [bind].
      set (c2 := if negb (zlen post =? 0) then M.mkChunk (M.edits c1 ++ [M.emit_edit post]) (M.LStart c1) (M.LEnd c1 + zlen post) (M.RStart c1) (M.REnd c1 + zlen post)
                 else c1).
      assert (H2 : (if negb (zlen post =? 0) then
                   bind (go_set (map cenc (done' ++ c1 :: rest)) (Z.of_nat (length done'))
                           (mk_Chunk (Chunk_Edits (cenc c1) ++ [mk_Edit 61 post []]) (Chunk_LStart (cenc c1)) (Chunk_LEnd (cenc c1)) (Chunk_RStart (cenc c1)) (Chunk_REnd (cenc c1)))) (fun d_Chunks =>
                   bind (go_set d_Chunks (Z.of_nat (length done')) (mk_Chunk (Chunk_Edits (cenc c1) ++ [mk_Edit 61 post []]) (Chunk_LStart (cenc c1)) (Chunk_LEnd (cenc c1) + zlen post) (Chunk_RStart (cenc c1)) (Chunk_REnd (cenc c1)))) (fun d_Chunks =>
                   bind (go_set d_Chunks (Z.of_nat (length done')) (mk_Chunk (Chunk_Edits (cenc c1) ++ [mk_Edit 61 post []]) (Chunk_LStart (cenc c1)) (Chunk_LEnd (cenc c1) + zlen post) (Chunk_RStart (cenc c1)) (Chunk_REnd (cenc c1) + zlen post)))
                        (fun d_Chunks => Ok (d_Chunks, mk_Chunk (Chunk_Edits (cenc c1) ++ [mk_Edit 61 post []]) (Chunk_LStart (cenc c1)) (Chunk_LEnd (cenc c1) + zlen post) (Chunk_RStart (cenc c1)) (Chunk_REnd (cenc c1) + zlen post)))))
                 else Ok (map cenc (done' ++ c1 :: rest), cenc c1))
                = Ok (map cenc (done' ++ c2 :: rest), cenc c2)).
      { unfold c2. destruct (negb (zlen post =? 0)); [|reflexivity].
        assert (He : forall a b cc d, mk_Chunk (Chunk_Edits (cenc c1) ++ [mk_Edit 61 post []]) a b cc d
                                  = cenc (M.mkChunk (M.edits c1 ++ [M.emit_edit post]) a b cc d)).
        { intros. unfold cenc. cbn [M.edits M.LStart M.LEnd M.RStart M.REnd Chunk_Edits]. rewrite map_app. reflexivity. }
        rewrite !He. cbn [cenc Chunk_LStart Chunk_LEnd Chunk_RStart Chunk_REnd].
        fold (cenc c1).
        rewrite set_mid. cbn [bind]. rewrite set_mid. cbn [bind]. rewrite set_mid. reflexivity. }
      cbn [Chunk_Edits Chunk_LStart Chunk_LEnd Chunk_RStart Chunk_REnd] in H2 |- *.
      rewrite H2. clear H2. cbn [bind].
      (* the recursive call *)
      specialize (IH gas f0 (done' ++ [c2]) (od ++ [M.mkChunk es ls le rs re]) n le).
      replace (Z.of_nat (length (done' ++ [c2]))) with (Z.of_nat (length done') + 1) in IH by (rewrite app_length; simpl; lia).
      replace ((od ++ [M.mkChunk es ls le rs re]) ++ rest) with (od ++ M.mkChunk es ls le rs re :: rest) in IH
        by (rewrite <- app_assoc; reflexivity).
      replace ((done' ++ [c2]) ++ rest) with (done' ++ c2 :: rest) in IH by (rewrite <- app_assoc; reflexivity).
      rewrite IH by (try (rewrite !app_length, Hod; reflexivity); simpl in Hg; lia).
      f_equal. rewrite !M_bind_assoc.
      apply M_bind_ext. intros rest'. cbn [M.bind]. rewrite <- app_assoc. reflexivity. }
    destruct (Z.of_nat (length done') + 1 <? zlen (od ++ c :: rest)).
    + destruct rest as [|c2 rest2]; [reflexivity|]. cbn [bind M.bind]. apply Hbody.
    + cbn [bind M.bind]. apply Hbody.
Qed.

Theorem C13_AddContext_is_source : forall (cs : list (M.chunk line)) (n : Z) (fuel : nat),
  (length cs < fuel)%nat -> (Z.to_nat n < fuel)%nat ->
  AddContext L R (map cenc cs) n rev_ok fuel
  = memb (M.bind (M.add_context str_eqb L R n cs) (fun cs' => M.Ok (map cenc cs'))).
Proof.
  intros cs n fuel H1 H2. unfold AddContext, M.add_context, M.add_context_v, ac_skip, ac_prev_init.
  change (M.len cs) with (zlen cs).
  replace (zlen (map cenc cs)) with (zlen cs) by (unfold zlen; rewrite map_length; reflexivity).
  destruct ((n <=? 0) || (zlen cs =? 0)); [reflexivity|].
  cbv zeta.
  pose proof (ac_loop_eq cs fuel fuel [] [] n 1 eq_refl H1 H2) as H.
  cbn [app length] in H. change (Z.of_nat 0) with 0 in H.
  unfold zlen. rewrite <- H.
  destruct (AddContext_loop1 fuel fuel L R n rev_ok (Z.of_nat (length cs)) (map cenc cs) 1 0) as [[[d p] i]| |]; reflexivity.
Qed.
End Ctx.

Print Assumptions C13_AddContext_is_source.
