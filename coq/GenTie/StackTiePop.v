(* Stack.Pop of stack/stack.go: model = generated function (see StackTieBase.v) *)
From Coq Require Import ZArith List Bool Lia.
From Mds Require Import Gen.StackIdx Stack.StackModel Common.FnRt GenTie.TieLib GenTie.StackTieBase.
From Mds Require Gen.FnStack.
Import ListNotations.
Local Open Scope Z_scope.

Section Stack.
Context {T : Type}.
Variable zero : T.

Notation idx := (StackModel.idx T).
Notation mupd := (StackModel.upd T).
Notation reslice := (StackModel.reslice T).
Notation get_eq := (@get_eq T).
Notation set_eq := (@set_eq T).
Notation mupd_length := (@mupd_length T).

(* Pop: Peek(0), then (when ok) the zeroing store and the re-slice, in this order, nothing else.
   The generated result is (out, ok, s.list). *)
Theorem C10_stack_pop_is_source : forall (l : list T),
  FnStack.Pop l zero = emb (fun r => (fst (snd r), snd (snd r), fst r)) (pop T zero l).
Proof.
  intros l. unfold FnStack.Pop, pop. rewrite (C10_stack_peek_is_source zero).
  change pop_peek_arg with 0.
  destruct (peek T zero 0 l) as [[out ok]| |]; cbn [emb bind]; [|reflexivity|reflexivity].
  destruct ok; cbn [bind fst snd]; [|reflexivity].
  unfold pop_zero_idx. rewrite set_eq. change (StackModel.zlen T l) with (zlen l).
  destruct (mupd l (zlen l - 1) zero) as [l1|] eqn:E1; cbn [bind]; [|reflexivity].
  unfold go_sub, StackModel.reslice, pop_hi. change (StackModel.zlen T l1) with (zlen l1).
  assert (L : length l1 = length l) by (eapply mupd_length; exact E1).
  assert (P : (0 < length l)%nat).
  { unfold StackModel.upd in E1. change (StackModel.zlen T l) with (zlen l) in E1.
    destruct ((0 <=? zlen l - 1) && (zlen l - 1 <? zlen l)) eqn:E; [|discriminate].
    apply andb_true_iff in E. destruct E as [E _]. unfold zlen in E. lia. }
  assert (Z1 : zlen l1 = zlen l) by (unfold zlen; rewrite L; reflexivity).
  replace ((0 <=? 0) && (0 <=? zlen l1 - 1)) with true
    by (symmetry; apply andb_true_iff; split; [reflexivity | unfold zlen; lia]).
  replace ((0 <=? zlen l1 - 1) && (zlen l1 - 1 <=? zlen l1)) with true
    by (symmetry; apply andb_true_iff; unfold zlen; split; lia).
  replace (zlen l1 - 1 <=? zlen l1) with true by (symmetry; unfold zlen; lia).
  cbn [bind emb fst snd skipn]. rewrite Z.sub_0_r. reflexivity.
Qed.

End Stack.

Print Assumptions C10_stack_pop_is_source.
