(* mlink/mlink.go and the Cursor methods of mlink/list.go: model = generated function, for every
   heap and every cursor position (see MlinkTieBase.v).  Functions that only read the heap have a
   second part: the model's final state is the initial one. *)
From Coq Require Import ZArith List Bool Arith Lia.
From Mds Require Gen.MlinkFacts Gen.MlinkList.
From Mds Require Import Mlink.MlinkModel.
From Mds Require Import Common.FnRt Common.FnHeap GenTie.TieLib GenTie.MlinkTieBase.
Import ListNotations.
Local Open Scope Z_scope.

(* use a tie [L : gen = embf f m /\ final m (fun s => s = s0)] of a callee: rewrite the generated
   call, split on the model's result; its final state is s0 *)
Ltac mcall L m a :=
  let H1 := fresh "H" in let H2 := fresh "H" in let s' := fresh "s" in let k := fresh "k" in
  destruct L as [H1 H2]; rewrite H1; clear H1;
  destruct m as [a s'|k s'| |]; cbn [final] in H2; try subst s';
  cbn [embf bind MlinkModel.bind fst snd]; try fin.

Section Cursor.
Context {T : Type}.
Variable zero : T.
Notation heap := (MlinkModel.heap T).
Notation cst := (MlinkModel.cst T).

(* func (e *entry[T]) checkValid() *entry[T] *)
Theorem C10_mlink_checkValid_is_source : forall (e : nat) (h : heap) (p : nat),
  G.entry_checkValid (Some e) (henc h) = embf (fun a _ => Some a) (check_valid T e (h, p)) /\
  final (check_valid T e (h, p)) (fun s => s = (h, p)).
Proof.
  intros e h p. unfold G.entry_checkValid, check_valid, MlinkFacts.checkValid_cond, MlinkFacts.checkValid_ret.
  mread h e c E; [|split; fin].
  rewrite enc_nat_eqb. cbn [cenc G.entry_link]. rewrite dec_nat.
  destruct (go_peq (lenc (snd c)) (Some e)); split; fin.
Qed.

(* func (c *Cursor[T]) AtEnd() bool { return c.pred.checkValid().link == nil } *)
Theorem C10_mlink_atend_is_source : forall (h : heap) (p : nat),
  G.Cursor_AtEnd (Some p) (henc h) = embf (fun a _ => a) (cur_at_end T (h, p)) /\
  final (cur_at_end T (h, p)) (fun s => s = (h, p)).
Proof.
  intros h p. unfold G.Cursor_AtEnd, cur_at_end, checked. change (called MlinkList.atend_ncalls_check) with true.
  cbv iota. cbn [snd].
  mcall (C10_mlink_checkValid_is_source p h p) (check_valid T p (h, p)) e; try (split; fin).
  mread h e c E; [|split; fin].
  unfold MlinkList.atend_ret. rewrite enc_null_eqb. split; fin.
Qed.

(* func (c *Cursor[T]) Get() T *)
Theorem C10_mlink_get_is_source : forall (h : heap) (p : nat),
  G.Cursor_Get (Some p) (henc h) zero = embf (fun a _ => a) (cur_get T zero (h, p)) /\
  final (cur_get T zero (h, p)) (fun s => s = (h, p)).
Proof.
  intros h p. unfold G.Cursor_Get, cur_get, checked. change (called MlinkList.get_ncalls_check) with true.
  cbv iota.
  mcall (C10_mlink_atend_is_source h p) (cur_at_end T (h, p)) ae; try (split; fin).
  unfold MlinkList.get_atend. destruct ae; [split; fin|]. cbn [snd].
  mcall (C10_mlink_checkValid_is_source p h p) (check_valid T p (h, p)) e; try (split; fin).
  mread h e c E; [|split; fin].
  unfold deref. cbn [cenc G.entry_link].
  destruct (snd c) as [|t]; cbn [lenc]; [split; fin|]. cbn [MlinkModel.bind].
  mread h t ct Et; split; fin.
Qed.

(* func (c *Cursor[T]) Next() bool: assigns c.pred *)
Theorem C10_mlink_next_is_source : forall (h : heap) (p : nat),
  G.Cursor_Next (Some p) (henc h) = embf (fun a s => (a, Some (snd s))) (cur_next T (h, p)) /\
  final (cur_next T (h, p)) (fun s => fst s = h).
Proof.
  intros h p. unfold G.Cursor_Next, cur_next.
  mcall (C10_mlink_atend_is_source h p) (cur_at_end T (h, p)) ae; try (split; fin).
  unfold MlinkList.next_atend, MlinkList.next_ret_end. destruct ae; [split; fin|]. cbn [snd].
  mread h p cp E; [|split; fin].
  unfold MlinkList.next_newpred. rewrite dec_enc. unfold deref. cbn [cenc G.entry_link].
  destruct (snd cp) as [|p']; cbn [lenc MlinkModel.bind set_pred fst snd].
  { (* c.pred = nil (cannot happen after AtEnd = false): the second AtEnd dereferences it *)
    split; fin. }
  mcall (C10_mlink_atend_is_source h p') (cur_at_end T (h, p')) ae2; try (split; fin).
  all: try (unfold MlinkList.next_ret; split; fin).
Qed.

End Cursor.

Print Assumptions C10_mlink_checkValid_is_source.
Print Assumptions C10_mlink_atend_is_source.
Print Assumptions C10_mlink_get_is_source.
Print Assumptions C10_mlink_next_is_source.
