(* C10 (mlink.Queue) at source level: a state machine whose operations CALL THE FUNCTIONS GENERATED
   from mlink/queue.go (over those generated from list.go and mlink.go; Gen/FnMlink.v, heap backend)
   is first-in first-out over whole histories.

   [gqstep zero g o] : state g = (q.back, q.size, heap): the Cursor record mk_Cursor pred, the int,
   and the generated heap of entry cells whose address 0 is the sentinel of q.list (q.list = Some 0,
   the address of the embedded List: how NewQueue lays a queue out on the empty heap); the model's
   qop type (Each with any pure callback) and out type.
     QAdd QPop QClear        G.Queue_Add / Queue_Pop / Queue_Clear: they return the fields they assign
                             and the new heap
     QFront QPeek QIsEmpty   read only
     QEach f                 G.Queue_Each with the state-threading callback (f v, visited ++ [v]): the
                             heap backend's stateful callbacks make the visited sequence the result
     QLen                    G.Queue_Len
     fuel: heap size + 2.  A panic with the message of a panic statement / Go's nil dereference
     is the output RPanic kind ([unpk]), anything else RBad, fuel exhaustion RHang; after a failed
     call the state is the one before the call.
   Two initial states: [gq_new] = what the GENERATED NewQueue returns on the empty heap, and
   [gq_zero] = the zero Queue (back.pred = nil) with its embedded sentinel at address 0. *)
From Coq Require Import ZArith List Bool Arith Lia.
From Coq Require String.
From Mds Require Gen.MlinkFacts Gen.MlinkList Gen.MlinkQueue.
From Mds Require Import Mlink.MlinkModel.
From Mds Require Import Common.FnRt Common.FnHeap GenTie.TieLib GenTie.MlinkTieBase GenTie.MlinkTieQueue.
From Mds Require Mlink.MlinkSpec Mlink.MlinkQueueProofs.
Import ListNotations.
Local Open Scope Z_scope.

Module MSp := MlinkSpec.
Module MQ := MlinkQueueProofs.

Section Src.
Context {T : Type}.
Variable zero : T.
Notation qstate := (MlinkModel.qstate T).
Notation out := (MlinkModel.out T).
Notation gq := (G.Cursor * Z * list (G.entry T))%type.

Definition unpk (k : panic_kind) : out :=
  match k with
  | PMsg m =>
    if String.eqb m "invalid cursor" then RPanic InvalidCursor
    else if String.eqb m "index out of range" then RPanic IndexRange
    else if String.eqb m "invalid memory address or nil pointer dereference" then RPanic NilDeref
    else RBad
  | _ => RBad
  end.

Lemma unpk_pk (k : pkind) : unpk (pk k) = RPanic k.
Proof. destruct k; reflexivity. Qed.

Definition gfin {A} (g : gq) (r : res A) (f : A -> gq * out) : gq * out :=
  match r with
  | Ok a => f a
  | Panic k => (g, unpk k)
  | FnRt.OutOfFuel => (g, RHang)
  end.

Definition gqstep (g : gq) (o : qop T) : gq * out :=
  let '(back, size, h) := g in
  let fuel := S (S (length h)) in
  match o with
  | QAdd v => gfin g (G.Queue_Add (Some O) back size v h fuel) (fun r => (r, RUnit))
  | QPop => gfin g (G.Queue_Pop (Some O) back size h zero)
                 (fun '(v, b, back', size', h') => ((back', size', h'), RValBool v b))
  | QFront => gfin g (G.Queue_Front (Some O) h zero fuel) (fun v => (g, RVal v))
  | QPeek n => gfin g (G.Queue_Peek (Some O) n h zero fuel) (fun vb => (g, RValBool (fst vb) (snd vb)))
  | QEach f => gfin g (G.Queue_Each (Some O) (fun s v => Ok (f v, s ++ [v])) [] h zero fuel) (fun vs => (g, RList vs))
  | QClear => gfin g (G.Queue_Clear (Some O) back size h fuel) (fun r => (r, RUnit))
  | QLen => (g, RInt (G.Queue_Len size))
  | QIsEmpty => gfin g (G.Queue_IsEmpty (Some O) h) (fun b => (g, RBool b))
  end.

Fixpoint gqrun (g : gq) (ops : list (qop T)) : list out :=
  match ops with
  | [] => []
  | o :: ops' => let (g', r) := gqstep g o in r :: gqrun g' ops'
  end.

(* NewQueue() as generated, on the empty heap; and the zero Queue *)
Definition gq_new : gq := let '(_, back, size, h) := G.NewQueue (T := T) [] zero in (back, size, h).
Definition gq_zero : gq := (G.mk_Cursor None, 0, [G.mk_entry zero None]).

Lemma gq_new_eq : gq_new = qfields (new_queue T zero).
Proof. unfold gq_new. rewrite C10_mlink_newqueue_is_source. reflexivity. Qed.
Lemma gq_zero_eq : gq_zero = qfields (zero_queue T zero).
Proof. reflexivity. Qed.

(* ---- one step, through the model's invariant QI ---- *)
Definition okout (r : out) : Prop := match r with RPanic _ | RHang | RBad => False | _ => True end.

Lemma qemb_ok {B} (f : qstate -> out -> res B) (x : qstate * out) (g : res B) :
  res_le (qemb f x) g -> okout (snd x) -> (forall q, f q (snd x) <> FnRt.OutOfFuel) -> g = f (fst x) (snd x).
Proof.
  intros L K N. unfold qemb in L. destruct x as [q r]. cbn [fst snd] in *.
  destruct r; cbn in K; try contradiction; (destruct L as [L|L]; [exfalso; exact (N q L) | symmetry; exact L]).
Qed.

Lemma qemb_panic {B} (f : qstate -> out -> res B) (x : qstate * out) (g : res B) (k : pkind) :
  res_le (qemb f x) g -> snd x = RPanic k -> g = Panic (pk k).
Proof.
  intros L E. unfold qemb in L. rewrite E in L. destruct L as [L|L]; [discriminate | symmetry; exact L].
Qed.

Theorem gqstep_sim : forall (q : qstate) (l : list T) (o : qop T), MQ.QI T zero q l ->
  snd (gqstep (qfields q) o) = snd (MSp.aqstep T zero l o) /\
  exists q', fst (gqstep (qfields q) o) = qfields q' /\ MQ.QI T zero q' (fst (MSp.aqstep T zero l o)).
Proof.
  intros q l o HQ. destruct (MQ.qstep_sim T zero q l o HQ) as [HQ' Ho].
  unfold qfields. destruct o; cbn [gqstep MSp.aqstep fst snd] in *; rewrite ?henc_length.
  - (* Add *)
    pose proof (C10_mlink_qadd_is_source v q (S (S (length (qheap T q)))) ltac:(lia)) as L.
    apply qemb_ok in L; [|change (q_add T v q) with (qstep T zero q (QAdd v)); rewrite Ho; exact I
                         |change (q_add T v q) with (qstep T zero q (QAdd v)); rewrite Ho; discriminate].
    change (q_add T v q) with (qstep T zero q (QAdd v)) in L. rewrite Ho in L. rewrite L. cbn [on_unit gfin fst snd].
    split; [reflexivity|]. eexists; split; [reflexivity | exact HQ'].
  - (* Pop *)
    assert (L : res_le (qemb (on_pop (T := T)) (q_pop T zero q)) (G.Queue_Pop (Some O) (qback_c q) (qsize T q) (henc (qheap T q)) zero))
      by (right; symmetry; apply C10_mlink_qpop_is_source).
    change (q_pop T zero q) with (qstep T zero q QPop) in L.
    assert (S : exists v b, snd (qstep T zero q QPop) = RValBool v b).
    { rewrite Ho. destruct l; eexists _, _; reflexivity. }
    destruct S as [v [b S]].
    apply qemb_ok in L; [|rewrite S; exact I|rewrite S; discriminate].
    rewrite S in L. rewrite L. cbn [on_pop gfin fst snd]. rewrite <- Ho, S.
    split; [reflexivity|]. eexists; split; [reflexivity | exact HQ'].
  - (* Front *)
    pose proof (C10_mlink_qfront_is_source zero q (S (S (length (qheap T q)))) ltac:(lia)) as L.
    apply qemb_ok in L; [|rewrite Ho; exact I|rewrite Ho; discriminate].
    rewrite Ho in L. rewrite L. cbn [gfin fst snd].
    split; [reflexivity|]. exists q; split; [reflexivity | exact HQ].
  - (* Peek *)
    pose proof (C10_mlink_qpeek_is_source zero n q (S (S (length (qheap T q)))) ltac:(lia)) as L.
    unfold MSp.apeek in *. destruct (n <? 0).
    + apply (qemb_panic _ _ _ IndexRange) in L; [|exact Ho]. rewrite L. cbn [gfin snd fst]. rewrite unpk_pk.
      split; [reflexivity|]. exists q; split; [reflexivity | exact HQ].
    + destruct (n <? Z.of_nat (length l));
        (apply qemb_ok in L; [|rewrite Ho; exact I|rewrite Ho; discriminate]);
        rewrite Ho in L; rewrite L; cbn [gfin fst snd];
        (split; [reflexivity|]); exists q; (split; [reflexivity | exact HQ]).
  - (* Each *)
    pose proof (C10_mlink_qeach_is_source zero f q (S (S (length (qheap T q)))) ltac:(lia)) as L.
    apply qemb_ok in L; [|rewrite Ho; exact I|rewrite Ho; discriminate].
    rewrite Ho in L. rewrite L. cbn [gfin fst snd].
    split; [reflexivity|]. exists q; split; [reflexivity | exact HQ].
  - (* Clear *)
    pose proof (C10_mlink_qclear_is_source zero q (S (S (length (qheap T q)))) ltac:(lia)) as L.
    apply qemb_ok in L; [|rewrite Ho; exact I|rewrite Ho; discriminate].
    rewrite Ho in L. rewrite L. cbn [on_unit gfin fst snd].
    split; [reflexivity|]. eexists; split; [reflexivity | exact HQ'].
  - (* Len *)
    rewrite (C10_mlink_qlen_is_source zero q) in Ho. cbn [snd] in *. rewrite Ho.
    split; [reflexivity|]. exists q; split; [reflexivity | exact HQ].
  - (* IsEmpty *)
    assert (L : res_le (qemb (fun _ o => match o with RBool b => Ok b | _ => other end) (qstep T zero q QIsEmpty))
                       (G.Queue_IsEmpty (Some O) (henc (qheap T q))))
      by (right; symmetry; apply (C10_mlink_qisempty_is_source zero)).
    apply qemb_ok in L; [|rewrite Ho; exact I|rewrite Ho; discriminate].
    rewrite Ho in L. rewrite L. cbn [gfin fst snd].
    split; [reflexivity|]. exists q; split; [reflexivity | exact HQ].
Qed.

Theorem gqrun_sim : forall (ops : list (qop T)) (q : qstate) (l : list T), MQ.QI T zero q l ->
  gqrun (qfields q) ops = MSp.aqrun T zero l ops.
Proof.
  induction ops as [|o ops IH]; intros q l HQ; [reflexivity|]. cbn [gqrun MSp.aqrun].
  destruct (gqstep_sim q l o HQ) as [So [q' [Eq HQ']]].
  destruct (gqstep (qfields q) o) as [g' r]. destruct (MSp.aqstep T zero l o) as [l' r']. cbn [fst snd] in *.
  subst r' g'. f_equal. apply IH. exact HQ'.
Qed.

Theorem queue_fifo_source : forall ops : list (qop T),
  gqrun gq_new ops = MSp.aqrun T zero [] ops /\ gqrun gq_zero ops = MSp.aqrun T zero [] ops.
Proof.
  intros ops. rewrite gq_new_eq, gq_zero_eq. split; apply gqrun_sim; [apply MQ.QI_new | apply MQ.QI_zero].
Qed.

End Src.

(* composition with C10_queue_fifo: on every history the generated functions answer exactly as the model *)
From Mds Require Props.C10_mlink.

Theorem queue_run_is_source : forall (T : Type) (zero : T) (ops : list (qop T)),
  gqrun zero (gq_new zero) ops = qrun T zero (new_queue T zero) ops /\
  gqrun zero (gq_zero zero) ops = qrun T zero (zero_queue T zero) ops.
Proof.
  intros T zero ops. destruct (queue_fifo_source zero ops) as [A B].
  destruct (C10_mlink.C10_queue_fifo T zero ops) as [A' B']. rewrite A, B, A', B'. split; reflexivity.
Qed.
