(* omap ties, writers: Map.Set, Map.Delete, Map.Clear (Gen/FnOmap.v) given the generated stree
   methods Tree.Replace / Tree.Remove / Tree.Clear (OmapTieBase.v): the model's mset / mdelete /
   mclear succeed with (m', answer) and the generated function returns that answer and a Tree
   object that stands for m' (osim re-established: scalar fields, tree-shaped region, initial heap
   untouched, refinement of a sorted list).  Composed from C01_replace_is_source,
   C01_tree_remove_is_source, C01_clear_is_source and the model's no-failure lemmas. *)
From Coq Require Import ZArith List Bool Arith Lia.
From Mds Require Import Common.FnRt Common.FnHeap GenTie.TieLib GenTie.StreeTieBase GenTie.StreeSep
  GenTie.StreeTieMutField GenTie.StreeTieMutTree GenTie.StreeSource GenTie.StreeSourceSim GenTie.OmapTieBase.
From Mds Require Gen.FnOmap Omap.OmapModel Gen.OmapConst.
Import ListNotations.
Local Open Scope Z_scope.

Section OmapWrite.
Context {K V : Type}.
Variable kcmp : K -> K -> Z.
Hypothesis HK : SP.total_preorder kcmp.
Variable limit : Z -> Z -> Z.
Variable zk : K.
Variable zv : V.
Variable b : Z.
Variable h0 : list (G.node (K * V)).
Notation kv := (K * V)%type.
Notation kvcmp := (OM.kvcmp K V kcmp).
Notation zkv := (OM.zkv K V zk zv).
Notation osim := (osim kcmp b h0).

Lemma g_mut_upd (st st' : gst kv) g ok : g_mut st g = (st', GBool ok) -> g_upd g = Ok (ok, st').
Proof.
  unfold g_mut, g_upd. destruct g as [[[[[ok' rt] sz] mx] h]|k|]; cbn [bind]; intros E; inversion E; reflexivity.
Qed.

Lemma set_tie (st : gst kv) (t : SM.Tree kv) (k : K) (v : V) :
  osim false st (Some t) ->
  exists t' bb st', OM.mset K V kcmp limit (Some t) k v = SM.Ok (Some t', bb) /\
    O.Set_ st k v (g_Replace kcmp limit zk zv b) = Ok (bb, st') /\ osim false st' (Some t').
Proof.
  intros [_ [Hs [l Hr]]]. pose proof (@kv_preorder K V kcmp HK) as HP.
  destruct (PH.Replace_ok kv kvcmp HP limit t l (k, v) Hr) as [t' [E [Hr' _]]].
  pose proof (rel_count kvcmp t l Hr) as Hc.
  destruct Hs as [Esz [Emx [Hb [F [R [HF Fr]]]]]].
  pose proof (C01_replace_is_source kvcmp limit zkv t (g_heap st) (g_root st) F (k, v) (fuel_for (g_size st)) R
                ltac:(rewrite Esz; unfold fuel_for, OM.kv in *; lia)) as Tie.
  unfold OM.kv in *. rewrite E, Hb, <- Esz, <- Emx in Tie.
  destruct (sim_mut b h0 st t t' _ F _ R HF Fr Hb Tie) as [st' [Eg Hs']].
  exists t', (snd (SP.s_insert kvcmp true (k, v) l)), st'. split; [|split].
  - unfold OM.mset, OM.kv. rewrite E. reflexivity.
  - unfold O.Set_, g_Replace, to_pair. cbn [O.KV_Key O.KV_Value]. apply (g_mut_upd st). exact Eg.
  - split; [reflexivity|]. split; [exact Hs'|]. eexists. exact Hr'.
Qed.

Lemma delete_tie (nil : bool) (st : gst kv) (m : OM.omap K V) (k : K) :
  osim nil st m ->
  exists m' bb st', OM.mdelete K V kcmp zv m k = SM.Ok (m', bb) /\
    O.Delete st k nil (g_Remove kcmp zk zv b) zv = Ok (bb, st') /\ osim nil st' m'.
Proof.
  destruct m as [t|]; cbn [OmapTieBase.osim].
  - intros [-> [Hs [l Hr]]]. pose proof (@kv_preorder K V kcmp HK) as HP.
    destruct (PH.Remove_ok kv kvcmp HP t l (k, zv) Hr) as [t' [E [Hr' _]]].
    pose proof (rel_count kvcmp t l Hr) as Hc.
    destruct Hs as [Esz [Emx [Hb [F [R [HF Fr]]]]]].
    pose proof (C01_tree_remove_is_source kvcmp zkv t (g_heap st) (g_root st) F (k, zv) (fuel_for (g_size st)) R
                  ltac:(rewrite Esz; unfold fuel_for, OM.kv in *; lia)
                  ltac:(rewrite Esz; unfold fuel_for, OM.kv in *; lia)) as Tie.
    unfold OM.kv in *. rewrite E, Hb, <- Esz, <- Emx in Tie.
    destruct (sim_mut b h0 st t t' _ F _ R HF Fr Hb Tie) as [st' [Eg Hs']].
    exists (Some t'), (snd (SP.s_remove kvcmp (k, zv) l)), st'. split; [|split].
    + unfold OM.mdelete, OM.kv. rewrite E. reflexivity.
    + unfold O.Delete, g_Remove, to_pair. cbn [O.KV_Key O.KV_Value]. apply (g_mut_upd st). exact Eg.
    + split; [reflexivity|]. split; [exact Hs'|]. eexists. exact Hr'.
  - intros ->. exists None, false, st. split; [reflexivity|]. split; reflexivity.
Qed.

Lemma clear_tie (nil : bool) (st : gst kv) (m : OM.omap K V) :
  osim nil st m ->
  exists st', O.Clear st nil g_Clear = Ok st' /\ osim nil st' (OM.mclear K V m).
Proof.
  destruct m as [t|]; cbn [OmapTieBase.osim OM.mclear].
  - intros [-> [Hs _]]. destruct Hs as [Esz [Emx [Hb [F [R [HF Fr]]]]]].
    unfold O.Clear, g_Clear. cbn [negb]. rewrite Esz, Emx. unfold OM.kv in *.
    destruct (C01_clear_is_source t (g_heap st) (g_root st)) as [a' [E [R' B']]]. rewrite E.
    eexists. split; [reflexivity|]. split; [reflexivity|]. split.
    + unfold sim. cbn [g_heap g_root g_size g_max]. split; [reflexivity|]. split; [reflexivity|].
      split; [congruence|]. exists []. split; [exact R'|]. split; [intros k0 []|exact Fr].
    + exists []. apply PH.Clear_ok.
  - intros ->. exists st. split; reflexivity.
Qed.

End OmapWrite.
