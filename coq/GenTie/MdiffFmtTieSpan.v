(* mdiff/format.go: dspan and uspan.  The functions generated from the whole bodies (the test
   end-start == 1, strconv.Itoa, fmt.Sprintf with its literal format interpreted at translation
   time) equal the model's range spellings, byte for byte, for ALL integers. *)
From Coq Require Import ZArith NArith List Bool Lia.
From Mds Require Import Mdiff.FormatModel Gen.MdiffSpan.
From Mds Require Import Common.FnRt Common.FnHeap Common.FnText GenTie.TieLib GenTie.MdiffFmtTieBase.
Import ListNotations.
Local Open Scope Z_scope.

Lemma C14_dspan_is_source : forall s e, G.dspan s e = zb (dspan s e).
Proof.
  intros s e. unfold G.dspan, dspan, dspan_bare, dspan_single, dspan_lo, dspan_hi.
  case_if.
  - apply go_itoa_is_model.
  - cbn [go_sprint flat_map go_fval_text]. rewrite !go_itoa_is_model, !zb_app, app_nil_r. reflexivity.
Qed.

(* the source as it stands: the variant [pinned] (F6: an empty range is named by the following line) *)
Lemma C14_uspan_is_source : forall side s e, G.uspan (zb side) s e = zb (uspan pinned side s e).
Proof.
  intros side s e. unfold G.uspan, uspan, uspan_first_v, uspan_bare, uspan_single, uspan_first, uspan_count.
  cbn [uspan_empty_names_next_line pinned].
  case_if.
  - rewrite go_itoa_is_model, zb_app. reflexivity.
  - cbn [go_sprint flat_map go_fval_text]. rewrite !go_itoa_is_model, !zb_app, app_nil_r. reflexivity.
Qed.

Print Assumptions C14_dspan_is_source.
Print Assumptions C14_uspan_is_source.
