(* mdiff/format.go: Normal.  The function generated from the whole body (the range over the chunk
   pointers, lpos/rpos, the switch on e.Op with its four cases, every Fprintf with its literal
   format, the calls of dspan and writeLines) writes exactly the model's [normal cs] into the
   sink and returns nil, for every chunk list held in the heap. *)
From Coq Require Import ZArith NArith List Bool Lia.
From Mds Require Import Mdiff.FormatModel Gen.MdiffSpan.
From Mds Require Import Common.FnRt Common.FnHeap Common.FnText GenTie.TieLib GenTie.MdiffFmtTieBase
  GenTie.MdiffFmtTieSpan GenTie.MdiffFmtTieLines.
Import ListNotations.
Local Open Scope Z_scope.

Section Sink.
Variable cnt : sink -> list Z -> Z.
Variable er : sink -> list Z -> go_xerr.
Notation W := (sink_write cnt er).

Ltac bytes_eq :=
  cbn [go_sprint flat_map go_fval_text];
  repeat first [rewrite join_lines_app | rewrite join_lines_cons | rewrite zb_app | rewrite app_nil_r | rewrite go_itoa_is_model];
  rewrite <- ?app_assoc; reflexivity.

Lemma normal_edits_loop_ok fuel : forall rest pre gas w lpos rpos,
  (length rest < gas)%nat -> Forall (edit_fuel fuel) rest ->
  exists lp rp,
  G.Normal_loop2 fuel gas (zlen (pre ++ rest)) (map eenc (pre ++ rest)) W w lpos rpos (zlen pre)
  = Ok (w ++ zb (join_lines (normal_edits rest lpos rpos)), lp, rp, zlen (pre ++ rest)).
Proof.
  induction rest as [|e rest IH]; intros pre gas w lpos rpos Hg Hf; (destruct gas as [|gas]; [simpl in Hg; lia|]).
  - exists lpos, rpos. cbn [G.Normal_loop2]. rewrite app_nil_r, ltb_zlen_end.
    cbn [normal_edits join_lines flat_map zb map]. rewrite app_nil_r. reflexivity.
  - inversion Hf as [|e' r' [HX HY] Hr]; subst.
    cbn [G.Normal_loop2]. rewrite ltb_zlen_mid, go_get_map_mid. cbn [bind].
    rewrite <- (zlen_snoc pre e), (snoc_assoc pre e rest).
    destruct e as [o x y]. cbn [eop X Y] in HX, HY.
    destruct o; cbn [eenc G.Edit_Op G.Edit_X G.Edit_Y eop X Y];
      match goal with |- context[op_code ?o] => let v := eval vm_compute in (op_code o) in change (op_code o) with v end;
      cbv zeta; cbn [Z.eqb Pos.eqb bind sink_write].
    + (* Drop *)
      rewrite C14_dspan_is_source, str_lt, C14_writeLines_is_source by exact HX. cbn [bind].
      rewrite !zlen_map.
      edestruct (IH (pre ++ [mkEdit Drop x y]) gas) as (lp & rp & E); [simpl in Hg; lia | exact Hr |].
      exists lp, rp. rewrite E. f_equal. f_equal. f_equal. f_equal.
      cbn [normal_edits eop X Y].
      unfold normal_drop_lo, normal_drop_hi, normal_drop_target, normal_drop_lpos.
      change (go_str "d") with (zb [100%N]). change [10] with (zb [10%N]).
      bytes_eq.
    + (* Emit *)
      rewrite !zlen_map.
      edestruct (IH (pre ++ [mkEdit Emit x y]) gas) as (lp & rp & E); [simpl in Hg; lia | exact Hr |].
      exists lp, rp. rewrite E. reflexivity.
    + (* Copy *)
      rewrite C14_dspan_is_source, str_gt, C14_writeLines_is_source by exact HY. cbn [bind].
      rewrite !zlen_map.
      edestruct (IH (pre ++ [mkEdit Copy x y]) gas) as (lp & rp & E); [simpl in Hg; lia | exact Hr |].
      exists lp, rp. rewrite E. f_equal. f_equal. f_equal. f_equal.
      cbn [normal_edits eop X Y].
      unfold normal_copy_lo, normal_copy_hi, normal_copy_target, normal_copy_rpos.
      change (go_str "a") with (zb [97%N]). change [10] with (zb [10%N]).
      bytes_eq.
    + (* Replace *)
      rewrite !C14_dspan_is_source, str_lt, C14_writeLines_is_source by exact HX. cbn [bind sink_write].
      rewrite str_gt, C14_writeLines_is_source by exact HY. cbn [bind].
      rewrite !zlen_map.
      edestruct (IH (pre ++ [mkEdit Replace x y]) gas) as (lp & rp & E); [simpl in Hg; lia | exact Hr |].
      exists lp, rp. rewrite E. f_equal. f_equal. f_equal. f_equal.
      cbn [normal_edits eop X Y].
      unfold normal_repl_llo, normal_repl_lhi, normal_repl_rlo, normal_repl_rhi, normal_repl_lpos, normal_repl_rpos.
      change (go_str "c") with (zb [99%N]). change [10] with (zb [10%N]). rewrite str_sep.
      bytes_eq.
Qed.

Lemma normal_chunks_loop_ok fuel h : forall rest pre ads gas w,
  (length rest < gas)%nat -> Forall (chunk_fuel fuel) rest ->
  cells h ads (pre ++ rest) ->
  G.Normal_loop1 fuel gas ads (zlen ads) W h w (zlen pre)
  = Ok (w ++ zb (join_lines (normal_lines rest)), zlen ads).
Proof.
  induction rest as [|c rest IH]; intros pre ads gas w Hg Hf Hc; (destruct gas as [|gas]; [simpl in Hg; lia|]).
  - rewrite app_nil_r in Hc. cbn [G.Normal_loop1].
    replace (zlen pre) with (zlen ads) by (unfold zlen; rewrite (cells_length _ _ _ Hc); reflexivity).
    rewrite ltb_zlen_end. cbn [normal_lines flat_map join_lines zb map]. rewrite app_nil_r. reflexivity.
  - inversion Hf as [|c' r' [HE HEs] Hr]; subst.
    destruct (cells_app_inv _ _ _ _ _ Hc) as (a1 & a & a2 & -> & H1 & Ha & H2 & Hl).
    cbn [G.Normal_loop1].
    replace (zlen pre) with (zlen a1) by (unfold zlen; rewrite Hl; reflexivity).
    rewrite ltb_zlen_mid, go_get_mid. cbn [bind]. rewrite Ha. cbn [bind]. cbv zeta.
    cbn [henc G.Chunk_LStart G.Chunk_RStart G.Chunk_Edits].
    rewrite zlen_map.
    destruct (normal_edits_loop_ok fuel (edits c) [] fuel w (LStart c) (RStart c) HE HEs) as (lp & rp & E).
    cbn [app] in E. change (zlen (@nil (edit line))) with 0 in E. rewrite E. cbn [bind].
    rewrite <- (zlen_snoc a1 a).
    replace (zlen (a1 ++ [a])) with (zlen (pre ++ [c])) by (unfold zlen; rewrite !app_length, Hl; reflexivity).
    rewrite (snoc_assoc a1 a a2).
    rewrite (IH (pre ++ [c]) ((a1 ++ [a]) ++ a2) gas).
    + rewrite <- app_assoc. f_equal. f_equal.
      cbn [normal_lines flat_map]. rewrite join_lines_app, zb_app. reflexivity.
    + simpl in Hg; lia.
    + exact Hr.
    + rewrite <- !app_assoc. exact Hc.
Qed.

Lemma C14_Normal_is_source : forall fuel h ads cs w,
  chunks_fuel fuel cs -> cells h ads cs ->
  G.Normal w ads W h fuel = Ok (None, w ++ zb (normal cs)).
Proof.
  intros fuel h ads cs w [Hl Hf] Hc. unfold G.Normal. cbv zeta.
  change 0 with (zlen (@nil (chunk line))).
  rewrite (normal_chunks_loop_ok fuel h cs [] ads fuel w Hl Hf Hc). reflexivity.
Qed.
End Sink.

Print Assumptions C14_Normal_is_source.
