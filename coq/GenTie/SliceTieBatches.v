(* Batches of slice/slice.go: model = generated function (see SliceTieBase.v) *)
From Coq Require Import ZArith List Bool Lia ZifyBool.
From Mds Require Import Common.FnRt GenTie.TieLib Gen.FnSlice Gen.SliceIdx GenTie.SliceTieBase.
Import ListNotations.
Local Open Scope Z_scope.

Lemma batches_loop1_eq : forall gas f0 v size out i rem,
  bind (Batches_loop1 f0 gas (vw v) size (map vw out) i rem) (fun '(o, _, _) => Ok o)
  = embf (map vw) (M.batches_loop gas v size i rem out).
Proof.
  induction gas; intros; simpl; [reflexivity|].
  unfold ba_loop, ba_end, ba_rem_pos, ba_end_inc, ba_rem_dec, ba_lo, ba_hi, ba_max, ba_i_next.
  case_if; simpl; [|reflexivity].
  case_if; simpl; rewrite slice3_eq;
    (match goal with |- context[M.slice3 ?a ?b ?c ?d] => destruct (M.slice3 a b c d) as [c'| |] end;
     simpl; try reflexivity;
     rewrite <- IHgas with (f0 := f0); rewrite map_app; reflexivity).
Qed.

Lemma batches_loop1_mono : forall gas gas' f0 f0' v size out i rem, (gas <= gas')%nat ->
  res_le (Batches_loop1 f0 gas v size out i rem) (Batches_loop1 f0' gas' v size out i rem).
Proof.
  induction gas; intros; [apply res_le_oof|]. destruct gas'; [lia|]. simpl.
  mono. apply IHgas; lia.
Qed.

Theorem C17_batches_is_source : forall (v : M.view) (n : Z) (fuel : nat),
  (S (Z.to_nat (M.vlen v)) <= fuel)%nat ->
  res_le (embf (map vw) (M.batches v n)) (Batches (vw v) n fuel).
Proof.
  intros v n fuel Hf. unfold Batches, M.batches. cbv zeta.
  unfold ba_neg, ba_zero, ba_over, ba_capped, ba_zero2, ba_hint, ba_i0, ba_size, ba_rem, go_quot, go_rem, go_make_check.
  simpl vlen.
  case_if; cbn [bind embf andb]; [apply res_le_refl|].
  case_if; cbn [bind embf andb]; [apply res_le_refl|].
  match goal with |- context[if ?c then M.vlen v else n] => set (n' := if c then M.vlen v else n) end.
  case_if; cbn [bind embf andb]; [apply res_le_refl|].
  destruct (n' <? 0) eqn:E.
  - replace (0 <=? n') with false by lia. apply res_le_refl.
  - replace (0 <=? n') with true by lia. cbn [bind embf andb Z.leb Z.compare].
    rewrite <- (batches_loop1_eq (S (Z.to_nat (M.vlen v))) fuel). simpl map.
    mono. apply batches_loop1_mono; lia.
Qed.


Print Assumptions C17_batches_is_source.
