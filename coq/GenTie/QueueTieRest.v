(* The rest of queue/queue.go: Queue.Slice, New, NewSize.  model = generated function
   (conventions of QueueTieBase.v).

   New / NewSize are translated as CONSTRUCTORS: the generated function returns the fields of the
   object it builds, in struct order (vs, head, n).  `new(Queue[T])` is the literal with every
   field zero; `make([]T, n)` inside the literal is the check of make and n zero values.
   Slice returns the list of the elements of the slice it made; `return nil` is the empty list
   (nil-ness of a slice result is not represented on either side). *)
From Coq Require Import ZArith List Bool Lia.
From Mds Require Import Common.FnRt GenTie.TieLib Gen.FnQueue Gen.QueueIdx GenTie.QueueTieBase.
Import ListNotations.
Local Open Scope Z_scope.

Ltac qunf_rest := cbv beta delta [Q.idw newsize_len slice_empty slice_buflen slice_start slice_count
  slice_dst_idx slice_src_idx slice_next_rem].

Section Queue.
Context {T : Type}.
Variable zero : T.
Notation queue := (Q.queue T).
Notation vs := (@Q.vs T).
Notation head := (@Q.head T).
Notation qn := (@Q.n T).

(* New(): the three fields of the zero Queue *)
Theorem C07_new_is_source : @New T = fields (Q.new T).
Proof. reflexivity. Qed.

(* NewSize(k): make's panic for k < 0, else k zero values, head = n = 0 *)
Theorem C07_newsize_is_source : forall k : Z,
  NewSize k zero = embf fields (Q.new_size T zero k).
Proof.
  intros k. unfold NewSize, Q.new_size, Q.make, go_make_check. qunf_rest.
  destruct (k <? 0) eqn:E.
  - replace ((0 <=? k) && (k <=? k)) with false by lia. reflexivity.
  - replace ((0 <=? k) && (k <=? k)) with true by lia. reflexivity.
Qed.

(* the copy loop: the model runs Z.to_nat n rounds, the source runs while i < n *)
Lemma slice_loop_eq : forall (k : nat) (fuel gas : nat) (l : list T) (lim : Z) (buf : list T) (cur i : Z),
  lim - i = Z.of_nat k -> (gas > k)%nat ->
  bind (Slice_loop1 fuel gas l lim buf cur i) (fun r => Ok (fst (fst r)))
  = embf (fun x => x) (Q.slice_loop Q.idw T k i l cur buf).
Proof.
  induction k; intros fuel gas l lim buf cur i Hk Hg.
  - destruct gas; [lia|]. cbn [Slice_loop1 Q.slice_loop].
    replace (i <? lim) with false by lia. reflexivity.
  - destruct gas; [lia|]. cbn [Slice_loop1 Q.slice_loop].
    replace (i <? lim) with true by lia. qunf_rest.
    rewrite get_eq. destruct (Q.idx T l cur); cbn [bind Q.bind Q.of_opt embf emb_kind]; [|reflexivity].
    rewrite set_eq. destruct (Q.upd T buf i t); cbn [bind Q.bind Q.of_opt embf emb_kind]; [|reflexivity].
    unfold go_rem, Q.checked_rem. change (Q.zlen T l) with (zlen l).
    destruct (zlen l =? 0); cbn [bind Q.bind embf emb_kind]; [reflexivity|].
    apply IHk; lia.
Qed.

Theorem C07_slice_is_source : forall (q : queue) (fuel : nat),
  (fuel > Z.to_nat (qn q))%nat ->
  Slice (vs q) (head q) (qn q) zero fuel = embf (fun x => x) (Q.slice Q.idw T zero q).
Proof.
  intros [l h n] fuel Hf. unfold Slice, Q.slice. cbn [Q.vs Q.head Q.n] in *. qunf_rest.
  case_if; [reflexivity|].
  unfold go_make_check, Q.make.
  destruct (n <? 0) eqn:E.
  - replace ((0 <=? n) && (n <=? n)) with false by lia. reflexivity.
  - replace ((0 <=? n) && (n <=? n)) with true by lia.
    cbn [bind Q.bind Q.of_opt].
    pose proof (slice_loop_eq (Z.to_nat n) fuel fuel l n (repeat zero (Z.to_nat n)) h 0) as L.
    cbv beta delta [Q.idw] in L. rewrite <- L by lia.
    destruct (Slice_loop1 fuel fuel l n (repeat zero (Z.to_nat n)) h 0) as [[[b c] j]| |]; reflexivity.
Qed.

End Queue.

Print Assumptions C07_new_is_source.
Print Assumptions C07_newsize_is_source.
Print Assumptions C07_slice_is_source.
