(* mdiff/reader.go: scanToPrefix.  The loop `for { line, err := r.readline(); if err != nil { return
   err }; if strings.HasPrefix(line, prefix) { r.unread(line); return nil } }` = the model's
   scan_to_prefix on the lines the reader will deliver: io.EOF when no line has the prefix, else
   nil with the matching line unread. *)
From Coq Require Import ZArith NArith List Bool Lia.
Require Coq.Strings.String.
From Mds Require Import Mdiff.ReaderModel.
From Mds Require Import Common.FnRt Common.FnHeap Common.FnText GenTie.TieLib GenTie.MdiffFmtTieBase GenTie.MdiffReadTieBase.
Import ListNotations.
Local Open Scope Z_scope.

(* the pattern of every reader tie: the generated function runs on a reader state that will
   deliver the lines [ls]; it ends in a state that will deliver the lines the model leaves *)
Lemma scanToPrefix_loop_ok pfx fuel : forall ls t sv ln gas,
  lines_of sv t = ls -> (length ls < gas)%nat ->
  exists t' ln' sv',
    lines_of sv' t' = match scan_to_prefix pfx ls with Some rest => rest | None => [] end /\
    R.scanToPrefix_loop1 fuel gas (zb pfx) X_ReadString X_TrimSuffix X_HasPrefix (zb t) ln (option_map zb sv)
    = Ok (Ret (match scan_to_prefix pfx ls with Some _ => None | None => Some (XVar "io.EOF") end,
               zb t', ln', option_map zb sv')).
Proof.
  induction ls as [|l rest IH]; intros t sv ln gas Hl Hg; (destruct gas as [|gas]; [simpl in Hg; lia|]);
    cbn [R.scanToPrefix_loop1]; rewrite C14_readline_is_source; rewrite lines_of_next in Hl.
  - destruct (rl_next sv t) as [[l t']|]; [discriminate|]. cbn [bind go_xerr_isnil negb scan_to_prefix].
    exists [], ln, None. split; reflexivity.
  - destruct (rl_next sv t) as [[l0 t']|]; [|discriminate].
    assert (E0 : l0 = l) by congruence. assert (H1 : lines_of None t' = rest) by congruence. subst l0. clear Hl.
    cbn [bind go_xerr_isnil negb scan_to_prefix]. rewrite X_HasPrefix_zb. cbn [bind].
    destruct (has_prefix pfx l).
    + rewrite C14_unread_is_source.
      exists t', (match sv with Some _ => ln | None => ln + 1 end), (Some l). split; [|reflexivity].
      rewrite lines_of_saved, H1. reflexivity.
    + apply (IH t' None); [exact H1 | simpl in Hg; lia].
Qed.

Lemma C14_scanToPrefix_is_source : forall pfx ls t sv ln fuel,
  lines_of sv t = ls -> (length ls < fuel)%nat ->
  exists t' ln' sv',
    lines_of sv' t' = match scan_to_prefix pfx ls with Some rest => rest | None => [] end /\
    R.scanToPrefix (zb t) ln (option_map zb sv) (zb pfx) X_ReadString X_TrimSuffix X_HasPrefix fuel
    = Ok (match scan_to_prefix pfx ls with Some _ => None | None => Some (XVar "io.EOF") end,
          zb t', ln', option_map zb sv').
Proof.
  intros pfx ls t sv ln fuel Hl Hf. unfold R.scanToPrefix.
  destruct (scanToPrefix_loop_ok pfx fuel ls t sv ln fuel Hl Hf) as (t' & ln' & sv' & H1 & H2).
  exists t', ln', sv'. split; [exact H1|]. rewrite H2. reflexivity.
Qed.

Print Assumptions C14_scanToPrefix_is_source.
