(* Reverse of slice/slice.go (outside property C17): model = generated function.

   slice.Reverse is the one statement slices.Reverse(vs).  Gen/FnSlice.v has it as a call of a
   function argument (extern:slices.Reverse); Gen/FnSlicesStd.v is the loop generated from the
   installed GOROOT/src/slices/slices.go.  The tie composes the two (the argument instantiated
   with the function generated from the standard library) and equates the composition with the
   model's reverse_impl, the hand mirror of that loop, whose spec lemma says it is List.rev. *)
From Coq Require Import ZArith List Bool Lia.
From Mds Require Import Common.FnRt GenTie.TieLib Gen.FnSlice Gen.SliceIdx GenTie.SliceTieBase.
From Mds Require Gen.FnSlicesStd Slice.SliceUtilMoreModel Slice.SliceUtilMoreProofs.
Import ListNotations.
Local Open Scope Z_scope.

Module Std := FnSlicesStd.
Module MM := SliceUtilMoreModel.
Module MP := SliceUtilMoreProofs.

Section Elem.
Context {T : Type}.

(* the generated loop of slices.Reverse = the model's loop, at equal gas *)
Lemma reverse_loop_eq : forall (gas fuel : nat) (s : list T) (i j : Z),
  bind (Std.Reverse_loop1 fuel gas s i j) (fun r => Ok (fst (fst r))) = emb (MM.reverse_loop gas s i j).
Proof.
  induction gas as [|g IH]; intros fuel s i j; [reflexivity|].
  cbn [Std.Reverse_loop1 MM.reverse_loop].
  destruct (i <? j); [|reflexivity].
  rewrite !get_eq.
  destruct (M.get s j) as [a| |]; cbn [emb bind M.bind]; try reflexivity.
  destruct (M.get s i) as [b| |]; cbn [emb bind M.bind]; try reflexivity.
  rewrite set_eq.
  destruct (M.set s i a) as [s1| |]; cbn [emb bind M.bind]; try reflexivity.
  rewrite set_eq.
  destruct (M.set s1 j b) as [s2| |]; cbn [emb bind M.bind]; try reflexivity.
  apply IH.
Qed.

Lemma std_reverse_is_model : forall (s : list T) (fuel : nat),
  Std.Reverse s fuel = emb (MM.reverse_loop fuel s 0 (zlen s - 1)).
Proof.
  intros s fuel. unfold Std.Reverse. rewrite <- (reverse_loop_eq fuel fuel).
  destruct (Std.Reverse_loop1 fuel fuel s 0 (zlen s - 1)) as [[[s' i] j]| |]; reflexivity.
Qed.

(* slice.Reverse with slices.Reverse := the function generated from GOROOT: the model's result
   (the reversed list; never a panic), for every list and fuel above its length *)
Theorem reverse_is_source : forall (vs : list T) (fuel : nat),
  (fuel > length vs)%nat ->
  Reverse vs (fun s => Std.Reverse s fuel) = emb (MM.reverse_impl vs).
Proof.
  intros vs fuel Hf. unfold Reverse. rewrite std_reverse_is_model.
  rewrite MP.reverse_impl_spec.
  pose proof (MP.reverse_loop_spec fuel vs [] [] Hf) as H.
  rewrite !app_nil_r in H. cbn [app] in H. change (M.zlen (@nil T)) with 0 in H.
  rewrite Z.add_0_l in H. change (M.zlen vs) with (zlen vs) in H. rewrite H. reflexivity.
Qed.

(* what the caller sees: the argument's elements reversed, in place (same length) *)
Corollary reverse_source_spec : forall (vs : list T) (fuel : nat),
  (fuel > length vs)%nat ->
  Reverse vs (fun s => Std.Reverse s fuel) = Ok (rev vs).
Proof. intros vs fuel Hf. rewrite reverse_is_source by exact Hf. rewrite MP.reverse_impl_spec. reflexivity. Qed.

End Elem.

(* ---- Select (iter.Seq) ----
   Select returns a closure; the heap backend translates F(vs, f)(yield) as ONE function of both
   parameter lists (the outer function does nothing before it returns the closure, which assigns
   none of the captured parameters).  The consumer is a state machine: yield threads a state and
   answers the bool Go's yield function returns.  The model (SliceUtilExtraModel.select_loop)
   is over the same kind of consumer and also counts the calls of f; the generated function
   returns the consumer's final state: tied to the first component, for every consumer, every
   test f, every list, every start state, fuel above the length. *)
From Mds Require Gen.FnSliceIter Slice.SliceUtilExtraModel.
Module It := FnSliceIter.
Module XM := SliceUtilExtraModel.

Section Iter.
Context {T S : Type}.
Variable yieldT : S -> T -> S * bool.
Variable f : T -> bool.

(* the model's consumer as the generated code's callback: (state, value) -> (answer, state) *)
Definition gyield (s : S) (v : T) : res (bool * S) := Ok (snd (yieldT s v), fst (yieldT s v)).

Lemma select_loop_eq : forall (suf pre : list T) (s : S) (calls : Z) (fuel gas : nat),
  (gas > length suf)%nat ->
  bind (It.Select_loop1 fuel gas (pre ++ suf) f gyield (zlen (pre ++ suf)) s (zlen pre))
       (fun r => match r with Ret s' => Ok s' | Next (s', _) => Ok s' end)
  = Ok (fst (XM.select_loop yieldT f suf s calls)).
Proof.
  induction suf as [|v suf IH]; intros pre s calls fuel gas Hg.
  - destruct gas; [simpl in Hg; lia|]. cbn [It.Select_loop1 XM.select_loop]. rewrite app_nil_r.
    rewrite Z.ltb_irrefl. reflexivity.
  - destruct gas; [simpl in Hg; lia|]. cbn [It.Select_loop1 XM.select_loop].
    assert (C : zlen pre <? zlen (pre ++ v :: suf) = true) by (apply Z.ltb_lt; unfold zlen; rewrite app_length; simpl; lia).
    rewrite C.
    assert (G : go_get (pre ++ v :: suf) (zlen pre) = Ok v).
    { unfold go_get.
      assert (C2 : (0 <=? zlen pre) && (zlen pre <? zlen (pre ++ v :: suf)) = true)
        by (rewrite C; apply andb_true_intro; split; [apply Z.leb_le; unfold zlen; lia|reflexivity]).
      rewrite C2. unfold zlen. rewrite Nat2Z.id, nth_error_app2 by lia. rewrite Nat.sub_diag. reflexivity. }
    rewrite G. cbn [bind].
    replace (pre ++ v :: suf) with ((pre ++ [v]) ++ suf) by (rewrite <- app_assoc; reflexivity).
    replace (zlen pre + 1) with (zlen (pre ++ [v])) by (unfold zlen; rewrite app_length; simpl; lia).
    destruct (f v).
    + unfold gyield at 1. cbn [bind]. destruct (yieldT s v) as [s1 b]. cbn [fst snd].
      destruct b; cbn [negb].
      * apply IH. simpl in Hg. lia.
      * reflexivity.
    + cbn [bind]. apply IH. simpl in Hg. lia.
Qed.

Theorem select_is_source : forall (vs : list T) (s : S) (fuel : nat),
  (fuel > length vs)%nat ->
  It.Select vs f gyield s fuel = Ok (fst (XM.select_loop yieldT f vs s 0)).
Proof.
  intros vs s fuel Hf. unfold It.Select. cbv zeta.
  rewrite <- (select_loop_eq vs [] s 0 fuel fuel Hf). cbn [app]. change (zlen (@nil T)) with 0.
  destruct (It.Select_loop1 fuel fuel vs f gyield (zlen vs) s 0) as [c| |]; [destruct c as [[s' r]|s']| |]; reflexivity.
Qed.
End Iter.

(* ---- Dedup = slices.Compact(vs) ----
   Gen/FnSlice.Dedup hands its argument (elements and view) to the external slices.Compact and
   returns what that returns: the result's view and the argument's new elements.  Compact's own
   body is outside the translator's subset (s2 := s[k:] aliases s): compact_impl is a HAND copy of
   the go1.23 loop, given here to the generated Dedup as the external function (g_compact). *)
Section Dedup.
Context {T : Type}.
Variable eqb : T -> T -> bool.
Variable zero : T.

(* whatever slices.Compact is, Dedup is it *)
Theorem dedup_hands_over : forall (vs : list T) (vs_v : view) (compact : list T -> view -> res (view * list T)),
  Dedup vs vs_v compact = compact vs vs_v.
Proof. reflexivity. Qed.

(* the hand model of slices.Compact as that external function: s[:k] of the argument's view *)
Definition g_compact (s : list T) (gv : view) : res (view * list T) :=
  match MM.compact_impl eqb zero s with
  | M.Ok (s', k) => do w <- go_slice3 gv 0 k (vcap gv); Ok (w, s')
  | M.Panic p => Panic (emb_panic p)
  | M.OutOfFuel => OutOfFuel
  end.

Theorem dedup_is_source : forall (vs : list T) (v : M.view),
  Dedup vs (vw v) g_compact = embf (fun ws : M.view * list T => (vw (fst ws), snd ws)) (MM.dedup_view eqb zero vs v).
Proof.
  intros vs v. unfold Dedup, g_compact, MM.dedup_view.
  destruct (MM.compact_impl eqb zero vs) as [[s' k]| |]; cbn [M.bind embf fst snd]; try reflexivity.
  change (vcap (vw v)) with (M.vcap v). rewrite slice3_eq.
  destruct (M.slice3 v 0 k (M.vcap v)) as [w| |]; reflexivity.
Qed.

(* on a view that is the whole argument (len = number of elements <= cap): the first k slots
   hold the reference dedup_spec (the first element of every run), the rest is zeroed, the result
   is the prefix view [off, k, cap] of the same array *)
Theorem dedup_source_spec : forall (vs : list T) (v : M.view),
  M.vlen v = zlen vs -> M.vlen v <= M.vcap v ->
  Dedup vs (vw v) g_compact
  = Ok (mkView (M.voff v) (zlen (MM.dedup_spec eqb vs)) (M.vcap v),
        MM.dedup_spec eqb vs ++ repeat zero (length vs - length (MM.dedup_spec eqb vs))).
Proof.
  intros vs v Hl Hc. rewrite dedup_is_source. unfold MM.dedup_view.
  rewrite MP.compact_impl_spec. cbn [M.bind fst snd].
  assert (L : (length (MM.dedup_spec eqb vs) <= length vs)%nat).
  { destruct vs as [|x r]; cbn [MM.dedup_spec length]; [lia|]. pose proof (MP.dedup_from_length eqb x r). lia. }
  unfold M.slice3.
  assert (C : (0 <=? 0) && (0 <=? M.zlen (MM.dedup_spec eqb vs)) && (M.zlen (MM.dedup_spec eqb vs) <=? M.vcap v)
              && (M.vcap v <=? M.vcap v) = true).
  { repeat (apply andb_true_intro; split); apply Z.leb_le; unfold M.zlen; unfold zlen in Hl; lia. }
  rewrite C. cbn [M.bind embf fst snd vw M.voff M.vlen M.vcap].
  rewrite !Z.add_0_r, !Z.sub_0_r. reflexivity.
Qed.
End Dedup.
