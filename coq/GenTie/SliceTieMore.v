(* Reverse of slice/slice.go (outside property C17): model = generated function.

   slice.Reverse is the one statement slices.Reverse(vs).  Gen/FnSlice.v has it as a call of a
   function argument (extern:slices.Reverse); Gen/FnSlicesStd.v is the loop generated from the
   installed GOROOT/src/slices/slices.go.  The tie composes the two (the argument instantiated
   with the function generated from the standard library) and equates the composition with the
   model's reverse_impl, the hand mirror of that loop, whose spec lemma says it is List.rev. *)
From Coq Require Import ZArith List Bool Lia.
From Mds Require Import Common.FnRt GenTie.TieLib Gen.FnSlice Gen.SliceIdx GenTie.SliceTieBase.
From Mds Require Gen.FnSlicesStd Slice.SliceUtilMoreModel Slice.SliceUtilMoreProofs.
Import ListNotations.
Local Open Scope Z_scope.

Module Std := FnSlicesStd.
Module MM := SliceUtilMoreModel.
Module MP := SliceUtilMoreProofs.

Section Elem.
Context {T : Type}.

(* the generated loop of slices.Reverse = the model's loop, at equal gas *)
Lemma reverse_loop_eq : forall (gas fuel : nat) (s : list T) (i j : Z),
  bind (Std.Reverse_loop1 fuel gas s i j) (fun r => Ok (fst (fst r))) = emb (MM.reverse_loop gas s i j).
Proof.
  induction gas as [|g IH]; intros fuel s i j; [reflexivity|].
  cbn [Std.Reverse_loop1 MM.reverse_loop].
  destruct (i <? j); [|reflexivity].
  rewrite !get_eq.
  destruct (M.get s j) as [a| |]; cbn [emb bind M.bind]; try reflexivity.
  destruct (M.get s i) as [b| |]; cbn [emb bind M.bind]; try reflexivity.
  rewrite set_eq.
  destruct (M.set s i a) as [s1| |]; cbn [emb bind M.bind]; try reflexivity.
  rewrite set_eq.
  destruct (M.set s1 j b) as [s2| |]; cbn [emb bind M.bind]; try reflexivity.
  apply IH.
Qed.

Lemma std_reverse_is_model : forall (s : list T) (fuel : nat),
  Std.Reverse s fuel = emb (MM.reverse_loop fuel s 0 (zlen s - 1)).
Proof.
  intros s fuel. unfold Std.Reverse. rewrite <- (reverse_loop_eq fuel fuel).
  destruct (Std.Reverse_loop1 fuel fuel s 0 (zlen s - 1)) as [[[s' i] j]| |]; reflexivity.
Qed.

(* slice.Reverse with slices.Reverse := the function generated from GOROOT: the model's result
   (the reversed list; never a panic), for every list and fuel above its length *)
Theorem reverse_is_source : forall (vs : list T) (fuel : nat),
  (fuel > length vs)%nat ->
  Reverse vs (fun s => Std.Reverse s fuel) = emb (MM.reverse_impl vs).
Proof.
  intros vs fuel Hf. unfold Reverse. rewrite std_reverse_is_model.
  rewrite MP.reverse_impl_spec.
  pose proof (MP.reverse_loop_spec fuel vs [] [] Hf) as H.
  rewrite !app_nil_r in H. cbn [app] in H. change (M.zlen (@nil T)) with 0 in H.
  rewrite Z.add_0_l in H. change (M.zlen vs) with (zlen vs) in H. rewrite H. reflexivity.
Qed.

(* what the caller sees: the argument's elements reversed, in place (same length) *)
Corollary reverse_source_spec : forall (vs : list T) (fuel : nat),
  (fuel > length vs)%nat ->
  Reverse vs (fun s => Std.Reverse s fuel) = Ok (rev vs).
Proof. intros vs fuel Hf. rewrite reverse_is_source by exact Hf. rewrite MP.reverse_impl_spec. reflexivity. Qed.

End Elem.

(* ---- Select (iter.Seq) ----
   Select returns a closure; the heap backend translates F(vs, f)(yield) as ONE function of both
   parameter lists (the outer function does nothing before it returns the closure, which assigns
   none of the captured parameters).  The consumer is a state machine: yield threads a state and
   answers the bool Go's yield function returns.  The model (SliceUtilExtraModel.select_loop)
   is over the same kind of consumer and also counts the calls of f; the generated function
   returns the consumer's final state: tied to the first component, for every consumer, every
   test f, every list, every start state, fuel above the length. *)
From Mds Require Gen.FnSliceIter Slice.SliceUtilExtraModel.
Module It := FnSliceIter.
Module XM := SliceUtilExtraModel.

Section Iter.
Context {T S : Type}.
Variable yieldT : S -> T -> S * bool.
Variable f : T -> bool.

(* the model's consumer as the generated code's callback: (state, value) -> (answer, state) *)
Definition gyield (s : S) (v : T) : res (bool * S) := Ok (snd (yieldT s v), fst (yieldT s v)).

Lemma select_loop_eq : forall (suf pre : list T) (s : S) (calls : Z) (fuel gas : nat),
  (gas > length suf)%nat ->
  bind (It.Select_loop1 fuel gas (pre ++ suf) f gyield (zlen (pre ++ suf)) s (zlen pre))
       (fun r => match r with Ret s' => Ok s' | Next (s', _) => Ok s' end)
  = Ok (fst (XM.select_loop yieldT f suf s calls)).
Proof.
  induction suf as [|v suf IH]; intros pre s calls fuel gas Hg.
  - destruct gas; [simpl in Hg; lia|]. cbn [It.Select_loop1 XM.select_loop]. rewrite app_nil_r.
    rewrite Z.ltb_irrefl. reflexivity.
  - destruct gas; [simpl in Hg; lia|]. cbn [It.Select_loop1 XM.select_loop].
    assert (C : zlen pre <? zlen (pre ++ v :: suf) = true) by (apply Z.ltb_lt; unfold zlen; rewrite app_length; simpl; lia).
    rewrite C.
    assert (G : go_get (pre ++ v :: suf) (zlen pre) = Ok v).
    { unfold go_get.
      assert (C2 : (0 <=? zlen pre) && (zlen pre <? zlen (pre ++ v :: suf)) = true)
        by (rewrite C; apply andb_true_intro; split; [apply Z.leb_le; unfold zlen; lia|reflexivity]).
      rewrite C2. unfold zlen. rewrite Nat2Z.id, nth_error_app2 by lia. rewrite Nat.sub_diag. reflexivity. }
    rewrite G. cbn [bind].
    replace (pre ++ v :: suf) with ((pre ++ [v]) ++ suf) by (rewrite <- app_assoc; reflexivity).
    replace (zlen pre + 1) with (zlen (pre ++ [v])) by (unfold zlen; rewrite app_length; simpl; lia).
    destruct (f v).
    + unfold gyield at 1. cbn [bind]. destruct (yieldT s v) as [s1 b]. cbn [fst snd].
      destruct b; cbn [negb].
      * apply IH. simpl in Hg. lia.
      * reflexivity.
    + cbn [bind]. apply IH. simpl in Hg. lia.
Qed.

Theorem select_is_source : forall (vs : list T) (s : S) (fuel : nat),
  (fuel > length vs)%nat ->
  It.Select vs f gyield s fuel = Ok (fst (XM.select_loop yieldT f vs s 0)).
Proof.
  intros vs s fuel Hf. unfold It.Select. cbv zeta.
  rewrite <- (select_loop_eq vs [] s 0 fuel fuel Hf). cbn [app]. change (zlen (@nil T)) with 0.
  destruct (It.Select_loop1 fuel fuel vs f gyield (zlen vs) s 0) as [c| |]; [destruct c as [[s' r]|s']| |]; reflexivity.
Qed.
End Iter.
