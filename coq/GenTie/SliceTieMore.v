(* Reverse of slice/slice.go (outside property C17): model = generated function.

   slice.Reverse is the one statement slices.Reverse(vs).  Gen/FnSlice.v has it as a call of a
   function argument (extern:slices.Reverse); Gen/FnSlicesStd.v is the loop generated from the
   installed GOROOT/src/slices/slices.go.  The tie composes the two (the argument instantiated
   with the function generated from the standard library) and equates the composition with the
   model's reverse_impl, the hand mirror of that loop, whose spec lemma says it is List.rev. *)
From Coq Require Import ZArith List Bool Lia.
From Mds Require Import Common.FnRt GenTie.TieLib Gen.FnSlice Gen.SliceIdx GenTie.SliceTieBase.
From Mds Require Gen.FnSlicesStd Slice.SliceUtilMoreModel Slice.SliceUtilMoreProofs.
Import ListNotations.
Local Open Scope Z_scope.

Module Std := FnSlicesStd.
Module MM := SliceUtilMoreModel.
Module MP := SliceUtilMoreProofs.

Section Elem.
Context {T : Type}.

(* the generated loop of slices.Reverse = the model's loop, at equal gas *)
Lemma reverse_loop_eq : forall (gas fuel : nat) (s : list T) (i j : Z),
  bind (Std.Reverse_loop1 fuel gas s i j) (fun r => Ok (fst (fst r))) = emb (MM.reverse_loop gas s i j).
Proof.
  induction gas as [|g IH]; intros fuel s i j; [reflexivity|].
  cbn [Std.Reverse_loop1 MM.reverse_loop].
  destruct (i <? j); [|reflexivity].
  rewrite !get_eq.
  destruct (M.get s j) as [a| |]; cbn [emb bind M.bind]; try reflexivity.
  destruct (M.get s i) as [b| |]; cbn [emb bind M.bind]; try reflexivity.
  rewrite set_eq.
  destruct (M.set s i a) as [s1| |]; cbn [emb bind M.bind]; try reflexivity.
  rewrite set_eq.
  destruct (M.set s1 j b) as [s2| |]; cbn [emb bind M.bind]; try reflexivity.
  apply IH.
Qed.

Lemma std_reverse_is_model : forall (s : list T) (fuel : nat),
  Std.Reverse s fuel = emb (MM.reverse_loop fuel s 0 (zlen s - 1)).
Proof.
  intros s fuel. unfold Std.Reverse. rewrite <- (reverse_loop_eq fuel fuel).
  destruct (Std.Reverse_loop1 fuel fuel s 0 (zlen s - 1)) as [[[s' i] j]| |]; reflexivity.
Qed.

(* slice.Reverse with slices.Reverse := the function generated from GOROOT: the model's result
   (the reversed list; never a panic), for every list and fuel above its length *)
Theorem reverse_is_source : forall (vs : list T) (fuel : nat),
  (fuel > length vs)%nat ->
  Reverse vs (fun s => Std.Reverse s fuel) = emb (MM.reverse_impl vs).
Proof.
  intros vs fuel Hf. unfold Reverse. rewrite std_reverse_is_model.
  rewrite MP.reverse_impl_spec.
  pose proof (MP.reverse_loop_spec fuel vs [] [] Hf) as H.
  rewrite !app_nil_r in H. cbn [app] in H. change (M.zlen (@nil T)) with 0 in H.
  rewrite Z.add_0_l in H. change (M.zlen vs) with (zlen vs) in H. rewrite H. reflexivity.
Qed.

(* what the caller sees: the argument's elements reversed, in place (same length) *)
Corollary reverse_source_spec : forall (vs : list T) (fuel : nat),
  (fuel > length vs)%nat ->
  Reverse vs (fun s => Std.Reverse s fuel) = Ok (rev vs).
Proof. intros vs fuel Hf. rewrite reverse_is_source by exact Hf. rewrite MP.reverse_impl_spec. reflexivity. Qed.

End Elem.
