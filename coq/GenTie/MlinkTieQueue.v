(* mlink/queue.go: model = generated function (see MlinkTieBase.v).  A Queue is
   struct{list List[T]; back Cursor[T]; size int}: by the receiver-field convention the generated
   methods take q.list (the address of the embedded list's sentinel cell: Some 0 in the model),
   q.back (the Record mk_Cursor pred) and q.size as arguments and hand back the fields they
   assign.  The model's state is {qheap; qback : link; qsize}; its step answers (state, output):
   [qemb] maps the failure outputs (RPanic / RHang / RBad) onto FnRt's and hands the rest to a
   per-method reading of the output. *)
From Coq Require Import ZArith List Bool Arith Lia.
From Mds Require Gen.MlinkFacts Gen.MlinkList Gen.MlinkQueue.
From Mds Require Import Mlink.MlinkModel.
From Mds Require Import Common.FnRt Common.FnHeap GenTie.TieLib GenTie.MlinkTieBase GenTie.MlinkTieCursor GenTie.MlinkTieMut
  GenTie.MlinkTieList GenTie.MlinkTieEach.
Import ListNotations.
Local Open Scope Z_scope.

Section QueueT.
Context {T : Type}.
Variable zero : T.
Notation heap := (MlinkModel.heap T).
Notation cst := (MlinkModel.cst T).
Notation qstate := (MlinkModel.qstate T).
Notation out := (MlinkModel.out T).

Definition other {B} : res B := Panic (PMsg "<tie> another output").

Definition qemb {B} (f : qstate -> out -> res B) (r : qstate * out) : res B :=
  match snd r with
  | RPanic k => Panic (pk k)
  | RHang => OutOfFuel
  | RBad => Panic PDangling
  | o => f (fst r) o
  end.

(* the fields of the queue as the generated methods return them *)
Definition qback_c (q : qstate) : G.Cursor := G.mk_Cursor (lenc (qback T q)).
Definition qfields (q : qstate) : G.Cursor * Z * list (G.entry T) := (qback_c q, qsize T q, henc (qheap T q)).

Definition on_unit (q : qstate) (o : out) : res (G.Cursor * Z * list (G.entry T)) :=
  match o with RUnit => Ok (qfields q) | _ => other end.

(* func NewQueue[T any]() *Queue[T]: on the empty heap the generated constructor returns the
   model's new queue: the sentinel at address 0, back = the cursor at the sentinel, size 0 *)
Theorem C10_mlink_newqueue_is_source :
  G.NewQueue [] zero = (Some O, qback_c (new_queue T zero), qsize T (new_queue T zero), henc (qheap T (new_queue T zero))).
Proof. reflexivity. Qed.

(* func (q *Queue[T]) Add(v T) *)
Theorem C10_mlink_qadd_is_source : forall (v : T) (q : qstate) (fuel : nat),
  (fuel > 1)%nat ->
  res_le (qemb on_unit (q_add T v q))
         (G.Queue_Add (Some O) (qback_c q) (qsize T q) v (henc (qheap T q)) fuel).
Proof.
  intros v q fuel Hf. unfold q_add, G.Queue_Add, qback_c, MlinkQueue.qadd_nopred, MlinkQueue.qadd_size.
  change (called MlinkQueue.qadd_ncalls_cfirst) with true. change (called MlinkQueue.qadd_ncalls_add) with true. cbv iota.
  rewrite enc_null_eqb. cbn [G.Cursor_pred].
  assert (Hb : exists p, (if go_pnil (lenc (qback T q)) then Ptr O else qback T q) = Ptr p /\
                    G.Cursor_pred (if go_pnil (lenc (qback T q)) then G.List_cfirst (Some O) else G.mk_Cursor (lenc (qback T q))) = Some p).
  { destruct (qback T q) as [|b]; cbn [lenc go_pnil]; [exists O | exists b]; split; reflexivity. }
  destruct Hb as [p [Hb1 Hb2]]. rewrite Hb1, Hb2.
  pose proof (C10_mlink_add_is_source [v] (qheap T q) p fuel Hf) as L.
  destruct (cur_add T [v] (qheap T q, p)) as [u [h1 p1]|k [h1 p1]| |]; cbn [embf add_res fst snd] in L; unfold qemb; cbn [fst snd].
  3: apply res_le_oof.
  2,3: use_le L; fin.
  use_le L. fin.
Qed.

(* func (q *Queue[T]) Pop() (T, bool) *)
Definition on_pop (q : qstate) (o : out) : res (T * bool * G.Cursor * Z * list (G.entry T)) :=
  match o with RValBool v b => Ok (v, b, qback_c q, qsize T q, henc (qheap T q)) | _ => other end.

Lemma pop_body_eq : pop_body T zero = [pop_remove T zero; pop_size T; pop_reset T].
Proof. reflexivity. Qed.

Theorem C10_mlink_qpop_is_source : forall (q : qstate),
  G.Queue_Pop (Some O) (qback_c q) (qsize T q) (henc (qheap T q)) zero = qemb on_pop (q_pop T zero q).
Proof.
  intros q. unfold q_pop, G.Queue_Pop, cfirst.
  change (G.List_cfirst (Some O)) with (G.mk_Cursor (Some O)). cbn [G.Cursor_pred].
  set (h := qheap T q).
  destruct (C10_mlink_get_is_source zero h O) as [H1 H2]. rewrite H1. clear H1.
  destruct (cur_get T zero (h, O)) as [v s|k s| |]; cbn [final] in H2; try subst s; cbn [embf bind]; try reflexivity.
  destruct (C10_mlink_atend_is_source h O) as [A1 A2]. rewrite A1. clear A1.
  destruct (cur_at_end T (h, O)) as [ae s|k s| |]; cbn [final] in A2; try subst s; cbn [embf bind]; try reflexivity.
  unfold MlinkQueue.qpop_atend, MlinkQueue.qpop_ret_empty, MlinkQueue.qpop_ret_ok.
  destruct ae; [reflexivity|].
  rewrite pop_body_eq. cbn [seq_env]. unfold pop_remove, pop_size, pop_reset.
  change (called MlinkQueue.qpop_ncalls_remove) with true. cbv iota.
  destruct (C10_mlink_remove_is_source zero h O) as [R1 R2]. rewrite R1. clear R1.
  destruct (cur_remove T zero (h, O)) as [w [h1 p1]|k [h1 p1]| |]; cbn [final snd] in R2; try subst p1;
    cbn [embf bind MlinkModel.bind fst snd]; try reflexivity.
  destruct (C10_mlink_isempty_is_source h1) as [E1 E2]. rewrite E1. clear E1.
  destruct (list_is_empty T h1) as [em s|k s| |]; cbn [final] in E2; try subst s; cbn [embf bind MlinkModel.bind fst snd]; try reflexivity.
  unfold MlinkQueue.qpop_size, MlinkQueue.qpop_reset, qemb, on_pop, qback_c. cbn [fst snd qback qsize qheap].
  destruct em; reflexivity.
Qed.

(* the methods that only read: Front, Peek, IsEmpty, Len, Each *)
Theorem C10_mlink_qfront_is_source : forall (q : qstate) (fuel : nat),
  (fuel > length (qheap T q))%nat ->
  res_le (qemb (fun _ o => match o with RVal v => Ok v | _ => other end) (qstep T zero q (QFront)))
         (G.Queue_Front (Some O) (henc (qheap T q)) zero fuel).
Proof.
  intros q fuel Hf. cbn [qstep]. unfold G.Queue_Front, q_on_list, MlinkQueue.qfront_arg.
  destruct (C10_mlink_peek_is_source zero 0 (qheap T q) fuel Hf) as [L K].
  destruct (list_peek T zero 0 (qheap T q)) as [[v b] s|k s| |]; cbn [embf] in L; unfold qemb, qfail; cbn [fst snd].
  3: apply res_le_oof.
  all: use_le L; fin.
Qed.

Theorem C10_mlink_qpeek_is_source : forall (n : Z) (q : qstate) (fuel : nat),
  (fuel > length (qheap T q))%nat ->
  res_le (qemb (fun _ o => match o with RValBool v b => Ok (v, b) | _ => other end) (qstep T zero q (QPeek n)))
         (G.Queue_Peek (Some O) n (henc (qheap T q)) zero fuel).
Proof.
  intros n q fuel Hf. cbn [qstep]. unfold G.Queue_Peek, q_on_list, MlinkQueue.qpeek_arg.
  destruct (C10_mlink_peek_is_source zero n (qheap T q) fuel Hf) as [L K].
  destruct (list_peek T zero n (qheap T q)) as [[v b] s|k s| |]; cbn [embf] in L; unfold qemb, qfail; cbn [fst snd].
  3: apply res_le_oof.
  all: use_le L; fin.
Qed.

Theorem C10_mlink_qisempty_is_source : forall (q : qstate),
  G.Queue_IsEmpty (Some O) (henc (qheap T q)) =
  qemb (fun _ o => match o with RBool b => Ok b | _ => other end) (qstep T zero q (QIsEmpty)).
Proof.
  intros q. cbn [qstep]. unfold G.Queue_IsEmpty, q_on_list.
  destruct (C10_mlink_isempty_is_source (qheap T q)) as [E1 E2]. rewrite E1.
  destruct (list_is_empty T (qheap T q)) as [b s|k s| |]; reflexivity.
Qed.

Theorem C10_mlink_qlen_is_source : forall (q : qstate),
  qstep T zero q (QLen) = (q, RInt (G.Queue_Len (qsize T q))).
Proof. reflexivity. Qed.

(* Each hands its callback on to List.Each: the callback threads a state here too *)
Theorem C10_mlink_qeach_is_source : forall (f : T -> bool) (q : qstate) (fuel : nat),
  (fuel > length (qheap T q))%nat ->
  res_le (qemb (fun _ o => match o with RList vs => Ok vs | _ => other end) (qstep T zero q (QEach f)))
         (G.Queue_Each (Some O) (fun s v => Ok (f v, s ++ [v])) [] (henc (qheap T q)) zero fuel).
Proof.
  intros f q fuel Hf. cbn [qstep]. unfold G.Queue_Each, q_on_list.
  destruct (C10_mlink_each_is_source zero f (qheap T q) fuel Hf) as [L K].
  destruct (list_each T zero f (qheap T q)) as [vs s|k s| |]; cbn [embf] in L; unfold qemb, qfail; cbn [fst snd].
  3: apply res_le_oof.
  all: use_le L; fin.
Qed.

(* func (q *Queue[T]) Clear() { q.list.Clear(); q.back = q.list.cfirst(); q.size = 0 } *)
Theorem C10_mlink_qclear_is_source : forall (q : qstate) (fuel : nat),
  (fuel > length (qheap T q))%nat ->
  res_le (qemb on_unit (qstep T zero q (QClear)))
         (G.Queue_Clear (Some O) (qback_c q) (qsize T q) (henc (qheap T q)) fuel).
Proof.
  intros q fuel Hf. cbn [qstep]. unfold G.Queue_Clear.
  change (called MlinkQueue.qclear_ncalls_clear) with true. change (called MlinkQueue.qclear_ncalls_cfirst) with true. cbv iota.
  pose proof (C10_mlink_clear_is_source (qheap T q) fuel Hf) as L.
  destruct (list_clear T (qheap T q)) as [u [h1 p1]|k [h1 p1]| |]; cbn [embf heap_of fst snd] in L; unfold qemb, qfail; cbn [fst snd].
  3: apply res_le_oof.
  all: use_le L; fin.
Qed.

End QueueT.

Print Assumptions C10_mlink_newqueue_is_source.
Print Assumptions C10_mlink_qadd_is_source.
Print Assumptions C10_mlink_qpop_is_source.
Print Assumptions C10_mlink_qfront_is_source.
Print Assumptions C10_mlink_qpeek_is_source.
Print Assumptions C10_mlink_qisempty_is_source.
Print Assumptions C10_mlink_qlen_is_source.
Print Assumptions C10_mlink_qeach_is_source.
Print Assumptions C10_mlink_qclear_is_source.
