(* Shared lemmas for the GenTie files: the order "more fuel gives the same verdict" on FnRt.res,
   and the monotonicity tactic for generated loops.

   [res_le r r']: r is OutOfFuel, or r' is the same result.  Generated loops are monotone in
   both fuel arguments for this order, so a function run with more fuel than one of its loops
   needs produces the same verdict. *)
From Coq Require Import ZArith List Bool Lia.
From Mds Require Import Common.FnRt.
Import ListNotations.

Definition res_le {A : Type} (r r' : res A) : Prop := r = OutOfFuel \/ r = r'.

Lemma res_le_refl {A} (r : res A) : res_le r r.
Proof. right; reflexivity. Qed.

Lemma res_le_oof {A} (r : res A) : res_le OutOfFuel r.
Proof. left; reflexivity. Qed.

Lemma res_le_trans {A} (a b c : res A) : res_le a b -> res_le b c -> res_le a c.
Proof. intros [H|H] H'; subst; [left; reflexivity | exact H']. Qed.

Lemma res_le_eq {A} (r r' : res A) : res_le r r' -> r <> OutOfFuel -> r' = r.
Proof. intros [H|H] N; [contradiction | symmetry; exact H]. Qed.

Lemma res_le_of_eq {A} (r r' : res A) : r = r' -> res_le r r'.
Proof. intros ->; apply res_le_refl. Qed.

(* bind is monotone; the continuation is compared only on values the first part produced *)
Lemma bind_le {A B} (m m' : res A) (k k' : A -> res B) :
  res_le m m' -> (forall a, m' = Ok a -> res_le (k a) (k' a)) -> res_le (bind m k) (bind m' k').
Proof.
  intros [H|H] K; subst.
  - left; reflexivity.
  - destruct m' as [a| |]; simpl.
    + apply K; reflexivity.
    + right; reflexivity.
    + left; reflexivity.
Qed.

Lemma bind_le_same {A B} (m : res A) (k k' : A -> res B) :
  (forall a, m = Ok a -> res_le (k a) (k' a)) -> res_le (bind m k) (bind m k').
Proof. intros K; apply bind_le; [apply res_le_refl | exact K]. Qed.

Lemma bind_assoc {A B C} (m : res A) (f : A -> res B) (g : B -> res C) :
  bind (bind m f) g = bind m (fun a => bind (f a) g).
Proof. destruct m; reflexivity. Qed.

Lemma bind_ok {A} (m : res A) : bind m (fun a => Ok a) = m.
Proof. destruct m; reflexivity. Qed.

(* one step of a monotonicity proof; IH is the induction hypothesis (or a list of lemmas tried
   through the hint database [fnmono]) *)
Create HintDb fnmono.

Ltac mono_step :=
  match goal with
  | |- res_le OutOfFuel _ => apply res_le_oof
  | |- res_le ?x ?x => apply res_le_refl
  | |- res_le (bind ?m _) (bind ?m _) => apply bind_le_same; intros
  | |- res_le (bind _ _) (bind _ _) => apply bind_le; [ | intros ]
  | |- res_le (if ?c then _ else _) (if ?c then _ else _) => destruct c
  | |- res_le (match ?x with _ => _ end) (match ?x with _ => _ end) => destruct x
  end.

Ltac mono := repeat mono_step; auto with fnmono.

(* ---- lists ---- *)
Lemma upd_length {A} (l : list A) n x : length (upd l n x) = length l.
Proof. revert n; induction l; destruct n; simpl; auto. Qed.

Lemma go_set_length {A} (l l' : list A) i x : go_set l i x = Ok l' -> length l' = length l.
Proof.
  unfold go_set. destruct ((0 <=? i)%Z && (i <? zlen l)%Z); intros H; inversion H. apply upd_length.
Qed.

(* case analysis on whatever condition the source has at this point: the model's conditions are
   generated from the same Go expressions, so after unfolding both sides test the same term and a
   behaviour-preserving change of the operator does not disturb the proof *)
Ltac case_if :=
  match goal with |- context[if ?c then _ else _] => destruct c eqn:? end.
