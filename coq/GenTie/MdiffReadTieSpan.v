(* mdiff/reader.go: parseSpan, parseFileLine.  strings.CutPrefix / SplitN / Cut, strconv.Atoi and
   time.Parse are the model's cut_prefix / cut_byte / atoi64 / parse_time. *)
From Coq Require Import ZArith NArith List Bool Lia.
Require Coq.Strings.String.
From Mds Require Import Mdiff.ReaderModel Gen.MdiffReadSpan.
From Mds Require Import Common.FnRt Common.FnHeap Common.FnText GenTie.TieLib GenTie.MdiffFmtTieBase GenTie.MdiffReadTieBase.
Import ListNotations.
Local Open Scope Z_scope.

(* the error parseSpan returns: its own message for a missing prefix, else strconv.Atoi's error *)
Definition span_err (tag s : bytes) : go_xerrv :=
  match cut_prefix tag s with
  | None => XFmt "missing %q prefix" [FStr (zb tag)] None
  | Some _ => XExt 1
  end.

Lemma C14_parseSpan_is_source : forall tag s,
  R.parseSpan (zb tag) (zb s) X_CutPrefix X_SplitN X_Atoi =
  match parse_span parse_span_omitted_hi tag s with
  | Some (lo, hi) => Ok (lo, hi, None)
  | None => Ok (0, 0, Some (span_err tag s))
  end.
Proof.
  intros tag s. unfold R.parseSpan, parse_span, span_err, parse_span_omitted_hi. cbv zeta.
  unfold X_CutPrefix at 1. rewrite !bz_zb.
  destruct (cut_prefix tag s) as [rest|]; cbn [bind negb]; [|reflexivity].
  unfold X_SplitN. change (bz (go_str ",")) with [44%N]. cbn [Z.eqb Pos.eqb]. rewrite bz_zb.
  destruct (cut_byte 44 rest) as [[a b]|]; cbn [bind].
  - change (go_get [zb a; zb b] 0) with (@Ok (list Z) (zb a)).
    change (go_get [zb a; zb b] 1) with (@Ok (list Z) (zb b)).
    change (zlen [zb a; zb b] =? 1) with false. cbn [bind].
    unfold X_Atoi at 1. rewrite bz_zb.
    destruct (atoi64 a) as [lo|]; cbn [bind go_xerr_isnil negb]; [|reflexivity].
    unfold X_Atoi. rewrite bz_zb.
    destruct (atoi64 b) as [hi|]; reflexivity.
  - change (go_get [zb rest] 0) with (@Ok (list Z) (zb rest)).
    change (zlen [zb rest] =? 1) with true. cbn [bind].
    unfold X_Atoi. rewrite bz_zb.
    destruct (atoi64 rest) as [lo|]; reflexivity.
Qed.

Lemma span_err_site tag s : esite (span_err tag s) = None.
Proof. unfold span_err. destruct (cut_prefix tag s); reflexivity. Qed.

(* ---- parseFileLine ---- *)
Section Time.
Variable time : Type.
Variable zero_time : time.
Variable parse_time : bytes -> option time.

(* time.Parse(layout, value): the model parses mdiff.TimeFormat only; its error is opaque *)
Definition X_Parse (layout value : list Z) : res (time * go_xerr) :=
  match parse_time (bz value) with
  | Some t => Ok (t, None)
  | None => Ok (zero_time, Some (XExt 2))
  end.

Lemma C14_parseFileLine_is_source : forall s tf fuel,
  (1 < fuel)%nat ->
  R.parseFileLine (zb s) [tf] X_Cut X_Parse zero_time fuel =
  Ok (let '(n, t) := parse_file_line time zero_time parse_time s in (zb n, t)).
Proof.
  intros s tf fuel Hf. unfold R.parseFileLine, parse_file_line.
  unfold X_Cut. change (bz [9]) with [9%N]. rewrite bz_zb.
  destruct (cut_byte 9 s) as [[name rest]|]; cbn [bind]; [|reflexivity].
  cbv zeta. destruct fuel as [|[|gas]]; [lia|lia|].
  cbn [R.parseFileLine_loop1]. change (0 <? zlen [tf]) with true. change (go_get [tf] 0) with (@Ok (list Z) tf).
  cbn [bind]. unfold X_Parse at 1. rewrite bz_zb.
  destruct (parse_time rest) as [t|]; cbn [bind go_xerr_isnil]; [reflexivity|].
  change (0 + 1 <? zlen [tf]) with false. reflexivity.
Qed.
End Time.

Print Assumptions C14_parseSpan_is_source.
Print Assumptions C14_parseFileLine_is_source.
