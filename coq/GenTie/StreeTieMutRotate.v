(* stree: rotateLeft generated from the source against the model's rotate_left / rotate_left_n.

   Go walks along the right spine below n with one pointer (next) and left-rotates IN PLACE
   (C.right = R.left; R.left = C; next.right = R; next = R), count times.  The model rebuilds the
   chain: Node x cx (Node y rx z) becomes Node (Node x cx y) rx z', z' the rest rotated.  The tie
   is stated for the cell [nx] that plays n (the stub of vineToTree): its right pointer represents
   the chain on a tree-shaped region (trepr, StreeSep.v) that does not contain nx; afterwards it
   represents the model's chain on the same cells, nx kept its key and left pointer, and nothing
   else changed.  A chain that is too short is Go's nil dereference where the model panics. *)
From Coq Require Import ZArith List Bool Arith Lia.
From Mds Require Import Gen.StreeConst Gen.StreeNode.
From Mds Require Import Common.FnRt Common.FnHeap GenTie.TieLib GenTie.StreeTieBase GenTie.StreeSep.
Import ListNotations.
Local Open Scope Z_scope.

Section Rotate.
Context {T : Type}.
Notation tree := (SM.tree T).
Notation heap := (list (G.node T)).

(* the three stores of one rotation; nx, C, R are three different cells *)
Lemma rot_stores {A} (h : heap) nx cn C cc R crr (k : heap -> res A) :
  nth_error h nx = Some cn -> nth_error h C = Some cc -> nth_error h R = Some crr ->
  nx <> C -> nx <> R -> C <> R ->
  exists h3,
    (do h <- go_hmod h (Some C) (fun t4 => G.mk_node (G.node_X t4) (G.node_left t4) (G.node_left crr));
     do h <- go_hmod h (Some R) (fun t5 => G.mk_node (G.node_X t5) (Some C) (G.node_right t5));
     do h <- go_hmod h (Some nx) (fun t6 => G.mk_node (G.node_X t6) (G.node_left t6) (Some R));
     k h) = k h3 /\
    length h3 = length h /\
    nth_error h3 C = Some (G.mk_node (G.node_X cc) (G.node_left cc) (G.node_left crr)) /\
    nth_error h3 R = Some (G.mk_node (G.node_X crr) (Some C) (G.node_right crr)) /\
    nth_error h3 nx = Some (G.mk_node (G.node_X cn) (G.node_left cn) (Some R)) /\
    (forall j, j <> nx -> j <> C -> j <> R -> nth_error h3 j = nth_error h j).
Proof.
  intros Hnx HC HR N1 N2 N3.
  rewrite (hmod_some h C cc _ HC). cbn [bind]. set (h1 := upd h C _).
  assert (H1R : nth_error h1 R = Some crr) by (unfold h1; rewrite nth_upd_other; [exact HR|congruence]).
  rewrite (hmod_some h1 R crr _ H1R). cbn [bind]. set (h2 := upd h1 R _).
  assert (H2n : nth_error h2 nx = Some cn).
  { unfold h2. rewrite nth_upd_other by congruence. unfold h1. rewrite nth_upd_other by congruence. exact Hnx. }
  rewrite (hmod_some h2 nx cn _ H2n). cbn [bind]. set (h3 := upd h2 nx _).
  exists h3. split; [reflexivity|]. split; [|split; [|split; [|split]]].
  - unfold h3, h2, h1. rewrite !upd_length. reflexivity.
  - unfold h3. rewrite nth_upd_other by congruence. unfold h2. rewrite nth_upd_other by congruence.
    unfold h1. apply (upd_at h C cc _ HC).
  - unfold h3. rewrite nth_upd_other by congruence. unfold h2. apply (upd_at h1 R crr _ H1R).
  - unfold h3. apply (upd_at h2 nx cn _ H2n).
  - intros j J1 J2 J3. unfold h3. rewrite nth_upd_other by congruence. unfold h2. rewrite nth_upd_other by congruence.
    unfold h1. apply nth_upd_other. congruence.
Qed.

(* what a run of the loop from [next = nx] leaves behind *)
Definition rot_post (h : heap) (nx : nat) (cn : G.node T) (Fc : list nat) (chain' : tree) (h' : heap) : Prop :=
  exists cn' F', nth_error h' nx = Some cn' /\ G.node_X cn' = G.node_X cn /\ G.node_left cn' = G.node_left cn /\
                 trepr h' (G.node_right cn') chain' F' /\ incl F' Fc /\ incl Fc F' /\
                 frame h h' (nx :: Fc) /\ length h' = length h.

Lemma rot_loop_ok : forall (k : nat) (chain : tree) (h : heap) (nx : nat) (cn : G.node T) (Fc : list nat)
                           (fuel gas : nat) (lim r : Z),
  nth_error h nx = Some cn -> trepr h (G.node_right cn) chain Fc -> ~ In nx Fc ->
  Z.to_nat (lim - r) = k -> (gas > k)%nat ->
  rel (fun chain' (x : option nat * Z * heap) => rot_post h nx cn Fc chain' (snd x))
      (SM.rotate_left_n k chain) (G.rotateLeft_loop1 fuel gas lim (Some nx) r h).
Proof.
  induction k as [|k IH]; intros chain h nx cn Fc fuel gas lim r Hnx R Nnx Hk Hg;
    (destruct gas as [|gas]; [lia|]); cbn [G.rotateLeft_loop1 SM.rotate_left_n].
  - replace (r <? lim) with false by (symmetry; apply Z.ltb_ge; lia).
    apply rel_ok. cbn [snd]. exists cn, Fc. repeat split; auto using incl_refl; try apply frame_refl.
  - replace (r <? lim) with true by (symmetry; apply Z.ltb_lt; lia).
    rewrite (hget_some h nx cn Hnx). cbn [bind].
    destruct chain as [|x cx Rt].
    { apply trepr_leaf_inv in R. destruct R as [-> _]. reflexivity. }
    tnode R C cc Fx Frt EC HC Hx HRt NCx NCr Hd1. rewrite EC.
    rewrite (hget_some h C cc HC). cbn [bind].
    destruct Rt as [|y rx z].
    { apply trepr_leaf_inv in HRt. destruct HRt as [-> _]. reflexivity. }
    tnode HRt Rr crr Fy Fz ER HR Hy Hz NRy NRz Hd2. rewrite ER.
    rewrite (hget_some h Rr crr HR). cbn [bind].
    assert (N1 : nx <> C) by (intros ->; apply Nnx; left; reflexivity).
    assert (N2 : nx <> Rr) by (intros ->; apply Nnx; inl; tauto).
    assert (N3 : C <> Rr) by (intros ->; apply NCr; left; reflexivity).
    destruct (rot_stores h nx cn C cc Rr crr
                (fun h0 => G.rotateLeft_loop1 fuel gas lim (Some Rr) (r + 1) h0) Hnx HC HR N1 N2 N3)
      as [h3 [E [Len3 [E3C [E3R [E3n Eo]]]]]].
    rewrite E. clear E.
    assert (Hz3 : trepr h3 (G.node_right (G.mk_node (G.node_X crr) (Some C) (G.node_right crr))) z Fz).
    { cbn [G.node_right]. apply (trepr_agree h); [exact Hz|]. intros j Hj.
      apply Eo; intros ->; [apply Nnx|apply NCr|apply NRz]; inl; tauto. }
    specialize (IH z h3 Rr _ Fz fuel gas lim (r + 1) E3R Hz3 NRz ltac:(lia) ltac:(lia)).
    eapply rel_map; [exact IH|]. cbn [snd].
    intros z' [[last r'] h'] [cR' [F' [ER' [EX [EL [Rz' [I1 [I2 [Fr' Len']]]]]]]]]. cbn [snd] in *.
    cbn [G.node_X G.node_left] in EX, EL.
    eexists. split; [reflexivity|].
    destruct Fr' as [_ Eo'].
    assert (Eold : forall j, j <> Rr -> ~ In j Fz -> (j < length h)%nat -> nth_error h' j = nth_error h3 j).
    { intros j J1 J2 J3. apply Eo'; [lia|]. intros [X|X]; [congruence|contradiction]. }
    assert (HC' : nth_error h' C = Some (G.mk_node (G.node_X cc) (G.node_left cc) (G.node_left crr))).
    { rewrite Eold; [exact E3C|exact N3| |apply nth_error_Some; rewrite HC; discriminate].
      intros X. apply NCr. inl. tauto. }
    assert (Hn' : nth_error h' nx = Some (G.mk_node (G.node_X cn) (G.node_left cn) (Some Rr))).
    { rewrite Eold; [exact E3n|exact N2| |apply nth_error_Some; rewrite Hnx; discriminate].
      intros X. apply Nnx. inl. tauto. }
    assert (Hx' : trepr h' (G.node_left cc) x Fx).
    { apply (trepr_agree h); [exact Hx|]. intros j Hj.
      pose proof (Hd1 j Hj) as D. pose proof (trepr_bound h _ _ _ Hx j Hj) as B.
      rewrite Eold; [apply Eo| | |exact B]; try (intros ->); try (intros X); inl; tauto. }
    assert (Hy' : trepr h' (G.node_left crr) y Fy).
    { apply (trepr_agree h); [exact Hy|]. intros j Hj.
      pose proof (Hd2 j Hj) as D. pose proof (trepr_bound h _ _ _ Hy j Hj) as B.
      rewrite Eold; [apply Eo| | |exact B]; try (intros ->); try (intros X); inl; tauto. }
    exists (G.mk_node (G.node_X cn) (G.node_left cn) (Some Rr)), (Rr :: (C :: Fx ++ Fy) ++ F').
    split; [exact Hn'|]. split; [reflexivity|]. split; [reflexivity|]. cbn [G.node_right].
    split; [|split; [|split; [|split]]].
    + apply (trepr_mk h' Rr cR' _ z' (C :: Fx ++ Fy) F' ER').
      * rewrite EL. apply (trepr_mk h' C _ x y Fx Fy HC'); cbn [G.node_left G.node_right G.node_X]; auto.
        -- intros X. apply NCr. inl. tauto.
        -- intros j Hj X. apply (Hd1 j Hj). inl. tauto.
      * exact Rz'.
      * intros X. inl. destruct X as [X|[X|X]]; [congruence|apply (Hd1 Rr X); inl; tauto|tauto].
      * intros X. apply NRz, I1, X.
      * intros j Hj X. apply I1 in X. pose proof (Hd1 j). pose proof (Hd2 j). inl.
        destruct Hj as [<-|[Hj|Hj]]; tauto.
      * symmetry. exact EX.
    + intros j Hj. pose proof (I1 j). inl. tauto.
    + intros j Hj. pose proof (I2 j). inl. tauto.
    + split; [lia|]. intros j Hj Nj. rewrite Eold; [apply Eo| | |exact Hj]; try (intros ->); try (intros X); apply Nj; inl; tauto.
    + lia.
Qed.

(* func rotateLeft[T any](n *node[T], count int), n = the cell nx *)
Theorem C02_rotateLeft_is_source : forall (chain : tree) (h : heap) (nx : nat) (cn : G.node T) (Fc : list nat)
                                          (count : Z) (fuel : nat),
  nth_error h nx = Some cn -> trepr h (G.node_right cn) chain Fc -> ~ In nx Fc ->
  (fuel > Z.to_nat count)%nat ->
  rel (rot_post h nx cn Fc) (SM.rotate_left chain count) (G.rotateLeft (Some nx) count h fuel).
Proof.
  intros chain h nx cn Fc count fuel Hnx R Nnx Hf. unfold G.rotateLeft, SM.rotate_left, rot_count.
  pose proof (rot_loop_ok (Z.to_nat count) chain h nx cn Fc fuel fuel count 0 Hnx R Nnx
                ltac:(f_equal; lia) Hf) as P.
  destruct (SM.rotate_left_n (Z.to_nat count) chain) as [c'| | |]; cbn [rel] in *; auto.
  - destruct P as [[[last r'] h'] [E P]]. rewrite E. cbn [bind snd] in *. exists h'. split; [reflexivity|exact P].
  - rewrite P. reflexivity.
Qed.

End Rotate.

Print Assumptions C02_rotateLeft_is_source.
