(* ring/ring.go: At, Peek, scan, Each, Len -- model = generated function (see RingTieBase.v).
   These functions only read the heap: the generated functions take it as an argument and do not
   return it; every statement has two parts: the result (res_le with the fuel bound, the model's
   budget being the heap size + 1) and "the model leaves the heap unchanged".

   At holds one of the method expressions ( *Ring[T]).Next / ( *Ring[T]).Prev in a variable; the
   generated code binds a lambda over the receiver and the heap; the model has a boolean [back]. *)
From Coq Require Import ZArith List Bool Arith Lia.
From Mds Require Import Gen.RingIdx Ring.RingBase.
From Mds Require Import Common.FnRt Common.FnHeap GenTie.TieLib GenTie.RingTieBase GenTie.RingTieOps.
Import ListNotations.
Import RingNotations.
Local Open Scope Z_scope.

Section Walk.
Context {T : Type}.
Variable zero : T.
Notation heap := (RingBase.heap T).

(* ---- At ---- *)
Definition gdir (back : bool) : option nat -> list (G.Ring T) -> res (option nat) :=
  if back then (fun a0 h_ => G.Ring_Prev a0 h_) else (fun a0 h_ => G.Ring_Next a0 h_).

Definition at_end (t : ctl (Z * option nat) (option nat)) : res (option nat) :=
  match t with Ret x => Ok x | Next (_, cur) => Ok cur end.

Lemma at_loop_keeps : forall norm f back step r cur n, keeps (Pl.at_loop_gen (T:=T) norm f back step r cur n).
Proof.
  induction f as [|f IH]; intros; cbn [Pl.at_loop_gen].
  - apply keeps_if; [apply keeps_oof | apply keeps_ret].
  - apply keeps_if; [|apply keeps_ret].
    apply keeps_bind.
    + destruct back; [apply keeps_get_prev | apply keeps_get_next].
    + intro c. apply keeps_if; [apply keeps_ret | apply IH].
Qed.

Lemma at_loop_le : forall (f gas fuel : nat) (back : bool) (step : Z) (r cur : ptr) (n : Z) (h : heap),
  (gas > f)%nat ->
  res_le (embr idf (Pl.at_loop_gen (fun z => z) f back step r cur n h))
         (bind (G.Ring_At_loop1 fuel gas r (gdir back) step (henc h) n cur) at_end).
Proof.
  induction f as [|f IH]; intros gas fuel back step r cur n h Hg; (destruct gas as [|gas]; [lia|]);
    cbn [Pl.at_loop_gen G.Ring_At_loop1]; unfold at_more; destruct (negb (n =? 0)) eqn:En; try fin.
  unfold RingBase.bind at 1. unfold at_wrapped, at_dec.
  destruct back; cbn [gdir]; unfold Pl.prev_of, Pl.next_of, G.Ring_Prev, G.Ring_Next.
  - gstep. mload (@get_prev T) (@get_prev_heap T) cur h c. cbn [bind].
    rewrite enc_eqb. destruct (go_peq c r); [fin|]. apply (IH gas fuel true); lia.
  - gstep. mload (@get_next T) (@get_next_heap T) cur h c. cbn [bind].
    rewrite enc_eqb. destruct (go_peq c r); [fin|]. apply (IH gas fuel false); lia.
Qed.

Theorem C10_ring_at_is_source : forall (r : ptr) (n : Z) (h : heap) (fuel : nat),
  (fuel > S (size h))%nat ->
  res_le (embr idf (Mo.at_ r n h)) (G.Ring_At r n (henc h) fuel) /\ fst (Mo.at_ r n h) = h.
Proof.
  intros r n h fuel Hf. unfold Mo.at_. rewrite mp_at_gen. unfold Pl.at_gen, G.Ring_At, at_nil, at_neg.
  rewrite enc_nil. destruct (go_pnil r); [split; fin|].
  split.
  - unfold RingBase.bind at 1. cbn [heap_size].
    destruct (n <? 0).
    + apply (at_loop_le (S (size h)) fuel fuel true); exact Hf.
    + apply (at_loop_le (S (size h)) fuel fuel false); exact Hf.
  - unfold RingBase.bind at 1. cbn [heap_size].
    destruct (n <? 0); apply at_loop_keeps.
Qed.

(* ---- Peek ---- *)
Theorem C10_ring_peek_is_source : forall (r : ptr) (n : Z) (h : heap) (fuel : nat),
  (fuel > S (size h))%nat ->
  res_le (embr idf (Mo.peek T zero r n h)) (G.Ring_Peek r n (henc h) zero fuel) /\
  fst (Mo.peek T zero r n h) = h.
Proof.
  intros r n h fuel Hf. destruct (C10_ring_at_is_source r n h fuel Hf) as [L K].
  unfold Mo.peek. rewrite mp_peek_gen. unfold Mo.at_ in L, K. rewrite mp_at_gen in L, K.
  unfold Pl.peek_gen, G.Ring_Peek, peek_at_arg, peek_nil. unfold RingBase.bind at 1 3.
  destruct (Pl.at_gen (fun z => z) r n h) as [h' [cur| | |]]; cbn [fst] in K; subst h'; cbn [embr] in L; unfold idf in L.
  2,3: (apply res_le_eq in L; [|discriminate]); rewrite L; split; fin.
  2: split; fin.
  apply res_le_eq in L; [|discriminate]. rewrite L. cbn [bind]. rewrite enc_nil.
  destruct (go_pnil cur); [split; fin|].
  split.
  - gstep. unfold RingBase.bind at 1. mload (@get_val T) (@get_val_heap T) cur h v.
  - apply keeps_bind; [apply keeps_get_val | intro; apply keeps_ret].
Qed.

(* ---- scan ---- *)
(* the model's callback is a heap-passing function over an accumulator; the generated one threads
   its state and does not see the heap.  They correspond when the model's callback leaves the heap
   unchanged and answers like the generated one. *)
Definition cb_rel {A} (mf : A -> ptr -> RingBase.M T (A * bool)) (gf : A -> option nat -> res (bool * A)) (h : heap) : Prop :=
  forall acc p, gf acc p = embr (fun x => (snd x, fst x)) (mf acc p h) /\ fst (mf acc p h) = h.

Definition scan_end {A} (t : ctl (A * option nat) A) : res A :=
  match t with Ret x => Ok x | Next (st, _) => Ok st end.

Lemma scan_loop_keeps : forall A (mf : A -> ptr -> RingBase.M T (A * bool)) (h : heap),
  (forall acc p, fst (mf acc p h) = h) ->
  forall (f : nat) (r cur : ptr) (acc : A), fst (Pl.scan_loop f r mf cur acc h) = h.
Proof.
  intros A mf h Hk. induction f as [|f IH]; intros r cur acc; [reflexivity|].
  cbn [Pl.scan_loop]. unfold RingBase.bind at 1. specialize (Hk acc cur).
  destruct (mf acc cur h) as [h' [[acc' b]| | |]]; cbn [fst] in Hk; subst h'; cbn [fst snd]; try reflexivity.
  destruct b; [|reflexivity].
  unfold RingBase.bind at 1. assert (E := get_next_heap cur h).
  destruct (get_next cur h) as [h' [cn| | |]]; cbn [fst] in E; subst h'; try reflexivity.
  destruct (scan_back (enc cn) (enc r)); [reflexivity|].
  unfold RingBase.bind at 1. assert (E2 := get_next_heap cur h).
  destruct (get_next cur h) as [h' [cn'| | |]]; cbn [fst] in E2; subst h'; try reflexivity.
  apply IH.
Qed.

Lemma scan_loop_le : forall A (mf : A -> ptr -> RingBase.M T (A * bool)) gf (h : heap),
  cb_rel mf gf h ->
  forall (f gas fuel : nat) (r cur : ptr) (acc : A), (gas >= f)%nat ->
  res_le (embr idf (Pl.scan_loop f r mf cur acc h))
         (bind (G.scan_loop1 fuel gas r gf (henc h) acc cur) scan_end).
Proof.
  intros A mf gf h Hcb. induction f as [|f IH]; intros gas fuel r cur acc Hg.
  - fin.
  - destruct gas as [|gas]; [lia|]. cbn [Pl.scan_loop G.scan_loop1].
    destruct (Hcb acc cur) as [Hg1 Hk1]. rewrite Hg1. unfold RingBase.bind at 1.
    destruct (mf acc cur h) as [h' [[acc' b]| | |]]; cbn [fst] in Hk1; subst h'; cbn [embr bind fst snd]; try fin.
    destruct b; [|fin].
    unfold scan_back.
    gstep. unfold RingBase.bind at 1. mload (@get_next T) (@get_next_heap T) cur h cn.
    rewrite enc_eqb. destruct (go_peq cn r); [fin|].
    gstep. unfold RingBase.bind at 1. mload (@get_next T) (@get_next_heap T) cur h cn'.
    apply IH. lia.
Qed.

Theorem C10_ring_scan_is_source : forall A (mf : A -> ptr -> RingBase.M T (A * bool)) gf (r : ptr) (acc : A) (h : heap) (fuel : nat),
  cb_rel mf gf h -> (fuel > size h)%nat ->
  res_le (embr idf (Mo.scan r mf acc h)) (G.scan r gf acc (henc h) fuel) /\ fst (Mo.scan r mf acc h) = h.
Proof.
  intros A mf gf r acc h fuel Hcb Hf. rewrite mp_scan. unfold Pl.scan, G.scan, scan_nil.
  rewrite enc_nil. destruct (go_pnil r); [split; fin|].
  split.
  - unfold RingBase.bind at 1. cbn [heap_size].
    apply (scan_loop_le A mf gf h Hcb (S (size h)) fuel fuel r r acc). lia.
  - unfold RingBase.bind at 1. cbn [heap_size].
    apply scan_loop_keeps. intros a p. apply (proj2 (Hcb a p)).
Qed.

(* ---- Each: for every total stateful callback g ---- *)
Theorem C10_ring_each_scan_is_source : forall St (g : St -> T -> bool * St) (r : ptr) (st : St) (h : heap) (fuel : nat),
  (fuel > size h)%nat ->
  res_le (embr idf (Mo.scan r (fun acc cur => v <- get_val cur ;; ret (snd (g acc v), fst (g acc v))) st h))
         (G.Ring_Each r (fun s v => Ok (g s v)) st (henc h) fuel).
Proof.
  intros St g r st h fuel Hf. unfold G.Ring_Each.
  refine (proj1 (C10_ring_scan_is_source St _ _ r st h fuel _ Hf)).
  intros acc p. split.
  - gstep. unfold RingBase.bind. mload (@get_val T) (@get_val_heap T) p h v.
    cbn [embr fst snd ret]. destruct (g acc v); reflexivity.
  - apply keeps_bind; [apply keeps_get_val | intro; apply keeps_ret].
Qed.

(* the model's Each: the callback answers false on its lim-th call; the values it received *)
Theorem C10_ring_each_is_source : forall (r : ptr) (lim : nat) (h : heap) (fuel : nat),
  (fuel > size h)%nat ->
  res_le (embr idf (Mo.each r lim h))
         (bind (G.Ring_Each r (fun (s : list T * nat) v => Ok (negb (Nat.eqb (S (snd s)) lim), (fst s ++ [v], S (snd s))))
                  ([], O) (henc h) fuel)
               (fun s => Ok (fst s))) /\
  fst (Mo.each r lim h) = h.
Proof.
  intros r lim h fuel Hf. rewrite mp_each. unfold Pl.each, each_cb_ret.
  set (mf := fun (acc : list T * nat) (cur : ptr) => v <- get_val cur;; ret (fst acc ++ [v], S (snd acc), negb (Nat.eqb (S (snd acc)) lim))).
  set (gf := fun (s : list T * nat) (v : T) => Ok (negb (Nat.eqb (S (snd s)) lim), (fst s ++ [v], S (snd s)))).
  assert (Hcb : cb_rel mf (fun f_st cur => bind (go_hget (henc h) cur) (fun t1 => gf f_st (G.Ring_Value t1))) h).
  { intros acc p. split.
    - gstep. unfold mf, RingBase.bind. mload (@get_val T) (@get_val_heap T) p h v.
    - apply keeps_bind; [apply keeps_get_val | intro; apply keeps_ret]. }
  destruct (C10_ring_scan_is_source _ mf _ r ([], O) h fuel Hcb Hf) as [L K]. rewrite mp_scan in L, K.
  unfold G.Ring_Each. unfold RingBase.bind at 1 2.
  destruct (Pl.scan r mf ([], 0%nat) h) as [h' [x| | |]]; cbn [fst] in K; subst h'; cbn [embr] in L; unfold idf in L.
  4: split; fin.
  all: (apply res_le_eq in L; [|discriminate]); rewrite L; split; fin.
Qed.

(* ---- Len ---- *)
Theorem C10_ring_len_is_source : forall (r : ptr) (h : heap) (fuel : nat),
  (fuel > size h)%nat ->
  res_le (embr idf (Mo.len r h)) (G.Ring_Len r (henc h) fuel) /\ fst (Mo.len r h) = h.
Proof.
  intros r h fuel Hf. rewrite mp_len. unfold Pl.len, G.Ring_Len, len_nil, len_inc.
  rewrite enc_nil. destruct (go_pnil r); [split; fin|].
  set (mf := fun (n : Z) (_ : ptr) => @ret T _ (n + 1, true)).
  assert (Hcb : cb_rel mf (fun n (_ : option nat) => Ok (true, n + 1)) h).
  { intros acc p. split; reflexivity. }
  destruct (C10_ring_scan_is_source _ mf _ r 0 h fuel Hcb Hf) as [L K]. rewrite mp_scan in L, K.
  unfold RingBase.bind at 1 2.
  destruct (Pl.scan r mf 0 h) as [h' [x| | |]]; cbn [fst] in K; subst h'; cbn [embr] in L; unfold idf in L.
  4: split; fin.
  all: (apply res_le_eq in L; [|discriminate]); rewrite L; split; fin.
Qed.

End Walk.

Print Assumptions C10_ring_at_is_source.
Print Assumptions C10_ring_peek_is_source.
Print Assumptions C10_ring_scan_is_source.
Print Assumptions C10_ring_each_scan_is_source.
Print Assumptions C10_ring_each_is_source.
Print Assumptions C10_ring_len_is_source.
