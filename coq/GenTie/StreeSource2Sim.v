(* stree, source-level histories over SEVERAL trees (definitions: StreeSource2.v): the simulation.

   [msim st ts Fs]: the i-th Tree record of the generated state stands for the i-th Tree of the
   model's state ts on the tree-shaped region Fs[i] (trepr) of the ONE heap; its compare, limit
   and β fields are the run's; the regions are pairwise DISJOINT and lie beyond the initial heap
   h0, no cell of which has changed.

   mstep_sim: one step of the generated code answers what the model's multi-tree [step] answers
   and re-establishes msim.  Mutators: the ties C01_add/replace/tree_remove/clear_is_source with
   their frame clauses [sub h F F'] (the new region uses old cells of the SAME tree or fresh
   cells) and [frame h h' F] (no old cell outside F changed): every other tree's region is
   untouched (trepr_frame) and stays disjoint.  Clone: C01_tree_clone_is_source -- the copy is a
   region of cells allocated beyond the old heap, the old heap is a prefix of the new one.
   InorderAfter: C01_tree_inorderAfter_is_source (the generated method).

   With PH.step_refines (the core of C01_history: the model's step refines the sorted-list
   reference's): mrun = mref_run for every history, from ANY β field (New is not part of the
   histories, so its range check on β is not either). *)
From Coq Require Import ZArith List Bool Arith Lia.
From Mds Require Import Gen.StreeConst Gen.StreeNode.
From Mds Require Import Common.FnRt Common.FnHeap GenTie.TieLib GenTie.StreeTieBase GenTie.StreeSep
  GenTie.StreeTieRead GenTie.StreeTieWalk GenTie.StreeTieMutField GenTie.StreeTieMutTree
  GenTie.StreeTieMutClone GenTie.StreeTieRest GenTie.StreeSource GenTie.StreeSourceSim GenTie.StreeSource2.
From Mds Require Stree.StreeSpec Stree.StreeProofsBase Stree.StreeProofsHist.
Import ListNotations.
Local Open Scope Z_scope.

(* ---- lists ---- *)
Lemma set_nth_length (A : Type) (a : A) : forall i l, length (SM.set_nth i a l) = length l.
Proof. induction i as [|i IH]; intros [|x l]; cbn; auto. Qed.

Lemma nth_set_same (A : Type) (a : A) : forall i l, (i < length l)%nat -> nth_error (SM.set_nth i a l) i = Some a.
Proof. induction i as [|i IH]; intros [|x l] H; cbn in *; try lia; [reflexivity|]. apply IH. lia. Qed.

Lemma nth_set_other (A : Type) (a : A) : forall i j l, j <> i -> nth_error (SM.set_nth i a l) j = nth_error l j.
Proof.
  induction i as [|i IH]; intros j [|x l] H; cbn; try reflexivity.
  - destruct j; [contradiction|reflexivity].
  - destruct j; [reflexivity|]. cbn. apply IH. intros ->. apply H. reflexivity.
Qed.

Lemma set_nth_id (A : Type) : forall i (l : list A) a, nth_error l i = Some a -> SM.set_nth i a l = l.
Proof.
  induction i as [|i IH]; intros [|x l] a H; cbn in *; try discriminate.
  - inversion H. reflexivity.
  - f_equal. apply IH. exact H.
Qed.

Lemma nth_len (A B : Type) (l : list A) (l' : list B) i a :
  length l = length l' -> nth_error l i = Some a -> exists b, nth_error l' i = Some b.
Proof.
  intros L H. destruct (nth_error l' i) as [b|] eqn:E; [exists b; reflexivity|].
  apply nth_error_None in E. assert (i < length l)%nat by (apply nth_error_Some; congruence). lia.
Qed.

Lemma nth_snoc (A : Type) (l : list A) a j x :
  nth_error (l ++ [a]) j = Some x ->
  ((j < length l)%nat /\ nth_error l j = Some x) \/ (j = length l /\ x = a).
Proof.
  intros H. destruct (Nat.lt_ge_cases j (length l)) as [L|L].
  - left. split; [exact L|]. rewrite nth_error_app1 in H by exact L. exact H.
  - right. rewrite nth_error_app2 in H by exact L.
    destruct (j - length l)%nat as [|m] eqn:E; cbn in H.
    + inversion H. split; [lia|reflexivity].
    + destruct m; discriminate.
Qed.

Lemma F2_length (A B : Type) (P : A -> B -> Prop) (l : list A) (l' : list B) : Forall2 P l l' -> length l = length l'.
Proof. induction 1; cbn; congruence. Qed.

(* ---- the model's history a source-level history stands for ---- *)
Definition at_op {T : Type} (i : nat) (o : sop T) : SM.op T :=
  match o with
  | SAdd k => SM.OAdd i k
  | SReplace k => SM.OReplace i k
  | SRemove k => SM.ORemove i k
  | SClear => SM.OClear i
  | SGet k => SM.OGet i k
  | SMin => SM.OMin i
  | SMax => SM.OMax i
  | SLen => SM.OLen i
  | SIsEmpty => SM.OIsEmpty i
  | SInorder stop => SM.OInorder i stop
  | SInorderAfter k stop => SM.OInorderAfter i k stop
  end.

Definition to_mop {T : Type} (o : mop T) : SM.op T :=
  match o with MClone i => SM.OClone i | MOn i o' => at_op i o' end.

(* an output of the model / the reference as the machine reports it *)
Definition mview {T : Type} (zero : T) (o : mop T) (x : SM.out T) : option (gout T) :=
  match x with
  | SM.RNoTree => None
  | _ => Some (match o with MClone _ => GUnit | MOn _ o' => view zero o' x end)
  end.

(* a cell reachable from a represented root lies in the footprint *)
Lemma hreach_in {T : Type} (h : list (G.node T)) : forall a (t : SM.tree T) F, trepr h a t F ->
  forall x d, hreach h a x d -> In x F.
Proof.
  intros a t F R. induction R as [|a c l r Fl Fr Hn Rl IHl Rr IHr _ _ _]; intros x d H.
  - inversion H.
  - inversion H as [a0 c0 E0|a0 c0 x0 d0 E0 H0|a0 c0 x0 d0 E0 H0]; subst.
    + left. reflexivity.
    + right. apply in_app_iff. left. rewrite Hn in E0. inversion E0; subst c0. apply (IHl x d0 H0).
    + right. apply in_app_iff. right. rewrite Hn in E0. inversion E0; subst c0. apply (IHr x d0 H0).
Qed.

Section Sim2.
Context {T : Type}.
Variable cmp : T -> T -> Z.
Hypothesis HP : SP.total_preorder cmp.
Variable limit : Z -> Z -> Z.
Variable zero : T.
Variable b : Z.
Variable h0 : list (G.node T).
Notation heap := (list (G.node T)).
Notation gstep2 := (gstep2 zero).
Notation mstep := (mstep zero).
Notation mrun := (mrun zero).
Notation mexec := (mexec zero).
Notation mref_step := (mref_step zero cmp).
Notation mref_run := (mref_run zero cmp).
Notation mref_exec := (mref_exec zero cmp).

Lemma rel_count2 (t : SM.Tree T) l : PH.rel T cmp t l -> SM.count (SM.root t) = Z.to_nat (SM.tsize t).
Proof. intros (I & _ & Z). rewrite Z, Nat2Z.id, <- I. symmetry. apply PB.count_inorder. Qed.

(* ---- one tree: the step with its frame clauses ---- *)
Definition lsim (st : gst T) (t : SM.Tree T) (F : list nat) : Prop :=
  g_size st = SM.tsize t /\ g_max st = SM.maxsize t /\ SM.beta t = b /\
  trepr (g_heap st) (g_root st) (SM.root t) F.

Lemma lsim_mut (st : gst T) (t t' : SM.Tree T) (ok : bool) (F : list nat)
      (g : res (bool * option nat * Z * Z * heap)) :
  trepr (g_heap st) (g_root st) (SM.root t) F -> SM.beta t = b ->
  StreeSep.rel (tree_post (g_heap st) F t) (SM.Ok (t', ok)) g ->
  exists st' F', g_mut st g = (st', GBool ok) /\ lsim st' t' F' /\
                 sub (g_heap st) F F' /\ frame (g_heap st) (g_heap st') F.
Proof.
  intros R Hb [[[[[ok' a'] sz] mx] h'] [-> [-> [-> [-> [Hb' [F' [R' [S' Fr']]]]]]]]].
  cbn [g_mut]. exists (mk_gst h' a' (SM.tsize t') (SM.maxsize t')), F'. split; [reflexivity|].
  unfold lsim. cbn [g_heap g_root g_size g_max]. repeat split; try assumption; try congruence; apply Fr'.
Qed.

Lemma step_notree (ts : list (SM.Tree T)) (i : nat) (o : sop T) :
  nth_error ts i = None -> SM.step cmp limit ts (at_op i o) = (ts, SM.RNoTree).
Proof.
  intros E. destruct o; cbn [at_op SM.step]; unfold SM.step_mut, SM.step_obs; rewrite E; reflexivity.
Qed.

Lemma gstep2_local (ts : list (SM.Tree T)) (i : nat) (st : gst T) (t : SM.Tree T) (l : list T)
      (F : list nat) (o : sop T) :
  nth_error ts i = Some t -> lsim st t F -> PH.rel T cmp t l ->
  exists st' t' F',
    gstep2 cmp limit b st o = (st', view zero o (snd (SM.step cmp limit ts (at_op i o)))) /\
    snd (SM.step cmp limit ts (at_op i o)) <> SM.RNoTree /\
    fst (SM.step cmp limit ts (at_op i o)) = SM.set_nth i t' ts /\
    lsim st' t' F' /\ sub (g_heap st) F F' /\ frame (g_heap st) (g_heap st') F.
Proof.
  intros Hn Hs Hr. pose proof (rel_count2 t l Hr) as Hc.
  pose proof (depth_le_count (SM.root t)) as Hd.
  pose proof Hs as Hs0. pose proof (eq_sym (set_nth_id _ i ts t Hn)) as Hid.
  destruct st as [h r sz mx]. destruct Hs as [Esz [Emx [Hb R]]].
  cbn [g_heap g_root g_size g_max] in *. subst sz mx.
  pose proof (trepr_repr _ _ _ _ R) as Rr.
  destruct o as [k|k|k| |k| | | | |stop|k stop]; cbn [StreeSource2.gstep2 at_op SM.step];
    try unfold StreeSource.gstep; cbn [g_heap g_root g_size g_max]; unfold fuel_for.
  - (* Add *)
    destruct (PH.Add_ok T cmp HP limit t l k Hr) as [t' [E [_ _]]].
    unfold SM.step_mut. rewrite Hn. cbn beta iota. rewrite E. cbn [fst snd view].
    pose proof (C01_add_is_source cmp limit zero t h r F k (2 * Z.to_nat (SM.tsize t) + 7) R ltac:(lia)) as Tie.
    rewrite E, Hb in Tie.
    destruct (lsim_mut (mk_gst h r (SM.tsize t) (SM.maxsize t)) t t' _ F _ R Hb Tie) as [st' [F' [Eg [Hs' [Sb Fr]]]]].
    exists st', t', F'. split; [exact Eg|]. split; [discriminate|]. split; [reflexivity|]. split; [exact Hs'|]. split; assumption.
  - (* Replace *)
    destruct (PH.Replace_ok T cmp HP limit t l k Hr) as [t' [E [_ _]]].
    unfold SM.step_mut. rewrite Hn. cbn beta iota. rewrite E. cbn [fst snd view].
    pose proof (C01_replace_is_source cmp limit zero t h r F k (2 * Z.to_nat (SM.tsize t) + 7) R ltac:(lia)) as Tie.
    rewrite E, Hb in Tie.
    destruct (lsim_mut (mk_gst h r (SM.tsize t) (SM.maxsize t)) t t' _ F _ R Hb Tie) as [st' [F' [Eg [Hs' [Sb Fr]]]]].
    exists st', t', F'. split; [exact Eg|]. split; [discriminate|]. split; [reflexivity|]. split; [exact Hs'|]. split; assumption.
  - (* Remove *)
    destruct (PH.Remove_ok T cmp HP t l k Hr) as [t' [E [_ _]]].
    unfold SM.step_mut. rewrite Hn. cbn beta iota. rewrite E. cbn [fst snd view].
    pose proof (C01_tree_remove_is_source cmp zero t h r F k (2 * Z.to_nat (SM.tsize t) + 7) R ltac:(lia) ltac:(lia)) as Tie.
    rewrite E, Hb in Tie.
    destruct (lsim_mut (mk_gst h r (SM.tsize t) (SM.maxsize t)) t t' _ F _ R Hb Tie) as [st' [F' [Eg [Hs' [Sb Fr]]]]].
    exists st', t', F'. split; [exact Eg|]. split; [discriminate|]. split; [reflexivity|]. split; [exact Hs'|]. split; assumption.
  - (* Clear *)
    rewrite Hn. cbn [fst snd view].
    destruct (C01_clear_is_source t h r) as [a' [E [R' B']]]. rewrite E.
    exists (mk_gst h a' (SM.tsize (SM.Clear t)) (SM.maxsize (SM.Clear t))), (SM.Clear t), [].
    split; [reflexivity|]. split; [discriminate|]. split; [reflexivity|].
    split; [unfold lsim; cbn [g_heap g_root g_size g_max]; repeat split; try assumption; congruence|].
    split; [intros k0 []|apply frame_refl].
  - (* Get *)
    unfold SM.step_obs, g_obs. rewrite Hn. cbn [fst snd].
    rewrite (C01_get_is_source cmp zero h r (SM.root t) k _ Rr) by lia.
    exists (mk_gst h r (SM.tsize t) (SM.maxsize t)), t, F.
    split; [unfold SM.Get; cbn [view]; destruct (SM.get cmp k (SM.root t)); reflexivity|].
    split; [discriminate|]. split; [exact Hid|]. split; [exact Hs0|]. split; [apply sub_refl|apply frame_refl].
  - (* Min *)
    unfold SM.step_obs, g_obs. rewrite Hn. cbn [fst snd].
    rewrite (C01_min_is_source zero h r (SM.root t) _ Rr) by lia.
    exists (mk_gst h r (SM.tsize t) (SM.maxsize t)), t, F.
    split; [reflexivity|]. split; [discriminate|]. split; [exact Hid|]. split; [exact Hs0|].
    split; [apply sub_refl|apply frame_refl].
  - (* Max *)
    unfold SM.step_obs, g_obs. rewrite Hn. cbn [fst snd].
    rewrite (C01_max_is_source zero h r (SM.root t) _ Rr) by lia.
    exists (mk_gst h r (SM.tsize t) (SM.maxsize t)), t, F.
    split; [reflexivity|]. split; [discriminate|]. split; [exact Hid|]. split; [exact Hs0|].
    split; [apply sub_refl|apply frame_refl].
  - (* Len *)
    unfold SM.step_obs. rewrite Hn. cbn [fst snd]. rewrite (C01_len_is_source t).
    exists (mk_gst h r (SM.tsize t) (SM.maxsize t)), t, F.
    split; [reflexivity|]. split; [discriminate|]. split; [exact Hid|]. split; [exact Hs0|].
    split; [apply sub_refl|apply frame_refl].
  - (* IsEmpty *)
    unfold SM.step_obs. rewrite Hn. cbn [fst snd]. rewrite (C01_isempty_is_source t).
    exists (mk_gst h r (SM.tsize t) (SM.maxsize t)), t, F.
    split; [reflexivity|]. split; [discriminate|]. split; [exact Hid|]. split; [exact Hs0|].
    split; [apply sub_refl|apply frame_refl].
  - (* Inorder *)
    unfold SM.step_obs, g_obs, collect. rewrite Hn. cbn [fst snd].
    rewrite (C01_tree_inorder_is_source (SM.yield_log stop) _ h r (SM.root t) ([], O) Rr) by lia.
    exists (mk_gst h r (SM.tsize t) (SM.maxsize t)), t, F.
    split; [reflexivity|]. split; [discriminate|]. split; [exact Hid|]. split; [exact Hs0|].
    split; [apply sub_refl|apply frame_refl].
  - (* InorderAfter: the generated METHOD *)
    unfold SM.step_obs, g_obs, collect, SM.InorderAfter. rewrite Hn. cbn [fst snd].
    destruct (C01_tree_inorderAfter_is_source cmp (SM.yield_log stop) h r (SM.root t) k ([], O)
                (2 * Z.to_nat (SM.tsize t) + 7) Rr ltac:(lia)) as [[lg ok] [E1 E2]].
    rewrite E1, E2.
    exists (mk_gst h r (SM.tsize t) (SM.maxsize t)), t, F.
    split; [reflexivity|]. split; [discriminate|]. split; [exact Hid|]. split; [exact Hs0|].
    split; [apply sub_refl|apply frame_refl].
Qed.

Lemma gstep2_limit (st : gst T) (o : sop T) :
  gstep2 cmp (fun _ => limit b) b st o = gstep2 cmp limit b st o.
Proof. destruct o; reflexivity. Qed.

(* ---- several trees ---- *)
Definition tsim (h : heap) (g : G.Tree T) (t : SM.Tree T) (F : list nat) : Prop :=
  G.Tree_size g = SM.tsize t /\ G.Tree_max g = SM.maxsize t /\ G.Tree_β g = b /\ SM.beta t = b /\
  G.Tree_compare g = cmp /\ G.Tree_limit g = limit b /\
  trepr h (G.Tree_root g) (SM.root t) F /\ (forall k, In k F -> (length h0 <= k)%nat).

Definition msim (st : mst T) (ts : list (SM.Tree T)) (Fs : list (list nat)) : Prop :=
  length (m_trees st) = length ts /\ length Fs = length ts /\
  (forall i g t F, nth_error (m_trees st) i = Some g -> nth_error ts i = Some t -> nth_error Fs i = Some F ->
     tsim (m_heap st) g t F) /\
  (forall i j Fi Fj k, i <> j -> nth_error Fs i = Some Fi -> nth_error Fs j = Some Fj -> In k Fi -> ~ In k Fj) /\
  frame h0 (m_heap st) [].

Lemma msim_lookup st ts Fs i g : msim st ts Fs -> nth_error (m_trees st) i = Some g ->
  exists t F, nth_error ts i = Some t /\ nth_error Fs i = Some F /\ tsim (m_heap st) g t F.
Proof.
  intros [L1 [L2 [Hall _]]] Eg.
  destruct (nth_len _ _ _ ts i g L1 Eg) as [t Et].
  destruct (nth_len _ _ _ Fs i t (eq_sym L2) Et) as [F EF].
  exists t, F. split; [exact Et|]. split; [exact EF|]. apply (Hall i g t F Eg Et EF).
Qed.

Lemma msim_bound st ts Fs j Fj k : msim st ts Fs -> nth_error Fs j = Some Fj -> In k Fj ->
  (k < length (m_heap st))%nat.
Proof.
  intros [L1 [L2 [Hall _]]] EF Hk.
  destruct (nth_len _ _ _ ts j Fj L2 EF) as [t Et].
  destruct (nth_len _ _ _ (m_trees st) j t (eq_sym L1) Et) as [g Eg].
  destruct (Hall j g t Fj Eg Et EF) as (_ & _ & _ & _ & _ & _ & R & _).
  apply (trepr_bound _ _ _ _ R k Hk).
Qed.

Lemma msim_update st ts Fs i g t F h' g' t' F' :
  msim st ts Fs -> nth_error (m_trees st) i = Some g -> nth_error ts i = Some t -> nth_error Fs i = Some F ->
  tsim h' g' t' F' -> sub (m_heap st) F F' -> frame (m_heap st) h' F ->
  msim (mk_mst h' (SM.set_nth i g' (m_trees st))) (SM.set_nth i t' ts) (SM.set_nth i F' Fs).
Proof.
  intros H Eg Et EF Hts Hsub Hfr. pose proof H as [L1 [L2 [Hall [Hdis Fr0]]]].
  assert (Li1 : (i < length (m_trees st))%nat) by (apply nth_error_Some; congruence).
  assert (Li2 : (i < length ts)%nat) by (apply nth_error_Some; congruence).
  assert (Li3 : (i < length Fs)%nat) by (apply nth_error_Some; congruence).
  unfold msim. cbn [m_heap m_trees]. rewrite !set_nth_length.
  split; [exact L1|]. split; [exact L2|]. split; [|split].
  - intros j gj tj Fj E1 E2 E3. destruct (Nat.eq_dec j i) as [->|Ne].
    + rewrite nth_set_same in E1, E2, E3 by assumption.
      inversion E1; inversion E2; inversion E3; subst. exact Hts.
    + rewrite nth_set_other in E1, E2, E3 by exact Ne.
      destruct (Hall j gj tj Fj E1 E2 E3) as (A1 & A2 & A3 & A4 & A5 & A6 & R & B).
      repeat split; try assumption.
      apply (trepr_frame (m_heap st) h' _ _ Fj F R Hfr).
      intros k Hk Hk'. apply (Hdis j i Fj F k Ne E3 EF Hk Hk').
  - intros i1 j1 Fi Fj k Ne E1 E2 Hk Hk'.
    destruct (Nat.eq_dec i1 i) as [->|N1].
    + rewrite nth_set_same in E1 by assumption. inversion E1; subst Fi.
      rewrite nth_set_other in E2 by (intros X; apply Ne; congruence).
      destruct (Hsub k Hk) as [Y|Y].
      * apply (Hdis i j1 F Fj k Ne EF E2 Y Hk').
      * pose proof (msim_bound st ts Fs j1 Fj k H E2 Hk'). lia.
    + rewrite nth_set_other in E1 by exact N1.
      destruct (Nat.eq_dec j1 i) as [->|N2].
      * rewrite nth_set_same in E2 by assumption. inversion E2; subst Fj.
        destruct (Hsub k Hk') as [Y|Y].
        -- apply (Hdis i1 i Fi F k N1 E1 EF Hk Y).
        -- pose proof (msim_bound st ts Fs i1 Fi k H E1 Hk). lia.
      * rewrite nth_set_other in E2 by exact N2. apply (Hdis i1 j1 Fi Fj k Ne E1 E2 Hk Hk').
  - apply (frame_trans h0 (m_heap st) h' [] F Fr0); [|exact Hfr].
    intros k Hk. right. destruct (Hall i g t F Eg Et EF) as (_ & _ & _ & _ & _ & _ & _ & B). apply B. exact Hk.
Qed.

Lemma msim_append st ts Fs ext g' t' F' :
  msim st ts Fs -> tsim (m_heap st ++ ext) g' t' F' -> (forall k, In k F' -> (length (m_heap st) <= k)%nat) ->
  msim (mk_mst (m_heap st ++ ext) (m_trees st ++ [g'])) (ts ++ [t']) (Fs ++ [F']).
Proof.
  intros H Hts Hfresh. pose proof H as [L1 [L2 [Hall [Hdis Fr0]]]].
  unfold msim. cbn [m_heap m_trees]. rewrite !app_length. cbn [length].
  split; [lia|]. split; [lia|]. split; [|split].
  - intros j gj tj Fj E1 E2 E3.
    apply nth_snoc in E1. apply nth_snoc in E2. apply nth_snoc in E3.
    destruct E1 as [[La E1]|[Ea ->]]; destruct E2 as [[Lb E2]|[Eb ->]]; destruct E3 as [[Lc E3]|[Ec ->]]; try lia.
    + destruct (Hall j gj tj Fj E1 E2 E3) as (A1 & A2 & A3 & A4 & A5 & A6 & R & B).
      repeat split; try assumption. apply trepr_app. exact R.
    + exact Hts.
  - intros i1 j1 Fi Fj k Ne E1 E2 Hk Hk'.
    apply nth_snoc in E1. apply nth_snoc in E2.
    destruct E1 as [[La E1]|[Ea ->]]; destruct E2 as [[Lb E2]|[Eb ->]]; try lia.
    + apply (Hdis i1 j1 Fi Fj k Ne E1 E2 Hk Hk').
    + pose proof (msim_bound st ts Fs i1 Fi k H E1 Hk). specialize (Hfresh k Hk'). lia.
    + pose proof (msim_bound st ts Fs j1 Fj k H E2 Hk'). specialize (Hfresh k Hk). lia.
  - apply (frame_trans h0 (m_heap st) (m_heap st ++ ext) [] [] Fr0); [apply sub_refl|apply frame_app].
Qed.

(* what a step leaves alone: every tree other than the target keeps its record and the cells of
   its region; the region of a clone is made of fresh cells *)
Definition indep (st st' : mst T) (Fs Fs' : list (list nat)) (o : mop T) : Prop :=
  (length (m_heap st) <= length (m_heap st'))%nat /\
  (forall j g, mtarget o <> Some j -> nth_error (m_trees st) j = Some g -> nth_error (m_trees st') j = Some g) /\
  (forall j F, mtarget o <> Some j -> nth_error Fs j = Some F ->
     nth_error Fs' j = Some F /\ forall k, In k F -> nth_error (m_heap st') k = nth_error (m_heap st) k) /\
  (forall F', nth_error Fs' (length Fs) = Some F' -> forall k, In k F' -> (length (m_heap st) <= k)%nat).

Lemma indep_same st Fs o : indep st st Fs Fs o.
Proof.
  split; [lia|]. split; [auto|]. split; [auto|].
  intros F' E. assert (nth_error Fs (length Fs) = None) by (apply nth_error_None; lia). congruence.
Qed.

Lemma mview_on i o x : x <> SM.RNoTree -> mview zero (MOn i o) x = Some (view zero o x).
Proof. intros H. destruct x; try reflexivity. contradiction. Qed.

Lemma mstep_sim st ts Fs ls o : msim st ts Fs -> PH.Rel T cmp ts ls ->
  exists st' Fs',
    mstep st o = (st', mview zero o (snd (SM.step cmp limit ts (to_mop o)))) /\
    msim st' (fst (SM.step cmp limit ts (to_mop o))) Fs' /\ indep st st' Fs Fs' o.
Proof.
  intros H HR. pose proof H as [L1 [L2 [Hall [Hdis Fr0]]]].
  destruct o as [i|i o']; cbn [StreeSource2.mstep to_mop].
  - (* Clone *)
    cbn [SM.step].
    destruct (nth_error (m_trees st) i) as [g|] eqn:Eg.
    + destruct (msim_lookup st ts Fs i g H Eg) as [t [F [Et [EF Hts]]]].
      rewrite Et. cbn [fst snd mview].
      pose proof (PH.Rel_nth T cmp ts ls i HR) as N. rewrite Et in N.
      destruct (nth_error ls i) as [l|]; [|destruct N].
      destruct Hts as (A1 & A2 & A3 & A4 & A5 & A6 & R & B).
      pose proof (rel_count2 t l N) as Hc. pose proof (depth_le_count (SM.root t)) as Hd.
      destruct (C01_tree_clone_is_source (G.Tree_compare g) (m_heap st) (G.Tree_root g) (SM.root t)
                  (G.Tree_β g) (G.Tree_limit g) (G.Tree_size g) (G.Tree_max g) (fuel_for (G.Tree_size g))
                  (trepr_repr _ _ _ _ R)) as (a' & ext & F' & E & Tr & Fresh & _).
      { unfold fuel_for. rewrite A1. lia. }
      rewrite E. cbn [SM.Clone SM.root] in Tr.
      eexists. exists (Fs ++ [F']). split; [reflexivity|]. split.
      * apply msim_append; [exact H| |exact Fresh].
        unfold tsim. cbn [G.Tree_size G.Tree_max G.Tree_β G.Tree_compare G.Tree_limit G.Tree_root
                          SM.Clone SM.tsize SM.maxsize SM.beta SM.root].
        repeat split; try assumption.
        intros k Hk. specialize (Fresh k Hk). destruct Fr0 as [L0 _]. lia.
      * unfold indep. cbn [m_heap m_trees mtarget]. split; [rewrite app_length; lia|]. split; [|split].
        -- intros j gj _ Ej. rewrite nth_error_app1; [exact Ej|apply nth_error_Some; congruence].
        -- intros j Fj _ Ej. split; [rewrite nth_error_app1; [exact Ej|apply nth_error_Some; congruence]|].
           intros k Hk. apply nth_error_app1. apply (msim_bound st ts Fs j Fj k H Ej Hk).
        -- intros F1 E1. rewrite nth_error_app2 in E1 by lia. rewrite Nat.sub_diag in E1. cbn in E1.
           inversion E1; subst F1. exact Fresh.
    + assert (Et : nth_error ts i = None).
      { apply nth_error_None. apply nth_error_None in Eg. lia. }
      rewrite Et. cbn [fst snd mview]. exists st, Fs. split; [reflexivity|]. split; [exact H|].
      apply indep_same.
  - (* an op on tree i *)
    destruct (nth_error (m_trees st) i) as [g|] eqn:Eg.
    + destruct (msim_lookup st ts Fs i g H Eg) as [t [F [Et [EF Hts]]]].
      pose proof (PH.Rel_nth T cmp ts ls i HR) as N. rewrite Et in N.
      destruct (nth_error ls i) as [l|]; [|destruct N].
      pose proof Hts as (A1 & A2 & A3 & A4 & A5 & A6 & R & B).
      rewrite A3, A5, A6, gstep2_limit.
      assert (Hl : lsim (tree_gst (m_heap st) g) t F).
      { unfold lsim, tree_gst. cbn [g_heap g_root g_size g_max]. repeat split; assumption. }
      destruct (gstep2_local ts i (tree_gst (m_heap st) g) t l F o' Et Hl N)
        as [s' [t' [F' [E1 [NT [E2 [Hs' [Sb Fr]]]]]]]].
      rewrite E1, E2. rewrite (mview_on i o' _ NT).
      exists (mk_mst (g_heap s') (SM.set_nth i (tree_upd g s') (m_trees st))), (SM.set_nth i F' Fs).
      split; [reflexivity|].
      cbn [tree_gst g_heap] in Sb, Fr.
      destruct Hs' as [B1 [B2 [B3 B4]]].
      split.
      * apply (msim_update st ts Fs i g t F _ _ t' F' H Eg Et EF); [|exact Sb|exact Fr].
        unfold tsim, tree_upd. cbn [G.Tree_size G.Tree_max G.Tree_β G.Tree_compare G.Tree_limit G.Tree_root].
        repeat split; try assumption.
        intros k Hk. destruct (Sb k Hk) as [Y|Y]; [apply B; exact Y|]. destruct Fr0 as [L0 _]. lia.
      * unfold indep. cbn [m_heap m_trees mtarget]. split; [apply Fr|]. split; [|split].
        -- intros j gj Nj Ej. rewrite nth_set_other by congruence. exact Ej.
        -- intros j Fj Nj Ej. assert (Nji : j <> i) by congruence.
           split; [rewrite nth_set_other by exact Nji; exact Ej|].
           intros k Hk. apply Fr; [apply (msim_bound st ts Fs j Fj k H Ej Hk)|].
           intros Hk'. apply (Hdis j i Fj F k Nji Ej EF Hk Hk').
        -- intros F1 E1'.
           assert (nth_error (SM.set_nth i F' Fs) (length Fs) = None) by (apply nth_error_None; rewrite set_nth_length; lia).
           congruence.
    + assert (Et : nth_error ts i = None).
      { apply nth_error_None. apply nth_error_None in Eg. lia. }
      rewrite (step_notree ts i o' Et). cbn [fst snd mview]. exists st, Fs.
      split; [reflexivity|]. split; [exact H|]. apply indep_same.
Qed.

(* ---- the reference's multi-tree step (Stree/StreeSpec.v) read through mview is mref_step ---- *)
Lemma mref_spec (ls : list (list T)) (o : mop T) :
  mref_step ls o = (fst (SP.spec_step cmp ls (to_mop o)), mview zero o (snd (SP.spec_step cmp ls (to_mop o)))).
Proof.
  destruct o as [i|i o']; cbn [StreeSource2.mref_step to_mop].
  - cbn [SP.spec_step]. destruct (nth_error ls i); reflexivity.
  - destruct o' as [k|k|k| |k| | | | |stop|k stop]; cbn [at_op SP.spec_step ref_step];
      unfold SP.s_mut, SP.s_obs; destruct (nth_error ls i) as [l|] eqn:E; try reflexivity;
      try (destruct (SP.s_insert cmp _ k l) as [l' ok]); try (destruct (SP.s_remove cmp k l) as [l' ok]);
      cbn [fst snd mview view]; rewrite ?(set_nth_id _ i ls l E); reflexivity.
Qed.

(* ---- whole histories ---- *)
Lemma mrun_sim (ops : list (mop T)) : forall st ts Fs ls, msim st ts Fs -> PH.Rel T cmp ts ls ->
  mrun st ops = mref_run ls ops.
Proof.
  induction ops as [|o ops IH]; intros st ts Fs ls H HR; [reflexivity|].
  cbn [StreeSource2.mrun StreeSource2.mref_run].
  destruct (mstep_sim st ts Fs ls o H HR) as [st' [Fs' [E [H' _]]]].
  destruct (PH.step_refines T cmp HP limit ts ls (to_mop o) HR) as [Eo HR'].
  rewrite E, mref_spec, Eo. f_equal. apply (IH st' _ Fs' _ H' HR').
Qed.

Lemma mexec_sim (ops : list (mop T)) : forall st ts Fs ls, msim st ts Fs -> PH.Rel T cmp ts ls ->
  exists ts' Fs', msim (mexec st ops) ts' Fs' /\ PH.Rel T cmp ts' (mref_exec ls ops).
Proof.
  induction ops as [|o ops IH]; intros st ts Fs ls H HR; [exists ts, Fs; auto|].
  cbn [StreeSource2.mexec StreeSource2.mref_exec].
  destruct (mstep_sim st ts Fs ls o H HR) as [st' [Fs' [E [H' _]]]].
  destruct (PH.step_refines T cmp HP limit ts ls (to_mop o) HR) as [_ HR'].
  rewrite E, mref_spec. cbn [fst]. apply (IH st' _ Fs' _ H' HR').
Qed.

(* the start: one empty tree *)
Lemma msim_init : msim (minit cmp limit b h0) [SM.mkTree SM.Leaf b 0 0] [[]].
Proof.
  unfold msim, minit. cbn [m_heap m_trees length]. split; [reflexivity|]. split; [reflexivity|]. split; [|split].
  - intros [|i] g t F E1 E2 E3; cbn in E1, E2, E3; [|destruct i; discriminate].
    inversion E1; inversion E2; inversion E3; subst.
    unfold tsim. cbn. repeat split; try reflexivity; [constructor|intros k []].
  - intros i j Fi Fj k Ne E1 E2 Hk.
    destruct i as [|i]; [|destruct i; discriminate]. destruct j as [|j]; [contradiction|destruct j; discriminate].
  - apply frame_refl.
Qed.

Lemma Rel_init : PH.Rel T cmp [SM.mkTree SM.Leaf b 0 0] [[]].
Proof. constructor; [|constructor]. split; [reflexivity|]. split; [exact I|reflexivity]. Qed.

Lemma mref_no_failure (ops : list (mop T)) : forall ls,
  Forall (fun x => forall y, x = Some y -> (forall k, y <> GPanic k) /\ y <> GFuel) (mref_run ls ops).
Proof.
  induction ops as [|o ops IH]; intros ls; [constructor|].
  cbn [StreeSource2.mref_run]. destruct (mref_step ls o) as [ls' x] eqn:E. constructor; [|apply IH].
  destruct o as [i|i o']; cbn [StreeSource2.mref_step] in E.
  - destruct (nth_error ls i); inversion E; subst; intros y Hy; inversion Hy; subst; split; try intros ?; discriminate.
  - destruct (nth_error ls i) as [l|]; [|inversion E; subst; intros y Hy; discriminate].
    pose proof (ref_no_failure cmp zero [o'] l) as Hf. cbn [ref_run] in Hf.
    destruct (ref_step cmp zero l o') as [l' x']. inversion E; subst.
    inversion Hf; subst. intros y Hy. inversion Hy; subst. assumption.
Qed.

(* ---- C01 for the generated code, several trees with Clone ---- *)
Theorem history_source_clone (ops : list (mop T)) :
  mrun (minit cmp limit b h0) ops = mref_run [[]] ops /\
  Forall (fun x => forall y, x = Some y -> (forall k, y <> GPanic k) /\ y <> GFuel)
         (mrun (minit cmp limit b h0) ops).
Proof.
  assert (E : mrun (minit cmp limit b h0) ops = mref_run [[]] ops)
    by apply (mrun_sim ops _ _ _ _ msim_init Rel_init).
  split; [exact E|]. rewrite E. apply mref_no_failure.
Qed.

(* ---- independence: what one more call leaves alone, in terms of the generated state only ---- *)
Theorem clone_independence_source (ops : list (mop T)) (o : mop T) :
  let st := mexec (minit cmp limit b h0) ops in
  let st' := fst (mstep st o) in
  (length (m_heap st) <= length (m_heap st'))%nat /\
  (forall j g, mtarget o <> Some j -> nth_error (m_trees st) j = Some g ->
     nth_error (m_trees st') j = Some g /\
     (forall a d, hreach (m_heap st) (G.Tree_root g) a d -> nth_error (m_heap st') a = nth_error (m_heap st) a) /\
     exists t F, trepr (m_heap st) (G.Tree_root g) t F /\ trepr (m_heap st') (G.Tree_root g) t F) /\
  (forall i g', o = MClone i -> nth_error (m_trees st') (length (m_trees st)) = Some g' ->
     forall a d, hreach (m_heap st') (G.Tree_root g') a d -> (length (m_heap st) <= a)%nat).
Proof.
  cbn zeta.
  destruct (mexec_sim ops _ _ _ _ msim_init Rel_init) as [ts [Fs [H HR]]].
  set (st := mexec (minit cmp limit b h0) ops) in *.
  destruct (mstep_sim st ts Fs _ o H HR) as [st' [Fs' [E [H' [I1 [I2 [I3 I4]]]]]]].
  rewrite E. cbn [fst]. split; [exact I1|]. split.
  - intros j g Nj Eg. split; [apply (I2 j g Nj Eg)|].
    destruct (msim_lookup st ts Fs j g H Eg) as [t [F [Et [EF Hts]]]].
    destruct Hts as (_ & _ & _ & _ & _ & _ & R & _).
    destruct (I3 j F Nj EF) as [EF' Same].
    split.
    + intros a d Hr. apply Same. apply (hreach_in _ _ _ _ R a d Hr).
    + exists (SM.root t), F. split; [exact R|]. apply (trepr_agree _ _ _ _ _ R Same).
  - intros i g' -> Eg' a d Hr.
    destruct (msim_lookup st' _ Fs' _ g' H' Eg') as [t' [F' [Et' [EF' Hts']]]].
    destruct Hts' as (_ & _ & _ & _ & _ & _ & R' & _).
    destruct H as [L1 [L2 _]]. rewrite L1, <- L2 in EF'.
    apply (I4 F' EF' a). apply (hreach_in _ _ _ _ R' a d Hr).
Qed.

(* ---- the final state: every tree holds its reference list on its own cells ---- *)
Theorem final_state_source_clone (ops : list (mop T)) :
  let st := mexec (minit cmp limit b h0) ops in
  let Ls := mref_exec [[]] ops in
  length (m_trees st) = length Ls /\ frame h0 (m_heap st) [] /\
  (forall i g, nth_error (m_trees st) i = Some g ->
     exists l, nth_error Ls i = Some l /\
       hkeys (m_heap st) (length (m_heap st)) (G.Tree_root g) = Some l /\
       G.Tree_size g = Z.of_nat (length l) /\
       G.Tree_compare g = cmp /\ G.Tree_limit g = limit b /\ G.Tree_β g = b /\
       exists t F, trepr (m_heap st) (G.Tree_root g) t F /\ SM.inorder t = l /\
                   forall k, In k F -> (length h0 <= k < length (m_heap st))%nat) /\
  (forall i j gi gj a di dj, i <> j ->
     nth_error (m_trees st) i = Some gi -> nth_error (m_trees st) j = Some gj ->
     hreach (m_heap st) (G.Tree_root gi) a di -> ~ hreach (m_heap st) (G.Tree_root gj) a dj).
Proof.
  cbn zeta.
  destruct (mexec_sim ops _ _ _ _ msim_init Rel_init) as [ts [Fs [H HR]]].
  set (st := mexec (minit cmp limit b h0) ops) in *.
  pose proof H as [L1 [L2 [Hall [Hdis Fr0]]]].
  split; [rewrite L1; apply (F2_length _ _ _ _ _ HR)|]. split; [exact Fr0|]. split.
  - intros i g Eg.
    destruct (msim_lookup st ts Fs i g H Eg) as [t [F [Et [EF Hts]]]].
    pose proof (PH.Rel_nth T cmp ts _ i HR) as N. rewrite Et in N.
    destruct (nth_error (mref_exec [[]] ops) i) as [l|]; [|destruct N].
    exists l. split; [reflexivity|].
    destruct Hts as (A1 & A2 & A3 & A4 & A5 & A6 & R & B). destruct N as (I & _ & Z).
    assert (Hd : (depth (SM.root t) <= length (m_heap st))%nat).
    { pose proof (depth_le_count (SM.root t)). pose proof (trepr_count _ _ _ _ R).
      pose proof (trepr_nodup _ _ _ _ R) as ND. pose proof (trepr_bound _ _ _ _ R) as Bd.
      assert (length F <= length (seq 0 (length (m_heap st))))%nat.
      { apply NoDup_incl_length; [exact ND|]. intros k Hk. apply in_seq. specialize (Bd k Hk). lia. }
      rewrite seq_length in *. lia. }
    split; [rewrite <- I; apply (hkeys_trepr _ _ _ F); [exact R|lia]|].
    split; [rewrite A1; exact Z|]. split; [exact A5|]. split; [exact A6|]. split; [exact A3|].
    exists (SM.root t), F. split; [exact R|]. split; [exact I|].
    intros k Hk. split; [apply B; exact Hk|apply (trepr_bound _ _ _ _ R k Hk)].
  - intros i j gi gj a di dj Ne Ei Ej Hi Hj.
    destruct (msim_lookup st ts Fs i gi H Ei) as [ti [Fi [_ [EFi Htsi]]]].
    destruct (msim_lookup st ts Fs j gj H Ej) as [tj [Fj [_ [EFj Htsj]]]].
    destruct Htsi as (_ & _ & _ & _ & _ & _ & Ri & _). destruct Htsj as (_ & _ & _ & _ & _ & _ & Rj & _).
    apply (Hdis i j Fi Fj a Ne EFi EFj); [apply (hreach_in _ _ _ _ Ri a di Hi)|apply (hreach_in _ _ _ _ Rj a dj Hj)].
Qed.

(* the representation of a reached state, for the cursor theorems *)
Lemma reached_tree (ops : list (mop T)) (i : nat) (g : G.Tree T) :
  nth_error (m_trees (mexec (minit cmp limit b h0) ops)) i = Some g ->
  exists l t F, nth_error (mref_exec [[]] ops) i = Some l /\
    trepr (m_heap (mexec (minit cmp limit b h0) ops)) (G.Tree_root g) t F /\
    SM.inorder t = l /\ SP.sorted cmp l /\ G.Tree_size g = Z.of_nat (length l) /\ G.Tree_compare g = cmp.
Proof.
  intros Eg.
  destruct (mexec_sim ops _ _ _ _ msim_init Rel_init) as [ts [Fs [H HR]]].
  destruct (msim_lookup _ ts Fs i g H Eg) as [t [F [Et [EF Hts]]]].
  pose proof (PH.Rel_nth T cmp ts _ i HR) as N. rewrite Et in N.
  destruct (nth_error (mref_exec [[]] ops) i) as [l|]; [|destruct N].
  destruct Hts as (A1 & A2 & A3 & A4 & A5 & A6 & R & B). destruct N as (I & S & Z).
  exists l, (SM.root t), F. repeat split; try assumption. rewrite A1. exact Z.
Qed.

End Sim2.

Print Assumptions history_source_clone.
Print Assumptions clone_independence_source.
Print Assumptions final_state_source_clone.
