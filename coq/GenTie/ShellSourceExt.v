(* shell/shell.go, C16 at source level: sessions in which the reader returned by Rest is read only in
   part and Rest is called again (Shell/ShellSessionExt.v), driven through the functions GENERATED from
   shell.go (Gen/FnShell.v) over the byte-list instantiation of bufio.Reader / bytes.Buffer of
   GenTie/ShellTieBase.v.

   [grun_ext]: the machine of GenTie/ShellSource.grunx (Next, Rest, Err, Reset, Scanner.Split through
   the generated methods; no Each) plus
     ERestPart k  the generated Rest; its result IS the reader object (the unread input): the caller
                  takes the first k bytes, the scanner's buf field goes on as the others;
     EReadMore k  k more bytes taken from the buf field, when the session holds a reader;
     EText        the generated Text and Complete.
   The generated Rest returns the buf field itself (Go: return s.buf), so "the reader the caller holds"
   and "the scanner's buffer" being one object is what the generated code says, not a choice made here. *)
From Coq Require Import ZArith NArith List Bool Lia.
From Mds Require Import Common.FnRt GenTie.TieLib Gen.ShellTable Gen.FnShell.
From Mds Require Import Shell.ShellModel Shell.ShellSkel Shell.ShellSpec Shell.ShellSession Shell.ShellFinal
  Shell.ShellSessionExt Shell.ShellProofsExt.
From Mds Require Import GenTie.ShellTieBase GenTie.ShellTieQuote GenTie.ShellTieNext GenTie.ShellTieSplit GenTie.ShellSource.
Import ListNotations.
Local Open Scope Z_scope.

Inductive goute :=
| GEOut (o : goutx)
| GEPart (b : list Z)
| GEMore (b : list Z)
| GEText (t : list Z) (c : bool).

Definition enc_oute (o : sc_oute) : goute :=
  match o with
  | EROut o' => GEOut (enc_outx o')
  | ERPart b => GEPart (zs b)
  | ERMore b => GEMore (zs b)
  | ERText t c => GEText (zs t) c
  end.

Definition no_each_e (o : sc_ope) : bool := match o with EOp (XEach _) => false | _ => true end.

Fixpoint grun_ext (fuel : nat) (src : list Z) (b c : list Z) (s : Z) (e : go_error) (have : bool)
    (ops : list sc_ope) : list goute :=
  match ops with
  | [] => []
  | EOp XNext :: ops' =>
    match G.Next_ b c s e bb_Reset rd_ReadByte bb_WriteByte bb_Write fuel with
    | Ok (ok, b', c', s', e') =>
      match G.Text c' bb_String with
      | Ok (txt, c'') => GEOut (GXNext ok txt (G.Complete s')) :: grun_ext fuel src b' c'' s' e' have ops'
      | Panic k => [GEOut (GXPanic k)]
      | OutOfFuel => [GEOut GXFuel]
      end
    | Panic k => [GEOut (GXPanic k)]
    | OutOfFuel => [GEOut GXFuel]
    end
  | EOp XRest :: ops' =>
    match G.Rest b c s e bb_Reset with
    | Ok (r, c', s', e') => GEOut (GXRest r) :: grun_ext fuel src [] c' s' e' true ops'
    | Panic k => [GEOut (GXPanic k)]
    | OutOfFuel => [GEOut GXFuel]
    end
  | EOp XErr :: ops' => GEOut (GXErr (go_err_eqb (G.Err e) EEOF)) :: grun_ext fuel src b c s e have ops'
  | EOp XReset :: ops' =>
    match G.Reset b c s e src rd_Reset bb_Reset with
    | Ok (b', c', s', e') => GEOut GXReset :: grun_ext fuel src b' c' s' e' false ops'
    | Panic k => [GEOut (GXPanic k)]
    | OutOfFuel => [GEOut GXFuel]
    end
  | EOp XSplit :: ops' =>
    match G.Scanner_Split b c s e bb_Reset rd_ReadByte bb_WriteByte bb_Write bb_String fuel with
    | Ok (toks, b', c', s', e') =>
      match G.Text c' bb_String with
      | Ok (txt, c'') => GEOut (GXSplit toks txt (G.Complete s')) :: grun_ext fuel src b' c'' s' e' have ops'
      | Panic k => [GEOut (GXPanic k)]
      | OutOfFuel => [GEOut GXFuel]
      end
    | Panic k => [GEOut (GXPanic k)]
    | OutOfFuel => [GEOut GXFuel]
    end
  | EOp (XEach _) :: _ => [GEOut GXNotTranslated]
  | ERestPart k :: ops' =>
    match G.Rest b c s e bb_Reset with
    | Ok (r, c', s', e') => GEPart (firstn k r) :: grun_ext fuel src (skipn k r) c' s' e' true ops'
    | Panic k => [GEOut (GXPanic k)]
    | OutOfFuel => [GEOut GXFuel]
    end
  | EReadMore k :: ops' =>
    if have then GEMore (firstn k b) :: grun_ext fuel src (skipn k b) c s e true ops'
    else GEMore [] :: grun_ext fuel src b c s e false ops'
  | EText :: ops' =>
    match G.Text c bb_String with
    | Ok (txt, c'') => GEText txt (G.Complete s) :: grun_ext fuel src b c'' s e have ops'
    | Panic k => [GEOut (GXPanic k)]
    | OutOfFuel => [GEOut GXFuel]
    end
  end.

Lemma zs_firstn k l : zs (firstn k l) = firstn k (zs l).
Proof. unfold zs. symmetry. apply firstn_map. Qed.

Lemma zs_skipn k l : zs (skipn k l) = skipn k (zs l).
Proof. unfold zs. symmetry. apply skipn_map. Qed.

Lemma bytes_ok_skipn k l : bytes_ok l -> bytes_ok (skipn k l).
Proof.
  unfold bytes_ok. rewrite !Forall_forall. intros H x Hx. apply H.
  rewrite <- (firstn_skipn k l). apply in_or_app. right. exact Hx.
Qed.

Lemma skipn_len {A} k (l : list A) : (length (skipn k l) <= length l)%nat.
Proof. rewrite skipn_length. lia. Qed.

Theorem C16_run_ext_is_source : forall ops src sc h n fuel,
  forallb no_each_e ops = true ->
  bytes_ok src -> bytes_ok (M.inp sc) ->
  (length src <= n)%nat -> (length (M.inp sc) <= n)%nat -> (n + 2 <= fuel)%nat ->
  grun_ext fuel (zs src) (zs (M.inp sc)) (zs (M.cur sc)) (st_z (M.st sc)) (err_z (M.eof sc)) h ops
  = map enc_oute (run_ext src {| esc := sc; ehave := h |} ops).
Proof.
  induction ops as [|op ops IH]; intros src sc h n fuel Hne Hbs Hb Hns Hn Hf; [reflexivity|].
  cbn [forallb] in Hne. apply andb_true_iff in Hne. destruct Hne as [Ho Hne].
  rewrite run_ext_cons.
  destruct op as [o|k|k|]; [destruct o|..]; cbn [grun_ext step_ext stepx esc ehave]; try discriminate Ho.
  - (* Next *)
    rewrite C16_next_is_source by (try assumption; lia).
    destruct (M.next sc) as [[sc' ok]|] eqn:N; [|reflexivity].
    cbn [enc_next]. rewrite C16_text_is_source, C16_complete_is_source.
    destruct (next_inp _ _ _ N) as [L B].
    cbn [map enc_oute enc_outx]. f_equal. apply (IH src sc' h n); auto; lia.
  - (* Rest, read to the end *)
    rewrite C16_rest_is_source. destruct (M.rest sc) as [sc' r] eqn:R.
    cbn [fst snd map enc_oute enc_outx]. f_equal.
    assert (I : M.inp sc' = []) by (unfold M.rest in R; inversion R; reflexivity).
    change (@nil Z) with (zs []). rewrite <- I. apply (IH src sc' true n); auto; rewrite I; [constructor | simpl; lia].
  - (* Err *)
    destruct (C16_err_is_source sc) as (_ & E & _). rewrite E.
    cbn [map enc_oute enc_outx]. f_equal. apply (IH src sc h n); auto.
  - (* Reset *)
    rewrite C16_reset_is_source. unfold enc_sc.
    cbn [map enc_oute enc_outx]. f_equal. apply (IH src (M.reset_sc sc src) false n); auto.
  - (* Scanner.Split *)
    rewrite C16_scanner_split_is_source by (try assumption; lia).
    destruct (M.scanner_split sc) as [[sc' toks]|] eqn:S; [|reflexivity].
    rewrite C16_text_is_source, C16_complete_is_source.
    cbn [map enc_oute enc_outx]. f_equal.
    rewrite scanner_split_hand in S. unfold H.scanner_split in S.
    destruct (split_loop_inp _ _ _ _ _ S) as [L B].
    apply (IH src sc' h n); auto; lia.
  - (* Rest, k bytes read *)
    rewrite C16_rest_is_source. destruct (M.rest sc) as [sc' r] eqn:R.
    assert (Er : r = M.inp sc) by (unfold M.rest in R; inversion R; reflexivity).
    cbn [fst snd map enc_oute]. rewrite zs_firstn. f_equal.
    rewrite <- zs_skipn.
    change (zs (M.cur sc')) with (zs (M.cur (set_inp sc' (skipn k r)))).
    change (st_z (M.st sc')) with (st_z (M.st (set_inp sc' (skipn k r)))).
    change (err_z (M.eof sc')) with (err_z (M.eof (set_inp sc' (skipn k r)))).
    change (zs (skipn k r)) with (zs (M.inp (set_inp sc' (skipn k r)))).
    apply (IH src _ true n); auto; cbn [set_inp M.inp]; subst r.
    + apply bytes_ok_skipn. exact Hb.
    + pose proof (skipn_len k (M.inp sc)). lia.
  - (* k more bytes *)
    destruct h.
    + cbn [map enc_oute]. rewrite zs_firstn. f_equal. rewrite <- zs_skipn.
      change (zs (M.cur sc)) with (zs (M.cur (set_inp sc (skipn k (M.inp sc))))).
      change (st_z (M.st sc)) with (st_z (M.st (set_inp sc (skipn k (M.inp sc))))).
      change (err_z (M.eof sc)) with (err_z (M.eof (set_inp sc (skipn k (M.inp sc))))).
      change (zs (skipn k (M.inp sc))) with (zs (M.inp (set_inp sc (skipn k (M.inp sc))))).
      apply (IH src _ true n); auto; cbn [set_inp M.inp].
      * apply bytes_ok_skipn. exact Hb.
      * pose proof (skipn_len k (M.inp sc)). lia.
    + cbn [map enc_oute]. f_equal. apply (IH src sc false n); auto.
  - (* Text / Complete *)
    rewrite C16_text_is_source, C16_complete_is_source.
    cbn [map enc_oute]. f_equal. apply (IH src sc h n); auto.
Qed.

(* every extended session without Each on a new scanner, through the generated methods: accepted by
   the extended reference, no call panics *)
Theorem C16_sessions_ext_source_proof : forall s ops, bytes_ok s -> forallb no_each_e ops = true ->
  exists b c st e outs,
    G.NewScanner (zs s) new_reader [] = Ok (b, c, st, e) /\
    grun_ext (length s + 2) (zs s) b c st e false ops = map enc_oute outs /\
    session_ok_ext s ops outs = true /\ ~ In (EROut XRPanic) outs.
Proof.
  intros s ops Hb Hne.
  exists (zs s), [], 1, ENil, (run_ext s (new_ext s) ops).
  split; [reflexivity|]. split.
  - apply (C16_run_ext_is_source ops s (M.new_scanner s) false (length s)); auto; simpl; lia.
  - split; [apply session_ext_ref | apply session_ext_no_panic].
Qed.

Print Assumptions C16_run_ext_is_source.
Print Assumptions C16_sessions_ext_source_proof.
