(* C10 (stack part) at source level: a state machine whose operations CALL THE FUNCTIONS GENERATED
   from stack/stack.go (Gen/FnStack.v) refines the LIFO reference over whole histories.

   [gsstep zero l o] : the model's state (the field s.list), the model's op type [sop] (Each's
   callback is any pure function T -> bool, which is what the generated Each takes) and out type.
     SPush SAdd SIsEmpty SClear STop SPeek SPop SLen   the generated function of that name; a panic
           of the generated function is the output TPanic and the state stays (the caller recovers;
           the generated functions return no state at a panic: the model's convention, not a
           consequence of the ties), fuel exhaustion would be THang
     SEach f   FnStack.Each l f (S (length l)); the generated Each returns unit, so the output is
           TUnit where the model has TList (the values handed to f): [eshape] forgets exactly that
     SSlice    not translated (a function that returns a fresh slice): [TPanic] here, excluded by
           [src_sop].
   New is not translated (&Stack{...}): histories start from the empty list, the zero value. *)
From Coq Require Import ZArith List Bool Lia.
From Mds Require Import Gen.StackIdx Stack.StackModel Stack.StackProofs Common.FnRt GenTie.TieLib.
From Mds Require Import GenTie.StackTieBase GenTie.StackTiePop GenTie.StackTieEach.
From Mds Require Gen.FnStack Props.C10_mlink.
Import ListNotations.
Local Open Scope Z_scope.

Section Src.
Context {T : Type}.
Variable zero : T.

Definition src_sop (o : sop T) : bool := match o with SSlice _ => false | _ => true end.

(* what of the model's output the generated functions can show: not the list Each visited *)
Definition eshape (r : sout T) : sout T := match r with TList _ _ => TUnit T | x => x end.

Definition glift {A : Type} (l : list T) (r : res A) (o : A -> sout T) : list T * sout T :=
  match r with Ok a => (l, o a) | Panic _ => (l, TPanic T) | OutOfFuel => (l, THang T) end.

Definition gsstep (l : list T) (o : sop T) : list T * sout T :=
  match o with
  | SPush _ v => (FnStack.Push l v, TUnit T)
  | SAdd _ v => (FnStack.Add l v, TUnit T)
  | SIsEmpty _ => (l, TBool T (FnStack.IsEmpty l))
  | SClear _ => (FnStack.Clear l, TUnit T)
  | STop _ => glift l (FnStack.Top l zero) (TVal T)
  | SPeek _ n => glift l (FnStack.Peek l n zero) (fun vb => TValBool T (fst vb) (snd vb))
  | SPop _ =>
    match FnStack.Pop l zero with
    | Ok (out, ok, l') => (l', TValBool T out ok)
    | Panic _ => (l, TPanic T)
    | OutOfFuel => (l, THang T)
    end
  | SEach _ f => glift l (FnStack.Each l f (S (length l))) (fun _ => TUnit T)
  | SLen _ => (l, TInt T (FnStack.Len l))
  | SSlice _ => (l, TPanic T)
  end.

Fixpoint gsrun (l : list T) (ops : list (sop T)) : list (sout T) :=
  match ops with
  | [] => []
  | o :: ops' => let (l', r) := gsstep l o in r :: gsrun l' ops'
  end.

(* one step: the nine ties assembled *)
Theorem gsstep_is_sstep : forall (l : list T) (o : sop T), src_sop o = true ->
  gsstep l o = (fst (sstep T zero l o), eshape (snd (sstep T zero l o))).
Proof.
  intros l o Ho. destruct o; try discriminate Ho; cbn [gsstep sstep fst snd eshape]; try reflexivity.
  - rewrite (C10_stack_top_is_source zero). destruct (top T zero l); reflexivity.
  - rewrite (C10_stack_peek_is_source zero). destruct (peek T zero n l) as [[v b]| |]; reflexivity.
  - rewrite (C10_stack_pop_is_source zero). destruct (pop T zero l) as [[l' [out ok]]| |]; reflexivity.
  - pose proof (C10_stack_each_is_source f l (S (length l)) (le_n _)) as L.
    rewrite (each_ok T zero) in L |- *. destruct L as [L|L]; [discriminate|]. rewrite <- L. reflexivity.
Qed.

Theorem gsrun_is_srun : forall (ops : list (sop T)) (l : list T), forallb src_sop ops = true ->
  gsrun l ops = map eshape (srun T zero l ops).
Proof.
  induction ops as [|o ops IH]; intros l Hs; [reflexivity|].
  cbn [forallb] in Hs. apply andb_prop in Hs. destruct Hs as [Ho Hr].
  cbn [gsrun srun]. rewrite (gsstep_is_sstep l o Ho).
  destruct (sstep T zero l o) as [l' r]. cbn [fst snd map]. f_equal. apply IH; exact Hr.
Qed.

(* composition with C10_stack_lifo *)
Theorem stack_lifo_source : forall ops : list (sop T), forallb src_sop ops = true ->
  gsrun [] ops = map eshape (sarun T zero [] ops).
Proof.
  intros ops Hs. rewrite (gsrun_is_srun ops [] Hs). f_equal. exact (C10_mlink.C10_stack_lifo T zero ops).
Qed.

End Src.
