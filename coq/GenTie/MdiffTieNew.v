(* New of mdiff/mdiff.go: the model's new_chunks (Mdiff/MdiffModel.v) = the function generated from the
   whole body by the heap backend (Gen/FnMdiffHeap.v). *)
From Coq Require Import ZArith List Bool Lia ZifyBool.
From Mds Require Import Common.FnRt Common.FnHeap GenTie.TieLib Gen.MdiffIdx Gen.EditIdx GenTie.MdiffTieFind.
From Mds Require Import Gen.FnMdiffHeap GenTie.MdiffTieHeap.
From Mds Require Mdiff.MdiffModel.
Import ListNotations.
Local Open Scope Z_scope.

Notation line := (list Z) (only parsing).
Notation edit := (EditLoop.edit (list Z)) (only parsing).

Definition addrs (n0 k : nat) : list (option nat) := map Some (seq n0 k).

Lemma addrs_S n0 k : addrs n0 (S k) = addrs n0 k ++ [Some (n0 + k)%nat].
Proof. unfold addrs. rewrite seq_S, map_app. reflexivity. Qed.

Lemma get_mid' {A B} (f : A -> B) (l1 l2 : list A) x :
  go_get (map f (l1 ++ x :: l2)) (zlen l1) = Ok (f x).
Proof.
  unfold go_get, zlen. rewrite map_length, app_length. simpl length.
  replace ((0 <=? Z.of_nat (length l1)) && (Z.of_nat (length l1) <? Z.of_nat (length l1 + S (length l2)))) with true by lia.
  rewrite Nat2Z.id, map_app, nth_error_app2 by (rewrite map_length; lia).
  rewrite map_length, Nat.sub_diag. reflexivity.
Qed.

Ltac hs := repeat first [rewrite hget_snoc | rewrite hmod_snoc
  | progress cbn [bind henc Chunk_Edits Chunk_LStart Chunk_LEnd Chunk_RStart Chunk_REnd M.edits M.LStart M.LEnd M.RStart M.REnd
                  eenc Edit_Op Edit_X Edit_Y EditLoop.eop EditLoop.X EditLoop.Y fst snd Z.eqb Pos.eqb M.ns_done M.ns_cur M.ns_lcur M.ns_rcur]].

Ltac opc := repeat match goal with |- context [EditLoop.op_code ?o =? ?k] =>
    let b := eval vm_compute in (EditLoop.op_code o =? k) in change (EditLoop.op_code o =? k) with b end; cbv iota.

Ltac fin := unfold henc, M.zero_chunk, M.len, zlen; cbn [M.edits M.LStart M.LEnd M.RStart M.REnd map M.ns_done M.ns_cur M.ns_lcur M.ns_rcur];
  rewrite ?map_app, ?app_length, ?map_length; cbn [map length]; rewrite ?Nat.add_1_r, ?addrs_S, <- ?app_assoc; cbn [app];
  f_equal; try reflexivity; try (repeat f_equal; lia).

Section New.
Variable h0 : list Chunk.

(* the generated loop state that stands for the model state st *)
Definition pre_of (st : M.new_state line) : list Chunk := h0 ++ map henc (M.ns_done line st).

Lemma new_loop_eq : forall (es2 es1 : list edit) gas f0 (st : M.new_state line),
  (length es2 < gas)%nat ->
  New_loop1 f0 gas (map eenc (es1 ++ es2)) (zlen (map eenc (es1 ++ es2)))
     (addrs (length h0) (S (length (M.ns_done line st)))) (Some (length (pre_of st)))
     (M.ns_lcur line st) (M.ns_rcur line st) (zlen es1) (pre_of st ++ [henc (M.ns_cur line st)])
  = let st' := fold_left (@M.new_step line) es2 st in
    Ok (addrs (length h0) (S (length (M.ns_done line st'))), Some (length (pre_of st')),
        M.ns_lcur line st', M.ns_rcur line st', zlen (map eenc (es1 ++ es2)), pre_of st' ++ [henc (M.ns_cur line st')]).
Proof.
  induction es2 as [|e rest IH]; intros es1 gas f0 st Hg; (destruct gas; [simpl in Hg; lia|]); cbn [New_loop1 fold_left].
  - rewrite app_nil_r, zlen_map. replace (zlen es1 <? zlen es1) with false by lia. reflexivity.
  - rewrite zlen_map at 1. replace (zlen es1 <? zlen (es1 ++ e :: rest)) with true by (unfold zlen; rewrite app_length; simpl; lia).
    rewrite get_mid'. cbn [bind].
    replace (es1 ++ e :: rest) with ((es1 ++ [e]) ++ rest) by (rewrite <- app_assoc; reflexivity).
    replace (zlen es1 + 1) with (zlen (es1 ++ [e])) by (rewrite zlen_app1; reflexivity).
    set (K := New_loop1 f0 gas (map eenc ((es1 ++ [e]) ++ rest)) (zlen (map eenc ((es1 ++ [e]) ++ rest)))).
    transitivity (K (addrs (length h0) (S (length (M.ns_done line (M.new_step st e))))) (Some (length (pre_of (M.new_step st e))))
                    (M.ns_lcur line (M.new_step st e)) (M.ns_rcur line (M.new_step st e)) (zlen (es1 ++ [e]))
                    (pre_of (M.new_step st e) ++ [henc (M.ns_cur line (M.new_step st e))])).
    2: { unfold K. apply IH. simpl in Hg. lia. }
    clearbody K. clear IH Hg.
    destruct st as [done cur lcur rcur]. destruct cur as [ced cls cle crs cre]. destruct e as [o x y].
    unfold pre_of. cbn [M.ns_done M.ns_cur M.ns_lcur M.ns_rcur].
    rewrite hget_snoc. cbn [bind henc Chunk_LEnd Chunk_REnd Chunk_LStart Chunk_RStart M.LEnd M.REnd M.LStart M.RStart M.edits].
    unfold M.new_step, M.new_open. cbn [M.ns_done M.ns_cur M.ns_lcur M.ns_rcur M.LEnd M.REnd M.LStart M.RStart M.edits EditLoop.eop EditLoop.X EditLoop.Y].
    unfold new_gap, new_cur_nonempty, new_set_lstart, new_set_lend, new_set_rstart, new_set_rend,
      new_drop_l, new_copy_r, new_repl_l, new_repl_r, new_addl_lend, new_addl_lcur, new_addr_rend, new_addr_rcur, new_emit_lcur, new_emit_rcur.
    destruct (lcur >? cle) eqn:B1; [|destruct (rcur >? cre) eqn:B2]; cbn [orb bind].
    1,2: destruct (cle =? cls) eqn:B3; [destruct (cre =? crs) eqn:B4|]; cbn [negb orb bind].
    all: destruct o; unfold go_hnew; hs; opc.
    all: fin.
Qed.

Lemma addrs_length n0 k : length (addrs n0 k) = k.
Proof. unfold addrs. rewrite map_length, seq_length. reflexivity. Qed.

Lemma addrs_trim n0 k : go_sub (addrs n0 (S k)) 0 (zlen (addrs n0 (S k)) - 1) = Ok (addrs n0 k).
Proof.
  rewrite sub_take by (unfold zlen; rewrite addrs_length; lia).
  unfold zlen. rewrite addrs_length. replace (Z.to_nat (Z.of_nat (S k) - 1)) with k by lia.
  rewrite addrs_S. rewrite <- (addrs_length n0 k) at 1. rewrite firstn_snoc. reflexivity.
Qed.

Theorem C13_New_is_source : forall (lhs rhs : list line) (es : list edit)
    (ES : list line -> list line -> res (list (Edit line))) (fuel : nat),
  ES lhs rhs = Ok (map eenc es) -> (length es < fuel)%nat ->
  let st := fold_left (@M.new_step line) es M.new_init in
  New lhs rhs ES h0 fuel
  = Ok (mk_Diff lhs rhs (addrs (length h0) (length (M.new_chunks es))) (map eenc es),
        h0 ++ map henc (M.ns_done line st ++ [M.ns_cur line st])).
Proof.
  intros lhs rhs es ES fuel HES Hf st. unfold New. rewrite HES. cbn [bind]. unfold go_hnew.
  change (go_get [Some (length h0)] 0) with (@Ok (option nat) (Some (length h0))). cbn [bind].
  pose proof (new_loop_eq es [] fuel fuel M.new_init Hf) as HL. unfold pre_of in HL.
  cbn [M.new_init M.ns_done M.ns_cur M.ns_lcur M.ns_rcur map app] in HL. rewrite app_nil_r in HL.
  change (zlen (@nil edit)) with 0 in HL. change (addrs (length h0) (S (length (@nil (M.chunk line))))) with [Some (length h0)] in HL.
  unfold new_lcur_init, new_rcur_init in HL. unfold henc at 1 in HL. cbn [M.edits M.LStart M.LEnd M.RStart M.REnd map] in HL.
  rewrite HL. clear HL. cbv zeta. fold st. cbn [bind].
  unfold M.new_chunks. fold st. destruct st as [done cur lcur rcur]. destruct cur as [ced cls cle crs cre].
  cbn [M.ns_done M.ns_cur M.LStart M.LEnd M.RStart M.REnd]. unfold pre_of. cbn [M.ns_done].
  hs. unfold new_last_empty, new_trim_hi.
  assert (Hlen : M.len (done ++ [M.mkChunk ced cls cle crs cre]) = Z.of_nat (S (length done))).
  { unfold M.len. rewrite app_length. simpl. lia. }
  destruct (cle =? cls) eqn:B1; [destruct (cre =? crs) eqn:B2|]; cbn [andb bind].
  - rewrite addrs_trim. cbn [bind]. rewrite Hlen.
    replace (Z.to_nat (Z.of_nat (S (length done)) - 1)) with (length done) by lia.
    rewrite firstn_snoc. rewrite map_app, app_assoc. reflexivity.
  - rewrite app_length. simpl length. rewrite Nat.add_1_r. rewrite map_app, app_assoc. reflexivity.
  - rewrite app_length. simpl length. rewrite Nat.add_1_r. rewrite map_app, app_assoc. reflexivity.
Qed.

End New.

(* what the New tie gives to the other functions: the chunks of the new Diff are freshly allocated
   cells, pairwise distinct and non-nil, and the heap holds the model's chunks there.  This is the
   side condition `distinct:Diff.Chunks` of the list-of-records translation of AddContext
   (GenTie/MdiffTieCtx.v): it is established here, from the source of New. *)
Lemma cells_fresh : forall (l : list (M.chunk line)) (pre tl : list Chunk),
  cells ((pre ++ map henc l) ++ tl) (seq (length pre) (length l)) l.
Proof.
  unfold cells. induction l as [|c l IH]; intros pre tl; simpl; constructor.
  - rewrite <- app_assoc. rewrite nth_error_app2 by lia. rewrite Nat.sub_diag. reflexivity.
  - specialize (IH (pre ++ [henc c]) tl). rewrite app_length in IH. simpl in IH. rewrite Nat.add_1_r in IH.
    replace ((pre ++ henc c :: map henc l) ++ tl) with (((pre ++ [henc c]) ++ map henc l) ++ tl)
      by (rewrite <- !app_assoc; reflexivity).
    exact IH.
Qed.

Theorem C13_New_chunks_distinct : forall (h0 : list Chunk) (es : list edit),
  let st := fold_left (@M.new_step line) es M.new_init in
  let h' := h0 ++ map henc (M.ns_done line st ++ [M.ns_cur line st]) in
  let ads := seq (length h0) (length (M.new_chunks es)) in
  NoDup ads /\ Forall (fun p : option nat => p <> None) (map Some ads)
  /\ Forall (fun a => length h0 <= a < length h')%nat ads
  /\ cells h' ads (M.new_chunks es).
Proof.
  intros h0 es st h' ads. split; [apply seq_NoDup|]. split.
  { apply Forall_forall. intros p Hp. apply in_map_iff in Hp. destruct Hp as [a [<- _]]. discriminate. }
  assert (Hpre : exists tl, M.ns_done line st ++ [M.ns_cur line st] = M.new_chunks es ++ tl).
  { unfold M.new_chunks. fold st. destruct (new_last_empty _ _ _ _).
    - exists (skipn (Z.to_nat (new_trim_hi (M.len (M.ns_done line st ++ [M.ns_cur line st])))) (M.ns_done line st ++ [M.ns_cur line st])).
      symmetry. apply firstn_skipn.
    - exists []. rewrite app_nil_r. reflexivity. }
  destruct Hpre as [tl Htl]. split.
  - apply Forall_forall. intros a Ha. apply in_seq in Ha. unfold h'. rewrite Htl, app_length, map_length, app_length. lia.
  - unfold cells, h', ads. rewrite Htl. rewrite map_app, app_assoc. apply cells_fresh.
Qed.

Print Assumptions C13_New_is_source.
Print Assumptions C13_New_chunks_distinct.
