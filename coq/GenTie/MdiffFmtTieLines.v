(* mdiff/format.go: writeLines, hasRelevantEdits, fmtFileHeader.  The io.Writer is a sink (its
   state is what was written; Write appends and may answer anything); time.Time is abstract with
   its methods IsZero / Format as functions that answer like the model's time_is_zero / format_time. *)
From Coq Require Import ZArith NArith List Bool Lia.
From Mds Require Import Mdiff.FormatModel.
From Mds Require Import Common.FnRt Common.FnHeap Common.FnText GenTie.TieLib GenTie.MdiffFmtTieBase.
Import ListNotations.
Local Open Scope Z_scope.

Section Sink.
Variable cnt : sink -> list Z -> Z.
Variable er : sink -> list Z -> go_xerr.
Notation W := (sink_write cnt er).

(* ---- writeLines: one fmt.Fprint(w, pfx, line, "\n") per line ---- *)
Lemma writeLines_loop_ok fuel pfx : forall rest pre gas w,
  (length rest < gas)%nat ->
  G.writeLines_loop1 fuel gas (zb pfx) (map zb (pre ++ rest)) (zlen (pre ++ rest)) W w (zlen pre)
  = Ok (w ++ zb (join_lines (write_lines pfx rest)), zlen (pre ++ rest)).
Proof.
  induction rest as [|l rest IH]; intros pre gas w Hg; (destruct gas as [|gas]; [simpl in Hg; lia|]).
  - cbn [G.writeLines_loop1]. rewrite app_nil_r, ltb_zlen_end. cbn [write_lines map join_lines flat_map zb].
    rewrite app_nil_r. reflexivity.
  - cbn [G.writeLines_loop1].
    rewrite ltb_zlen_mid, go_get_map_mid. cbn [bind sink_write].
    cbn [go_sprint flat_map go_fval_text]. rewrite app_nil_r.
    rewrite <- (zlen_snoc pre l), (snoc_assoc pre l rest).
    rewrite IH by (simpl in Hg; lia).
    rewrite <- app_assoc.
    cbn [write_lines map]. rewrite join_lines_cons, !zb_app, <- !app_assoc. reflexivity.
Qed.

Lemma C14_writeLines_is_source : forall fuel w pfx ls,
  (length ls < fuel)%nat ->
  G.writeLines w (zb pfx) (map zb ls) W fuel = Ok (w ++ zb (join_lines (write_lines pfx ls))).
Proof.
  intros fuel w pfx ls Hf. unfold G.writeLines.
  rewrite zlen_map.
  cbv zeta.
  change (G.writeLines_loop1 fuel fuel (zb pfx) (map zb ls) (zlen ls) W w 0)
    with (G.writeLines_loop1 fuel fuel (zb pfx) (map zb ([] ++ ls)) (zlen ([] ++ ls)) W w (zlen (@nil line))).
  rewrite writeLines_loop_ok by exact Hf. reflexivity.
Qed.
End Sink.

(* ---- hasRelevantEdits ---- *)
Definition relevant (o : op) (e : edit line) : bool :=
  match eop e, o with
  | Replace, _ => true
  | Drop, Drop | Copy, Copy | Emit, Emit => true
  | _, _ => false
  end.

Lemma relevant_code o e :
  ((G.Edit_Op (eenc e) =? op_code o) || (G.Edit_Op (eenc e) =? 33)) = relevant o e.
Proof. unfold relevant. destruct e as [eo x y]. cbn [eenc G.Edit_Op eop]. destruct eo, o; reflexivity. Qed.

Lemma hasRelevantEdits_loop_ok fuel o : forall rest pre gas,
  (length rest < gas)%nat ->
  G.hasRelevantEdits_loop1 fuel gas (map eenc (pre ++ rest)) (op_code o) (zlen (pre ++ rest)) (zlen pre)
  = Ok (if existsb (relevant o) rest then Ret true else Next (zlen (pre ++ rest))).
Proof.
  induction rest as [|e rest IH]; intros pre gas Hg; (destruct gas as [|gas]; [simpl in Hg; lia|]).
  - cbn [G.hasRelevantEdits_loop1]. rewrite app_nil_r, ltb_zlen_end. reflexivity.
  - cbn [G.hasRelevantEdits_loop1].
    rewrite ltb_zlen_mid, go_get_map_mid. cbn [bind].
    rewrite relevant_code. cbn [existsb].
    destruct (relevant o e); [reflexivity|]. cbn [orb].
    rewrite <- (zlen_snoc pre e), (snoc_assoc pre e rest).
    apply IH. simpl in Hg; lia.
Qed.

Lemma has_relevant_is_existsb es o : has_relevant_edits es o = existsb (relevant o) es.
Proof. reflexivity. Qed.

Lemma C14_hasRelevantEdits_is_source : forall fuel es o,
  (length es < fuel)%nat ->
  G.hasRelevantEdits (map eenc es) (op_code o) fuel = Ok (has_relevant_edits es o).
Proof.
  intros fuel es o Hf. unfold G.hasRelevantEdits. rewrite zlen_map.
  cbv zeta.
  change (G.hasRelevantEdits_loop1 fuel fuel (map eenc es) (op_code o) (zlen es) 0)
    with (G.hasRelevantEdits_loop1 fuel fuel (map eenc ([] ++ es)) (op_code o) (zlen ([] ++ es)) (zlen (@nil (edit line)))).
  rewrite hasRelevantEdits_loop_ok by exact Hf. cbn [bind app].
  rewrite has_relevant_is_existsb. destruct (existsb (relevant o) es); reflexivity.
Qed.

(* ---- fmtFileHeader ---- *)
Section Header.
Variable cnt : sink -> list Z -> Z.
Variable er : sink -> list Z -> go_xerr.
Notation W := (sink_write cnt er).
Variable time : Type.
Variable time_is_zero : time -> bool.
Variable format_time : time -> bytes.
(* the methods of time.Time the code calls, as functions that answer like the model's *)
Variable IsZero : time -> res bool.
Variable Format : time -> list Z -> res (list Z).
Variable tfmt : list Z.
Hypothesis IsZero_ok : forall ts, IsZero ts = Ok (time_is_zero ts).
Hypothesis Format_ok : forall ts, Format ts tfmt = Ok (zb (format_time ts)).

Lemma C14_fmtFileHeader_is_source : forall w pfx name ts,
  G.fmtFileHeader w (zb pfx) (zb name) ts tfmt W IsZero Format
  = Ok (w ++ zb (file_header time_is_zero format_time pfx name ts) ++ [10]).
Proof.
  intros w pfx name ts. unfold G.fmtFileHeader, file_header.
  cbn [bind sink_write go_sprint flat_map go_fval_text]. rewrite IsZero_ok. cbn [bind].
  destruct (time_is_zero ts); cbn [negb bind].
  - rewrite !app_nil_r, !zb_app, <- !app_assoc. reflexivity.
  - rewrite Format_ok. cbn [bind sink_write go_sprint flat_map go_fval_text].
    rewrite !app_nil_r, !zb_app, <- !app_assoc. reflexivity.
Qed.
End Header.

Print Assumptions C14_writeLines_is_source.
Print Assumptions C14_hasRelevantEdits_is_source.
Print Assumptions C14_fmtFileHeader_is_source.
