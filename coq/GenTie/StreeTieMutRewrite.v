(* stree: vineToTree and rewrite generated from the source against the model's vine_to_tree and
   rewrite (the Day-Stout-Warren rebuild C02's theorems are about).

   vineToTree: the step loop (pure arithmetic), a fresh sentinel, rotateLeft(stub, count-step) and
   the packing loop of rotateLeft(stub, left) passes; every pass is the tie of
   StreeTieMutRotate.v on the cell of the stub.  rewrite = vineToTree after treeToVine
   (StreeTieMutVine.v).  On a tree-shaped region F (trepr, StreeSep.v) the result represents the
   MODEL's tree on exactly the cells of F, the two sentinels are fresh cells beyond the old heap,
   no old cell outside F changed; a wrong count is Go's nil dereference where the model panics. *)
From Coq Require Import ZArith List Bool Arith Lia.
From Mds Require Import Gen.StreeConst Gen.StreeNode.
From Mds Require Import Common.FnRt Common.FnHeap GenTie.TieLib GenTie.StreeTieBase GenTie.StreeSep
  GenTie.StreeTieMutRotate GenTie.StreeTieMutVine.
Import ListNotations.
Local Open Scope Z_scope.

Section Rewrite.
Context {T : Type}.
Variable zero : T.
Notation tree := (SM.tree T).
Notation heap := (list (G.node T)).

(* the result of an in-place rebuild that allocated n sentinels *)
Definition inplace_post (n : nat) (h : heap) (F : list nat) (v : tree) (x : option nat * heap) : Prop :=
  exists F', trepr (snd x) (fst x) v F' /\ incl F' F /\ incl F F' /\ frame h (snd x) F /\
             length (snd x) = (n + length h)%nat.

(* ---- the step loop: step := 1; for step <= count { step = 2*step + 1 } ---- *)
Lemma step_loop_ok : forall (fm : nat) (step cnt : Z) (fuel gas : nat), (gas > fm)%nat ->
  rel (fun s s' => s' = s) (SM.v2t_step_loop fm step cnt) (G.vineToTree_loop1 fuel gas cnt step).
Proof.
  induction fm as [|fm IH]; intros step cnt fuel gas Hg; (destruct gas as [|gas]; [lia|]);
    cbn [SM.v2t_step_loop G.vineToTree_loop1]; unfold v2t_step_more, v2t_step_next.
  - destruct (step <=? cnt); [exact I|]. apply rel_ok. reflexivity.
  - destruct (step <=? cnt); [|apply rel_ok; reflexivity]. apply IH. lia.
Qed.

Lemma step_loop_range : forall (fm : nat) (step cnt s1 : Z),
  1 <= step <= 2 * Z.max cnt 0 + 1 -> SM.v2t_step_loop fm step cnt = SM.Ok s1 ->
  1 <= s1 <= 2 * Z.max cnt 0 + 1.
Proof.
  induction fm as [|fm IH]; intros step cnt s1 Hs E; cbn [SM.v2t_step_loop] in E; unfold v2t_step_more, v2t_step_next in E.
  - destruct (step <=? cnt) eqn:C; [discriminate|]. inversion E; subst. exact Hs.
  - destruct (step <=? cnt) eqn:C; [|inversion E; subst; exact Hs].
    apply Z.leb_le in C. apply (IH (2 * step + 1) cnt s1); [lia|exact E].
Qed.

(* ---- passes of rotateLeft on the same stub compose ---- *)
Lemma rot_post_trans (h h1 h2 : heap) nx cn cn1 Fc F1 c2 :
  nth_error h1 nx = Some cn1 -> G.node_X cn1 = G.node_X cn -> G.node_left cn1 = G.node_left cn ->
  incl F1 Fc -> incl Fc F1 -> frame h h1 (nx :: Fc) -> length h1 = length h ->
  rot_post h1 nx cn1 F1 c2 h2 -> rot_post h nx cn Fc c2 h2.
Proof.
  intros E1 EX EL I1 I2 [_ Fr1] L1 [cn2 [F2 [E2 [EX2 [EL2 [R2 [J1 [J2 [[_ Fr2] L2]]]]]]]]].
  exists cn2, F2. split; [exact E2|]. split; [congruence|]. split; [congruence|]. split; [exact R2|].
  split; [intros j Hj; apply I1, J1, Hj|]. split; [intros j Hj; apply J2, I2, Hj|].
  split; [|lia]. split; [lia|]. intros j Hj Nj.
  rewrite Fr2; [apply Fr1; assumption|lia|]. intros [X|X]; apply Nj; [left; exact X|right; apply I1, X].
Qed.

(* ---- the packing loop: for left > 1 { left /= 2; rotateLeft(stub, left) } ---- *)
Lemma pack_loop_ok : forall (fm : nat) (left : Z) (chain : tree) (h : heap) (nx : nat) (cn : G.node T)
                            (Fc : list nat) (fuel gas : nat),
  nth_error h nx = Some cn -> trepr h (G.node_right cn) chain Fc -> ~ In nx Fc ->
  (gas > fm)%nat -> (fuel > Z.to_nat left)%nat ->
  rel (fun c (x : Z * heap) => rot_post h nx cn Fc c (snd x))
      (SM.v2t_pack_loop fm left chain) (G.vineToTree_loop2 fuel gas (Some nx) left h).
Proof.
  induction fm as [|fm IH]; intros left chain h nx cn Fc fuel gas Hnx R Nnx Hg Hf; (destruct gas as [|gas]; [lia|]);
    cbn [SM.v2t_pack_loop G.vineToTree_loop2]; unfold v2t_left_more, v2t_left_next, v2t_loop_count.
  - destruct (left >? 1); [exact I|]. apply rel_ok. cbn [snd]. exists cn, Fc.
    repeat split; auto using incl_refl; try apply frame_refl.
  - destruct (left >? 1) eqn:C.
    2:{ apply rel_ok. cbn [snd]. exists cn, Fc. repeat split; auto using incl_refl; try apply frame_refl. }
    assert (Hq : 0 <= Z.quot left 2 <= left).
    { assert (1 < left) by lia. rewrite Z.quot_div_nonneg by lia. split; [apply Z.div_pos; lia|].
      apply Z.div_le_upper_bound; lia. }
    apply (rel_bind (rot_post h nx cn Fc)).
    + apply C02_rotateLeft_is_source; auto. lia.
    + intros c1 h1 [cn1 [F1 [E1 [EX [EL [R1 [I1 [I2 [Fr1 L1]]]]]]]]].
      assert (N1 : ~ In nx F1) by (intros X; apply Nnx, I1, X).
      specialize (IH (Z.quot left 2) c1 h1 nx cn1 F1 fuel gas E1 R1 N1 ltac:(lia) ltac:(lia)).
      eapply rel_weaken; [exact IH|]. intros c2 [l2 h2] P. cbn [snd] in *.
      apply (rot_post_trans h h1 h2 nx cn cn1 Fc F1 c2); assumption.
Qed.

(* func vineToTree[T any](n *node[T], count int) *node[T] *)
Theorem C02_vineToTree_is_source : forall (t : tree) (h : heap) (n : option nat) (F : list nat) (cnt : Z) (fuel : nat),
  trepr h n t F -> (fuel > Z.to_nat cnt + 1)%nat ->
  rel (inplace_post 1 h F) (SM.vine_to_tree t cnt) (G.vineToTree n cnt h zero fuel).
Proof.
  intros t h n F cnt fuel R Hf. unfold G.vineToTree, SM.vine_to_tree, go_hnew.
  pose proof (step_loop_ok (SM.v2t_fuel cnt) v2t_step0 cnt fuel fuel ltac:(unfold SM.v2t_fuel; lia)) as P1.
  pose proof (step_loop_range (SM.v2t_fuel cnt) v2t_step0 cnt) as Rg.
  unfold v2t_step0 in *.
  destruct (SM.v2t_step_loop (SM.v2t_fuel cnt) 1 cnt) as [s1| | |]; cbn [rel SM.bind] in *; auto.
  2:{ rewrite P1. reflexivity. }
  destruct P1 as [s' [E ->]]. rewrite E. cbn [bind]. clear E.
  specialize (Rg s1 ltac:(lia) eq_refl).
  unfold v2t_step_final, v2t_first_count, v2t_left0.
  assert (Hq : 0 <= Z.quot s1 2 <= Z.max cnt 0).
  { rewrite Z.quot_div_nonneg by lia. split; [apply Z.div_pos; lia|].
    assert (s1 / 2 < Z.max cnt 0 + 1) by (apply Z.div_lt_upper_bound; lia). lia. }
  set (step := Z.quot s1 2) in *.
  set (stub := length h). set (c0 := G.mk_node zero None n). set (h0 := h ++ [c0]).
  assert (H0 : nth_error h0 stub = Some c0).
  { unfold h0, stub. rewrite nth_error_app2 by lia. rewrite Nat.sub_diag. reflexivity. }
  assert (R0 : trepr h0 (G.node_right c0) t F) by (apply trepr_app; exact R).
  assert (N0 : ~ In stub F) by (intros X; apply (trepr_bound h n t F R) in X; unfold stub in X; lia).
  apply (rel_bind (rot_post h0 stub c0 F)).
  { apply C02_rotateLeft_is_source; auto. lia. }
  intros c1 h1 [cn1 [F1 [E1 [EX [EL [R1 [I1 [I2 [Fr1 L1]]]]]]]]].
  assert (N1 : ~ In stub F1) by (intros X; apply N0, I1, X).
  pose proof (pack_loop_ok (SM.v2t_fuel step) step c1 h1 stub cn1 F1 fuel fuel E1 R1 N1
                ltac:(unfold SM.v2t_fuel; lia) ltac:(lia)) as P2.
  destruct (SM.v2t_pack_loop (SM.v2t_fuel step) step c1) as [c2| | |]; cbn [rel] in *; auto.
  2:{ rewrite P2. reflexivity. }
  destruct P2 as [[l2 h2] [E2 P2]]. rewrite E2. cbn [bind snd] in *.
  pose proof (rot_post_trans h0 h1 h2 stub c0 cn1 F F1 c2 E1 EX EL I1 I2 Fr1 L1 P2) as P.
  destruct P as [cn2 [F2 [Ecn2 [_ [_ [R2 [J1 [J2 [[_ Fr2] L2]]]]]]]]].
  rewrite (hget_some h2 stub cn2 Ecn2). cbn [bind].
  eexists. split; [reflexivity|]. exists F2. cbn [fst snd].
  split; [exact R2|]. split; [exact J1|]. split; [exact J2|].
  assert (L0 : length h0 = S (length h)) by (unfold h0; rewrite app_length; cbn [length]; lia).
  split; [|cbn [Nat.add]; lia]. split; [lia|]. intros j Hj Nj. rewrite Fr2.
  - unfold h0. apply nth_error_app1. exact Hj.
  - lia.
  - intros [X|X]; [unfold stub in X; lia|contradiction].
Qed.

(* func rewrite[T any](root *node[T], size int) *node[T] { return vineToTree(treeToVine(root), size) } *)
Theorem C02_rewrite_is_source : forall (t : tree) (h : heap) (root : option nat) (F : list nat) (size : Z) (fuel : nat),
  trepr h root t F -> (fuel > SM.t2v_fuel t)%nat -> (fuel > Z.to_nat size + 1)%nat ->
  rel (inplace_post 2 h F) (SM.rewrite t size) (G.rewrite root size h zero fuel).
Proof.
  intros t h root F size fuel R Hf1 Hf2. unfold G.rewrite, SM.rewrite, rewrite_count.
  eapply rel_bind; [apply (C02_treeToVine_is_source zero t h root F fuel R Hf1)|].
  intros v [a1 h1] [F1 [R1 [I1 [I2 [Fr1 L1]]]]]. cbn [fst snd] in *.
  eapply rel_weaken; [apply (C02_vineToTree_is_source v h1 a1 F1 size fuel R1 Hf2)|].
  intros v2 [a2 h2] [F2 [R2 [J1 [J2 [Fr2 L2]]]]]. cbn [fst snd] in *.
  exists F2. cbn [fst snd]. split; [exact R2|].
  split; [intros j Hj; apply I1, J1, Hj|]. split; [intros j Hj; apply J2, I2, Hj|].
  split; [|cbn [Nat.add] in *; lia].
  apply (frame_trans h h1 h2 F F1 Fr1); [apply sub_incl; exact I1|exact Fr2].
Qed.

End Rewrite.

Print Assumptions C02_vineToTree_is_source.
Print Assumptions C02_rewrite_is_source.
