(* Chunks of slice/slice.go: model = generated function (see SliceTieBase.v) *)
From Coq Require Import ZArith List Bool Lia ZifyBool.
From Mds Require Import Common.FnRt GenTie.TieLib Gen.FnSlice Gen.SliceIdx GenTie.SliceTieBase.
Import ListNotations.
Local Open Scope Z_scope.

(* ---------------------------------------------------------------- Chunks / Batches
   The model's views and FnRt's views are the same triples ([vw]). *)
Lemma chunks_loop1_eq : forall gas f0 v n out i,
  bind (Chunks_loop1 f0 gas (vw v) n (map vw out) i) (fun '(o, _) => Ok o)
  = embf (map vw) (M.chunks_loop gas v n i out).
Proof.
  induction gas; intros; simpl; [reflexivity|].
  unfold ch_loop, ch_end, ch_lo, ch_hi, ch_max, ch_i_next.
  case_if; simpl; [|reflexivity].
  rewrite slice3_eq.
  match goal with |- context[M.slice3 ?a ?b ?c ?d] => destruct (M.slice3 a b c d) as [c'| |] end;
    simpl; try reflexivity.
  rewrite <- IHgas with (f0 := f0). rewrite map_app. reflexivity.
Qed.

Lemma chunks_loop1_mono : forall gas gas' f0 f0' v n out i, (gas <= gas')%nat ->
  res_le (Chunks_loop1 f0 gas v n out i) (Chunks_loop1 f0' gas' v n out i).
Proof.
  induction gas; intros; [apply res_le_oof|]. destruct gas'; [lia|]. simpl.
  mono. apply IHgas; lia.
Qed.

Theorem C17_chunks_is_source : forall (v : M.view) (n : Z) (fuel : nat),
  (S (Z.to_nat (M.vlen v)) <= fuel)%nat ->
  res_le (embf (map vw) (M.chunks v n)) (Chunks (vw v) n fuel).
Proof.
  intros v n fuel Hf. unfold Chunks, M.chunks. cbv zeta.
  unfold ch_neg, ch_single, ch_hint, ch_i0, go_quot, go_make_check. simpl vlen.
  case_if; cbn [bind embf andb]; [apply res_le_refl|].
  case_if; cbn [bind embf andb]; [apply res_le_refl|].
  case_if; cbn [bind embf andb]; [apply res_le_refl|].
  match goal with |- context[if ?h <? 0 then M.Panic M.PRtMake else _] => set (hint := h) end.
  destruct (hint <? 0) eqn:E.
  - replace (0 <=? hint) with false by lia. apply res_le_refl.
  - replace (0 <=? hint) with true by lia. cbn [bind embf andb Z.leb Z.compare].
    rewrite <- (chunks_loop1_eq (S (Z.to_nat (M.vlen v))) fuel). simpl map.
    mono. apply chunks_loop1_mono; lia.
Qed.


Print Assumptions C17_chunks_is_source.
