(* Model of mlink/mlink.go, mlink/list.go, mlink/queue.go.  Definitions only.

   The Go heap of entry[T] cells is a list of (value, link) pairs indexed by address; the
   sentinel lst.first lives at address 0.  A link is Nil or Ptr a.  A Cursor is the address of
   its predecessor cell (Go: Cursor{pred *entry}).  Every method is transcribed statement by
   statement.  Pointer comparisons (== nil, e.link == e), pointer assignments' right-hand
   sides, loop and branch conditions, and the number of checkValid / invalidate / Next calls in
   each method are definitions of Gen/MlinkFacts.v, Gen/MlinkList.v and Gen/MlinkQueue.v,
   regenerated from the Go source on every run; pointers travel through them encoded as Z
   ([enc]/[dec], nil = -1).

   Results: Ok value state | Panic kind state (the state at the moment of the panic) |
   OutOfFuel (a Go loop that did not end within the fuel: a hang) | BadAddr (a dangling
   address: impossible in Go, a distinguished result here, proved unreachable).
   Every Go loop that walks links (invalidate, At, Last, Find, Each) is fuelled with
   [S (length heap)]. *)
From Coq Require Import ZArith List Bool.
Import ListNotations.
From Mds Require Gen.MlinkFacts Gen.MlinkList Gen.MlinkQueue.
Local Open Scope Z_scope.


Inductive link := Nil | Ptr (a : nat).

Definition null : Z := -1.
Definition enc (l : link) : Z := match l with Nil => null | Ptr a => Z.of_nat a end.
Definition dec (z : Z) : link := if z <? 0 then Nil else Ptr (Z.to_nat z).

Inductive pkind := InvalidCursor | IndexRange | NilDeref.

Inductive res (S A : Type) :=
| Ok (a : A) (s : S)
| Panic (k : pkind) (s : S)
| OutOfFuel
| BadAddr.
Arguments Ok {S A} a s.
Arguments Panic {S A} k s.
Arguments OutOfFuel {S A}.
Arguments BadAddr {S A}.

Definition bind {S A B} (m : res S A) (f : A -> S -> res S B) : res S B :=
  match m with
  | Ok a s => f a s
  | Panic k s => Panic k s
  | OutOfFuel => OutOfFuel
  | BadAddr => BadAddr
  end.

(* "was the call there at all": the call is made iff the Go source has it *)
Definition called (ncalls : Z) : bool := 0 <? ncalls.

(* Statement ORDER.  Where the order of neighbouring statements matters (pointer surgery), each
   statement is a function on (local variables, state) paired with its source ordinal
   (Gen: ord:assign / ord:call, regenerated from the Go source); [in_order] sorts them by ordinal
   and [seq_env] executes them one after the other.  Swapping two statements in the Go source
   therefore swaps them in the model. *)
Fixpoint insert_by {A} (x : Z * A) (l : list (Z * A)) : list (Z * A) :=
  match l with
  | [] => [x]
  | y :: r => if fst x <? fst y then x :: l else y :: insert_by x r
  end.
Definition in_order {A} (l : list (Z * A)) : list A := map snd (fold_right insert_by [] l).

Fixpoint seq_env {S E} (ss : list (E -> S -> res S E)) (e : E) (s : S) : res S E :=
  match ss with
  | [] => Ok e s
  | f :: r => bind (f e s) (fun e' s' => seq_env r e' s')
  end.

Section Mlink.
Variable T : Type.
Variable zero : T.          (* Go's zero value of T *)

Definition cell := (T * link)%type.
Definition heap := list cell.

Definition upd (h : heap) (a : nat) (c : cell) : heap := firstn a h ++ c :: skipn (S a) h.

(* cursor-method state: the heap and the cursor's own pred field *)
Definition cst := (heap * nat)%type.

Definition load (a : nat) (s : cst) : res cst cell :=
  match nth_error (fst s) a with Some c => Ok c s | None => BadAddr end.

Definition store (a : nat) (c : cell) (s : cst) : res cst unit :=
  if (a <? length (fst s))%nat then Ok tt (upd (fst s) a c, snd s) else BadAddr.

(* &entry[T]{X: v, link: l} *)
Definition alloc (c : cell) (s : cst) : res cst nat :=
  Ok (length (fst s)) (fst s ++ [c], snd s).

(* following a pointer: nil dereference panics *)
Definition deref (l : link) (s : cst) : res cst nat :=
  match l with Nil => Panic NilDeref s | Ptr a => Ok a s end.

Definition set_pred (p : nat) (s : cst) : res cst unit := Ok tt (fst s, p).

(* ---- mlink.go ---- *)

(* func (e *entry[T]) invalidate() { for e != nil { next := e.link; e.link = e; e = next } }
   The loop body's locals are (e, next); its three statements run in source order. *)
Definition ienv := (link * link)%type.
(* next := e.link *)
Definition inv_next (en : ienv) (s : cst) : res cst ienv :=
  bind (deref (fst en) s) (fun a s =>
  bind (load a s) (fun c s =>
  Ok (fst en, dec (MlinkFacts.invalidate_next (enc (snd c)))) s)).
(* e.link = e *)
Definition inv_self (en : ienv) (s : cst) : res cst ienv :=
  bind (deref (fst en) s) (fun a s =>
  bind (load a s) (fun c s =>
  bind (store a (fst c, dec (MlinkFacts.invalidate_newlink (enc (fst en)))) s) (fun _ s =>
  Ok en s))).
(* e = next *)
Definition inv_adv (en : ienv) (s : cst) : res cst ienv :=
  Ok (dec (MlinkFacts.invalidate_adv (enc (snd en))), snd en) s.

Definition inv_body : list (ienv -> cst -> res cst ienv) :=
  in_order [(MlinkFacts.invalidate_next_ord, inv_next); (MlinkFacts.invalidate_self_ord, inv_self);
            (MlinkFacts.invalidate_adv_ord, inv_adv)].

Fixpoint invalidate (fuel : nat) (e : link) (s : cst) : res cst unit :=
  match fuel with
  | O => OutOfFuel
  | S f =>
    if MlinkFacts.invalidate_cond (enc e) null then
      bind (seq_env inv_body (e, Nil) s) (fun en s => invalidate f (fst en) s)
    else Ok tt s
  end.

(* func (e *entry[T]) checkValid() *entry[T] { if e.link == e { panic("invalid cursor") }; return e } *)
Definition check_valid (e : nat) (s : cst) : res cst nat :=
  bind (load e s) (fun c s =>
  if MlinkFacts.checkValid_cond (enc (snd c)) (Z.of_nat e) then Panic InvalidCursor s
  else deref (dec (MlinkFacts.checkValid_ret (Z.of_nat e))) s).

(* c.pred.checkValid() when the method has that call, plain c.pred otherwise *)
Definition checked (ncalls : Z) (s : cst) : res cst nat :=
  if called ncalls then check_valid (snd s) s else Ok (snd s) s.

(* ---- Cursor methods (list.go) ---- *)

(* func (c *Cursor[T]) AtEnd() bool { return c.pred.checkValid().link == nil } *)
Definition cur_at_end (s : cst) : res cst bool :=
  bind (checked MlinkList.atend_ncalls_check s) (fun e s =>
  bind (load e s) (fun c s =>
  Ok (MlinkList.atend_ret (enc (snd c)) null) s)).

(* if c.AtEnd() { return zero }; return c.pred.checkValid().link.X *)
Definition cur_get (s : cst) : res cst T :=
  bind (cur_at_end s) (fun ae s =>
  if MlinkList.get_atend ae then Ok zero s else
  bind (checked MlinkList.get_ncalls_check s) (fun e s =>
  bind (load e s) (fun c s =>
  bind (deref (snd c) s) (fun t s =>
  bind (load t s) (fun ct s =>
  Ok (fst ct) s))))).

(* if c.AtEnd() { c.pred.link = &entry[T]{X: v} } else { c.pred.checkValid().link.X = v } *)
Definition cur_set (v : T) (s : cst) : res cst unit :=
  bind (cur_at_end s) (fun ae s =>
  if MlinkList.set_atend ae then
    bind (alloc (v, Nil) s) (fun n s =>
    bind (load (snd s) s) (fun cp s =>
    store (snd s) (fst cp, Ptr n) s))
  else
    bind (checked MlinkList.set_ncalls_check s) (fun e s =>
    bind (load e s) (fun c s =>
    bind (deref (snd c) s) (fun t s =>
    bind (load t s) (fun ct s =>
    store t (v, snd ct) s))))).

(* if c.AtEnd() { return false }; c.pred = c.pred.link; return !c.AtEnd() *)
Definition cur_next (s : cst) : res cst bool :=
  bind (cur_at_end s) (fun ae s =>
  if MlinkList.next_atend ae then Ok MlinkList.next_ret_end s else
  bind (load (snd s) s) (fun cp s =>
  bind (deref (dec (MlinkList.next_newpred (enc (snd cp)))) s) (fun p' s =>
  bind (set_pred p' s) (fun _ s =>
  bind (cur_at_end s) (fun ae2 s =>
  Ok (MlinkList.next_ret ae2) s))))).

(* added := &entry[T]{X: v, link: c.pred.checkValid().link}; c.pred.link = added *)
Definition cur_push (v : T) (s : cst) : res cst unit :=
  bind (checked MlinkList.push_ncalls_check s) (fun e s =>
  bind (load e s) (fun c s =>
  bind (alloc (v, dec (MlinkList.push_added_link (enc (snd c)))) s) (fun added s =>
  bind (load (snd s) s) (fun cp s =>
  store (snd s) (fst cp, dec (MlinkList.push_newlink (Z.of_nat added))) s)))).

(* for _, v := range vs { c.Push(v); c.Next() } *)
Fixpoint cur_add (vs : list T) (s : cst) : res cst unit :=
  match vs with
  | [] => Ok tt s
  | v :: vs' =>
    bind (if called MlinkList.add_ncalls_push then cur_push v s else Ok tt s) (fun _ s =>
    bind (if called MlinkList.add_ncalls_next then cur_next s else Ok false s) (fun _ s =>
    cur_add vs' s))
  end.

(* if c.AtEnd() { return zero }
   val := c.pred.link.X; next := c.pred.link.link
   c.pred.link.link = c.pred.link; c.pred.link = next; return val
   The locals are (val, next); the four statements run in source order, each evaluating
   c.pred.link on the heap as it is at that moment. *)
Definition renv := (T * link)%type.
(* val := c.pred.link.X *)
Definition rm_val (e : renv) (s : cst) : res cst renv :=
  bind (load (snd s) s) (fun cp s =>
  bind (deref (snd cp) s) (fun t s =>
  bind (load t s) (fun ct s =>
  Ok (fst ct, snd e) s))).
(* next := c.pred.link.link *)
Definition rm_next (e : renv) (s : cst) : res cst renv :=
  bind (load (snd s) s) (fun cp s =>
  bind (deref (snd cp) s) (fun t s =>
  bind (load t s) (fun ct s =>
  Ok (fst e, dec (MlinkList.remove_next (enc (snd ct)))) s))).
(* c.pred.link.link = c.pred.link *)
Definition rm_self (e : renv) (s : cst) : res cst renv :=
  bind (load (snd s) s) (fun cp s =>
  bind (deref (snd cp) s) (fun t s =>
  bind (load t s) (fun ct s =>
  bind (store t (fst ct, dec (MlinkList.remove_selflink (enc (snd cp)))) s) (fun _ s =>
  Ok e s)))).
(* c.pred.link = next *)
Definition rm_new (e : renv) (s : cst) : res cst renv :=
  bind (load (snd s) s) (fun cp s =>
  bind (store (snd s) (fst cp, dec (MlinkList.remove_newlink (enc (snd e)))) s) (fun _ s =>
  Ok e s)).

Definition rm_body : list (renv -> cst -> res cst renv) :=
  in_order [(MlinkList.remove_val_ord, rm_val); (MlinkList.remove_next_ord, rm_next);
            (MlinkList.remove_self_ord, rm_self); (MlinkList.remove_new_ord, rm_new)].

Definition cur_remove (s : cst) : res cst T :=
  bind (cur_at_end s) (fun ae s =>
  if MlinkList.remove_atend ae then Ok zero s else
  bind (seq_env rm_body (zero, Nil) s) (fun e s => Ok (fst e) s)).

(* c.pred.checkValid().link.invalidate(); c.pred.link = nil
   [nchk] is the number of checkValid calls in the method: MlinkList.truncate_ncalls_check for the
   working tree; 0 is the code before repair e389bb4 (F7). *)
(* c.pred.checkValid().link.invalidate() *)
Definition tr_inval (nchk : Z) (_ : unit) (s : cst) : res cst unit :=
  bind (checked nchk s) (fun e s =>
  bind (load e s) (fun c s =>
  if called MlinkList.truncate_ncalls_invalidate then invalidate (S (length (fst s))) (snd c) s else Ok tt s)).
(* c.pred.link = nil *)
Definition tr_nil (_ : unit) (s : cst) : res cst unit :=
  bind (load (snd s) s) (fun cp s =>
  store (snd s) (fst cp, dec (MlinkList.truncate_newlink null)) s).

Definition tr_body (nchk : Z) : list (unit -> cst -> res cst unit) :=
  in_order [(MlinkList.truncate_inval_ord, tr_inval nchk); (MlinkList.truncate_nil_ord, tr_nil)].

Definition cur_truncate_gen (nchk : Z) (s : cst) : res cst unit := seq_env (tr_body nchk) tt s.

Definition cur_truncate := cur_truncate_gen MlinkList.truncate_ncalls_check.
Definition cur_truncate_pinned := cur_truncate_gen 0.

(* ---- List methods (list.go); lst.cfirst() is the cursor state (h, 0) ---- *)

Definition cfirst (h : heap) : cst := (h, O).

(* return lst.first.link == nil *)
Definition list_is_empty (h : heap) : res cst bool :=
  bind (load O (cfirst h)) (fun c s => Ok (MlinkList.isempty_ret (enc (snd c)) null) s).

(* lst.first.link.invalidate(); lst.first.link = nil *)
Definition cl_inval (_ : unit) (s : cst) : res cst unit :=      (* lst.first.link.invalidate() *)
  bind (load O s) (fun c s =>
  if called MlinkList.clear_ncalls_invalidate then invalidate (S (length (fst s))) (snd c) s else Ok tt s).
Definition cl_nil (_ : unit) (s : cst) : res cst unit :=        (* lst.first.link = nil *)
  bind (load O s) (fun c' s =>
  store O (fst c', dec (MlinkList.clear_newlink null)) s).

Definition cl_body : list (unit -> cst -> res cst unit) :=
  in_order [(MlinkList.clear_inval_ord, cl_inval); (MlinkList.clear_nil_ord, cl_nil)].

Definition list_clear (h : heap) : res cst unit := seq_env cl_body tt (cfirst h).

(* for ; !cur.AtEnd(); cur.Next() { if n == 0 { break }; n-- } *)
Fixpoint at_loop (fuel : nat) (n : Z) (s : cst) : res cst unit :=
  match fuel with
  | O => OutOfFuel
  | S f =>
    bind (cur_at_end s) (fun ae s =>
    if MlinkList.at_cond ae then
      if MlinkList.at_found n then Ok tt s
      else
        let n := MlinkList.at_dec n in
        bind (if called MlinkList.at_ncalls_next then cur_next s else Ok false s) (fun _ s =>
        at_loop f n s)
    else Ok tt s)
  end.

(* if n < 0 { panic("index out of range") }; cur := lst.cfirst(); <loop>; return &cur *)
Definition list_at (n : Z) (h : heap) : res cst unit :=
  if MlinkList.at_neg n then Panic IndexRange (cfirst h)
  else at_loop (S (length h)) n (cfirst h).

(* for cur.pred.link.link != nil { cur.Next() } *)
Fixpoint last_loop (fuel : nat) (s : cst) : res cst unit :=
  match fuel with
  | O => OutOfFuel
  | S f =>
    bind (load (snd s) s) (fun cp s =>
    bind (deref (snd cp) s) (fun t s =>
    bind (load t s) (fun ct s =>
    if MlinkList.last_cond (enc (snd ct)) null then
      bind (if called MlinkList.last_ncalls_next then cur_next s else Ok false s) (fun _ s =>
      last_loop f s)
    else Ok tt s)))
  end.

(* cur := lst.cfirst(); if !cur.AtEnd() { <loop> }; return &cur *)
Definition list_last (h : heap) : res cst unit :=
  bind (cur_at_end (cfirst h)) (fun ae s =>
  if MlinkList.last_nonempty ae then last_loop (S (length h)) s else Ok tt s).

(* c := lst.Last(); c.Next(); return c *)
Definition list_end (h : heap) : res cst unit :=
  bind (if called MlinkList.end_ncalls_last then list_last h else Ok tt (cfirst h)) (fun _ s =>
  bind (if called MlinkList.end_ncalls_next then cur_next s else Ok false s) (fun _ s =>
  Ok tt s)).

(* for !cur.AtEnd() { if f(cur.Get()) { break }; cur.Next() } *)
Fixpoint find_loop (fuel : nat) (f : T -> bool) (s : cst) : res cst unit :=
  match fuel with
  | O => OutOfFuel
  | S fl =>
    bind (cur_at_end s) (fun ae s =>
    if MlinkList.find_cond ae then
      bind (cur_get s) (fun v s =>
      if MlinkList.find_hit (f v) then Ok tt s
      else
        bind (if called MlinkList.find_ncalls_next then cur_next s else Ok false s) (fun _ s =>
        find_loop fl f s))
    else Ok tt s)
  end.

Definition list_find (f : T -> bool) (h : heap) : res cst unit :=
  find_loop (S (length h)) f (cfirst h).

(* for cur := lst.cfirst(); !cur.AtEnd(); cur.Next() { if !f(cur.Get()) { return } }
   The observable is the sequence of values f was called with. *)
Fixpoint each_loop (fuel : nat) (f : T -> bool) (s : cst) : res cst (list T) :=
  match fuel with
  | O => OutOfFuel
  | S fl =>
    bind (cur_at_end s) (fun ae s =>
    if MlinkList.each_cond ae then
      bind (cur_get s) (fun v s =>
      if MlinkList.each_stop (f v) then Ok [v] s
      else
        bind (if called MlinkList.each_ncalls_next then cur_next s else Ok false s) (fun _ s =>
        bind (each_loop fl f s) (fun vs s => Ok (v :: vs) s)))
    else Ok [] s)
  end.

Definition list_each (f : T -> bool) (h : heap) : res cst (list T) :=
  each_loop (S (length h)) f (cfirst h).

(* for range lst.Each { n++ } *)
Definition list_len (h : heap) : res cst Z :=
  bind (list_each (fun _ => true) h) (fun vs s =>
  Ok (fold_left (fun n _ => MlinkList.len_inc n) vs 0) s).

(* cur := lst.At(n); return cur.Get(), !cur.AtEnd() *)
Definition list_peek (n : Z) (h : heap) : res cst (T * bool) :=
  bind (list_at (MlinkList.peek_at_arg n) h) (fun _ s =>
  bind (cur_get s) (fun v s =>
  bind (cur_at_end s) (fun ae s =>
  Ok (v, MlinkList.peek_ok ae) s))).

(* ---- histories over one List and any number of cursors ---- *)

Inductive op :=
| OAt (n : Z) | OLast | OEnd | OFind (f : T -> bool)           (* each creates a new cursor *)
| OCopy (k : nat)            (* struct copy of cursor k: a new Cursor value with the same pred *)
| OAssign (k j : nat)        (* struct assignment: cursor k becomes a copy of cursor j *)
| ONilCursor                 (* a nil pointer to a Cursor, or new(Cursor) / Cursor{} whose pred is nil *)
| OGet (k : nat) | OSet (k : nat) (v : T) | OAtEnd (k : nat) | ONext (k : nat)
| OPush (k : nat) (v : T) | OAdd (k : nat) (vs : list T) | ORemove (k : nat) | OTruncate (k : nat)
| OClear | OPeek (n : Z) | OEach (f : T -> bool) | OLen | OIsEmpty.

Inductive out :=
| RUnit | RVal (v : T) | RBool (b : bool) | RValBool (v : T) (b : bool)
| RList (l : list T) | RInt (n : Z)
| RPanic (k : pkind) | RHang | RBad | RNoCursor.

(* the list's heap and the Cursor values in the caller's hands: each is its pred field, [Ptr a],
   or [Nil] for a zero Cursor{} (pred == nil) and for a nil Cursor pointer.  Both behave alike: every
   method starts with c.pred.checkValid() (directly or through c.AtEnd()), whose e.link
   dereferences nil -- except Add of no values, whose loop body never runs. *)
Definition mstate := (heap * list link)%type.

Definition init : mstate := ([(zero, Nil)], []).

Definition set_nth {A} (cs : list A) (k : nat) (p : A) : list A := firstn k cs ++ p :: skipn (S k) cs.

(* a method that hands out a new cursor *)
Definition mk_cursor (m : mstate) (r : res cst unit) : mstate * out :=
  match r with
  | Ok _ s => ((fst s, snd m ++ [Ptr (snd s)]), RUnit)
  | Panic k s => ((fst s, snd m), RPanic k)
  | OutOfFuel => (m, RHang)
  | BadAddr => (m, RBad)
  end.

(* a method of the list itself *)
Definition on_list {A} (m : mstate) (r : res cst A) (o : A -> out) : mstate * out :=
  match r with
  | Ok a s => ((fst s, snd m), o a)
  | Panic k s => ((fst s, snd m), RPanic k)
  | OutOfFuel => (m, RHang)
  | BadAddr => (m, RBad)
  end.

(* a method of cursor k; [onnil] is what the method does when c.pred is nil (or c itself) *)
Definition on_cursor {A} (m : mstate) (k : nat) (onnil : out) (f : cst -> res cst A) (o : A -> out) : mstate * out :=
  match nth_error (snd m) k with
  | None => (m, RNoCursor)
  | Some Nil => (m, onnil)
  | Some (Ptr p) =>
    match f (fst m, p) with
    | Ok a s => ((fst s, set_nth (snd m) k (Ptr (snd s))), o a)
    | Panic kd s => ((fst s, set_nth (snd m) k (Ptr (snd s))), RPanic kd)
    | OutOfFuel => (m, RHang)
    | BadAddr => (m, RBad)
    end
  end.

Definition nilp : out := RPanic NilDeref.

Definition step (m : mstate) (o : op) : mstate * out :=
  match o with
  | OAt n => mk_cursor m (list_at n (fst m))
  | OLast => mk_cursor m (list_last (fst m))
  | OEnd => mk_cursor m (list_end (fst m))
  | OFind f => mk_cursor m (list_find f (fst m))
  | OCopy k => match nth_error (snd m) k with
               | None => (m, RNoCursor)
               | Some p => ((fst m, snd m ++ [p]), RUnit)
               end
  | OAssign k j => match nth_error (snd m) k, nth_error (snd m) j with
                   | Some _, Some p => ((fst m, set_nth (snd m) k p), RUnit)
                   | _, _ => (m, RNoCursor)
                   end
  | ONilCursor => ((fst m, snd m ++ [Nil]), RUnit)
  | OGet k => on_cursor m k nilp cur_get RVal
  | OSet k v => on_cursor m k nilp (cur_set v) (fun _ => RUnit)
  | OAtEnd k => on_cursor m k nilp cur_at_end RBool
  | ONext k => on_cursor m k nilp cur_next RBool
  | OPush k v => on_cursor m k nilp (cur_push v) (fun _ => RUnit)
  | OAdd k vs => on_cursor m k (match vs with [] => RUnit | _ => nilp end) (cur_add vs) (fun _ => RUnit)
  | ORemove k => on_cursor m k nilp cur_remove RVal
  | OTruncate k => on_cursor m k nilp cur_truncate (fun _ => RUnit)
  | OClear => on_list m (list_clear (fst m)) (fun _ => RUnit)
  | OPeek n => on_list m (list_peek n (fst m)) (fun vb => RValBool (fst vb) (snd vb))
  | OEach f => on_list m (list_each f (fst m)) RList
  | OLen => on_list m (list_len (fst m)) RInt
  | OIsEmpty => on_list m (list_is_empty (fst m)) RBool
  end.

Fixpoint run (m : mstate) (ops : list op) : list out :=
  match ops with
  | [] => []
  | o :: ops' => let (m', r) := step m o in r :: run m' ops'
  end.

Fixpoint run_state (m : mstate) (ops : list op) : mstate :=
  match ops with
  | [] => m
  | o :: ops' => run_state (fst (step m o)) ops'
  end.

(* the same history with Truncate as it was before the repair (F7) *)
Definition step_pinned (m : mstate) (o : op) : mstate * out :=
  match o with
  | OTruncate k => on_cursor m k nilp cur_truncate_pinned (fun _ => RUnit)
  | _ => step m o
  end.

Fixpoint run_pinned (m : mstate) (ops : list op) : list out :=
  match ops with
  | [] => []
  | o :: ops' => let (m', r) := step_pinned m o in r :: run_pinned m' ops'
  end.

(* ---- Queue (queue.go): list, back (a Cursor value; its pred may be nil in a zero Queue), size ---- *)

Record qstate := { qheap : heap; qback : link; qsize : Z }.

(* q := new(Queue[T]); q.back = q.list.cfirst() *)
Definition new_queue : qstate :=
  {| qheap := [(zero, Nil)]; qback := if called MlinkQueue.qnew_ncalls_cfirst then Ptr O else Nil; qsize := 0 |}.
(* var q Queue[T] *)
Definition zero_queue : qstate := {| qheap := [(zero, Nil)]; qback := Nil; qsize := 0 |}.

Inductive qop := QAdd (v : T) | QPop | QFront | QPeek (n : Z) | QEach (f : T -> bool) | QClear | QLen | QIsEmpty.

Definition qfail (q : qstate) {A} (r : res cst A) : qstate * out :=
  match r with
  | Ok _ s => (q, RBad)     (* not used *)
  | Panic k s => ({| qheap := fst s; qback := qback q; qsize := qsize q |}, RPanic k)
  | OutOfFuel => (q, RHang)
  | BadAddr => (q, RBad)
  end.

(* if q.back.pred == nil { q.back = q.list.cfirst() }; q.back.Add(v); q.size++ *)
Definition q_add (v : T) (q : qstate) : qstate * out :=
  let back := if MlinkQueue.qadd_nopred (enc (qback q)) null
              then (if called MlinkQueue.qadd_ncalls_cfirst then Ptr O else qback q) else qback q in
  match back with
  | Nil => ({| qheap := qheap q; qback := back; qsize := qsize q |}, RPanic NilDeref)
  | Ptr p =>
    match (if called MlinkQueue.qadd_ncalls_add then cur_add [v] (qheap q, p) else Ok tt (qheap q, p)) with
    | Ok _ s => ({| qheap := fst s; qback := Ptr (snd s); qsize := MlinkQueue.qadd_size (qsize q) |}, RUnit)
    | Panic k s => ({| qheap := fst s; qback := Ptr (snd s); qsize := qsize q |}, RPanic k)
    | OutOfFuel => (q, RHang)
    | BadAddr => (q, RBad)
    end
  end.

(* cur := q.list.cfirst(); out := cur.Get(); if cur.AtEnd() { return out, false }
   cur.Remove(); q.size--; if q.list.IsEmpty() { q.back = q.list.cfirst() }; return out, true
   The three statements after the test run in source order on the locals (q.size, q.back). *)
Definition qenv := (Z * link)%type.
Definition pop_remove (e : qenv) (s : cst) : res cst qenv :=     (* cur.Remove() *)
  bind (if called MlinkQueue.qpop_ncalls_remove then cur_remove s else Ok zero s) (fun _ s => Ok e s).
Definition pop_size (e : qenv) (s : cst) : res cst qenv :=       (* q.size-- *)
  Ok (MlinkQueue.qpop_size (fst e), snd e) s.
Definition pop_reset (e : qenv) (s : cst) : res cst qenv :=      (* if q.list.IsEmpty() { q.back = q.list.cfirst() } *)
  bind (list_is_empty (fst s)) (fun em s' =>
  Ok (fst e, if MlinkQueue.qpop_reset em then Ptr O else snd e) s').

Definition pop_body : list (qenv -> cst -> res cst qenv) :=
  in_order [(MlinkQueue.qpop_remove_ord, pop_remove); (MlinkQueue.qpop_size_ord, pop_size);
            (MlinkQueue.qpop_reset_ord, pop_reset)].

Definition q_pop (q : qstate) : qstate * out :=
  match cur_get (cfirst (qheap q)) with
  | Ok v s =>
    match cur_at_end s with
    | Ok ae s =>
      if MlinkQueue.qpop_atend ae then ({| qheap := fst s; qback := qback q; qsize := qsize q |}, RValBool v MlinkQueue.qpop_ret_empty)
      else
        match seq_env pop_body (qsize q, qback q) s with
        | Ok e s' => ({| qheap := fst s'; qback := snd e; qsize := fst e |}, RValBool v MlinkQueue.qpop_ret_ok)
        | r => qfail q r
        end
    | r => qfail q r
    end
  | r => qfail q r
  end.

Definition q_on_list {A} (q : qstate) (r : res cst A) (o : A -> out) : qstate * out :=
  match r with
  | Ok a s => ({| qheap := fst s; qback := qback q; qsize := qsize q |}, o a)
  | r => qfail q r
  end.

Definition qstep (q : qstate) (o : qop) : qstate * out :=
  match o with
  | QAdd v => q_add v q
  | QPop => q_pop q
  (* v, _ := q.list.Peek(0); return v *)
  | QFront => q_on_list q (list_peek MlinkQueue.qfront_arg (qheap q)) (fun vb => RVal (fst vb))
  | QPeek n => q_on_list q (list_peek (MlinkQueue.qpeek_arg n) (qheap q)) (fun vb => RValBool (fst vb) (snd vb))
  | QEach f => q_on_list q (list_each f (qheap q)) RList
  (* q.list.Clear(); q.back = q.list.cfirst(); q.size = 0 *)
  | QClear =>
    match (if called MlinkQueue.qclear_ncalls_clear then list_clear (qheap q) else Ok tt (cfirst (qheap q))) with
    | Ok _ s => ({| qheap := fst s; qback := if called MlinkQueue.qclear_ncalls_cfirst then Ptr O else qback q; qsize := MlinkQueue.qclear_size |}, RUnit)
    | r => qfail q r
    end
  | QLen => (q, RInt (MlinkQueue.qlen_ret (qsize q)))
  | QIsEmpty => q_on_list q (list_is_empty (qheap q)) RBool
  end.

Fixpoint qrun (q : qstate) (ops : list qop) : list out :=
  match ops with
  | [] => []
  | o :: ops' => let (q', r) := qstep q o in r :: qrun q' ops'
  end.

End Mlink.

Arguments RUnit {T}.
Arguments RVal {T} v.
Arguments RBool {T} b.
Arguments RValBool {T} v b.
Arguments RList {T} l.
Arguments RInt {T} n.
Arguments RPanic {T} k.
Arguments RHang {T}.
Arguments RBad {T}.
Arguments RNoCursor {T}.
Arguments OAt {T} n.
Arguments OLast {T}.
Arguments OEnd {T}.
Arguments OFind {T} f.
Arguments OCopy {T} k.
Arguments OAssign {T} k j.
Arguments ONilCursor {T}.
Arguments OGet {T} k.
Arguments OSet {T} k v.
Arguments OAtEnd {T} k.
Arguments ONext {T} k.
Arguments OPush {T} k v.
Arguments OAdd {T} k vs.
Arguments ORemove {T} k.
Arguments OTruncate {T} k.
Arguments OClear {T}.
Arguments OPeek {T} n.
Arguments OEach {T} f.
Arguments OLen {T}.
Arguments OIsEmpty {T}.
Arguments QAdd {T} v.
Arguments QPop {T}.
Arguments QFront {T}.
Arguments QPeek {T} n.
Arguments QEach {T} f.
Arguments QClear {T}.
Arguments QLen {T}.
Arguments QIsEmpty {T}.
