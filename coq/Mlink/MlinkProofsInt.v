(* Machine ints in mlink.  Caller-controlled ints: the offset n of List.At / List.Peek /
   Queue.Peek.  A negative n panics before any arithmetic; a non-negative n is only ever
   decremented, and only while it is not zero, so the counter stays in [0, n]: no operation on it
   can overflow, for every 64-bit argument (the minimum and maximum int included).  The other
   ints (Len's n++, Queue.size++/--) count cells that exist in memory. *)
From Coq Require Import ZArith Lia.
From Mds Require Import Gen.MlinkList Gen.MlinkQueue.
Local Open Scope Z_scope.

Definition int64 (z : Z) : Prop := - 2 ^ 63 <= z < 2 ^ 63.

Lemma at_negative_panics_first : forall n, int64 n -> n < 0 -> at_neg n = true.
Proof. intros n _ H. unfold at_neg. apply Z.ltb_lt. assumption. Qed.

Lemma at_counter_in_range : forall n, int64 n -> at_neg n = false -> at_found n = false ->
  int64 (at_dec n) /\ at_neg (at_dec n) = false /\ at_dec n < n.
Proof.
  intros n Hn Hneg Hz. unfold int64, at_neg, at_found, at_dec in *.
  apply Z.ltb_ge in Hneg. apply Z.eqb_neq in Hz.
  split; [lia|]. split; [apply Z.ltb_ge; lia|lia].
Qed.

(* Peek hands its argument to At unchanged, and the Queue hands it to List.Peek unchanged *)
Lemma peek_args_unchanged : forall n, peek_at_arg n = n /\ qpeek_arg n = n /\ qfront_arg = 0.
Proof. intros. repeat split. Qed.

(* counters of existing cells: below 2^63 they stay in range *)
Lemma count_in_range : forall n, 0 <= n < 2 ^ 63 - 1 -> int64 (len_inc n) /\ int64 (qadd_size n).
Proof. intros n H. unfold int64, len_inc, qadd_size. split; lia. Qed.
Lemma qpop_size_in_range : forall n, 0 < n < 2 ^ 63 -> int64 (qpop_size n) /\ 0 <= qpop_size n.
Proof. intros n H. unfold int64, qpop_size. lia. Qed.
