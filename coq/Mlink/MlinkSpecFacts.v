(* Sanity facts about the reference itself: the fold "Push then Next for each value" that defines
   Add has the closed form of the documentation picture. *)
From Coq Require Import ZArith List Bool Lia Arith.
Import ListNotations.
From Mds Require Import Mlink.MlinkModel Mlink.MlinkSpec.
Local Open Scope nat_scope.

Section SpecFacts.
Variable T : Type.

Lemma nth_error_set_pos : forall (ps : list cpos) k p, k < length ps -> nth_error (set_pos ps k p) k = Some p.
Proof.
  intros ps k p H. unfold set_pos. rewrite nth_error_app2 by (rewrite firstn_length; lia).
  rewrite firstn_length, Nat.min_l by lia. rewrite Nat.sub_diag. reflexivity.
Qed.

Lemma firstn_S_ins : forall (l : list T) i v, i <= length l -> firstn (S i) (ins T l i v) = firstn i l ++ [v].
Proof.
  intros l i v H. unfold ins.
  rewrite firstn_app, firstn_length, Nat.min_l by lia.
  replace (S i - i) with 1 by lia. rewrite firstn_all2 by (rewrite firstn_length; lia). reflexivity.
Qed.

Lemma skipn_S_ins : forall (l : list T) i v, i <= length l -> skipn (S i) (ins T l i v) = skipn i l.
Proof.
  intros l i v H. unfold ins.
  rewrite skipn_app, firstn_length, Nat.min_l by lia.
  replace (S i - i) with 1 by lia. rewrite skipn_all2 by (rewrite firstn_length; lia). reflexivity.
Qed.

Lemma ins_length : forall (l : list T) i v, length (ins T l i v) = S (length l).
Proof.
  intros. unfold ins. rewrite app_length. cbn [length]. rewrite firstn_length, skipn_length. lia.
Qed.

(* c.Add(vs...) at index i: the values appear at i.. in order, everything else keeps its order,
   and c ends just after them *)
Theorem aadd_picture : forall (vs : list T) (l : list T) (ps : list cpos) k i,
  nth_error ps k = Some (At i) -> i <= length l ->
  fst (fst (aadd T k vs (l, ps))) = firstn i l ++ vs ++ skipn i l /\
  nth_error (snd (fst (aadd T k vs (l, ps)))) k = Some (At (i + length vs)) /\
  snd (aadd T k vs (l, ps)) = RUnit.
Proof.
  induction vs as [|v vs IH]; intros l ps k i Hp Hi.
  - cbn [aadd fst snd app length]. rewrite firstn_skipn, Nat.add_0_r. auto.
  - cbn [aadd]. unfold apush, with_cursor. cbn [fst snd]. rewrite Hp.
    assert (Hk : k < length ps) by (apply nth_error_Some; rewrite Hp; discriminate).
    assert (Hp1 : nth_error (map (after_push i) ps) k = Some (At i)).
    { rewrite nth_error_map, Hp. cbn [option_map after_push]. rewrite Nat.leb_refl. reflexivity. }
    unfold anext, with_cursor. cbn [fst snd]. rewrite Hp1, ins_length.
    replace (i <? S (length l)) with true by (symmetry; apply Nat.ltb_lt; lia). cbn [fst snd].
    destruct (IH (ins T l i v) (set_pos (map (after_push i) ps) k (At (S i))) k (S i)) as [H1 [H2 H3]].
    + apply nth_error_set_pos. rewrite map_length. assumption.
    + rewrite ins_length. lia.
    + rewrite H1, H2, H3. rewrite firstn_S_ins, skipn_S_ins by assumption. rewrite <- app_assoc. cbn [app length].
      repeat split; try reflexivity. f_equal. f_equal. lia.
Qed.

End SpecFacts.
