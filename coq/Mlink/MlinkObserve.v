(* The observation protocol of harness/cmd/mlinktrace, in Gallina, for bin/incoq-mlink: after every
   operation of a history the harness records the operation's own result and then a fixed set of
   read-only observations.  [orun step obs s ops] does the same with any step function (the heap
   model's or the reference's), so that a recorded trace line can be compared with both inside
   Coq by vm_compute.  Definitions only. *)
From Coq Require Import ZArith List Bool.
Import ListNotations.
From Mds Require Import Mlink.MlinkModel Mlink.MlinkSpec Stack.StackModel.

Section Obs.
Variables St Op Out : Type.
Variable step : St -> Op -> St * Out.
Variable obs : St -> list Op.

Fixpoint orun (s : St) (ops : list Op) : list (Out * list Out) :=
  match ops with
  | [] => []
  | o :: r => let (s', x) := step s o in (x, map (fun q => snd (step s' q)) (obs s')) :: orun s' r
  end.
End Obs.

Definition always : Z -> bool := fun _ => true.

(* L: Each(all), Len, IsEmpty, then AtEnd and Get of every cursor handed out so far *)
Definition lobs (ncur : nat) : list (op Z) :=
  [OEach always; OLen; OIsEmpty] ++ flat_map (fun k => [OAtEnd k; OGet k]) (seq 0 ncur).

Definition lrun_model (ops : list (op Z)) :=
  orun _ _ _ (step Z 0%Z) (fun m => lobs (length (snd m))) (init Z 0%Z) ops.
Definition lrun_ref (ops : list (op Z)) :=
  orun _ _ _ (astep Z 0%Z) (fun a => lobs (length (snd a))) (ainit Z) ops.

(* Q: Each(all), Len, IsEmpty, Front, Peek(1) *)
Definition qobs : list (qop Z) := [QEach always; QLen; QIsEmpty; QFront; QPeek 1%Z].
Definition qrun_model (zeroq : bool) (ops : list (qop Z)) :=
  orun _ _ _ (qstep Z 0%Z) (fun _ => qobs) (if zeroq then zero_queue Z 0%Z else new_queue Z 0%Z) ops.
Definition qrun_ref (ops : list (qop Z)) := orun _ _ _ (aqstep Z 0%Z) (fun _ => qobs) [] ops.

(* S: Slice, Each(all), Len, IsEmpty, Top, Peek(1) *)
Definition sobs : list (sop Z) := [SSlice Z; SEach Z always; SLen Z; SIsEmpty Z; STop Z; SPeek Z 1%Z].
Definition srun_model (ops : list (sop Z)) := orun _ _ _ (sstep Z 0%Z) (fun _ => sobs) [] ops.
Definition srun_ref (ops : list (sop Z)) := orun _ _ _ (sastep Z 0%Z) (fun _ => sobs) [] ops.
