(* mlink.Queue (a List plus a cached cursor at the tail plus a size) is first-in first-out: for
   every history from NewQueue or from a zero Queue its outputs are those of the reference
   (a list, Add at the back, Pop at the front). *)
From Coq Require Import ZArith List Bool Lia Arith.
Import ListNotations.
From Mds Require Import Gen.MlinkFacts Gen.MlinkList Gen.MlinkQueue Mlink.MlinkModel Mlink.MlinkSpec
  Mlink.MlinkBasics Mlink.MlinkChain Mlink.MlinkWalk.
Local Open Scope nat_scope.

Lemma g_qadd_nopred : forall l, qadd_nopred (enc l) null = is_nil l.
Proof. intros. unfold qadd_nopred. apply enc_null_eqb. Qed.

Section QueueProofs.
Variable T : Type.
Variable zero : T.

Notation heap := (heap T).
Notation lnk := (@lnk T).
Notation vl := (@vl T zero).
Notation tailok := (@tailok T).
Notation wf := (@wf T).
Notation get_ok := (MlinkBasics.get_ok T zero).
Notation at_end_ok := (MlinkBasics.at_end_ok T zero).
Notation next_ok := (MlinkBasics.next_ok T zero).

(* chain 0 :: c holds exactly l; size is its length; back is the last cell of the chain
   (or still nil in a zero Queue that was never added to) *)
Definition QI (q : qstate T) (l : list T) : Prop :=
  exists c, wf (qheap T q) (0 :: c) /\ l = map (vl (qheap T q)) c /\ qsize T q = Z.of_nat (length l) /\
            (qback T q = Ptr (last c 0) \/ (qback T q = Nil /\ c = [])).

Lemma wf_init : wf [(zero, Nil)] [0].
Proof.
  split; [|split].
  - cbn. repeat split; lia.
  - constructor; [intros []|constructor].
  - intros x Hx. cbn in Hx. left. left. lia.
Qed.

Lemma QI_new : QI (new_queue T zero) [].
Proof. exists []. cbn. repeat split; auto using wf_init. apply wf_init. apply wf_init. Qed.

Lemma QI_zero : QI (zero_queue T zero) [].
Proof. exists []. cbn. repeat split; auto using wf_init. apply wf_init. apply wf_init. Qed.

Lemma last_cons_dflt : forall (c : list nat) x, last (x :: c) x = last c x.
Proof. intros [|y c] x; reflexivity. Qed.

Lemma qstep_sim : forall q l o, QI q l ->
  QI (fst (qstep T zero q o)) (fst (aqstep T zero l o)) /\ snd (qstep T zero q o) = snd (aqstep T zero l o).
Proof.
  intros [h back size] l o [c [Hwf [Hl [Hsz Hback]]]]. cbn [qheap qback qsize] in *.
  pose proof (wf_tailok T h [] 0 c Hwf) as Ht0.
  assert (Hlen : length l = length c) by (rewrite Hl, map_length; reflexivity).
  destruct o as [v| | |n|f| | |]; cbn [qstep aqstep fst snd].
  - (* Add *)
    unfold q_add. cbn [qheap qback qsize]. rewrite g_qadd_nopred.
    replace (called qadd_ncalls_cfirst) with true by reflexivity.
    replace (called qadd_ncalls_add) with true by reflexivity.
    assert (Hb : (if is_nil back then Ptr 0 else back) = Ptr (last c 0)).
    { destruct Hback as [->|[-> ->]]; reflexivity. }
    rewrite Hb.
    assert (Hsplit : 0 :: c = removelast (0 :: c) ++ [last c 0]).
    { rewrite <- last_cons_dflt. apply app_removelast_last. discriminate. }
    set (pre := removelast (0 :: c)) in *. set (p := last c 0) in *.
    assert (Hwfp : wf h (pre ++ p :: [])) by (rewrite <- Hsplit; exact Hwf).
    destruct (push_ok T zero h pre p [] v Hwfp) as [h1 [E [Hwf1 [Hlen1 [Hsame [Hv Hvn]]]]]].
    pose proof (wf_tailok T h1 pre p [length h] Hwf1) as Ht1.
    cbn [cur_add]. replace (called add_ncalls_push) with true by reflexivity.
    replace (called add_ncalls_next) with true by reflexivity.
    rewrite E. cbn [bind]. rewrite (next_ok _ _ _ Ht1). cbn [bind fst snd].
    split; [|reflexivity].
    exists (c ++ [length h]). cbn [qheap qback qsize]. split; [|split; [|split]].
    + change (0 :: c ++ [length h]) with ((0 :: c) ++ [length h]). rewrite Hsplit, <- app_assoc. exact Hwf1.
    + rewrite map_app. cbn [map]. rewrite Hvn, Hl. f_equal. apply map_ext_in.
      intros x Hx. symmetry. apply Hv. apply (wf_bound _ _ _ _ Hwf). right. assumption.
    + unfold qadd_size. rewrite app_length. cbn [length]. rewrite Hsz. rewrite Nat2Z.inj_add. reflexivity.
    + left. rewrite last_last. reflexivity.
  - (* Pop *)
    unfold q_pop, cfirst. cbn [qheap qback qsize]. rewrite (get_ok _ _ _ Ht0). rewrite (at_end_ok _ _ _ Ht0).
    unfold qpop_atend, qpop_ret_empty, qpop_ret_ok.
    destruct c as [|b c'].
    + cbn [hdlink is_nil fst snd]. cbn [map] in Hl. subst l. split; [|reflexivity].
      exists []. cbn [qheap qback qsize map]. auto.
    + cbn [hdlink is_nil]. rewrite g_pop_body. cbn [seq_env]. unfold pop_remove, pop_size, pop_reset.
      replace (called qpop_ncalls_remove) with true by reflexivity.
      destruct (remove_ok T zero h [] 0 b c' Hwf) as [h' [E [Hwf' [Hlen' [Hself [Hsame Hv]]]]]].
      cbn [app] in Hwf'. rewrite E. cbn [bind fst snd].
      rewrite (list_is_empty_ok T zero h' c' Hwf'). cbn [bind fst snd]. cbn [map] in Hl. subst l.
      split; [|reflexivity].
      exists c'. cbn [qheap qback qsize]. split; [assumption|]. split; [|split].
      * apply map_ext. intros; symmetry; apply Hv.
      * unfold qpop_size. cbn [fst]. cbn [length] in Hsz. rewrite map_length in Hsz. rewrite map_length, Hsz. clear. lia.
      * left. unfold qpop_reset. destruct c' as [|b' c'']; cbn [hdlink is_nil]; [reflexivity|].
        destruct Hback as [->|[_ Hc]]; [|discriminate]. reflexivity.
  - (* Front *)
    unfold q_on_list. cbn [qheap qback qsize]. unfold qfront_arg.
    destruct (list_peek_ok T zero h c Hwf 0%Z) as [s' [E Hs]]. rewrite E, <- Hl.
    unfold apeek. cbn [Z.ltb Z.compare Z.to_nat].
    destruct l as [|x l']; cbn [length Z.of_nat Z.ltb Z.compare nth hd fst snd]; (split; [|reflexivity]);
      exists c; cbn [qheap qback qsize]; rewrite Hs; auto.
  - (* Peek *)
    unfold q_on_list. cbn [qheap qback qsize]. unfold qpeek_arg.
    destruct (list_peek_ok T zero h c Hwf n) as [s' [E Hs]]. rewrite E, <- Hl.
    unfold apeek. destruct (n <? 0)%Z; [|destruct (n <? Z.of_nat (length l))%Z]; cbn [qfail fst snd qheap qback qsize];
      (split; [|reflexivity]); exists c; cbn [qheap qback qsize]; rewrite Hs; auto.
  - (* Each *)
    unfold q_on_list. cbn [qheap qback qsize].
    destruct (list_each_ok T zero h c Hwf f) as [a' E]. rewrite E, <- Hl. cbn [fst snd].
    split; [|reflexivity]. exists c. cbn [qheap qback qsize]. auto.
  - (* Clear *)
    cbn [qheap qback qsize]. replace (called qclear_ncalls_clear) with true by reflexivity.
    replace (called qclear_ncalls_cfirst) with true by reflexivity.
    destruct (clear_ok T zero h c Hwf) as [h' [E [Hwf' _]]]. rewrite E. cbn [fst snd].
    split; [|reflexivity]. exists []. cbn [qheap qback qsize map length last]. auto.
  - (* Len *)
    split; [|unfold qlen_ret; cbn [qsize]; rewrite Hsz; reflexivity].
    exists c. cbn [qheap qback qsize]. auto.
  - (* IsEmpty *)
    unfold q_on_list. cbn [qheap qback qsize]. rewrite (list_is_empty_ok T zero h c Hwf). cbn [fst snd].
    split.
    + exists c. cbn [qheap qback qsize]. auto.
    + rewrite Hlen. destruct c; reflexivity.
Qed.

Theorem qrun_refines : forall ops q l, QI q l -> qrun T zero q ops = aqrun T zero l ops.
Proof.
  induction ops as [|o ops IH]; intros q l HQ; [reflexivity|].
  cbn [qrun aqrun]. destruct (qstep_sim q l o HQ) as [HQ' Ho].
  destruct (qstep T zero q o) as [q' r]. destruct (aqstep T zero l o) as [l' r']. cbn [fst snd] in *. subst r'.
  f_equal. apply IH. assumption.
Qed.

Theorem queue_fifo : forall ops,
  qrun T zero (new_queue T zero) ops = aqrun T zero [] ops /\
  qrun T zero (zero_queue T zero) ops = aqrun T zero [] ops.
Proof. intros. split; apply qrun_refines; [apply QI_new|apply QI_zero]. Qed.

End QueueProofs.
