(* Basic facts for the mlink proofs: the Gen definitions read back as facts about links, total
   accessors for the heap, the effect of stores/allocations, list segments, and the exact result
   of every Cursor method on a valid cursor (one whose pred is on the chain) and on a stale one
   (pred self-linked). *)
From Coq Require Import ZArith List Bool Lia Arith.
Import ListNotations.
From Mds Require Import Gen.MlinkFacts Gen.MlinkList Mlink.MlinkModel.
Local Open Scope Z_scope.

Definition is_nil (l : link) : bool := match l with Nil => true | Ptr _ => false end.
Definition link_eqb (l l' : link) : bool :=
  match l, l' with Nil, Nil => true | Ptr a, Ptr b => (a =? b)%nat | _, _ => false end.

Lemma link_eqb_eq : forall l l', link_eqb l l' = true <-> l = l'.
Proof.
  intros [|a] [|b]; cbn; split; intros H; try discriminate; try reflexivity.
  - apply Nat.eqb_eq in H. subst. reflexivity.
  - inversion H. apply Nat.eqb_refl.
Qed.

Lemma link_eqb_refl : forall l, link_eqb l l = true.
Proof. intros. apply link_eqb_eq. reflexivity. Qed.

Lemma link_eqb_neq : forall l l', l <> l' -> link_eqb l l' = false.
Proof. intros l l' H. destruct (link_eqb l l') eqn:E; [|reflexivity]. apply link_eqb_eq in E. contradiction. Qed.

(* ---- the generated definitions, read back ---- *)

Lemma dec_enc : forall l, dec (enc l) = l.
Proof.
  intros [|a]; unfold dec, enc, null; cbn.
  - reflexivity.
  - destruct (Z.ltb_spec (Z.of_nat a) 0); [lia|]. rewrite Nat2Z.id. reflexivity.
Qed.

Lemma dec_of_nat : forall a, dec (Z.of_nat a) = Ptr a.
Proof. intros. apply (dec_enc (Ptr a)). Qed.

Lemma dec_null : dec null = Nil.
Proof. reflexivity. Qed.

Lemma enc_eqb : forall l l', (enc l =? enc l') = link_eqb l l'.
Proof.
  intros [|a] [|b]; unfold enc, null; cbn [link_eqb].
  - reflexivity.
  - apply Z.eqb_neq. lia.
  - apply Z.eqb_neq. lia.
  - destruct (Nat.eqb_spec a b).
    + subst. apply Z.eqb_refl.
    + apply Z.eqb_neq. lia.
Qed.

Lemma enc_null_eqb : forall l, (enc l =? null) = is_nil l.
Proof. intros. change null with (enc Nil). rewrite enc_eqb. destruct l; reflexivity. Qed.

Lemma g_invalidate_cond : forall e, invalidate_cond (enc e) null = negb (is_nil e).
Proof. intros. unfold invalidate_cond. rewrite enc_null_eqb. reflexivity. Qed.
Lemma g_invalidate_next : forall l, dec (invalidate_next (enc l)) = l.
Proof. intros. unfold invalidate_next. apply dec_enc. Qed.
Lemma g_invalidate_newlink : forall l, dec (invalidate_newlink (enc l)) = l.
Proof. intros. unfold invalidate_newlink. apply dec_enc. Qed.
Lemma g_invalidate_adv : forall l, dec (invalidate_adv (enc l)) = l.
Proof. intros. unfold invalidate_adv. apply dec_enc. Qed.
Lemma g_checkValid_cond : forall l a, checkValid_cond (enc l) (Z.of_nat a) = link_eqb l (Ptr a).
Proof. intros. unfold checkValid_cond. apply (enc_eqb l (Ptr a)). Qed.
Lemma g_checkValid_ret : forall a, dec (checkValid_ret (Z.of_nat a)) = Ptr a.
Proof. intros. unfold checkValid_ret. apply dec_of_nat. Qed.
Lemma g_atend_ret : forall l, atend_ret (enc l) null = is_nil l.
Proof. intros. unfold atend_ret. apply enc_null_eqb. Qed.
Lemma g_isempty_ret : forall l, isempty_ret (enc l) null = is_nil l.
Proof. intros. unfold isempty_ret. apply enc_null_eqb. Qed.
Lemma g_last_cond : forall l, last_cond (enc l) null = negb (is_nil l).
Proof. intros. unfold last_cond. rewrite enc_null_eqb. reflexivity. Qed.
Lemma g_next_newpred : forall l, dec (next_newpred (enc l)) = l.
Proof. intros. unfold next_newpred. apply dec_enc. Qed.
Lemma g_push_newlink : forall a, dec (push_newlink (Z.of_nat a)) = Ptr a.
Proof. intros. unfold push_newlink. apply dec_of_nat. Qed.
Lemma g_push_added_link : forall l, dec (push_added_link (enc l)) = l.
Proof. intros. unfold push_added_link. apply dec_enc. Qed.
Lemma g_remove_next : forall l, dec (remove_next (enc l)) = l.
Proof. intros. unfold remove_next. apply dec_enc. Qed.
Lemma g_remove_selflink : forall l, dec (remove_selflink (enc l)) = l.
Proof. intros. unfold remove_selflink. apply dec_enc. Qed.
Lemma g_remove_newlink : forall l, dec (remove_newlink (enc l)) = l.
Proof. intros. unfold remove_newlink. apply dec_enc. Qed.
Lemma g_truncate_newlink : dec (truncate_newlink null) = Nil.
Proof. reflexivity. Qed.
Lemma g_clear_newlink : dec (clear_newlink null) = Nil.
Proof. reflexivity. Qed.

(* every method makes the calls the proofs rely on *)
Lemma g_calls :
  called atend_ncalls_check = true /\ called get_ncalls_check = true /\ called set_ncalls_check = true /\
  called push_ncalls_check = true /\ called truncate_ncalls_check = true /\
  called truncate_ncalls_invalidate = true /\ called clear_ncalls_invalidate = true /\
  called add_ncalls_push = true /\ called add_ncalls_next = true /\
  called at_ncalls_next = true /\ called last_ncalls_next = true /\ called end_ncalls_last = true /\
  called end_ncalls_next = true /\ called find_ncalls_next = true /\ called each_ncalls_next = true.
Proof. repeat split; reflexivity. Qed.

Section Basics.
Variable T : Type.
Variable zero : T.

Notation heap := (heap T).
Notation cst := (cst T).

(* the statement order of the Go source, read back: every closed form below is proved for this
   order only, so a reordered source breaks these lemmas *)
Lemma g_inv_body : inv_body T = [inv_next T; inv_self T; inv_adv T].
Proof. reflexivity. Qed.
Lemma g_rm_body : rm_body T = [rm_val T; rm_next T; rm_self T; rm_new T].
Proof. reflexivity. Qed.
Lemma g_tr_body : forall n, tr_body T n = [tr_inval T n; tr_nil T].
Proof. reflexivity. Qed.
Lemma g_cl_body : cl_body T = [cl_inval T; cl_nil T].
Proof. reflexivity. Qed.
Lemma g_pop_body : pop_body T zero = [pop_remove T zero; pop_size T; pop_reset T].
Proof. reflexivity. Qed.

(* total accessors *)
Definition lnk (h : heap) (a : nat) : link := match nth_error h a with Some c => snd c | None => Nil end.
Definition vl (h : heap) (a : nat) : T := match nth_error h a with Some c => fst c | None => zero end.

Lemma nth_error_cell : forall (h : heap) a, (a < length h)%nat -> nth_error h a = Some (vl h a, lnk h a).
Proof.
  intros h a H. unfold vl, lnk. destruct (nth_error h a) as [[v l]|] eqn:E; [reflexivity|].
  apply nth_error_None in E. lia.
Qed.

Lemma upd_length : forall (h : heap) a c, (a < length h)%nat -> length (upd T h a c) = length h.
Proof.
  intros. unfold upd. rewrite app_length, firstn_length. cbn [length]. rewrite skipn_length. lia.
Qed.

Lemma nth_error_upd : forall (h : heap) a c b, (a < length h)%nat ->
  nth_error (upd T h a c) b = if (b =? a)%nat then Some c else nth_error h b.
Proof.
  induction h as [|x h IH]; intros a c b H; cbn [length] in H; [lia|].
  destruct a as [|a]; unfold upd; cbn [firstn skipn app].
  - destruct b; reflexivity.
  - destruct b as [|b]; cbn [nth_error Nat.eqb]; [reflexivity|].
    apply (IH a c b). lia.
Qed.

Lemma upd_same : forall (h : heap) a c, nth_error h a = Some c -> upd T h a c = h.
Proof.
  induction h as [|x h IH]; intros a c H; destruct a as [|a]; cbn in H; try discriminate.
  - inversion H. reflexivity.
  - unfold upd. cbn [firstn skipn app]. f_equal. apply (IH a c H).
Qed.

Lemma lnk_upd : forall (h : heap) a c b, (a < length h)%nat ->
  lnk (upd T h a c) b = if (b =? a)%nat then snd c else lnk h b.
Proof. intros. unfold lnk. rewrite nth_error_upd by assumption. destruct (b =? a)%nat; reflexivity. Qed.

Lemma vl_upd : forall (h : heap) a c b, (a < length h)%nat ->
  vl (upd T h a c) b = if (b =? a)%nat then fst c else vl h b.
Proof. intros. unfold vl. rewrite nth_error_upd by assumption. destruct (b =? a)%nat; reflexivity. Qed.

Lemma lnk_app : forall (h : heap) c b,
  lnk (h ++ [c]) b = if (b =? length h)%nat then snd c else lnk h b.
Proof.
  intros. unfold lnk. destruct (Nat.eqb_spec b (length h)) as [->|Hne].
  - rewrite nth_error_app2 by lia. rewrite Nat.sub_diag. reflexivity.
  - destruct (Nat.lt_ge_cases b (length h)).
    + rewrite nth_error_app1 by lia. reflexivity.
    + replace (nth_error (h ++ [c]) b) with (@None (cell T)) by (symmetry; apply nth_error_None; rewrite app_length; cbn; lia).
      replace (nth_error h b) with (@None (cell T)) by (symmetry; apply nth_error_None; lia). reflexivity.
Qed.

Lemma vl_app : forall (h : heap) c b,
  vl (h ++ [c]) b = if (b =? length h)%nat then fst c else vl h b.
Proof.
  intros. unfold vl. destruct (Nat.eqb_spec b (length h)) as [->|Hne].
  - rewrite nth_error_app2 by lia. rewrite Nat.sub_diag. reflexivity.
  - destruct (Nat.lt_ge_cases b (length h)).
    + rewrite nth_error_app1 by lia. reflexivity.
    + replace (nth_error (h ++ [c]) b) with (@None (cell T)) by (symmetry; apply nth_error_None; rewrite app_length; cbn; lia).
      replace (nth_error h b) with (@None (cell T)) by (symmetry; apply nth_error_None; lia). reflexivity.
Qed.

(* ---- primitive steps ---- *)

Lemma load_eq : forall (h : heap) p a, (a < length h)%nat -> load T a (h, p) = Ok (vl h a, lnk h a) (h, p).
Proof. intros. unfold load. cbn [fst]. rewrite nth_error_cell by assumption. reflexivity. Qed.

Lemma store_eq : forall (h : heap) p a c, (a < length h)%nat -> store T a c (h, p) = Ok tt (upd T h a c, p).
Proof. intros. unfold store. cbn [fst snd]. replace (a <? length h)%nat with true by (symmetry; apply Nat.ltb_lt; lia). reflexivity. Qed.

Definition selfb (h : heap) (a : nat) : bool := link_eqb (lnk h a) (Ptr a).

Lemma check_valid_eq : forall (h : heap) p a, (a < length h)%nat ->
  check_valid T a (h, p) = if selfb h a then Panic InvalidCursor (h, p) else Ok a (h, p).
Proof.
  intros. unfold check_valid. rewrite load_eq by assumption. cbn [bind snd].
  rewrite g_checkValid_cond. fold (selfb h a). destruct (selfb h a); [reflexivity|].
  rewrite g_checkValid_ret. reflexivity.
Qed.

Lemma checked_eq : forall n (h : heap) a, called n = true -> (a < length h)%nat ->
  checked T n (h, a) = if selfb h a then Panic InvalidCursor (h, a) else Ok a (h, a).
Proof. intros n h a Hc H. unfold checked. rewrite Hc. cbn [snd]. apply check_valid_eq. assumption. Qed.

(* ---- Cursor methods in closed form (pred inside the heap) ---- *)

Lemma cur_at_end_eq : forall (h : heap) a, (a < length h)%nat ->
  cur_at_end T (h, a) = if selfb h a then Panic InvalidCursor (h, a) else Ok (is_nil (lnk h a)) (h, a).
Proof.
  intros. unfold cur_at_end. rewrite checked_eq by (assumption || reflexivity).
  destruct (selfb h a); [reflexivity|]. cbn [bind]. rewrite load_eq by assumption. cbn [bind snd].
  rewrite g_atend_ret. reflexivity.
Qed.

(* every method of a stale cursor (pred self-linked) *)
Section Stale.
Variables (h : heap) (a : nat).
Hypothesis Ha : (a < length h)%nat.
Hypothesis Hs : lnk h a = Ptr a.

Lemma selfb_stale : selfb h a = true.
Proof. unfold selfb. rewrite Hs. apply link_eqb_refl. Qed.

Lemma stale_at_end : cur_at_end T (h, a) = Panic InvalidCursor (h, a).
Proof. rewrite cur_at_end_eq by assumption. rewrite selfb_stale. reflexivity. Qed.
Lemma stale_get : cur_get T zero (h, a) = Panic InvalidCursor (h, a).
Proof. unfold cur_get. rewrite stale_at_end. reflexivity. Qed.
Lemma stale_set : forall v, cur_set T v (h, a) = Panic InvalidCursor (h, a).
Proof. intros. unfold cur_set. rewrite stale_at_end. reflexivity. Qed.
Lemma stale_next : cur_next T (h, a) = Panic InvalidCursor (h, a).
Proof. unfold cur_next. rewrite stale_at_end. reflexivity. Qed.
Lemma stale_push : forall v, cur_push T v (h, a) = Panic InvalidCursor (h, a).
Proof. intros. unfold cur_push. rewrite checked_eq by (assumption || reflexivity). rewrite selfb_stale. reflexivity. Qed.
Lemma stale_add : forall v vs, cur_add T (v :: vs) (h, a) = Panic InvalidCursor (h, a).
Proof. intros. cbn [cur_add]. replace (called add_ncalls_push) with true by reflexivity. rewrite stale_push. reflexivity. Qed.
Lemma stale_remove : cur_remove T zero (h, a) = Panic InvalidCursor (h, a).
Proof. unfold cur_remove. rewrite stale_at_end. reflexivity. Qed.
Lemma stale_truncate : cur_truncate T (h, a) = Panic InvalidCursor (h, a).
Proof.
  unfold cur_truncate, cur_truncate_gen. rewrite g_tr_body. cbn [seq_env]. unfold tr_inval.
  rewrite checked_eq by (assumption || reflexivity). rewrite selfb_stale. reflexivity.
Qed.

(* the code before the repair: Truncate spins on the self-link whatever the fuel (F7) *)
Lemma invalidate_self_spins : forall fuel p, invalidate T fuel (Ptr a) (h, p) = OutOfFuel.
Proof.
  induction fuel as [|f IH]; intros p; [reflexivity|].
  cbn [invalidate]. rewrite g_invalidate_cond. cbn [is_nil negb]. rewrite g_inv_body.
  cbn [seq_env]. unfold inv_next, inv_self, inv_adv. cbn [fst snd deref bind].
  rewrite load_eq by assumption. cbn [bind fst snd deref].
  rewrite load_eq by assumption. cbn [bind fst snd].
  rewrite store_eq by assumption. cbn [bind fst snd].
  rewrite g_invalidate_newlink, g_invalidate_next, g_invalidate_adv, Hs.
  rewrite upd_same by (rewrite <- Hs; apply nth_error_cell; assumption).
  apply IH.
Qed.

Lemma stale_truncate_pinned : cur_truncate_pinned T (h, a) = OutOfFuel.
Proof.
  unfold cur_truncate_pinned, cur_truncate_gen. rewrite g_tr_body. cbn [seq_env]. unfold tr_inval, checked.
  change (called 0) with false. cbn [snd bind].
  rewrite load_eq by assumption. cbn [bind snd fst].
  replace (called truncate_ncalls_invalidate) with true by reflexivity.
  rewrite Hs, invalidate_self_spins. reflexivity.
Qed.
End Stale.

(* ---- list segments ---- *)

(* from link l through the cells c (each inside the heap) to link e *)
Fixpoint lseg (h : heap) (l : link) (c : list nat) (e : link) : Prop :=
  match c with
  | [] => l = e
  | a :: c' => l = Ptr a /\ (a < length h)%nat /\ lseg h (lnk h a) c' e
  end.

Lemma lseg_app : forall h c1 c2 l e,
  lseg h l (c1 ++ c2) e <-> exists m, lseg h l c1 m /\ lseg h m c2 e.
Proof.
  intros h c1. induction c1 as [|a c1 IH]; intros c2 l e; cbn [app lseg].
  - split.
    + intros H. exists l. split; [reflexivity|assumption].
    + intros [m [-> H]]. assumption.
  - split.
    + intros [Hl [Ha H]]. apply IH in H. destruct H as [m [H1 H2]]. exists m. repeat split; assumption.
    + intros [m [[Hl [Ha H1]] H2]]. repeat split; try assumption. apply IH. exists m. split; assumption.
Qed.

Lemma lseg_frame : forall h h' c l e,
  (length h <= length h')%nat -> (forall a, In a c -> lnk h' a = lnk h a) ->
  lseg h l c e -> lseg h' l c e.
Proof.
  intros h h' c. induction c as [|a c IH]; intros l e Hlen Hsame H; cbn [lseg] in *.
  - assumption.
  - destruct H as [Hl [Ha H]]. repeat split; [assumption|lia|].
    rewrite Hsame by (left; reflexivity). apply IH; [assumption| |assumption].
    intros b Hb. apply Hsame. right. assumption.
Qed.

Lemma lseg_bound : forall h c l e a, lseg h l c e -> In a c -> (a < length h)%nat.
Proof.
  intros h c. induction c as [|b c IH]; intros l e a H Hin; [contradiction|].
  destruct H as [_ [Hb H]]. destruct Hin as [->|Hin]; [assumption|]. eapply IH; eassumption.
Qed.

(* the link that leaves a segment's start *)
Definition hdlink (c : list nat) : link := match c with [] => Nil | b :: _ => Ptr b end.

Lemma lseg_start : forall h c l, lseg h l c Nil -> l = hdlink c.
Proof. intros h [|b c] l H; cbn in *; [assumption|]. destruct H as [H _]. assumption. Qed.

(* [tailok h a suf]: a is on a chain and suf is the rest of the chain after it *)
Definition tailok (h : heap) (a : nat) (suf : list nat) : Prop :=
  (a < length h)%nat /\ lseg h (lnk h a) suf Nil /\ NoDup (a :: suf).

Lemma tailok_lnk : forall h a suf, tailok h a suf -> lnk h a = hdlink suf.
Proof. intros h a suf [_ [H _]]. eapply lseg_start. eassumption. Qed.

Lemma tailok_not_self : forall h a suf, tailok h a suf -> selfb h a = false.
Proof.
  intros h a suf H. unfold selfb. rewrite (tailok_lnk _ _ _ H). destruct H as [_ [_ Hnd]].
  destruct suf as [|b suf]; cbn; [reflexivity|].
  apply Nat.eqb_neq. intros ->. inversion Hnd as [|? ? Hnin _]. apply Hnin. left. reflexivity.
Qed.

Lemma tailok_next : forall h a b suf, tailok h a (b :: suf) -> tailok h b suf.
Proof.
  intros h a b suf [Ha [Hseg Hnd]]. cbn [lseg] in Hseg. destruct Hseg as [_ [Hb Hseg]].
  repeat split; try assumption. inversion Hnd. assumption.
Qed.

Lemma at_end_ok : forall h a suf, tailok h a suf ->
  cur_at_end T (h, a) = Ok (is_nil (hdlink suf)) (h, a).
Proof.
  intros h a suf H. rewrite cur_at_end_eq by apply H. rewrite (tailok_not_self _ _ _ H), (tailok_lnk _ _ _ H). reflexivity.
Qed.

Lemma get_ok : forall h a suf, tailok h a suf ->
  cur_get T zero (h, a) = Ok (match suf with [] => zero | b :: _ => vl h b end) (h, a).
Proof.
  intros h a suf H. unfold cur_get. rewrite (at_end_ok _ _ _ H). cbn [bind]. unfold get_atend.
  destruct suf as [|b suf]; cbn [hdlink is_nil]; [reflexivity|].
  pose proof (tailok_next _ _ _ _ H) as Hb.
  rewrite checked_eq by (apply H || reflexivity). rewrite (tailok_not_self _ _ _ H). cbn [bind].
  rewrite load_eq by apply H. cbn [bind snd]. rewrite (tailok_lnk _ _ _ H). cbn [hdlink deref bind].
  rewrite load_eq by apply Hb. reflexivity.
Qed.

Lemma next_ok : forall h a suf, tailok h a suf ->
  cur_next T (h, a) =
    match suf with
    | [] => Ok false (h, a)
    | b :: suf' => Ok (negb (is_nil (hdlink suf'))) (h, b)
    end.
Proof.
  intros h a suf H. unfold cur_next. rewrite (at_end_ok _ _ _ H). cbn [bind]. unfold next_atend, next_ret_end, next_ret.
  destruct suf as [|b suf]; cbn [hdlink is_nil]; [reflexivity|].
  pose proof (tailok_next _ _ _ _ H) as Hb.
  rewrite load_eq by apply H. cbn [bind snd]. rewrite g_next_newpred, (tailok_lnk _ _ _ H). cbn [hdlink deref bind set_pred fst].
  rewrite (at_end_ok _ _ _ Hb). reflexivity.
Qed.

End Basics.
