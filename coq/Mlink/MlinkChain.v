(* The chain invariant of an mlink.List heap, and what each Cursor edit does to it.

   [wf h ch]: ch = 0 :: c is the duplicate-free chain of cells reached from the sentinel
   (address 0) by following links up to nil, and every other cell of the heap is self-linked
   (invalidated).  For a cursor whose pred is the cell a with ch = pre ++ a :: suf, each edit is
   computed exactly and the new heap is shown to satisfy wf for the new chain
   pre ++ a :: suf'. *)
From Coq Require Import ZArith List Bool Lia Arith.
Import ListNotations.
From Mds Require Import Gen.MlinkFacts Gen.MlinkList Mlink.MlinkModel Mlink.MlinkBasics.
Local Open Scope nat_scope.

Section Chain.
Variable T : Type.
Variable zero : T.

Notation heap := (heap T).
Notation lnk := (@lnk T).
Notation vl := (@vl T zero).
Notation lseg := (@lseg T).
Notation tailok := (@tailok T).
Notation selfb := (@selfb T).
Notation load_eq := (MlinkBasics.load_eq T zero).
Notation get_ok := (MlinkBasics.get_ok T zero).
Notation at_end_ok := (MlinkBasics.at_end_ok T zero).
Notation next_ok := (MlinkBasics.next_ok T zero).
Notation checked_eq := (MlinkBasics.checked_eq T zero).
Notation vl_upd := (MlinkBasics.vl_upd T zero).
Notation vl_app := (MlinkBasics.vl_app T zero).

Definition cover (h : heap) (ch : list nat) : Prop :=
  forall x, x < length h -> In x ch \/ lnk h x = Ptr x.

Definition wf (h : heap) (ch : list nat) : Prop :=
  lseg h (Ptr 0) ch Nil /\ NoDup ch /\ cover h ch.

Lemma lseg_zip : forall h pre a suf l,
  lseg h l (pre ++ a :: suf) Nil <->
  lseg h l pre (Ptr a) /\ a < length h /\ lseg h (lnk h a) suf Nil.
Proof.
  intros. rewrite lseg_app. cbn [MlinkBasics.lseg]. split.
  - intros [m [H1 [-> [Ha H2]]]]. auto.
  - intros [H1 [Ha H2]]. exists (Ptr a). auto.
Qed.

Lemma wf_head : forall h ch, wf h ch -> exists c, ch = 0 :: c.
Proof.
  intros h [|x c] [H _]; cbn in H; [discriminate|]. destruct H as [H _]. inversion H. subst. eauto.
Qed.

Lemma NoDup_app_l : forall (l l' : list nat), NoDup (l ++ l') -> NoDup l'.
Proof.
  induction l as [|x l IH]; intros l' H; [assumption|].
  cbn [app] in H. inversion H. apply IH. assumption.
Qed.

Lemma NoDup_zip : forall (pre : list nat) a suf, NoDup (pre ++ a :: suf) ->
  NoDup (a :: suf) /\ ~ In a pre /\ (forall x, In x pre -> ~ In x (a :: suf)).
Proof.
  intros pre a suf H. split; [|split].
  - eapply NoDup_app_l. eassumption.
  - apply NoDup_remove_2 in H. intros Hin. apply H. apply in_or_app. left. assumption.
  - induction pre as [|y pre IH]; intros x Hx; [contradiction|].
    cbn [app] in H. inversion H as [|? ? Hnin Hnd]. subst. destruct Hx as [->|Hx].
    + intros Hin. apply Hnin. apply in_or_app. right. assumption.
    + apply IH; assumption.
Qed.

Lemma wf_tailok : forall h pre a suf, wf h (pre ++ a :: suf) -> tailok h a suf.
Proof.
  intros h pre a suf [Hseg [Hnd _]]. apply lseg_zip in Hseg. destruct Hseg as [_ [Ha Hs]].
  apply NoDup_zip in Hnd. destruct Hnd as [Hnd _]. repeat split; assumption.
Qed.

Lemma wf_bound : forall h ch x, wf h ch -> In x ch -> x < length h.
Proof. intros h ch x [H _] Hin. eapply lseg_bound; eassumption. Qed.

Lemma wf_length : forall h ch, wf h ch -> length ch <= length h.
Proof.
  intros h ch H. rewrite <- (seq_length (length h) 0).
  apply NoDup_incl_length; [apply H|].
  intros x Hx. apply in_seq. pose proof (wf_bound _ _ _ H Hx). lia.
Qed.

(* the one lemma that re-establishes wf after an edit behind the cell a *)
Lemma wf_rebuild : forall h pre a suf h' suf',
  wf h (pre ++ a :: suf) ->
  length h <= length h' ->
  (forall x, In x pre -> lnk h' x = lnk h x) ->
  lseg h' (lnk h' a) suf' Nil ->
  NoDup (pre ++ a :: suf') ->
  cover h' (pre ++ a :: suf') ->
  wf h' (pre ++ a :: suf').
Proof.
  intros h pre a suf h' suf' [Hseg _] Hlen Hpre Hs Hnd Hcov.
  apply lseg_zip in Hseg. destruct Hseg as [H1 [Ha _]].
  split; [|split; assumption].
  apply lseg_zip. split; [|split; [lia|assumption]].
  eapply lseg_frame; eassumption.
Qed.

Lemma NoDup_sub : forall (l1 l2 l3 : list nat), NoDup (l1 ++ l2 ++ l3) -> NoDup (l1 ++ l3).
Proof.
  intros l1 l2 l3. induction l2 as [|x l2 IH]; intros H; [assumption|].
  apply IH. cbn [app] in H. eapply NoDup_remove_1. eassumption.
Qed.

Lemma NoDup_insert : forall (l1 l2 : list nat) n, NoDup (l1 ++ l2) -> ~ In n (l1 ++ l2) -> NoDup (l1 ++ n :: l2).
Proof.
  induction l1 as [|x l1 IH]; intros l2 n H Hn; cbn [app] in *.
  - constructor; assumption.
  - inversion H as [|? ? Hx Hnd]. subst. constructor.
    + intros Hin. apply in_app_or in Hin. destruct Hin as [Hin|[->|Hin]].
      * apply Hx. apply in_or_app. auto.
      * apply Hn. left. reflexivity.
      * apply Hx. apply in_or_app. auto.
    + apply IH; [assumption|]. intros Hin. apply Hn. right. assumption.
Qed.

(* ---- invalidate ---- *)

Lemma invalidate_ok : forall suf l (h : heap) p fuel,
  lseg h l suf Nil -> NoDup suf -> length suf < fuel ->
  exists h', invalidate T fuel l (h, p) = Ok tt (h', p) /\ length h' = length h /\
    (forall x, In x suf -> lnk h' x = Ptr x) /\
    (forall x, ~ In x suf -> lnk h' x = lnk h x) /\
    (forall x, vl h' x = vl h x).
Proof.
  induction suf as [|b suf IH]; intros l h p fuel Hseg Hnd Hf; (destruct fuel as [|fuel]; [lia|]); cbn [invalidate].
  - cbn in Hseg. subst l. rewrite g_invalidate_cond. cbn [is_nil negb].
    exists h. repeat split; auto. intros x [].
  - cbn [MlinkBasics.lseg] in Hseg. destruct Hseg as [-> [Hb Hseg]].
    rewrite g_invalidate_cond. cbn [is_nil negb]. rewrite g_inv_body.
    cbn [seq_env]. unfold inv_next, inv_self, inv_adv. cbn [fst snd deref bind].
    rewrite load_eq by assumption. cbn [bind fst snd deref].
    rewrite load_eq by assumption. cbn [bind fst snd].
    rewrite store_eq by assumption. cbn [bind fst snd].
    rewrite g_invalidate_newlink, g_invalidate_next, g_invalidate_adv.
    inversion Hnd as [|? ? Hnin Hnd']. subst.
    set (h1 := upd T h b (vl h b, Ptr b)).
    assert (Hl1 : length h1 = length h) by (apply upd_length; assumption).
    assert (Hseg1 : lseg h1 (lnk h b) suf Nil).
    { eapply lseg_frame; [| |eassumption]; [lia|].
      intros x Hx. unfold h1. rewrite lnk_upd by assumption.
      destruct (Nat.eqb_spec x b); [subst; contradiction|reflexivity]. }
    destruct (IH (lnk h b) h1 p fuel Hseg1 Hnd' ltac:(cbn in Hf; lia)) as [h' [E [Hl [Hin [Hout Hv]]]]].
    exists h'. split; [exact E|]. split; [lia|]. split; [|split].
    + intros x [<-|Hx]; [|apply Hin; assumption].
      rewrite Hout by assumption. unfold h1. rewrite lnk_upd by assumption. rewrite Nat.eqb_refl. reflexivity.
    + intros x Hx. rewrite Hout by (intros Hc; apply Hx; right; assumption).
      unfold h1. rewrite lnk_upd by assumption.
      destruct (Nat.eqb_spec x b); [subst; exfalso; apply Hx; left; reflexivity|reflexivity].
    + intros x. rewrite Hv. unfold h1. rewrite vl_upd by assumption.
      destruct (Nat.eqb_spec x b); [subst; reflexivity|reflexivity].
Qed.

Lemma wf_ext : forall h h' ch, length h' = length h -> (forall x, lnk h' x = lnk h x) -> wf h ch -> wf h' ch.
Proof.
  intros h h' ch Hl He [Hseg [Hnd Hcov]]. split; [|split; [assumption|]].
  - eapply lseg_frame; [| |eassumption]; [lia|]. intros; apply He.
  - intros x Hx. rewrite He. apply Hcov. lia.
Qed.

Lemma in_zip : forall (pre : list nat) a suf x, In x (pre ++ a :: suf) <-> In x pre \/ x = a \/ In x suf.
Proof. intros. rewrite in_app_iff. cbn [In]. intuition. Qed.

(* ---- Push ---- *)

Lemma push_ok : forall h pre a suf v, wf h (pre ++ a :: suf) ->
  exists h', cur_push T v (h, a) = Ok tt (h', a) /\
    wf h' (pre ++ a :: length h :: suf) /\
    length h' = S (length h) /\
    (forall x, x < length h -> x <> a -> lnk h' x = lnk h x) /\
    (forall x, x < length h -> vl h' x = vl h x) /\
    vl h' (length h) = v.
Proof.
  intros h pre a suf v Hwf.
  pose proof (wf_tailok _ _ _ _ Hwf) as Ht. pose proof Ht as [Ha [Hs Hnd]].
  set (n := length h). assert (Hn : n = length h) by reflexivity.
  set (h0 := h ++ [(v, lnk h a)]).
  assert (Hl0 : length h0 = S n) by (unfold h0; rewrite app_length; cbn; lia).
  exists (upd T h0 a (vl h0 a, Ptr n)).
  assert (Hlnk : forall x, lnk (upd T h0 a (vl h0 a, Ptr n)) x =
                   if x =? a then Ptr n else if x =? n then lnk h a else lnk h x).
  { intros x. rewrite lnk_upd by lia. cbn [snd]. unfold h0. rewrite lnk_app. reflexivity. }
  assert (Hvl : forall x, vl (upd T h0 a (vl h0 a, Ptr n)) x = if x =? n then v else vl h x).
  { intros x. rewrite vl_upd by lia. cbn [fst]. unfold h0. rewrite !vl_app. fold n.
    destruct (Nat.eqb_spec x a) as [->|]; [|reflexivity]. reflexivity. }
  split; [|split; [|split; [|split; [|split]]]].
  - unfold cur_push. rewrite checked_eq by (assumption || reflexivity).
    rewrite (tailok_not_self _ _ _ _ Ht). cbn [bind].
    rewrite load_eq by assumption. cbn [bind snd alloc fst]. rewrite g_push_added_link.
    rewrite load_eq by (rewrite app_length; cbn [length]; lia). cbn [bind fst snd].
    rewrite store_eq by (rewrite app_length; cbn [length]; lia). rewrite g_push_newlink. reflexivity.
  - eapply wf_rebuild; [exact Hwf|rewrite upd_length by lia; lia| | | |].
    + intros x Hx. rewrite Hlnk.
      pose proof Hwf as [_ [Hnd0 _]]. apply NoDup_zip in Hnd0. destruct Hnd0 as [_ [Hna _]].
      destruct (Nat.eqb_spec x a); [subst; contradiction|].
      pose proof (wf_bound h _ x Hwf ltac:(apply in_zip; auto)).
      destruct (Nat.eqb_spec x n); [lia|reflexivity].
    + rewrite Hlnk, Nat.eqb_refl. cbn [MlinkBasics.lseg]. split; [reflexivity|]. split; [rewrite upd_length by lia; lia|].
      rewrite Hlnk, Nat.eqb_refl. destruct (Nat.eqb_spec n a); [lia|].
      eapply lseg_frame; [| |exact Hs]; [rewrite upd_length by lia; lia|].
      intros x Hx. rewrite Hlnk.
      destruct (Nat.eqb_spec x a); [subst; inversion Hnd; contradiction|].
      pose proof (lseg_bound _ _ _ _ _ _ Hs Hx).
      destruct (Nat.eqb_spec x n); [lia|reflexivity].
    + change (pre ++ a :: n :: suf) with (pre ++ [a] ++ n :: suf). rewrite app_assoc.
      apply NoDup_insert.
      * rewrite <- app_assoc. apply Hwf.
      * rewrite <- app_assoc. intros Hin. pose proof (wf_bound _ _ _ Hwf Hin). lia.
    + intros x Hx. rewrite upd_length in Hx by lia. rewrite Hlnk.
      destruct (Nat.eq_dec x n) as [->|Hxn].
      * left. apply in_zip. right. right. left. reflexivity.
      * pose proof Hwf as [_ [_ Hcov]]. destruct (Hcov x ltac:(lia)) as [Hin|Hself].
        -- left. apply in_zip in Hin. apply in_zip. cbn [In]. intuition.
        -- right. destruct (Nat.eqb_spec x a) as [->|].
           ++ pose proof (tailok_not_self _ _ _ _ Ht) as Hns. unfold MlinkBasics.selfb in Hns. rewrite Hself, link_eqb_refl in Hns. discriminate.
           ++ destruct (Nat.eqb_spec x n); [lia|assumption].
  - rewrite upd_length by lia. assumption.
  - intros x Hx Hxa. rewrite Hlnk. destruct (Nat.eqb_spec x a); [contradiction|]. destruct (Nat.eqb_spec x n); [lia|reflexivity].
  - intros x Hx. rewrite Hvl. destruct (Nat.eqb_spec x n); [lia|reflexivity].
  - rewrite Hvl, Nat.eqb_refl. reflexivity.
Qed.

(* Set at the end of the list is the same store as Push there *)
Lemma set_end_eq : forall h a v, tailok h a [] -> cur_set T v (h, a) = cur_push T v (h, a).
Proof.
  intros h a v Ht. pose proof Ht as [Ha _].
  unfold cur_set, cur_push. rewrite (at_end_ok _ _ _ Ht). cbn [bind hdlink is_nil]. unfold set_atend.
  rewrite checked_eq by (assumption || reflexivity). rewrite (tailok_not_self _ _ _ _ Ht). cbn [bind].
  rewrite load_eq by assumption. cbn [bind snd]. rewrite (tailok_lnk _ _ _ _ Ht). cbn [hdlink].
  rewrite g_push_added_link. cbn [alloc bind fst snd].
  assert (Hl : a < length (h ++ [(v, Nil)])) by (rewrite app_length; cbn; lia).
  rewrite !load_eq by assumption. cbn [bind fst snd]. rewrite g_push_newlink. reflexivity.
Qed.

(* Set on an element *)
Lemma set_mid_ok : forall h pre a b suf v, wf h (pre ++ a :: b :: suf) ->
  exists h', cur_set T v (h, a) = Ok tt (h', a) /\
    wf h' (pre ++ a :: b :: suf) /\ length h' = length h /\
    (forall x, lnk h' x = lnk h x) /\
    (forall x, vl h' x = if x =? b then v else vl h x).
Proof.
  intros h pre a b suf v Hwf.
  pose proof (wf_tailok _ _ _ _ Hwf) as Ht. pose proof Ht as [Ha _].
  pose proof (tailok_next _ _ _ _ _ Ht) as [Hb _].
  exists (upd T h b (v, lnk h b)).
  assert (Hlnk : forall x, lnk (upd T h b (v, lnk h b)) x = lnk h x).
  { intros x. rewrite lnk_upd by assumption. cbn [snd]. destruct (Nat.eqb_spec x b); [subst|]; reflexivity. }
  split; [|split; [|split; [|split]]].
  - unfold cur_set. rewrite (at_end_ok _ _ _ Ht). cbn [bind hdlink is_nil]. unfold set_atend.
    rewrite checked_eq by (assumption || reflexivity). rewrite (tailok_not_self _ _ _ _ Ht). cbn [bind].
    rewrite load_eq by assumption. cbn [bind snd]. rewrite (tailok_lnk _ _ _ _ Ht). cbn [hdlink deref bind].
    rewrite load_eq by assumption. cbn [bind snd]. rewrite store_eq by assumption. reflexivity.
  - eapply wf_ext; [| |exact Hwf]; [apply upd_length; assumption|assumption].
  - apply upd_length; assumption.
  - assumption.
  - intros x. rewrite vl_upd by assumption. reflexivity.
Qed.

(* ---- Remove ---- *)

Lemma remove_end_ok : forall h a, tailok h a [] -> cur_remove T zero (h, a) = Ok zero (h, a).
Proof. intros h a Ht. unfold cur_remove. rewrite (at_end_ok _ _ _ Ht). reflexivity. Qed.

Lemma remove_ok : forall h pre a b suf, wf h (pre ++ a :: b :: suf) ->
  exists h', cur_remove T zero (h, a) = Ok (vl h b) (h', a) /\
    wf h' (pre ++ a :: suf) /\ length h' = length h /\
    lnk h' b = Ptr b /\
    (forall x, x <> a -> x <> b -> lnk h' x = lnk h x) /\
    (forall x, vl h' x = vl h x).
Proof.
  intros h pre a b suf Hwf.
  pose proof (wf_tailok _ _ _ _ Hwf) as Ht. pose proof Ht as [Ha [_ Hnd]].
  pose proof (tailok_next _ _ _ _ _ Ht) as Htb. pose proof Htb as [Hb [Hsb Hndb]].
  assert (Hab : a <> b) by (intros ->; inversion Hnd as [|? ? Hn _]; apply Hn; left; reflexivity).
  set (h1 := upd T h b (vl h b, Ptr b)).
  assert (Hl1 : length h1 = length h) by (apply upd_length; assumption).
  exists (upd T h1 a (vl h1 a, lnk h b)).
  assert (Hlnk : forall x, lnk (upd T h1 a (vl h1 a, lnk h b)) x =
                   if x =? a then lnk h b else if x =? b then Ptr b else lnk h x).
  { intros x. rewrite lnk_upd by lia. cbn [snd]. unfold h1. rewrite lnk_upd by assumption. reflexivity. }
  assert (Hvl : forall x, vl (upd T h1 a (vl h1 a, lnk h b)) x = vl h x).
  { intros x. rewrite vl_upd by lia. cbn [fst]. unfold h1. rewrite !vl_upd by assumption. cbn [fst].
    destruct (Nat.eqb_spec x a) as [->|].
    - destruct (Nat.eqb_spec a b); [contradiction|reflexivity].
    - destruct (Nat.eqb_spec x b) as [->|]; reflexivity. }
  split; [|split; [|split; [|split; [|split]]]].
  - unfold cur_remove. rewrite (at_end_ok _ _ _ Ht). cbn [bind hdlink is_nil]. unfold remove_atend.
    rewrite g_rm_body. cbn [seq_env]. unfold rm_val, rm_next, rm_self, rm_new. cbn [fst snd].
    (* val := c.pred.link.X *)
    rewrite load_eq by assumption. cbn [bind snd]. rewrite (tailok_lnk _ _ _ _ Ht). cbn [hdlink deref bind].
    rewrite load_eq by assumption. cbn [bind fst snd].
    (* next := c.pred.link.link *)
    rewrite load_eq by assumption. cbn [bind snd]. rewrite (tailok_lnk _ _ _ _ Ht). cbn [hdlink deref bind].
    rewrite load_eq by assumption. cbn [bind fst snd].
    (* c.pred.link.link = c.pred.link *)
    rewrite load_eq by assumption. cbn [bind snd]. rewrite (tailok_lnk _ _ _ _ Ht). cbn [hdlink deref bind].
    rewrite load_eq by assumption. cbn [bind fst snd].
    rewrite store_eq by assumption. cbn [bind fst snd]. rewrite g_remove_selflink. fold h1.
    (* c.pred.link = next *)
    rewrite load_eq by lia. cbn [bind fst snd]. rewrite store_eq by lia. cbn [bind fst snd].
    rewrite g_remove_next, g_remove_newlink. reflexivity.
  - eapply wf_rebuild; [exact Hwf|rewrite upd_length by lia; lia| | | |].
    + intros x Hx. rewrite Hlnk.
      pose proof Hwf as [_ [Hnd0 _]]. apply NoDup_zip in Hnd0. destruct Hnd0 as [_ [Hna Hdis]].
      destruct (Nat.eqb_spec x a); [subst; contradiction|].
      destruct (Nat.eqb_spec x b); [subst; exfalso; apply (Hdis b Hx); right; left; reflexivity|reflexivity].
    + rewrite Hlnk, Nat.eqb_refl.
      eapply lseg_frame; [| |exact Hsb]; [rewrite upd_length by lia; lia|].
      intros x Hx. rewrite Hlnk.
      destruct (Nat.eqb_spec x a); [subst; inversion Hnd as [|? ? Hn _]; exfalso; apply Hn; right; assumption|].
      destruct (Nat.eqb_spec x b); [subst; inversion Hndb; contradiction|reflexivity].
    + pose proof Hwf as [_ [Hnd0 _]].
      change (pre ++ a :: b :: suf) with (pre ++ [a] ++ [b] ++ suf) in Hnd0. rewrite app_assoc in Hnd0.
      apply NoDup_sub in Hnd0. rewrite <- app_assoc in Hnd0. exact Hnd0.
    + intros x Hx. rewrite upd_length in Hx by lia. rewrite Hlnk.
      pose proof Hwf as [_ [_ Hcov]]. destruct (Hcov x ltac:(lia)) as [Hin|Hself].
      * apply in_zip in Hin. cbn [In] in Hin. destruct Hin as [Hin|[->|[<-|Hin]]].
        -- left. apply in_zip. auto.
        -- left. apply in_zip. auto.
        -- right. destruct (Nat.eqb_spec b a); [congruence|]. rewrite Nat.eqb_refl. reflexivity.
        -- left. apply in_zip. auto.
      * right. destruct (Nat.eqb_spec x a) as [->|].
        -- pose proof (tailok_not_self _ _ _ _ Ht) as Hns. unfold MlinkBasics.selfb in Hns. rewrite Hself, link_eqb_refl in Hns. discriminate.
        -- destruct (Nat.eqb_spec x b); [subst; reflexivity|assumption].
  - rewrite upd_length by lia. assumption.
  - rewrite Hlnk. destruct (Nat.eqb_spec b a); [congruence|]. rewrite Nat.eqb_refl. reflexivity.
  - intros x Hxa Hxb. rewrite Hlnk. destruct (Nat.eqb_spec x a); [contradiction|]. destruct (Nat.eqb_spec x b); [contradiction|reflexivity].
  - assumption.
Qed.

(* ---- Truncate / Clear ---- *)

(* the heap after invalidating the cells after a and cutting a's link *)
Lemma trunc_post : forall h pre a suf h1,
  wf h (pre ++ a :: suf) ->
  length h1 = length h ->
  (forall x, In x suf -> lnk h1 x = Ptr x) ->
  (forall x, ~ In x suf -> lnk h1 x = lnk h x) ->
  (forall x, vl h1 x = vl h x) ->
  let h' := upd T h1 a (vl h1 a, Nil) in
  wf h' (pre ++ [a]) /\ length h' = length h /\
  (forall x, In x suf -> lnk h' x = Ptr x) /\
  (forall x, x <> a -> ~ In x suf -> lnk h' x = lnk h x) /\
  (forall x, vl h' x = vl h x).
Proof.
  intros h pre a suf h1 Hwf Hl1 Hin Hout Hv h'.
  pose proof (wf_tailok _ _ _ _ Hwf) as Ht. pose proof Ht as [Ha [_ Hnd]].
  assert (Hlnk : forall x, lnk h' x = if x =? a then Nil else lnk h1 x).
  { intros x. unfold h'. rewrite lnk_upd by lia. reflexivity. }
  assert (Hasuf : ~ In a suf) by (inversion Hnd; assumption).
  split; [|split; [|split; [|split]]].
  - eapply wf_rebuild; [exact Hwf|unfold h'; rewrite upd_length by lia; lia| | | |].
    + intros x Hx. rewrite Hlnk.
      pose proof Hwf as [_ [Hnd0 _]]. apply NoDup_zip in Hnd0. destruct Hnd0 as [_ [Hna Hdis]].
      destruct (Nat.eqb_spec x a); [subst; contradiction|].
      apply Hout. intros Hc. apply (Hdis x Hx). right. assumption.
    + rewrite Hlnk, Nat.eqb_refl. reflexivity.
    + pose proof Hwf as [_ [Hnd0 _]].
      change (pre ++ a :: suf) with (pre ++ [a] ++ suf) in Hnd0. rewrite app_assoc in Hnd0.
      rewrite <- (app_nil_r suf) in Hnd0. rewrite <- (app_nil_r ((pre ++ [a]))).
      change (pre ++ [a]) with (pre ++ [a]) . apply NoDup_sub with (l2 := suf).
      rewrite <- app_assoc. rewrite <- app_assoc in Hnd0. exact Hnd0.
    + intros x Hx. unfold h' in Hx. rewrite upd_length in Hx by lia. rewrite Hlnk.
      pose proof Hwf as [_ [_ Hcov]]. destruct (Hcov x ltac:(lia)) as [Hi|Hself].
      * apply in_zip in Hi. destruct Hi as [Hi|[->|Hi]].
        -- left. apply in_zip. auto.
        -- left. apply in_zip. auto.
        -- right. destruct (Nat.eqb_spec x a); [subst; contradiction|]. apply Hin. assumption.
      * right. destruct (Nat.eqb_spec x a) as [->|].
        -- pose proof (tailok_not_self _ _ _ _ Ht) as Hns. unfold MlinkBasics.selfb in Hns. rewrite Hself, link_eqb_refl in Hns. discriminate.
        -- destruct (in_dec Nat.eq_dec x suf); [apply Hin; assumption|]. rewrite Hout by assumption. assumption.
  - unfold h'. rewrite upd_length by lia. assumption.
  - intros x Hx. rewrite Hlnk. destruct (Nat.eqb_spec x a); [subst; contradiction|]. apply Hin. assumption.
  - intros x Hxa Hx. rewrite Hlnk. destruct (Nat.eqb_spec x a); [contradiction|]. apply Hout. assumption.
  - intros x. unfold h'. rewrite vl_upd by lia. cbn [fst]. destruct (Nat.eqb_spec x a); [subst|]; [|apply Hv]. apply Hv.
Qed.

Lemma truncate_ok : forall h pre a suf, wf h (pre ++ a :: suf) ->
  exists h', cur_truncate T (h, a) = Ok tt (h', a) /\
    wf h' (pre ++ [a]) /\ length h' = length h /\
    (forall x, In x suf -> lnk h' x = Ptr x) /\
    (forall x, x <> a -> ~ In x suf -> lnk h' x = lnk h x) /\
    (forall x, vl h' x = vl h x).
Proof.
  intros h pre a suf Hwf.
  pose proof (wf_tailok _ _ _ _ Hwf) as Ht. pose proof Ht as [Ha [Hs Hnd]].
  assert (Hfuel : length suf < S (length h)).
  { pose proof (wf_length _ _ Hwf) as Hl. rewrite app_length in Hl. cbn [length] in Hl. lia. }
  destruct (invalidate_ok suf (lnk h a) h a (S (length h)) Hs ltac:(inversion Hnd; assumption) Hfuel)
    as [h1 [E [Hl1 [Hin [Hout Hv]]]]].
  exists (upd T h1 a (vl h1 a, Nil)). split.
  - unfold cur_truncate, cur_truncate_gen. rewrite g_tr_body. cbn [seq_env]. unfold tr_inval, tr_nil.
    rewrite checked_eq by (assumption || reflexivity).
    rewrite (tailok_not_self _ _ _ _ Ht). cbn [bind].
    rewrite load_eq by assumption. cbn [bind fst snd].
    replace (called truncate_ncalls_invalidate) with true by reflexivity.
    rewrite E. cbn [bind fst snd]. rewrite load_eq by lia. cbn [bind fst snd].
    rewrite store_eq by lia. cbn [bind]. rewrite g_truncate_newlink. reflexivity.
  - apply (trunc_post h pre a suf h1); assumption.
Qed.

Lemma clear_ok : forall h c, wf h (0 :: c) ->
  exists h', list_clear T h = Ok tt (h', 0) /\
    wf h' [0] /\ length h' = length h /\
    (forall x, In x c -> lnk h' x = Ptr x) /\
    (forall x, x <> 0 -> ~ In x c -> lnk h' x = lnk h x) /\
    (forall x, vl h' x = vl h x).
Proof.
  intros h c Hwf.
  pose proof (wf_tailok h [] 0 c Hwf) as Ht. pose proof Ht as [Ha [Hs Hnd]].
  assert (Hfuel : length c < S (length h)).
  { pose proof (wf_length _ _ Hwf) as Hl. cbn [length] in Hl. lia. }
  destruct (invalidate_ok c (lnk h 0) h 0 (S (length h)) Hs ltac:(inversion Hnd; assumption) Hfuel)
    as [h1 [E [Hl1 [Hin [Hout Hv]]]]].
  exists (upd T h1 0 (vl h1 0, Nil)). split.
  - unfold list_clear, cfirst. rewrite g_cl_body. cbn [seq_env]. unfold cl_inval, cl_nil.
    rewrite load_eq by assumption. cbn [bind fst snd].
    replace (called clear_ncalls_invalidate) with true by reflexivity.
    rewrite E. cbn [bind fst snd]. rewrite load_eq by lia. cbn [bind fst snd].
    rewrite store_eq by lia. cbn [bind]. rewrite g_clear_newlink. reflexivity.
  - apply (trunc_post h [] 0 c h1); assumption.
Qed.

End Chain.
