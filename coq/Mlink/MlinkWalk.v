(* The walking loops of mlink.List (At, Last, End, Find, Each, Len, Peek, IsEmpty) on a
   well-formed heap: each returns Ok within the fuel S (length heap), leaves the heap unchanged,
   and stops at the chain cell the documentation says. *)
From Coq Require Import ZArith List Bool Lia Arith.
Import ListNotations.
From Mds Require Import Gen.MlinkFacts Gen.MlinkList Mlink.MlinkModel Mlink.MlinkSpec Mlink.MlinkBasics Mlink.MlinkChain.
Local Open Scope nat_scope.

Section Walk.
Variable T : Type.
Variable zero : T.

Notation heap := (heap T).
Notation lnk := (@lnk T).
Notation vl := (@vl T zero).
Notation tailok := (@tailok T).
Notation wf := (@wf T).
Notation load_eq := (MlinkBasics.load_eq T zero).
Notation get_ok := (MlinkBasics.get_ok T zero).
Notation at_end_ok := (MlinkBasics.at_end_ok T zero).
Notation next_ok := (MlinkBasics.next_ok T zero).

Lemma at_loop_ok : forall h suf a n fuel, tailok h a suf -> (0 <= n)%Z -> length suf < fuel ->
  exists a', at_loop T fuel n (h, a) = Ok tt (h, a') /\
             nth_error (a :: suf) (Nat.min (Z.to_nat n) (length suf)) = Some a'.
Proof.
  intros h suf. induction suf as [|b suf IH]; intros a n fuel Ht Hn Hf; (destruct fuel as [|fuel]; [lia|]); cbn [at_loop].
  - rewrite (at_end_ok _ _ _ Ht). cbn [bind hdlink is_nil]. unfold at_cond. cbn [negb].
    exists a. rewrite Nat.min_0_r. split; reflexivity.
  - rewrite (at_end_ok _ _ _ Ht). cbn [bind hdlink is_nil]. unfold at_cond, at_found, at_dec. cbn [negb].
    destruct (Z.eqb_spec n 0) as [->|Hne].
    + exists a. split; reflexivity.
    + replace (called at_ncalls_next) with true by reflexivity. rewrite (next_ok _ _ _ Ht). cbn [bind].
      destruct (IH b (n - 1)%Z fuel (tailok_next _ _ _ _ _ Ht) ltac:(lia) ltac:(cbn [length] in Hf; lia)) as [a' [E Hnth]].
      exists a'. split; [exact E|].
      replace (Nat.min (Z.to_nat n) (length (b :: suf))) with (S (Nat.min (Z.to_nat (n - 1)) (length suf))) by (cbn [length]; lia).
      exact Hnth.
Qed.

Lemma last_loop_ok : forall h suf a b fuel, tailok h a (b :: suf) -> length suf < fuel ->
  exists a', last_loop T fuel (h, a) = Ok tt (h, a') /\ nth_error (a :: b :: suf) (length suf) = Some a'.
Proof.
  intros h suf. induction suf as [|c suf IH]; intros a b fuel Ht Hf; (destruct fuel as [|fuel]; [lia|]); cbn [last_loop];
    pose proof Ht as [Ha _]; pose proof (tailok_next _ _ _ _ _ Ht) as Htb; pose proof Htb as [Hb _];
    rewrite load_eq by assumption; cbn [bind snd]; rewrite (tailok_lnk _ _ _ _ Ht); cbn [hdlink deref bind];
    rewrite load_eq by assumption; cbn [bind snd]; rewrite g_last_cond, (tailok_lnk _ _ _ _ Htb); cbn [hdlink is_nil negb].
  - exists a. split; reflexivity.
  - replace (called last_ncalls_next) with true by reflexivity. rewrite (next_ok _ _ _ Ht). cbn [bind].
    destruct (IH b c fuel Htb ltac:(cbn [length] in Hf; lia)) as [a' [E Hnth]].
    exists a'. split; [exact E|]. exact Hnth.
Qed.

Lemma find_loop_ok : forall f h suf a fuel, tailok h a suf -> length suf < fuel ->
  exists a', find_loop T zero fuel f (h, a) = Ok tt (h, a') /\
             nth_error (a :: suf) (find_index T f (map (vl h) suf)) = Some a'.
Proof.
  intros f h suf. induction suf as [|b suf IH]; intros a fuel Ht Hf; (destruct fuel as [|fuel]; [lia|]); cbn [find_loop].
  - rewrite (at_end_ok _ _ _ Ht). cbn [bind hdlink is_nil]. unfold find_cond. cbn [negb]. exists a. split; reflexivity.
  - rewrite (at_end_ok _ _ _ Ht). cbn [bind hdlink is_nil]. unfold find_cond, find_hit. cbn [negb].
    rewrite (get_ok _ _ _ Ht). cbn [bind map find_index].
    destruct (f (vl h b)).
    + exists a. split; reflexivity.
    + replace (called find_ncalls_next) with true by reflexivity. rewrite (next_ok _ _ _ Ht). cbn [bind].
      destruct (IH b fuel (tailok_next _ _ _ _ _ Ht) ltac:(cbn [length] in Hf; lia)) as [a' [E Hnth]].
      exists a'. split; [exact E|exact Hnth].
Qed.

Lemma each_loop_ok : forall f h suf a fuel, tailok h a suf -> length suf < fuel ->
  exists a', each_loop T zero fuel f (h, a) = Ok (visited T f (map (vl h) suf)) (h, a').
Proof.
  intros f h suf. induction suf as [|b suf IH]; intros a fuel Ht Hf; (destruct fuel as [|fuel]; [lia|]); cbn [each_loop].
  - rewrite (at_end_ok _ _ _ Ht). cbn [bind hdlink is_nil]. unfold each_cond. cbn [negb]. exists a. reflexivity.
  - rewrite (at_end_ok _ _ _ Ht). cbn [bind hdlink is_nil]. unfold each_cond, each_stop. cbn [negb].
    rewrite (get_ok _ _ _ Ht). cbn [bind map visited].
    destruct (f (vl h b)); cbn [negb].
    + replace (called each_ncalls_next) with true by reflexivity. rewrite (next_ok _ _ _ Ht). cbn [bind].
      destruct (IH b fuel (tailok_next _ _ _ _ _ Ht) ltac:(cbn [length] in Hf; lia)) as [a' E].
      exists a'. rewrite E. reflexivity.
    + exists a. reflexivity.
Qed.

(* ---- the List methods on a well-formed heap with chain 0 :: c ---- *)
Section OnList.
Variables (h : heap) (c : list nat).
Definition WF := wf h (0 :: c).
Lemma wf_t0 : WF -> tailok h 0 c.
Proof. intros Hwf. exact (wf_tailok T h [] 0 c Hwf). Qed.

Lemma fuel_enough : WF ->
  length c < S (length h).
Proof.
  intros Hwf; pose proof (wf_t0 Hwf) as Ht; unfold WF in Hwf. pose proof (wf_length _ _ _ Hwf) as Hl. cbn [length] in Hl. lia. Qed.

Lemma zip_at : WF ->
  forall i a, nth_error (0 :: c) i = Some a ->
  exists pre suf, 0 :: c = pre ++ a :: suf /\ length pre = i /\ tailok h a suf.
Proof.
  intros Hwf; pose proof (wf_t0 Hwf) as Ht; pose proof (fuel_enough Hwf) as Hfuel; pose proof Hwf as HWF; unfold WF in Hwf.
  intros i a H. destruct (nth_error_split _ _ H) as [pre [suf [E Hl]]].
  exists pre, suf. split; [exact E|]. split; [exact Hl|].
  apply (wf_tailok T h pre a suf). rewrite <- E. exact Hwf.
Qed.

Lemma list_at_ok : WF ->
  forall n, (0 <= n)%Z ->
  exists a', list_at T n h = Ok tt (h, a') /\ nth_error (0 :: c) (Nat.min (Z.to_nat n) (length c)) = Some a'.
Proof.
  intros Hwf; pose proof (wf_t0 Hwf) as Ht; pose proof (fuel_enough Hwf) as Hfuel; pose proof Hwf as HWF; unfold WF in Hwf.
  intros n Hn. unfold list_at, at_neg. destruct (Z.ltb_spec n 0); [lia|].
  apply at_loop_ok; [exact Ht|assumption|exact Hfuel].
Qed.

Lemma list_at_neg : WF ->
  forall n, (n < 0)%Z -> list_at T n h = Panic IndexRange (h, 0).
Proof.
  intros Hwf; pose proof (wf_t0 Hwf) as Ht; pose proof (fuel_enough Hwf) as Hfuel; pose proof Hwf as HWF; unfold WF in Hwf. intros n Hn. unfold list_at, at_neg. destruct (Z.ltb_spec n 0); [reflexivity|lia]. Qed.

Lemma list_last_ok : WF ->
  exists a', list_last T h = Ok tt (h, a') /\ nth_error (0 :: c) (pred (length c)) = Some a'.
Proof.
  intros Hwf; pose proof (wf_t0 Hwf) as Ht; pose proof (fuel_enough Hwf) as Hfuel; pose proof Hwf as HWF; unfold WF in Hwf.
  unfold list_last, cfirst. rewrite (at_end_ok _ _ _ Ht). cbn [bind]. unfold last_nonempty.
  destruct c as [|b c'] eqn:Ec; cbn [hdlink is_nil negb].
  - exists 0. split; reflexivity.
  - pose proof Hfuel as Hf. cbn [length] in Hf.
    destruct (last_loop_ok h c' 0 b (S (length h)) Ht ltac:(lia)) as [a' [E Hn]].
    exists a'. split; [exact E|]. cbn [length pred]. exact Hn.
Qed.

Lemma list_end_ok : WF ->
  exists a', list_end T h = Ok tt (h, a') /\ nth_error (0 :: c) (length c) = Some a'.
Proof.
  intros Hwf; pose proof (wf_t0 Hwf) as Ht; pose proof (fuel_enough Hwf) as Hfuel; pose proof Hwf as HWF; unfold WF in Hwf.
  unfold list_end. replace (called end_ncalls_last) with true by reflexivity.
  replace (called end_ncalls_next) with true by reflexivity.
  destruct (list_last_ok HWF) as [a1 [E1 Hn1]]. rewrite E1. cbn [bind].
  destruct (zip_at HWF _ _ Hn1) as [pre [suf [E [Hl Hta]]]].
  rewrite (next_ok _ _ _ Hta).
  assert (Hlen : length (0 :: c) = length pre + S (length suf)) by (rewrite E, app_length; reflexivity).
  cbn [length] in Hlen.
  destruct suf as [|b suf'].
  - cbn [bind]. exists a1. split; [reflexivity|]. cbn [length] in Hlen.
    replace (length c) with (pred (length c)) by lia. exact Hn1.
  - cbn [bind]. exists b. split; [reflexivity|]. cbn [length] in Hlen.
    assert (suf' = []) by (destruct suf'; [reflexivity|cbn [length] in Hlen; lia]). subst suf'.
    rewrite E. rewrite nth_error_app2 by lia. replace (length c - length pre) with 1 by (cbn [length] in Hlen; lia). reflexivity.
Qed.

Lemma list_find_ok : WF ->
  forall f,
  exists a', list_find T zero f h = Ok tt (h, a') /\ nth_error (0 :: c) (find_index T f (map (vl h) c)) = Some a'.
Proof.
  intros Hwf; pose proof (wf_t0 Hwf) as Ht; pose proof (fuel_enough Hwf) as Hfuel; pose proof Hwf as HWF; unfold WF in Hwf. intros f. unfold list_find. apply find_loop_ok; [exact Ht|exact Hfuel]. Qed.

Lemma list_each_ok : WF ->
  forall f,
  exists a', list_each T zero f h = Ok (visited T f (map (vl h) c)) (h, a').
Proof.
  intros Hwf; pose proof (wf_t0 Hwf) as Ht; pose proof (fuel_enough Hwf) as Hfuel; pose proof Hwf as HWF; unfold WF in Hwf. intros f. unfold list_each. apply each_loop_ok; [exact Ht|exact Hfuel]. Qed.

Lemma visited_all : forall (l : list T), visited T (fun _ => true) l = l.
Proof. induction l as [|x l IH]; cbn; [reflexivity|]. rewrite IH. reflexivity. Qed.

Lemma list_len_ok : WF ->
  exists a', list_len T zero h = Ok (Z.of_nat (length c)) (h, a').
Proof.
  intros Hwf; pose proof (wf_t0 Hwf) as Ht; pose proof (fuel_enough Hwf) as Hfuel; pose proof Hwf as HWF; unfold WF in Hwf.
  unfold list_len. destruct (list_each_ok HWF (fun _ => true)) as [a' E]. rewrite E. cbn [bind].
  exists a'. f_equal. rewrite visited_all. unfold len_inc.
  assert (G : forall (l : list T) (z : Z), fold_left (fun (n : Z) (_ : T) => (n + 1)%Z) l z = (z + Z.of_nat (length l))%Z).
  { induction l as [|x l IH]; intros z; cbn [fold_left length]; [lia|]. rewrite IH. lia. }
  rewrite G, map_length. lia.
Qed.

Lemma list_is_empty_ok : WF ->
  list_is_empty T h = Ok (is_nil (hdlink c)) (h, 0).
Proof.
  intros Hwf; pose proof (wf_t0 Hwf) as Ht; pose proof (fuel_enough Hwf) as Hfuel; pose proof Hwf as HWF; unfold WF in Hwf.
  unfold list_is_empty, cfirst. pose proof Ht as [Ha _]. rewrite load_eq by assumption. cbn [bind snd].
  rewrite g_isempty_ret, (tailok_lnk _ _ _ _ Ht). reflexivity.
Qed.

Lemma list_peek_ok : WF ->
  forall n,
  exists s', list_peek T zero n h = match apeek T zero (map (vl h) c) n with
                                    | RValBool v b => Ok (v, b) s'
                                    | _ => Panic IndexRange s'
                                    end /\ fst s' = h.
Proof.
  intros Hwf; pose proof (wf_t0 Hwf) as Ht; pose proof (fuel_enough Hwf) as Hfuel; pose proof Hwf as HWF; unfold WF in Hwf.
  intros n. unfold list_peek, peek_at_arg, apeek.
  destruct (Z.ltb_spec n 0) as [Hn|Hn].
  - rewrite (list_at_neg HWF) by assumption. exists (h, 0). split; reflexivity.
  - destruct (list_at_ok HWF n Hn) as [a' [E Hnth]]. rewrite E. cbn [bind].
    destruct (zip_at HWF _ _ Hnth) as [pre [suf [Ez [Hl Hta]]]].
    rewrite (get_ok _ _ _ Hta). cbn [bind]. rewrite (at_end_ok _ _ _ Hta). cbn [bind]. unfold peek_ok.
    exists (h, a'). split; [|reflexivity].
    rewrite map_length.
    assert (Hlen : S (length c) = length pre + S (length suf)) by (change (S (length c)) with (length (0 :: c)); rewrite Ez, app_length; reflexivity).
    replace (n <? Z.of_nat (length c))%Z with (Z.to_nat n <? length c)
      by (destruct (Nat.ltb_spec (Z.to_nat n) (length c)); symmetry; [apply Z.ltb_lt|apply Z.ltb_ge]; lia).
    destruct (Nat.ltb_spec (Z.to_nat n) (length c)) as [Hlt|Hge].
    + rewrite Nat.min_l in Hl by lia.
      destruct suf as [|b suf']; [cbn [length] in Hlen; lia|]. cbn [hdlink is_nil negb].
      f_equal. f_equal.
      assert (Hb : nth_error (0 :: c) (S (Z.to_nat n)) = Some b).
      { rewrite Ez. rewrite nth_error_app2 by lia. replace (S (Z.to_nat n) - length pre) with 1 by lia. reflexivity. }
      cbn [nth_error] in Hb. rewrite (nth_error_nth (map (vl h) c) (Z.to_nat n) zero (x := vl h b)); [reflexivity|].
      rewrite nth_error_map, Hb. reflexivity.
    + rewrite Nat.min_r in Hl by lia.
      destruct suf as [|b suf']; [|cbn [length] in Hlen; lia]. reflexivity.
Qed.

End OnList.
End Walk.
