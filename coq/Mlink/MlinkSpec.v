(* Abstract reference for mlink.List edited through cursors, and for mlink.Queue.

   A list is a [list T].  A cursor is [At i] -- it designates index i, 0 <= i <= length
   (i = length is the end position) -- or [Stale] (it sat just after an element that was
   removed, or after a truncation point / in a cleared list).  Every operation is the
   documented before/after picture of mlink/list.go:

     c.Push(v)    at i : v is inserted at index i; c stays at i (now designating v)
     c.Add(vs...) at i : Push then Next for each value: the values appear at i.. in order, c ends
                         after them, designating the element it designated before
     c.Set(v)     at i : replaces element i; at the end it appends (and c designates it)
     c.Remove()   at i : deletes element i and returns it; c stays at i; at the end: zero, nothing
     c.Truncate() at i : keeps the first i elements; c is at the end
     c.Next()          : i+1 unless at the end; reports "not at the end afterwards"
   and what they do to the OTHER cursors into the same list ([after_push], [after_remove],
   [after_truncate]): a cursor at or before the edit point keeps its index; one strictly after
   it shifts with the elements, except that the cursor just after a removed element, and every
   cursor after a truncation point, becomes Stale.  Every method of a Stale cursor panics
   "invalid cursor" and changes nothing (Add of no values does nothing at all).

   Cursor is a value type: [OCopy k] (a struct copy of cursor k) hands out a new cursor at the
   same position (or equally Stale) that from then on moves independently; [OAssign k j]
   (struct assignment) repositions cursor k where cursor j is.  [NoPred] is a Cursor that was
   never positioned: a nil pointer to a Cursor or the zero Cursor value (the documentation: a nil
   Cursor pointer is not valid, and operations on it will panic): every method panics with a nil
   dereference and changes nothing (Add of no values does nothing at all).

   The vocabulary (op, out, pkind) is shared with the model; nothing else is. *)
From Coq Require Import ZArith List Bool Arith.
Import ListNotations.
From Mds Require Import Mlink.MlinkModel.
Local Open Scope Z_scope.

Inductive cpos := At (i : nat) | Stale | NoPred.

Section Spec.
Variable T : Type.
Variable zero : T.

Definition astate := (list T * list cpos)%type.
Definition ainit : astate := ([], []).

Definition ins (l : list T) (i : nat) (v : T) : list T := firstn i l ++ v :: skipn i l.
Definition del (l : list T) (i : nat) : list T := firstn i l ++ skipn (S i) l.
Definition repl (l : list T) (i : nat) (v : T) : list T := firstn i l ++ v :: skipn (S i) l.
Definition set_pos (cs : list cpos) (k : nat) (p : cpos) : list cpos := firstn k cs ++ p :: skipn (S k) cs.

(* what an edit at index i does to a cursor into the same list *)
Definition after_push (i : nat) (p : cpos) : cpos :=
  match p with At j => if (j <=? i)%nat then At j else At (S j) | q => q end.
Definition after_remove (i : nat) (p : cpos) : cpos :=
  match p with
  | At j => if (j <=? i)%nat then At j else if (j =? S i)%nat then Stale else At (pred j)
  | q => q
  end.
Definition after_truncate (i : nat) (p : cpos) : cpos :=
  match p with At j => if (j <=? i)%nat then At j else Stale | q => q end.

(* index of the first element satisfying f, or the length *)
Fixpoint find_index (f : T -> bool) (l : list T) : nat :=
  match l with [] => O | x :: l' => if f x then O else S (find_index f l') end.

(* the values Each(f) calls f with: up to and including the first one f rejects *)
Fixpoint visited (f : T -> bool) (l : list T) : list T :=
  match l with [] => [] | x :: l' => if f x then x :: visited f l' else [x] end.

Definition apeek (l : list T) (z : Z) : out T :=
  if z <? 0 then RPanic IndexRange
  else if z <? Z.of_nat (length l) then RValBool (nth (Z.to_nat z) l zero) true
  else RValBool zero false.

Definition with_cursor (a : astate) (k : nat) (f : nat -> astate * out T) : astate * out T :=
  match nth_error (snd a) k with
  | None => (a, RNoCursor)
  | Some Stale => (a, RPanic InvalidCursor)
  | Some NoPred => (a, RPanic NilDeref)
  | Some (At i) => f i
  end.

Definition apush (k : nat) (v : T) (a : astate) : astate * out T :=
  with_cursor a k (fun i => ((ins (fst a) i v, map (after_push i) (snd a)), RUnit)).

Definition anext (k : nat) (a : astate) : astate * out T :=
  with_cursor a k (fun i =>
    if (i <? length (fst a))%nat
    then ((fst a, set_pos (snd a) k (At (S i))), RBool (S i <? length (fst a))%nat)
    else (a, RBool false)).

(* "This is a shorthand for Push followed by Next", for each value in turn *)
Fixpoint aadd (k : nat) (vs : list T) (a : astate) : astate * out T :=
  match vs with
  | [] => (a, RUnit)
  | v :: vs' =>
    match apush k v a with
    | (a1, RUnit) => aadd k vs' (fst (anext k a1))
    | r => r
    end
  end.

Definition astep (a : astate) (o : op T) : astate * out T :=
  let l := fst a in
  let cs := snd a in
  let n := length l in
  match o with
  | OAt z => if z <? 0 then (a, RPanic IndexRange)
             else ((l, cs ++ [At (if z <? Z.of_nat n then Z.to_nat z else n)]), RUnit)   (* min z n, compared in Z *)
  | OLast => ((l, cs ++ [At (pred n)]), RUnit)
  | OEnd => ((l, cs ++ [At n]), RUnit)
  | OFind f => ((l, cs ++ [At (find_index f l)]), RUnit)
  | OCopy k => match nth_error cs k with None => (a, RNoCursor) | Some p => ((l, cs ++ [p]), RUnit) end
  | OAssign k j => match nth_error cs k, nth_error cs j with
                   | Some _, Some p => ((l, set_pos cs k p), RUnit)
                   | _, _ => (a, RNoCursor)
                   end
  | ONilCursor => ((l, cs ++ [NoPred]), RUnit)
  | OGet k => with_cursor a k (fun i => (a, RVal (nth i l zero)))
  | OSet k v => with_cursor a k (fun i =>
      if (i <? n)%nat then ((repl l i v, cs), RUnit) else ((l ++ [v], cs), RUnit))
  | OAtEnd k => with_cursor a k (fun i => (a, RBool (i =? n)%nat))
  | ONext k => anext k a
  | OPush k v => apush k v a
  | OAdd k vs => match nth_error cs k with None => (a, RNoCursor) | Some _ => aadd k vs a end
  | ORemove k => with_cursor a k (fun i =>
      if (i <? n)%nat then ((del l i, map (after_remove i) cs), RVal (nth i l zero)) else (a, RVal zero))
  | OTruncate k => with_cursor a k (fun i => ((firstn i l, map (after_truncate i) cs), RUnit))
  | OClear => (([], map (after_truncate O) cs), RUnit)
  | OPeek z => (a, apeek l z)
  | OEach f => (a, RList (visited f l))
  | OLen => (a, RInt (Z.of_nat n))
  | OIsEmpty => (a, RBool (n =? 0)%nat)
  end.

Fixpoint arun (a : astate) (ops : list (op T)) : list (out T) :=
  match ops with
  | [] => []
  | o :: ops' => let (a', r) := astep a o in r :: arun a' ops'
  end.

Fixpoint arun_state (a : astate) (ops : list (op T)) : astate :=
  match ops with
  | [] => a
  | o :: ops' => arun_state (fst (astep a o)) ops'
  end.

(* ---- Queue: first in, first out ---- *)

Definition aqstep (l : list T) (o : qop T) : list T * out T :=
  match o with
  | QAdd v => (l ++ [v], RUnit)
  | QPop => match l with [] => (l, RValBool zero false) | x :: l' => (l', RValBool x true) end
  | QFront => (l, RVal (hd zero l))
  | QPeek z => (l, apeek l z)
  | QEach f => (l, RList (visited f l))
  | QClear => ([], RUnit)
  | QLen => (l, RInt (Z.of_nat (length l)))
  | QIsEmpty => (l, RBool (length l =? 0)%nat)
  end.

Fixpoint aqrun (l : list T) (ops : list (qop T)) : list (out T) :=
  match ops with
  | [] => []
  | o :: ops' => let (l', r) := aqstep l o in r :: aqrun l' ops'
  end.

End Spec.
