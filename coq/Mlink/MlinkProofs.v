(* mlink.List edited through cursors refines the abstract (list, cursor positions) semantics of
   MlinkSpec for every history, through any number of cursors; the heap stays well-formed; a
   stale cursor refuses every use; nothing hangs. *)
From Coq Require Import ZArith List Bool Lia Arith.
Import ListNotations.
From Mds Require Import Gen.MlinkFacts Gen.MlinkList Mlink.MlinkModel Mlink.MlinkSpec
  Mlink.MlinkBasics Mlink.MlinkChain Mlink.MlinkWalk.
Local Open Scope nat_scope.

(* ---- generic list facts ---- *)

Section SetNth.
Variable A : Type.
Implicit Types (cs : list A) (a b x : A).

Lemma set_nth_cons0 : forall x cs a, set_nth (x :: cs) 0 a = a :: cs.
Proof. reflexivity. Qed.
Lemma set_nth_consS : forall x cs k a, set_nth (x :: cs) (S k) a = x :: set_nth cs k a.
Proof. reflexivity. Qed.

Lemma set_nth_same : forall cs k a, nth_error cs k = Some a -> set_nth cs k a = cs.
Proof.
  induction cs as [|x cs IH]; intros [|k] a H; cbn [nth_error] in H; try discriminate.
  - inversion H. reflexivity.
  - rewrite set_nth_consS. f_equal. apply IH. assumption.
Qed.

Lemma set_nth_twice : forall cs k a b, k < length cs -> set_nth (set_nth cs k a) k b = set_nth cs k b.
Proof.
  induction cs as [|x cs IH]; intros [|k] a b H; cbn [length] in H; try lia.
  - reflexivity.
  - rewrite !set_nth_consS. f_equal. apply IH. lia.
Qed.

Lemma nth_error_set_nth : forall cs k a, k < length cs -> nth_error (set_nth cs k a) k = Some a.
Proof.
  induction cs as [|x cs IH]; intros [|k] a H; cbn [length] in H; try lia.
  - reflexivity.
  - rewrite set_nth_consS. cbn [nth_error]. apply IH. lia.
Qed.

Lemma set_nth_length : forall cs k a, k < length cs -> length (set_nth cs k a) = length cs.
Proof.
  induction cs as [|x cs IH]; intros [|k] a H; cbn [length] in H; try lia.
  - reflexivity.
  - rewrite set_nth_consS. cbn [length]. f_equal. apply IH. lia.
Qed.
End SetNth.
Arguments set_nth_same {A} cs k a _.
Arguments set_nth_twice {A} cs k a b _.
Arguments nth_error_set_nth {A} cs k a _.
Arguments set_nth_length {A} cs k a _.
Arguments set_nth_consS {A} x cs k a.

Section F2.
Variables (A B : Type) (P : A -> B -> Prop).

Lemma Forall2_nth : forall l l' k a, Forall2 P l l' -> nth_error l k = Some a ->
  exists b, nth_error l' k = Some b /\ P a b.
Proof.
  intros l l' k a H. revert k. induction H as [|x y l l' Hxy H IH]; intros [|k] Hk; cbn [nth_error] in *; try discriminate.
  - inversion Hk. subst. eauto.
  - apply IH. assumption.
Qed.

Lemma Forall2_len : forall l l', Forall2 P l l' -> length l = length l'.
Proof. intros l l' H. induction H; cbn [length]; [reflexivity|]. f_equal. assumption. Qed.

Lemma Forall2_nth_None : forall l l' k, Forall2 P l l' -> nth_error l k = None -> nth_error l' k = None.
Proof.
  intros l l' k H Hk. apply nth_error_None. apply nth_error_None in Hk.
  rewrite <- (Forall2_len _ _ H). assumption.
Qed.

Lemma Forall2_snoc : forall l l' a b, Forall2 P l l' -> P a b -> Forall2 P (l ++ [a]) (l' ++ [b]).
Proof. intros. apply Forall2_app; [assumption|]. constructor; [assumption|constructor]. Qed.
End F2.

Lemma Forall2_map_r : forall (A B : Type) (P Q : A -> B -> Prop) (f : B -> B) l l',
  (forall a p, P a p -> Q a (f p)) -> Forall2 P l l' -> Forall2 Q l (map f l').
Proof. intros A B P Q f l l' Himp H. induction H; cbn [map]; constructor; auto. Qed.

Lemma Forall2_imp : forall (A B : Type) (P Q : A -> B -> Prop) l l',
  (forall a p, P a p -> Q a p) -> Forall2 P l l' -> Forall2 Q l l'.
Proof. intros A B P Q l l' Himp H. induction H; constructor; auto. Qed.

Lemma Forall2_set : forall (P : link -> cpos -> Prop) cs ps k a p,
  Forall2 P cs ps -> P a p -> Forall2 P (set_nth cs k a) (set_pos ps k p).
Proof.
  intros P cs ps k a p H Hap. revert k. induction H as [|x y cs ps Hxy H IH]; intros k.
  - unfold set_nth, set_pos. rewrite !firstn_nil, !skipn_nil. constructor; [assumption|constructor].
  - destruct k as [|k].
    + unfold set_nth, set_pos. cbn [firstn skipn app]. constructor; assumption.
    + rewrite set_nth_consS. unfold set_pos. cbn [firstn skipn app]. constructor; [assumption|]. apply IH.
Qed.

Lemma nth_error_zip_le : forall (pre : list nat) a X Y j, j <= length pre ->
  nth_error (pre ++ a :: X) j = nth_error (pre ++ a :: Y) j.
Proof.
  intros pre a X Y j Hj. destruct (Nat.eq_dec j (length pre)) as [->|Hne].
  - rewrite !nth_error_app2 by lia. rewrite Nat.sub_diag. reflexivity.
  - rewrite !nth_error_app1 by lia. reflexivity.
Qed.

Lemma nth_error_zip_gt : forall (pre : list nat) a X j, length pre < j ->
  nth_error (pre ++ a :: X) j = nth_error X (j - S (length pre)).
Proof.
  intros pre a X j Hj. rewrite nth_error_app2 by lia.
  destruct (j - length pre) as [|d] eqn:E; [lia|]. cbn [nth_error]. f_equal. lia.
Qed.

Lemma tl_zip : forall (pre : list nat) a suf, tl (pre ++ a :: suf) = tl (pre ++ [a]) ++ suf.
Proof. intros [|x pre] a suf; cbn [app tl]; [reflexivity|]. rewrite <- app_assoc. reflexivity. Qed.

Lemma len_tl_zip : forall (pre : list nat) a, length (tl (pre ++ [a])) = length pre.
Proof. intros [|x pre] a; cbn [app tl length]; [reflexivity|]. rewrite app_length. cbn. lia. Qed.

Lemma in_tl : forall (l : list nat) x, In x (tl l) -> In x l.
Proof. intros [|y l] x H; [assumption|right; assumption]. Qed.

Section Refine.
Variable T : Type.
Variable zero : T.

Notation heap := (heap T).
Notation lnk := (@lnk T).
Notation vl := (@vl T zero).
Notation tailok := (@tailok T).
Notation wf := (@wf T).
Notation get_ok := (MlinkBasics.get_ok T zero).
Notation at_end_ok := (MlinkBasics.at_end_ok T zero).
Notation next_ok := (MlinkBasics.next_ok T zero).
Notation step := (step T zero).
Notation astep := (astep T zero).

(* a Cursor value against its reference position: a nil pred is NoPred; otherwise the pred is a
   cell of the heap -- the chain cell number j for At j, a self-linked cell for Stale *)
Definition crel (h : heap) (ch : list nat) (c : link) (p : cpos) : Prop :=
  match c with
  | Nil => p = NoPred
  | Ptr b => b < length h /\
             match p with At j => nth_error ch j = Some b | Stale => lnk h b = Ptr b | NoPred => False end
  end.

(* crel is kept by every change of heap and chain that keeps it for the proper preds *)
Lemma crel_lift : forall h ch h' ch' (f : cpos -> cpos), f NoPred = NoPred ->
  (forall b p, p <> NoPred -> crel h ch (Ptr b) p -> crel h' ch' (Ptr b) (f p)) ->
  forall c p, crel h ch c p -> crel h' ch' c (f p).
Proof.
  intros h ch h' ch' f Hf H [|b] p Hc.
  - cbn [crel] in *. subst p. assumption.
  - apply H; [|assumption]. intros ->. destruct Hc as [_ []].
Qed.

(* the refinement relation: chain, contents, and every cursor handed out so far *)
Definition R (m : mstate T) (s : astate T) : Prop :=
  exists ch, wf (fst m) ch /\ fst s = map (vl (fst m)) (tl ch) /\ Forall2 (crel (fst m) ch) (snd m) (snd s).

Lemma R_init : R (init T zero) (ainit T).
Proof.
  exists [0]. split; [|split; [reflexivity|constructor]].
  split; [|split].
  - cbn. repeat split; lia.
  - constructor; [intros []|constructor].
  - intros x Hx. cbn in Hx. left. left. lia.
Qed.

Lemma chain_not_self : forall h ch x, wf h ch -> In x ch -> lnk h x <> Ptr x.
Proof.
  intros h ch x Hwf Hin Hs. destruct (in_split _ _ Hin) as [pre [suf E]]. subst ch.
  pose proof (tailok_not_self _ _ _ _ (wf_tailok _ _ _ _ _ Hwf)) as Hn.
  unfold selfb in Hn. rewrite Hs, link_eqb_refl in Hn. discriminate.
Qed.

Lemma map_vl_ext : forall h h' (X : list nat), (forall x, In x X -> vl h' x = vl h x) -> map (vl h') X = map (vl h) X.
Proof. intros. apply map_ext_in. assumption. Qed.

(* ---- what R says about one cursor ---- *)

Lemma R_cursor : forall h cs l ps k a, R (h, cs) (l, ps) -> nth_error cs k = Some (Ptr a) ->
  exists p, nth_error ps k = Some p /\ a < length h /\
    match p with
    | NoPred => False
    | Stale => lnk h a = Ptr a
    | At i => exists pre suf, wf h (pre ++ a :: suf) /\ length pre = i /\
                l = map (vl h) (tl (pre ++ [a])) ++ map (vl h) suf /\
                Forall2 (crel h (pre ++ a :: suf)) cs ps
    end.
Proof.
  intros h cs l ps k a [ch [Hwf [Hl HF]]] Hk. cbn [fst snd] in *.
  destruct (Forall2_nth _ _ _ _ _ _ _ HF Hk) as [p [Hp [Ha Hc]]].
  exists p. split; [assumption|]. split; [assumption|]. destruct p as [i| |]; [|assumption|assumption].
  destruct (nth_error_split _ _ Hc) as [pre [suf [E Hlen]]]. subst ch.
  exists pre, suf. split; [assumption|]. split; [assumption|]. split; [|assumption].
  rewrite Hl, tl_zip, map_app. reflexivity.
Qed.

Lemma R_nil_cursor : forall h cs l ps k, R (h, cs) (l, ps) -> nth_error cs k = Some Nil -> nth_error ps k = Some NoPred.
Proof.
  intros h cs l ps k [ch [_ [_ HF]]] Hk. cbn [fst snd] in *.
  destruct (Forall2_nth _ _ _ _ _ _ _ HF Hk) as [p [Hp Hc]]. cbn [crel] in Hc. subst p. assumption.
Qed.

Lemma R_no_cursor : forall h cs l ps k, R (h, cs) (l, ps) -> nth_error cs k = None -> nth_error ps k = None.
Proof. intros h cs l ps k [ch [_ [_ HF]]] Hk. cbn [fst snd] in *. eapply Forall2_nth_None; eassumption. Qed.

(* ---- the cursor operations, one by one ---- *)
Definition CC (h : heap) (cs : list link) (l : list T) (ps : list cpos) (k a i : nat) (pre suf : list nat) : Prop :=
  nth_error cs k = Some (Ptr a) /\ nth_error ps k = Some (At i) /\ wf h (pre ++ a :: suf) /\ length pre = i /\
  l = map (vl h) (tl (pre ++ [a])) ++ map (vl h) suf /\ Forall2 (crel h (pre ++ a :: suf)) cs ps.

Section Zl.
Variables (h : heap) (l : list T) (a i : nat) (pre suf : list nat).
Hypothesis Hi : length pre = i.
Hypothesis Hl : l = map (vl h) (tl (pre ++ [a])) ++ map (vl h) suf.

Lemma zE1_len : length (map (vl h) (tl (pre ++ [a]))) = i.
Proof using Hi. rewrite map_length, len_tl_zip. assumption. Qed.

Lemma zl_len : length l = i + length suf.
Proof using Hi Hl. rewrite Hl, app_length. rewrite zE1_len, map_length. reflexivity. Qed.

Lemma zl_firstn : firstn i l = map (vl h) (tl (pre ++ [a])).
Proof using Hi Hl. rewrite Hl. rewrite <- zE1_len at 1. rewrite firstn_app, Nat.sub_diag, firstn_all. cbn [firstn]. apply app_nil_r. Qed.

Lemma zl_skipn : skipn i l = map (vl h) suf.
Proof using Hi Hl. rewrite Hl. rewrite <- zE1_len at 1. rewrite skipn_app, Nat.sub_diag, skipn_all. reflexivity. Qed.

Lemma zl_skipnS : skipn (S i) l = map (vl h) (tl suf).
Proof using Hi Hl.
  rewrite Hl. rewrite <- zE1_len at 1. rewrite skipn_app.
  rewrite skipn_all2 by lia. replace (S (length (map (vl h) (tl (pre ++ [a])))) - length (map (vl h) (tl (pre ++ [a])))) with 1 by lia.
  destruct suf; reflexivity.
Qed.

Lemma zl_nth : nth i l zero = match suf with [] => zero | b :: _ => vl h b end.
Proof using Hi Hl.
  rewrite Hl. rewrite app_nth2 by (rewrite zE1_len; lia). rewrite zE1_len, Nat.sub_diag.
  destruct suf; reflexivity.
Qed.
End Zl.

Lemma zchain_bound : forall h pre a suf, wf h (pre ++ a :: suf) ->
  forall x, In x (tl (pre ++ [a])) \/ In x suf -> x < length h.
Proof.
  intros h pre a suf Hwf x Hx. apply (wf_bound _ _ _ _ Hwf). destruct Hx as [Hx|Hx].
  - apply in_tl in Hx. apply in_app_or in Hx. apply in_zip. destruct Hx as [Hx|[<-|[]]]; auto.
  - apply in_zip. auto.
Qed.

Ltac cc_intro :=
  let Hc := fresh "Hc" in
  intros h cs l ps k a i pre suf Hc;
  destruct Hc as [Hk [Hp [Hwf [Hi [Hl HF]]]]];
  pose proof (wf_tailok T h pre a suf Hwf) as Ht;
  pose proof (zl_len h l a i pre suf Hi Hl) as l_len;
  pose proof (zl_firstn h l a i pre suf Hi Hl) as l_firstn;
  pose proof (zl_skipn h l a i pre suf Hi Hl) as l_skipn;
  pose proof (zl_skipnS h l a i pre suf Hi Hl) as l_skipnS;
  pose proof (zl_nth h l a i pre suf Hi Hl) as l_nth;
  pose proof (zchain_bound h pre a suf Hwf) as chain_bound.

(* Get *)
Lemma sim_get : forall h cs l ps k a i pre suf, CC h cs l ps k a i pre suf ->
  step (h, cs) (OGet k) = ((h, cs), RVal (nth i l zero)).
Proof.
  cc_intro.
  cbn [MlinkModel.step]; unfold on_cursor; cbn [fst snd]. rewrite Hk, (get_ok _ _ _ Ht). cbn [fst snd].
  rewrite (set_nth_same _ _ _ Hk), l_nth. reflexivity.
Qed.

(* AtEnd *)
Lemma sim_at_end : forall h cs l ps k a i pre suf, CC h cs l ps k a i pre suf ->
  step (h, cs) (OAtEnd k) = ((h, cs), RBool (i =? length l)).
Proof.
  cc_intro.
  cbn [MlinkModel.step]; unfold on_cursor; cbn [fst snd]. rewrite Hk, (at_end_ok _ _ _ Ht). cbn [fst snd].
  rewrite (set_nth_same _ _ _ Hk), l_len. f_equal. f_equal.
  destruct suf; cbn [hdlink is_nil length].
  - symmetry. apply Nat.eqb_eq. lia.
  - symmetry. apply Nat.eqb_neq. lia.
Qed.

(* Next *)
Lemma sim_next : forall h cs l ps k a i pre suf, CC h cs l ps k a i pre suf ->
  exists a' i',
  step (h, cs) (ONext k) = ((h, set_nth cs k (Ptr a')), snd (anext T k (l, ps))) /\
  R (h, set_nth cs k (Ptr a')) (fst (anext T k (l, ps))) /\
  nth_error (snd (fst (anext T k (l, ps)))) k = Some (At i') /\
  fst (fst (anext T k (l, ps))) = l.
Proof.
  cc_intro.
  cbn [MlinkModel.step]; unfold on_cursor; cbn [fst snd]. rewrite Hk, (next_ok _ _ _ Ht).
  unfold anext, with_cursor. cbn [fst snd]. rewrite Hp, l_len.
  destruct suf as [|b suf'] eqn:Es.
  - exists a, i. replace (i <? i + length (@nil nat)) with false by (symmetry; apply Nat.ltb_ge; cbn; lia).
    cbn [fst snd]. rewrite (set_nth_same _ _ _ Hk). repeat split; try assumption.
    exists (pre ++ [a]). cbn [fst snd]. repeat split; try apply Hwf; try assumption.
    rewrite Hl. cbn [map]. rewrite app_nil_r. reflexivity.
  - exists b, (S i). replace (i <? i + length (b :: suf')) with true by (symmetry; apply Nat.ltb_lt; cbn [length]; lia).
    cbn [fst snd]. split; [|split; [|split]].
    + f_equal. f_equal. destruct suf'; cbn [hdlink is_nil negb length].
      * symmetry. apply Nat.ltb_ge. lia.
      * symmetry. apply Nat.ltb_lt. lia.
    + exists (pre ++ a :: b :: suf'). cbn [fst snd]. split; [assumption|]. split.
      * rewrite Hl, (tl_zip pre a (b :: suf')), map_app. reflexivity.
      * apply Forall2_set; [assumption|]. split.
        -- apply (wf_bound _ _ _ _ Hwf). apply in_zip. right. right. left. reflexivity.
        -- rewrite nth_error_zip_gt by lia. replace (S i - S (length pre)) with 0 by lia. reflexivity.
    + unfold set_pos. rewrite nth_error_app2; rewrite firstn_length_le; try lia.
      * rewrite Nat.sub_diag. reflexivity.
      * apply Nat.lt_le_incl. apply nth_error_Some. rewrite Hp. discriminate.
      * apply Nat.lt_le_incl. apply nth_error_Some. rewrite Hp. discriminate.
    + reflexivity.
Qed.

(* how the other cursors fare under Push at i *)
Lemma crel_push : forall h a i pre suf, wf h (pre ++ a :: suf) -> length pre = i ->
  forall h' n, length h' = S (length h) -> n = length h ->
  (forall x, x < length h -> x <> a -> lnk h' x = lnk h x) ->
  forall b p, crel h (pre ++ a :: suf) b p -> crel h' (pre ++ a :: n :: suf) b (after_push i p).
Proof.
  intros h a i pre suf Hwf Hi.
  intros h' n Hlen Hn Hsame. apply crel_lift; [reflexivity|].
  intros b p Hnp [Hb Hc]. split; [lia|].
  destruct p as [j| |]; [| |exfalso; apply Hnp; reflexivity]; cbn [after_push].
  - destruct (Nat.leb_spec j i).
    + rewrite <- Hc. apply nth_error_zip_le. lia.
    + rewrite nth_error_zip_gt by lia. rewrite nth_error_zip_gt in Hc by lia.
      replace (S j - S (length pre)) with (S (j - S (length pre))) by lia. exact Hc.
  - rewrite Hsame; [assumption|assumption|]. intros ->.
    apply (chain_not_self _ _ a Hwf); [apply in_zip; auto|assumption].
Qed.

(* Push *)
Lemma sim_push : forall h cs l ps k a i pre suf, CC h cs l ps k a i pre suf ->
  forall v, exists h',
  step (h, cs) (OPush k v) = ((h', cs), RUnit) /\
  cur_push T v (h, a) = Ok tt (h', a) /\
  R (h', cs) (ins T l i v, map (after_push i) ps).
Proof.
  cc_intro.
  intros v. destruct (push_ok T zero h pre a suf v Hwf) as [h' [E [Hwf' [Hlen [Hsame [Hv Hvn]]]]]].
  exists h'. split; [|split; [exact E|]].
  - cbn [MlinkModel.step]; unfold on_cursor; cbn [fst snd]. rewrite Hk, E. cbn [fst snd].
    rewrite (set_nth_same _ _ _ Hk). reflexivity.
  - exists (pre ++ a :: length h :: suf). cbn [fst snd]. split; [assumption|]. split.
    + unfold ins. rewrite l_firstn, l_skipn.
      change (pre ++ a :: length h :: suf) with (pre ++ a :: (length h :: suf)).
      rewrite (tl_zip pre a (length h :: suf)), map_app. cbn [map]. rewrite Hvn.
      rewrite (map_vl_ext h h' (tl (pre ++ [a]))) by (intros x Hx; apply Hv; apply chain_bound; auto).
      rewrite (map_vl_ext h h' suf) by (intros x Hx; apply Hv; apply chain_bound; auto).
      reflexivity.
    + eapply Forall2_map_r; [|exact HF]. apply (crel_push h a i pre suf Hwf Hi); auto.
Qed.

(* Set *)
Lemma sim_set : forall h cs l ps k a i pre suf, CC h cs l ps k a i pre suf ->
  forall v, exists h' l',
  step (h, cs) (OSet k v) = ((h', cs), RUnit) /\
  astep (l, ps) (OSet k v) = ((l', ps), RUnit) /\
  R (h', cs) (l', ps).
Proof.
  cc_intro.
  intros v. cbn [MlinkSpec.astep fst snd]. unfold with_cursor. cbn [snd]. rewrite Hp, l_len.
  destruct suf as [|b suf'] eqn:Es.
  - replace (i <? i + length (@nil nat)) with false by (symmetry; apply Nat.ltb_ge; cbn; lia).
    destruct (push_ok T zero h pre a [] v Hwf) as [h' [E [Hwf' [Hlen [Hsame [Hv Hvn]]]]]].
    rewrite <- (set_end_eq T zero h a v Ht) in E.
    exists h', (l ++ [v]). split; [|split; [reflexivity|]].
    + cbn [MlinkModel.step]; unfold on_cursor; cbn [fst snd]. rewrite Hk, E. cbn [fst snd].
      rewrite (set_nth_same _ _ _ Hk). reflexivity.
    + exists (pre ++ a :: [length h]). cbn [fst snd]. split; [assumption|]. split.
      * rewrite Hl. cbn [map]. rewrite app_nil_r, (tl_zip pre a [length h]), map_app. cbn [map]. rewrite Hvn.
        rewrite (map_vl_ext h h' (tl (pre ++ [a]))) by (intros x Hx; apply Hv; apply chain_bound; auto).
        reflexivity.
      * eapply Forall2_imp; [|exact HF]. apply (crel_lift _ _ _ _ (fun q => q)); [reflexivity|].
        intros b p Hnp [Hb Hc]. split; [lia|].
        destruct p as [j| |]; [| |exfalso; apply Hnp; reflexivity].
        -- rewrite <- Hc. apply nth_error_zip_le.
           assert (j < length (pre ++ [a])) by (apply nth_error_Some; rewrite Hc; discriminate).
           rewrite app_length in H. cbn [length] in H. lia.
        -- rewrite Hsame; [assumption|assumption|]. intros ->.
           apply (chain_not_self _ _ a Hwf); [apply in_zip; auto|assumption].
  - replace (i <? i + length (b :: suf')) with true by (symmetry; apply Nat.ltb_lt; cbn [length]; lia).
    destruct (set_mid_ok T zero h pre a b suf' v Hwf) as [h' [E [Hwf' [Hlen [Hsame Hv]]]]].
    exists h', (repl T l i v). split; [|split; [reflexivity|]].
    + cbn [MlinkModel.step]; unfold on_cursor; cbn [fst snd]. rewrite Hk, E. cbn [fst snd].
      rewrite (set_nth_same _ _ _ Hk). reflexivity.
    + exists (pre ++ a :: b :: suf'). cbn [fst snd]. split; [assumption|]. split.
      * unfold repl. rewrite l_firstn.
        pose proof l_skipnS as Hsk. cbn [tl] in Hsk.
        rewrite Hsk, (tl_zip pre a (b :: suf')), map_app. cbn [map].
        pose proof Hwf as [_ [Hnd _]].
        assert (Hbn : forall x, In x (tl (pre ++ [a])) \/ In x suf' -> x <> b).
        { intros x Hx ->. apply NoDup_zip in Hnd. destruct Hnd as [Hnd1 [Hna Hdis]].
          destruct Hx as [Hx|Hx].
          - apply in_tl in Hx. apply in_app_or in Hx. destruct Hx as [Hx|[<-|[]]].
            + apply (Hdis b Hx). right. left. reflexivity.
            + inversion Hnd1 as [|? ? Hn _]. apply Hn. left. reflexivity.
          - inversion Hnd1 as [|? ? _ Hnd2]. inversion Hnd2 as [|? ? Hn _]. contradiction. }
        rewrite (Hv b), Nat.eqb_refl.
        rewrite (map_vl_ext h h' (tl (pre ++ [a]))).
        2:{ intros x Hx. rewrite Hv. destruct (Nat.eqb_spec x b); [exfalso; eapply Hbn; eauto|reflexivity]. }
        rewrite (map_vl_ext h h' suf').
        2:{ intros x Hx. rewrite Hv. destruct (Nat.eqb_spec x b); [exfalso; eapply Hbn; eauto|reflexivity]. }
        reflexivity.
      * eapply Forall2_imp; [|exact HF]. apply (crel_lift _ _ _ _ (fun q => q)); [reflexivity|].
        intros b0 p Hnp [Hb Hc]. split; [lia|].
        destruct p as [j| |]; [assumption| |exfalso; apply Hnp; reflexivity]. rewrite Hsame. assumption.
Qed.

(* Remove *)
Lemma sim_remove : forall h cs l ps k a i pre suf, CC h cs l ps k a i pre suf ->
  exists h' s',
  step (h, cs) (ORemove k) = ((h', cs), snd (astep (l, ps) (ORemove k))) /\
  astep (l, ps) (ORemove k) = (s', snd (astep (l, ps) (ORemove k))) /\
  R (h', cs) s'.
Proof.
  cc_intro.
  cbn [MlinkSpec.astep fst snd]. unfold with_cursor. cbn [snd]. rewrite Hp, l_len.
  destruct suf as [|b suf'] eqn:Es.
  - replace (i <? i + length (@nil nat)) with false by (symmetry; apply Nat.ltb_ge; cbn; lia).
    exists h, (l, ps). cbn [fst snd]. split; [|split; [reflexivity|]].
    + cbn [MlinkModel.step]; unfold on_cursor; cbn [fst snd]. rewrite Hk, (remove_end_ok T zero h a Ht). cbn [fst snd].
      rewrite (set_nth_same _ _ _ Hk). reflexivity.
    + exists (pre ++ [a]). cbn [fst snd]. repeat split; try apply Hwf; try assumption.
      rewrite Hl. cbn [map]. rewrite app_nil_r. reflexivity.
  - replace (i <? i + length (b :: suf')) with true by (symmetry; apply Nat.ltb_lt; cbn [length]; lia).
    destruct (remove_ok T zero h pre a b suf' Hwf) as [h' [E [Hwf' [Hlen [Hself [Hsame Hv]]]]]].
    exists h', (del T l i, map (after_remove i) ps). cbn [fst snd]. split; [|split; [reflexivity|]].
    + cbn [MlinkModel.step]; unfold on_cursor; cbn [fst snd]. rewrite Hk, E. cbn [fst snd].
      rewrite (set_nth_same _ _ _ Hk), l_nth. reflexivity.
    + exists (pre ++ a :: suf'). cbn [fst snd]. split; [assumption|]. split.
      * unfold del. rewrite l_firstn.
        pose proof l_skipnS as Hsk. cbn [tl] in Hsk.
        rewrite Hsk, (tl_zip pre a suf'), map_app.
        rewrite (map_vl_ext h h' (tl (pre ++ [a]))) by (intros; apply Hv).
        rewrite (map_vl_ext h h' suf') by (intros; apply Hv). reflexivity.
      * eapply Forall2_map_r; [|exact HF]. apply crel_lift; [reflexivity|].
        intros b0 p Hnp [Hb Hc]. split; [lia|].
        destruct p as [j| |]; [| |exfalso; apply Hnp; reflexivity]; cbn [after_remove].
        -- destruct (Nat.leb_spec j i).
           ++ rewrite <- Hc. apply nth_error_zip_le. lia.
           ++ destruct (Nat.eqb_spec j (S i)) as [->|Hne].
              ** rewrite nth_error_zip_gt in Hc by lia. replace (S i - S (length pre)) with 0 in Hc by lia.
                 cbn [nth_error] in Hc. inversion Hc. subst b0. assumption.
              ** rewrite nth_error_zip_gt by lia. rewrite nth_error_zip_gt in Hc by lia.
                 replace (j - S (length pre)) with (S (pred j - S (length pre))) in Hc by lia. exact Hc.
        -- assert (Hnin : ~ In b0 (pre ++ a :: b :: suf')) by (intros Hin; apply (chain_not_self _ _ b0 Hwf Hin); assumption).
           rewrite Hsame; [assumption| |]; intros ->; apply Hnin; apply in_zip; cbn [In]; auto.
Qed.

(* Truncate *)
Lemma sim_truncate : forall h cs l ps k a i pre suf, CC h cs l ps k a i pre suf ->
  exists h',
  step (h, cs) (OTruncate k) = ((h', cs), RUnit) /\
  R (h', cs) (firstn i l, map (after_truncate i) ps).
Proof.
  cc_intro.
  destruct (truncate_ok T zero h pre a suf Hwf) as [h' [E [Hwf' [Hlen [Hin [Hsame Hv]]]]]].
  exists h'. split.
  - cbn [MlinkModel.step]; unfold on_cursor; cbn [fst snd]. rewrite Hk, E. cbn [fst snd].
    rewrite (set_nth_same _ _ _ Hk). reflexivity.
  - exists (pre ++ [a]). cbn [fst snd]. split; [assumption|]. split.
    + rewrite l_firstn. apply map_ext. intros; symmetry; apply Hv.
    + eapply Forall2_map_r; [|exact HF]. apply crel_lift; [reflexivity|].
      intros b0 p Hnp [Hb Hc]. split; [lia|].
      destruct p as [j| |]; [| |exfalso; apply Hnp; reflexivity]; cbn [after_truncate].
      * destruct (Nat.leb_spec j i).
        -- rewrite <- Hc. apply nth_error_zip_le. lia.
        -- apply Hin. rewrite nth_error_zip_gt in Hc by lia. eapply nth_error_In. eassumption.
      * assert (Hnin : ~ In b0 (pre ++ a :: suf)) by (intros Hi0; apply (chain_not_self _ _ b0 Hwf Hi0); assumption).
        rewrite Hsame; [assumption| |].
        -- intros ->. apply Hnin. apply in_zip. auto.
        -- intros Hi0. apply Hnin. apply in_zip. auto.
Qed.



(* Add: Push then Next, for each value *)
Lemma sim_add : forall vs h cs l ps k a i, R (h, cs) (l, ps) ->
  nth_error cs k = Some (Ptr a) -> nth_error ps k = Some (At i) ->
  exists h' a', cur_add T vs (h, a) = Ok tt (h', a') /\
    R (h', set_nth cs k (Ptr a')) (fst (aadd T k vs (l, ps))) /\ snd (aadd T k vs (l, ps)) = RUnit.
Proof.
  induction vs as [|v vs IH]; intros h cs l ps k a i HR Hk Hp.
  - exists h, a. cbn [cur_add aadd fst snd]. rewrite (set_nth_same _ _ _ Hk). auto.
  - destruct (R_cursor _ _ _ _ _ _ HR Hk) as [p [Hp' [Ha Hc]]]. rewrite Hp in Hp'. inversion Hp'. subst p. clear Hp'.
    destruct Hc as [pre [suf [Hwf [Hi [Hl HF]]]]].
    destruct (sim_push h cs l ps k a i pre suf (conj Hk (conj Hp (conj Hwf (conj Hi (conj Hl HF))))) v) as [h1 [_ [Epush HR1]]].
    assert (Hp1 : nth_error (map (after_push i) ps) k = Some (At i)).
    { rewrite nth_error_map, Hp. cbn [option_map after_push]. rewrite Nat.leb_refl. reflexivity. }
    destruct (R_cursor _ _ _ _ _ _ HR1 Hk) as [p [Hp' [Ha1 Hc]]]. rewrite Hp1 in Hp'. inversion Hp'. subst p. clear Hp'.
    destruct Hc as [pre1 [suf1 [Hwf1 [Hi1 [Hl1 HF1]]]]].
    destruct (sim_next h1 cs _ _ k a i pre1 suf1 (conj Hk (conj Hp1 (conj Hwf1 (conj Hi1 (conj Hl1 HF1)))))) as [a2 [i2 [Enext [HR2 [Hp2 Hl2]]]]].
    assert (Hklen : k < length cs) by (apply nth_error_Some; rewrite Hk; discriminate).
    assert (Enext' : exists r, cur_next T (h1, a) = Ok r (h1, a2)).
    { cbn [MlinkModel.step] in Enext; unfold on_cursor in Enext; cbn [fst snd] in Enext. rewrite Hk in Enext.
      destruct (cur_next T (h1, a)) as [r s|kd s| |] eqn:En; cbn [fst snd] in Enext.
      - inversion Enext as [[Hh Hs Ho]]. exists r. f_equal. destruct s as [hs ps0]. cbn [fst snd] in *. subst hs.
        f_equal. pose proof (nth_error_set_nth cs k (Ptr ps0) Hklen) as H1. rewrite Hs in H1.
        rewrite nth_error_set_nth in H1 by assumption. inversion H1. reflexivity.
      - exfalso. unfold anext, with_cursor in Enext. cbn [fst snd] in Enext. rewrite Hp1 in Enext.
        destruct (i <? length (ins T l i v)); cbn [snd] in Enext; inversion Enext.
      - exfalso. unfold anext, with_cursor in Enext. cbn [fst snd] in Enext. rewrite Hp1 in Enext.
        destruct (i <? length (ins T l i v)); cbn [snd] in Enext; inversion Enext.
      - exfalso. unfold anext, with_cursor in Enext. cbn [fst snd] in Enext. rewrite Hp1 in Enext.
        destruct (i <? length (ins T l i v)); cbn [snd] in Enext; inversion Enext. }
    destruct Enext' as [r Enext'].
    destruct (fst (anext T k (ins T l i v, map (after_push i) ps))) as [l2 ps2] eqn:Es2.
    cbn [fst snd] in Hp2.
    destruct (IH h1 (set_nth cs k (Ptr a2)) l2 ps2 k a2 i2 HR2 (nth_error_set_nth _ _ _ Hklen) Hp2) as [h' [a' [Eadd [HR' Hout]]]].
    exists h', a'. split; [|split].
    + cbn [cur_add]. replace (called add_ncalls_push) with true by reflexivity.
      replace (called add_ncalls_next) with true by reflexivity.
      rewrite Epush. cbn [bind]. rewrite Enext'. cbn [bind]. exact Eadd.
    + cbn [aadd]. unfold apush, with_cursor. cbn [fst snd]. rewrite Hp. rewrite Es2.
      rewrite set_nth_twice in HR' by assumption. exact HR'.
    + cbn [aadd]. unfold apush, with_cursor. cbn [fst snd]. rewrite Hp. rewrite Es2. exact Hout.
Qed.

(* ---- one step ---- *)

Lemma R_new_cursor : forall h cs l ps c a' j, wf h (0 :: c) -> l = map (vl h) c ->
  Forall2 (crel h (0 :: c)) cs ps -> nth_error (0 :: c) j = Some a' ->
  R (h, cs ++ [Ptr a']) (l, ps ++ [At j]).
Proof.
  intros h cs l ps c a' j Hwf Hl HF Hn. exists (0 :: c). cbn [fst snd tl]. split; [assumption|]. split; [assumption|].
  apply Forall2_snoc; [assumption|]. split; [|assumption].
  apply (wf_bound _ _ _ _ Hwf). eapply nth_error_In. eassumption.
Qed.

Theorem step_sim : forall m s o, R m s ->
  R (fst (step m o)) (fst (astep s o)) /\ snd (step m o) = snd (astep s o).
Proof.
  intros [h cs] [l ps] o HR.
  assert (Hcur : forall k, nth_error cs k = None -> nth_error ps k = None) by (intros; eapply R_no_cursor; eassumption).
  pose proof HR as [ch [Hwf [Hl HF]]]. cbn [fst snd] in Hwf, Hl, HF.
  destruct (wf_head _ _ _ Hwf) as [c ->]. cbn [tl] in Hl.
  assert (Hlen : length l = length c) by (rewrite Hl, map_length; reflexivity).
  destruct o as [n| | |f|k|k j| |k|k v|k|k|k v|k vs|k|k| |n|f| |].
  - (* At *)
    cbn [MlinkModel.step MlinkSpec.astep fst snd].
    destruct (Z.ltb_spec n 0) as [Hn|Hn].
    + rewrite (list_at_neg T h c Hwf n Hn). cbn [mk_cursor fst snd]. split; [assumption|reflexivity].
    + destruct (list_at_ok T zero h c Hwf n Hn) as [a' [E Hnth]]. rewrite E. cbn [mk_cursor fst snd].
      split; [|reflexivity]. rewrite Hlen.
      replace (if (n <? Z.of_nat (length c))%Z then Z.to_nat n else length c) with (Nat.min (Z.to_nat n) (length c))
        by (destruct (Z.ltb_spec n (Z.of_nat (length c))); lia).
      eapply R_new_cursor; eassumption.
  - (* Last *)
    cbn [MlinkModel.step MlinkSpec.astep fst snd].
    destruct (list_last_ok T zero h c Hwf) as [a' [E Hnth]]. rewrite E. cbn [mk_cursor fst snd].
    split; [|reflexivity]. rewrite Hlen. eapply R_new_cursor; eassumption.
  - (* End *)
    cbn [MlinkModel.step MlinkSpec.astep fst snd].
    destruct (list_end_ok T zero h c Hwf) as [a' [E Hnth]]. rewrite E. cbn [mk_cursor fst snd].
    split; [|reflexivity]. rewrite Hlen. eapply R_new_cursor; eassumption.
  - (* Find *)
    cbn [MlinkModel.step MlinkSpec.astep fst snd].
    destruct (list_find_ok T zero h c Hwf f) as [a' [E Hnth]]. rewrite E. cbn [mk_cursor fst snd].
    split; [|reflexivity]. rewrite Hl. eapply R_new_cursor; try eassumption. reflexivity.
  - (* Copy *)
    cbn [MlinkModel.step MlinkSpec.astep fst snd].
    destruct (nth_error cs k) as [c0|] eqn:Hk.
    + destruct (Forall2_nth _ _ _ _ _ _ _ HF Hk) as [p [Hp Hc]]. rewrite Hp. cbn [fst snd]. split; [|reflexivity].
      exists (0 :: c). cbn [fst snd tl]. split; [assumption|]. split; [assumption|]. apply Forall2_snoc; assumption.
    + rewrite (Hcur k Hk). auto.
  - (* Assign *)
    cbn [MlinkModel.step MlinkSpec.astep fst snd].
    destruct (nth_error cs k) as [ck|] eqn:Hk.
    + destruct (Forall2_nth _ _ _ _ _ _ _ HF Hk) as [pk [Hpk _]]. rewrite Hpk.
      destruct (nth_error cs j) as [cj|] eqn:Hj.
      * destruct (Forall2_nth _ _ _ _ _ _ _ HF Hj) as [pj [Hpj Hcj]]. rewrite Hpj. cbn [fst snd]. split; [|reflexivity].
        exists (0 :: c). cbn [fst snd tl]. split; [assumption|]. split; [assumption|]. apply Forall2_set; assumption.
      * rewrite (Hcur j Hj). auto.
    + rewrite (Hcur k Hk). auto.
  - (* NilCursor *)
    cbn [MlinkModel.step MlinkSpec.astep fst snd]. split; [|reflexivity].
    exists (0 :: c). cbn [fst snd tl]. split; [assumption|]. split; [assumption|]. apply Forall2_snoc; [assumption|reflexivity].
  - (* Get *)
    destruct (nth_error cs k) as [[|a]|] eqn:Hk.
    + cbn [MlinkModel.step MlinkSpec.astep]; unfold on_cursor; cbn [fst snd]. unfold with_cursor. cbn [snd].
      rewrite Hk, (R_nil_cursor _ _ _ _ _ HR Hk). auto.
    + destruct (R_cursor _ _ _ _ _ _ HR Hk) as [p [Hp [Ha Hc]]]. destruct p as [i| |]; [| |contradiction].
      * destruct Hc as [pre [suf [Hwf' [Hi [Hl' HF']]]]].
        rewrite (sim_get h cs l ps k a i pre suf (conj Hk (conj Hp (conj Hwf' (conj Hi (conj Hl' HF')))))).
        cbn [MlinkSpec.astep fst snd]. unfold with_cursor. cbn [snd]. rewrite Hp. cbn [fst snd]. auto.
      * cbn [MlinkModel.step MlinkSpec.astep]; unfold on_cursor; cbn [fst snd]. unfold with_cursor. cbn [snd].
        rewrite Hk, Hp, (stale_get T zero h a Ha Hc). cbn [fst snd]. rewrite (set_nth_same _ _ _ Hk). auto.
    + cbn [MlinkModel.step MlinkSpec.astep]; unfold on_cursor; cbn [fst snd]. unfold with_cursor. cbn [snd].
      rewrite Hk, (Hcur k Hk). auto.
  - (* Set *)
    destruct (nth_error cs k) as [[|a]|] eqn:Hk.
    + cbn [MlinkModel.step MlinkSpec.astep]; unfold on_cursor; cbn [fst snd]. unfold with_cursor. cbn [snd].
      rewrite Hk, (R_nil_cursor _ _ _ _ _ HR Hk). auto.
    + destruct (R_cursor _ _ _ _ _ _ HR Hk) as [p [Hp [Ha Hc]]]. destruct p as [i| |]; [| |contradiction].
      * destruct Hc as [pre [suf [Hwf' [Hi [Hl' HF']]]]].
        destruct (sim_set h cs l ps k a i pre suf (conj Hk (conj Hp (conj Hwf' (conj Hi (conj Hl' HF'))))) v) as [h' [l' [E1 [E2 HR']]]].
        rewrite E1, E2. cbn [fst snd]. auto.
      * cbn [MlinkModel.step MlinkSpec.astep]; unfold on_cursor; cbn [fst snd]. unfold with_cursor. cbn [snd].
        rewrite Hk, Hp, (stale_set T zero h a Ha Hc). cbn [fst snd]. rewrite (set_nth_same _ _ _ Hk). auto.
    + cbn [MlinkModel.step MlinkSpec.astep]; unfold on_cursor; cbn [fst snd]. unfold with_cursor. cbn [snd].
      rewrite Hk, (Hcur k Hk). auto.
  - (* AtEnd *)
    destruct (nth_error cs k) as [[|a]|] eqn:Hk.
    + cbn [MlinkModel.step MlinkSpec.astep]; unfold on_cursor; cbn [fst snd]. unfold with_cursor. cbn [snd].
      rewrite Hk, (R_nil_cursor _ _ _ _ _ HR Hk). auto.
    + destruct (R_cursor _ _ _ _ _ _ HR Hk) as [p [Hp [Ha Hc]]]. destruct p as [i| |]; [| |contradiction].
      * destruct Hc as [pre [suf [Hwf' [Hi [Hl' HF']]]]].
        rewrite (sim_at_end h cs l ps k a i pre suf (conj Hk (conj Hp (conj Hwf' (conj Hi (conj Hl' HF')))))).
        cbn [MlinkSpec.astep fst snd]. unfold with_cursor. cbn [snd]. rewrite Hp. cbn [fst snd]. auto.
      * cbn [MlinkModel.step MlinkSpec.astep]; unfold on_cursor; cbn [fst snd]. unfold with_cursor. cbn [snd].
        rewrite Hk, Hp, (stale_at_end T zero h a Ha Hc). cbn [fst snd]. rewrite (set_nth_same _ _ _ Hk). auto.
    + cbn [MlinkModel.step MlinkSpec.astep]; unfold on_cursor; cbn [fst snd]. unfold with_cursor. cbn [snd].
      rewrite Hk, (Hcur k Hk). auto.
  - (* Next *)
    destruct (nth_error cs k) as [[|a]|] eqn:Hk.
    + cbn [MlinkModel.step MlinkSpec.astep]; unfold on_cursor; cbn [fst snd]. unfold anext, with_cursor. cbn [snd].
      rewrite Hk, (R_nil_cursor _ _ _ _ _ HR Hk). auto.
    + destruct (R_cursor _ _ _ _ _ _ HR Hk) as [p [Hp [Ha Hc]]]. destruct p as [i| |]; [| |contradiction].
      * destruct Hc as [pre [suf [Hwf' [Hi [Hl' HF']]]]].
        destruct (sim_next h cs l ps k a i pre suf (conj Hk (conj Hp (conj Hwf' (conj Hi (conj Hl' HF')))))) as [a' [i' [E [HR' _]]]].
        rewrite E. cbn [MlinkSpec.astep fst snd]. auto.
      * cbn [MlinkModel.step MlinkSpec.astep]; unfold on_cursor; cbn [fst snd]. unfold anext, with_cursor. cbn [snd].
        rewrite Hk, Hp, (stale_next T zero h a Ha Hc). cbn [fst snd]. rewrite (set_nth_same _ _ _ Hk). auto.
    + cbn [MlinkModel.step MlinkSpec.astep]; unfold on_cursor; cbn [fst snd]. unfold anext, with_cursor. cbn [snd].
      rewrite Hk, (Hcur k Hk). auto.
  - (* Push *)
    destruct (nth_error cs k) as [[|a]|] eqn:Hk.
    + cbn [MlinkModel.step MlinkSpec.astep]; unfold on_cursor; cbn [fst snd]. unfold apush, with_cursor. cbn [snd].
      rewrite Hk, (R_nil_cursor _ _ _ _ _ HR Hk). auto.
    + destruct (R_cursor _ _ _ _ _ _ HR Hk) as [p [Hp [Ha Hc]]]. destruct p as [i| |]; [| |contradiction].
      * destruct Hc as [pre [suf [Hwf' [Hi [Hl' HF']]]]].
        destruct (sim_push h cs l ps k a i pre suf (conj Hk (conj Hp (conj Hwf' (conj Hi (conj Hl' HF'))))) v) as [h' [E [_ HR']]].
        rewrite E. cbn [MlinkSpec.astep fst snd]. unfold apush, with_cursor. cbn [fst snd]. rewrite Hp. cbn [fst snd]. auto.
      * cbn [MlinkModel.step MlinkSpec.astep]; unfold on_cursor; cbn [fst snd]. unfold apush, with_cursor. cbn [snd].
        rewrite Hk, Hp, (stale_push T zero h a Ha Hc). cbn [fst snd]. rewrite (set_nth_same _ _ _ Hk). auto.
    + cbn [MlinkModel.step MlinkSpec.astep]; unfold on_cursor; cbn [fst snd]. unfold apush, with_cursor. cbn [snd].
      rewrite Hk, (Hcur k Hk). auto.
  - (* Add *)
    destruct (nth_error cs k) as [[|a]|] eqn:Hk.
    + cbn [MlinkModel.step MlinkSpec.astep]; unfold on_cursor; cbn [fst snd].
      rewrite Hk, (R_nil_cursor _ _ _ _ _ HR Hk). destruct vs as [|v vs]; [cbn [aadd fst snd]; auto|].
      cbn [aadd]. unfold apush, with_cursor. cbn [fst snd]. rewrite (R_nil_cursor _ _ _ _ _ HR Hk). auto.
    + destruct (R_cursor _ _ _ _ _ _ HR Hk) as [p [Hp [Ha Hc]]]. destruct p as [i| |]; [| |contradiction].
      * destruct (sim_add vs h cs l ps k a i HR Hk Hp) as [h' [a' [E [HR' Hout]]]].
        cbn [MlinkModel.step MlinkSpec.astep]; unfold on_cursor; cbn [fst snd]. rewrite Hk, Hp, E. cbn [fst snd].
        rewrite Hout. auto.
      * cbn [MlinkModel.step MlinkSpec.astep]; unfold on_cursor; cbn [fst snd]. rewrite Hk, Hp.
        destruct vs as [|v vs].
        -- cbn [cur_add aadd fst snd]. rewrite (set_nth_same _ _ _ Hk). auto.
        -- rewrite (stale_add T zero h a Ha Hc). cbn [aadd fst snd]. unfold apush, with_cursor. cbn [snd]. rewrite Hp.
           cbn [fst snd]. rewrite (set_nth_same _ _ _ Hk). auto.
    + cbn [MlinkModel.step MlinkSpec.astep]; unfold on_cursor; cbn [fst snd].
      rewrite Hk, (Hcur k Hk). auto.
  - (* Remove *)
    destruct (nth_error cs k) as [[|a]|] eqn:Hk.
    + cbn [MlinkModel.step MlinkSpec.astep]; unfold on_cursor; cbn [fst snd]. unfold with_cursor. cbn [snd].
      rewrite Hk, (R_nil_cursor _ _ _ _ _ HR Hk). auto.
    + destruct (R_cursor _ _ _ _ _ _ HR Hk) as [p [Hp [Ha Hc]]]. destruct p as [i| |]; [| |contradiction].
      * destruct Hc as [pre [suf [Hwf' [Hi [Hl' HF']]]]].
        destruct (sim_remove h cs l ps k a i pre suf (conj Hk (conj Hp (conj Hwf' (conj Hi (conj Hl' HF')))))) as [h' [s' [E1 [E2 HR']]]].
        rewrite E1, E2. cbn [fst snd]. auto.
      * cbn [MlinkModel.step MlinkSpec.astep]; unfold on_cursor; cbn [fst snd]. unfold with_cursor. cbn [snd].
        rewrite Hk, Hp, (stale_remove T zero h a Ha Hc). cbn [fst snd]. rewrite (set_nth_same _ _ _ Hk). auto.
    + cbn [MlinkModel.step MlinkSpec.astep]; unfold on_cursor; cbn [fst snd]. unfold with_cursor. cbn [snd].
      rewrite Hk, (Hcur k Hk). auto.
  - (* Truncate *)
    destruct (nth_error cs k) as [[|a]|] eqn:Hk.
    + cbn [MlinkModel.step MlinkSpec.astep]; unfold on_cursor; cbn [fst snd]. unfold with_cursor. cbn [snd].
      rewrite Hk, (R_nil_cursor _ _ _ _ _ HR Hk). auto.
    + destruct (R_cursor _ _ _ _ _ _ HR Hk) as [p [Hp [Ha Hc]]]. destruct p as [i| |]; [| |contradiction].
      * destruct Hc as [pre [suf [Hwf' [Hi [Hl' HF']]]]].
        destruct (sim_truncate h cs l ps k a i pre suf (conj Hk (conj Hp (conj Hwf' (conj Hi (conj Hl' HF')))))) as [h' [E HR']].
        rewrite E. cbn [MlinkSpec.astep fst snd]. unfold with_cursor. cbn [snd]. rewrite Hp. cbn [fst snd]. auto.
      * cbn [MlinkModel.step MlinkSpec.astep]; unfold on_cursor; cbn [fst snd]. unfold with_cursor. cbn [snd].
        rewrite Hk, Hp, (stale_truncate T zero h a Ha Hc). cbn [fst snd]. rewrite (set_nth_same _ _ _ Hk). auto.
    + cbn [MlinkModel.step MlinkSpec.astep]; unfold on_cursor; cbn [fst snd]. unfold with_cursor. cbn [snd].
      rewrite Hk, (Hcur k Hk). auto.
  - (* Clear *)
    cbn [MlinkModel.step MlinkSpec.astep fst snd].
    destruct (clear_ok T zero h c Hwf) as [h' [E [Hwf' [Hlen' [Hin [Hsame Hv]]]]]].
    rewrite E. cbn [on_list fst snd]. split; [|reflexivity].
    exists [0]. cbn [fst snd tl map]. split; [assumption|]. split; [reflexivity|].
    eapply Forall2_map_r; [|exact HF]. apply crel_lift; [reflexivity|].
    intros b0 p Hnp [Hb Hc]. split; [lia|].
    destruct p as [j| |]; [| |exfalso; apply Hnp; reflexivity]; cbn [after_truncate].
    + destruct (Nat.leb_spec j 0).
      * replace j with 0 in * by lia. cbn [nth_error] in *. assumption.
      * apply Hin. destruct j as [|j]; [lia|]. cbn [nth_error] in Hc. eapply nth_error_In. eassumption.
    + assert (Hnin : ~ In b0 (0 :: c)) by (intros Hi0; apply (chain_not_self _ _ b0 Hwf Hi0); assumption).
      rewrite Hsame; [assumption| |].
      * intros ->. apply Hnin. left. reflexivity.
      * intros Hi0. apply Hnin. right. assumption.
  - (* Peek *)
    cbn [MlinkModel.step MlinkSpec.astep fst snd].
    destruct (list_peek_ok T zero h c Hwf n) as [s' [E Hs]]. rewrite E, <- Hl.
    unfold apeek. destruct (n <? 0)%Z; [|destruct (n <? Z.of_nat (length l))%Z];
      cbn [on_list fst snd]; rewrite Hs; auto.
  - (* Each *)
    cbn [MlinkModel.step MlinkSpec.astep fst snd].
    destruct (list_each_ok T zero h c Hwf f) as [a' E]. rewrite E, <- Hl. cbn [on_list fst snd]. auto.
  - (* Len *)
    cbn [MlinkModel.step MlinkSpec.astep fst snd].
    destruct (list_len_ok T zero h c Hwf) as [a' E]. rewrite E, Hlen. cbn [on_list fst snd]. auto.
  - (* IsEmpty *)
    cbn [MlinkModel.step MlinkSpec.astep fst snd].
    rewrite (list_is_empty_ok T zero h c Hwf), Hlen. cbn [on_list fst snd]. split; [assumption|].
    destruct c; reflexivity.
Qed.

(* ---- histories ---- *)

Theorem run_refines : forall ops m s, R m s -> run T zero m ops = arun T zero s ops.
Proof.
  induction ops as [|o ops IH]; intros m s HR; [reflexivity|].
  cbn [run arun]. destruct (step_sim m s o HR) as [HR' Ho].
  destruct (step m o) as [m' r]. destruct (astep s o) as [s' r']. cbn [fst snd] in *. subst r'.
  f_equal. apply IH. assumption.
Qed.

Theorem run_state_refines : forall ops m s, R m s -> R (run_state T zero m ops) (arun_state T zero s ops).
Proof.
  induction ops as [|o ops IH]; intros m s HR; [assumption|].
  cbn [run_state arun_state]. apply IH. apply step_sim. assumption.
Qed.

Theorem list_refinement : forall ops, run T zero (init T zero) ops = arun T zero (ainit T) ops.
Proof. intros. apply run_refines. apply R_init. Qed.

(* the heap of every reachable state is well-formed, holds exactly the reference contents, and
   every cursor's pred is the chain cell at its reference index, or self-linked iff Stale *)
Theorem reachable_R : forall ops, R (run_state T zero (init T zero) ops) (arun_state T zero (ainit T) ops).
Proof. intros. apply run_state_refines. apply R_init. Qed.

(* the reference never reports a hang or a dangling address *)
Lemma aadd_out : forall vs k s, snd (aadd T k vs s) = RUnit \/ snd (aadd T k vs s) = RPanic InvalidCursor \/
  snd (aadd T k vs s) = RPanic NilDeref \/ snd (aadd T k vs s) = RNoCursor.
Proof.
  induction vs as [|v vs IH]; intros k s; cbn [aadd]; [auto|].
  unfold apush, with_cursor. destruct (nth_error (snd s) k) as [[i| |]|]; cbn [snd]; auto.
Qed.

Lemma astep_out : forall s o, snd (astep s o) <> RHang /\ snd (astep s o) <> RBad.
Proof.
  intros [l ps] o. destruct o; cbn [astep MlinkSpec.astep fst snd]; unfold anext, apush, with_cursor, apeek; cbn [fst snd];
    repeat match goal with
    | |- context [match nth_error ?l ?k with _ => _ end] => destruct (nth_error l k) as [[?| |]|]
    | |- context [if ?b then _ else _] => destruct b
    end; cbn [snd]; try (split; discriminate).
  all: destruct (aadd_out vs k (l, ps)) as [H|[H|[H|H]]]; rewrite H; split; discriminate.
Qed.

Theorem never_hangs : forall ops, ~ In RHang (run T zero (init T zero) ops) /\ ~ In RBad (run T zero (init T zero) ops).
Proof.
  intros ops. rewrite list_refinement. generalize (ainit T). induction ops as [|o ops IH]; intros s; cbn [arun].
  - split; intros [].
  - destruct (astep s o) as [s' r] eqn:E. pose proof (astep_out s o) as [H1 H2]. rewrite E in H1, H2. cbn [snd] in H1, H2.
    destruct (IH s') as [I1 I2]. split; intros [Hh|Hh]; auto.
Qed.

(* ---- a stale cursor refuses every use and nothing changes ---- *)

Definition uses_cursor (o : op T) (k : nat) : Prop :=
  match o with
  | OGet k' | OSet k' _ | OAtEnd k' | ONext k' | OPush k' _ | ORemove k' | OTruncate k' => k' = k
  | OAdd k' (_ :: _) => k' = k
  | _ => False
  end.

Theorem stale_refuses : forall h cs k a o,
  nth_error cs k = Some (Ptr a) -> a < length h -> lnk h a = Ptr a -> uses_cursor o k ->
  step (h, cs) o = ((h, cs), RPanic InvalidCursor).
Proof.
  intros h cs k a o Hk Ha Hs Hu.
  destruct o as [n| | |f|k'|k' j'| |k'|k' v|k'|k'|k' v|k' vs|k'|k'| |n|f| |]; cbn [uses_cursor] in Hu; try contradiction;
    try (subst k'; cbn [MlinkModel.step]; unfold on_cursor; cbn [fst snd]; rewrite Hk).
  - rewrite (stale_get T zero h a Ha Hs). cbn [fst snd]. rewrite (set_nth_same _ _ _ Hk). reflexivity.
  - rewrite (stale_set T zero h a Ha Hs). cbn [fst snd]. rewrite (set_nth_same _ _ _ Hk). reflexivity.
  - rewrite (stale_at_end T zero h a Ha Hs). cbn [fst snd]. rewrite (set_nth_same _ _ _ Hk). reflexivity.
  - rewrite (stale_next T zero h a Ha Hs). cbn [fst snd]. rewrite (set_nth_same _ _ _ Hk). reflexivity.
  - rewrite (stale_push T zero h a Ha Hs). cbn [fst snd]. rewrite (set_nth_same _ _ _ Hk). reflexivity.
  - destruct vs as [|v vs]; [contradiction|]. subst k'. cbn [MlinkModel.step]; unfold on_cursor; cbn [fst snd]. rewrite Hk.
    rewrite (stale_add T zero h a Ha Hs). cbn [fst snd]. rewrite (set_nth_same _ _ _ Hk). reflexivity.
  - rewrite (stale_remove T zero h a Ha Hs). cbn [fst snd]. rewrite (set_nth_same _ _ _ Hk). reflexivity.
  - rewrite (stale_truncate T zero h a Ha Hs). cbn [fst snd]. rewrite (set_nth_same _ _ _ Hk). reflexivity.
Qed.

(* in a reachable state, the cursors the reference calls Stale are exactly such cursors *)
Theorem stale_cursor_panics : forall ops k o,
  nth_error (snd (arun_state T zero (ainit T) ops)) k = Some Stale -> uses_cursor o k ->
  step (run_state T zero (init T zero) ops) o = (run_state T zero (init T zero) ops, RPanic InvalidCursor).
Proof.
  intros ops k o Hst Hu. pose proof (reachable_R ops) as HR.
  destruct (run_state T zero (init T zero) ops) as [h cs]. destruct (arun_state T zero (ainit T) ops) as [l ps].
  cbn [snd] in Hst.
  destruct (nth_error cs k) as [[|a]|] eqn:Hk.
  - pose proof (R_nil_cursor _ _ _ _ _ HR Hk) as Hn. rewrite Hn in Hst. discriminate.
  - destruct (R_cursor _ _ _ _ _ _ HR Hk) as [p [Hp [Ha Hc]]]. rewrite Hst in Hp. inversion Hp. subst p.
    eapply stale_refuses; eassumption.
  - pose proof (R_no_cursor _ _ _ _ _ HR Hk) as Hn. rewrite Hn in Hst. discriminate.
Qed.

(* ---- a Cursor that was never positioned (nil pointer, or zero value: pred == nil) ---- *)

Theorem nil_cursor_refuses : forall h cs k o,
  nth_error cs k = Some Nil -> uses_cursor o k ->
  step (h, cs) o = ((h, cs), RPanic NilDeref).
Proof.
  intros h cs k o Hk Hu.
  destruct o as [n| | |f|k'|k' j'| |k'|k' v|k'|k'|k' v|k' vs|k'|k'| |n|f| |]; cbn [uses_cursor] in Hu; try contradiction;
    try (subst k'; cbn [MlinkModel.step]; unfold on_cursor; cbn [fst snd]; rewrite Hk; reflexivity).
  destruct vs as [|v vs]; [contradiction|]. subst k'. cbn [MlinkModel.step]; unfold on_cursor; cbn [fst snd]. rewrite Hk. reflexivity.
Qed.

Theorem nil_cursor_panics : forall ops k o,
  nth_error (snd (arun_state T zero (ainit T) ops)) k = Some NoPred -> uses_cursor o k ->
  step (run_state T zero (init T zero) ops) o = (run_state T zero (init T zero) ops, RPanic NilDeref).
Proof.
  intros ops k o Hst Hu. pose proof (reachable_R ops) as HR.
  destruct (run_state T zero (init T zero) ops) as [h cs]. destruct (arun_state T zero (ainit T) ops) as [l ps].
  cbn [snd] in Hst.
  destruct (nth_error cs k) as [[|a]|] eqn:Hk.
  - apply nil_cursor_refuses with (k := k); assumption.
  - destruct (R_cursor _ _ _ _ _ _ HR Hk) as [p [Hp [Ha Hc]]]. rewrite Hst in Hp. inversion Hp. subst p. contradiction.
  - pose proof (R_no_cursor _ _ _ _ _ HR Hk) as Hn. rewrite Hn in Hst. discriminate.
Qed.

(* the only nil dereference in any history is the use of such a cursor: the reference reports
   NilDeref exactly there (with_cursor), and the model agrees with the reference *)

(* ---- the property's own wording: a cursor left positioned after a removed or truncated
   element refuses every further use ---- *)

Lemma run_state_app : forall ops1 ops2 m, run_state T zero m (ops1 ++ ops2) = run_state T zero (run_state T zero m ops1) ops2.
Proof. induction ops1 as [|o ops1 IH]; intros ops2 m; cbn [app run_state]; [reflexivity|apply IH]. Qed.

Lemma arun_state_app : forall ops1 ops2 s, arun_state T zero s (ops1 ++ ops2) = arun_state T zero (arun_state T zero s ops1) ops2.
Proof. induction ops1 as [|o ops1 IH]; intros ops2 s; cbn [app arun_state]; [reflexivity|apply IH]. Qed.

(* cursor kr removes the element at index i (it exists); any cursor k that sat at index i+1 --
   just after the removed element -- then panics on every use, and the state stays what it was
   right after the removal *)
Theorem removed_neighbour_panics : forall ops kr k i o,
  let a := arun_state T zero (ainit T) ops in
  nth_error (snd a) kr = Some (At i) -> i < length (fst a) ->
  nth_error (snd a) k = Some (At (S i)) -> uses_cursor o k ->
  let m' := run_state T zero (init T zero) (ops ++ [ORemove kr]) in
  step m' o = (m', RPanic InvalidCursor).
Proof.
  intros ops kr k i o a Hkr Hi Hk Hu m'. unfold m'. apply stale_cursor_panics with (k := k); [|assumption].
  rewrite arun_state_app. fold a. cbn [arun_state MlinkSpec.astep]. unfold with_cursor. destruct a as [l ps]. cbn [fst snd] in *.
  rewrite Hkr. replace (i <? length l) with true by (symmetry; apply Nat.ltb_lt; assumption). cbn [fst snd].
  rewrite nth_error_map, Hk. cbn [option_map after_remove].
  replace (S i <=? i) with false by (symmetry; apply Nat.leb_gt; lia). rewrite Nat.eqb_refl. reflexivity.
Qed.

(* cursor kt truncates at index i; any cursor k that sat at an index j > i -- after a truncated
   element, the end position included -- then panics on every use, state unchanged *)
Theorem truncated_tail_panics : forall ops kt k i j o,
  let a := arun_state T zero (ainit T) ops in
  nth_error (snd a) kt = Some (At i) -> nth_error (snd a) k = Some (At j) -> i < j -> uses_cursor o k ->
  let m' := run_state T zero (init T zero) (ops ++ [OTruncate kt]) in
  step m' o = (m', RPanic InvalidCursor).
Proof.
  intros ops kt k i j o a Hkt Hk Hij Hu m'. unfold m'. apply stale_cursor_panics with (k := k); [|assumption].
  rewrite arun_state_app. fold a. cbn [arun_state MlinkSpec.astep]. unfold with_cursor. destruct a as [l ps]. cbn [fst snd] in *.
  rewrite Hkt. cbn [fst snd]. rewrite nth_error_map, Hk. cbn [option_map after_truncate].
  replace (j <=? i) with false by (symmetry; apply Nat.leb_gt; lia). reflexivity.
Qed.

(* List.Clear: every cursor at an index j > 0 is left after a discarded element *)
Theorem cleared_panics : forall ops k j o,
  let a := arun_state T zero (ainit T) ops in
  nth_error (snd a) k = Some (At j) -> 0 < j -> uses_cursor o k ->
  let m' := run_state T zero (init T zero) (ops ++ [OClear]) in
  step m' o = (m', RPanic InvalidCursor).
Proof.
  intros ops k j o a Hk Hj Hu m'. unfold m'. apply stale_cursor_panics with (k := k); [|assumption].
  rewrite arun_state_app. fold a. cbn [arun_state MlinkSpec.astep]. destruct a as [l ps]. cbn [fst snd] in *.
  rewrite nth_error_map, Hk. cbn [option_map after_truncate].
  replace (j <=? 0) with false by (symmetry; apply Nat.leb_gt; lia). reflexivity.
Qed.

(* the code before the repair: Truncate through such a cursor never returns (F7) *)
Theorem pinned_truncate_hangs : forall h cs k a,
  nth_error cs k = Some (Ptr a) -> a < length h -> lnk h a = Ptr a ->
  step_pinned T zero (h, cs) (OTruncate k) = ((h, cs), RHang).
Proof.
  intros h cs k a Hk Ha Hs. cbn [step_pinned]; unfold on_cursor; cbn [fst snd]. rewrite Hk.
  rewrite (stale_truncate_pinned T zero h a Ha Hs). reflexivity.
Qed.

End Refine.
