(* C02 (b): the height bound is an invariant of every history.

   For a depth-limit function with H1 (floor(log2 n) <= limit b n) and H2 (2000^(limit b n) <=
   n*(1000+b)^(limit b n)) and b < 1000, every tree of every history satisfies
        Inv t P :  tsize t = size (root t)  /\  size (root t) <= P  /\
                   2000^h <= P * (1000+b)^h          (h = height (root t))
   where P is the peak Len since the tree was created, cleared or last empty.  (The third part
   is one level stronger than the property's Bound, which follows.)

   Argument.  insert returns (t', added, sz, ht) with: if the search for a goat is off (sz = 0)
   then height t' <= max (height t) L for the limit L passed in: either the new leaf sits at
   depth <= L, or a goat at height-above k was rebuilt and its new subtree has height
   <= floor(log2 s) <= limit s < k, so no deeper than the old subtree was; if the search is still
   on (sz > 0) then no ancestor so far was a goat, ht <= limit sz, and the caller's limit is
   exceeded.  At the root the search cannot be still on because L = limit (size+1).  H2 bounds L;
   remove never deepens; the delete-side rebuild and New give floor(log2 n). *)
From Coq Require Import ZArith List Bool Lia.
Import ListNotations.
From Mds Require Import Gen.StreeConst Gen.StreeNode Stree.StreeModel Stree.HeightModel
  Stree.HeightLimit Stree.HeightBasics Stree.HeightRewrite.
Local Open Scope Z_scope.

Ltac gen_unfold :=
  unfold ins_seeking, ins_root_size, ins_limit_arg, ins_not_goat, ins_keep_size, ins_rewrite_size,
    ins_goat_size, ins_leaf_over, ins_leaf_size, ins_leaf_height, ins_lt, ins_gt, ins_left_limit,
    ins_right_limit, ins_left_height, ins_right_height, ins_eq_size, ins_eq_height,
    add_limit_arg, replace_limit_arg, inc_size, inc_max_test, inc_max,
    rem_size, rem_rebuild, rem_rewrite_size, rem_max, rem_lt, rem_gt,
    len_result, clear_size, clear_max, new_size, new_max, new_has_keys in *.

Section Proofs.
Variable T : Type.
Variable cmp : T -> T -> Z.
Variable limit : Z -> Z -> Z.
Notation tree := (tree T).

(* ------------------------------------------------------------------ Pk and heights *)

Lemma Pk_neg b n k : k < 0 -> Pk b n k.
Proof. intros Hk. unfold Pk. rewrite !Z.pow_neg_r by lia. lia. Qed.

Lemma Pk_weaken b n n' j k : 0 <= b <= 1000 -> j <= k -> n <= n' -> Pk b n k -> Pk b n' j.
Proof.
  intros Hb Hj Hn H. destruct (Z_lt_le_dec j 0) as [Hneg|Hpos].
  - apply Pk_neg. exact Hneg.
  - apply (Pk_mono_n b n n'); [lia|exact Hn|]. apply (Pk_down b n j k); [exact Hb|lia|exact H].
Qed.

(* ------------------------------------------------------------------ insert *)

Section Insert.
Variable b : Z.
Hypothesis H1b : forall n, 1 <= n -> Z.log2 n <= limit b n.

Lemma unwind_spec (root sib t' : tree) (added added' : bool) (sz1 ht1 sz ht H0 L : Z) :
  0 <= sz1 ->
  (sz1 = 0 -> height root <= Z.max H0 L) ->
  (0 < sz1 -> size root = size sib + 1 + sz1 /\ L < ht1 + 1 /\ ht1 <= H0 /\
              height root <= Z.max H0 (ht1 + 1) /\ added = true) ->
  ins_unwind limit b root sib added sz1 (ht1 + 1) = Ok (t', added', sz, ht) ->
  added' = added /\ ht = ht1 + 1 /\ 0 <= sz /\ size t' = size root /\
  (sz1 = 0 -> t' = root /\ sz = 0) /\
  (sz = 0 -> height t' <= Z.max H0 L) /\
  (0 < sz -> sz = size t' /\ L < ht /\ ht <= H0 + 1 /\ height t' <= Z.max H0 ht /\
             added = true /\ ht <= limit b sz).
Proof.
  intros Hsz1 Hoff Hon E. unfold ins_unwind in E. gen_unfold.
  destruct (sz1 >? 0) eqn:Es.
  - rewrite Z.gtb_ltb in Es. apply Z.ltb_lt in Es.
    destruct (Hon Es) as [Hsize [HL [Hht [Hh Hadd]]]].
    pose proof (size_nonneg T sib) as Hsib.
    destruct (ht1 + 1 <=? limit b (size sib + 1 + sz1)) eqn:Eg.
    + apply Z.leb_le in Eg. inversion E; subst; clear E.
      repeat split; try lia.
    + apply Z.leb_gt in Eg.
      destruct (rewrite root (size sib + 1 + sz1)) as [root'| | |] eqn:Er; cbn [bind] in E; try discriminate.
      inversion E; subst; clear E.
      rewrite <- Hsize in Er. destruct (rewrite_size root t' Er) as [Hs Hh'].
      rewrite lg_pos in Hh' by lia.
      pose proof (H1b (size root) ltac:(lia)) as Hl. rewrite Hsize in Hl at 2.
      repeat split; try lia.
  - rewrite Z.gtb_ltb in Es. apply Z.ltb_ge in Es.
    inversion E; subst; clear E.
    assert (sz = 0) by lia. subst sz.
    repeat split; try lia; try (apply Hoff; reflexivity).
Qed.

Lemma insert_inv (key : T) (rep : bool) : forall (t t' : tree) (L : Z) added sz ht,
  insert cmp limit b key rep t L = Ok (t', added, sz, ht) ->
  0 <= sz /\ 0 <= ht /\
  size t' = size t + (if added then 1 else 0) /\
  (added = false -> height t' = height t /\ sz = 0) /\
  (sz = 0 -> height t' <= Z.max (height t) L) /\
  (0 < sz -> sz = size t' /\ L < ht /\ ht <= height t + 1 /\ height t' <= Z.max (height t) ht /\
             added = true /\ (ht = 0 \/ ht <= limit b sz)).
Proof.
  induction t as [|l IHl x r IHr]; intros t' L added sz ht E.
  - cbn [insert] in E. gen_unfold. inversion E; subst; clear E.
    destruct (L <? 0) eqn:EL; [apply Z.ltb_lt in EL|apply Z.ltb_ge in EL];
      cbn [size height]; unfold node_size; cbn [size height]; repeat split; try lia; try discriminate.
  - cbn [insert] in E. gen_unfold.
    pose proof (height_ge_m1 T l) as Hhl. pose proof (height_ge_m1 T r) as Hhr.
    destruct (cmp key x <? 0) eqn:Ec.
    + destruct (insert cmp limit b key rep l (L - 1)) as [[[[ins a1] sz1] ht1]| | |] eqn:Ei;
        cbn [bind] in E; try discriminate.
      destruct (IHl _ _ _ _ _ Ei) as [Hs0 [Hh0 [Hsize [Hna [Hoff Hon]]]]].
      apply (unwind_spec _ _ _ _ _ _ _ _ _ (height (Node l x r)) L) in E.
      * destruct E as [-> [-> [Hsz [Hsz' [Hroot [Hoff' Hon']]]]]].
        rewrite size_node in Hsz'. rewrite size_node.
        split; [exact Hsz|]. split; [lia|]. split; [lia|]. split; [|split].
        -- intros Ha. destruct (Hna Ha) as [Hheq ->]. destruct (Hroot eq_refl) as [-> ->].
           split; [|reflexivity]. cbn [height]. rewrite Hheq. reflexivity.
        -- exact Hoff'.
        -- intros Hp. destruct (Hon' Hp) as [A [B [C [D [F G]]]]]. repeat split; try assumption. right; exact G.
      * exact Hs0.
      * intros ->. specialize (Hoff eq_refl). cbn [height]. lia.
      * intros Hp. destruct (Hon Hp) as [A [B [C [D [F G]]]]].
        rewrite size_node. cbn [height]. repeat split; try lia. exact F.
    + destruct (cmp key x >? 0) eqn:Ec2.
      * destruct (insert cmp limit b key rep r (L - 1)) as [[[[ins a1] sz1] ht1]| | |] eqn:Ei;
          cbn [bind] in E; try discriminate.
        destruct (IHr _ _ _ _ _ Ei) as [Hs0 [Hh0 [Hsize [Hna [Hoff Hon]]]]].
        apply (unwind_spec _ _ _ _ _ _ _ _ _ (height (Node l x r)) L) in E.
        -- destruct E as [-> [-> [Hsz [Hsz' [Hroot [Hoff' Hon']]]]]].
           rewrite size_node in Hsz'. rewrite size_node.
           split; [exact Hsz|]. split; [lia|]. split; [lia|]. split; [|split].
           ++ intros Ha. destruct (Hna Ha) as [Hheq ->]. destruct (Hroot eq_refl) as [-> ->].
              split; [|reflexivity]. cbn [height]. rewrite Hheq. reflexivity.
           ++ exact Hoff'.
           ++ intros Hp. destruct (Hon' Hp) as [A [B [C [D [F G]]]]]. repeat split; try assumption. right; exact G.
        -- exact Hs0.
        -- intros ->. specialize (Hoff eq_refl). cbn [height]. lia.
        -- intros Hp. destruct (Hon Hp) as [A [B [C [D [F G]]]]].
           rewrite size_node. cbn [height]. repeat split; try lia. exact F.
      * inversion E; subst; clear E. rewrite !size_node. cbn [height].
        repeat split; try lia.
Qed.

End Insert.

(* ------------------------------------------------------------------ remove *)

Lemma pop_left_inv : forall (p p' : tree) g, pop_left p = Ok (g, p') ->
  height p' <= height p /\ size p' = size p - 1.
Proof.
  induction p as [|l IHl x r IHr]; intros p' g E; [discriminate|].
  cbn [pop_left] in E. destruct l as [|ll lx lr]; [discriminate|].
  destruct ll as [|a y c].
  - inversion E; subst; clear E. rewrite !size_node. cbn [height size].
    pose proof (height_ge_m1 T lr). lia.
  - destruct (pop_left (Node (Node a y c) lx lr)) as [[g' l']| | |] eqn:Ep; cbn [bind] in E; try discriminate.
    inversion E; subst; clear E.
    destruct (IHl _ _ eq_refl) as [Hh Hs].
    rewrite size_node. rewrite (size_node T (Node (Node a y c) lx lr)). cbn [height] in *. lia.
Qed.

Lemma pop_min_right_inv (root root' : tree) g : pop_min_right root = Ok (g, root') ->
  height root' <= height root /\ size root' = size root - 1.
Proof.
  intros E. destruct root as [|l x r]; [discriminate|]. cbn [pop_min_right] in E.
  destruct r as [|rl rx rr]; [discriminate|].
  destruct rl as [|a y c].
  - inversion E; subst; clear E. rewrite !size_node. cbn [height size].
    pose proof (height_ge_m1 T rr). lia.
  - destruct (pop_left (Node (Node a y c) rx rr)) as [[g' r']| | |] eqn:Ep; cbn [bind] in E; try discriminate.
    inversion E; subst; clear E.
    destruct (pop_left_inv _ _ _ Ep) as [Hh Hs].
    rewrite size_node. rewrite (size_node T l (Node (Node a y c) rx rr)). cbn [height] in *. lia.
Qed.

Lemma remove_inv (key : T) : forall (t t' : tree) ok, remove cmp key t = Ok (t', ok) ->
  height t' <= height t /\ size t' = size t - (if ok then 1 else 0).
Proof.
  induction t as [|l IHl x r IHr]; intros t' ok E.
  - inversion E; subst. cbn. lia.
  - cbn [remove] in E. gen_unfold.
    destruct (cmp key x <? 0).
    + destruct (remove cmp key l) as [[l' ok']| | |] eqn:Er; cbn [bind] in E; try discriminate.
      inversion E; subst; clear E. destruct (IHl _ _ eq_refl) as [Hh Hs].
      rewrite !size_node. cbn [height]. lia.
    + destruct (cmp key x >? 0).
      * destruct (remove cmp key r) as [[r' ok']| | |] eqn:Er; cbn [bind] in E; try discriminate.
        inversion E; subst; clear E. destruct (IHr _ _ eq_refl) as [Hh Hs].
        rewrite !size_node. cbn [height]. lia.
      * destruct l as [|ll lx lr].
        { inversion E; subst; clear E. rewrite size_node. cbn [height size].
          pose proof (height_ge_m1 T t'). lia. }
        destruct r as [|rl rx rr].
        { inversion E; subst; clear E. rewrite (size_node T (Node ll lx lr) Leaf). cbn [height size].
          pose proof (height_ge_m1 T (Node ll lx lr)). cbn [height] in *. lia. }
        destruct (pop_min_right (Node (Node ll lx lr) x (Node rl rx rr))) as [[g n']| | |] eqn:Ep;
          cbn [bind] in E; try discriminate.
        destruct n' as [|l' y r']; [discriminate|].
        inversion E; subst; clear E.
        destruct (pop_min_right_inv _ _ _ Ep) as [Hh Hs].
        rewrite size_node in *. cbn [height] in *. lia.
Qed.

Lemma clone_id (t : tree) : clone t = t.
Proof. induction t as [|l IHl x r IHr]; [reflexivity|]. cbn [clone]. rewrite IHl, IHr. reflexivity. Qed.

(* ------------------------------------------------------------------ the invariant of one tree *)

Definition Inv (t : Tree T) (P : Z) : Prop :=
  tsize t = size (root t) /\ size (root t) <= P /\ Pk (beta t) P (height (root t)).

(* what every operation establishes: the size cache is right and, unless the tree is empty, the
   strong bound holds at the larger of the old peak and the new size *)
Lemma inv_intro (t' : Tree T) (P : Z) :
  tsize t' = size (root t') ->
  (size (root t') <> 0 -> Pk (beta t') (Z.max P (size (root t'))) (height (root t'))) ->
  Inv t' (peak_upd P t').
Proof.
  intros Hs Hb. unfold Inv, peak_upd, Len. gen_unfold. rewrite Hs.
  destruct (size (root t') =? 0) eqn:E.
  - apply Z.eqb_eq in E. rewrite (size_0_leaf T _ E). cbn [size height].
    split; [reflexivity|]. split; [lia|]. apply Pk_neg. lia.
  - apply Z.eqb_neq in E. split; [reflexivity|]. split; [lia|]. apply Hb. exact E.
Qed.

Lemma inv_stable (t : Tree T) (P : Z) : Inv t P -> Inv t (peak_upd P t).
Proof.
  intros [Hs [Hp Hb]]. apply inv_intro; [exact Hs|]. intros _.
  rewrite Z.max_l by lia. exact Hb.
Qed.

Lemma inv_bound (t : Tree T) (P : Z) : 0 <= beta t < 1000 -> Inv t P ->
  Len t <= P /\ Bound (beta t) P (root t).
Proof.
  intros Hb [Hs [Hp HP]]. unfold Len. gen_unfold. split; [lia|].
  split; [exact Hp|].
  destruct (Z_le_gt_dec (height (root t)) 1) as [Hh|Hh]; [left; exact Hh|right].
  apply (Pk_down (beta t) P _ (height (root t))); [lia|lia|exact HP].
Qed.

Section Ops.
Hypothesis H1 : limit_H1 limit.
Hypothesis H2 : limit_H2 limit.

Lemma insert_top (t : Tree T) (P : Z) (key : T) (rep : bool) (ins : tree) ok sz ht :
  0 <= beta t < 1000 -> Inv t P ->
  insert cmp limit (beta t) key rep (root t) (limit (beta t) (tsize t + 1)) = Ok (ins, ok, sz, ht) ->
  let sz' := if ok then tsize t + 1 else tsize t in
  sz' = size ins /\ (size ins <> 0 -> Pk (beta t) (Z.max P (size ins)) (height ins)).
Proof.
  intros Hb [Hs [Hp HP]] E.
  pose proof (size_nonneg T (root t)) as Hs0.
  destruct (insert_inv (beta t) (fun n Hn => H1 (beta t) n Hb Hn) key rep _ _ _ _ _ _ E)
    as [Hsz [Hht [Hsize [Hna [Hoff Hon]]]]].
  cbn zeta. split; [destruct ok; lia|]. intros _.
  destruct ok.
  - (* a new key: the goat search is over at the root *)
    assert (Hz : sz = 0).
    { destruct (Z.eq_dec sz 0) as [Hz|Hnz]; [exact Hz|exfalso].
      destruct (Hon ltac:(lia)) as [A [B [C [D [_ G]]]]].
      pose proof (H1 (beta t) (tsize t + 1) Hb ltac:(lia)) as Hl.
      pose proof (Z.log2_nonneg (tsize t + 1)).
      rewrite A, Hsize, <- Hs in G. destruct G as [G|G]; lia. }
    specialize (Hoff Hz).
    destruct (Z.max_spec (height (root t)) (limit (beta t) (tsize t + 1))) as [[_ Em]|[_ Em]];
      rewrite Em in Hoff.
    + apply (Pk_weaken (beta t) (tsize t + 1) _ _ (limit (beta t) (tsize t + 1))); [lia|exact Hoff|lia|].
      apply H2; lia.
    + apply (Pk_weaken (beta t) P _ _ (height (root t))); [lia|exact Hoff|lia|exact HP].
  - destruct (Hna eq_refl) as [Hh _]. rewrite Hh.
    apply (Pk_weaken (beta t) P _ _ (height (root t))); [lia|lia|lia|exact HP].
Qed.

Lemma Add_inv (t t' : Tree T) (P : Z) key ok : 0 <= beta t < 1000 -> Inv t P ->
  Add cmp limit t key = Ok (t', ok) -> beta t' = beta t /\ Inv t' (peak_upd P t').
Proof.
  intros Hb HI E. unfold Add in E. gen_unfold.
  destruct (insert cmp limit (beta t) key false (root t) (limit (beta t) (tsize t + 1)))
    as [[[[ins ok'] sz] ht]| | |] eqn:Ei; cbn [bind] in E; try discriminate.
  destruct (insert_top t P key false ins ok' sz ht Hb HI Ei) as [A B].
  unfold inc_size_of in E. gen_unfold.
  destruct ok'; inversion E; subst; clear E; (split; [reflexivity|]); apply inv_intro; cbn [root tsize beta]; assumption.
Qed.

Lemma Replace_inv (t t' : Tree T) (P : Z) key ok : 0 <= beta t < 1000 -> Inv t P ->
  Replace cmp limit t key = Ok (t', ok) -> beta t' = beta t /\ Inv t' (peak_upd P t').
Proof.
  intros Hb HI E. unfold Replace in E. gen_unfold.
  destruct (insert cmp limit (beta t) key true (root t) (limit (beta t) (tsize t + 1)))
    as [[[[ins ok'] sz] ht]| | |] eqn:Ei; cbn [bind] in E; try discriminate.
  destruct (insert_top t P key true ins ok' sz ht Hb HI Ei) as [A B].
  unfold inc_size_of in E. gen_unfold.
  destruct ok'; inversion E; subst; clear E; (split; [reflexivity|]); apply inv_intro; cbn [root tsize beta]; assumption.
Qed.

Lemma Remove_inv (t t' : Tree T) (P : Z) key ok : 0 <= beta t < 1000 -> Inv t P ->
  Remove cmp t key = Ok (t', ok) -> beta t' = beta t /\ Inv t' (peak_upd P t').
Proof.
  intros Hb [Hs [Hp HP]] E. unfold Remove in E. gen_unfold.
  destruct (remove cmp key (root t)) as [[del ok']| | |] eqn:Er; cbn [bind] in E; try discriminate.
  destruct (remove_inv key _ _ _ Er) as [Hh Hsz].
  pose proof (size_nonneg T del) as Hd0.
  destruct ok'.
  - destruct (tsize t - 1 <? rem_threshold (maxsize t) (beta t)).
    + (* the delete-side rebuild *)
      destruct (rewrite del (tsize t - 1)) as [rt| | |] eqn:Ew; cbn [bind] in E; try discriminate.
      inversion E; subst; clear E. split; [reflexivity|].
      replace (tsize t - 1) with (size del) in * by lia.
      destruct (rewrite_size del rt Ew) as [Hrs Hrh].
      apply inv_intro; cbn [root tsize beta]; [lia|]. intros Hne.
      rewrite lg_pos in Hrh by lia.
      apply (Pk_weaken (beta t) (size del) _ _ (Z.log2 (size del))); [lia|lia|lia|].
      apply Pk_log2; lia.
    + inversion E; subst; clear E. split; [reflexivity|].
      apply inv_intro; cbn [root tsize beta]; [lia|]. intros Hne.
      apply (Pk_weaken (beta t) P _ _ (height (root t))); [lia|lia|lia|exact HP].
  - inversion E; subst; clear E. split; [reflexivity|].
    apply inv_intro; cbn [root tsize beta]; [lia|]. intros Hne.
    apply (Pk_weaken (beta t) P _ _ (height (root t))); [lia|lia|lia|exact HP].
Qed.

Lemma Clear_inv (t : Tree T) (P : Z) : Inv (Clear t) (peak_upd P (Clear t)).
Proof.
  apply inv_intro; cbn [Clear root tsize]; gen_unfold; [reflexivity|]. cbn [size]. congruence.
Qed.

Lemma New_inv (b : Z) keys picks (t : Tree T) : 0 <= b < 1000 ->
  New cmp b keys picks = Ok t -> beta t = b /\ Inv t (Len t).
Proof.
  intros Hb E. unfold New in E. gen_unfold.
  destruct (new_beta_bad b); [discriminate|].
  destruct (negb (Z.of_nat (length keys) =? 0)).
  - destruct (sort_compact cmp keys picks) as [nodes| | |]; cbn [bind] in E; try discriminate.
    destruct (extract nodes) as [rt| | |] eqn:Ex; cbn [bind] in E; try discriminate.
    inversion E; subst; clear E. split; [reflexivity|].
    unfold Inv, Len. gen_unfold. cbn [root tsize beta].
    destruct nodes as [|n0 nodes].
    + cbn in Ex. inversion Ex; subst. cbn. split; [reflexivity|]. split; [lia|]. apply Pk_neg. lia.
    + destruct (extract_height (n0 :: nodes) ltac:(discriminate)) as [rt' [Ex' [Hh [Hsz _]]]].
      rewrite Ex in Ex'. inversion Ex'; subst rt'.
      split; [lia|]. split; [lia|]. rewrite Hh. apply Pk_log2; [lia|]. cbn [length]. lia.
  - inversion E; subst; clear E. split; [reflexivity|]. unfold Inv, Len. gen_unfold. cbn.
    split; [reflexivity|]. split; [lia|]. apply Pk_neg. lia.
Qed.

(* ------------------------------------------------------------------ histories *)

Definition R (t : Tree T) (P : Z) : Prop := 0 <= beta t < 1000 -> Inv t P.

Lemma R_stable t P : R t P -> R t (peak_upd P t).
Proof. intros H Hb. apply inv_stable. apply H. exact Hb. Qed.

Lemma upd_peaks_same : forall (s : state T) ps, Forall2 R s ps -> Forall2 R s (upd_peaks ps s).
Proof.
  intros s ps F. induction F as [|t P s ps Ht F IH]; cbn [upd_peaks]; constructor.
  - apply R_stable. exact Ht.
  - exact IH.
Qed.

Lemma upd_peaks_set : forall (s : state T) ps i t t',
  Forall2 R s ps -> nth_error s i = Some t ->
  (forall P, R t P -> R t' (peak_upd P t')) ->
  Forall2 R (set_nth i t' s) (upd_peaks ps (set_nth i t' s)).
Proof.
  intros s ps i t t' F. revert i. induction F as [|t0 P s ps Ht F IH]; intros i Hn Hstep.
  - destruct i; discriminate.
  - destruct i as [|i]; cbn [nth_error] in Hn; cbn [set_nth upd_peaks].
    + inversion Hn; subst. constructor; [apply Hstep; exact Ht|]. apply upd_peaks_same. exact F.
    + constructor; [apply R_stable; exact Ht|]. apply IH; assumption.
Qed.

Lemma set_nth_length {A} (i : nat) (a : A) : forall l, length (set_nth i a l) = length l.
Proof. revert i. intros i l. revert i. induction l as [|x l IH]; intros [|i]; cbn; try reflexivity. rewrite IH. reflexivity. Qed.

Lemma upd_peaks_app : forall (s extra : state T) ps, length s = length ps ->
  upd_peaks ps (s ++ extra) = upd_peaks ps s.
Proof.
  induction s as [|t s IH]; intros extra ps Hl; destruct ps as [|p ps]; cbn in Hl; try lia.
  - destruct extra; reflexivity.
  - cbn [app upd_peaks]. rewrite IH by lia. reflexivity.
Qed.

Lemma skipn_all_app {A} (l extra : list A) : skipn (length l) (l ++ extra) = extra.
Proof. induction l; cbn; auto. Qed.

Lemma skipn_same {A} (l l' : list A) : length l' = length l -> skipn (length l) l' = [].
Proof. intros H. rewrite <- H. apply skipn_all. Qed.

Lemma step_mut_R (s : state T) ps i (f : Tree T -> res (Tree T * bool)) :
  Forall2 R s ps ->
  (forall t t' ok P, 0 <= beta t < 1000 -> Inv t P -> f t = Ok (t', ok) ->
                     beta t' = beta t /\ Inv t' (peak_upd P t')) ->
  (forall t t' ok, f t = Ok (t', ok) -> beta t' = beta t) ->
  let s' := fst (step_mut s i f) in
  Forall2 R s' (upd_peaks ps s') /\ length s' = length s.
Proof.
  intros F Hf Hbeta. unfold step_mut.
  destruct (nth_error s i) as [t|] eqn:En; cbn [fst].
  2:{ split; [apply upd_peaks_same; exact F|reflexivity]. }
  destruct (f t) as [[t' ok]| | |] eqn:Ef; cbn [fst];
    try (split; [apply upd_peaks_same; exact F|reflexivity]).
  split; [|apply set_nth_length].
  apply (upd_peaks_set s ps i t t' F En).
  intros P HR Hb'. pose proof (Hbeta _ _ _ Ef) as Hbe. rewrite Hbe in Hb'.
  destruct (Hf _ _ _ P Hb' (HR Hb') Ef) as [_ HI]. exact HI.
Qed.

Lemma F2_length {A B} (Q : A -> B -> Prop) l l' : Forall2 Q l l' -> length l = length l'.
Proof. induction 1; cbn; congruence. Qed.

Lemma F2_impl {A B} (Q Q' : A -> B -> Prop) : (forall a b, Q a b -> Q' a b) ->
  forall l l', Forall2 Q l l' -> Forall2 Q' l l'.
Proof. intros HQ l l' F. induction F; constructor; auto. Qed.

Definition INV (sp : state T * list Z) : Prop := Forall2 R (fst sp) (snd sp).

Lemma step_peak_inv (sp : state T * list Z) (o : op T) : INV sp -> INV (step_peak cmp limit sp o).
Proof.
  destruct sp as [s ps]. unfold INV. cbn [fst snd]. intros F.
  pose proof (F2_length _ _ _ F) as Hlen.
  unfold step_peak.
  assert (Hobs : forall g, fst (step_obs s 0 g) = s) by (intros g; unfold step_obs; destruct (nth_error s 0); reflexivity).
  assert (Same : forall s', s' = s -> forall extra, extra = [] ->
            Forall2 R s' (upd_peaks ps s' ++ extra)).
  { intros s' -> extra ->. rewrite app_nil_r. apply upd_peaks_same. exact F. }
  destruct o as [b keys picks|i|i k|i k|i k|i|i|i|i k|i|i|i stop|i k stop]; cbn [step fst snd].
  - (* New *)
    destruct (New cmp b keys picks) as [t| | |] eqn:En; cbn [fst out_of_fail];
      try (apply Same; [reflexivity|rewrite skipn_same by reflexivity; reflexivity]).
    rewrite skipn_all_app. cbn [map]. rewrite upd_peaks_app by exact Hlen.
    apply Forall2_app; [apply upd_peaks_same; exact F|]. constructor; [|constructor].
    intros Hb.
    assert (Hbb : 0 <= b < 1000 \/ ~ (0 <= b < 1000)) by lia.
    destruct Hbb as [Hbb|Hbb].
    + destruct (New_inv b keys picks t Hbb En) as [_ HI]. exact HI.
    + exfalso. unfold New in En. destruct (new_beta_bad b); [discriminate|].
      destruct (new_has_keys (Z.of_nat (length keys))).
      * destruct (sort_compact cmp keys picks) as [nodes| | |]; cbn [bind] in En; try discriminate.
        destruct (extract nodes); cbn [bind] in En; try discriminate.
        inversion En; subst. cbn [beta] in Hb. lia.
      * inversion En; subst. cbn [beta] in Hb. lia.
  - (* Clone *)
    destruct (nth_error s i) as [t|] eqn:En; cbn [fst].
    2:{ apply Same; [reflexivity|rewrite skipn_same by reflexivity; reflexivity]. }
    rewrite skipn_all_app. cbn [map]. rewrite upd_peaks_app by exact Hlen.
    apply Forall2_app; [apply upd_peaks_same; exact F|]. constructor; [|constructor].
    assert (HC : Clone t = t) by (unfold Clone; rewrite clone_id; destruct t; reflexivity).
    rewrite HC.
    clear - F En. revert i En. induction F as [|t0 P s ps Ht F IH]; intros [|i] En; cbn in En; try discriminate.
    + inversion En; subst. exact Ht.
    + cbn [nth]. apply IH. exact En.
  - (* Add *)
    destruct (step_mut_R s ps i (fun t => Add cmp limit t k) F) as [A B].
    { intros t t' ok P Hb HI E. apply (Add_inv t t' P k ok Hb HI E). }
    { intros t t' ok E. unfold Add in E.
      destruct (insert cmp limit (beta t) k false (root t) _) as [[[[ins ok'] sz] ht]| | |]; cbn [bind] in E; try discriminate.
      destruct (inc_size_of t ok'). inversion E; subst. reflexivity. }
    rewrite skipn_same by exact B. cbn [map]. rewrite app_nil_r. exact A.
  - (* Replace *)
    destruct (step_mut_R s ps i (fun t => Replace cmp limit t k) F) as [A B].
    { intros t t' ok P Hb HI E. apply (Replace_inv t t' P k ok Hb HI E). }
    { intros t t' ok E. unfold Replace in E.
      destruct (insert cmp limit (beta t) k true (root t) _) as [[[[ins ok'] sz] ht]| | |]; cbn [bind] in E; try discriminate.
      destruct (inc_size_of t ok'). inversion E; subst. reflexivity. }
    rewrite skipn_same by exact B. cbn [map]. rewrite app_nil_r. exact A.
  - (* Remove *)
    destruct (step_mut_R s ps i (fun t => Remove cmp t k) F) as [A B].
    { intros t t' ok P Hb HI E. apply (Remove_inv t t' P k ok Hb HI E). }
    { intros t t' ok E. unfold Remove in E.
      destruct (remove cmp k (root t)) as [[del ok']| | |]; cbn [bind] in E; try discriminate.
      destruct ok'.
      - destruct (rem_rebuild _ _).
        + destruct (rewrite del _); cbn [bind] in E; try discriminate. inversion E; subst. reflexivity.
        + inversion E; subst. reflexivity.
      - inversion E; subst. reflexivity. }
    rewrite skipn_same by exact B. cbn [map]. rewrite app_nil_r. exact A.
  - (* Clear *)
    destruct (nth_error s i) as [t|] eqn:En; cbn [fst].
    2:{ apply Same; [reflexivity|rewrite skipn_same by reflexivity; reflexivity]. }
    rewrite skipn_same by apply set_nth_length. cbn [map]. rewrite app_nil_r.
    apply (upd_peaks_set s ps i t (Clear t) F En). intros P _ _. apply Clear_inv.
  - unfold step_obs. destruct (nth_error s i); cbn [fst]; (apply Same; [reflexivity|rewrite skipn_same by reflexivity; reflexivity]).
  - unfold step_obs. destruct (nth_error s i); cbn [fst]; (apply Same; [reflexivity|rewrite skipn_same by reflexivity; reflexivity]).
  - unfold step_obs. destruct (nth_error s i); cbn [fst]; (apply Same; [reflexivity|rewrite skipn_same by reflexivity; reflexivity]).
  - unfold step_obs. destruct (nth_error s i); cbn [fst]; (apply Same; [reflexivity|rewrite skipn_same by reflexivity; reflexivity]).
  - unfold step_obs. destruct (nth_error s i); cbn [fst]; (apply Same; [reflexivity|rewrite skipn_same by reflexivity; reflexivity]).
  - unfold step_obs. destruct (nth_error s i); cbn [fst]; (apply Same; [reflexivity|rewrite skipn_same by reflexivity; reflexivity]).
  - unfold step_obs. destruct (nth_error s i); cbn [fst]; (apply Same; [reflexivity|rewrite skipn_same by reflexivity; reflexivity]).
Qed.

Lemma run_inv : forall ops sp, INV sp -> INV (fold_left (step_peak cmp limit) ops sp).
Proof.
  induction ops as [|o ops IH]; intros sp H; [exact H|].
  cbn [fold_left]. apply IH. apply step_peak_inv. exact H.
Qed.

Theorem history_bound (ops : list (op T)) :
  Forall2 (fun t P => 0 <= beta t < 1000 -> Len t <= P /\ Bound (beta t) P (root t))
          (fst (run_with_peak cmp limit ops)) (snd (run_with_peak cmp limit ops)).
Proof.
  pose proof (run_inv ops ([], []) (Forall2_nil _)) as H. unfold INV in H.
  unfold run_with_peak.
  eapply F2_impl; [|exact H]. intros t P HR Hb. apply inv_bound; [exact Hb|apply HR; exact Hb].
Qed.

(* "consequently a lookup never needs more than that many comparisons plus one":
   comparisons <= (log_{2000/(1000+b)} P + 1) + 1, without real numbers *)
Theorem history_lookup (ops : list (op T)) :
  Forall2 (fun t P => 0 <= beta t < 1000 -> forall k,
             let c := snd (get_count cmp k (root t)) in
             c <= 2 \/ 2000 ^ (c - 2) <= P * (1000 + beta t) ^ (c - 2))
          (fst (run_with_peak cmp limit ops)) (snd (run_with_peak cmp limit ops)).
Proof.
  pose proof (history_bound ops) as H.
  eapply F2_impl; [|exact H]. intros t P HB Hb k. cbn zeta.
  destruct (HB Hb) as [_ [_ Hh]].
  pose proof (get_count_cost cmp k (root t)) as Hc.
  destruct (Z_le_gt_dec (snd (get_count cmp k (root t))) 2) as [Hle|Hgt]; [left; exact Hle|right].
  destruct Hh as [Hh|Hh]; [lia|].
  apply (Pk_down (beta t) P _ (height (root t) - 1)); [lia|lia|exact Hh].
Qed.

End Ops.
End Proofs.

Arguments history_bound {T} cmp limit _ _ ops.
Arguments history_lookup {T} cmp limit _ _ ops.
