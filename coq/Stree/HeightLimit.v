(* C02: the exact depth limit [limit_exact] (HeightModel.v) satisfies the two facts the height
   proof needs of a depth-limit function:
     H1  floor(log2 n) <= limit b n
     H2  2000^(limit b n) <= n * (1000+b)^(limit b n)
   plus: the search never runs out of fuel, the value is pinned by a two-sided certificate
   ([limit_exact_unique], used by the driver's sweep), it is monotone in n, and
   [limit_capped b n = min (limit_exact b n) n] also satisfies H1 and H2. *)
From Coq Require Import ZArith List Bool Lia.
From Mds Require Import Gen.StreeConst Gen.StreeNode Stree.StreeModel Stree.HeightModel.
Local Open Scope Z_scope.

Definition Pk (b n k : Z) : Prop := 2000 ^ k <= n * (1000 + b) ^ k.

Lemma lim_ok_iff b n k : lim_ok b n k = true <-> Pk b n k.
Proof.
  unfold lim_ok, Pk, lim_num. change fracLimit with 2000. change maxBalance with 1000.
  rewrite Z.leb_le. replace (b + 1000) with (1000 + b) by lia. reflexivity.
Qed.

(* ---- the predicate is downward closed in k and upward closed in n *)

Lemma Pk_down b n j k : 0 <= b <= 1000 -> 0 <= j <= k -> Pk b n k -> Pk b n j.
Proof.
  unfold Pk. intros Hb Hj H.
  set (c := 1000 + b) in *. assert (Hc : 0 < c <= 2000) by (subst c; lia).
  replace k with (j + (k - j)) in H by lia.
  rewrite !Z.pow_add_r in H by lia.
  assert (Hd : 0 < c ^ (k - j)) by (apply Z.pow_pos_nonneg; lia).
  assert (Hle : c ^ (k - j) <= 2000 ^ (k - j)) by (apply Z.pow_le_mono_l; lia).
  assert (H0 : 0 <= 2000 ^ j) by (apply Z.pow_nonneg; lia).
  apply (Z.mul_le_mono_pos_r _ _ (c ^ (k - j))); [exact Hd|].
  rewrite <- Z.mul_assoc.
  eapply Z.le_trans; [|exact H].
  apply Z.mul_le_mono_nonneg_l; assumption.
Qed.

Lemma Pk_mono_n b n n' k : 0 <= b -> n <= n' -> Pk b n k -> Pk b n' k.
Proof.
  unfold Pk. intros Hb Hn H.
  assert (0 <= (1000 + b) ^ k) by (apply Z.pow_nonneg; lia).
  eapply Z.le_trans; [exact H|]. apply Z.mul_le_mono_nonneg_r; assumption.
Qed.

Lemma Pk_0 b n : 1 <= n -> Pk b n 0.
Proof. unfold Pk. rewrite !Z.pow_0_r. lia. Qed.

(* 2^j <= n gives P(j, n): the ratio 2000/(1000+b) is at most 2 *)
Lemma Pk_log2 b n : 0 <= b -> 1 <= n -> Pk b n (Z.log2 n).
Proof.
  unfold Pk. intros Hb Hn.
  pose proof (Z.log2_nonneg n) as Hl.
  destruct (Z.log2_spec n ltac:(lia)) as [H2 _].
  replace 2000 with (2 * 1000) by reflexivity.
  rewrite Z.pow_mul_l.
  assert (0 <= 1000 ^ Z.log2 n) by (apply Z.pow_nonneg; lia).
  assert (1000 ^ Z.log2 n <= (1000 + b) ^ Z.log2 n) by (apply Z.pow_le_mono_l; lia).
  assert (0 <= 2 ^ Z.log2 n) by (apply Z.pow_nonneg; lia).
  nia.
Qed.

(* ---- the predicate fails for large k: (2000/1999)^2000 >= 2 *)

Lemma bernoulli c k : 0 <= c -> 0 <= k -> c ^ k * (c + k) <= c * (c + 1) ^ k.
Proof.
  intros Hc Hk. pattern k. apply natlike_ind; [| |exact Hk].
  - rewrite !Z.pow_0_r. lia.
  - intros x Hx IH. rewrite !Z.pow_succ_r by lia.
    assert (0 <= c ^ x) by (apply Z.pow_nonneg; lia).
    assert (0 <= (c + 1) ^ x) by (apply Z.pow_nonneg; lia).
    nia.
Qed.

(* stated with e = d + 1 as a hypothesis so that no closed power of two large constants ever has
   to be evaluated (lia would try to) *)
Lemma ratio2 d e k : e = d + 1 -> 0 <= d -> d < k -> 2 * d ^ k <= e ^ k.
Proof.
  intros -> Hd Hk.
  pose proof (bernoulli d k Hd ltac:(lia)) as B.
  assert (H0 : 0 <= d ^ k) by (apply Z.pow_nonneg; lia).
  assert (H1 : 0 <= (d + 1) ^ k) by (apply Z.pow_nonneg; lia).
  destruct (Z.eq_dec d 0) as [->|Hd0].
  - rewrite Z.pow_0_l by lia. lia.
  - remember (d ^ k) as X eqn:EX. remember ((d + 1) ^ k) as Y eqn:EY. clear EX EY. nia.
Qed.

Lemma two_pow_2000 c : 0 <= c <= 1999 -> 2 * c ^ 2000 <= 2000 ^ 2000.
Proof.
  intros Hc.
  apply Z.le_trans with (2 * 1999 ^ 2000).
  - apply Z.mul_le_mono_nonneg_l; [lia|]. apply Z.pow_le_mono_l. exact Hc.
  - apply (ratio2 1999 2000 2000 eq_refl); [discriminate|reflexivity].
Qed.

Lemma Pk_fails b n k : 0 <= b < 1000 -> 1 <= n -> 2000 * (Z.log2 n + 1) <= k -> ~ Pk b n k.
Proof.
  intros Hb Hn Hk HP.
  pose proof (Z.log2_nonneg n) as Hl.
  set (m := Z.log2 n + 1) in *.
  apply (Pk_down b n (2000 * m) k) in HP; [|lia|lia].
  unfold Pk in HP. set (c := 1000 + b) in *.
  assert (Hm : n < 2 ^ m) by (subst m; apply Z.log2_spec; lia).
  assert (Hc19 : 0 <= c <= 1999) by (subst c; lia).
  assert (Hm0 : 0 <= m) by lia.
  assert (Hc0 : 0 < c ^ 2000) by (apply Z.pow_pos_nonneg; [lia|discriminate]).
  rewrite (Z.pow_mul_r 2000 2000 m) in HP by (first [exact Hm0|discriminate]).
  rewrite (Z.pow_mul_r c 2000 m) in HP by (first [exact Hm0|discriminate]).
  pose proof (two_pow_2000 c Hc19) as T.
  remember (c ^ 2000) as X eqn:EX. remember (2000 ^ 2000) as Y eqn:EY. clear EX EY.
  assert (H2 : (2 * X) ^ m <= Y ^ m) by (apply Z.pow_le_mono_l; lia).
  rewrite Z.pow_mul_l in H2.
  assert (Hc : 0 < X ^ m) by (apply Z.pow_pos_nonneg; lia).
  nia.
Qed.

(* ---- the search *)

Lemma lim_search_spec b n : 0 <= b <= 1000 -> forall fuel k a c,
  0 <= k -> a = 2000 ^ k -> c = (1000 + b) ^ k -> Pk b n k ->
  match lim_search fuel b n k a c with
  | (k', true) => k <= k' < k + Z.of_nat fuel /\ Pk b n k' /\ ~ Pk b n (k' + 1)
  | (k', false) => k' = k + Z.of_nat fuel /\ Pk b n k'
  end.
Proof.
  intros Hb. induction fuel as [|fuel IH]; intros k a c Hk Ha Hc HP.
  - cbn [lim_search]. split; [lia|exact HP].
  - cbn [lim_search]. unfold lim_num. change fracLimit with 2000. change maxBalance with 1000.
    replace (b + 1000) with (1000 + b) by lia.
    assert (Ha' : 2000 * a = 2000 ^ (k + 1)) by (rewrite Z.pow_add_r, Z.pow_1_r by lia; lia).
    assert (Hc' : (1000 + b) * c = (1000 + b) ^ (k + 1)) by (rewrite Z.pow_add_r, Z.pow_1_r by lia; lia).
    destruct (2000 * a <=? n * ((1000 + b) * c)) eqn:E.
    + apply Z.leb_le in E. rewrite Ha', Hc' in E.
      specialize (IH (k + 1) (2000 * a) ((1000 + b) * c) ltac:(lia) Ha' Hc' E).
      destruct (lim_search fuel b n (k + 1) (2000 * a) ((1000 + b) * c)) as [k' [|]].
      * destruct IH as [H1 H2]. split; [lia|exact H2].
      * destruct IH as [H1 H2]. split; [lia|exact H2].
    + apply Z.leb_gt in E. rewrite Ha', Hc' in E.
      split; [lia|]. split; [exact HP|]. unfold Pk. lia.
Qed.

Lemma lim_degenerate_false b : 0 <= b < 1000 -> lim_degenerate b = false.
Proof.
  intros Hb. unfold lim_degenerate, lim_num. change fracLimit with 2000. change maxBalance with 1000.
  apply Z.eqb_neq. lia.
Qed.

(* the fuel is enough, and the result is the largest k with P(k, n) *)
Theorem limit_exact_spec b n : 0 <= b < 1000 -> 1 <= n ->
  0 <= limit_exact b n /\ Pk b n (limit_exact b n) /\ ~ Pk b n (limit_exact b n + 1).
Proof.
  intros Hb Hn. unfold limit_exact. rewrite lim_degenerate_false by exact Hb.
  pose proof (lim_search_spec b n ltac:(lia) (lim_fuel n) 0 1 1 ltac:(lia) eq_refl eq_refl (Pk_0 b n Hn)) as S.
  destruct (lim_search (lim_fuel n) b n 0 1 1) as [k [|]].
  - destruct S as [H1 [H2 H3]]. split; [lia|]. split; assumption.
  - exfalso. destruct S as [H1 H2]. apply (Pk_fails b n k Hb Hn); [|exact H2].
    pose proof (Z.log2_nonneg n). subst k. unfold lim_fuel. change fracLimit with 2000.
    rewrite Nat2Z.inj_succ, Z2Nat.id by lia. lia.
Qed.

Theorem limit_exact_unique b n k : 0 <= b < 1000 -> 1 <= n ->
  0 <= k -> Pk b n k -> ~ Pk b n (k + 1) -> limit_exact b n = k.
Proof.
  intros Hb Hn Hk HP HN.
  destruct (limit_exact_spec b n Hb Hn) as [H0 [H1 H2]].
  destruct (Z.lt_trichotomy (limit_exact b n) k) as [L|[E|G]]; [|exact E|].
  - exfalso. apply H2. apply (Pk_down b n _ k); [lia|lia|exact HP].
  - exfalso. apply HN. apply (Pk_down b n _ (limit_exact b n)); [lia|lia|exact H1].
Qed.

Lemma limit_exact_max b n k : 0 <= b < 1000 -> 1 <= n -> 0 <= k -> Pk b n k -> k <= limit_exact b n.
Proof.
  intros Hb Hn Hk HP.
  destruct (limit_exact_spec b n Hb Hn) as [H0 [H1 H2]].
  destruct (Z_le_gt_dec k (limit_exact b n)) as [L|G]; [exact L|].
  exfalso. apply H2. apply (Pk_down b n _ k); [lia|lia|exact HP].
Qed.

Theorem limit_exact_mono b n n' : 0 <= b < 1000 -> 1 <= n <= n' ->
  limit_exact b n <= limit_exact b n'.
Proof.
  intros Hb Hn.
  destruct (limit_exact_spec b n Hb ltac:(lia)) as [H0 [H1 _]].
  apply limit_exact_max; [exact Hb|lia|exact H0|].
  apply (Pk_mono_n b n n'); [lia|lia|exact H1].
Qed.

(* the certificate the sweep checks *)
Theorem lim_is_sound b n k : 0 <= b < 1000 -> 1 <= n -> lim_is b n k = true -> limit_exact b n = k.
Proof.
  intros Hb Hn H. unfold lim_is in H.
  apply andb_true_iff in H. destruct H as [H H3]. apply andb_true_iff in H. destruct H as [H1 H2].
  apply Z.leb_le in H1. apply lim_ok_iff in H2.
  apply limit_exact_unique; try assumption.
  intro HP. apply lim_ok_iff in HP. rewrite HP in H3. discriminate.
Qed.

(* a certificate at the two ends of a segment of sizes pins the whole segment *)
Theorem lim_segment_sound b lo hi k n : 0 <= b < 1000 -> 1 <= lo -> lo <= n <= hi -> 0 <= k ->
  Pk b lo k -> ~ Pk b hi (k + 1) -> limit_exact b n = k.
Proof.
  intros Hb Hlo Hn Hk HP HN.
  apply limit_exact_unique; [exact Hb|lia|exact Hk| |].
  - apply (Pk_mono_n b lo n); [lia|lia|exact HP].
  - intro H. apply HN. apply (Pk_mono_n b n hi); [lia|lia|exact H].
Qed.

(* ---- H1 and H2 *)

Theorem limit_exact_H1 : limit_H1 limit_exact.
Proof.
  intros b n Hb Hn. apply limit_exact_max; [exact Hb|exact Hn|apply Z.log2_nonneg|].
  apply Pk_log2; lia.
Qed.

Theorem limit_exact_H2 : limit_H2 limit_exact.
Proof.
  intros b n Hb Hn. exact (proj1 (proj2 (limit_exact_spec b n Hb Hn))).
Qed.

(* ---- the capped search *)

Theorem limit_capped_spec b n : 0 <= b < 1000 -> 1 <= n ->
  limit_capped b n = Z.min (limit_exact b n) n.
Proof.
  intros Hb Hn. unfold limit_capped. rewrite lim_degenerate_false by exact Hb.
  pose proof (lim_search_spec b n ltac:(lia) (Z.to_nat n) 0 1 1 ltac:(lia) eq_refl eq_refl (Pk_0 b n Hn)) as S.
  rewrite Z2Nat.id in S by lia.
  destruct (lim_search (Z.to_nat n) b n 0 1 1) as [k [|]]; cbn [fst].
  - destruct S as [H1 [H2 H3]].
    rewrite (limit_exact_unique b n k Hb Hn ltac:(lia) H2 H3). lia.
  - destruct S as [H1 H2].
    pose proof (limit_exact_max b n k Hb Hn ltac:(lia) H2). lia.
Qed.

Theorem limit_capped_H1 : limit_H1 limit_capped.
Proof.
  intros b n Hb Hn. rewrite limit_capped_spec by assumption.
  pose proof (limit_exact_H1 b n Hb Hn). pose proof (Z.log2_lt_lin n ltac:(lia)). lia.
Qed.

Theorem limit_capped_H2 : limit_H2 limit_capped.
Proof.
  intros b n Hb Hn. rewrite limit_capped_spec by assumption.
  destruct (limit_exact_spec b n Hb Hn) as [H0 [H1 _]].
  apply (Pk_down b n _ (limit_exact b n)); [lia|lia|exact H1].
Qed.
