(* C02 (a): rewrite (treeToVine then vineToTree, the Day-Stout-Warren rebuild) of a tree with
   n nodes, called with its true size, succeeds (no panic, no fuel exhaustion), keeps the keys in
   order and returns a tree of height at most floor(log2 n). *)
From Coq Require Import ZArith List Bool Lia Arith PeanoNat.
Import ListNotations.
From Mds Require Import Gen.StreeConst Gen.StreeNode Stree.StreeModel Stree.HeightModel
  Stree.HeightBasics Stree.HeightDsw.

Section Rewrite.
Variable T : Type.
Notation tree := (tree T).

(* ---- levels (nat) versus height (Z, Leaf = -1) *)

Fixpoint levels (t : tree) : nat :=
  match t with
  | Leaf => 0
  | Node l _ r => S (Nat.max (levels l) (levels r))
  end.

Lemma height_levels (t : tree) : height t = (Z.of_nat (levels t) - 1)%Z.
Proof. induction t as [|l IHl x r IHr]; cbn [height levels]; lia. Qed.

Lemma size_inorder (t : tree) : size t = Z.of_nat (length (inorder t)).
Proof.
  induction t as [|l IHl x r IHr]; [reflexivity|].
  rewrite size_node. cbn [inorder]. rewrite app_length. cbn [length]. lia.
Qed.

Lemma count_inorder (t : tree) : count t = length (inorder t).
Proof.
  induction t as [|l IHl x r IHr]; [reflexivity|].
  cbn [count inorder]. rewrite app_length. cbn [length]. lia.
Qed.

(* ---- right spines *)

Definition entry : Type := (tree * T)%type.
Definition ejoin (a b : entry) : entry := (Node (fst a) (snd a) (fst b), snd b).
Definition elv (a : entry) : nat := levels (fst a).
Definition einorder (e : entry) : list T := inorder (fst e) ++ [snd e].
Definition leaf_entry (x : T) : entry := (Leaf, x).

Lemma elv_join a b : elv (ejoin a b) = 1 + Nat.max (elv a) (elv b).
Proof. reflexivity. Qed.

Definition of_spine (sp : list entry) : tree :=
  fold_right (fun e t => Node (fst e) (snd e) t) Leaf sp.

Lemma levels_of_spine sp : levels (of_spine sp) = H entry elv sp.
Proof. induction sp as [|e sp IH]; [reflexivity|]. cbn [of_spine fold_right levels H]. fold (of_spine sp). rewrite IH. reflexivity. Qed.

Lemma inorder_of_spine sp : inorder (of_spine sp) = flat_map einorder sp.
Proof.
  induction sp as [|e sp IH]; [reflexivity|].
  cbn [of_spine fold_right inorder flat_map]. fold (of_spine sp). rewrite IH.
  unfold einorder. rewrite <- app_assoc. reflexivity.
Qed.

Lemma flat_compress k : forall sp, flat_map einorder (compress entry ejoin k sp) = flat_map einorder sp.
Proof.
  induction k as [|k IH]; intros sp; [rewrite compress_0; reflexivity|].
  destruct sp as [|a [|b sp]]; try reflexivity.
  cbn [compress flat_map]. rewrite IH. unfold einorder, ejoin. cbn [fst snd inorder].
  rewrite <- !app_assoc. reflexivity.
Qed.

(* ---- rotateLeft is one compress pass *)

Lemma rotate_left_n_spine k : forall sp, 2 * k <= length sp ->
  rotate_left_n k (of_spine sp) = Ok (of_spine (compress entry ejoin k sp)).
Proof.
  induction k as [|k IH]; intros sp Hl.
  - rewrite compress_0. reflexivity.
  - destruct sp as [|a [|b sp]]; cbn [length] in Hl; try lia.
    cbn [of_spine fold_right rotate_left_n]. fold (of_spine sp).
    rewrite IH by lia. reflexivity.
Qed.

Lemma rotate_left_spine (k : nat) sp : 2 * k <= length sp ->
  rotate_left (of_spine sp) (Z.of_nat k) = Ok (of_spine (compress entry ejoin k sp)).
Proof.
  intros Hl. unfold rotate_left, rot_count. rewrite Nat2Z.id. apply rotate_left_n_spine. exact Hl.
Qed.

(* ---- treeToVine *)

Fixpoint mu (t : tree) : nat :=
  match t with
  | Leaf => 0
  | Node l _ r => 1 + 2 * count l + mu r
  end.

Lemma mu_le t : mu t <= 2 * count t.
Proof. induction t as [|l IHl x r IHr]; cbn [mu count]; lia. Qed.

Lemma t2v_loop_spec : forall fuel rest acc, mu rest <= fuel ->
  t2v_loop fuel acc rest = Ok (vine_of (rev (inorder rest) ++ acc) Leaf).
Proof.
  induction fuel as [|fuel IH]; intros rest acc Hf.
  - destruct rest; [reflexivity|cbn [mu] in Hf; lia].
  - destruct rest as [|cl cx cr]; [reflexivity|].
    cbn [t2v_loop]. destruct cl as [|ll lx lr].
    + rewrite IH by (cbn [mu count] in Hf; lia).
      cbn [inorder app]. cbn [rev]. rewrite <- app_assoc. reflexivity.
    + rewrite IH.
      * cbn [inorder]. rewrite <- app_assoc. reflexivity.
      * cbn [mu count] in *. lia.
Qed.

Lemma vine_of_rev : forall (l : list T) (rest : tree),
  vine_of (rev l) rest = fold_right (fun (x : T) (t : tree) => Node Leaf x t) rest l.
Proof.
  induction l as [|x l IH]; intros rest; [reflexivity|].
  cbn [rev]. unfold vine_of in *. rewrite fold_left_app. cbn [fold_left fold_right]. rewrite IH. reflexivity.
Qed.

Lemma tree_to_vine_spec t :
  tree_to_vine t = Ok (of_spine (map leaf_entry (inorder t))).
Proof.
  unfold tree_to_vine. rewrite t2v_loop_spec.
  - rewrite app_nil_r, vine_of_rev. f_equal.
    induction (inorder t) as [|x l IH]; [reflexivity|]. cbn [map of_spine fold_right]. rewrite IH. reflexivity.
  - unfold t2v_fuel. pose proof (mu_le t). lia.
Qed.

(* ---- vineToTree: the step loop *)

Local Open Scope Z_scope.

Lemma pow2_pos (r : nat) : 1 <= 2 ^ Z.of_nat r.
Proof. assert (0 < 2 ^ Z.of_nat r) by (apply Z.pow_pos_nonneg; lia). lia. Qed.

Lemma step_loop_spec cnt : 0 <= cnt -> forall fuel (r : nat) step,
  step = 2 ^ (Z.of_nat r + 1) - 1 -> 2 ^ Z.of_nat r - 1 <= cnt ->
  (Z.to_nat (cnt - step + 1) <= fuel)%nat ->
  exists r' : nat, v2t_step_loop fuel step cnt = Ok (2 ^ (Z.of_nat r' + 1) - 1) /\
                   2 ^ Z.of_nat r' - 1 <= cnt < 2 ^ (Z.of_nat r' + 1) - 1.
Proof.
  intros Hc. induction fuel as [|fuel IH]; intros r step Hs Hr Hf.
  - cbn [v2t_step_loop]. unfold v2t_step_more.
    destruct (step <=? cnt) eqn:E.
    + apply Z.leb_le in E. lia.
    + apply Z.leb_gt in E. exists r. subst step. split; [reflexivity|lia].
  - cbn [v2t_step_loop]. unfold v2t_step_more.
    destruct (step <=? cnt) eqn:E.
    + apply Z.leb_le in E.
      pose proof (pow2_pos r) as Hp.
      assert (Hpw : 2 ^ (Z.of_nat r + 1) = 2 * 2 ^ Z.of_nat r) by (rewrite Z.pow_add_r, Z.pow_1_r by lia; lia).
      apply (IH (S r)).
      * unfold v2t_step_next. subst step. rewrite Nat2Z.inj_succ.
        replace (Z.succ (Z.of_nat r) + 1) with ((Z.of_nat r + 1) + 1) by lia.
        rewrite (Z.pow_add_r 2 (Z.of_nat r + 1) 1), Z.pow_1_r by lia. lia.
      * rewrite Nat2Z.inj_succ. replace (Z.succ (Z.of_nat r)) with (Z.of_nat r + 1) by lia. lia.
      * unfold v2t_step_next. lia.
    + apply Z.leb_gt in E. exists r. subst step. split; [reflexivity|lia].
Qed.

Lemma step_final (r : nat) : v2t_step_final (2 ^ (Z.of_nat r + 1) - 1) = 2 ^ Z.of_nat r - 1.
Proof.
  unfold v2t_step_final. pose proof (pow2_pos r).
  rewrite Z.pow_add_r, Z.pow_1_r by lia.
  rewrite Z.quot_div_nonneg by lia.
  symmetry. apply (Z.div_unique _ _ _ 1); lia.
Qed.

Lemma pow2_nat (r : nat) : Z.of_nat (2 ^ r) = 2 ^ Z.of_nat r.
Proof. rewrite Nat2Z.inj_pow. reflexivity. Qed.

(* ---- vineToTree: the packing loop (the DSW invariant) *)

Lemma pack_spec (d : nat) : forall (r fuel j : nat) (front tail : list entry),
  (1 <= r)%nat -> (r <= fuel)%nat ->
  length front = (2 ^ r - 1)%nat ->
  Forall (fun x => (elv x <= j + d)%nat) front ->
  TailOK entry elv d j tail ->
  exists t', v2t_pack_loop fuel (2 ^ Z.of_nat r - 1) (of_spine (front ++ tail)) = Ok t' /\
             (levels t' <= r + j + d)%nat /\
             inorder t' = inorder (of_spine (front ++ tail)).
Proof.
  induction r as [|r IH]; intros fuel j front tail Hr Hf Hlen Hfr Ht; [lia|].
  destruct fuel as [|fuel]; [lia|].
  cbn [v2t_pack_loop]. unfold v2t_left_more.
  destruct (Nat.eq_dec r 0) as [->|Hr0].
  - (* left = 1: the loop ends *)
    change (2 ^ Z.of_nat 1 - 1) with 1. change (1 >? 1) with false. cbv iota.
    eexists. split; [reflexivity|]. split; [|reflexivity].
    rewrite levels_of_spine.
    pose proof (pass_end entry elv d j front tail Hlen Hfr Ht). lia.
  - pose proof (pow2_pos r) as Hp.
    assert (Hp2 : 2 <= 2 ^ Z.of_nat r).
    { replace (Z.of_nat r) with (1 + (Z.of_nat r - 1)) by lia.
      rewrite Z.pow_add_r, Z.pow_1_r by lia.
      assert (0 < 2 ^ (Z.of_nat r - 1)) by (apply Z.pow_pos_nonneg; lia). lia. }
    assert (Hpw : 2 ^ Z.of_nat (S r) = 2 * 2 ^ Z.of_nat r).
    { rewrite Nat2Z.inj_succ, Z.pow_succ_r by lia. reflexivity. }
    destruct (2 ^ Z.of_nat (S r) - 1 >? 1) eqn:E.
    2:{ rewrite Z.gtb_ltb in E. apply Z.ltb_ge in E. lia. }
    set (m := (2 ^ r - 1)%nat).
    assert (Hm : Z.of_nat m = 2 ^ Z.of_nat r - 1).
    { subst m. rewrite Nat2Z.inj_sub, pow2_nat; [reflexivity|].
      apply Nat.neq_0_lt_0, Nat.pow_nonzero. lia. }
    assert (Hnext : v2t_left_next (2 ^ Z.of_nat (S r) - 1) = Z.of_nat m).
    { unfold v2t_left_next. rewrite Z.quot_div_nonneg by lia. rewrite Hm.
      symmetry. apply (Z.div_unique _ _ _ 1); lia. }
    rewrite Hnext. unfold v2t_loop_count.
    assert (Hlen' : length front = (2 * m + 1)%nat).
    { rewrite Hlen. subst m. cbn [Nat.pow].
      assert (1 <= 2 ^ r)%nat by (apply Nat.neq_0_lt_0, Nat.pow_nonzero; lia). lia. }
    rewrite rotate_left_spine by (rewrite app_length; lia).
    cbn [bind].
    destruct (pass_step entry ejoin elv elv_join d m j front tail Hlen' Hfr Ht)
      as [front' [tail' [Ec [Hl' [Hf' Ht']]]]].
    rewrite Ec.
    destruct (IH fuel (S j) front' tail' ltac:(lia) ltac:(lia) Hl' Hf' Ht') as [t' [E1 [E2 E3]]].
    rewrite Hm, E1.
    exists t'. split; [reflexivity|]. split; [lia|].
    rewrite E3, <- Ec, !inorder_of_spine, flat_compress. reflexivity.
Qed.

(* ---- vineToTree and rewrite *)

Lemma log2_pow2_m1 (r : nat) : (1 <= r)%nat -> Z.log2 (2 ^ Z.of_nat r - 1) = Z.of_nat r - 1.
Proof.
  intros Hr. set (q := Z.of_nat r - 1). assert (Hq : 0 <= q) by (subst q; lia).
  replace (Z.of_nat r) with (q + 1) by (subst q; lia). clearbody q.
  assert (Hp : 0 < 2 ^ q) by (apply Z.pow_pos_nonneg; lia).
  assert (Hpw : 2 ^ (q + 1) = 2 * 2 ^ q) by (rewrite Z.pow_add_r, Z.pow_1_r by lia; lia).
  apply Z.log2_unique; [exact Hq|].
  replace (Z.succ q) with (q + 1) by lia. lia.
Qed.

Lemma vine_to_tree_spec (l : list T) :
  exists t', vine_to_tree (of_spine (map leaf_entry l)) (Z.of_nat (length l)) = Ok t' /\
             inorder t' = l /\ height t' <= lg (Z.of_nat (length l)).
Proof.
  destruct l as [|x0 l0].
  { exists Leaf. split; [reflexivity|]. split; [reflexivity|]. cbn. lia. }
  set (l := x0 :: l0). set (cnt := Z.of_nat (length l)).
  assert (Hcnt : 1 <= cnt) by (subst cnt l; cbn [length]; lia).
  unfold vine_to_tree.
  destruct (step_loop_spec cnt ltac:(lia) (v2t_fuel cnt) 0%nat v2t_step0) as [r [Es Hr]].
  { reflexivity. } { cbn. lia. } { unfold v2t_fuel, v2t_step0. lia. }
  rewrite Es. cbn [bind]. rewrite step_final.
  assert (Hr1 : (1 <= r)%nat).
  { destruct r; [|lia]. cbn in Hr. lia. }
  pose proof (pow2_pos r) as Hp.
  assert (Hpw : 2 ^ (Z.of_nat r + 1) = 2 * 2 ^ Z.of_nat r) by (rewrite Z.pow_add_r, Z.pow_1_r by lia; lia).
  set (m := (2 ^ r - 1)%nat).
  assert (Hm : Z.of_nat m = 2 ^ Z.of_nat r - 1).
  { subst m. rewrite Nat2Z.inj_sub, pow2_nat; [reflexivity|].
    apply Nat.neq_0_lt_0, Nat.pow_nonzero. lia. }
  unfold v2t_first_count, v2t_left0.
  set (k1 := (length l - m)%nat).
  assert (Hk1 : cnt - (2 ^ Z.of_nat r - 1) = Z.of_nat k1) by (subst k1 cnt; lia).
  rewrite Hk1.
  set (sp := map leaf_entry l).
  assert (Hsp : length sp = length l) by (subst sp; apply map_length).
  rewrite rotate_left_spine by (rewrite Hsp; subst k1 cnt; lia).
  cbn [bind].
  set (sp1 := compress entry ejoin k1 sp).
  assert (Hl1 : length sp1 = (2 ^ r - 1)%nat).
  { subst sp1. rewrite compress_length by (rewrite Hsp; subst k1 cnt; lia). rewrite Hsp. subst k1 cnt m. lia. }
  assert (H0 : Forall (fun x => (elv x <= 0)%nat) sp).
  { subst sp. apply Forall_forall. intros e He. apply in_map_iff in He. destruct He as [x [<- _]]. cbn. lia. }
  set (d := if Nat.eq_dec k1 0 then 0%nat else 1%nat).
  assert (Hfr : Forall (fun x => (elv x <= 0 + d)%nat) sp1).
  { subst sp1 d. destruct (Nat.eq_dec k1 0) as [->|Hk].
    - rewrite compress_0. exact H0.
    - apply (compress_bound_any entry ejoin elv elv_join). exact H0. }
  destruct (pack_spec d r (v2t_fuel (2 ^ Z.of_nat r - 1)) 0%nat sp1 [] Hr1) as [t' [E1 [E2 E3]]].
  { unfold v2t_fuel. rewrite <- Hm, Nat2Z.id. subst m.
    assert (r < 2 ^ r)%nat by (apply Nat.pow_gt_lin_r; lia). lia. }
  { exact Hl1. } { exact Hfr. } { constructor. }
  rewrite app_nil_r in E1, E3. rewrite E1.
  exists t'. split; [reflexivity|]. split.
  - rewrite E3. subst sp1. rewrite inorder_of_spine, flat_compress. subst sp.
    clear. induction l as [|x l IH]; [reflexivity|]. cbn [map flat_map]. rewrite IH. reflexivity.
  - rewrite height_levels, lg_pos by exact Hcnt. fold cnt.
    subst d. destruct (Nat.eq_dec k1 0) as [Hk|Hk].
    + (* cnt = 2^r - 1 *)
      assert (cnt = 2 ^ Z.of_nat r - 1) by lia.
      replace cnt with (2 ^ Z.of_nat r - 1) by lia. rewrite log2_pow2_m1 by exact Hr1. lia.
    + assert (Hlog : Z.log2 cnt = Z.of_nat r).
      { apply Z.log2_unique; [lia|]. replace (Z.succ (Z.of_nat r)) with (Z.of_nat r + 1) by lia. lia. }
      rewrite Hlog. lia.
Qed.

Theorem rewrite_spec (t : tree) :
  exists t', rewrite t (size t) = Ok t' /\ inorder t' = inorder t /\ height t' <= lg (size t).
Proof.
  unfold rewrite, rewrite_count. rewrite tree_to_vine_spec. cbn [bind].
  rewrite size_inorder. apply vine_to_tree_spec.
Qed.

Corollary rewrite_size (t t' : tree) : rewrite t (size t) = Ok t' ->
  size t' = size t /\ height t' <= lg (size t).
Proof.
  intros E. destruct (rewrite_spec t) as [t'' [E' [I Hh]]]. rewrite E in E'. inversion E'; subst t''.
  split; [|exact Hh]. rewrite !size_inorder, I. reflexivity.
Qed.

(* every tree has at least lg(size) as height: the rebuilt height is the minimum *)
Lemma size_lt_pow (t : tree) : size t < 2 ^ (height t + 1).
Proof.
  induction t as [|l IHl x r IHr]; [cbn; lia|].
  rewrite size_node. cbn [height].
  pose proof (height_ge_m1 T l). pose proof (height_ge_m1 T r).
  replace (1 + Z.max (height l) (height r) + 1) with (1 + (Z.max (height l) (height r) + 1)) by lia.
  rewrite Z.pow_add_r, Z.pow_1_r by lia.
  assert (2 ^ (height l + 1) <= 2 ^ (Z.max (height l) (height r) + 1)) by (apply Z.pow_le_mono_r; lia).
  assert (2 ^ (height r + 1) <= 2 ^ (Z.max (height l) (height r) + 1)) by (apply Z.pow_le_mono_r; lia).
  lia.
Qed.

Lemma lg_size_le_height (t : tree) : lg (size t) <= height t.
Proof.
  destruct t as [|l x r]; [cbn; lia|].
  pose proof (size_lt_pow (Node l x r)) as H.
  pose proof (size_nonneg T l). pose proof (size_nonneg T r).
  rewrite lg_pos by (rewrite size_node; lia).
  assert (Z.log2 (size (Node l x r)) < height (Node l x r) + 1).
  { apply Z.log2_lt_pow2; [rewrite size_node; lia|exact H]. }
  lia.
Qed.

Theorem rewrite_balanced (t : tree) : t <> Leaf ->
  exists t', rewrite t (size t) = Ok t' /\ inorder t' = inorder t /\ height t' = Z.log2 (size t).
Proof.
  intros Hne. destruct (rewrite_spec t) as [t' [E [I Hh]]].
  exists t'. split; [exact E|]. split; [exact I|].
  assert (Hs : size t' = size t) by (rewrite !size_inorder, I; reflexivity).
  pose proof (lg_size_le_height t') as Hl. rewrite Hs in Hl.
  assert (1 <= size t).
  { destruct t; [congruence|]. rewrite size_node. pose proof (size_nonneg T t1). pose proof (size_nonneg T t2). lia. }
  rewrite lg_pos in * by assumption. lia.
Qed.

End Rewrite.

Arguments rewrite_spec {T} t.
Arguments rewrite_size {T} t t'.
Arguments rewrite_balanced {T} t.
Arguments lg_size_le_height {T} t.
