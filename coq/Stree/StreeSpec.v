(* The reference for C01: a sorted set is a strictly ascending list, one representative per
   comparator-equivalence class.  Nothing here mentions trees, balance factors' effects, depth
   limits or rebuilding.  The op/out vocabulary is the one of StreeModel (so that histories can be
   compared output for output); everything else is defined here from scratch. *)
From Coq Require Import ZArith List Bool.
Import ListNotations.
From Mds Require Import Stree.StreeModel.
Local Open Scope Z_scope.

(* What "comparison function" means: cmp a b and cmp b a have opposite signs, and <= is
   transitive.  (Reflexivity, totality and transitivity of < and of equivalence follow.) *)
Record total_preorder {T : Type} (cmp : T -> T -> Z) : Prop := {
  cmp_flip : forall a b, Z.sgn (cmp b a) = - Z.sgn (cmp a b);
  cmp_trans : forall a b c, cmp a b <= 0 -> cmp b c <= 0 -> cmp a c <= 0
}.

Section Spec.
Variable T : Type.
Variable cmp : T -> T -> Z.

(* strictly ascending *)
Fixpoint sorted (l : list T) : Prop :=
  match l with
  | [] => True
  | x :: r => (forall y, In y r -> cmp x y < 0) /\ sorted r
  end.

(* Add (replace = false) / Replace (replace = true): (new set, "a new class was added") *)
Fixpoint s_insert (replace : bool) (k : T) (l : list T) : list T * bool :=
  match l with
  | [] => ([k], true)
  | x :: r =>
    if cmp k x <? 0 then (k :: l, true)
    else if cmp k x =? 0 then ((if replace then k else x) :: r, false)
    else let '(r', b) := s_insert replace k r in (x :: r', b)
  end.

(* Remove: (new set, "the class was present") *)
Fixpoint s_remove (k : T) (l : list T) : list T * bool :=
  match l with
  | [] => ([], false)
  | x :: r =>
    if cmp k x <? 0 then (l, false)
    else if cmp k x =? 0 then (r, true)
    else let '(r', b) := s_remove k r in (x :: r', b)
  end.

(* Get: the stored representative equivalent to k *)
Definition s_get (k : T) (l : list T) : option T := find (fun x => cmp k x =? 0) l.

Definition s_min (l : list T) : option T := hd_error l.
Definition s_max (l : list T) : option T := hd_error (rev l).

(* InorderAfter k: the elements not less than k *)
Definition s_after (k : T) (l : list T) : list T := filter (fun x => negb (cmp x k <? 0)) l.

(* an iteration whose consumer stops on call number m+1 sees the first m+1 elements *)
Definition s_upto (stop : option nat) (l : list T) : list T :=
  match stop with None => l | Some m => firstn (S m) l end.

(* New: sorting and compacting keeps, for every class among the keys, ONE of its members; which
   one is not specified, so the choice (indices into keys) is given.  A choice is acceptable iff
   the chosen keys are strictly ascending and every key is equivalent to a chosen one. *)
Definition s_chosen (keys : list T) (picks : list nat) : option (list T) :=
  fold_right (fun i acc =>
    match nth_error keys i, acc with
    | Some x, Some l => Some (x :: l)
    | _, _ => None
    end) (Some []) picks.

Fixpoint s_ascending (l : list T) : bool :=
  match l with
  | [] => true
  | x :: r => match r with [] => true | y :: _ => (cmp x y <? 0) && s_ascending r end
  end.

Definition s_new (keys : list T) (picks : list nat) : option (list T) :=
  match s_chosen keys picks with
  | None => None
  | Some kept =>
    if s_ascending kept && forallb (fun k => existsb (fun p => cmp k p =? 0) kept) keys
    then Some kept else None
  end.

(* ---- histories: one set per tree, numbered in order of creation *)
Definition sstate : Type := list (list T).

Definition s_mut (s : sstate) (i : nat) (f : list T -> list T * bool) : sstate * out T :=
  match nth_error s i with
  | None => (s, RNoTree)
  | Some l => let '(l', b) := f l in (set_nth i l' s, RBool b)
  end.

Definition s_obs (s : sstate) (i : nat) (f : list T -> out T) : sstate * out T :=
  match nth_error s i with
  | None => (s, RNoTree)
  | Some l => (s, f l)
  end.

Definition spec_step (s : sstate) (o : op T) : sstate * out T :=
  match o with
  | ONew b keys picks =>
    if (b <? 0) || (1000 <? b) then (s, RPanic)                 (* "New panics if β < 0 or β > 1000" *)
    else match keys with
    | [] => (s ++ [[]], RUnit)
    | _ => match s_new keys picks with
           | Some kept => (s ++ [kept], RUnit)
           | None => (s, RBadOracle)
           end
    end
  | OClone i =>
    match nth_error s i with
    | None => (s, RNoTree)
    | Some l => (s ++ [l], RUnit)
    end
  | OAdd i k => s_mut s i (s_insert false k)
  | OReplace i k => s_mut s i (s_insert true k)
  | ORemove i k => s_mut s i (s_remove k)
  | OClear i =>
    match nth_error s i with
    | None => (s, RNoTree)
    | Some _ => (set_nth i [] s, RUnit)
    end
  | OLen i => s_obs s i (fun l => RInt (Z.of_nat (length l)))
  | OIsEmpty i => s_obs s i (fun l => RBool (match l with [] => true | _ => false end))
  | OGet i k => s_obs s i (fun l => ROpt (s_get k l))
  | OMin i => s_obs s i (fun l => ROpt (s_min l))
  | OMax i => s_obs s i (fun l => ROpt (s_max l))
  | OInorder i stop => s_obs s i (fun l => RList (s_upto stop l))
  | OInorderAfter i k stop => s_obs s i (fun l => RList (s_upto stop (s_after k l)))
  end.

Fixpoint spec_run_from (s : sstate) (ops : list (op T)) : list (out T) :=
  match ops with
  | [] => []
  | o :: r => let '(s', x) := spec_step s o in x :: spec_run_from s' r
  end.

Definition spec_run (ops : list (op T)) : list (out T) := spec_run_from [] ops.

End Spec.

Arguments sorted {T} cmp l.
Arguments s_insert {T} cmp replace k l.
Arguments s_remove {T} cmp k l.
Arguments s_get {T} cmp k l.
Arguments s_min {T} l.
Arguments s_max {T} l.
Arguments s_after {T} cmp k l.
Arguments s_upto {T} stop l.
Arguments s_chosen {T} keys picks.
Arguments s_ascending {T} cmp l.
Arguments s_new {T} cmp keys picks.
Arguments s_mut {T} s i f.
Arguments s_obs {T} s i f.
Arguments spec_step {T} cmp s o.
Arguments spec_run_from {T} cmp s ops.
Arguments spec_run {T} cmp ops.
