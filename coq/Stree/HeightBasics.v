(* C02: arithmetic of floor(log2), the lookup cost and the height of extract (stree.New). *)
From Coq Require Import ZArith List Bool Lia.
Import ListNotations.
From Mds Require Import Gen.StreeConst Gen.StreeNode Stree.StreeModel Stree.HeightModel.
Local Open Scope Z_scope.

(* floor(log2 n) extended by lg 0 = -1 = height Leaf *)
Definition lg (n : Z) : Z := if n <=? 0 then -1 else Z.log2 n.

Lemma lg_pos n : 1 <= n -> lg n = Z.log2 n.
Proof. intros H. unfold lg. destruct (n <=? 0) eqn:E; [apply Z.leb_le in E; lia|reflexivity]. Qed.

Lemma lg_0 : lg 0 = -1.
Proof. reflexivity. Qed.

Lemma lg_mono a b : 0 <= a <= b -> lg a <= lg b.
Proof.
  intros H. unfold lg.
  destruct (a <=? 0) eqn:Ea; destruct (b <=? 0) eqn:Eb;
    try apply Z.leb_le in Ea; try apply Z.leb_le in Eb; try apply Z.leb_gt in Ea; try apply Z.leb_gt in Eb.
  - lia.
  - pose proof (Z.log2_nonneg b). lia.
  - lia.
  - apply Z.log2_le_mono. lia.
Qed.

Lemma lg_ge_m1 n : -1 <= lg n.
Proof. unfold lg. destruct (n <=? 0); [lia|]. pose proof (Z.log2_nonneg n). lia. Qed.

(* a node over two subtrees whose sizes differ by at most one *)
Lemma lg_node a b : 0 <= a -> 0 <= b -> a - b <= 1 -> b - a <= 1 ->
  1 + Z.max (lg a) (lg b) = lg (a + b + 1).
Proof.
  intros Ha Hb H1 H2.
  rewrite (lg_pos (a + b + 1)) by lia.
  assert (Hcase : a = b \/ a = b + 1 \/ b = a + 1) by lia.
  destruct Hcase as [->|[->| ->]].
  - rewrite Z.max_id. destruct (Z.eq_dec b 0) as [->|Hb0]; [reflexivity|].
    rewrite lg_pos by lia. replace (b + b + 1) with (2 * b + 1) by lia.
    rewrite Z.log2_succ_double by lia. lia.
  - pose proof (lg_mono b (b + 1) ltac:(lia)). rewrite Z.max_l by lia.
    rewrite lg_pos by lia. replace (b + 1 + b + 1) with (2 * (b + 1)) by lia.
    rewrite Z.log2_double by lia. lia.
  - pose proof (lg_mono a (a + 1) ltac:(lia)). rewrite Z.max_r by lia.
    rewrite lg_pos by lia. replace (a + (a + 1) + 1) with (2 * (a + 1)) by lia.
    rewrite Z.log2_double by lia. lia.
Qed.

Section Basics.
Variable T : Type.
Variable cmp : T -> T -> Z.

Lemma size_nonneg (t : tree T) : 0 <= size t.
Proof. induction t; cbn [size]; unfold node_size; lia. Qed.

Lemma size_node (l r : tree T) x : size (Node l x r) = 1 + size l + size r.
Proof. reflexivity. Qed.

Lemma height_ge_m1 (t : tree T) : -1 <= height t.
Proof. induction t; cbn [height]; lia. Qed.

Lemma size_0_leaf (t : tree T) : size t = 0 -> t = Leaf.
Proof.
  destruct t; [reflexivity|]. rewrite size_node.
  pose proof (size_nonneg t1). pose proof (size_nonneg t2). lia.
Qed.

Lemma height_lt_size (t : tree T) : height t < size t.
Proof.
  induction t; [cbn; lia|]. rewrite size_node. cbn [height].
  pose proof (size_nonneg t1). pose proof (size_nonneg t2). lia.
Qed.

(* ---- (d) Tree.Get makes at most height+1 comparisons *)

Lemma get_count_get k (t : tree T) : fst (get_count cmp k t) = get cmp k t.
Proof.
  induction t as [|l IHl x r IHr]; [reflexivity|].
  cbn [get_count get].
  destruct (get_lt (cmp k x)).
  - destruct (get_count cmp k l). exact IHl.
  - destruct (get_gt (cmp k x)).
    + destruct (get_count cmp k r). exact IHr.
    + reflexivity.
Qed.

Lemma get_count_cost k (t : tree T) : 0 <= snd (get_count cmp k t) <= height t + 1.
Proof.
  induction t as [|l IHl x r IHr]; [cbn; lia|].
  cbn [get_count height].
  pose proof (height_ge_m1 l). pose proof (height_ge_m1 r).
  destruct (get_lt (cmp k x)).
  - destruct (get_count cmp k l) as [o n]. cbn [snd] in *. lia.
  - destruct (get_gt (cmp k x)).
    + destruct (get_count cmp k r) as [o n]. cbn [snd] in *. lia.
    + cbn [snd]. lia.
Qed.

(* ---- (e) extract builds a tree of the minimum height.
   The only fact used about the midpoint expression is that it lies between (n-1)/2 and n/2. *)

Definition mid_ok (mid : Z -> Z) : Prop := forall n, 1 <= n -> (n - 1) / 2 <= mid n <= n / 2.

Lemma ext_mid_ok : mid_ok ext_mid.
Proof.
  intros n Hn. unfold ext_mid.
  rewrite ?Z.quot_div_nonneg by lia.
  pose proof (Z.div_le_mono (n - 1) n 2 ltac:(lia) ltac:(lia)). lia.
Qed.

Lemma extract_fuel_spec : forall fuel (nodes : list T),
  (length nodes <= fuel)%nat ->
  exists t, extract_fuel fuel nodes = Ok t /\
            size t = Z.of_nat (length nodes) /\ height t = lg (Z.of_nat (length nodes)) /\
            inorder t = nodes.
Proof.
  induction fuel as [|fuel IH]; intros nodes Hf.
  - destruct nodes; [|cbn in Hf; lia]. exists Leaf. cbn. auto.
  - cbn [extract_fuel]. unfold ext_empty.
    destruct (Z.of_nat (length nodes) =? 0) eqn:E.
    + apply Z.eqb_eq in E. destruct nodes; [|cbn in E; lia]. exists Leaf. cbn. auto.
    + apply Z.eqb_neq in E.
      set (n := Z.of_nat (length nodes)) in *.
      assert (Hn : 1 <= n) by (subst n; lia).
      pose proof (ext_mid_ok n Hn) as Hm.
      set (m := ext_mid n) in *. clearbody m.
      unfold ext_root_idx, ext_left_hi, ext_right_lo.
      assert (Hm0 : 0 <= m).
      { assert (0 <= (n - 1) / 2) by (apply Z.div_pos; lia). lia. }
      assert (Hm1 : m < n).
      { assert (n / 2 < n) by (apply Z.div_lt; lia). lia. }
      (* the root *)
      unfold index_at. destruct (m <? 0) eqn:E0; [apply Z.ltb_lt in E0; lia|].
      destruct (nth_error nodes (Z.to_nat m)) as [x|] eqn:Ex.
      2:{ apply nth_error_None in Ex. subst n. lia. }
      cbn [bind].
      (* the left part *)
      unfold slice_to. fold n.
      destruct ((m <? 0) || (n <? m)) eqn:E1.
      { apply orb_true_iff in E1. destruct E1 as [E1|E1]; apply Z.ltb_lt in E1; lia. }
      cbn [bind].
      assert (Hl : length (firstn (Z.to_nat m) nodes) = Z.to_nat m).
      { rewrite firstn_length. subst n. lia. }
      destruct (IH (firstn (Z.to_nat m) nodes)) as [tl [El [Sl [Hl' Il]]]].
      { rewrite Hl. subst n. lia. }
      rewrite El. cbn [bind].
      (* the right part *)
      unfold slice_from. fold n.
      destruct ((m + 1 <? 0) || (n <? m + 1)) eqn:E2.
      { apply orb_true_iff in E2. destruct E2 as [E2|E2]; apply Z.ltb_lt in E2; lia. }
      cbn [bind].
      assert (Hr : length (skipn (Z.to_nat (m + 1)) nodes) = Z.to_nat (n - m - 1)).
      { rewrite skipn_length. subst n. lia. }
      destruct (IH (skipn (Z.to_nat (m + 1)) nodes)) as [tr [Er [Sr [Hr' Ir]]]].
      { rewrite Hr. subst n. lia. }
      rewrite Er. cbn [bind].
      exists (Node tl x tr). split; [reflexivity|].
      rewrite Hl in Sl, Hl'. rewrite Hr in Sr, Hr'.
      rewrite Z2Nat.id in Sl, Hl', Sr, Hr' by lia.
      split; [rewrite size_node; lia|]. split.
      * cbn [height]. rewrite Hl', Hr'.
        assert (Hd : m - (n - m - 1) <= 1 /\ (n - m - 1) - m <= 1).
        { pose proof (Z.div_mod n 2 ltac:(lia)). pose proof (Z.mod_pos_bound n 2 ltac:(lia)).
          pose proof (Z.div_mod (n - 1) 2 ltac:(lia)). pose proof (Z.mod_pos_bound (n - 1) 2 ltac:(lia)).
          lia. }
        rewrite lg_node by lia. f_equal. lia.
      * cbn [inorder]. rewrite Il, Ir.
        replace (Z.to_nat (m + 1)) with (S (Z.to_nat m)) by lia.
        rewrite <- (firstn_skipn (Z.to_nat m) nodes) at 3.
        f_equal.
        assert (Hsk : skipn (Z.to_nat m) nodes = x :: skipn (S (Z.to_nat m)) nodes).
        { clear - Ex. revert Ex. generalize (Z.to_nat m) as i. intros i. revert nodes.
          induction i as [|i IHi]; intros [|y nodes] Ex; cbn in Ex; try discriminate.
          - inversion Ex; subst. reflexivity.
          - cbn [skipn]. rewrite (IHi nodes Ex). reflexivity. }
        rewrite Hsk. reflexivity.
Qed.

Theorem extract_height (l : list T) : l <> [] ->
  exists t, extract l = Ok t /\ height t = Z.log2 (Z.of_nat (length l)) /\
            size t = Z.of_nat (length l) /\ inorder t = l.
Proof.
  intros Hl. destruct (extract_fuel_spec (length l) l (le_n _)) as [t [E [S [H I]]]].
  exists t. split; [exact E|]. split; [|split; assumption].
  rewrite H. apply lg_pos. destruct l; [congruence|]. cbn [length]. lia.
Qed.

End Basics.

Arguments extract_height {T} l.
Arguments get_count_cost {T} cmp k t.
Arguments get_count_get {T} cmp k t.
