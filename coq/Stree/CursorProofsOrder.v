(* C03, the key-order reading of Next/Prev and the composition with tree histories.

   CursorProofs.v proves navigation over positions (indices into the in-order key list).  Here the
   same facts are restated in the words of the property text, for a search tree under a lawful
   comparison: Next moves to THE LEAST KEY GREATER than the cursor's key (a key of the tree, greater
   than x, and not above any other key greater than x), becomes invalid exactly when no key is
   greater, and HasNext answers exactly whether Next stays valid; symmetrically Prev/HasPrev.  And:
   every tree of every state reached by a history of New/Add/Replace/Remove/Clear/Clone (the C01
   model) is a search tree, so all of this applies to every reachable tree shape. *)
From Coq Require Import ZArith List Bool Arith Lia.
Import ListNotations.
From Mds Require Import Stree.StreeModel Stree.StreeSpec Stree.StreeProofsSet Stree.StreeProofsHist
  Stree.CursorModel Stree.CursorSpec Stree.CursorProofs.
Local Open Scope Z_scope.

Section Order.
Variable T : Type.
Variable cmp : T -> T -> Z.
Hypothesis HP : total_preorder cmp.
Variable zero : T.
Notation tree := (StreeModel.tree T).

Lemma sorted_nth_lt : forall (l : list T) i j a b, sorted cmp l -> (i < j)%nat ->
  nth_error l i = Some a -> nth_error l j = Some b -> cmp a b < 0.
Proof.
  induction l as [|e r IH]; intros i j a b Hso Hij Ha Hb.
  - destruct i; discriminate.
  - destruct Hso as [S1 S2]. destruct j as [|j]; [lia|]. cbn [nth_error] in Hb.
    destruct i as [|i].
    + cbn [nth_error] in Ha. inversion Ha; subst. apply S1. eapply nth_error_In; eassumption.
    + cbn [nth_error] in Ha. eapply (IH i j); try eassumption. lia.
Qed.

(* in a strictly ascending list, the element after x is the least element greater than x *)
Lemma sorted_succ_least : forall (l : list T) i x y, sorted cmp l ->
  nth_error l i = Some x -> nth_error l (S i) = Some y ->
  cmp x y < 0 /\ forall z, In z l -> cmp x z < 0 -> cmp y z <= 0.
Proof.
  intros l i x y Hso Hx Hy. split; [eapply (sorted_nth_lt l i (S i)); eauto|].
  intros z Hz Hxz. destruct (In_nth_error _ _ Hz) as [j Hj].
  destruct (lt_eq_lt_dec j (S i)) as [[Lt|Eq]|Gt].
  - exfalso. destruct (Nat.eq_dec j i) as [E|N].
    + subst j. rewrite Hx in Hj. inversion Hj; subst. pose proof (cmp_refl T cmp HP z). lia.
    + assert (Hlt : (j < i)%nat) by lia.
      pose proof (sorted_nth_lt l j i z x Hso Hlt Hj Hx). pose proof (flip T cmp HP z x). lia.
  - subst j. rewrite Hy in Hj. inversion Hj; subst. pose proof (cmp_refl T cmp HP z). lia.
  - pose proof (sorted_nth_lt l (S i) j y z Hso Gt Hy Hj). lia.
Qed.

(* ... and the last element is not below any element *)
Lemma sorted_last_greatest : forall (l : list T) i x, sorted cmp l ->
  nth_error l i = Some x -> (length l <= S i)%nat -> forall z, In z l -> cmp z x <= 0.
Proof.
  intros l i x Hso Hx Hlen z Hz. destruct (In_nth_error _ _ Hz) as [j Hj].
  assert (Hjl : (j < length l)%nat) by (apply nth_error_Some; congruence).
  destruct (Nat.eq_dec j i) as [E|N].
  - subst j. rewrite Hx in Hj. inversion Hj; subst. pose proof (cmp_refl T cmp HP z). lia.
  - assert (Hlt : (j < i)%nat) by lia. pose proof (sorted_nth_lt l j i z x Hso Hlt Hj Hx). lia.
Qed.

Lemma sorted_pred_greatest : forall (l : list T) i x y, sorted cmp l ->
  nth_error l (S i) = Some x -> nth_error l i = Some y ->
  cmp y x < 0 /\ forall z, In z l -> cmp z x < 0 -> cmp z y <= 0.
Proof.
  intros l i x y Hso Hx Hy. split; [eapply (sorted_nth_lt l i (S i)); eauto|].
  intros z Hz Hzx. destruct (In_nth_error _ _ Hz) as [j Hj].
  destruct (lt_eq_lt_dec j i) as [[Lt|Eq]|Gt].
  - pose proof (sorted_nth_lt l j i z y Hso Lt Hj Hy). lia.
  - subst j. rewrite Hy in Hj. inversion Hj; subst. pose proof (cmp_refl T cmp HP z). lia.
  - exfalso. destruct (Nat.eq_dec j (S i)) as [E|N].
    + subst j. rewrite Hx in Hj. inversion Hj; subst. pose proof (cmp_refl T cmp HP z). lia.
    + assert (Hlt : (S i < j)%nat) by lia.
      pose proof (sorted_nth_lt l (S i) j x z Hso Hlt Hx Hj). pose proof (flip T cmp HP x z). lia.
Qed.

Lemma sorted_first_least : forall (l : list T) x, sorted cmp l ->
  nth_error l 0 = Some x -> forall z, In z l -> cmp x z <= 0.
Proof.
  intros l x Hso Hx z Hz. destruct (In_nth_error _ _ Hz) as [j Hj].
  destruct j as [|j].
  - rewrite Hx in Hj. inversion Hj; subst. pose proof (cmp_refl T cmp HP z). lia.
  - assert (Hlt : (0 < S j)%nat) by lia. pose proof (sorted_nth_lt l 0 (S j) x z Hso Hlt Hx Hj). lia.
Qed.

(* what HasNext / HasPrev answer, pulled out of the observation record *)
Lemma has_next_prev_spec : forall (t : tree) c a, wf T t c -> abs T t c = Some a ->
  has_next t c = Ok (S (ix a) <? length (inorder t))%nat /\ has_prev t c = Ok (0 <? ix a)%nat.
Proof.
  intros t c a Hwf Ha. destruct (observe_spec T zero t c Hwf) as [o [Ho Hs]].
  rewrite Ha in Hs. destruct Hs as [_ [_ [Hn [Hp _]]]].
  unfold observe in Ho.
  destruct (key zero t c); cbn [bind] in Ho; try discriminate.
  destruct (has_next t c) as [hn| | |]; cbn [bind] in Ho; try discriminate.
  destruct (has_prev t c) as [hp| | |]; cbn [bind] in Ho; try discriminate.
  destruct (has_left t c); cbn [bind] in Ho; try discriminate.
  destruct (has_right t c); cbn [bind] in Ho; try discriminate.
  destruct (cinorder_all t c); cbn [bind] in Ho; try discriminate.
  inversion Ho; subst o. cbn [o_has_next o_has_prev] in Hn, Hp. subst. split; reflexivity.
Qed.

(* Next, in the words of the property: from a valid cursor with key x in a search tree, Next does
   not fail and stays inside the tree; HasNext says exactly whether the result is valid; a valid
   result has the least key of the tree greater than x; an invalid one means no key is greater. *)
Theorem next_successor : forall (t : tree) c x, sorted cmp (inorder t) -> wf T t c -> valid c = true ->
  key zero t c = Ok x ->
  exists c', next t c = Ok c' /\ wf T t c' /\ has_next t c = Ok (valid c') /\
    if valid c'
    then exists y, key zero t c' = Ok y /\ In y (inorder t) /\ cmp x y < 0 /\
                   (forall z, In z (inorder t) -> cmp x z < 0 -> cmp y z <= 0)
    else forall z, In z (inorder t) -> cmp z x <= 0.
Proof.
  intros t c x Hso Hwf Hv Hk.
  destruct (step_spec T t c MNext Hwf) as [c' [Hs [Hwf' [Hm Hok]]]]. cbn [step] in Hs.
  exists c'. split; [exact Hs|]. split; [exact Hwf'|].
  rewrite (valid_abs T t c) in Hv. destruct (abs T t c) as [a|] eqn:Ha; [|discriminate].
  destruct (has_next_prev_spec t c a Hwf Ha) as [Hhn _].
  destruct (key_spec T zero t c Hwf) as [x0 [Hk0 Hx0]]. rewrite Hk in Hk0. inversion Hk0; subst x0.
  rewrite Ha in Hx0. cbn [move_spec] in Hm. unfold cnt in Hm.
  rewrite (valid_abs T t c'). rewrite Hhn.
  destruct (S (ix a) <? length (inorder t))%nat eqn:E.
  - destruct Hm as [b [Hb Hix]]. rewrite Hb. split; [reflexivity|].
    destruct (key_spec T zero t c' Hwf') as [y [Hky Hy]]. rewrite Hb in Hy. rewrite Hix in Hy.
    exists y. split; [exact Hky|]. split; [eapply nth_error_In; exact Hy|].
    eapply sorted_succ_least; eassumption.
  - rewrite Hm. split; [reflexivity|]. apply Nat.ltb_ge in E.
    eapply sorted_last_greatest; eassumption.
Qed.

Theorem prev_predecessor : forall (t : tree) c x, sorted cmp (inorder t) -> wf T t c -> valid c = true ->
  key zero t c = Ok x ->
  exists c', prev t c = Ok c' /\ wf T t c' /\ has_prev t c = Ok (valid c') /\
    if valid c'
    then exists y, key zero t c' = Ok y /\ In y (inorder t) /\ cmp y x < 0 /\
                   (forall z, In z (inorder t) -> cmp z x < 0 -> cmp z y <= 0)
    else forall z, In z (inorder t) -> cmp x z <= 0.
Proof.
  intros t c x Hso Hwf Hv Hk.
  destruct (step_spec T t c MPrev Hwf) as [c' [Hs [Hwf' [Hm Hok]]]]. cbn [step] in Hs.
  exists c'. split; [exact Hs|]. split; [exact Hwf'|].
  rewrite (valid_abs T t c) in Hv. destruct (abs T t c) as [a|] eqn:Ha; [|discriminate].
  destruct (has_next_prev_spec t c a Hwf Ha) as [_ Hhp].
  destruct (key_spec T zero t c Hwf) as [x0 [Hk0 Hx0]]. rewrite Hk in Hk0. inversion Hk0; subst x0.
  rewrite Ha in Hx0. cbn [move_spec] in Hm.
  rewrite (valid_abs T t c'). rewrite Hhp.
  destruct (0 <? ix a)%nat eqn:E.
  - destruct Hm as [b [Hb Hix]]. rewrite Hb. split; [reflexivity|].
    destruct (key_spec T zero t c' Hwf') as [y [Hky Hy]]. rewrite Hb in Hy. rewrite <- Hix in Hx0.
    exists y. split; [exact Hky|]. split; [eapply nth_error_In; exact Hy|].
    eapply sorted_pred_greatest; eassumption.
  - rewrite Hm. split; [reflexivity|]. apply Nat.ltb_ge in E.
    assert (E0 : ix a = 0%nat) by lia. rewrite E0 in Hx0.
    eapply sorted_first_least; eassumption.
Qed.

(* every tree of every state a history of the C01 model reaches is a search tree *)
Theorem reachable_sorted : forall (limit : Z -> Z -> Z) (ops : list (StreeModel.op T)),
  Forall (fun tr => sorted cmp (inorder (root tr))) (exec_from cmp limit [] ops).
Proof.
  intros limit ops.
  destruct (exec_from_rel T cmp HP limit ops [] []) as [s1' R]; [constructor|].
  induction R as [|tr l s s' Hrel R IH]; constructor; [|exact IH].
  destruct Hrel as [E [Hso _]]. rewrite E. exact Hso.
Qed.

End Order.
