(* Model of stree/stree.go and stree/node.go (creachadair/mds): the scapegoat tree.
   DEFINITIONS ONLY (no proofs).  The code is mirrored statement by statement; every constant,
   comparison and piece of integer arithmetic comes from Gen/StreeConst.v (stree.go) and
   Gen/StreeNode.v (node.go), regenerated from the Go source on every run.

   Conventions
   * machine ints are unbounded Z; [size] is the Go method node.size (a Z);
   * [height Leaf = -1], [height (Node l x r) = 1 + max (height l) (height r)]  (edges);
   * a *node[T] is a [tree]; nil is [Leaf]; in-place pointer surgery becomes rebuilding the
     spine that leads to the modified place;
   * results that the Go code can only reach by a run-time panic are [Panic]; fuelled loops
     return [OutOfFuel] when the fuel runs out (proved impossible in StreeProofs); an oracle
     input that violates the runtime's specification gives [BadOracle];
   * the depth-limit function [limit : Z -> Z -> Z] (arguments beta, n) is a parameter of every
     function that needs it: contents never depend on it. *)
From Coq Require Import ZArith List Bool.
Import ListNotations.
From Mds Require Import Gen.StreeConst Gen.StreeNode.
Local Open Scope Z_scope.

Inductive res (A : Type) : Type :=
| Ok (a : A)
| Panic
| OutOfFuel
| BadOracle.
Arguments Ok {A} a.
Arguments Panic {A}.
Arguments OutOfFuel {A}.
Arguments BadOracle {A}.

Definition bind {A B : Type} (r : res A) (f : A -> res B) : res B :=
  match r with
  | Ok a => f a
  | Panic => Panic
  | OutOfFuel => OutOfFuel
  | BadOracle => BadOracle
  end.

Section Stree.
Variable T : Type.
Variable cmp : T -> T -> Z.
Variable limit : Z -> Z -> Z.      (* limit beta n: the depth limit for size n at balance beta *)

Inductive tree : Type :=
| Leaf
| Node (l : tree) (x : T) (r : tree).

(* node.size *)
Fixpoint size (n : tree) : Z :=
  match n with
  | Leaf => 0
  | Node l _ r => node_size (size l) (size r)
  end.

(* number of nodes as a nat (fuel only) *)
Fixpoint count (n : tree) : nat :=
  match n with
  | Leaf => O
  | Node l _ r => S (count l + count r)
  end.

Fixpoint height (n : tree) : Z :=
  match n with
  | Leaf => -1
  | Node l _ r => 1 + Z.max (height l) (height r)
  end.

Fixpoint inorder (n : tree) : list T :=
  match n with
  | Leaf => []
  | Node l x r => inorder l ++ x :: inorder r
  end.

(* node.clone *)
Fixpoint clone (n : tree) : tree :=
  match n with
  | Leaf => Leaf
  | Node l x r => Node (clone l) x (clone r)
  end.

(* ------------------------------------------------------------------ treeToVine *)

(* The chain built so far (stub ... cur), all with nil left pointers, is kept as the reversed
   list of its keys; [vine_of acc rest] hangs [rest] below it. *)
Definition vine_of (acc : list T) (rest : tree) : tree :=
  fold_left (fun t x => Node Leaf x t) acc rest.

(* for cur.right != nil { C := cur.right; if C.left == nil { cur = C; continue }; right-rotate } *)
Fixpoint t2v_loop (fuel : nat) (acc : list T) (rest : tree) : res tree :=
  match rest with
  | Leaf => Ok (vine_of acc Leaf)
  | Node cl cx cr =>
    match fuel with
    | O => OutOfFuel
    | S fuel' =>
      match cl with
      | Leaf => t2v_loop fuel' (cx :: acc) cr                       (* cur = C *)
      | Node ll lx lr =>                                             (* L := C.left *)
        t2v_loop fuel' acc (Node ll lx (Node lr cx cr))              (* C.left = L.right; L.right = C; cur.right = L *)
      end
    end
  end.

Definition t2v_fuel (n : tree) : nat := S (2 * count n).

Definition tree_to_vine (n : tree) : res tree := t2v_loop (t2v_fuel n) [] n.

(* ------------------------------------------------------------------ rotateLeft *)

(* [chain] is next.right.  One iteration: C := next.right; R := C.right (nil dereferences panic);
   C.right = R.left; R.left = C; next.right = R; next = R. *)
Fixpoint rotate_left_n (k : nat) (chain : tree) : res tree :=
  match k with
  | O => Ok chain
  | S k' =>
    match chain with
    | Leaf => Panic                                  (* C == nil: C.right *)
    | Node x cx R =>
      match R with
      | Leaf => Panic                                (* R == nil: R.left *)
      | Node y rx z =>
        bind (rotate_left_n k' z) (fun z' => Ok (Node (Node x cx y) rx z'))
      end
    end
  end.

(* for range count: no iteration when count <= 0 *)
Definition rotate_left (chain : tree) (cnt : Z) : res tree :=
  rotate_left_n (Z.to_nat (rot_count cnt)) chain.

(* ------------------------------------------------------------------ vineToTree *)

(* step := 1; for step <= count { step = 2*step + 1 } *)
Fixpoint v2t_step_loop (fuel : nat) (step cnt : Z) : res Z :=
  if v2t_step_more step cnt then
    match fuel with
    | O => OutOfFuel
    | S fuel' => v2t_step_loop fuel' (v2t_step_next step) cnt
    end
  else Ok step.

(* for left > 1 { left /= 2; rotateLeft(stub, left) } *)
Fixpoint v2t_pack_loop (fuel : nat) (left : Z) (chain : tree) : res tree :=
  if v2t_left_more left then
    match fuel with
    | O => OutOfFuel
    | S fuel' =>
      let left' := v2t_left_next left in
      bind (rotate_left chain (v2t_loop_count left')) (fun chain' =>
      v2t_pack_loop fuel' left' chain')
    end
  else Ok chain.

Definition v2t_fuel (z : Z) : nat := S (Z.to_nat z).

Definition vine_to_tree (n : tree) (cnt : Z) : res tree :=
  bind (v2t_step_loop (v2t_fuel cnt) v2t_step0 cnt) (fun step1 =>
  let step := v2t_step_final step1 in
  bind (rotate_left n (v2t_first_count cnt step)) (fun chain =>
  v2t_pack_loop (v2t_fuel step) (v2t_left0 step) chain)).

(* rewrite *)
Definition rewrite (root : tree) (sz : Z) : res tree :=
  bind (tree_to_vine root) (fun vine => vine_to_tree vine (rewrite_count sz)).

(* ------------------------------------------------------------------ extract *)

(* nodes[:hi] and nodes[lo:] with Go's bounds checks *)
Definition slice_to (l : list T) (hi : Z) : res (list T) :=
  if (hi <? 0) || (Z.of_nat (length l) <? hi) then Panic else Ok (firstn (Z.to_nat hi) l).
Definition slice_from (l : list T) (lo : Z) : res (list T) :=
  if (lo <? 0) || (Z.of_nat (length l) <? lo) then Panic else Ok (skipn (Z.to_nat lo) l).
Definition index_at (l : list T) (i : Z) : res T :=
  if i <? 0 then Panic
  else match nth_error l (Z.to_nat i) with Some x => Ok x | None => Panic end.

Fixpoint extract_fuel (fuel : nat) (nodes : list T) : res tree :=
  if ext_empty (Z.of_nat (length nodes)) then Ok Leaf
  else match fuel with
  | O => OutOfFuel
  | S fuel' =>
    let mid := ext_mid (Z.of_nat (length nodes)) in
    bind (index_at nodes (ext_root_idx mid)) (fun x =>
    bind (slice_to nodes (ext_left_hi mid)) (fun ls =>
    bind (extract_fuel fuel' ls) (fun l =>
    bind (slice_from nodes (ext_right_lo mid)) (fun rs =>
    bind (extract_fuel fuel' rs) (fun r =>
    Ok (Node l x r))))))
  end.

Definition extract (nodes : list T) : res tree := extract_fuel (length nodes) nodes.

(* ------------------------------------------------------------------ Tree.insert *)

(* The ascending phase ("goat rodeo") of one activation; [root] already has the new child
   linked in, [sib] is the other child. *)
Definition ins_unwind (b : Z) (root sib : tree) (added : bool) (sz ht : Z)
  : res (tree * bool * Z * Z) :=
  if ins_seeking sz then
    let sibSize := size sib in
    let rootSize := ins_root_size sibSize sz in
    let bw := limit b (ins_limit_arg rootSize) in
    if ins_not_goat ht bw then Ok (root, added, ins_keep_size rootSize, ht)
    else bind (rewrite root (ins_rewrite_size rootSize)) (fun root' =>
         Ok (root', added, ins_goat_size, ht))
  else Ok (root, added, sz, ht).

(* returns (ins, added, size, height) *)
Fixpoint insert (b : Z) (key : T) (replace : bool) (root : tree) (lim : Z)
  : res (tree * bool * Z * Z) :=
  match root with
  | Leaf =>
    let sz := if ins_leaf_over lim then ins_leaf_size else 0 in     (* named result: zero value *)
    Ok (Node Leaf key Leaf, true, sz, ins_leaf_height)
  | Node l x r =>
    let c := cmp key x in
    if ins_lt c then
      bind (insert b key replace l (ins_left_limit lim)) (fun '(ins, added, sz, ht) =>
      ins_unwind b (Node ins x r) r added sz (ins_left_height ht))
    else if ins_gt c then
      bind (insert b key replace r (ins_right_limit lim)) (fun '(ins, added, sz, ht) =>
      ins_unwind b (Node l x ins) l added sz (ins_right_height ht))
    else
      Ok (Node l (if replace then key else x) r, false, ins_eq_size, ins_eq_height)
  end.

(* ------------------------------------------------------------------ remove / popMinRight *)

(* The descent of popMinRight below the first step: [p] is a node whose left child exists;
   the leftmost node under it is unlinked (par.left = goat.right) and its key returned. *)
Fixpoint pop_left (p : tree) : res (T * tree) :=
  match p with
  | Leaf => Panic
  | Node l x r =>
    match l with
    | Leaf => Panic
    | Node Leaf g gr => Ok (g, Node gr x r)                 (* par.left = goat.right *)
    | Node (Node _ _ _) _ _ =>
      bind (pop_left l) (fun '(g, l') => Ok (g, Node l' x r))
    end
  end.

(* popMinRight(root): returns the goat's key and the modified root *)
Definition pop_min_right (root : tree) : res (T * tree) :=
  match root with
  | Leaf => Panic                                            (* root.right: nil dereference *)
  | Node l x r =>
    match r with
    | Leaf => Panic                                          (* goat.left: nil dereference *)
    | Node Leaf g gr => Ok (g, Node l x gr)                  (* par == root: root.right = goat.right *)
    | Node (Node _ _ _) _ _ =>
      bind (pop_left r) (fun '(g, r') => Ok (g, Node l x r'))
    end
  end.

Fixpoint remove (key : T) (n : tree) : res (tree * bool) :=
  match n with
  | Leaf => Ok (Leaf, false)
  | Node l x r =>
    let c := cmp key x in
    if rem_lt c then bind (remove key l) (fun '(l', ok) => Ok (Node l' x r, ok))
    else if rem_gt c then bind (remove key r) (fun '(r', ok) => Ok (Node l x r', ok))
    else match l with
    | Leaf => Ok (r, true)
    | Node _ _ _ =>
      match r with
      | Leaf => Ok (l, true)
      | Node _ _ _ =>
        bind (pop_min_right n) (fun '(g, n') =>
        match n' with
        | Leaf => Panic
        | Node l' _ r' => Ok (Node l' g r', true)            (* n.X = goat.X *)
        end)
      end
    end
  end.

(* ------------------------------------------------------------------ queries *)

(* Tree.Get: None is (zero, false) *)
Fixpoint get (key : T) (cur : tree) : option T :=
  match cur with
  | Leaf => None
  | Node l x r =>
    let c := cmp key x in
    if get_lt c then get key l
    else if get_gt c then get key r
    else Some x
  end.

(* Tree.Min / Tree.Max on the root: None is the zero key *)
Fixpoint min_from (x : T) (l : tree) : T :=
  match l with
  | Leaf => x
  | Node l' x' _ => min_from x' l'
  end.
Fixpoint max_from (x : T) (r : tree) : T :=
  match r with
  | Leaf => x
  | Node _ x' r' => max_from x' r'
  end.
Definition tree_min (n : tree) : option T :=
  match n with Leaf => None | Node l x _ => Some (min_from x l) end.
Definition tree_max (n : tree) : option T :=
  match n with Leaf => None | Node _ x r => Some (max_from x r) end.

(* node.inorder with a stateful yield function [f : S -> T -> S * bool] (false = stop) *)
Fixpoint inorder_until {S : Type} (f : S -> T -> S * bool) (n : tree) (s : S) : S * bool :=
  match n with
  | Leaf => (s, true)
  | Node l x r =>
    let '(s1, ok1) := inorder_until f l s in
    if negb ok1 then (s1, false)
    else let '(s2, ok2) := f s1 x in
    if negb ok2 then (s2, false)
    else inorder_until f r s2                                 (* n = n.right *)
  end.

(* node.pathTo: the nodes from n towards key *)
Fixpoint path_to (key : T) (cur : tree) : list tree :=
  match cur with
  | Leaf => []
  | Node l x r =>
    let c := cmp key x in
    cur :: (if path_lt c then path_to key l
            else if path_gt c then path_to key r
            else [])
  end.

(* for i := len(path)-1; i >= 0; i-- { ... } *)
Fixpoint after_loop {S : Type} (f : S -> T -> S * bool) (key : T) (path : list tree)
         (fuel : nat) (i : Z) (s : S) : res (S * bool) :=
  if after_more i then
    match fuel with
    | O => OutOfFuel
    | S fuel' =>
      match (if i <? 0 then None else nth_error path (Z.to_nat i)) with
      | None => Panic                                          (* index out of range *)
      | Some Leaf => Panic                                     (* nil node on a path *)
      | Some (Node _ x r) =>
        if after_skip (cmp x key) then after_loop f key path fuel' (after_next i) s
        else let '(s1, ok1) := f s x in
        if negb ok1 then Ok (s1, false)
        else let '(s2, ok2) := inorder_until f r s1 in
        if negb ok2 then Ok (s2, false)
        else after_loop f key path fuel' (after_next i) s2
      end
    end
  else Ok (s, true).

Definition inorder_after {S : Type} (f : S -> T -> S * bool) (key : T) (n : tree) (s : S)
  : res (S * bool) :=
  let path := path_to key n in
  after_loop f key path (length path) (after_start (Z.of_nat (length path))) s.

(* ------------------------------------------------------------------ the Tree object *)

Record Tree : Type := mkTree { root : tree; beta : Z; tsize : Z; maxsize : Z }.

(* The oracle of New: slices.SortFunc is unstable, so WHICH of several equivalent keys survives
   CompactFunc is the runtime's choice.  [picks] are the indices (into keys) of the survivors in
   order.  It is validated against the specification of sort+compact: every index is in range,
   the picked keys are strictly ascending, and every given key is equivalent to a picked one. *)
Definition picked (keys : list T) (picks : list nat) : option (list T) :=
  fold_right (fun i acc =>
    match nth_error keys i, acc with
    | Some x, Some l => Some (x :: l)
    | _, _ => None
    end) (Some []) picks.

Fixpoint strictly_asc (l : list T) : bool :=
  match l with
  | [] => true
  | x :: r => match r with
              | [] => true
              | y :: _ => (cmp x y <? 0) && strictly_asc r
              end
  end.

Definition covers (keys kept : list T) : bool :=
  forallb (fun k => existsb (fun p => cmp k p =? 0) kept) keys.

Definition sort_compact (keys : list T) (picks : list nat) : res (list T) :=
  match picked keys picks with
  | None => BadOracle
  | Some kept => if strictly_asc kept && covers keys kept then Ok kept else BadOracle
  end.

Definition New (b : Z) (keys : list T) (picks : list nat) : res Tree :=
  if new_beta_bad b then Panic
  else if new_has_keys (Z.of_nat (length keys)) then
    bind (sort_compact keys picks) (fun nodes =>
    bind (extract nodes) (fun rt =>
    let n := Z.of_nat (length nodes) in
    Ok (mkTree rt b (new_size n) (new_max n))))
  else Ok (mkTree Leaf b 0 0).

Definition Clone (t : Tree) : Tree := mkTree (clone (root t)) (beta t) (tsize t) (maxsize t).

(* incSize *)
Definition inc_size_of (t : Tree) (inserted : bool) : Z * Z :=
  if inserted then
    let sz := inc_size (tsize t) in
    (sz, if inc_max_test sz (maxsize t) then inc_max sz else maxsize t)
  else (tsize t, maxsize t).

Definition Add (t : Tree) (key : T) : res (Tree * bool) :=
  bind (insert (beta t) key false (root t) (limit (beta t) (add_limit_arg (tsize t))))
    (fun '(ins, ok, _, _) =>
     let '(sz, mx) := inc_size_of t ok in
     Ok (mkTree ins (beta t) sz mx, ok)).

Definition Replace (t : Tree) (key : T) : res (Tree * bool) :=
  bind (insert (beta t) key true (root t) (limit (beta t) (replace_limit_arg (tsize t))))
    (fun '(ins, ok, _, _) =>
     let '(sz, mx) := inc_size_of t ok in
     Ok (mkTree ins (beta t) sz mx, ok)).

Definition Remove (t : Tree) (key : T) : res (Tree * bool) :=
  bind (remove key (root t)) (fun '(del, ok) =>
  if ok then
    let sz := rem_size (tsize t) in
    let bw := rem_threshold (maxsize t) (beta t) in
    if rem_rebuild sz bw then
      bind (rewrite del (rem_rewrite_size sz)) (fun rt =>
      Ok (mkTree rt (beta t) sz (rem_max sz), ok))
    else Ok (mkTree del (beta t) sz (maxsize t), ok)
  else Ok (mkTree del (beta t) (tsize t) (maxsize t), ok)).

Definition Clear (t : Tree) : Tree := mkTree Leaf (beta t) clear_size clear_max.
Definition Len (t : Tree) : Z := len_result (tsize t).
Definition IsEmpty (t : Tree) : bool := is_empty (tsize t).
Definition Get (t : Tree) (key : T) : option T := get key (root t).
Definition Min (t : Tree) : option T := tree_min (root t).
Definition Max (t : Tree) : option T := tree_max (root t).
Definition Inorder {S : Type} (t : Tree) (f : S -> T -> S * bool) (s : S) : S * bool :=
  inorder_until f (root t) s.
Definition InorderAfter {S : Type} (t : Tree) (key : T) (f : S -> T -> S * bool) (s : S)
  : res (S * bool) :=
  inorder_after f key (root t) s.

(* ------------------------------------------------------------------ histories *)

(* The yield function used by histories: record every key received (newest first) and return
   false (stop) on call number [stop]+1; [None] never stops. *)
Definition yield_log (stop : option nat) (s : list T * nat) (x : T) : (list T * nat) * bool :=
  let '(log, n) := s in
  ((x :: log, S n), match stop with None => true | Some m => negb (Nat.eqb n m) end).

Inductive op : Type :=
| ONew (b : Z) (keys : list T) (picks : list nat)    (* the new tree gets the next free index *)
| OClone (i : nat)                                   (* so does the clone *)
| OAdd (i : nat) (k : T)
| OReplace (i : nat) (k : T)
| ORemove (i : nat) (k : T)
| OClear (i : nat)
| OLen (i : nat)
| OIsEmpty (i : nat)
| OGet (i : nat) (k : T)
| OMin (i : nat)
| OMax (i : nat)
| OInorder (i : nat) (stop : option nat)
| OInorderAfter (i : nat) (k : T) (stop : option nat).

Inductive out : Type :=
| RUnit
| RBool (b : bool)
| RInt (z : Z)
| ROpt (o : option T)
| RList (l : list T)
| RNoTree            (* the op names an index no tree has *)
| RPanic
| RFuel
| RBadOracle.

Definition out_of_fail {A : Type} (r : res A) : out :=
  match r with
  | Ok _ => RUnit
  | Panic => RPanic
  | OutOfFuel => RFuel
  | BadOracle => RBadOracle
  end.

Fixpoint set_nth {A : Type} (i : nat) (a : A) (l : list A) : list A :=
  match l, i with
  | [], _ => []
  | _ :: r, O => a :: r
  | x :: r, S i' => x :: set_nth i' a r
  end.

Definition state : Type := list Tree.

(* a failing mutation leaves the tree as it was (the harness never continues after one) *)
Definition step_mut (s : state) (i : nat) (f : Tree -> res (Tree * bool)) : state * out :=
  match nth_error s i with
  | None => (s, RNoTree)
  | Some t =>
    match f t with
    | Ok (t', b) => (set_nth i t' s, RBool b)
    | r => (s, out_of_fail r)
    end
  end.

Definition step_obs (s : state) (i : nat) (f : Tree -> out) : state * out :=
  match nth_error s i with
  | None => (s, RNoTree)
  | Some t => (s, f t)
  end.

Definition step (s : state) (o : op) : state * out :=
  match o with
  | ONew b keys picks =>
    match New b keys picks with
    | Ok t => (s ++ [t], RUnit)
    | r => (s, out_of_fail r)
    end
  | OClone i =>
    match nth_error s i with
    | None => (s, RNoTree)
    | Some t => (s ++ [Clone t], RUnit)
    end
  | OAdd i k => step_mut s i (fun t => Add t k)
  | OReplace i k => step_mut s i (fun t => Replace t k)
  | ORemove i k => step_mut s i (fun t => Remove t k)
  | OClear i =>
    match nth_error s i with
    | None => (s, RNoTree)
    | Some t => (set_nth i (Clear t) s, RUnit)
    end
  | OLen i => step_obs s i (fun t => RInt (Len t))
  | OIsEmpty i => step_obs s i (fun t => RBool (IsEmpty t))
  | OGet i k => step_obs s i (fun t => ROpt (Get t k))
  | OMin i => step_obs s i (fun t => ROpt (Min t))
  | OMax i => step_obs s i (fun t => ROpt (Max t))
  | OInorder i stop =>
    step_obs s i (fun t => RList (rev (fst (fst (Inorder t (yield_log stop) ([], O))))))
  | OInorderAfter i k stop =>
    step_obs s i (fun t =>
      match InorderAfter t k (yield_log stop) ([], O) with
      | Ok (lg, _) => RList (rev (fst lg))
      | r => out_of_fail r
      end)
  end.

(* all outputs of a history, in order *)
Fixpoint run_from (s : state) (ops : list op) : list out :=
  match ops with
  | [] => []
  | o :: r => let '(s', x) := step s o in x :: run_from s' r
  end.

Definition run (ops : list op) : list out := run_from [] ops.

(* the final state as well (used by the height slice and by the driver) *)
Fixpoint exec_from (s : state) (ops : list op) : state :=
  match ops with
  | [] => s
  | o :: r => exec_from (fst (step s o)) r
  end.

End Stree.

Arguments Leaf {T}.
Arguments Node {T} l x r.
Arguments mkTree {T} root beta tsize maxsize.
Arguments root {T} t.
Arguments beta {T} t.
Arguments tsize {T} t.
Arguments maxsize {T} t.
Arguments RUnit {T}.
Arguments RBool {T} b.
Arguments RInt {T} z.
Arguments ROpt {T} o.
Arguments RList {T} l.
Arguments RNoTree {T}.
Arguments RPanic {T}.
Arguments RFuel {T}.
Arguments RBadOracle {T}.

Arguments size {T} n.
Arguments count {T} n.
Arguments height {T} n.
Arguments inorder {T} n.
Arguments clone {T} n.
Arguments vine_of {T} acc rest.
Arguments t2v_loop {T} fuel acc rest.
Arguments t2v_fuel {T} n.
Arguments tree_to_vine {T} n.
Arguments rotate_left_n {T} k chain.
Arguments rotate_left {T} chain cnt.
Arguments v2t_pack_loop {T} fuel left chain.
Arguments vine_to_tree {T} n cnt.
Arguments rewrite {T} root sz.
Arguments slice_to {T} l hi.
Arguments slice_from {T} l lo.
Arguments index_at {T} l i.
Arguments extract_fuel {T} fuel nodes.
Arguments extract {T} nodes.
Arguments ins_unwind {T} limit b root sib added sz ht.
Arguments insert {T} cmp limit b key replace root lim.
Arguments pop_left {T} p.
Arguments pop_min_right {T} root.
Arguments remove {T} cmp key n.
Arguments get {T} cmp key cur.
Arguments min_from {T} x l.
Arguments max_from {T} x r.
Arguments tree_min {T} n.
Arguments tree_max {T} n.
Arguments inorder_until {T S} f n s.
Arguments path_to {T} cmp key cur.
Arguments after_loop {T} cmp {S} f key path fuel i s.
Arguments inorder_after {T} cmp {S} f key n s.
Arguments picked {T} keys picks.
Arguments strictly_asc {T} cmp l.
Arguments covers {T} cmp keys kept.
Arguments sort_compact {T} cmp keys picks.
Arguments New {T} cmp b keys picks.
Arguments Clone {T} t.
Arguments inc_size_of {T} t inserted.
Arguments Add {T} cmp limit t key.
Arguments Replace {T} cmp limit t key.
Arguments Remove {T} cmp t key.
Arguments Clear {T} t.
Arguments Len {T} t.
Arguments IsEmpty {T} t.
Arguments Get {T} cmp t key.
Arguments Min {T} t.
Arguments Max {T} t.
Arguments Inorder {T S} t f s.
Arguments InorderAfter {T} cmp {S} t key f s.
Arguments yield_log {T} stop s x.
Arguments ONew {T} b keys picks.
Arguments OClone {T} i.
Arguments OAdd {T} i k.
Arguments OReplace {T} i k.
Arguments ORemove {T} i k.
Arguments OClear {T} i.
Arguments OLen {T} i.
Arguments OIsEmpty {T} i.
Arguments OGet {T} i k.
Arguments OMin {T} i.
Arguments OMax {T} i.
Arguments OInorder {T} i stop.
Arguments OInorderAfter {T} i k stop.
Arguments step_mut {T} s i f.
Arguments step_obs {T} s i f.
Arguments step {T} cmp limit s o.
Arguments run_from {T} cmp limit s ops.
Arguments run {T} cmp limit ops.
Arguments exec_from {T} cmp limit s ops.
