(* C01 proofs, part 4 (audit round): (1) New always has an acceptable oracle - the hypothesis of
   C01_no_failure excludes no New call; the choice the reference itself would make (insert the keys
   one by one, keeping the first of each class) is one; (2) the machine-integer expressions of
   stree.go/node.go stay inside int64 for every tree of fewer than 2^52 nodes, so reading Go ints
   as unbounded Z loses nothing there. *)
From Coq Require Import ZArith List Bool Lia.
Import ListNotations.
From Mds Require Import Gen.StreeConst Gen.StreeNode Stree.StreeModel Stree.StreeSpec Stree.StreeProofsBase
  Stree.StreeProofsSet.
Local Open Scope Z_scope.

Section Oracle.
Variable T : Type.
Variable cmp : T -> T -> Z.
Hypothesis HP : total_preorder cmp.
Notation sorted := (sorted cmp).

(* any list made of given keys can be named by indices *)
Lemma s_chosen_exists (keys kept : list T) : (forall x, In x kept -> In x keys) ->
  exists picks, s_chosen keys picks = Some kept.
Proof.
  induction kept as [|x kept IH]; intros H.
  - exists []. reflexivity.
  - destruct IH as [picks E]; [intros y Hy; apply H; right; exact Hy|].
    destruct (In_nth_error keys x) as [n N]; [apply H; left; reflexivity|].
    exists (n :: picks). unfold s_chosen in *. cbn [fold_right]. rewrite E, N. reflexivity.
Qed.

Lemma sorted_ascending l : sorted l -> s_ascending cmp l = true.
Proof.
  induction l as [|x r IH]; cbn [s_ascending StreeSpec.sorted]; [reflexivity|].
  intros [H1 H2]. destruct r as [|y r']; [reflexivity|].
  apply andb_true_intro. split; [apply Z.ltb_lt; apply H1; left; reflexivity|exact (IH H2)].
Qed.

(* Add keeps every stored element and afterwards holds an equivalent of the key *)
Lemma s_insert_keeps k l y : In y l -> In y (fst (s_insert cmp false k l)).
Proof.
  induction l as [|x r IH]; cbn [s_insert]; [intros []|].
  destruct (cmp k x <? 0); [cbn [fst]; intros H; right; exact H|].
  destruct (cmp k x =? 0); [cbn [fst]; auto|].
  destruct (s_insert cmp false k r) as [r' b]. cbn [fst] in *. intros [<-|H]; [left; reflexivity|right; auto].
Qed.

Lemma s_insert_has k l : exists x, In x (fst (s_insert cmp false k l)) /\ cmp k x = 0.
Proof.
  induction l as [|x r IH]; cbn [s_insert].
  - exists k. split; [left; reflexivity|apply cmp_refl; exact HP].
  - destruct (cmp k x <? 0); [exists k; split; [left; reflexivity|apply cmp_refl; exact HP]|].
    destruct (Z.eqb_spec (cmp k x) 0) as [E|N]; [exists x; split; [left; reflexivity|exact E]|].
    destruct IH as (z & I1 & I2). destruct (s_insert cmp false k r) as [r' b]. cbn [fst] in *.
    exists z. split; [right; exact I1|exact I2].
Qed.

(* the set the reference builds from a key list: Add them one by one *)
Definition s_of_keys (keys : list T) (l0 : list T) : list T :=
  fold_left (fun l k => fst (s_insert cmp false k l)) keys l0.

Lemma s_of_keys_ok keys : forall l0, sorted l0 ->
  sorted (s_of_keys keys l0)
  /\ (forall x, In x (s_of_keys keys l0) -> In x l0 \/ In x keys)
  /\ (forall y, In y l0 -> In y (s_of_keys keys l0))
  /\ (forall k, In k keys -> exists x, In x (s_of_keys keys l0) /\ cmp k x = 0).
Proof.
  induction keys as [|k keys IH]; intros l0 S0; cbn [s_of_keys fold_left].
  - repeat split; auto. intros k [].
  - destruct (IH (fst (s_insert cmp false k l0))) as (A & B & C & D); [apply s_insert_sorted; assumption|].
    fold (s_of_keys keys (fst (s_insert cmp false k l0))) in *.
    repeat split.
    + exact A.
    + intros x Hx. destruct (B x Hx) as [H|H]; [|right; right; exact H].
      destruct (s_insert_in T cmp false k l0 x H) as [->|H']; [right; left; reflexivity|left; exact H'].
    + intros y Hy. apply C. apply s_insert_keeps. exact Hy.
    + intros k' [<-|Hk]; [|apply D; exact Hk].
      destruct (s_insert_has k l0) as (x & I1 & I2). exists x. split; [apply C; exact I1|exact I2].
Qed.

(* every New call has an acceptable oracle *)
Theorem s_new_exists (keys : list T) : exists picks kept, s_new cmp keys picks = Some kept.
Proof.
  destruct (s_of_keys_ok keys []) as (A & B & _ & D); [exact I|].
  set (kept := s_of_keys keys []) in *.
  destruct (s_chosen_exists keys kept) as [picks E].
  { intros x Hx. destruct (B x Hx) as [[]|H]. exact H. }
  exists picks, kept. unfold s_new. rewrite E. rewrite (sorted_ascending kept A). cbn [andb].
  replace (forallb _ keys) with true; [reflexivity|]. symmetry. apply forallb_forall.
  intros k Hk. apply existsb_exists. destruct (D k Hk) as (x & I1 & I2).
  exists x. split; [exact I1|apply Z.eqb_eq; exact I2].
Qed.

End Oracle.

(* ------------------------------------------------------------------ machine integers *)
(* Every arithmetic expression the package evaluates on ints it derives from the sizes: with fewer
   than 2^52 nodes (a tree of 2^52 nodes does not fit any address space Go runs on) and a balance
   factor in 0..1000 every intermediate value lies strictly inside the int64 range.  The
   expressions are the generated ones, so a changed operator or constant is re-checked. *)
Definition i64 (z : Z) : Prop := - 2 ^ 63 <= z < 2 ^ 63.
Definition small (z : Z) : Prop := 0 <= z < 2 ^ 52.

Lemma quot_2000_bounds a : 0 <= a -> 0 <= Z.quot a 2000 <= a.
Proof.
  intros H. split; [apply Z.quot_pos; lia|].
  pose proof (Z.quot_rem' a 2000) as E. pose proof (Z.rem_bound_pos a 2000). lia.
Qed.

Lemma quot_2_bounds a : 0 <= a -> 0 <= Z.quot a 2 <= a.
Proof.
  intros H. split; [apply Z.quot_pos; lia|].
  pose proof (Z.quot_rem' a 2) as E. pose proof (Z.rem_bound_pos a 2). lia.
Qed.

Theorem int64_ranges (sz mx b lim ht sib step cnt n : Z) :
  small sz -> small mx -> 0 <= b <= 1000 -> small sib -> small ht -> small cnt -> small n ->
  - 2 ^ 52 <= lim < 2 ^ 53 -> 0 <= step <= 2 * cnt + 1 ->
  i64 (add_limit_arg sz) /\ i64 (replace_limit_arg sz) /\ i64 (inc_size sz)
  /\ i64 (ins_left_limit lim) /\ i64 (ins_right_limit lim)
  /\ i64 (ins_left_height ht) /\ i64 (ins_right_height ht)
  /\ i64 (ins_root_size sib sz)
  /\ i64 (rem_size sz)
  /\ i64 (mx * b) /\ i64 (mx * b + maxBalance) /\ i64 (rem_threshold mx b)
  /\ i64 (node_size sib sz)
  /\ i64 (v2t_step_next step) /\ i64 (v2t_step_final step) /\ i64 (v2t_first_count cnt step)
  /\ i64 (v2t_left_next step)
  /\ i64 (ext_mid n) /\ i64 (ext_right_lo (ext_mid n))
  /\ i64 (after_start n) /\ i64 (after_next n).
Proof.
  unfold small, i64. intros Hsz Hmx Hb Hsib Hht Hcnt Hn Hlim Hstep.
  assert (P52 : 2 ^ 52 = 4503599627370496) by reflexivity.
  assert (P53 : 2 ^ 53 = 9007199254740992) by reflexivity.
  assert (P63 : 2 ^ 63 = 9223372036854775808) by reflexivity.
  rewrite P52 in *. rewrite P53 in *. rewrite P63.
  assert (M : 0 <= mx * b <= 1000 * 4503599627370496) by nia.
  pose proof (quot_2000_bounds (mx * b + 1000)) as Q1.
  pose proof (quot_2_bounds step) as Q2.
  assert (Q4 : -1 <= ext_mid n <= n).   (* for any midpoint inside the slice *)
  { assert (N0 : n = 0 \/ 0 < n) by lia. destruct N0 as [->|N0]; [vm_compute; split; discriminate|].
    pose proof (gen_ext_mid_range n N0). lia. }
  unfold add_limit_arg, replace_limit_arg, inc_size, ins_left_limit, ins_right_limit,
    ins_left_height, ins_right_height, ins_root_size, rem_size, rem_threshold, maxBalance, node_size,
    v2t_step_next, v2t_step_final, v2t_first_count, v2t_left_next, ext_right_lo,
    after_start, after_next.
  change (Z.mul 2 1000) with 2000.
  generalize dependent (ext_mid n). generalize dependent (Z.quot step 2).
  generalize dependent (Z.quot (mx * b + 1000) 2000).
  intros q1 Q1 q2 Q2 q3 Q3.
  repeat split; lia.
Qed.
