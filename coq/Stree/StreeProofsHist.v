(* C01 proofs, part 3: the Tree object and whole histories.  Every output of every history of the
   model equals the output of the sorted-list reference; failures (Panic, OutOfFuel, BadOracle)
   occur only where the reference says so. *)
From Coq Require Import ZArith List Bool Lia.
Import ListNotations.
From Mds Require Import Gen.StreeConst Gen.StreeNode Stree.StreeModel Stree.StreeSpec
  Stree.StreeProofsBase Stree.StreeProofsSet.
Local Open Scope Z_scope.

Section Hist.
Variable T : Type.
Variable cmp : T -> T -> Z.
Hypothesis HP : total_preorder cmp.
Variable limit : Z -> Z -> Z.

Notation sorted := (sorted cmp).

(* a tree object represents a reference set *)
Definition rel (t : Tree T) (l : list T) : Prop :=
  inorder (root t) = l /\ sorted l /\ tsize t = Z.of_nat (length l).

(* ------------------------------------------------------------------ New *)
Lemma picked_chosen (keys : list T) picks : picked keys picks = s_chosen keys picks.
Proof. reflexivity. Qed.

Lemma asc_asc (l : list T) : strictly_asc cmp l = s_ascending cmp l.
Proof.
  induction l as [|x r IH]; [reflexivity|]. cbn [strictly_asc s_ascending].
  destruct r; [reflexivity|]. rewrite IH. reflexivity.
Qed.

Lemma sort_compact_new keys picks :
  sort_compact cmp keys picks = match s_new cmp keys picks with Some k => Ok k | None => BadOracle end.
Proof.
  unfold sort_compact, s_new. rewrite picked_chosen. destruct (s_chosen keys picks) as [kept|]; [|reflexivity].
  rewrite asc_asc. unfold covers. destruct (s_ascending cmp kept && _); reflexivity.
Qed.

Lemma s_chosen_in (keys : list T) : forall picks kept, s_chosen keys picks = Some kept ->
  forall x, In x kept -> In x keys.
Proof.
  induction picks as [|i picks IH]; intros kept H x Hx.
  - cbn in H. injection H as <-. destruct Hx.
  - cbn [s_chosen fold_right] in H. fold (s_chosen keys picks) in H.
    destruct (nth_error keys i) as [y|] eqn:N; [|discriminate].
    destruct (s_chosen keys picks) as [l|]; [|discriminate]. injection H as <-.
    destruct Hx as [<-|Hx]; [eapply nth_error_In; exact N|eapply IH; [reflexivity|exact Hx]].
Qed.

(* what an accepted choice is: strictly ascending, made of given keys, one for every class *)
Lemma s_new_choice keys picks kept : s_new cmp keys picks = Some kept ->
  sorted kept /\ (forall x, In x kept -> In x keys) /\ (forall k, In k keys -> exists x, In x kept /\ cmp k x = 0).
Proof.
  unfold s_new. destruct (s_chosen keys picks) as [kp|] eqn:C; [|discriminate].
  destruct (s_ascending cmp kp) eqn:A; [|discriminate]. cbn [andb].
  destruct (forallb _ keys) eqn:F; [|discriminate]. intros H. injection H as <-.
  split; [apply ascending_sorted; assumption|]. split; [eapply s_chosen_in; exact C|].
  intros k Hk. rewrite forallb_forall in F. specialize (F k Hk). apply existsb_exists in F.
  destruct F as (x & Hx & E). exists x. split; [exact Hx|]. apply Z.eqb_eq. exact E.
Qed.

Lemma New_ok b keys picks :
  match New cmp b keys picks with
  | Ok t => 0 <= b <= 1000 /\ exists l, (match keys with [] => Some [] | _ => s_new cmp keys picks end) = Some l /\ rel t l /\ beta t = b
  | Panic => (b <? 0) || (1000 <? b) = true
  | BadOracle => (b <? 0) || (1000 <? b) = false /\ keys <> [] /\ s_new cmp keys picks = None
  | OutOfFuel => False
  end.
Proof.
  unfold New. rewrite gen_new_beta_bad. rewrite Z.gtb_ltb.
  destruct ((b <? 0) || (1000 <? b)) eqn:B; [reflexivity|].
  assert (R : 0 <= b <= 1000).
  { apply orb_false_elim in B. destruct B as [B1 B2]. apply Z.ltb_ge in B1. apply Z.ltb_ge in B2. lia. }
  rewrite gen_new_has_keys. destruct keys as [|k0 keys'].
  - cbn. split; [exact R|]. exists []. split; [reflexivity|]. split; [|reflexivity].
    split; [reflexivity|]. split; [exact I|reflexivity].
  - destruct (Z.eqb_spec (Z.of_nat (length (k0 :: keys'))) 0) as [E|_]; [cbn [length] in E; lia|].
    cbn [negb]. rewrite sort_compact_new.
    destruct (s_new cmp (k0 :: keys') picks) as [kept|] eqn:N; cbn [bind].
    + destruct (extract_ok T kept) as (rt & E & I). rewrite E. cbn [bind].
      split; [exact R|]. exists kept. split; [reflexivity|]. split; [|reflexivity].
      split; [exact I|]. split; [apply (s_new_choice _ _ _ N)|]. cbn [tsize]. apply gen_new_size.
    + split; [reflexivity|]. split; [discriminate|reflexivity].
Qed.

(* ------------------------------------------------------------------ mutations *)
Lemma inc_size_rel (t : Tree T) (added : bool) (l' l : list T) :
  tsize t = Z.of_nat (length l) -> length l' = (if added then S (length l) else length l) ->
  fst (inc_size_of t added) = Z.of_nat (length l').
Proof.
  intros H1 H2. unfold inc_size_of. destruct added; cbn [fst].
  - rewrite gen_inc_size. lia.
  - lia.
Qed.

Lemma Add_ok t l k : rel t l ->
  exists t', Add cmp limit t k = Ok (t', snd (s_insert cmp false k l)) /\ rel t' (fst (s_insert cmp false k l))
             /\ beta t' = beta t.
Proof.
  intros (I & S & Z). unfold Add. subst l.
  destruct (insert_ok T cmp HP limit (beta t) k false (root t) (limit (beta t) (add_limit_arg (tsize t))) S)
    as (ins & sz & ht & E & I' & _).
  rewrite E. cbn [bind].
  destruct (inc_size_of t (snd (s_insert cmp false k (inorder (root t))))) as [sz' mx] eqn:IS.
  eexists. split; [reflexivity|]. split; [|reflexivity].
  split; [exact I'|]. split; [apply s_insert_sorted; assumption|]. cbn [tsize].
  change sz' with (fst (sz', mx)). rewrite <- IS.
  eapply inc_size_rel; [exact Z|apply s_insert_length].
Qed.

Lemma Replace_ok t l k : rel t l ->
  exists t', Replace cmp limit t k = Ok (t', snd (s_insert cmp true k l)) /\ rel t' (fst (s_insert cmp true k l))
             /\ beta t' = beta t.
Proof.
  intros (I & S & Z). unfold Replace. subst l.
  destruct (insert_ok T cmp HP limit (beta t) k true (root t) (limit (beta t) (replace_limit_arg (tsize t))) S)
    as (ins & sz & ht & E & I' & _).
  rewrite E. cbn [bind].
  destruct (inc_size_of t (snd (s_insert cmp true k (inorder (root t))))) as [sz' mx] eqn:IS.
  eexists. split; [reflexivity|]. split; [|reflexivity].
  split; [exact I'|]. split; [apply s_insert_sorted; assumption|]. cbn [tsize].
  change sz' with (fst (sz', mx)). rewrite <- IS.
  eapply inc_size_rel; [exact Z|apply s_insert_length].
Qed.

(* the count handed to the delete-side rebuild is exactly the number of nodes left *)
Lemma Remove_rewrite_size_exact (t : Tree T) l k del :
  tsize t = Z.of_nat (length l) -> snd (s_remove cmp k l) = true ->
  inorder del = fst (s_remove cmp k l) ->
  rem_rewrite_size (rem_size (tsize t)) = size del.
Proof.
  intros Z OK I. rewrite gen_rem_rewrite_size, gen_rem_size, size_inorder, I.
  pose proof (s_remove_length T cmp k l) as L. rewrite OK in L. lia.
Qed.

Lemma Remove_ok t l k : rel t l ->
  exists t', Remove cmp t k = Ok (t', snd (s_remove cmp k l)) /\ rel t' (fst (s_remove cmp k l))
             /\ beta t' = beta t.
Proof.
  intros (I & S & Z). unfold Remove. subst l.
  destruct (remove_ok T cmp HP k (root t) S) as (del & E & I').
  rewrite E. cbn [bind].
  pose proof (s_remove_sorted T cmp k _ S) as S'.
  pose proof (s_remove_length T cmp k (inorder (root t))) as L.
  destruct (snd (s_remove cmp k (inorder (root t)))) eqn:OK.
  - destruct (rem_rebuild _ _).
    + destruct (rewrite_ok T del (rem_rewrite_size (rem_size (tsize t)))) as (rt & E2 & I2).
      { eapply Remove_rewrite_size_exact; eassumption. }
      rewrite E2. cbn [bind]. eexists. split; [reflexivity|]. split; [|reflexivity].
      split; [cbn [root]; congruence|]. split; [exact S'|]. cbn [tsize]. rewrite gen_rem_size. lia.
    + eexists. split; [reflexivity|]. split; [|reflexivity].
      split; [exact I'|]. split; [exact S'|]. cbn [tsize]. rewrite gen_rem_size. lia.
  - eexists. split; [reflexivity|]. split; [|reflexivity].
    split; [exact I'|]. split; [exact S'|]. cbn [tsize]. lia.
Qed.

Lemma Clear_ok (t : Tree T) : rel (Clear t) [].
Proof. split; [reflexivity|]. split; [exact I|]. cbn [Clear tsize]. apply gen_clear_size. Qed.

Lemma Clone_ok (t : Tree T) l : rel t l -> rel (Clone t) l.
Proof. intros (I & S & Z). unfold Clone. split; [cbn [root]; rewrite inorder_clone; exact I|]. split; assumption. Qed.

(* ------------------------------------------------------------------ observers *)
Lemma Len_ok t l : rel t l -> Len t = Z.of_nat (length l).
Proof. intros (_ & _ & Z). unfold Len. rewrite gen_len_result. exact Z. Qed.

Lemma IsEmpty_ok t l : rel t l -> IsEmpty t = match l with [] => true | _ => false end.
Proof.
  intros (_ & _ & Z). unfold IsEmpty. rewrite gen_is_empty, Z.
  destruct l; [reflexivity|]. cbn [length]. destruct (Z.eqb_spec (Z.of_nat (S (length l))) 0); [lia|reflexivity].
Qed.

Lemma Get_ok t l k : rel t l -> Get cmp t k = s_get cmp k l.
Proof. intros (I & S & _). subst l. apply get_ok; assumption. Qed.

Lemma Min_ok t l : rel t l -> Min t = s_min l.
Proof. intros (I & _). subst l. apply tree_min_ok. Qed.

Lemma Max_ok t l : rel t l -> Max t = s_max l.
Proof. intros (I & _). subst l. apply tree_max_ok. Qed.

Lemma upto_ok stop (l : list T) :
  rev (fst (fst (list_until T _ (yield_log stop) l ([], O)))) = s_upto stop l.
Proof.
  rewrite yield_log_ok by (destruct stop; [lia|exact I]).
  rewrite app_nil_r, rev_involutive. unfold s_upto. destruct stop as [m|]; [|reflexivity].
  rewrite Nat.sub_0_r. reflexivity.
Qed.

Lemma Inorder_ok t l stop : rel t l ->
  rev (fst (fst (Inorder t (yield_log stop) ([], O)))) = s_upto stop l.
Proof. intros (I & _). subst l. unfold Inorder. rewrite inorder_until_ok. apply upto_ok. Qed.

Lemma InorderAfter_ok t l k stop : rel t l ->
  exists lg b, InorderAfter cmp t k (yield_log stop) ([], O) = Ok (lg, b)
               /\ rev (fst lg) = s_upto stop (s_after cmp k l).
Proof.
  intros (I & S & _). subst l. unfold InorderAfter. rewrite (inorder_after_ok T cmp HP) by exact S.
  destruct (list_until T _ (yield_log stop) (s_after cmp k (inorder (root t))) ([], O)) as [lg b] eqn:E.
  exists lg, b. split; [reflexivity|]. rewrite <- upto_ok. rewrite E. reflexivity.
Qed.

(* ------------------------------------------------------------------ states *)
Definition Rel (s : state T) (s' : sstate T) : Prop := Forall2 rel s s'.

Lemma Rel_nth s s' i : Rel s s' ->
  match nth_error s i, nth_error s' i with
  | Some t, Some l => rel t l
  | None, None => True
  | _, _ => False
  end.
Proof.
  intros H. revert i. induction H as [|t l s s' H1 H2 IH]; intros [|i]; cbn; auto. apply IH.
Qed.

Lemma Rel_set s s' i t l : Rel s s' -> rel t l -> Rel (set_nth i t s) (set_nth i l s').
Proof.
  intros H R. revert i. induction H as [|t0 l0 s s' H1 H2 IH]; intros [|i]; cbn; try constructor; auto.
  apply IH.
Qed.

Lemma Rel_app s s' t l : Rel s s' -> rel t l -> Rel (s ++ [t]) (s' ++ [l]).
Proof. intros H R. apply Forall2_app; [exact H|]. constructor; [exact R|constructor]. Qed.

Lemma step_refines s s' o : Rel s s' ->
  snd (step cmp limit s o) = snd (spec_step cmp s' o)
  /\ Rel (fst (step cmp limit s o)) (fst (spec_step cmp s' o)).
Proof.
  intros H.
  assert (MUT : forall i f g,
    (forall t l, rel t l -> exists t', f t = Ok (t', snd (g l)) /\ rel t' (fst (g l)) /\ beta t' = beta t) ->
    snd (step_mut s i f) = snd (s_mut s' i g) /\ Rel (fst (step_mut s i f)) (fst (s_mut s' i g))).
  { intros i f g F. unfold step_mut, s_mut. pose proof (Rel_nth s s' i H) as N.
    destruct (nth_error s i) as [t|], (nth_error s' i) as [l|]; [|destruct N|destruct N|split; [reflexivity|exact H]].
    destruct (F t l N) as (t' & E & R' & _). rewrite E. destruct (g l) as [l' b]. cbn [fst snd] in *.
    split; [reflexivity|]. apply Rel_set; assumption. }
  assert (OBS : forall i f g, (forall t l, rel t l -> f t = g l) ->
    snd (step_obs s i f) = snd (s_obs s' i g) /\ Rel (fst (step_obs s i f)) (fst (s_obs s' i g))).
  { intros i f g F. unfold step_obs, s_obs. pose proof (Rel_nth s s' i H) as N.
    destruct (nth_error s i) as [t|], (nth_error s' i) as [l|]; [|destruct N|destruct N|split; [reflexivity|exact H]].
    cbn [fst snd]. split; [apply F; exact N|exact H]. }
  destruct o as [b keys picks|i|i k|i k|i k|i|i|i|i k|i|i|i stop|i k stop]; cbn [step spec_step].
  - pose proof (New_ok b keys picks) as N. destruct (New cmp b keys picks) as [t| | |].
    + destruct N as (R & l & E & RL & _).
      assert (B : (b <? 0) || (1000 <? b) = false).
      { apply orb_false_intro; apply Z.ltb_ge; lia. }
      rewrite B. destruct keys as [|k0 keys'].
      * injection E as <-. cbn [fst snd]. split; [reflexivity|]. apply Rel_app; assumption.
      * rewrite E. cbn [fst snd]. split; [reflexivity|]. apply Rel_app; assumption.
    + rewrite N. split; [reflexivity|exact H].
    + destruct N.
    + destruct N as (B & NE & E). rewrite B. destruct keys as [|k0 keys']; [congruence|]. rewrite E.
      split; [reflexivity|exact H].
  - pose proof (Rel_nth s s' i H) as N.
    destruct (nth_error s i) as [t|], (nth_error s' i) as [l|]; [|destruct N|destruct N|split; [reflexivity|exact H]].
    cbn [fst snd]. split; [reflexivity|]. apply Rel_app; [exact H|]. apply Clone_ok. exact N.
  - apply MUT. intros t l R. apply Add_ok. exact R.
  - apply MUT. intros t l R. apply Replace_ok. exact R.
  - apply MUT. intros t l R. apply Remove_ok. exact R.
  - pose proof (Rel_nth s s' i H) as N.
    destruct (nth_error s i) as [t|], (nth_error s' i) as [l|]; [|destruct N|destruct N|split; [reflexivity|exact H]].
    cbn [fst snd]. split; [reflexivity|]. apply Rel_set; [exact H|apply Clear_ok].
  - apply OBS. intros t l R. f_equal. apply Len_ok. exact R.
  - apply OBS. intros t l R. f_equal. apply IsEmpty_ok. exact R.
  - apply OBS. intros t l R. f_equal. apply Get_ok. exact R.
  - apply OBS. intros t l R. f_equal. apply Min_ok. exact R.
  - apply OBS. intros t l R. f_equal. apply Max_ok. exact R.
  - apply OBS. intros t l R. f_equal. apply Inorder_ok. exact R.
  - apply OBS. intros t l R. destruct (InorderAfter_ok t l k stop R) as (lg & b & E & U).
    rewrite E. f_equal. exact U.
Qed.

Lemma run_from_refines ops : forall s s', Rel s s' -> run_from cmp limit s ops = spec_run_from cmp s' ops.
Proof.
  induction ops as [|o ops IH]; intros s s' H; [reflexivity|].
  cbn [run_from spec_run_from]. destruct (step_refines s s' o H) as [E R].
  destruct (step cmp limit s o) as [s1 x], (spec_step cmp s' o) as [s1' x']. cbn [fst snd] in *.
  subst x'. f_equal. apply IH. exact R.
Qed.

Theorem run_refines ops : run cmp limit ops = spec_run cmp ops.
Proof. apply run_from_refines. constructor. Qed.

(* the states reached are related too (used by the height slice: contents of the final state) *)
Lemma exec_from_rel ops : forall s s', Rel s s' ->
  exists s1', Rel (exec_from cmp limit s ops) s1'.
Proof.
  induction ops as [|o ops IH]; intros s s' H; [exists s'; exact H|].
  cbn [exec_from]. destruct (step_refines s s' o H) as [_ R]. eapply IH. exact R.
Qed.

(* ------------------------------------------------------------------ failures *)
(* The reference fails only where its text says so. *)
Definition ok_new (o : op T) : Prop :=
  match o with
  | ONew b keys picks => 0 <= b <= 1000 /\ (keys = [] \/ s_new cmp keys picks <> None)
  | _ => True
  end.

Lemma spec_no_failure ops : forall s', Forall ok_new ops ->
  forall x, In x (spec_run_from cmp s' ops) -> x <> RPanic /\ x <> RFuel /\ x <> RBadOracle.
Proof.
  induction ops as [|o ops IH]; intros s' F x Hx; [destruct Hx|].
  inversion F as [|? ? F1 F2]; subst.
  cbn [spec_run_from] in Hx. destruct (spec_step cmp s' o) as [s1' x'] eqn:E.
  destruct Hx as [<-|Hx]; [|eapply IH; eassumption].
  destruct o as [b keys picks|i|i k|i k|i k|i|i|i|i k|i|i|i stop|i k stop]; cbn [spec_step] in E;
    unfold s_mut, s_obs in E;
    try (destruct (nth_error s' i) as [l|]; [try destruct (s_insert cmp _ k l); try destruct (s_remove cmp k l)|];
         injection E as _ <-; repeat split; discriminate).
  destruct F1 as [R V].
  assert (B : (b <? 0) || (1000 <? b) = false) by (apply orb_false_intro; apply Z.ltb_ge; lia).
  rewrite B in E. destruct keys as [|k0 keys'].
  - injection E as _ <-. repeat split; discriminate.
  - destruct V as [V|V]; [discriminate|].
    destruct (s_new cmp (k0 :: keys') picks); [|congruence].
    injection E as _ <-. repeat split; discriminate.
Qed.

Theorem run_no_failure ops : Forall ok_new ops ->
  forall x, In x (run cmp limit ops) -> x <> RPanic /\ x <> RFuel /\ x <> RBadOracle.
Proof. intros F x. rewrite run_refines. apply spec_no_failure. exact F. Qed.

(* ------------------------------------------------------------------ iteration is strictly ascending *)
Lemma sorted_filter (p : T -> bool) l : sorted l -> sorted (filter p l).
Proof.
  induction l as [|x r IH]; cbn [filter StreeSpec.sorted]; [auto|].
  intros [H1 H2]. destruct (p x); cbn [StreeSpec.sorted]; [|auto]. split; [|auto].
  intros y Hy. apply filter_In in Hy. apply H1. apply Hy.
Qed.

Lemma in_firstn (y : T) n : forall l, In y (firstn n l) -> In y l.
Proof.
  induction n as [|n IH]; intros [|x r]; cbn [firstn In]; auto; try tauto. intros [E|H]; [left; exact E|right; auto].
Qed.

Lemma sorted_firstn n : forall l, sorted l -> sorted (firstn n l).
Proof.
  induction n as [|n IH]; intros [|x r]; cbn [firstn StreeSpec.sorted]; auto.
  intros [H1 H2]. split; [|auto]. intros y Hy. apply H1. eapply in_firstn. exact Hy.
Qed.

Lemma sorted_upto stop l : sorted l -> sorted (s_upto stop l).
Proof. destruct stop; cbn [s_upto]; [apply sorted_firstn|auto]. Qed.

Lemma Forall_set_nth (P : list T -> Prop) a : forall i s, Forall P s -> P a -> Forall P (set_nth i a s).
Proof.
  intros i s H Pa. revert i. induction H as [|x s Hx Hs IH]; intros [|i]; cbn [set_nth]; constructor; auto.
Qed.

Lemma Forall_nth (P : list T -> Prop) s i l : Forall P s -> nth_error s i = Some l -> P l.
Proof. intros H N. rewrite Forall_forall in H. apply H. eapply nth_error_In. exact N. Qed.

Lemma spec_step_sorted s' o : Forall sorted s' ->
  Forall sorted (fst (spec_step cmp s' o))
  /\ forall l, snd (spec_step cmp s' o) = RList l -> sorted l.
Proof.
  intros H.
  destruct o as [b keys picks|i|i k|i k|i k|i|i|i|i k|i|i|i stop|i k stop]; cbn [spec_step];
    unfold s_mut, s_obs.
  - destruct ((b <? 0) || (1000 <? b)); [split; [exact H|discriminate]|].
    destruct keys as [|k0 keys'].
    + split; [|discriminate]. apply Forall_app. split; [exact H|]. constructor; [exact I|constructor].
    + destruct (s_new cmp (k0 :: keys') picks) as [kept|] eqn:N; [|split; [exact H|discriminate]].
      split; [|discriminate]. apply Forall_app. split; [exact H|].
      constructor; [apply (s_new_choice _ _ _ N)|constructor].
  - destruct (nth_error s' i) as [l|] eqn:N; [|split; [exact H|discriminate]].
    split; [|discriminate]. apply Forall_app. split; [exact H|].
    constructor; [eapply Forall_nth; eassumption|constructor].
  - destruct (nth_error s' i) as [l|] eqn:N; [|split; [exact H|discriminate]].
    pose proof (s_insert_sorted T cmp HP false k l (Forall_nth _ _ _ _ H N)) as S'.
    destruct (s_insert cmp false k l) as [l' b]. split; [|discriminate]. apply Forall_set_nth; assumption.
  - destruct (nth_error s' i) as [l|] eqn:N; [|split; [exact H|discriminate]].
    pose proof (s_insert_sorted T cmp HP true k l (Forall_nth _ _ _ _ H N)) as S'.
    destruct (s_insert cmp true k l) as [l' b]. split; [|discriminate]. apply Forall_set_nth; assumption.
  - destruct (nth_error s' i) as [l|] eqn:N; [|split; [exact H|discriminate]].
    pose proof (s_remove_sorted T cmp k l (Forall_nth _ _ _ _ H N)) as S'.
    destruct (s_remove cmp k l) as [l' b]. split; [|discriminate]. apply Forall_set_nth; assumption.
  - destruct (nth_error s' i) as [l|] eqn:N; [|split; [exact H|discriminate]].
    split; [|discriminate]. apply Forall_set_nth; [exact H|exact I].
  - destruct (nth_error s' i); split; try exact H; discriminate.
  - destruct (nth_error s' i); split; try exact H; discriminate.
  - destruct (nth_error s' i); split; try exact H; discriminate.
  - destruct (nth_error s' i); split; try exact H; discriminate.
  - destruct (nth_error s' i); split; try exact H; discriminate.
  - destruct (nth_error s' i) as [l|] eqn:N; [|split; [exact H|discriminate]].
    split; [exact H|]. cbn [snd]. intros l0 E. injection E as <-.
    apply sorted_upto. eapply Forall_nth; eassumption.
  - destruct (nth_error s' i) as [l|] eqn:N; [|split; [exact H|discriminate]].
    split; [exact H|]. cbn [snd]. intros l0 E. injection E as <-.
    apply sorted_upto. apply sorted_filter. eapply Forall_nth; eassumption.
Qed.

Lemma spec_run_sorted ops : forall s', Forall sorted s' ->
  forall l, In (RList l) (spec_run_from cmp s' ops) -> sorted l.
Proof.
  induction ops as [|o ops IH]; intros s' H l Hl; [destruct Hl|].
  cbn [spec_run_from] in Hl. destruct (spec_step_sorted s' o H) as [H1 H2].
  destruct (spec_step cmp s' o) as [s1' x]. cbn [fst snd] in *.
  destruct Hl as [E|Hl]; [apply H2; exact E|eapply IH; eassumption].
Qed.

(* every sequence any Inorder / InorderAfter call of any history delivers is strictly ascending *)
Theorem run_iteration_ascending ops l : In (RList l) (run cmp limit ops) -> sorted l.
Proof. rewrite run_refines. apply spec_run_sorted. constructor. Qed.

(* ------------------------------------------------------------------ other trees are left alone *)
Definition target (o : op T) : option nat :=
  match o with
  | OAdd i _ | OReplace i _ | ORemove i _ | OClear i => Some i
  | _ => None
  end.

Lemma nth_set_nth_other (A : Type) (a : A) : forall i j (s : list A), j <> i -> nth_error (set_nth i a s) j = nth_error s j.
Proof.
  induction i as [|i IH]; intros [|j] [|x s] N; cbn [set_nth nth_error]; try reflexivity; try congruence.
  apply IH. congruence.
Qed.

Lemma nth_app_old (A : Type) (s : list A) (a : A) j : (j < length s)%nat -> nth_error (s ++ [a]) j = nth_error s j.
Proof. intros H. apply nth_error_app1. exact H. Qed.

(* In the model: an operation changes at most the tree it names; New and Clone only append. *)
Theorem step_frame (s : state T) o j : (j < length s)%nat -> target o <> Some j ->
  nth_error (fst (step cmp limit s o)) j = nth_error s j.
Proof.
  intros Hj Ht.
  destruct o as [b keys picks|i|i k|i k|i k|i|i|i|i k|i|i|i stop|i k stop]; cbn [step target] in *;
    unfold step_mut, step_obs.
  - destruct (New cmp b keys picks); cbn [fst]; try reflexivity. apply nth_app_old. exact Hj.
  - destruct (nth_error s i); cbn [fst]; [apply nth_app_old; exact Hj|reflexivity].
  - destruct (nth_error s i) as [t|]; [|reflexivity]. destruct (Add cmp limit t k) as [[t' b]| | |]; cbn [fst]; try reflexivity.
    apply nth_set_nth_other. congruence.
  - destruct (nth_error s i) as [t|]; [|reflexivity]. destruct (Replace cmp limit t k) as [[t' b]| | |]; cbn [fst]; try reflexivity.
    apply nth_set_nth_other. congruence.
  - destruct (nth_error s i) as [t|]; [|reflexivity]. destruct (Remove cmp t k) as [[t' b]| | |]; cbn [fst]; try reflexivity.
    apply nth_set_nth_other. congruence.
  - destruct (nth_error s i) as [t|]; [|reflexivity]. cbn [fst]. apply nth_set_nth_other. congruence.
  - destruct (nth_error s i); reflexivity.
  - destruct (nth_error s i); reflexivity.
  - destruct (nth_error s i); reflexivity.
  - destruct (nth_error s i); reflexivity.
  - destruct (nth_error s i); reflexivity.
  - destruct (nth_error s i); reflexivity.
  - destruct (nth_error s i); reflexivity.
Qed.

End Hist.
