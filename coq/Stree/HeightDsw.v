(* C02: the Day-Stout-Warren balance argument, model independent.

   A right spine is a list of entries; one left-rotation pass of [c] rotations joins the entries
   pairwise from the front ([compress c]).  Each entry has a level [lv] (number of node levels of
   the left subtree hanging off it, 0 for none) and joining two entries gives 1 + max.  [H] is the
   number of levels of the whole spine seen as a tree.

   The invariant of the packing passes (after Stout & Warren): the spine is  front ++ tail  where
   front has 2^r - 1 entries of level <= j + d and tail has j entries, the i-th of them (from the
   front) of level <= j - 1 - i + d.  One pass of 2^(r-1) - 1 rotations re-establishes it for
   r-1, j+1; at r = 1 the spine has at most 1 + j + d levels. *)
From Coq Require Import List Arith Lia PeanoNat.
Import ListNotations.

Section Dsw.
Variable A : Type.
Variable join : A -> A -> A.
Variable lv : A -> nat.
Hypothesis lv_join : forall a b, lv (join a b) = 1 + Nat.max (lv a) (lv b).

Fixpoint H (l : list A) : nat :=
  match l with [] => 0 | a :: rest => 1 + Nat.max (lv a) (H rest) end.

Fixpoint compress (c : nat) (l : list A) : list A :=
  match c, l with
  | S c', a :: b :: rest => join a b :: compress c' rest
  | _, _ => l
  end.

Inductive TailOK (d : nat) : nat -> list A -> Prop :=
| TailNil : TailOK d 0 []
| TailCons j x t : lv x <= j + d -> TailOK d j t -> TailOK d (S j) (x :: t).

Lemma compress_0 l : compress 0 l = l.
Proof. destruct l; reflexivity. Qed.

Lemma compress_app m : forall l1 l2, length l1 = 2 * m ->
  compress m (l1 ++ l2) = compress m l1 ++ l2.
Proof.
  induction m as [|m IH]; intros l1 l2 Hl.
  - rewrite !compress_0. reflexivity.
  - destruct l1 as [|a [|b l1]]; simpl in Hl; try lia.
    simpl. f_equal. apply IH. lia.
Qed.

Lemma compress_len m : forall l, length l = 2 * m -> length (compress m l) = m.
Proof.
  induction m as [|m IH]; intros l Hl.
  - destruct l; simpl in *; [reflexivity|lia].
  - destruct l as [|a [|b l]]; simpl in Hl; try lia. simpl. f_equal. apply IH. lia.
Qed.

(* the general length: every rotation removes one entry *)
Lemma compress_length m : forall l, 2 * m <= length l -> length (compress m l) = length l - m.
Proof.
  induction m as [|m IH]; intros l Hl.
  - rewrite compress_0. lia.
  - destruct l as [|a [|b l]]; cbn [length] in Hl; try lia.
    cbn [compress length]. rewrite IH by lia. lia.
Qed.

Lemma compress_bound m : forall l B, length l = 2 * m -> Forall (fun x => lv x <= B) l ->
  Forall (fun x => lv x <= S B) (compress m l).
Proof.
  induction m as [|m IH]; intros l B Hl HB.
  - destruct l; simpl in *; [constructor|lia].
  - destruct l as [|a [|b l]]; simpl in Hl; try lia.
    inversion HB as [|? ? Ha HB']; subst. inversion HB' as [|? ? Hb HB'']; subst.
    simpl. constructor; [rewrite lv_join; lia|]. apply IH; [lia|assumption].
Qed.

(* without the exact length: entries not reached by the pass keep their level *)
Lemma compress_bound_any m : forall l B, Forall (fun x => lv x <= B) l ->
  Forall (fun x => lv x <= S B) (compress m l).
Proof.
  induction m as [|m IH]; intros l B HB.
  - rewrite compress_0. eapply Forall_impl; [|exact HB]. cbn. intros; lia.
  - destruct l as [|a [|b l]]; cbn [compress].
    + constructor.
    + eapply Forall_impl; [|exact HB]. cbn. intros; lia.
    + inversion HB as [|? ? Ha HB']; subst. inversion HB' as [|? ? Hb HB'']; subst.
      constructor; [rewrite lv_join; lia|]. apply IH. assumption.
Qed.

Lemma H_tail d : forall j t, TailOK d j t -> H t <= j + d.
Proof.
  intros j t Ht. induction Ht as [|j x t Hx Ht IH]; simpl; lia.
Qed.

Lemma H_front_tail B : forall front tail, Forall (fun x => lv x <= B) front -> H tail <= B ->
  H (front ++ tail) <= length front + B.
Proof.
  induction front as [|a front IH]; intros tail HF HT; simpl.
  - lia.
  - inversion HF; subst. specialize (IH tail ltac:(assumption) HT). lia.
Qed.

(* one packing pass *)
Lemma pass_step d m j front tail :
  length front = 2 * m + 1 ->
  Forall (fun x => lv x <= j + d) front ->
  TailOK d j tail ->
  exists front' tail',
    compress m (front ++ tail) = front' ++ tail' /\
    length front' = m /\
    Forall (fun x => lv x <= S j + d) front' /\
    TailOK d (S j) tail'.
Proof.
  intros Hlen Hfr Ht.
  assert (Hsplit : exists f1 x, front = f1 ++ [x] /\ length f1 = 2 * m).
  { destruct (exists_last (l:=front)) as [f1 [x Hx]].
    - intro; subst; cbn [length] in Hlen; lia.
    - exists f1, x. split; [assumption|]. subst front. rewrite app_length in Hlen.
      cbn [length] in Hlen. lia. }
  destruct Hsplit as [f1 [x [-> Hl1]]].
  rewrite <- app_assoc. rewrite compress_app by assumption.
  apply Forall_app in Hfr. destruct Hfr as [Hf1 Hx]. inversion Hx; subst.
  exists (compress m f1), (x :: tail). split; [reflexivity|]. split; [apply compress_len; assumption|].
  split.
  - replace (S j + d) with (S (j + d)) by lia. apply compress_bound; assumption.
  - constructor; [lia|assumption].
Qed.

(* the end of the passes: front has one entry *)
Lemma pass_end d j front tail :
  length front = 1 -> Forall (fun x => lv x <= j + d) front -> TailOK d j tail ->
  H (front ++ tail) <= 1 + j + d.
Proof.
  intros Hlen Hfr Ht. destruct front as [|f0 [|? ?]]; simpl in Hlen; try lia.
  inversion Hfr; subst. pose proof (H_tail _ _ _ Ht). simpl. lia.
Qed.

End Dsw.
