(* Entry points for the "big tree" lines of cursortrace (round 3).  DEFINITIONS ONLY.

   The B lines of harness/cmd/cursortrace grow and shrink one stree.Tree by thousands of
   Add/Remove calls before cursors are taken; the replay driver rebuilds that tree with the C01
   tree model (StreeModel.New/Add/Remove, the depth-limit function supplied by the driver as in
   ocaml/stree_driver.ml) instead of reading its shape from the trace line.  These wrappers only
   give the functions it needs names that extraction cannot rename. *)
From Coq Require Import ZArith List.
Import ListNotations.
From Mds Require Import Stree.StreeModel.
Local Open Scope Z_scope.

Section Big.
Variable T : Type.
Variable cmp : T -> T -> Z.
Variable limit : Z -> Z -> Z.

(* stree.New(beta, cmp) without keys *)
Definition big_new (b : Z) : res (Tree T) := New cmp b [] [].
Definition big_add (t : Tree T) (k : T) : res (Tree T * bool) := Add cmp limit t k.
Definition big_remove (t : Tree T) (k : T) : res (Tree T * bool) := Remove cmp t k.
Definition big_root (t : Tree T) : tree T := root t.
Definition big_len (t : Tree T) : Z := Len t.
End Big.

Arguments big_new {T} cmp b.
Arguments big_add {T} cmp limit t k.
Arguments big_remove {T} cmp t k.
Arguments big_root {T} t.
Arguments big_len {T} t.
