(* Entry points for the "big tree" lines of cursortrace (round 3).  DEFINITIONS ONLY.

   The B lines of harness/cmd/cursortrace grow and shrink one stree.Tree by thousands of
   Add/Remove calls before cursors are taken; the replay driver rebuilds that tree with the C01
   tree model (StreeModel.New/Add/Remove, the depth-limit function supplied by the driver as in
   ocaml/stree_driver.ml) instead of reading its shape from the trace line.  These wrappers only
   give the functions it needs names that extraction cannot rename. *)
From Coq Require Import ZArith List.
Import ListNotations.
From Mds Require Import Stree.StreeModel Stree.CursorModel.
Local Open Scope Z_scope.

Section Big.
Variable T : Type.
Variable cmp : T -> T -> Z.
Variable limit : Z -> Z -> Z.

(* stree.New(beta, cmp) without keys *)
Definition big_new (b : Z) : res (Tree T) := New cmp b [] [].
Definition big_add (t : Tree T) (k : T) : res (Tree T * bool) := Add cmp limit t k.
Definition big_remove (t : Tree T) (k : T) : res (Tree T * bool) := Remove cmp t k.
Definition big_root (t : Tree T) : tree T := root t.
Definition big_len (t : Tree T) : Z := Len t.

(* Round 4: the lines also interleave the rest of the Tree API (Replace, Clear, Clone, Min, Max,
   IsEmpty, Inorder and InorderAfter with a consumer that may stop) with the cursor operations. *)
Definition big_replace (t : Tree T) (k : T) : res (Tree T * bool) := Replace cmp limit t k.
Definition big_clear (t : Tree T) : Tree T := Clear t.
Definition big_clone (t : Tree T) : Tree T := Clone t.
Definition big_min (t : Tree T) : option T := Min t.
Definition big_max (t : Tree T) : option T := Max t.
Definition big_is_empty (t : Tree T) : bool := IsEmpty t.
Definition big_inorder {S : Type} (t : Tree T) (f : S -> T -> S * bool) (s : S) : S * bool :=
  Inorder t f s.
Definition big_inorder_after {S : Type} (t : Tree T) (k : T) (f : S -> T -> S * bool) (s : S)
  : res (S * bool) := InorderAfter cmp t k f s.
End Big.

(* Cursor.Clone under a name of its own: once the tree's Clone is extracted next to it, extraction
   numbers the three "clone" functions (node, Tree, Cursor) as it pleases. *)
Definition big_cursor_clone (c : cursor) : cursor := CursorModel.clone c.

Arguments big_new {T} cmp b.
Arguments big_add {T} cmp limit t k.
Arguments big_remove {T} cmp t k.
Arguments big_root {T} t.
Arguments big_len {T} t.
Arguments big_replace {T} cmp limit t k.
Arguments big_clear {T} t.
Arguments big_clone {T} t.
Arguments big_min {T} t.
Arguments big_max {T} t.
Arguments big_is_empty {T} t.
Arguments big_inorder {T S} t f s.
Arguments big_inorder_after {T} cmp {S} t k f s.
