(* Proofs for C03: the cursor model (CursorModel.v) against the index/range reference
   (CursorSpec.v), by the zipper decomposition
        inorder t = pre t p ++ inorder (subtree t p) ++ post t p. *)
From Coq Require Import ZArith List Bool Arith Lia.
Import ListNotations.
From Mds Require Import Gen.StreeNode Gen.CursorIdx Gen.CursorTree Stree.StreeModel Stree.StreeSpec
  Stree.StreeProofsSet Stree.CursorModel Stree.CursorSpec.
Local Open Scope Z_scope.

Definition opp (d : dir) : dir := match d with L => R | R => L end.

Lemma dir_eqb_refl : forall d, dir_eqb d d = true.
Proof. destruct d; reflexivity. Qed.

Lemma dir_eqb_opp : forall d, dir_eqb d (opp d) = false.
Proof. destruct d; reflexivity. Qed.

Lemma dir_eqb_true : forall a b, dir_eqb a b = true -> a = b.
Proof. destruct a, b; simpl; congruence. Qed.

Lemma dir_eqb_false : forall a b, dir_eqb a b = false -> b = opp a.
Proof. destruct a, b; simpl; congruence. Qed.

Section CursorProofs.
Variable T : Type.
Notation tree := (StreeModel.tree T).

Definition cnt (t : tree) : nat := length (inorder t).

(* ------------------------------------------------------------------ subtrees and paths *)

Lemma subtree_leaf : forall p, subtree (@Leaf T) p = Leaf.
Proof. induction p as [|d p IH]; simpl; auto. Qed.

Lemma subtree_app : forall p q (t : tree), subtree t (p ++ q) = subtree (subtree t p) q.
Proof. induction p as [|d p IH]; simpl; intros; auto. Qed.

Lemma is_node_prefix : forall p q (t : tree), is_node (subtree t (p ++ q)) = true -> is_node (subtree t p) = true.
Proof.
  intros p q t H. rewrite subtree_app in H.
  destruct (subtree t p); auto. rewrite subtree_leaf in H. discriminate.
Qed.

Lemma cnt_node : forall l (x : T) r, cnt (Node l x r) = (cnt l + 1 + cnt r)%nat.
Proof. intros. unfold cnt. simpl. rewrite app_length. simpl. lia. Qed.

Lemma cnt_children : forall n : tree, is_node n = true -> cnt n = (cnt (child L n) + 1 + cnt (child R n))%nat.
Proof. destruct n; simpl; intros; try discriminate. apply cnt_node. Qed.

Lemma cnt_child_lt : forall d (n : tree), is_node n = true -> (cnt (child d n) < cnt n)%nat.
Proof. intros d n H. rewrite (cnt_children n H). destruct d; lia. Qed.

Lemma cnt_leaf_iff : forall n : tree, is_node n = false <-> cnt n = 0%nat.
Proof.
  destruct n; simpl; split; intros; auto; try discriminate.
  rewrite cnt_node in H. lia.
Qed.

(* ------------------------------------------------------------------ the zipper *)

(* keys before / after the subtree at p *)
Fixpoint pre (t : tree) (p : list dir) {struct p} : list T :=
  match p, t with
  | d :: p', Node l x r => match d with L => pre l p' | R => inorder l ++ x :: pre r p' end
  | _, _ => []
  end.

Fixpoint post (t : tree) (p : list dir) {struct p} : list T :=
  match p, t with
  | d :: p', Node l x r => match d with L => post l p' ++ x :: inorder r | R => post r p' end
  | _, _ => []
  end.

Lemma zipper : forall p (t : tree), inorder t = pre t p ++ inorder (subtree t p) ++ post t p.
Proof.
  induction p as [|d p IH]; intros t.
  - simpl. rewrite app_nil_r. reflexivity.
  - destruct t as [|l x r].
    + simpl. rewrite subtree_leaf. reflexivity.
    + destruct d; simpl.
      * rewrite (IH l) at 1. rewrite <- !app_assoc. reflexivity.
      * rewrite (IH r) at 1. rewrite <- !app_assoc. reflexivity.
Qed.

(* number of keys outside the subtree at p on side d of it *)
Fixpoint out (d : dir) (t : tree) (p : list dir) {struct p} : nat :=
  match p, t with
  | e :: p', Node l x r =>
    if dir_eqb e d then out d (child e t) p'
    else (cnt (child d t) + 1 + out d (child e t) p')%nat
  | _, _ => 0%nat
  end.

Lemma pre_length : forall p (t : tree), length (pre t p) = out L t p.
Proof.
  induction p as [|d p IH]; intros [|l x r]; simpl; auto.
  destruct d; simpl.
  - apply IH.
  - rewrite app_length. simpl. rewrite IH. unfold cnt. lia.
Qed.

Lemma post_length : forall p (t : tree), length (post t p) = out R t p.
Proof.
  induction p as [|d p IH]; intros [|l x r]; simpl; auto.
  destruct d; simpl.
  - rewrite app_length. simpl. rewrite IH. unfold cnt. lia.
  - apply IH.
Qed.

Lemma cnt_zipper : forall p (t : tree), cnt t = (out L t p + cnt (subtree t p) + out R t p)%nat.
Proof.
  intros. unfold cnt at 1. rewrite (zipper p t). rewrite !app_length.
  rewrite pre_length, post_length. unfold cnt. lia.
Qed.

Lemma out_leaf : forall d p, out d (@Leaf T) p = 0%nat.
Proof. destruct p; reflexivity. Qed.

Lemma out_app : forall d p q (t : tree), out d t (p ++ q) = (out d t p + out d (subtree t p) q)%nat.
Proof.
  induction p as [|e p IH]; intros q t.
  - reflexivity.
  - destruct t as [|l x r].
    + simpl. rewrite subtree_leaf, out_leaf. reflexivity.
    + simpl. destruct (dir_eqb e d); rewrite IH; lia.
Qed.

Lemma out_repeat_same : forall d m (t : tree), out d t (repeat d m) = 0%nat.
Proof.
  induction m as [|m IH]; intros [|l x r]; simpl; auto.
  rewrite dir_eqb_refl. apply IH.
Qed.

Lemma out_step_same : forall d (n : tree) q, out d n (d :: q) = out d (child d n) q.
Proof.
  intros d [|l x r] q; simpl.
  - rewrite out_leaf. reflexivity.
  - rewrite dir_eqb_refl. reflexivity.
Qed.

Lemma out_step_opp : forall d (n : tree) q, is_node n = true ->
  out d n (opp d :: q) = (cnt (child d n) + 1 + out d (child (opp d) n) q)%nat.
Proof.
  intros d [|l x r] q H; try discriminate. simpl.
  replace (dir_eqb (opp d) d) with false by (destruct d; reflexivity). reflexivity.
Qed.

(* ------------------------------------------------------------------ spines *)

Lemma descend_spine : forall f d (m : tree), is_node m = true -> descend f d m = f :: spine d m.
Proof.
  intros f d m. revert f. induction m as [|l IHl x r IHr]; intros f H; try discriminate.
  simpl. f_equal. destruct d.
  - destruct l; [reflexivity | apply IHl; reflexivity].
  - destruct r; [reflexivity | apply IHr; reflexivity].
Qed.

Lemma spine_node : forall d (m : tree), is_node m = true ->
  is_node (subtree m (spine d m)) = true /\ is_node (child d (subtree m (spine d m))) = false.
Proof.
  intros d m. induction m as [|l IHl x r IHr]; intros H; try discriminate.
  destruct d; simpl.
  - destruct l as [|ll lx lr]; [simpl; auto | apply IHl; reflexivity].
  - destruct r as [|rl rx rr]; [simpl; auto | apply IHr; reflexivity].
Qed.

Lemma spine_repeat : forall d (m : tree), spine d m = repeat d (length (spine d m)).
Proof.
  intros d m. induction m as [|l IHl x r IHr]; simpl; auto.
  destruct d.
  - destruct l; [reflexivity | simpl in *; f_equal; apply IHl].
  - destruct r; [reflexivity | simpl in *; f_equal; apply IHr].
Qed.

Lemma out_spine : forall d (m : tree), out d m (spine d m) = 0%nat.
Proof. intros. rewrite spine_repeat. apply out_repeat_same. Qed.

Lemma cnt_subtree_le : forall p (t : tree), (cnt (subtree t p) <= cnt t)%nat.
Proof. intros. rewrite (cnt_zipper p t). lia. Qed.

(* ------------------------------------------------------------------ indices *)

Lemma plen_eq : forall p : list dir, plen p = Z.of_nat (length p) + 1.
Proof. intros. unfold plen. lia. Qed.

Lemma path_at_last : forall (t : tree) p, path_at t p (plen p - 1) = Ok (subtree t p).
Proof.
  intros. unfold path_at. rewrite plen_eq.
  replace (Z.of_nat (length p) + 1 - 1) with (Z.of_nat (length p)) by lia.
  replace (Z.of_nat (length p) <? 0) with false by (symmetry; apply Z.ltb_ge; lia).
  replace (Z.of_nat (length p) + 1 <=? Z.of_nat (length p)) with false by (symmetry; apply Z.leb_gt; lia).
  simpl. rewrite Nat2Z.id, firstn_all. reflexivity.
Qed.

Lemma valid_at : forall p, valid (CAt p) = true.
Proof.
  intros. unfold valid, cur_valid. simpl. reflexivity.
Qed.

Lemma truncate_prefix : forall q s, truncate (q ++ s) (Z.of_nat (length q) + 1) = Ok (CAt q).
Proof.
  intros. unfold truncate. rewrite plen_eq, app_length, Nat2Z.inj_add.
  replace (Z.of_nat (length q) + 1 <? 0) with false by (symmetry; apply Z.ltb_ge; lia).
  replace (Z.of_nat (length q) + Z.of_nat (length s) + 1 <? Z.of_nat (length q) + 1) with false
    by (symmetry; apply Z.ltb_ge; lia).
  replace (Z.of_nat (length q) + 1 =? 0) with false by (symmetry; apply Z.eqb_neq; lia).
  simpl. replace (Z.of_nat (length q) + 1 - 1) with (Z.of_nat (length q)) by lia.
  rewrite Nat2Z.id, firstn_app, Nat.sub_diag, firstn_all. simpl. rewrite app_nil_r. reflexivity.
Qed.

Lemma truncate_zero : forall p, truncate p 0 = Ok CEmpty.
Proof.
  intros. unfold truncate. rewrite plen_eq.
  replace (Z.of_nat (length p) + 1 <? 0) with false by (symmetry; apply Z.ltb_ge; lia).
  reflexivity.
Qed.

Lemma child_id_at : forall q x s e,
  child_id (q ++ x :: s) (Z.of_nat (length q)) e = if dir_eqb e x then Z.of_nat (length q) + 1 else -1.
Proof.
  intros. unfold child_id. rewrite Nat2Z.id, nth_error_app2 by lia. rewrite Nat.sub_diag. reflexivity.
Qed.

(* ------------------------------------------------------------------ the walk up *)

(* what the loop computes, on the reversed path: the first entry equal to d, counted from the root *)
Fixpoint scan (d : dir) (rq : list dir) : Z :=
  match rq with
  | [] => -1
  | x :: rq' => if dir_eqb d x then Z.of_nat (length rq') else scan d rq'
  end.

Fixpoint strip (d : dir) (rq : list dir) : option (list dir) :=
  match rq with
  | [] => None
  | x :: rq' => if dir_eqb d x then Some rq' else strip d rq'
  end.

Lemma scan_strip : forall d rq,
  scan d rq = match strip d rq with Some rq' => Z.of_nat (length rq') | None => -1 end.
Proof. induction rq as [|x rq IH]; simpl; auto. destruct (dir_eqb d x); auto. Qed.

Lemma strip_some : forall d rq rq', strip d rq = Some rq' ->
  exists m, rq = repeat (opp d) m ++ d :: rq'.
Proof.
  induction rq as [|x rq IH]; simpl; intros rq' H; try discriminate.
  destruct (dir_eqb d x) eqn:E.
  - apply dir_eqb_true in E. inversion H; subst. exists 0%nat. reflexivity.
  - apply dir_eqb_false in E. destruct (IH _ H) as [m Hm]. exists (S m). simpl. subst x. f_equal. exact Hm.
Qed.

Lemma strip_none : forall d rq, strip d rq = None -> rq = repeat (opp d) (length rq).
Proof.
  induction rq as [|x rq IH]; simpl; intros H; auto.
  destruct (dir_eqb d x) eqn:E; try discriminate.
  apply dir_eqb_false in E. subst x. f_equal. auto.
Qed.

Lemma rev_repeat : forall (A : Type) (a : A) m, rev (repeat a m) = repeat a m.
Proof.
  induction m as [|m IH]; simpl; auto. rewrite IH.
  clear IH. induction m as [|m IH]; simpl; auto. f_equal. exact IH.
Qed.

Section WalkUp.
Variables (more : Z -> bool) (is_child : Z -> Z -> Z -> bool) (found i_next j_next : Z -> Z) (none : Z).
Variable d : dir.
Hypothesis Hmore : forall j, more j = (j >=? 0).
Hypothesis Hchild : forall a b c, is_child a b c = (a =? match d with L => b | R => c end).
Hypothesis Hfound : forall j, found j = j.
Hypothesis Hi : forall j, i_next j = j.
Hypothesis Hj : forall j, j_next j = j - 1.
Hypothesis Hnone : none = -1.

Lemma walk_up_scan : forall rq s fuel, (length rq < fuel)%nat ->
  walk_up more is_child found i_next j_next none (rev rq ++ s) fuel
          (Z.of_nat (length rq)) (Z.of_nat (length rq) - 1) = Ok (scan d rq).
Proof.
  induction rq as [|x rq IH]; intros s fuel Hf; (destruct fuel as [|fuel]; [lia|]).
  - simpl. rewrite Hmore. simpl. rewrite Hnone. reflexivity.
  - replace (Z.of_nat (length (x :: rq)) - 1) with (Z.of_nat (length rq)) by (simpl length; lia).
    cbn [walk_up]. rewrite Hmore.
    replace (Z.of_nat (length rq) >=? 0) with true by (symmetry; apply Z.geb_le; lia).
    assert (Hp : rev (x :: rq) ++ s = rev rq ++ x :: s) by (simpl; rewrite <- app_assoc; reflexivity).
    rewrite Hp. rewrite plen_eq, app_length, rev_length. simpl length.
    replace (Z.of_nat (S (length rq)) <? 0) with false by (symmetry; apply Z.ltb_ge; lia).
    replace (Z.of_nat (length rq + S (length s)) + 1 <=? Z.of_nat (S (length rq))) with false
      by (symmetry; apply Z.leb_gt; lia).
    replace (Z.of_nat (length rq) <? 0) with false by (symmetry; apply Z.ltb_ge; lia).
    replace (Z.of_nat (length rq + S (length s)) + 1 <=? Z.of_nat (length rq)) with false
      by (symmetry; apply Z.leb_gt; lia).
    cbn [orb]. rewrite Hchild.
    replace (match d with
             | L => child_id (rev rq ++ x :: s) (Z.of_nat (length rq)) L
             | R => child_id (rev rq ++ x :: s) (Z.of_nat (length rq)) R
             end) with (child_id (rev rq ++ x :: s) (Z.of_nat (length rq)) d) by (destruct d; reflexivity).
    rewrite <- (rev_length rq) at 2. rewrite child_id_at. rewrite rev_length.
    cbn [scan]. destruct (dir_eqb d x).
    + replace (Z.of_nat (S (length rq)) =? Z.of_nat (length rq) + 1) with true
        by (symmetry; apply Z.eqb_eq; lia).
      rewrite Hfound. reflexivity.
    + replace (Z.of_nat (S (length rq)) =? -1) with false by (symmetry; apply Z.eqb_neq; lia).
      rewrite Hi, Hj. apply IH. simpl in Hf. lia.
Qed.

End WalkUp.

(* ------------------------------------------------------------------ the operations, tidied *)

Definition advance (a : dir) (t : tree) (p : list dir) : cursor :=
  if is_node (child a (subtree t p)) then CAt (p ++ a :: spine (opp a) (child a (subtree t p)))
  else match strip (opp a) (rev p) with
       | Some rq' => CAt (rev rq')
       | None => CEmpty
       end.

Definition is_at (c : cursor) : bool := match c with CAt _ => true | _ => false end.

Lemma strip_rev_prefix : forall d p rq', strip d (rev p) = Some rq' ->
  exists s, p = rev rq' ++ s.
Proof.
  intros d p rq' H. destruct (strip_some _ _ _ H) as [m Hm].
  exists (d :: repeat (opp d) m).
  rewrite <- (rev_involutive p), Hm, rev_app_distr. simpl. rewrite rev_repeat, <- app_assoc. reflexivity.
Qed.

Lemma next_advance : forall (t : tree) p, is_node (subtree t p) = true ->
  next t (CAt p) = Ok (advance R t p) /\ has_next t (CAt p) = Ok (is_at (advance R t p)).
Proof.
  intros t p Hn. unfold next, has_next, find_next, advance. rewrite valid_at.
  unfold fnext_i0, fnext_child_idx. rewrite path_at_last.
  destruct (subtree t p) as [|l x r] eqn:E; try discriminate. cbn [bind field child].
  destruct (is_node r) eqn:Er.
  - cbn [bind]. rewrite Er. rewrite descend_spine by exact Er. cbn [opp is_at]. split; reflexivity.
  - assert (W := walk_up_scan fnext_more fnext_is_child fnext_found_j fnext_i_next fnext_j_next fnext_none_j L
                  (fun _ => eq_refl) (fun _ _ _ => eq_refl) (fun _ => eq_refl) (fun _ => eq_refl)
                  (fun _ => eq_refl) eq_refl (rev p) [] (S (length p))).
    rewrite rev_involutive, app_nil_r, rev_length in W.
    unfold fnext_j0. rewrite plen_eq.
    replace (Z.of_nat (length p) + 1 - 1) with (Z.of_nat (length p)) by lia.
    rewrite W by lia. cbn [bind is_node opp]. rewrite scan_strip.
    destruct (strip L (rev p)) as [rq'|] eqn:Es.
    + destruct (strip_rev_prefix _ _ _ Es) as [s Hs].
      unfold next_up_test, next_up_hi, has_next_res.
      replace (Z.of_nat (length rq') >=? 0) with true by (symmetry; apply Z.geb_le; lia).
      cbn [orb is_at]. split; [|reflexivity].
      rewrite Hs at 1. rewrite <- (rev_length rq'). apply truncate_prefix.
    + unfold next_up_test, has_next_res. split; reflexivity.
Qed.

Lemma prev_advance : forall (t : tree) p, is_node (subtree t p) = true ->
  prev t (CAt p) = Ok (advance L t p) /\ has_prev t (CAt p) = Ok (is_at (advance L t p)).
Proof.
  intros t p Hn. unfold prev, has_prev, find_prev, advance. rewrite valid_at.
  unfold fprev_i0, fprev_child_idx. rewrite path_at_last.
  destruct (subtree t p) as [|l x r] eqn:E; try discriminate. cbn [bind field child].
  destruct (is_node l) eqn:El.
  - cbn [bind]. rewrite El. rewrite descend_spine by exact El. cbn [opp is_at]. split; reflexivity.
  - assert (W := walk_up_scan fprev_more fprev_is_child fprev_found_j fprev_i_next fprev_j_next fprev_none_j R
                  (fun _ => eq_refl) (fun _ _ _ => eq_refl) (fun _ => eq_refl) (fun _ => eq_refl)
                  (fun _ => eq_refl) eq_refl (rev p) [] (S (length p))).
    rewrite rev_involutive, app_nil_r, rev_length in W.
    unfold fprev_j0. rewrite plen_eq.
    replace (Z.of_nat (length p) + 1 - 1) with (Z.of_nat (length p)) by lia.
    rewrite W by lia. cbn [bind is_node opp]. rewrite scan_strip.
    destruct (strip R (rev p)) as [rq'|] eqn:Es.
    + destruct (strip_rev_prefix _ _ _ Es) as [s Hs].
      unfold prev_up_test, prev_up_hi, has_prev_res.
      replace (Z.of_nat (length rq') >=? 0) with true by (symmetry; apply Z.geb_le; lia).
      cbn [orb is_at]. split; [|reflexivity].
      rewrite Hs at 1. rewrite <- (rev_length rq'). apply truncate_prefix.
    + unfold prev_up_test, has_prev_res. split; reflexivity.
Qed.

Lemma go_child_eq : forall d idx (t : tree) p, (forall n, idx n = n - 1) ->
  is_node (subtree t p) = true ->
  go_child d idx t (CAt p) = Ok (if is_node (child d (subtree t p)) then CAt (p ++ [d]) else CEmpty).
Proof.
  intros d idx t p Hidx Hn. unfold go_child. rewrite valid_at, Hidx, path_at_last.
  destruct (subtree t p) as [|l x r]; try discriminate. cbn [bind field child].
  destruct (is_node (match d with L => l | R => r end)); reflexivity.
Qed.

Lemma has_child_eq : forall d rexpr idx (t : tree) p, (forall n, idx n = n - 1) ->
  is_node (subtree t p) = true ->
  has_child d rexpr idx t (CAt p) = Ok (rexpr true (is_node (child d (subtree t p)))).
Proof.
  intros d rexpr idx t p Hidx Hn. unfold has_child. rewrite valid_at, Hidx, path_at_last.
  destruct (subtree t p) as [|l x r]; try discriminate. reflexivity.
Qed.

Lemma go_extreme_eq : forall d idx (t : tree) p, (forall n, idx n = n - 1) ->
  is_node (subtree t p) = true ->
  go_extreme d idx t (CAt p) = Ok (CAt (p ++ spine d (subtree t p))).
Proof.
  intros d idx t p Hidx Hn. unfold go_extreme. rewrite valid_at, Hidx, path_at_last.
  destruct (subtree t p) as [|l x r]; try discriminate. reflexivity.
Qed.

Lemma up_root : up (CAt []) = Ok CEmpty.
Proof. reflexivity. Qed.

Lemma up_snoc : forall q e, up (CAt (q ++ [e])) = Ok (CAt q).
Proof.
  intros. unfold up. rewrite valid_at. unfold up_hi. rewrite plen_eq, app_length. simpl length.
  replace (Z.of_nat (length q + 1) + 1 - 1) with (Z.of_nat (length q) + 1) by lia.
  apply truncate_prefix.
Qed.

Lemma key_eq : forall zero (t : tree) p l x r, subtree t p = Node l x r -> key zero t (CAt p) = Ok x.
Proof.
  intros zero t p l x r E. unfold key. rewrite valid_at. unfold cur_key_idx. rewrite path_at_last, E.
  reflexivity.
Qed.

Lemma inorder_until_all : forall (n : tree) (s : list T),
  inorder_until (fun (acc : list T) x => (x :: acc, true)) n s = (rev (inorder n) ++ s, true).
Proof.
  induction n as [|l IHl x r IHr]; intros s; simpl; auto.
  rewrite IHl. simpl. rewrite IHr. rewrite rev_app_distr. simpl. rewrite <- !app_assoc. reflexivity.
Qed.

Lemma cinorder_all_eq : forall (t : tree) p, cinorder_all t (CAt p) = Ok (inorder (subtree t p)).
Proof.
  intros. unfold cinorder_all, cinorder. rewrite valid_at. unfold inorder_idx. rewrite path_at_last.
  cbn [bind]. rewrite inorder_until_all. cbn [fst]. rewrite app_nil_r, rev_involutive. reflexivity.
Qed.

(* ------------------------------------------------------------------ the abstraction *)

Definition wf (t : tree) (c : cursor) : Prop :=
  match c with CAt p => is_node (subtree t p) = true | _ => True end.

(* number of keys strictly on side s of the cursor's key *)
Definition posn (s : dir) (t : tree) (p : list dir) : nat :=
  (out s t p + cnt (child s (subtree t p)))%nat.

Definition abs (t : tree) (c : cursor) : option pos :=
  match c with
  | CAt p => Some (mkPos (out L t p) (posn L t p) (out L t p + cnt (subtree t p)))
  | _ => None
  end.

Lemma cnt_zipper_d : forall d p (t : tree), cnt t = (out d t p + cnt (subtree t p) + out (opp d) t p)%nat.
Proof. intros d p t. rewrite (cnt_zipper p t). destruct d; simpl; lia. Qed.

Lemma cnt_children_d : forall d (n : tree), is_node n = true ->
  cnt n = (cnt (child d n) + 1 + cnt (child (opp d) n))%nat.
Proof. intros d n H. rewrite (cnt_children n H). destruct d; simpl; lia. Qed.

Lemma posn_total : forall (t : tree) p, is_node (subtree t p) = true ->
  (posn L t p + 1 + posn R t p = cnt t)%nat.
Proof.
  intros t p H. unfold posn. rewrite (cnt_zipper p t), (cnt_children _ H). lia.
Qed.

Lemma opp_opp : forall d, opp (opp d) = d.
Proof. destruct d; reflexivity. Qed.

Lemma advance_spec : forall a (t : tree) p, is_node (subtree t p) = true ->
  match advance a t p with
  | CAt p' => is_node (subtree t p') = true /\ posn (opp a) t p' = S (posn (opp a) t p)
  | _ => posn a t p = 0%nat
  end.
Proof.
  intros a t p Hn. unfold advance.
  destruct (is_node (child a (subtree t p))) eqn:Ec.
  - destruct (spine_node (opp a) _ Ec) as [Hs1 Hs2].
    assert (Hsub : subtree t (p ++ a :: spine (opp a) (child a (subtree t p))) =
                   subtree (child a (subtree t p)) (spine (opp a) (child a (subtree t p)))).
    { rewrite subtree_app. reflexivity. }
    split.
    + rewrite Hsub. exact Hs1.
    + unfold posn. rewrite Hsub. apply cnt_leaf_iff in Hs2. rewrite Hs2.
      rewrite out_app.
      pose proof (out_step_opp (opp a) (subtree t p) (spine (opp a) (child a (subtree t p))) Hn) as Ho.
      rewrite opp_opp in Ho. rewrite Ho, out_spine. lia.
  - apply cnt_leaf_iff in Ec.
    destruct (strip (opp a) (rev p)) as [rq'|] eqn:Es.
    + destruct (strip_some _ _ _ Es) as [m Hm]. rewrite opp_opp in Hm.
      assert (Hp : p = rev rq' ++ opp a :: repeat a m).
      { rewrite <- (rev_involutive p), Hm, rev_app_distr. simpl. rewrite rev_repeat, <- app_assoc. reflexivity. }
      set (q := rev rq') in *.
      assert (HQ : is_node (subtree t q) = true).
      { apply (is_node_prefix q (opp a :: repeat a m)). rewrite <- Hp. exact Hn. }
      split; [exact HQ|].
      assert (HN : subtree t p = subtree (child (opp a) (subtree t q)) (repeat a m)).
      { rewrite Hp, subtree_app. reflexivity. }
      unfold posn. rewrite Hp at 1. rewrite out_app, out_step_same.
      pose proof (cnt_zipper_d (opp a) (repeat a m) (child (opp a) (subtree t q))) as Hz.
      rewrite opp_opp, out_repeat_same, <- HN in Hz.
      pose proof (cnt_children_d (opp a) _ Hn) as Hc. rewrite opp_opp in Hc.
      lia.
    + apply strip_none in Es. rewrite opp_opp in Es.
      assert (Hp : p = repeat a (length p)).
      { apply (f_equal (@rev dir)) in Es. rewrite rev_involutive, rev_repeat, rev_length in Es. exact Es. }
      unfold posn. rewrite Hp at 1. rewrite out_repeat_same. lia.
Qed.

Lemma abs_ok : forall (t : tree) c, wf t c -> match abs t c with Some b => ok_pos (cnt t) b | None => True end.
Proof.
  intros t [| |p] H; simpl; auto. simpl in H. unfold ok_pos, posn. simpl.
  pose proof (cnt_child_lt L _ H). pose proof (cnt_zipper p t). lia.
Qed.

(* ------------------------------------------------------------------ one move *)

Lemma invalid_cases : forall c, valid c = false -> c = CNil \/ c = CEmpty.
Proof. intros [| |p] H; auto. rewrite valid_at in H. discriminate. Qed.

Lemma invalid_step : forall (t : tree) c m, valid c = false -> step t c m = Ok c.
Proof.
  intros t c m H. destruct m; simpl;
    unfold next, prev, left, right, go_child, up, cmin, cmax, go_extreme; rewrite H; reflexivity.
Qed.

Lemma ltb_true : forall a b, (a < b)%nat -> (a <? b)%nat = true.
Proof. intros. apply Nat.ltb_lt. assumption. Qed.
Lemma ltb_false : forall a b, (b <= a)%nat -> (a <? b)%nat = false.
Proof. intros. apply Nat.ltb_ge. assumption. Qed.

Theorem step_spec : forall (t : tree) c m, wf t c ->
  exists c', step t c m = Ok c' /\ wf t c' /\ move_ok (cnt t) m (abs t c) (abs t c').
Proof.
  intros t c m Hwf. destruct c as [| |p].
  - exists CNil. rewrite invalid_step by reflexivity. repeat split; auto.
  - exists CEmpty. rewrite invalid_step by reflexivity. repeat split; auto.
  - simpl in Hwf. pose proof (posn_total t p Hwf) as Htot.
    destruct m; cbn [step].
    + (* Next *)
      destruct (next_advance t p Hwf) as [Hn _]. pose proof (advance_spec R t p Hwf) as Ha.
      exists (advance R t p). split; [exact Hn|].
      destruct (advance R t p) as [| |p'] eqn:E.
      * split; [exact I|]. split; [|exact I]. cbn [abs move_ok move_spec ix lo hi]. rewrite ltb_false by lia. reflexivity.
      * split; [exact I|]. split; [|exact I]. cbn [abs move_ok move_spec ix lo hi]. rewrite ltb_false by lia. reflexivity.
      * destruct Ha as [Hw' Hp']. cbn [opp] in Hp'. pose proof (posn_total t p' Hw') as Htot'.
        split; [exact Hw'|]. split; [|exact (abs_ok t (CAt p') Hw')].
        cbn [abs move_ok move_spec ix lo hi]. rewrite ltb_true by lia. eexists. split; [reflexivity|]. cbn. exact Hp'.
    + (* Prev *)
      destruct (prev_advance t p Hwf) as [Hn _]. pose proof (advance_spec L t p Hwf) as Ha.
      exists (advance L t p). split; [exact Hn|].
      destruct (advance L t p) as [| |p'] eqn:E.
      * split; [exact I|]. split; [|exact I]. cbn [abs move_ok move_spec ix lo hi]. rewrite ltb_false by lia. reflexivity.
      * split; [exact I|]. split; [|exact I]. cbn [abs move_ok move_spec ix lo hi]. rewrite ltb_false by lia. reflexivity.
      * destruct Ha as [Hw' Hp']. cbn [opp] in Hp'. pose proof (posn_total t p' Hw') as Htot'.
        split; [exact Hw'|]. split; [|exact (abs_ok t (CAt p') Hw')].
        cbn [abs move_ok move_spec ix lo hi]. rewrite ltb_true by lia. eexists. split; [reflexivity|]. cbn. lia.
    + (* Left *)
      unfold left. rewrite (go_child_eq L left_idx t p (fun _ => eq_refl) Hwf).
      destruct (is_node (child L (subtree t p))) eqn:Ec.
      * eexists. split; [reflexivity|].
        assert (Hw' : wf t (CAt (p ++ [L]))) by (simpl; rewrite subtree_app; exact Ec).
        split; [exact Hw'|]. split; [|exact (abs_ok t _ Hw')].
        assert (cnt (child L (subtree t p)) <> 0)%nat by (intro H0; apply cnt_leaf_iff in H0; congruence).
        cbn [abs move_ok move_spec ix lo hi]. unfold posn. rewrite ltb_true by lia. eexists. split; [reflexivity|]. cbn [ix lo hi].
        rewrite out_app, subtree_app, out_step_same. cbn [out subtree]. lia.
      * eexists. split; [reflexivity|]. split; [exact I|]. split; [|exact I].
        apply cnt_leaf_iff in Ec. cbn [abs move_ok move_spec ix lo hi]. unfold posn. rewrite ltb_false by lia. reflexivity.
    + (* Right *)
      unfold right. rewrite (go_child_eq R right_idx t p (fun _ => eq_refl) Hwf).
      pose proof (cnt_children _ Hwf) as Hc.
      destruct (is_node (child R (subtree t p))) eqn:Ec.
      * eexists. split; [reflexivity|].
        assert (Hw' : wf t (CAt (p ++ [R]))) by (simpl; rewrite subtree_app; exact Ec).
        split; [exact Hw'|]. split; [|exact (abs_ok t _ Hw')].
        assert (cnt (child R (subtree t p)) <> 0)%nat by (intro H0; apply cnt_leaf_iff in H0; congruence).
        cbn [abs move_ok move_spec ix lo hi]. unfold posn. rewrite ltb_true by lia. eexists. split; [reflexivity|]. cbn [ix lo hi].
        rewrite out_app, subtree_app.
        pose proof (out_step_opp L (subtree t p) [] Hwf) as Ho. cbn [opp] in Ho. rewrite Ho. cbn [out subtree]. lia.
      * eexists. split; [reflexivity|]. split; [exact I|]. split; [|exact I].
        apply cnt_leaf_iff in Ec. cbn [abs move_ok move_spec ix lo hi]. unfold posn. rewrite ltb_false by lia. reflexivity.
    + (* Up *)
      destruct (rev p) as [|e rq] eqn:Er.
      * assert (p = []) by (apply (f_equal (@rev dir)) in Er; rewrite rev_involutive in Er; exact Er).
        subst p. exists CEmpty. split; [reflexivity|]. split; [exact I|]. split; [|exact I].
        cbn. unfold is_root. cbn. rewrite Nat.eqb_refl. reflexivity.
      * assert (Hp : p = rev rq ++ [e]) by (apply (f_equal (@rev dir)) in Er; rewrite rev_involutive in Er; exact Er).
        set (q := rev rq) in *. subst p. exists (CAt q). rewrite up_snoc. split; [reflexivity|].
        assert (HQ : is_node (subtree t q) = true) by (apply (is_node_prefix q [e]); exact Hwf).
        split; [exact HQ|]. split; [|exact (abs_ok t (CAt q) HQ)].
        pose proof (cnt_child_lt e _ HQ) as Hlt. pose proof (cnt_subtree_le q t) as Hle.
        pose proof (cnt_children _ HQ) as Hc.
        assert (Ho : out L (subtree t q) [e] =
                     match e with L => 0%nat | R => (cnt (child L (subtree t q)) + 1)%nat end).
        { destruct e; [rewrite out_step_same; reflexivity|].
          pose proof (out_step_opp L (subtree t q) [] HQ) as Ho. cbn [opp] in Ho. rewrite Ho. cbn [out]. lia. }
        cbn [abs move_ok move_spec ix lo hi]. unfold is_root, posn. cbn [ix lo hi].
        rewrite out_app, subtree_app. cbn [subtree]. rewrite Ho.
        match goal with |- context [if ?b then _ else _] => destruct b eqn:Eroot end.
        { apply andb_prop in Eroot. destruct Eroot as [E1 E2].
          apply Nat.eqb_eq in E1. apply Nat.eqb_eq in E2. destruct e; lia. }
        eexists. split; [reflexivity|]. cbn [ix lo hi]. destruct e; lia.
    + (* Min *)
      unfold cmin. rewrite (go_extreme_eq L min_idx t p (fun _ => eq_refl) Hwf).
      destruct (spine_node L _ Hwf) as [Hs1 Hs2].
      eexists. split; [reflexivity|].
      assert (Hw' : wf t (CAt (p ++ spine L (subtree t p)))) by (simpl; rewrite subtree_app; exact Hs1).
      split; [exact Hw'|]. split; [|exact (abs_ok t _ Hw')].
      cbn. eexists. split; [reflexivity|]. cbn. unfold posn.
      rewrite out_app, subtree_app, out_spine. apply cnt_leaf_iff in Hs2. rewrite Hs2.
      pose proof (cnt_subtree_le (spine L (subtree t p)) (subtree t p)). lia.
    + (* Max *)
      unfold cmax. rewrite (go_extreme_eq R max_idx t p (fun _ => eq_refl) Hwf).
      destruct (spine_node R _ Hwf) as [Hs1 Hs2].
      eexists. split; [reflexivity|].
      assert (Hw' : wf t (CAt (p ++ spine R (subtree t p)))) by (simpl; rewrite subtree_app; exact Hs1).
      split; [exact Hw'|]. split; [|exact (abs_ok t _ Hw')].
      cbn. eexists. split; [reflexivity|]. cbn. unfold posn.
      rewrite out_app, subtree_app.
      pose proof (cnt_zipper (spine R (subtree t p)) (subtree t p)) as Hz. rewrite out_spine in Hz.
      pose proof (cnt_children _ Hs1) as Hc. apply cnt_leaf_iff in Hs2. lia.
Qed.

(* ------------------------------------------------------------------ histories of moves *)

Theorem run_spec : forall ms (t : tree) c, wf t c ->
  exists cs, run t c ms = Ok cs /\ Forall (wf t) cs /\
             follows (cnt t) (abs t c) ms (map (abs t) cs).
Proof.
  induction ms as [|m ms IH]; intros t c Hwf.
  - exists []. repeat split; auto.
  - destruct (step_spec t c m Hwf) as [c' [Hs [Hw' Hm]]].
    destruct (IH t c' Hw') as [cs [Hr [Hall Hf]]].
    exists (c' :: cs). cbn [run]. rewrite Hs. cbn [bind]. rewrite Hr. cbn [bind].
    split; [reflexivity|]. split; [constructor; assumption|]. cbn. split; assumption.
Qed.

(* ------------------------------------------------------------------ observers *)

Variable zero : T.

Lemma root_range : forall p (t : tree), is_node (subtree t p) = true ->
  is_root (cnt t) (mkPos (out L t p) (posn L t p) (out L t p + cnt (subtree t p))) =
  match p with [] => true | _ => false end.
Proof.
  intros p t H. unfold is_root. cbn [lo hi]. destruct p as [|e p'].
  - cbn. rewrite Nat.eqb_refl. reflexivity.
  - assert (Ht : is_node t = true).
    { destruct t; auto. rewrite subtree_leaf in H. discriminate. }
    pose proof (cnt_child_lt e t Ht) as Hlt.
    pose proof (cnt_subtree_le p' (child e t)) as Hle. cbn [subtree] in H |- *.
    apply andb_false_iff.
    destruct (Nat.eqb_spec (out L t (e :: p')) 0) as [E0|]; [right|left; reflexivity].
    apply Nat.eqb_neq. lia.
Qed.

Lemma has_parent_at : forall p, has_parent (CAt p) = match p with [] => false | _ => true end.
Proof.
  intros p. unfold has_parent, has_parent_res. rewrite valid_at. cbn [clen andb].
  destruct p as [|e p']; [reflexivity|]. rewrite plen_eq. cbn [length].
  apply Z.gtb_lt. lia.
Qed.

Lemma invalid_observe : forall (t : tree) c, valid c = false ->
  observe zero t c = Ok (mkObs false zero false false false false false []).
Proof.
  intros t c H. destruct (invalid_cases c H); subst c; reflexivity.
Qed.

Lemma nth_error_mid : forall (A : Type) (a b : list A) x c, nth_error (a ++ (b ++ x :: c)) (length a + length b) = Some x.
Proof.
  intros. rewrite nth_error_app2 by lia. replace (length a + length b - length a)%nat with (length b) by lia.
  rewrite nth_error_app2 by lia. rewrite Nat.sub_diag. reflexivity.
Qed.

Theorem observe_spec : forall (t : tree) c, wf t c ->
  exists o, observe zero t c = Ok o /\ obs_spec zero (inorder t) (abs t c) o.
Proof.
  intros t c Hwf. destruct c as [| |p].
  - eexists. split; [apply invalid_observe; reflexivity|]. cbn. repeat split; reflexivity.
  - eexists. split; [apply invalid_observe; reflexivity|]. cbn. repeat split; reflexivity.
  - simpl in Hwf. pose proof (posn_total t p Hwf) as Htot.
    destruct (subtree t p) as [|l x r] eqn:E; try discriminate.
    unfold observe. rewrite (key_eq zero t p l x r E). cbn [bind].
    assert (Hwf' : is_node (subtree t p) = true) by (rewrite E; reflexivity).
    destruct (next_advance t p Hwf') as [_ Hn]. destruct (prev_advance t p Hwf') as [_ Hp].
    rewrite Hn, Hp. cbn [bind].
    unfold has_left, has_right.
    rewrite (has_child_eq L has_left_res has_left_idx t p (fun _ => eq_refl) Hwf').
    rewrite (has_child_eq R has_right_res has_right_idx t p (fun _ => eq_refl) Hwf').
    cbn [bind]. rewrite cinorder_all_eq. cbn [bind].
    eexists. split; [reflexivity|].
    cbn [abs obs_spec o_valid o_key o_has_next o_has_prev o_has_left o_has_right o_has_parent o_inorder ix lo hi].
    fold (cnt t).
    split; [apply valid_at|].
    split.
    { unfold posn. rewrite E. cbn [child]. rewrite (zipper p t), E. cbn [inorder].
      rewrite <- pre_length. unfold cnt. rewrite <- app_assoc. apply nth_error_mid. }
    split.
    { pose proof (advance_spec R t p Hwf') as Ha. destruct (advance R t p) as [| |p'].
      - cbn [is_at]. symmetry. apply ltb_false. lia.
      - cbn [is_at]. symmetry. apply ltb_false. lia.
      - destruct Ha as [Hw' Hp']. cbn [opp] in Hp'. pose proof (posn_total t p' Hw').
        cbn [is_at]. symmetry. apply ltb_true. lia. }
    split.
    { pose proof (advance_spec L t p Hwf') as Ha. destruct (advance L t p) as [| |p'].
      - cbn [is_at]. symmetry. apply ltb_false. lia.
      - cbn [is_at]. symmetry. apply ltb_false. lia.
      - destruct Ha as [Hw' Hp']. cbn [opp] in Hp'. pose proof (posn_total t p' Hw').
        cbn [is_at]. symmetry. apply ltb_true. lia. }
    split.
    { unfold has_left_res, posn. rewrite E. cbn [child andb].
      destruct (is_node l) eqn:El.
      - symmetry. apply ltb_true. assert (cnt l <> 0)%nat by (intro H0; apply cnt_leaf_iff in H0; congruence). lia.
      - symmetry. apply ltb_false. apply cnt_leaf_iff in El. lia. }
    split.
    { unfold has_right_res, posn. rewrite E. cbn [child andb]. rewrite cnt_node.
      destruct (is_node r) eqn:Er.
      - symmetry. apply ltb_true. assert (cnt r <> 0)%nat by (intro H0; apply cnt_leaf_iff in H0; congruence). lia.
      - symmetry. apply ltb_false. apply cnt_leaf_iff in Er. lia. }
    split.
    { rewrite (root_range p t Hwf'). rewrite has_parent_at. destruct p; reflexivity. }
    { rewrite (zipper p t) at 1. rewrite <- pre_length.
      replace (length (pre t p) + cnt (subtree t p) - length (pre t p))%nat with (length (inorder (subtree t p)))
        by (unfold cnt; lia).
      rewrite skipn_app, skipn_all, Nat.sub_diag. cbn [skipn app].
      rewrite firstn_app, firstn_all, Nat.sub_diag. cbn [firstn]. rewrite app_nil_r. reflexivity. }
Qed.

Lemma key_spec : forall (t : tree) c, wf t c ->
  exists x, key zero t c = Ok x /\
            match abs t c with Some a => nth_error (inorder t) (ix a) = Some x | None => x = zero end.
Proof.
  intros t c Hwf. destruct c as [| |p].
  - exists zero. split; reflexivity.
  - exists zero. split; reflexivity.
  - cbn [wf] in Hwf. destruct (subtree t p) as [|l x r] eqn:E; try discriminate.
    exists x. split; [apply (key_eq zero t p l x r E)|].
    cbn [abs ix]. unfold posn. rewrite E. cbn [child]. rewrite (zipper p t), E. cbn [inorder].
    rewrite <- pre_length. unfold cnt. rewrite <- app_assoc. apply nth_error_mid.
Qed.

Lemma valid_abs : forall (t : tree) c, valid c = match abs t c with Some _ => true | None => false end.
Proof. intros t [| |p]; [reflexivity|reflexivity|apply valid_at]. Qed.

(* Inorder with a consumer that may stop (yield returning false): it is fed, in order, the keys
   the full Inorder lists, until it stops — for any consumer and any cursor inside the tree *)
Theorem cinorder_stop : forall (S : Type) (f : S -> T -> S * bool) (s : S) (t : tree) c, wf t c ->
  exists ys, cinorder_all t c = Ok ys /\
             cinorder t c f s = Ok (fst (StreeProofsSet.list_until T S f ys s)).
Proof.
  intros S f s t c Hwf. destruct c as [| |p].
  - exists []. split; reflexivity.
  - exists []. split; reflexivity.
  - exists (inorder (subtree t p)). split; [apply cinorder_all_eq|].
    unfold cinorder. rewrite valid_at. unfold inorder_idx. rewrite path_at_last. cbn [bind].
    rewrite (StreeProofsSet.inorder_until_ok T S f). reflexivity.
Qed.

(* ------------------------------------------------------------------ invalid and nil cursors, Clone *)

Theorem invalid_identity : forall (t : tree) c m, valid c = false ->
  step t c m = Ok c /\ clone c = c /\ observe zero t c = Ok (mkObs false zero false false false false false []).
Proof.
  intros t c m H. split; [apply invalid_step; exact H|]. split; [|apply invalid_observe; exact H].
  unfold clone. rewrite H. reflexivity.
Qed.

Lemma clone_same : forall c, clone c = c.
Proof. intros [| |p]; unfold clone; [reflexivity|reflexivity|]. rewrite valid_at. reflexivity. Qed.

(* ------------------------------------------------------------------ Tree.Root *)

Theorem root_spec : forall t : tree,
  wf t (tree_root t) /\
  match inorder t with
  | [] => tree_root t = CNil
  | _ :: _ => exists b, abs t (tree_root t) = Some b /\ lo b = 0%nat /\ hi b = length (inorder t)
  end.
Proof.
  intros [|l x r].
  - split; [exact I|reflexivity].
  - split; [reflexivity|]. destruct (inorder (Node l x r)) eqn:E.
    + apply (f_equal (@length T)) in E. fold (cnt (Node l x r)) in E. rewrite cnt_node in E. cbn in E. lia.
    + rewrite <- E. eexists. split; [reflexivity|]. split; reflexivity.
Qed.

(* ------------------------------------------------------------------ Tree.Cursor *)

Section TreeCursor.
Variable cmp : T -> T -> Z.
Hypothesis HP : total_preorder cmp.

Lemma path_spec : forall k (t : tree), sorted cmp (inorder t) -> is_node t = true ->
  is_node (subtree t (path_dirs cmp k t)) = true /\
  nth_error (path_to cmp k t) (length (path_dirs cmp k t)) = Some (subtree t (path_dirs cmp k t)) /\
  length (path_to cmp k t) = S (length (path_dirs cmp k t)) /\
  match subtree t (path_dirs cmp k t) with
  | Node _ x _ => if cmp k x =? 0 then s_get cmp k (inorder t) = Some x else s_get cmp k (inorder t) = None
  | Leaf => False
  end.
Proof.
  intros k t. induction t as [|l IHl x r IHr]; intros St Hn; try discriminate.
  cbn [inorder] in St. destruct (StreeProofsSet.sorted_app_inv T cmp _ _ _ St) as (Sl & Sr & Al & Ar).
  cbn [path_dirs path_to inorder]. unfold path_lt, path_gt.
  pose proof (StreeProofsSet.flip T cmp HP k x) as FL.
  destruct (Z.ltb_spec (cmp k x) 0) as [Lt|Ge].
  - (* k < x *)
    assert (Hget : s_get cmp k (inorder l ++ x :: inorder r) = s_get cmp k (inorder l))
      by (apply (StreeProofsSet.s_get_app_lt T cmp HP); assumption).
    destruct l as [|ll lx lr].
    + cbn [path_to subtree length nth_error]. repeat split; auto.
      destruct (Z.eqb_spec (cmp k x) 0); [lia|]. rewrite Hget. reflexivity.
    + destruct (IHl Sl eq_refl) as (H1 & H2 & H3 & H4).
      cbn [subtree child length nth_error]. repeat split; auto.
      destruct (subtree (Node ll lx lr) (path_dirs cmp k (Node ll lx lr))) as [|sl sx sr]; [exact H4|].
      rewrite Hget. exact H4.
  - destruct (Z.gtb_spec (cmp k x) 0) as [Gt|Le].
    + (* k > x *)
      assert (Hget : s_get cmp k (inorder l ++ x :: inorder r) = s_get cmp k (inorder r)).
      { rewrite (StreeProofsSet.s_get_app_ge T cmp HP k (inorder l) x (inorder r) Al) by lia.
        unfold s_get. cbn [find]. destruct (Z.eqb_spec (cmp k x) 0); [lia|reflexivity]. }
      destruct r as [|rl rx rr].
      * cbn [path_to subtree length nth_error]. repeat split; auto.
        destruct (Z.eqb_spec (cmp k x) 0); [lia|]. rewrite Hget. reflexivity.
      * destruct (IHr Sr eq_refl) as (H1 & H2 & H3 & H4).
        cbn [subtree child length nth_error]. repeat split; auto.
        destruct (subtree (Node rl rx rr) (path_dirs cmp k (Node rl rx rr))) as [|sl sx sr]; [exact H4|].
        rewrite Hget. exact H4.
    + (* k == x *)
      assert (E0 : cmp k x = 0) by lia.
      cbn [subtree length nth_error]. repeat split; auto.
      destruct (Z.eqb_spec (cmp k x) 0); [|lia].
      rewrite (StreeProofsSet.s_get_app_ge T cmp HP k (inorder l) x (inorder r) Al) by lia.
      unfold s_get. cbn [find]. destruct (Z.eqb_spec (cmp k x) 0); [reflexivity|lia].
Qed.

(* Cursor(k) is valid exactly when the tree holds a key equivalent to k (Get succeeds), and then
   it sits, inside the tree, on that stored representative; otherwise it is the nil cursor. *)
Theorem tree_cursor_spec : forall k (t : tree), sorted cmp (inorder t) ->
  exists c, tree_cursor cmp t k = Ok c /\ wf t c /\
    match s_get cmp k (inorder t) with
    | Some x => valid c = true /\ key zero t c = Ok x
    | None => c = CNil
    end.
Proof.
  intros k t St. destruct t as [|l x r].
  - exists CNil. repeat split; reflexivity.
  - destruct (path_spec k (Node l x r) St eq_refl) as (H1 & H2 & H3 & H4).
    unfold tree_cursor. rewrite H3.
    replace (Z.of_nat (S (length (path_dirs cmp k (Node l x r)))) =? 0) with false
      by (symmetry; apply Z.eqb_neq; lia).
    unfold tcur_last_idx.
    replace (Z.of_nat (S (length (path_dirs cmp k (Node l x r)))) - 1 <? 0) with false
      by (symmetry; apply Z.ltb_ge; lia).
    replace (Z.to_nat (Z.of_nat (S (length (path_dirs cmp k (Node l x r)))) - 1))
      with (length (path_dirs cmp k (Node l x r))) by lia.
    rewrite H2.
    destruct (subtree (Node l x r) (path_dirs cmp k (Node l x r))) as [|sl sx sr] eqn:E; [contradiction|].
    cbn [bind]. unfold tcur_reject.
    replace (Z.of_nat (S (length (path_dirs cmp k (Node l x r)))) =? 0) with false
      by (symmetry; apply Z.eqb_neq; lia).
    cbn [orb].
    pose proof (StreeProofsSet.flip T cmp HP k sx) as FL.
    destruct (Z.eqb_spec (cmp k sx) 0) as [E0|N0].
    + replace (cmp sx k =? 0) with true by (symmetry; apply Z.eqb_eq; lia). cbn [negb].
      eexists. split; [reflexivity|]. split; [cbn [wf]; rewrite E; reflexivity|].
      rewrite H4. split; [apply valid_at|]. apply (key_eq zero _ _ sl sx sr E).
    + replace (cmp sx k =? 0) with false by (symmetry; apply Z.eqb_neq; lia). cbn [negb].
      exists CNil. split; [reflexivity|]. split; [exact I|]. rewrite H4. reflexivity.
Qed.

(* everything under Left is smaller, everything under Right larger than the cursor's key *)
Theorem children_ordered : forall (t : tree) p l x r, sorted cmp (inorder t) -> subtree t p = Node l x r ->
  (forall y, In y (inorder (subtree t (p ++ [L]))) -> cmp y x < 0) /\
  (forall y, In y (inorder (subtree t (p ++ [R]))) -> cmp x y < 0).
Proof.
  intros t p l x r St E. rewrite !subtree_app, E. cbn [subtree child].
  rewrite (zipper p t), E in St. cbn [inorder] in St.
  assert (S1 : sorted cmp (inorder l ++ x :: inorder r)).
  { clear E. revert St. generalize (pre t p) as a. generalize (post t p) as b. generalize (inorder l ++ x :: inorder r) as m.
    intros m b a. induction a as [|y a IH]; cbn [app sorted].
    - induction m as [|z m IHm]; cbn [app sorted]; auto.
      intros [Hz Hs]. split; [|apply IHm; exact Hs]. intros w Hw. apply Hz. apply in_or_app. left. exact Hw.
    - intros [_ Hs]. apply IH. exact Hs. }
  destruct (StreeProofsSet.sorted_app_inv T cmp _ _ _ S1) as (_ & _ & Al & Ar). split; assumption.
Qed.

(* the same through the operations: whatever Inorder lists after Left (Right) is smaller (larger)
   than the key the cursor had *)
Theorem left_right_ordered : forall (t : tree) c x, sorted cmp (inorder t) -> wf t c -> valid c = true ->
  key zero t c = Ok x ->
  exists cl cr ysl ysr,
    left t c = Ok cl /\ right t c = Ok cr /\ wf t cl /\ wf t cr /\
    cinorder_all t cl = Ok ysl /\ cinorder_all t cr = Ok ysr /\
    (forall y, In y ysl -> cmp y x < 0) /\ (forall y, In y ysr -> cmp x y < 0).
Proof.
  intros t c x St Hwf Hv Hk. destruct c as [| |p]; try discriminate.
  cbn [wf] in Hwf. destruct (subtree t p) as [|l x' r] eqn:E; try discriminate.
  rewrite (key_eq zero t p l x' r E) in Hk. inversion Hk; subst x'. clear Hk.
  assert (Hn : is_node (subtree t p) = true) by (rewrite E; reflexivity).
  destruct (children_ordered t p l x r St E) as [Ol Or].
  unfold left, right.
  rewrite (go_child_eq L left_idx t p (fun _ => eq_refl) Hn), (go_child_eq R right_idx t p (fun _ => eq_refl) Hn).
  rewrite E. cbn [child].
  exists (if is_node l then CAt (p ++ [L]) else CEmpty), (if is_node r then CAt (p ++ [R]) else CEmpty).
  exists (if is_node l then inorder (subtree t (p ++ [L])) else []),
         (if is_node r then inorder (subtree t (p ++ [R])) else []).
  split; [reflexivity|]. split; [reflexivity|].
  split. { destruct (is_node l) eqn:El; [|exact I]. cbn [wf]. rewrite subtree_app, E. exact El. }
  split. { destruct (is_node r) eqn:Er; [|exact I]. cbn [wf]. rewrite subtree_app, E. exact Er. }
  split. { destruct (is_node l); [apply cinorder_all_eq|reflexivity]. }
  split. { destruct (is_node r); [apply cinorder_all_eq|reflexivity]. }
  split.
  - destruct (is_node l); [exact Ol|intros y []].
  - destruct (is_node r); [exact Or|intros y []].
Qed.

End TreeCursor.

(* a whole history, with what every observer answers after the start and after every move *)
Definition observed (t : tree) (c : cursor) : Prop :=
  wf t c /\ exists o, observe zero t c = Ok o /\ obs_spec zero (inorder t) (abs t c) o.

Theorem history_spec : forall (t : tree) c ms, wf t c ->
  exists cs, run t c ms = Ok cs /\
             follows (length (inorder t)) (abs t c) ms (map (abs t) cs) /\
             Forall (observed t) (c :: cs).
Proof.
  intros t c ms Hwf. destruct (run_spec ms t c Hwf) as [cs [Hr [Hall Hf]]].
  exists cs. split; [exact Hr|]. split; [exact Hf|].
  constructor.
  - split; [exact Hwf|apply observe_spec; exact Hwf].
  - eapply Forall_impl; [|exact Hall]. intros c' Hc'. split; [exact Hc'|apply observe_spec; exact Hc'].
Qed.

End CursorProofs.
