(* C03, "a Clone moves independently (and vice versa)": the store-level machine of CursorHeap.v —
   cursors are heap objects whose paths are Go slices that append in place, reslice and are copied
   by slices.Clone — shows in every register, after every operation of every history, exactly what
   the machine with cursors as values shows (where registers cannot influence one another by
   construction), for every tree, every comparison and every capacity oracle.  Invariant: the
   slices of distinct valid cursor objects live in distinct backing arrays, each slice holds the
   chain of node addresses of its path, and a cursor object shared by two registers is invalid. *)
From Coq Require Import ZArith List Bool Arith Lia.
Import ListNotations.
From Mds Require Import Gen.CursorStore Stree.StreeModel Stree.CursorModel Stree.CursorProofs Stree.CursorHeap.
Local Open Scope Z_scope.

(* ------------------------------------------------------------------ lists *)

Lemma upd_length : forall (A : Type) k (x : A) l, length (upd k x l) = length l.
Proof. induction k as [|k IH]; intros x [|y l]; cbn [upd length]; auto. Qed.

Lemma nth_error_upd_same : forall (A : Type) k (x : A) l, (k < length l)%nat -> nth_error (upd k x l) k = Some x.
Proof.
  induction k as [|k IH]; intros x [|y l] H; cbn [length] in H; try lia; cbn [upd nth_error]; [reflexivity|].
  apply IH. lia.
Qed.

Lemma nth_error_upd_other : forall (A : Type) k j (x : A) l, j <> k -> nth_error (upd k x l) j = nth_error l j.
Proof.
  induction k as [|k IH]; intros j x [|y l] H; cbn [upd]; try reflexivity.
  - destruct j; [congruence|reflexivity].
  - destruct j; [reflexivity|]. cbn [nth_error]. apply IH. congruence.
Qed.

Lemma nth_upd_other : forall (A : Type) k j (x d : A) l, j <> k -> nth j (upd k x l) d = nth j l d.
Proof.
  induction k as [|k IH]; intros j x d [|y l] H; cbn [upd]; try reflexivity.
  - destruct j; [congruence|reflexivity].
  - destruct j; [reflexivity|]. cbn [nth]. apply IH. congruence.
Qed.

Lemma nth_upd_same : forall (A : Type) k (x d : A) l, (k < length l)%nat -> nth k (upd k x l) d = x.
Proof.
  induction k as [|k IH]; intros x d [|y l] H; cbn [length] in H; try lia; cbn [upd nth]; [reflexivity|].
  apply IH. lia.
Qed.

Lemma upd_out : forall (A : Type) k (x : A) l, (length l <= k)%nat -> upd k x l = l.
Proof.
  induction k as [|k IH]; intros x [|y l] H; cbn [length] in H; cbn [upd]; try reflexivity; try lia.
  f_equal. apply IH. lia.
Qed.

Lemma upd_same : forall (A : Type) k (x : A) l, nth_error l k = Some x -> upd k x l = l.
Proof.
  induction k as [|k IH]; intros x [|y l] H; cbn [nth_error] in H; try discriminate; cbn [upd].
  - inversion H. reflexivity.
  - f_equal. apply IH. exact H.
Qed.

Lemma nth_nth_error : forall (A : Type) (l : list A) k d x, nth_error l k = Some x -> nth k l d = x.
Proof. intros A l k d x H. apply nth_error_nth. exact H. Qed.

Lemma nth_out : forall (A : Type) (l : list A) k d, nth_error l k = None -> nth k l d = d.
Proof. intros A l k d H. apply nth_overflow. apply nth_error_None. exact H. Qed.

Lemma firstn_upd_snoc : forall (A : Type) n (x : A) l, (n < length l)%nat -> firstn (S n) (upd n x l) = firstn n l ++ [x].
Proof.
  induction n as [|n IH]; intros x [|y l] H; cbn [length] in H; try lia.
  - reflexivity.
  - cbn [upd]. change (firstn (S (S n)) (y :: upd n x l)) with (y :: firstn (S n) (upd n x l)).
    rewrite IH by lia. reflexivity.
Qed.

Lemma addr_eqb_eq : forall a b, addr_eqb a b = true <-> a = b.
Proof.
  induction a as [|x a IH]; intros [|y b]; cbn [addr_eqb]; split; intros H; try discriminate; try reflexivity.
  - apply andb_true_iff in H. destruct H as [H1 H2]. apply dir_eqb_true in H1. apply IH in H2. subst. reflexivity.
  - inversion H; subst. rewrite dir_eqb_refl. cbn [andb]. apply IH. reflexivity.
Qed.

Lemma addrs_eqb_eq : forall a b, addrs_eqb a b = true <-> a = b.
Proof.
  induction a as [|x a IH]; intros [|y b]; cbn [addrs_eqb]; split; intros H; try discriminate; try reflexivity.
  - apply andb_true_iff in H. destruct H as [H1 H2]. apply addr_eqb_eq in H1. apply IH in H2. subst. reflexivity.
  - inversion H; subst. apply andb_true_iff. split; [apply addr_eqb_eq; reflexivity|apply IH; reflexivity].
Qed.

(* ------------------------------------------------------------------ prefixes *)

Lemma prefixes_length : forall p, length (prefixes p) = S (length p).
Proof. induction p as [|d p IH]; cbn [prefixes length]; [reflexivity|]. rewrite List.map_length. rewrite IH. reflexivity. Qed.

Lemma prefixes_last : forall p, last (prefixes p) [] = p.
Proof.
  induction p as [|d p IH]; [reflexivity|]. cbn [prefixes].
  assert (H : forall (l : list addr), l <> [] -> last ([] :: map (cons d) l) [] = d :: last l []).
  { induction l as [|a l IHl]; intros N; [congruence|]. destruct l as [|b l]; [reflexivity|].
    specialize (IHl ltac:(discriminate)). cbn [map] in *. cbn [last] in *. exact IHl. }
  rewrite H; [rewrite IH; reflexivity|]. destruct p; discriminate.
Qed.

Lemma prefixes_snoc : forall p d, prefixes (p ++ [d]) = prefixes p ++ [p ++ [d]].
Proof.
  induction p as [|e p IH]; intros d; [reflexivity|].
  cbn [app prefixes]. rewrite IH, map_app. reflexivity.
Qed.

Lemma new_addrs_nil : forall p, new_addrs p [] = [].
Proof. reflexivity. Qed.

Lemma new_addrs_cons : forall p e ext, new_addrs p (e :: ext) = (p ++ [e]) :: new_addrs (p ++ [e]) ext.
Proof.
  intros p e ext. unfold new_addrs. cbn [prefixes tl].
  assert (H : forall q, map (cons e) (prefixes q) = [e] :: map (cons e) (tl (prefixes q))).
  { intros q. destruct q; reflexivity. }
  rewrite H. cbn [map]. f_equal. rewrite !map_map. apply map_ext. intros a. rewrite <- app_assoc. reflexivity.
Qed.

Lemma new_addrs_root : forall p, prefixes p = [] :: new_addrs [] p.
Proof.
  intros p. unfold new_addrs. rewrite map_id. destruct p; reflexivity.
Qed.

(* the first k+1 addresses of the chain to p are the chain to its prefix of length k *)
Lemma prefixes_firstn : forall n p, firstn (S (length (firstn n p))) (prefixes p) = prefixes (firstn n p).
Proof.
  induction n as [|n IH]; intros p.
  - cbn [firstn length]. destruct p; reflexivity.
  - destruct p as [|d p]; [reflexivity|].
    change (firstn (S n) (d :: p)) with (d :: firstn n p). cbn [length prefixes].
    rewrite firstn_cons. f_equal. rewrite firstn_map, IH. reflexivity.
Qed.

(* ------------------------------------------------------------------ slices that hold a path *)

Definition good (h : heap) (s : slice) (p : list dir) : Prop :=
  (s_arr s < length (arrays h))%nat /\ s_len s = S (length p) /\ (s_len s <= s_cap s)%nat /\
  (s_cap s <= length (arr h (s_arr s)))%nat /\ entries h s = prefixes p.

Lemma decode_good : forall h s p, good h s p -> decode_path h (Some s) = Ok (CAt p).
Proof.
  intros h s p (G1 & G2 & G3 & G4 & G5). unfold decode_path.
  replace (s_len s =? 0)%nat with false by (symmetry; apply Nat.eqb_neq; lia).
  rewrite G5, prefixes_length, <- G2, Nat.eqb_refl. cbn [negb].
  rewrite prefixes_last. replace (addrs_eqb (prefixes p) (prefixes p)) with true; [reflexivity|].
  symmetry. apply addrs_eqb_eq. reflexivity.
Qed.

Lemma decode_at_inv : forall h pa p, decode_path h pa = Ok (CAt p) ->
  exists s, pa = Some s /\ (0 < s_len s)%nat /\ entries h s = prefixes p.
Proof.
  intros h [s|] p H; cbn [decode_path] in H; [|discriminate].
  destruct (s_len s =? 0)%nat eqn:E; [discriminate|]. apply Nat.eqb_neq in E.
  destruct (negb (length (entries h s) =? s_len s)%nat); [discriminate|].
  destruct (addrs_eqb (entries h s) (prefixes (last (entries h s) []))) eqn:Eq; [|discriminate].
  inversion H; subst p. apply addrs_eqb_eq in Eq. exists s. repeat split; [lia|exact Eq].
Qed.

Lemma decode_not_nil : forall h pa, decode_path h pa <> Ok CNil.
Proof.
  intros h [s|]; cbn [decode_path]; [|discriminate].
  destruct (s_len s =? 0)%nat; [discriminate|].
  destruct (negb _); [discriminate|]. destruct (addrs_eqb _ _); discriminate.
Qed.

Lemma good_unique : forall h s p q, good h s p -> entries h s = prefixes q -> p = q.
Proof.
  intros h s p q (_ & _ & _ & _ & G5) E. rewrite G5 in E.
  rewrite <- (prefixes_last p), <- (prefixes_last q), E. reflexivity.
Qed.

(* h' keeps every array of h except possibly a0 (and may have more) *)
Definition aframe (a0 : nat) (h h' : heap) : Prop :=
  (length (arrays h) <= length (arrays h'))%nat /\
  forall a, (a < length (arrays h))%nat -> a <> a0 -> arr h' a = arr h a.

(* ... and all cursor objects *)
Definition frame (a0 : nat) (h h' : heap) : Prop := objs h' = objs h /\ aframe a0 h h'.

Lemma frame_refl : forall a0 h, frame a0 h h.
Proof. intros a0 h. repeat split; auto. Qed.

Lemma good_frame : forall a0 h h' s p, aframe a0 h h' -> good h s p -> s_arr s <> a0 -> good h' s p.
Proof.
  intros a0 h h' s p (F2 & F3) (G1 & G2 & G3 & G4 & G5) N.
  unfold good, entries in *. rewrite (F3 _ G1 N). repeat split; auto; lia.
Qed.

Lemma arr_app_old : forall h a l o, (a < length (arrays h))%nat -> arr (mkHeap (arrays h ++ l) o) a = arr h a.
Proof. intros h a l o H. unfold arr. cbn [arrays]. apply app_nth1. exact H. Qed.

Lemma arr_app_new : forall h l o, arr (mkHeap (arrays h ++ [l]) o) (length (arrays h)) = l.
Proof. intros h l o. unfold arr. cbn [arrays]. rewrite app_nth2 by lia. rewrite Nat.sub_diag. reflexivity. Qed.

Section Store.
Variable grow : nat -> nat -> nat.

(* append of the next node of the chain keeps the slice good; only the slice's own array or a
   brand-new one is written *)
Lemma append1_good : forall h s p d, good h s p ->
  exists h' s', append1 grow h (Some s) (p ++ [d]) = (h', s') /\ good h' s' (p ++ [d]) /\
                frame (s_arr s) h h' /\ (s_arr s' = s_arr s \/ (length (arrays h) <= s_arr s')%nat).
Proof.
  intros h s p d (G1 & G2 & G3 & G4 & G5). unfold append1.
  destruct (s_len s <? s_cap s)%nat eqn:E.
  - apply Nat.ltb_lt in E. eexists. eexists. split; [reflexivity|].
    assert (Harr : arr (set_arr h (s_arr s) (upd (s_len s) (p ++ [d]) (arr h (s_arr s)))) (s_arr s) =
                   upd (s_len s) (p ++ [d]) (arr h (s_arr s))).
    { unfold arr, set_arr. cbn [arrays]. apply nth_upd_same. exact G1. }
    split; [|split].
    + unfold good, entries. cbn [s_arr s_len s_cap]. rewrite Harr.
      unfold set_arr. cbn [arrays]. rewrite !upd_length.
      repeat split; try lia.
      * rewrite app_length. cbn [length]. lia.
      * rewrite firstn_upd_snoc by lia. unfold entries in G5. rewrite G5, prefixes_snoc. reflexivity.
    + repeat split; unfold set_arr; cbn [objs arrays].
      * rewrite upd_length. lia.
      * intros a Ha N. unfold arr. cbn [arrays]. apply nth_upd_other. exact N.
    + left. reflexivity.
  - apply Nat.ltb_ge in E. eexists. eexists. split; [reflexivity|].
    set (cap' := Nat.max (S (s_len s)) (grow (s_cap s) (S (s_len s)))).
    assert (Hlen : length (entries h s) = s_len s) by (rewrite G5, prefixes_length; lia).
    set (es := entries h s) in *.
    split; [|split].
    + unfold good. cbn [s_arr s_len s_cap]. unfold entries. cbn [s_arr s_len]. rewrite arr_app_new. cbn [arrays].
      rewrite !app_length. cbn [length]. rewrite repeat_length, Hlen.
      repeat split; try lia.
      rewrite <- Hlen at 1. replace (S (length es)) with (length (es ++ [p ++ [d]])) by (rewrite app_length; cbn; lia).
      change (es ++ (p ++ [d]) :: repeat [] (cap' - S (s_len s)))
        with (es ++ [p ++ [d]] ++ repeat [] (cap' - S (s_len s))).
      rewrite app_assoc, firstn_app, firstn_all, Nat.sub_diag. cbn [firstn]. rewrite app_nil_r.
      rewrite G5, prefixes_snoc. reflexivity.
    + repeat split; cbn [objs arrays].
      * rewrite app_length. lia.
      * intros a Ha N. apply arr_app_old. exact Ha.
    + right. cbn [s_arr]. lia.
Qed.

Lemma append_many_good : forall ext h s p, good h s p ->
  exists h' s', append_many grow h (Some s) (new_addrs p ext) = (h', Some s') /\ good h' s' (p ++ ext) /\
                frame (s_arr s) h h' /\ (s_arr s' = s_arr s \/ (length (arrays h) <= s_arr s')%nat).
Proof.
  induction ext as [|e ext IH]; intros h s p G.
  - exists h, s. rewrite new_addrs_nil, app_nil_r. cbn [append_many].
    split; [reflexivity|]. split; [exact G|]. split; [apply frame_refl|left; reflexivity].
  - rewrite new_addrs_cons. cbn [append_many].
    destruct (append1_good h s p e G) as (h1 & s1 & E1 & G1 & F1 & A1). rewrite E1.
    destruct (IH h1 s1 (p ++ [e]) G1) as (h' & s' & E2 & G2 & F2 & A2). rewrite E2.
    exists h', s'. split; [reflexivity|]. rewrite <- app_assoc in G2. cbn [app] in G2.
    split; [exact G2|].
    destruct F1 as (F11 & F12 & F13), F2 as (F21 & F22 & F23).
    split; [repeat split; try congruence; try lia|].
    + intros a Ha N. rewrite F23; [apply F13; assumption|lia|].
      destruct A1 as [A1|A1]; [congruence|lia].
    + destruct A2 as [A2|A2]; destruct A1 as [A1|A1]; [left; congruence|right; lia|right; lia|right; lia].
Qed.

(* Tree.Cursor: appends to a nil slice; everything is stored in new arrays *)
Lemma append_from_nil : forall h p,
  exists h' s', append_many grow h None (prefixes p) = (h', Some s') /\ good h' s' p /\
                frame (length (arrays h)) h h' /\ (length (arrays h) <= s_arr s')%nat.
Proof.
  intros h p. rewrite new_addrs_root. cbn [append_many append1].
  set (cap' := Nat.max 1 (grow 0 1)).
  set (h1 := mkHeap (arrays h ++ [[] :: repeat [] (cap' - 1)]) (objs h)).
  set (s1 := mkSlice (length (arrays h)) 1 cap').
  assert (G1 : good h1 s1 []).
  { unfold good, entries, h1, s1. cbn [s_arr s_len s_cap]. rewrite arr_app_new. cbn [arrays].
    rewrite app_length. cbn [length]. rewrite repeat_length. repeat split; try lia. }
  destruct (append_many_good p h1 s1 [] G1) as (h' & s' & E & G & (F1 & F2 & F3) & A).
  exists h', s'. split; [exact E|]. split; [exact G|].
  unfold h1 in F1, F2, F3. cbn [objs arrays s_arr] in *. rewrite app_length in F2. cbn [length] in F2.
  split.
  - repeat split; [exact F1|lia|].
    intros a Ha N. rewrite F3; [apply arr_app_old; exact Ha|rewrite app_length; cbn [length]; lia|exact N].
  - unfold h1, s1 in A. cbn [arrays s_arr] in A. rewrite app_length in A. cbn [length] in A. lia.
Qed.

End Store.

(* ------------------------------------------------------------------ the shape of a move's result *)

Section Shape.
Variable T : Type.
Variable t : tree T.

Lemma truncate_shape : forall p hi v, truncate p hi = Ok v -> v = CEmpty \/ exists n, v = CAt (firstn n p).
Proof.
  intros p hi v H. unfold truncate in H.
  destruct ((hi <? 0) || (plen p <? hi)); [discriminate|].
  destruct (hi =? 0); inversion H; [left; reflexivity|right; eexists; reflexivity].
Qed.

Lemma step_shape : forall p m v, step t (CAt p) m = Ok v ->
  v = CEmpty \/ (exists ext, v = CAt (p ++ ext)) \/ (exists n, v = CAt (firstn n p)).
Proof.
  intros p m v H. destruct m; cbn [step] in H.
  - unfold next in H. rewrite valid_at in H.
    destruct (find_next t p) as [[mn j]| | |]; cbn [bind] in H; try discriminate.
    destruct (is_node mn); [inversion H; right; left; eexists; reflexivity|].
    destruct (CursorIdx.next_up_test j); [|inversion H; left; reflexivity].
    destruct (truncate_shape _ _ _ H) as [E|E]; [left; exact E|right; right; exact E].
  - unfold prev in H. rewrite valid_at in H.
    destruct (find_prev t p) as [[mn j]| | |]; cbn [bind] in H; try discriminate.
    destruct (is_node mn); [inversion H; right; left; eexists; reflexivity|].
    destruct (CursorIdx.prev_up_test j); [|inversion H; left; reflexivity].
    destruct (truncate_shape _ _ _ H) as [E|E]; [left; exact E|right; right; exact E].
  - unfold left, go_child in H. rewrite valid_at in H.
    destruct (path_at t p _); cbn [bind] in H; try discriminate.
    destruct (field L a); cbn [bind] in H; try discriminate.
    destruct (is_node a0); inversion H; [right; left; eexists; reflexivity|left; reflexivity].
  - unfold right, go_child in H. rewrite valid_at in H.
    destruct (path_at t p _); cbn [bind] in H; try discriminate.
    destruct (field R a); cbn [bind] in H; try discriminate.
    destruct (is_node a0); inversion H; [right; left; eexists; reflexivity|left; reflexivity].
  - unfold up in H. rewrite valid_at in H.
    destruct (truncate_shape _ _ _ H) as [E|E]; [left; exact E|right; right; exact E].
  - unfold cmin, go_extreme in H. rewrite valid_at in H.
    destruct (path_at t p _) as [n| | |]; cbn [bind] in H; try discriminate.
    destruct n; inversion H. right; left; eexists; reflexivity.
  - unfold cmax, go_extreme in H. rewrite valid_at in H.
    destruct (path_at t p _) as [n| | |]; cbn [bind] in H; try discriminate.
    destruct n; inversion H. right; left; eexists; reflexivity.
Qed.

End Shape.

(* ------------------------------------------------------------------ registers *)

Lemma nth_error_upd_cases : forall (A : Type) k j (x : A) l,
  nth_error (upd k x l) j = nth_error l j \/ (j = k /\ nth_error (upd k x l) j = Some x).
Proof.
  intros A k j x l. destruct (Nat.eq_dec j k) as [E|N].
  - subst j. destruct (Nat.lt_ge_cases k (length l)) as [Lt|Ge].
    + right. split; [reflexivity|apply nth_error_upd_same; exact Lt].
    + left. rewrite upd_out by exact Ge. reflexivity.
  - left. apply nth_error_upd_other. exact N.
Qed.

Lemma decode_some_lt : forall h id v, decode h (Some id) = Ok v -> (id < length (objs h))%nat.
Proof.
  intros h id v H. cbn [decode] in H. destruct (nth_error (objs h) id) eqn:E; [|discriminate].
  apply nth_error_Some. congruence.
Qed.

Lemma forall2_nth : forall h rh rv, Forall2 (fun c v => decode h c = Ok v) rh rv ->
  forall r, decode h (nth r rh None) = Ok (nth r rv CNil).
Proof.
  intros h rh rv H. induction H as [|c v rh rv H1 H2 IH]; intros r.
  - destruct r; reflexivity.
  - destruct r as [|r]; cbn [nth]; [exact H1|apply IH].
Qed.

Lemma forall2_nth_error : forall h rh rv, Forall2 (fun c v => decode h c = Ok v) rh rv ->
  forall r c, nth_error rh r = Some c -> exists v, nth_error rv r = Some v /\ decode h c = Ok v.
Proof.
  intros h rh rv H. induction H as [|c0 v0 rh rv H1 H2 IH]; intros r c E.
  - destruct r; discriminate.
  - destruct r as [|r]; cbn [nth_error] in *; [inversion E; subst; eauto|eauto].
Qed.

Lemma dec_all : forall h h' id0 rh rv, Forall2 (fun c v => decode h c = Ok v) rh rv ->
  (forall c v, c <> Some id0 -> decode h c = Ok v -> decode h' c = Ok v) ->
  (forall r', nth_error rh r' <> Some (Some id0)) ->
  Forall2 (fun c v => decode h' c = Ok v) rh rv.
Proof.
  intros h h' id0 rh rv H Hst. induction H as [|c v rh rv H1 H2 IH]; intros Hno; constructor.
  - apply Hst; [|exact H1]. intros E. apply (Hno O). cbn [nth_error]. congruence.
  - apply IH. intros r'. apply (Hno (S r')).
Qed.

(* the register file after an operation on register r *)
Lemma dec_update : forall h h' id0 rh rv, Forall2 (fun c v => decode h c = Ok v) rh rv ->
  (forall c v, c <> Some id0 -> decode h c = Ok v -> decode h' c = Ok v) ->
  forall r c' v',
  (forall r', r' <> r -> nth_error rh r' <> Some (Some id0)) ->
  decode h' c' = Ok v' ->
  Forall2 (fun c v => decode h' c = Ok v) (upd r c' rh) (upd r v' rv).
Proof.
  intros h h' id0 rh rv H Hst. induction H as [|c v rh rv H1 H2 IH]; intros r c' v' Hno Hc.
  - destruct r; constructor.
  - destruct r as [|r]; cbn [upd].
    + constructor; [exact Hc|].
      apply (dec_all h h' id0 rh rv H2 Hst). intros r'. apply (Hno (S r')). discriminate.
    + constructor.
      * apply Hst; [|exact H1]. intros E. apply (Hno O); [discriminate|cbn [nth_error]; congruence].
      * apply IH; [|exact Hc]. intros r' N. apply (Hno (S r')). congruence.
Qed.

Section Sim.
Variable grow : nat -> nat -> nat.
Variable T : Type.
Variable cmp : T -> T -> Z.
Variable t : tree T.

Definition live (h : heap) (id : nat) (s : slice) : Prop :=
  nth_error (objs h) id = Some (Some s) /\ (0 < s_len s)%nat.

Record Inv (h : heap) (rh : list ptr) (rv : list cursor) : Prop := mkInv {
  I_dec : Forall2 (fun c v => decode h c = Ok v) rh rv;
  I_good : forall id s, live h id s -> exists p, good h s p;
  I_sep : forall id1 id2 s1 s2, id1 <> id2 -> live h id1 s1 -> live h id2 s2 -> s_arr s1 <> s_arr s2;
  I_share : forall r1 r2 id s, r1 <> r2 -> nth_error rh r1 = Some (Some id) -> nth_error rh r2 = Some (Some id) ->
            ~ live h id s }.

(* a register that reads as a valid cursor points to a live object holding that path *)
Lemma valid_live : forall h rh rv id p, Inv h rh rv -> decode h (Some id) = Ok (CAt p) ->
  exists s, live h id s /\ good h s p.
Proof.
  intros h rh rv id p HI H. cbn [decode] in H. destruct (nth_error (objs h) id) as [pa|] eqn:E; [|discriminate].
  destruct (decode_at_inv h pa p H) as (s & -> & Hl & He).
  exists s. assert (L : live h id s) by (split; assumption). split; [exact L|].
  destruct (I_good _ _ _ HI id s L) as [q G]. rewrite (good_unique h s q p G He) in G. exact G.
Qed.

Lemma live_valid : forall h rh rv id s v, Inv h rh rv -> live h id s -> decode h (Some id) = Ok v -> valid v = true.
Proof.
  intros h rh rv id s v HI L H. destruct (I_good _ _ _ HI id s L) as [p G].
  destruct L as [L1 L2]. cbn [decode] in H. rewrite L1, (decode_good h s p G) in H. inversion H. apply valid_at.
Qed.

(* h' differs from h in the object id0 and the array a0 (and in new arrays/objects) *)
Definition hframe (id0 a0 : nat) (h h' : heap) : Prop :=
  (forall id, id <> id0 -> nth_error (objs h') id = nth_error (objs h) id) /\
  (length (arrays h) <= length (arrays h'))%nat /\
  (forall a, (a < length (arrays h))%nat -> a <> a0 -> arr h' a = arr h a).

Lemma decode_path_same_arr : forall h h' pa,
  (forall s, pa = Some s -> (0 < s_len s)%nat -> arr h' (s_arr s) = arr h (s_arr s)) ->
  decode_path h' pa = decode_path h pa.
Proof.
  intros h h' [s|] H; [|reflexivity]. cbn [decode_path].
  destruct (s_len s =? 0)%nat eqn:E; [reflexivity|]. apply Nat.eqb_neq in E.
  unfold entries. rewrite (H s eq_refl) by lia. reflexivity.
Qed.

(* registers not pointing to id0 read the same after the update, provided a0 belongs to id0 alone *)
Lemma decode_hframe : forall h rh rv id0 a0 h', Inv h rh rv -> hframe id0 a0 h h' ->
  (forall id s, id <> id0 -> live h id s -> s_arr s <> a0) ->
  forall c v, c <> Some id0 -> decode h c = Ok v -> decode h' c = Ok v.
Proof.
  intros h rh rv id0 a0 h' HI (F1 & F2 & F3) Hown c v N H. destruct c as [id|]; [|exact H].
  assert (Nid : id <> id0) by congruence.
  cbn [decode] in *. rewrite (F1 id Nid). destruct (nth_error (objs h) id) as [pa|] eqn:E; [|discriminate].
  rewrite <- H. apply decode_path_same_arr. intros s -> Hl.
  assert (L : live h id s) by (split; assumption).
  destruct (I_good _ _ _ HI id s L) as [p (G1 & _)]. apply F3; [exact G1|apply (Hown id s Nid L)].
Qed.


(* the objects part of the invariant after an update of object id0 / array a0 *)
Lemma objs_update : forall h rh rv id0 a0 h', Inv h rh rv -> hframe id0 a0 h h' ->
  (forall id s, id <> id0 -> live h id s -> s_arr s <> a0) ->
  (forall s', live h' id0 s' -> (exists q, good h' s' q) /\ (s_arr s' = a0 \/ (length (arrays h) <= s_arr s')%nat)) ->
  (forall id s, live h' id s -> exists p, good h' s p) /\
  (forall id1 id2 s1 s2, id1 <> id2 -> live h' id1 s1 -> live h' id2 s2 -> s_arr s1 <> s_arr s2).
Proof.
  intros h rh rv id0 a0 h' HI (F1 & F2 & F3) Hown Hnew.
  assert (Hold : forall id s, id <> id0 -> live h' id s ->
                 live h id s /\ (s_arr s < length (arrays h))%nat /\ s_arr s <> a0 /\ exists p, good h' s p).
  { intros id s N [L1 L2]. rewrite (F1 id N) in L1. assert (L : live h id s) by (split; assumption).
    destruct (I_good _ _ _ HI id s L) as [p G]. pose proof (Hown id s N L) as Na.
    split; [exact L|]. split; [exact (proj1 G)|]. split; [exact Na|]. exists p.
    apply (good_frame a0 h h' s p); [split; assumption|exact G|exact Na]. }
  split.
  - intros id s L. destruct (Nat.eq_dec id id0) as [E|N].
    + subst id. exact (proj1 (Hnew s L)).
    + destruct (Hold id s N L) as (_ & _ & _ & G). exact G.
  - intros id1 id2 s1 s2 N L1 L2.
    destruct (Nat.eq_dec id1 id0) as [E1|N1], (Nat.eq_dec id2 id0) as [E2|N2].
    + congruence.
    + subst id1. destruct (Hnew s1 L1) as (_ & A). destruct (Hold id2 s2 N2 L2) as (_ & B1 & B2 & _). lia.
    + subst id2. destruct (Hnew s2 L2) as (_ & A). destruct (Hold id1 s1 N1 L1) as (_ & B1 & B2 & _). lia.
    + destruct (Hold id1 s1 N1 L1) as (La & _). destruct (Hold id2 s2 N2 L2) as (Lb & _).
      exact (I_sep _ _ _ HI id1 id2 s1 s2 N La Lb).
Qed.

(* the sharing part after register r is set to c' *)
Lemma share_update : forall h rh rv id0 h' r c', Inv h rh rv ->
  (forall id s, id <> id0 -> live h' id s -> live h id s) ->
  (forall r', r' <> r -> nth_error rh r' <> Some (Some id0)) ->
  (c' = None \/ c' = Some id0 \/ exists id, c' = Some id /\ forall s, ~ live h' id s) ->
  forall r1 r2 id s, r1 <> r2 -> nth_error (upd r c' rh) r1 = Some (Some id) ->
                     nth_error (upd r c' rh) r2 = Some (Some id) -> ~ live h' id s.
Proof.
  intros h rh rv id0 h' r c' HI Hobj Hno Hc r1 r2 id s N E1 E2 L.
  assert (Hnew : forall ra rb, ra <> rb -> ra = r -> Some c' = Some (Some id) -> nth_error rh rb = Some (Some id) -> False).
  { intros ra rb Nab Ea Ec Eb. subst ra. inversion Ec as [Ec']. destruct Hc as [Hc|[Hc|[id' [Hc Hd]]]].
    - congruence.
    - rewrite Hc in Ec'. inversion Ec'; subst id. apply (Hno rb); [congruence|exact Eb].
    - rewrite Hc in Ec'. inversion Ec'; subst id'. exact (Hd s L). }
  destruct (nth_error_upd_cases _ r r1 c' rh) as [A1|[A1 B1]], (nth_error_upd_cases _ r r2 c' rh) as [A2|[A2 B2]].
  - rewrite A1 in E1. rewrite A2 in E2.
    destruct (Nat.eq_dec id id0) as [E|Nid].
    + subst id. destruct (Nat.eq_dec r1 r) as [Er|Nr].
      * apply (Hno r2); [congruence|exact E2].
      * apply (Hno r1); [exact Nr|exact E1].
    + exact (I_share _ _ _ HI r1 r2 id s N E1 E2 (Hobj id s Nid L)).
  - rewrite A1 in E1. rewrite B2 in E2. exact (Hnew r2 r1 (not_eq_sym N) A2 E2 E1).
  - rewrite B1 in E1. rewrite A2 in E2. exact (Hnew r1 r2 N A1 E1 E2).
  - congruence.
Qed.

Lemma regs_no_fresh : forall h rh rv, Forall2 (fun c v => decode h c = Ok v) rh rv ->
  forall r', nth_error rh r' <> Some (Some (length (objs h))).
Proof.
  intros h rh rv H r' E. destruct (forall2_nth_error h rh rv H r' _ E) as (v & _ & D).
  pose proof (decode_some_lt h _ v D). lia.
Qed.

(* only a register changes *)
Lemma reg_only_inv : forall h rh rv r c' v', Inv h rh rv -> decode h c' = Ok v' ->
  (c' = None \/ exists id, c' = Some id /\ forall s, ~ live h id s) ->
  Inv h (upd r c' rh) (upd r v' rv).
Proof.
  intros h rh rv r c' v' HI Hd Hc. pose proof (regs_no_fresh h rh rv (I_dec _ _ _ HI)) as Hno.
  constructor.
  - apply (dec_update h h (length (objs h)) rh rv (I_dec _ _ _ HI)); auto.
  - exact (I_good _ _ _ HI).
  - exact (I_sep _ _ _ HI).
  - apply (share_update h rh rv (length (objs h)) h r c' HI); auto.
    destruct Hc as [Hc|Hc]; [left; exact Hc|right; right; exact Hc].
Qed.

Lemma nth_error_app_other : forall (A : Type) (l : list A) x id, id <> length l -> nth_error (l ++ [x]) id = nth_error l id.
Proof.
  intros A l x id N. destruct (Nat.lt_ge_cases id (length l)) as [Lt|Ge].
  - apply nth_error_app1. exact Lt.
  - assert (E1 : nth_error l id = None) by (apply nth_error_None; lia).
    assert (E2 : nth_error (l ++ [x]) id = None) by (apply nth_error_None; rewrite app_length; cbn [length]; lia).
    congruence.
Qed.

(* a new cursor object, whose slice (if any) lives in a new array, goes to register r *)
Lemma new_obj_inv : forall h rh rv h1 pa' v' r, Inv h rh rv ->
  aframe (length (arrays h)) h h1 -> objs h1 = objs h ->
  (forall s', pa' = Some s' -> (0 < s_len s')%nat -> (exists q, good h1 s' q) /\ (length (arrays h) <= s_arr s')%nat) ->
  decode_path h1 pa' = Ok v' ->
  Inv (fst (new_obj h1 pa')) (upd r (snd (new_obj h1 pa')) rh) (upd r v' rv).
Proof.
  intros h rh rv h1 pa' v' r HI (A1 & A2) Ho Hpa Hd. unfold new_obj. cbn [fst snd]. rewrite Ho.
  set (id0 := length (objs h)). set (h' := mkHeap (arrays h1) (objs h ++ [pa'])).
  assert (HF : hframe id0 (length (arrays h)) h h').
  { repeat split; cbn [objs arrays].
    - intros id N. apply nth_error_app_other. exact N.
    - exact A1.
    - intros a Ha N. exact (A2 a Ha N). }
  assert (Hown : forall id s, id <> id0 -> live h id s -> s_arr s <> length (arrays h)).
  { intros id s _ L. destruct (I_good _ _ _ HI id s L) as [p (G1 & _)]. lia. }
  assert (Hnew0 : nth_error (objs h') id0 = Some pa').
  { unfold h', id0. cbn [objs]. rewrite nth_error_app2 by lia. rewrite Nat.sub_diag. reflexivity. }
  assert (Hnew : forall s', live h' id0 s' -> (exists q, good h' s' q) /\
                 (s_arr s' = length (arrays h) \/ (length (arrays h) <= s_arr s')%nat)).
  { intros s' [L1 L2]. rewrite Hnew0 in L1. inversion L1 as [L1'].
    destruct (Hpa s' L1' L2) as ([q G] & Ge). split; [exists q; exact G|right; exact Ge]. }
  destruct (objs_update h rh rv id0 _ h' HI HF Hown Hnew) as [Hg Hs].
  pose proof (regs_no_fresh h rh rv (I_dec _ _ _ HI)) as Hno.
  constructor.
  - apply (dec_update h h' id0 rh rv (I_dec _ _ _ HI)).
    + exact (decode_hframe h rh rv id0 _ h' HI HF Hown).
    + intros r' _. apply Hno.
    + cbn [decode]. rewrite Hnew0. exact Hd.
  - exact Hg.
  - exact Hs.
  - apply (share_update h rh rv id0 h' r (Some id0) HI).
    + intros id s N [L1 L2]. destruct HF as (F1 & _). rewrite (F1 id N) in L1. split; assumption.
    + intros r' _. apply Hno.
    + right. left. reflexivity.
Qed.

(* the object of register r gets a new path; its slice (if any) is in its own old array or a new one *)
Lemma set_obj_inv : forall h rh rv r id s h1 pa' v', Inv h rh rv ->
  nth_error rh r = Some (Some id) -> live h id s ->
  aframe (s_arr s) h h1 -> objs h1 = objs h ->
  (forall s', pa' = Some s' -> (0 < s_len s')%nat ->
     (exists q, good h1 s' q) /\ (s_arr s' = s_arr s \/ (length (arrays h) <= s_arr s')%nat)) ->
  decode_path h1 pa' = Ok v' ->
  Inv (set_obj h1 id pa') rh (upd r v' rv).
Proof.
  intros h rh rv r id s h1 pa' v' HI Er L (A1 & A2) Ho Hpa Hd.
  set (h' := set_obj h1 id pa').
  assert (Hid : (id < length (objs h))%nat) by (apply nth_error_Some; destruct L as [L1 _]; congruence).
  assert (HF : hframe id (s_arr s) h h').
  { repeat split; unfold h', set_obj; cbn [objs arrays].
    - intros id' N. rewrite Ho. apply nth_error_upd_other. exact N.
    - exact A1.
    - intros a Ha N. exact (A2 a Ha N). }
  assert (Hown : forall id' s', id' <> id -> live h id' s' -> s_arr s' <> s_arr s).
  { intros id' s' N L'. exact (I_sep _ _ _ HI id' id s' s N L' L). }
  assert (Hnew0 : nth_error (objs h') id = Some pa').
  { unfold h', set_obj. cbn [objs]. rewrite Ho. apply nth_error_upd_same. exact Hid. }
  assert (Hnew : forall s', live h' id s' -> (exists q, good h' s' q) /\
                 (s_arr s' = s_arr s \/ (length (arrays h) <= s_arr s')%nat)).
  { intros s' [L1 L2]. rewrite Hnew0 in L1. inversion L1 as [L1']. exact (Hpa s' L1' L2). }
  destruct (objs_update h rh rv id _ h' HI HF Hown Hnew) as [Hg Hs].
  assert (Hno : forall r', r' <> r -> nth_error rh r' <> Some (Some id)).
  { intros r' N E. exact (I_share _ _ _ HI r' r id s N E Er L). }
  rewrite <- (upd_same _ r (Some id) rh Er).
  constructor.
  - apply (dec_update h h' id rh rv (I_dec _ _ _ HI)).
    + exact (decode_hframe h rh rv id _ h' HI HF Hown).
    + exact Hno.
    + cbn [decode]. rewrite Hnew0. exact Hd.
  - exact Hg.
  - exact Hs.
  - apply (share_update h rh rv id h' r (Some id) HI).
    + intros id' s' N [L1 L2]. destruct HF as (F1 & _). rewrite (F1 id' N) in L1. split; assumption.
    + exact Hno.
    + right. left. reflexivity.
Qed.

(* ------------------------------------------------------------------ one operation *)

Definition sim_result (x : res (heap * list (option nat))) (y : res (list cursor)) : Prop :=
  match x, y with
  | Ok (h', rh'), Ok rv' => Inv h' rh' rv'
  | Panic, Panic => True
  | OutOfFuel, OutOfFuel => True
  | BadOracle, BadOracle => True
  | _, _ => False
  end.

Lemma upd_nth : forall (A : Type) r (d : A) l, upd r (nth r l d) l = l.
Proof.
  induction r as [|r IH]; intros d [|x l]; cbn [upd nth]; try reflexivity. f_equal. apply IH.
Qed.

Lemma nth_some : forall (A : Type) r (l : list (option A)) x, nth r l None = Some x -> nth_error l r = Some (Some x).
Proof.
  induction r as [|r IH]; intros [|y l] x H; cbn [nth nth_error] in *; try discriminate; [congruence|apply IH; exact H].
Qed.

Lemma not_live_invalid : forall h rh rv id v, Inv h rh rv -> decode h (Some id) = Ok v -> valid v = false ->
  forall s, ~ live h id s.
Proof.
  intros h rh rv id v HI Hd Hv s L. rewrite (live_valid h rh rv id s v HI L Hd) in Hv. discriminate.
Qed.

Lemma tree_root_cases : tree_root t = CNil \/ tree_root t = CAt [].
Proof. destruct t; [left|right]; reflexivity. Qed.

Lemma clone_slice_good : forall h s p, good h s p ->
  good (fst (slices_clone grow h s)) (snd (slices_clone grow h s)) p /\
  aframe (length (arrays h)) h (fst (slices_clone grow h s)) /\
  objs (fst (slices_clone grow h s)) = objs h /\
  (length (arrays h) <= s_arr (snd (slices_clone grow h s)))%nat.
Proof.
  intros h s p (G1 & G2 & G3 & G4 & G5). unfold slices_clone. cbn [fst snd].
  set (cap' := Nat.max (s_len s) (grow 0%nat (s_len s))).
  assert (Hlen : length (entries h s) = s_len s) by (rewrite G5, prefixes_length; lia).
  split; [|split; [|split]].
  - set (es := entries h s) in *.
    unfold good. cbn [s_arr s_len s_cap]. unfold entries. cbn [s_arr s_len]. rewrite arr_app_new. cbn [arrays].
    rewrite !app_length. cbn [length]. rewrite repeat_length, Hlen.
    repeat split; try lia.
    rewrite <- Hlen at 1. rewrite firstn_app, firstn_all, Nat.sub_diag. cbn [firstn]. rewrite app_nil_r. exact G5.
  - split; cbn [arrays].
    + rewrite app_length. lia.
    + intros a Ha N. apply arr_app_old. exact Ha.
  - reflexivity.
  - cbn [s_arr]. lia.
Qed.

Lemma step_sim : forall h rh rv o, Inv h rh rv ->
  sim_result (hstep grow true T cmp t (h, rh) o) (vstep T cmp t rv o).
Proof.
  intros h rh rv o HI. destruct o as [r k|r|r|r|a b|r m]; cbn [hstep vstep].
  - (* Tree.Cursor *)
    unfold hcursor. destruct (tree_cursor cmp t k) as [v| | |]; cbn [bind sim_result]; auto.
    destruct v as [| |p]; cbn [bind sim_result]; auto.
    + apply reg_only_inv; [exact HI|reflexivity|left; reflexivity].
    + destruct (append_from_nil grow h p) as (h1 & s1 & E & G & (F1 & F2) & A). rewrite E.
      change (Inv (fst (new_obj h1 (Some s1))) (upd r (snd (new_obj h1 (Some s1))) rh) (upd r (CAt p) rv)).
      apply (new_obj_inv h rh rv h1 (Some s1) (CAt p) r HI F2 F1).
      * intros s' Es _. inversion Es; subst s'. split; [exists p; exact G|exact A].
      * apply decode_good. exact G.
  - (* Tree.Root *)
    unfold hroot. destruct tree_root_cases as [E|E]; rewrite E; cbn [sim_result].
    + apply reg_only_inv; [exact HI|reflexivity|left; reflexivity].
    + set (h1 := mkHeap (arrays h ++ [[[]]]) (objs h)). set (s1 := mkSlice (length (arrays h)) 1 1).
      assert (G : good h1 s1 []).
      { unfold good, entries, h1, s1. cbn [s_arr s_len s_cap]. rewrite arr_app_new. cbn [arrays].
        rewrite app_length. cbn [length]. repeat split; try lia. }
      change (Inv (fst (new_obj h1 (Some s1))) (upd r (snd (new_obj h1 (Some s1))) rh) (upd r (CAt []) rv)).
      apply (new_obj_inv h rh rv h1 (Some s1) (CAt []) r HI).
      * split; unfold h1; cbn [arrays]; [rewrite app_length; lia|]. intros a Ha N. apply arr_app_old. exact Ha.
      * reflexivity.
      * intros s' Es _. inversion Es; subst s'. split; [exists []; exact G|cbn; lia].
      * apply decode_good. exact G.
  - (* nil *)
    cbn [sim_result]. apply reg_only_inv; [exact HI|reflexivity|left; reflexivity].
  - (* new(Cursor) *)
    change (Inv (fst (new_obj h None)) (upd r (snd (new_obj h None)) rh) (upd r CEmpty rv)).
    apply (new_obj_inv h rh rv h None CEmpty r HI).
    + split; [lia|reflexivity].
    + reflexivity.
    + intros s' Es. discriminate.
    + reflexivity.
  - (* Clone *)
    pose proof (forall2_nth h rh rv (I_dec _ _ _ HI) a) as Hd.
    unfold hclone. rewrite Hd. cbn [bind]. rewrite clone_same.
    destruct (valid (nth a rv CNil)) eqn:Hv; cbn [negb bind sim_result].
    + destruct (nth a rv CNil) as [| |p] eqn:Ev; try discriminate.
      destruct (nth a rh None) as [id|] eqn:Ec; [|discriminate].
      destruct (valid_live h rh rv id p HI Hd) as (s & L & G). destruct L as [L1 L2]. rewrite L1.
      destruct (clone_slice_good h s p G) as (G' & F & Ho & A).
      destruct (slices_clone grow h s) as [h1 s1] eqn:Es. cbn [fst snd] in *.
      change (Inv (fst (new_obj h1 (Some s1))) (upd b (snd (new_obj h1 (Some s1))) rh) (upd b (CAt p) rv)).
      apply (new_obj_inv h rh rv h1 (Some s1) (CAt p) b HI F Ho).
      * intros s' Es' _. inversion Es'; subst s'. split; [exists p; exact G'|exact A].
      * apply decode_good. exact G'.
    + apply reg_only_inv; [exact HI|exact Hd|].
      destruct (nth a rh None) as [id|] eqn:Ec; [right|left; reflexivity].
      exists id. split; [reflexivity|]. exact (not_live_invalid h rh rv id _ HI Hd Hv).
  - (* a move *)
    pose proof (forall2_nth h rh rv (I_dec _ _ _ HI) r) as Hd.
    destruct (nth r rh None) as [id|] eqn:Ec.
    + unfold hmove. rewrite Hd. cbn [bind].
      destruct (valid (nth r rv CNil)) eqn:Hv.
      * destruct (nth r rv CNil) as [| |p] eqn:Ev; try discriminate.
        destruct (valid_live h rh rv id p HI Hd) as (s & L & G). pose proof L as [L1 L2]. rewrite L1.
        pose proof (nth_some _ r rh id Ec) as Er.
        destruct (step t (CAt p) m) as [v'| | |] eqn:Es; cbn [bind sim_result]; auto.
        pose proof (step_shape T t p m v' Es) as Hshape.
        destruct v' as [| |q].
        -- exfalso. destruct Hshape as [E|[[x E]|[x E]]]; discriminate.
        -- (* invalidated: nil, or the empty reslice of Up *)
           assert (Hdead : forall pa', (pa' = None \/ exists s', pa' = Some s' /\ s_len s' = 0%nat) ->
                           Inv (set_obj h id pa') rh (upd r CEmpty rv)).
           { intros pa' Hpa. apply (set_obj_inv h rh rv r id s h pa' CEmpty HI Er L).
             - split; [lia|reflexivity].
             - reflexivity.
             - intros s' Es' Hl. destruct Hpa as [Hpa|[s'' [Hpa Hz]]]; [congruence|]. rewrite Hpa in Es'. inversion Es'; subst. lia.
             - destruct Hpa as [Hpa|[s'' [Hpa Hz]]]; subst pa'; [reflexivity|]. cbn [decode_path]. rewrite Hz. reflexivity. }
           destruct m; cbn [reslice]; try (cbn [sim_result]; apply Hdead; left; reflexivity).
           unfold reslice. replace (s_cap s <? 0)%nat with false by (symmetry; apply Nat.ltb_ge; lia).
           cbn [bind sim_result]. apply Hdead. right. eexists. split; [reflexivity|reflexivity].
        -- destruct (is_prefix p q) eqn:Ep.
           ++ (* the path grows: appends *)
              unfold is_prefix in Ep. apply addr_eqb_eq in Ep.
              assert (Eq : q = p ++ skipn (length p) q) by (rewrite <- Ep at 1; symmetry; apply firstn_skipn).
              destruct (append_many_good grow (skipn (length p) q) h s p G) as (h1 & s1 & E & G1 & (F1 & F2) & A).
              rewrite E. cbn [sim_result]. rewrite <- Eq in G1.
              apply (set_obj_inv h rh rv r id s h1 (Some s1) (CAt q) HI Er L F2 F1).
              ** intros s' Es' _. inversion Es'; subst s'. split; [exists q; exact G1|exact A].
              ** apply decode_good. exact G1.
           ++ (* the path shrinks: a reslice *)
              destruct Hshape as [E|[[x E]|[n E]]]; [discriminate| |].
              { exfalso. inversion E; subst q. unfold is_prefix in Ep.
                rewrite firstn_app, firstn_all, Nat.sub_diag in Ep. cbn [firstn] in Ep. rewrite app_nil_r in Ep.
                assert (addr_eqb p p = true) by (apply addr_eqb_eq; reflexivity). congruence. }
              inversion E; subst q.
              destruct G as (G1 & G2 & G3 & G4 & G5).
              assert (Hle : (length (firstn n p) <= length p)%nat) by (rewrite firstn_length; lia).
              unfold reslice. replace (s_cap s <? S (length (firstn n p)))%nat with false by (symmetry; apply Nat.ltb_ge; lia).
              cbn [bind sim_result].
              set (s1 := mkSlice (s_arr s) (S (length (firstn n p))) (s_cap s)).
              assert (Gs : good h s1 (firstn n p)).
              { unfold good, entries, s1. cbn [s_arr s_len s_cap]. repeat split; try lia.
                unfold entries in G5.
                replace (firstn (S (length (firstn n p))) (arr h (s_arr s)))
                  with (firstn (S (length (firstn n p))) (firstn (s_len s) (arr h (s_arr s)))).
                - rewrite G5. apply prefixes_firstn.
                - rewrite firstn_firstn. f_equal. lia. }
              apply (set_obj_inv h rh rv r id s h (Some s1) (CAt (firstn n p)) HI Er L).
              ** split; [lia|reflexivity].
              ** reflexivity.
              ** intros s' Es' _. inversion Es'; subst s'. split; [exists (firstn n p); exact Gs|left; reflexivity].
              ** apply decode_good. exact Gs.
      * (* an invalid cursor object: nothing happens *)
        rewrite (invalid_step T t _ m Hv). cbn [bind sim_result]. rewrite upd_nth. exact HI.
    + (* a nil pointer *)
      cbn [hmove bind]. cbn [decode] in Hd.
      assert (Hv : nth r rv CNil = CNil) by congruence.
      rewrite Hv, (invalid_step T t CNil m eq_refl). cbn [bind sim_result].
      rewrite <- Hv, upd_nth. exact HI.
Qed.

Lemma snapshot_ok : forall h rh rv, Forall2 (fun c v => decode h c = Ok v) rh rv -> snapshot h rh = Ok rv.
Proof.
  intros h rh rv H. induction H as [|c v rh rv H1 H2 IH]; [reflexivity|].
  cbn [snapshot]. rewrite H1. cbn [bind]. rewrite IH. reflexivity.
Qed.

Lemma run_sim : forall ops h rh rv, Inv h rh rv ->
  hrun grow true T cmp t (h, rh) ops = vrun T cmp t rv ops.
Proof.
  induction ops as [|o ops IH]; intros h rh rv HI; [reflexivity|].
  cbn [hrun vrun]. pose proof (step_sim h rh rv o HI) as H.
  destruct (hstep grow true T cmp t (h, rh) o) as [[h' rh']| | |], (vstep T cmp t rv o) as [rv'| | |];
    cbn [sim_result] in H; try contradiction; try reflexivity.
  cbn [fst snd]. rewrite (snapshot_ok h' rh' rv' (I_dec _ _ _ H)). f_equal. apply IH. exact H.
Qed.

Lemma inv_start : forall n, Inv empty_heap (repeat None n) (repeat CNil n).
Proof.
  intros n. constructor.
  - induction n; cbn [repeat]; constructor; [reflexivity|assumption].
  - intros id s [L _]. destruct id; discriminate.
  - intros id1 id2 s1 s2 _ [L _]. destruct id1; discriminate.
  - intros r1 r2 id s _ _ _ [L _]. destruct id; discriminate.
Qed.

End Sim.

Lemma clone_fresh_true : clone_fresh = true.
Proof. reflexivity. Qed.

(* every history, every register, after every operation: the store-level machine of the Go code
   shows what the machine with independent cursor values shows *)
Theorem heap_independent : forall (grow : nat -> nat -> nat) (T : Type) (cmp : T -> T -> Z) (t : tree T)
  (n : nat) (ops : list (hop T)),
  hrun_go grow T cmp t n ops = vrun T cmp t (repeat CNil n) ops.
Proof.
  intros grow T cmp t n ops. unfold hrun_go. rewrite clone_fresh_true.
  apply run_sim. apply inv_start.
Qed.

(* the counts of append calls the storage rules of CursorHeap.v were written from *)
Lemma storage_anchors :
  next_ncalls_append = 1 /\ prev_ncalls_append = 1 /\ left_ncalls_append = 1 /\ right_ncalls_append = 1 /\
  min_ncalls_append = 1 /\ max_ncalls_append = 1 /\ up_ncalls_append = 0 /\ clone_ncalls_slices_clone = 1.
Proof. repeat split; reflexivity. Qed.
