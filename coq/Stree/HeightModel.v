(* C02 (height bound of stree.Tree): DEFINITIONS ONLY, on top of Stree/StreeModel.v.

   * [limit_exact b n]: the depth limit of stree.limitFunc computed exactly in Z: the largest k
     with fracLimit^k <= n * (b + maxBalance)^k  (i.e. k = floor(log_{1/alpha} n) with
     alpha = toFraction b = (b + maxBalance)/fracLimit), and n+1 when alpha = 1 like the code.
     [limit_capped] is the same search stopped at k = n (what the replay driver uses: the
     search at b close to 1000 would otherwise run to k ~ 2000 ln n on numbers of 10^5 bits;
     the cap is never the value a comparison of Tree.insert depends on, see HeightLimit.v).
   * [get_count]: Tree.Get with the number of comparator calls it makes.
   * [Bound], [bound_okb]: the property's inequality with the literal constants of the text.
   * [run_with_peak]: histories of StreeModel.step together with, per tree, the peak Len since
     the tree was created, cleared or last empty (a clone inherits the peak of its original). *)
From Coq Require Import ZArith List Bool.
Import ListNotations.
From Mds Require Import Gen.StreeConst Gen.StreeNode Stree.StreeModel.
Local Open Scope Z_scope.

(* ------------------------------------------------------------------ the depth limit *)

(* numerator of toFraction: float64(b) + maxBalance; the denominator is fracLimit *)
Definition lim_num (b : Z) : Z := b + maxBalance.

Definition lim_ok (b n k : Z) : bool := fracLimit ^ k <=? n * lim_num b ^ k.

(* state: k, a = fracLimit^k, c = (lim_num b)^k, with lim_ok b n k.
   Result (k, true): k+1 fails; (k, false): the fuel ran out at k. *)
Fixpoint lim_search (fuel : nat) (b n k a c : Z) : Z * bool :=
  match fuel with
  | O => (k, false)
  | S fuel' =>
    let a' := fracLimit * a in
    let c' := lim_num b * c in
    if a' <=? n * c' then lim_search fuel' b n (k + 1) a' c' else (k, true)
  end.

Definition lim_fuel (n : Z) : nat := S (Z.to_nat (fracLimit * (Z.log2 n + 1))).

(* inv == 1 in limitFunc *)
Definition lim_degenerate (b : Z) : bool := lim_num b =? fracLimit.

(* -1 is the out-of-fuel marker; C02_limit_exact (H1) shows the result is >= 0 for n >= 1 *)
Definition limit_exact (b n : Z) : Z :=
  if lim_degenerate b then n + 1
  else match lim_search (lim_fuel n) b n 0 1 1 with
       | (k, true) => k
       | (_, false) => -1
       end.

(* the same search with fuel n: min (limit_exact b n) n *)
Definition limit_capped (b n : Z) : Z :=
  if lim_degenerate b then n + 1
  else fst (lim_search (Z.to_nat n) b n 0 1 1).

(* certificate check used by the sweep: k is the exact limit at n *)
Definition lim_is (b n k : Z) : bool :=
  (0 <=? k) && lim_ok b n k && negb (lim_ok b n (k + 1)).

(* ------------------------------------------------------------------ the property's inequality *)

Section HeightDefs.
Variable T : Type.

(* depth <= log_{2000/(1000+b)} P + 1, without real numbers *)
Definition Bound (b P : Z) (t : tree T) : Prop :=
  size t <= P /\
  (height t <= 1 \/ 2000 ^ (height t - 1) <= P * (1000 + b) ^ (height t - 1)).

Definition bound_okb (b P h : Z) : bool :=
  (h <=? 1) || (2000 ^ (h - 1) <=? P * (1000 + b) ^ (h - 1)).

(* H1, H2: what the proof needs of the depth-limit function *)
Definition limit_H1 (limit : Z -> Z -> Z) : Prop :=
  forall b n, 0 <= b < 1000 -> 1 <= n -> Z.log2 n <= limit b n.
Definition limit_H2 (limit : Z -> Z -> Z) : Prop :=
  forall b n, 0 <= b < 1000 -> 1 <= n -> 2000 ^ limit b n <= n * (1000 + b) ^ limit b n.

Variable cmp : T -> T -> Z.
Variable limit : Z -> Z -> Z.

(* Tree.Get, counting the calls of t.compare *)
Fixpoint get_count (key : T) (cur : tree T) : option T * Z :=
  match cur with
  | Leaf => (None, 0)
  | Node l x r =>
    let c := cmp key x in
    if get_lt c then let '(o, n) := get_count key l in (o, n + 1)
    else if get_gt c then let '(o, n) := get_count key r in (o, n + 1)
    else (Some x, 1)
  end.

(* ------------------------------------------------------------------ histories with peaks *)

Definition peak_upd (P : Z) (t : Tree T) : Z :=
  if Len t =? 0 then 0 else Z.max P (Len t).

Fixpoint upd_peaks (ps : list Z) (s : state T) : list Z :=
  match ps, s with
  | p :: ps', t :: s' => peak_upd p t :: upd_peaks ps' s'
  | _, _ => []
  end.

Definition step_peak (sp : state T * list Z) (o : op T) : state T * list Z :=
  let '(s, ps) := sp in
  let s' := fst (step cmp limit s o) in
  let fresh := skipn (length s) s' in                 (* the tree created by this op, if any *)
  (s', upd_peaks ps s' ++
       match o with
       | OClone i => map (fun _ => nth i ps 0) fresh  (* a clone inherits the peak *)
       | _ => map (@Len T) fresh                      (* New: the peak starts at its Len *)
       end).

Definition run_with_peak (ops : list (op T)) : state T * list Z :=
  fold_left step_peak ops ([], []).

End HeightDefs.

Arguments Bound {T} b P t.
Arguments get_count {T} cmp key cur.
Arguments peak_upd {T} P t.
Arguments upd_peaks {T} ps s.
Arguments step_peak {T} cmp limit sp o.
Arguments run_with_peak {T} cmp limit ops.

(* ------------------------------------------------------------------ instance used by the driver *)

Definition zcmp (a b : Z) : Z :=
  match a ?= b with Lt => -1 | Eq => 0 | Gt => 1 end.
