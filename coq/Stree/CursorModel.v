(* Model of stree/cursor.go and of Tree.Cursor / Tree.Root (stree/stree.go).  DEFINITIONS ONLY.

   A *Cursor[T] is [CNil] (the nil pointer), [CEmpty] (a cursor whose path slice is empty) or
   [CAt p]: the Go slice c.path = [root, n1, ..., nk] of node pointers is the list p of the k
   directions taken from the root (len(c.path) = 1 + length p); the node c.path[i] is the subtree
   reached by the first i directions.  The tree itself is an argument of every operation (in Go
   the path's pointers lead into it).

   The pointer comparisons of findNext/findPrev, c.path[i] == c.path[j].left|right, compare node
   IDENTITIES.  Nodes of a tree are distinct objects with one parent each, so the identity of
   c.path[i] is its position i on the path, and c.path[j].left is on the path exactly when
   p[j] = L, in which case it is c.path[j+1]; otherwise it is a node (or nil) off the path, id -1.
   That consecutive path entries are parent and child is an invariant of every operation
   (CursorProofs.wf_*; the harness reads it off the real pointers through a hook).

   All index arithmetic, loop conditions and result expressions come from Gen/CursorIdx.v and
   Gen/CursorTree.v, regenerated from the Go source on every run. *)
From Coq Require Import ZArith List Bool.
Import ListNotations.
From Mds Require Import Gen.StreeNode Gen.CursorIdx Gen.CursorTree Stree.StreeModel.
Local Open Scope Z_scope.

Inductive dir : Type := L | R.

Definition dir_eqb (a b : dir) : bool :=
  match a, b with L, L => true | R, R => true | _, _ => false end.

Inductive cursor : Type :=
| CNil                      (* the nil pointer *)
| CEmpty                    (* len(c.path) == 0 *)
| CAt (p : list dir).       (* len(c.path) == 1 + length p *)

Section Cursor.
Variable T : Type.
Variable cmp : T -> T -> Z.
Variable zero : T.          (* the zero value of T *)

Notation tree := (StreeModel.tree T).

(* n.left / n.right of a non-nil node; on nil the Go code would dereference nil *)
Definition child (d : dir) (n : tree) : tree :=
  match n with
  | Leaf => Leaf
  | Node l _ r => match d with L => l | R => r end
  end.

Definition field (d : dir) (n : tree) : res tree :=
  match n with
  | Leaf => Panic
  | Node l _ r => Ok (match d with L => l | R => r end)
  end.

Definition is_node (n : tree) : bool := match n with Leaf => false | Node _ _ _ => true end.

Fixpoint subtree (t : tree) (p : list dir) : tree :=
  match p with
  | [] => t
  | d :: p' => subtree (child d t) p'
  end.

(* len(c.path) *)
Definition plen (p : list dir) : Z := Z.of_nat (S (length p)).

(* c.path[k], with Go's bounds check *)
Definition path_at (t : tree) (p : list dir) (k : Z) : res tree :=
  if (k <? 0) || (plen p <=? k) then Panic
  else Ok (subtree t (firstn (Z.to_nat k) p)).

(* c.path[:hi] as a cursor value (hi entries remain) *)
Definition truncate (p : list dir) (hi : Z) : res cursor :=
  if (hi <? 0) || (plen p <? hi) then Panic
  else if hi =? 0 then Ok CEmpty
  else Ok (CAt (firstn (Z.to_nat (hi - 1)) p)).

(* identity (path position) of c.path[j].left / .right, -1 when it is not on the path *)
Definition child_id (p : list dir) (j : Z) (d : dir) : Z :=
  match nth_error p (Z.to_nat j) with
  | Some d' => if dir_eqb d d' then j + 1 else -1
  | None => -1
  end.

Definition nonnil (c : cursor) : bool := match c with CNil => false | _ => true end.
Definition clen (c : cursor) : Z := match c with CAt p => plen p | _ => 0 end.

(* Valid *)
Definition valid (c : cursor) : bool := cur_valid (nonnil c) (clen c).

(* Clone: "if !c.Valid() { return c }; return &Cursor{path: slices.Clone(c.path)}" — as a value
   the same path; that the two then move independently is the aliasing clause (correspondence) *)
Definition clone (c : cursor) : cursor :=
  if negb (valid c) then c else match c with CAt p => CAt p | _ => c end.

(* Key *)
Definition key (t : tree) (c : cursor) : res T :=
  if valid c then
    match c with
    | CAt p =>
      bind (path_at t p (cur_key_idx (plen p))) (fun n =>
      match n with Leaf => Panic | Node _ x _ => Ok x end)
    | _ => Panic
    end
  else Ok zero.

(* the walk up of findNext / findPrev:  for j >= 0 { if path[i] == path[j].left|right { return nil, j }; i = j; j-- } *)
Fixpoint walk_up (more : Z -> bool) (is_child : Z -> Z -> Z -> bool) (found i_next j_next : Z -> Z)
         (none : Z) (p : list dir) (fuel : nat) (i j : Z) : res Z :=
  if more j then
    match fuel with
    | O => OutOfFuel
    | S fuel' =>
      if (i <? 0) || (plen p <=? i) || (j <? 0) || (plen p <=? j) then Panic     (* c.path[i], c.path[j] *)
      else if is_child i (child_id p j L) (child_id p j R) then Ok (found j)
      else walk_up more is_child found i_next j_next none p fuel' (i_next j) (j_next j)
    end
  else Ok none.

(* findNext: (min, j) *)
Definition find_next (t : tree) (p : list dir) : res (tree * Z) :=
  let i := fnext_i0 (plen p) in
  bind (path_at t p (fnext_child_idx i)) (fun n =>
  bind (field R n) (fun mn =>
  if is_node mn then Ok (mn, fnext_down_j)
  else
    bind (walk_up fnext_more fnext_is_child fnext_found_j fnext_i_next fnext_j_next fnext_none_j
                  p (S (length p)) i (fnext_j0 i)) (fun j =>
    Ok (Leaf, j)))).

Definition find_prev (t : tree) (p : list dir) : res (tree * Z) :=
  let i := fprev_i0 (plen p) in
  bind (path_at t p (fprev_child_idx i)) (fun n =>
  bind (field L n) (fun mx =>
  if is_node mx then Ok (mx, fprev_down_j)
  else
    bind (walk_up fprev_more fprev_is_child fprev_found_j fprev_i_next fprev_j_next fprev_none_j
                  p (S (length p)) i (fprev_j0 i)) (fun j =>
    Ok (Leaf, j)))).

Definition has_next (t : tree) (c : cursor) : res bool :=
  if valid c then
    match c with
    | CAt p => bind (find_next t p) (fun '(n, i) => Ok (has_next_res (is_node n) i))
    | _ => Panic
    end
  else Ok has_next_invalid.

Definition has_prev (t : tree) (c : cursor) : res bool :=
  if valid c then
    match c with
    | CAt p => bind (find_prev t p) (fun '(n, i) => Ok (has_prev_res (is_node n) i))
    | _ => Panic
    end
  else Ok has_prev_invalid.

(* for ; m != nil; m = m.d { c.path = append(c.path, m) }: the first node appended is reached by
   [first] from the current one, the following ones by [d] *)
Fixpoint descend (first d : dir) (m : tree) : list dir :=
  match m with
  | Leaf => []
  | Node l _ r => first :: descend d d (match d with L => l | R => r end)
  end.

(* for m.d != nil { m = m.d; c.path = append(c.path, m) } *)
Fixpoint spine (d : dir) (m : tree) : list dir :=
  match m with
  | Leaf => []
  | Node l _ r =>
    match d with
    | L => match l with Leaf => [] | Node _ _ _ => L :: spine L l end
    | R => match r with Leaf => [] | Node _ _ _ => R :: spine R r end
    end
  end.

Definition next (t : tree) (c : cursor) : res cursor :=
  if valid c then
    match c with
    | CAt p =>
      bind (find_next t p) (fun '(mn, j) =>
      if is_node mn then Ok (CAt (p ++ descend R L mn))
      else if next_up_test j then truncate p (next_up_hi j)
      else Ok CEmpty)
    | _ => Panic
    end
  else Ok c.

Definition prev (t : tree) (c : cursor) : res cursor :=
  if valid c then
    match c with
    | CAt p =>
      bind (find_prev t p) (fun '(mx, j) =>
      if is_node mx then Ok (CAt (p ++ descend L R mx))
      else if prev_up_test j then truncate p (prev_up_hi j)
      else Ok CEmpty)
    | _ => Panic
    end
  else Ok c.

(* HasLeft / HasRight: c.Valid() && c.path[len-1].d != nil (the right operand only when valid) *)
Definition has_child (d : dir) (res_expr : bool -> bool -> bool) (idx : Z -> Z)
           (t : tree) (c : cursor) : res bool :=
  if valid c then
    match c with
    | CAt p =>
      bind (path_at t p (idx (plen p))) (fun n =>
      bind (field d n) (fun ch => Ok (res_expr true (is_node ch))))
    | _ => Panic
    end
  else Ok (res_expr false false).

Definition has_left := has_child L has_left_res has_left_idx.
Definition has_right := has_child R has_right_res has_right_idx.

(* Left / Right *)
Definition go_child (d : dir) (idx : Z -> Z) (t : tree) (c : cursor) : res cursor :=
  if valid c then
    match c with
    | CAt p =>
      bind (path_at t p (idx (plen p))) (fun n =>
      bind (field d n) (fun ch =>
      if is_node ch then Ok (CAt (p ++ [d])) else Ok CEmpty))
    | _ => Panic
    end
  else Ok c.

Definition left := go_child L left_idx.
Definition right := go_child R right_idx.

Definition has_parent (c : cursor) : bool := has_parent_res (valid c) (clen c).

Definition up (c : cursor) : res cursor :=
  if valid c then
    match c with
    | CAt p => truncate p (up_hi (plen p))
    | _ => Panic
    end
  else Ok c.

(* Min / Max *)
Definition go_extreme (d : dir) (idx : Z -> Z) (t : tree) (c : cursor) : res cursor :=
  if valid c then
    match c with
    | CAt p =>
      bind (path_at t p (idx (plen p))) (fun m =>
      match m with
      | Leaf => Panic                                      (* m.left on nil *)
      | Node _ _ _ => Ok (CAt (p ++ spine d m))
      end)
    | _ => Panic
    end
  else Ok c.

Definition cmin := go_extreme L min_idx.
Definition cmax := go_extreme R max_idx.

(* Inorder with a stateful yield (false = stop), as node.inorder in StreeModel *)
Definition cinorder {S : Type} (t : tree) (c : cursor) (f : S -> T -> S * bool) (s : S) : res S :=
  if valid c then
    match c with
    | CAt p =>
      bind (path_at t p (inorder_idx (plen p))) (fun n => Ok (fst (inorder_until f n s)))
    | _ => Panic
    end
  else Ok s.

(* all keys Inorder yields when never stopped *)
Definition cinorder_all (t : tree) (c : cursor) : res (list T) :=
  bind (cinorder t c (fun (acc : list T) x => (x :: acc, true)) []) (fun acc => Ok (rev acc)).

(* the directions between consecutive nodes of node.pathTo (StreeModel.path_to lists the nodes) *)
Fixpoint path_dirs (k : T) (cur : tree) : list dir :=
  match cur with
  | Leaf => []
  | Node l x r =>
    let c := cmp k x in
    if path_lt c then match l with Leaf => [] | Node _ _ _ => L :: path_dirs k l end
    else if path_gt c then match r with Leaf => [] | Node _ _ _ => R :: path_dirs k r end
    else []
  end.

(* Tree.Cursor *)
Definition tree_cursor (t : tree) (k : T) : res cursor :=
  let path := path_to cmp k t in
  let n := Z.of_nat (length path) in
  bind (if n =? 0 then Ok 0                                 (* right operand of || not evaluated *)
        else let i := tcur_last_idx n in
             if i <? 0 then Panic
             else match nth_error path (Z.to_nat i) with
                  | Some (Node _ x _) => Ok (cmp x k)
                  | _ => Panic
                  end) (fun c =>
  if tcur_reject n c then Ok CNil else Ok (CAt (path_dirs k t))).

(* Tree.Root *)
Definition tree_root (t : tree) : cursor :=
  match t with Leaf => CNil | Node _ _ _ => CAt [] end.

(* ------------------------------------------------------------------ histories of moves *)

Inductive move : Type := MNext | MPrev | MLeft | MRight | MUp | MMin | MMax.

Definition step (t : tree) (c : cursor) (m : move) : res cursor :=
  match m with
  | MNext => next t c
  | MPrev => prev t c
  | MLeft => left t c
  | MRight => right t c
  | MUp => up c
  | MMin => cmin t c
  | MMax => cmax t c
  end.

(* everything the public API shows of a cursor *)
Record obs : Type := mkObs {
  o_valid : bool; o_key : T;
  o_has_next : bool; o_has_prev : bool; o_has_left : bool; o_has_right : bool; o_has_parent : bool;
  o_inorder : list T }.

Definition observe (t : tree) (c : cursor) : res obs :=
  bind (key t c) (fun k =>
  bind (has_next t c) (fun hn =>
  bind (has_prev t c) (fun hp =>
  bind (has_left t c) (fun hl =>
  bind (has_right t c) (fun hr =>
  bind (cinorder_all t c) (fun io =>
  Ok (mkObs (valid c) k hn hp hl hr (has_parent c) io))))))).

(* the cursors after each move of a history *)
Fixpoint run (t : tree) (c : cursor) (ms : list move) : res (list cursor) :=
  match ms with
  | [] => Ok []
  | m :: ms' =>
    bind (step t c m) (fun c' =>
    bind (run t c' ms') (fun cs => Ok (c' :: cs)))
  end.

End Cursor.

Arguments child {T} d n.
Arguments field {T} d n.
Arguments is_node {T} n.
Arguments subtree {T} t p.
Arguments path_at {T} t p k.
Arguments key {T} zero t c.
Arguments find_next {T} t p.
Arguments find_prev {T} t p.
Arguments has_next {T} t c.
Arguments has_prev {T} t c.
Arguments descend {T} first d m.
Arguments spine {T} d m.
Arguments next {T} t c.
Arguments prev {T} t c.
Arguments has_child {T} d res_expr idx t c.
Arguments has_left {T} t c.
Arguments has_right {T} t c.
Arguments go_child {T} d idx t c.
Arguments left {T} t c.
Arguments right {T} t c.
Arguments go_extreme {T} d idx t c.
Arguments cmin {T} t c.
Arguments cmax {T} t c.
Arguments cinorder {T S} t c f s.
Arguments cinorder_all {T} t c.
Arguments path_dirs {T} cmp k cur.
Arguments tree_cursor {T} cmp t k.
Arguments tree_root {T} t.
Arguments step {T} t c m.
Arguments mkObs {T}.
Arguments o_valid {T} o.
Arguments o_key {T} o.
Arguments o_has_next {T} o.
Arguments o_has_prev {T} o.
Arguments o_has_left {T} o.
Arguments o_has_right {T} o.
Arguments o_has_parent {T} o.
Arguments o_inorder {T} o.
Arguments observe {T} zero t c.
Arguments run {T} t c ms.
