(* C02: facts about expressions of stree.go that the model (Stree/StreeModel.v) writes by hand
   instead of taking from Gen: Tree.Add and Tree.Replace pass t.limit(t.size+1) to insert
   unchanged, and Tree.insert has exactly one call of rewrite and one of t.limit in its unwind.
   Gen/StreeHeightConst.v is regenerated from the Go source on every run, so a change of these
   expressions (e.g. a depth limit loosened by a constant) breaks this file at make. *)
From Coq Require Import ZArith.
From Mds Require Import Gen.StreeHeightConst.
Local Open Scope Z_scope.

Lemma add_insert_limit_plain lim : add_insert_limit lim = lim.
Proof. reflexivity. Qed.

Lemma replace_insert_limit_plain lim : replace_insert_limit lim = lim.
Proof. reflexivity. Qed.

Lemma insert_calls : insert_ncalls_rewrite = 1 /\ insert_ncalls_limit = 1.
Proof. split; reflexivity. Qed.
