(* C01 proofs, part 1: what the generated arithmetic says (each fact closed by computation, so a
   changed operator or constant in the Go source breaks exactly here), comparator laws, and the
   order-preserving rebuilds: treeToVine, rotateLeft, vineToTree, rewrite, extract. *)
From Coq Require Import ZArith List Bool Lia.
Import ListNotations.
From Mds Require Import Gen.StreeConst Gen.StreeNode Stree.StreeModel Stree.StreeSpec.
Local Open Scope Z_scope.

(* ------------------------------------------------------------------ generated facts *)
(* The sign tests on a comparison result are proved extensionally, so an equivalent way of writing
   them in the Go source (cmp >= 1, 0 > cmp, cmp <= -1 ...) keeps the proofs; a test that differs on
   some integer (cmp == -1, cmp > 1 ...) does not. *)
Ltac zb :=
  repeat match goal with
  | |- context [Z.ltb ?a ?b] => destruct (Z.ltb_spec a b)
  | |- context [Z.leb ?a ?b] => destruct (Z.leb_spec a b)
  | |- context [Z.gtb ?a ?b] => destruct (Z.gtb_spec a b)
  | |- context [Z.geb ?a ?b] => destruct (Z.geb_spec a b)
  | |- context [Z.eqb ?a ?b] => destruct (Z.eqb_spec a b)
  end; cbn [negb andb orb]; try reflexivity; try lia.

Lemma gen_node_size l r : node_size l r = 1 + l + r.                  Proof. reflexivity. Qed.
Lemma gen_rot_count c : rot_count c = c.                              Proof. reflexivity. Qed.
Lemma gen_step0 : v2t_step0 = 1.                                      Proof. reflexivity. Qed.
Lemma gen_step_more s c : v2t_step_more s c = (s <=? c).              Proof. reflexivity. Qed.
Lemma gen_step_next s : v2t_step_next s = 2 * s + 1.                  Proof. reflexivity. Qed.
Lemma gen_step_final s : v2t_step_final s = Z.quot s 2.               Proof. reflexivity. Qed.
Lemma gen_first_count c s : v2t_first_count c s = c - s.              Proof. reflexivity. Qed.
Lemma gen_left0 s : v2t_left0 s = s.                                  Proof. reflexivity. Qed.
Lemma gen_left_more l : v2t_left_more l = (l >? 1).                   Proof. reflexivity. Qed.
Lemma gen_left_next l : v2t_left_next l = Z.quot l 2.                 Proof. reflexivity. Qed.
Lemma gen_loop_count l : v2t_loop_count l = l.                        Proof. reflexivity. Qed.
Lemma gen_rewrite_count s : rewrite_count s = s.                      Proof. reflexivity. Qed.
Lemma gen_ext_empty n : ext_empty n = (n =? 0).                       Proof. reflexivity. Qed.
Lemma gen_ext_root_idx m : ext_root_idx m = m.                        Proof. reflexivity. Qed.
Lemma gen_ext_left_hi m : ext_left_hi m = m.                          Proof. reflexivity. Qed.
Lemma gen_ext_right_lo m : ext_right_lo m = m + 1.                    Proof. reflexivity. Qed.
(* Any midpoint inside the slice keeps New correct (so the upper median would do as well). *)
Lemma gen_ext_mid_range n : 0 < n -> 0 <= ext_mid n < n.
Proof.
  intros H. unfold ext_mid.
  pose proof (Z.quot_pos (n - 1) 2) as P1.
  pose proof (Z.quot_le_upper_bound (n - 1) 2 (n - 1)) as P2.
  pose proof (Z.quot_pos n 2) as P3.
  pose proof (Z.quot_lt n 2) as P4.
  lia.
Qed.

Lemma gen_ins_leaf_over l : ins_leaf_over l = (l <? 0).               Proof. reflexivity. Qed.
Lemma gen_ins_leaf_size : ins_leaf_size = 1.                          Proof. reflexivity. Qed.
Lemma gen_ins_lt c : ins_lt c = (c <? 0). Proof. unfold ins_lt. zb. Qed.
Lemma gen_ins_gt c : ins_gt c = (c >? 0). Proof. unfold ins_gt. zb. Qed.
Lemma gen_ins_eq_size : ins_eq_size = 0.                              Proof. reflexivity. Qed.
Lemma gen_ins_seeking s : ins_seeking s = (s >? 0).                   Proof. reflexivity. Qed.
Lemma gen_ins_root_size a s : ins_root_size a s = a + 1 + s.          Proof. reflexivity. Qed.
Lemma gen_ins_keep_size s : ins_keep_size s = s.                      Proof. reflexivity. Qed.
Lemma gen_ins_rewrite_size s : ins_rewrite_size s = s.                Proof. reflexivity. Qed.
Lemma gen_ins_goat_size : ins_goat_size = 0.                          Proof. reflexivity. Qed.
Lemma gen_rem_lt c : rem_lt c = (c <? 0). Proof. unfold rem_lt. zb. Qed.
Lemma gen_rem_gt c : rem_gt c = (c >? 0). Proof. unfold rem_gt. zb. Qed.
Lemma gen_rem_size s : rem_size s = s - 1.                            Proof. reflexivity. Qed.
Lemma gen_rem_rewrite_size s : rem_rewrite_size s = s.                Proof. reflexivity. Qed.
Lemma gen_get_lt c : get_lt c = (c <? 0). Proof. unfold get_lt. zb. Qed.
Lemma gen_get_gt c : get_gt c = (c >? 0). Proof. unfold get_gt. zb. Qed.
Lemma gen_path_lt c : path_lt c = (c <? 0). Proof. unfold path_lt. zb. Qed.
Lemma gen_path_gt c : path_gt c = (c >? 0). Proof. unfold path_gt. zb. Qed.
Lemma gen_after_start n : after_start n = n - 1.                      Proof. reflexivity. Qed.
Lemma gen_after_more i : after_more i = (i >=? 0).                    Proof. reflexivity. Qed.
Lemma gen_after_next i : after_next i = i - 1.                        Proof. reflexivity. Qed.
Lemma gen_after_skip c : after_skip c = (c <? 0). Proof. unfold after_skip. zb. Qed.
Lemma gen_new_beta_bad b : new_beta_bad b = ((b <? 0) || (b >? 1000)). Proof. reflexivity. Qed.
Lemma gen_new_has_keys n : new_has_keys n = negb (n =? 0).            Proof. reflexivity. Qed.
Lemma gen_new_size n : new_size n = n.                                Proof. reflexivity. Qed.
Lemma gen_add_limit_arg s : add_limit_arg s = s + 1.                  Proof. reflexivity. Qed.
Lemma gen_inc_size s : inc_size s = s + 1.                            Proof. reflexivity. Qed.
Lemma gen_len_result s : len_result s = s.                            Proof. reflexivity. Qed.
Lemma gen_is_empty s : is_empty s = (s =? 0).                         Proof. reflexivity. Qed.
Lemma gen_clear_size : clear_size = 0.                                Proof. reflexivity. Qed.
Lemma gen_incsize_once : add_ncalls_incsize = 1 /\ replace_ncalls_incsize = 1 /\ v2t_ncalls_rotate = 2.
Proof. repeat split; reflexivity. Qed.

(* How often each function calls the ones the model calls in the same places (a dropped or doubled
   call in the Go source breaks this fact even when no arithmetic changes). *)
Lemma gen_call_counts :
  new_ncalls_extract = 1 /\ new_ncalls_sort = 1 /\ new_ncalls_compact = 1 /\ clone_ncalls_clone = 1
  /\ ins_ncalls_insert = 2 /\ ins_ncalls_rewrite = 1 /\ rem_ncalls_remove = 1 /\ rem_ncalls_rewrite = 1
  /\ noderem_ncalls_pop = 1 /\ noderem_ncalls_left = 1 /\ noderem_ncalls_right = 1
  /\ nodeclone_ncalls_left = 1 /\ nodeclone_ncalls_right = 1
  /\ rewrite_ncalls_t2v = 1 /\ rewrite_ncalls_v2t = 1 /\ ext_ncalls_extract = 2
  /\ after_ncalls_pathto = 1 /\ after_ncalls_inorder = 1 /\ inorder_ncalls_left = 1.
Proof. repeat split; reflexivity. Qed.

(* ------------------------------------------------------------------ trees *)
Section Trees.
Variable T : Type.
Implicit Types t rest c chain n : tree T.

Lemma count_inorder t : length (inorder t) = count t.
Proof.
  induction t as [|l IHl x r IHr]; cbn [inorder count]; [reflexivity|].
  rewrite app_length. cbn [length]. rewrite IHl, IHr. lia.
Qed.

Lemma size_count t : size t = Z.of_nat (count t).
Proof.
  induction t as [|l IHl x r IHr]; cbn [size count]; [reflexivity|].
  rewrite gen_node_size, IHl, IHr. lia.
Qed.

Lemma size_inorder t : size t = Z.of_nat (length (inorder t)).
Proof. rewrite count_inorder. apply size_count. Qed.

Lemma size_nonneg t : 0 <= size t.
Proof. rewrite size_count. lia. Qed.

Lemma inorder_clone t : clone t = t.
Proof. induction t as [|l IHl x r IHr]; cbn [clone]; congruence. Qed.

(* the chain of left-less nodes holding a list *)
Definition list_vine (l : list T) : tree T := fold_right (fun x t => Node Leaf x t) Leaf l.

Lemma vine_of_app acc rest : inorder (vine_of acc rest) = rev acc ++ inorder rest.
Proof.
  revert rest. induction acc as [|a acc IH]; intros rest; cbn [vine_of fold_left rev]; [reflexivity|].
  change (fold_left (fun t x => Node Leaf x t) acc (Node Leaf a rest)) with (vine_of acc (Node Leaf a rest)).
  rewrite IH. cbn [inorder app]. rewrite <- app_assoc. reflexivity.
Qed.

Lemma vine_of_list acc : vine_of acc Leaf = list_vine (rev acc).
Proof.
  assert (G : forall rest l, vine_of acc (list_vine l) = list_vine (rev acc ++ l)).
  { induction acc as [|a acc IH]; intros rest l; cbn [vine_of fold_left rev app]; [reflexivity|].
    change (fold_left (fun t x => Node Leaf x t) acc (Node Leaf a (list_vine l)))
      with (vine_of acc (list_vine (a :: l))).
    rewrite (IH rest). rewrite <- app_assoc. reflexivity. }
  specialize (G Leaf []). cbn [list_vine fold_right] in G. rewrite app_nil_r in G. exact G.
Qed.

Lemma inorder_list_vine l : inorder (list_vine l) = l.
Proof. induction l as [|a l IH]; cbn [list_vine fold_right inorder app]; [reflexivity|]. f_equal. exact IH. Qed.

(* ---- treeToVine: measure = rotations and advances still to do *)
Fixpoint mu t : nat :=
  match t with
  | Leaf => O
  | Node l _ r => (2 * count l + 1 + mu r)%nat
  end.

Lemma mu_le t : (mu t <= 2 * count t)%nat.
Proof. induction t as [|l IHl x r IHr]; cbn [mu count]; lia. Qed.

Lemma t2v_loop_ok fuel : forall acc rest, (mu rest <= fuel)%nat ->
  t2v_loop fuel acc rest = Ok (vine_of (rev (inorder rest) ++ acc) Leaf).
Proof.
  induction fuel as [|fuel IH]; intros acc rest H.
  - destruct rest as [|l x r]; [reflexivity|]. cbn [mu] in H. lia.
  - destruct rest as [|cl cx cr]; [reflexivity|].
    cbn [t2v_loop]. destruct cl as [|ll lx lr].
    + rewrite IH by (cbn [mu count] in H; lia).
      cbn [inorder app rev]. rewrite <- app_assoc. reflexivity.
    + rewrite IH by (cbn [mu count] in H |- *; lia).
      cbn [inorder]. rewrite <- !app_assoc. reflexivity.
Qed.

Lemma tree_to_vine_ok t : tree_to_vine t = Ok (list_vine (inorder t)).
Proof.
  unfold tree_to_vine. rewrite t2v_loop_ok.
  - rewrite app_nil_r, vine_of_list, rev_involutive. reflexivity.
  - unfold t2v_fuel. pose proof (mu_le t). lia.
Qed.

(* ---- rotateLeft *)
Fixpoint rspine t : nat :=
  match t with
  | Leaf => O
  | Node _ _ r => S (rspine r)
  end.

Lemma rspine_list_vine (l : list T) : rspine (list_vine l) = length l.
Proof. induction l as [|a l IH]; cbn [list_vine fold_right rspine length]; [reflexivity|]. f_equal. exact IH. Qed.

Lemma rotate_left_n_ok k : forall c, (2 * k <= rspine c)%nat ->
  exists c', rotate_left_n k c = Ok c' /\ rspine c' = (rspine c - k)%nat /\ inorder c' = inorder c.
Proof.
  induction k as [|k IH]; intros c H.
  - exists c. cbn [rotate_left_n]. repeat split. lia.
  - destruct c as [|x cx R]; [cbn [rspine] in H; lia|].
    destruct R as [|y rx z]; [cbn [rspine] in H; lia|].
    destruct (IH z) as (z' & E & S1 & I1); [cbn [rspine] in H; lia|].
    exists (Node (Node x cx y) rx z'). cbn [rotate_left_n]. rewrite E. cbn [bind].
    repeat split.
    + cbn [rspine]. rewrite S1. cbn [rspine] in H. lia.
    + cbn [inorder]. rewrite I1. rewrite <- !app_assoc. reflexivity.
Qed.

Lemma rotate_left_ok c cnt : 2 * cnt <= Z.of_nat (rspine c) ->
  exists c', rotate_left c cnt = Ok c' /\ Z.of_nat (rspine c') = Z.of_nat (rspine c) - Z.max cnt 0
             /\ inorder c' = inorder c.
Proof.
  intros H. unfold rotate_left. rewrite gen_rot_count.
  destruct (rotate_left_n_ok (Z.to_nat cnt) c) as (c' & E & S1 & I1); [lia|].
  exists c'. repeat split; [exact E| |exact I1]. rewrite S1. lia.
Qed.

(* ---- vineToTree *)
Lemma step_loop_ok cnt fuel : forall step, 1 <= step -> Z.quot step 2 <= Z.max cnt 0 ->
  cnt - step < Z.of_nat fuel ->
  exists s, v2t_step_loop fuel step cnt = Ok s /\ cnt < s /\ 1 <= s /\ Z.quot s 2 <= Z.max cnt 0.
Proof.
  induction fuel as [|fuel IH]; intros step H1 H2 H3.
  - exists step. cbn [v2t_step_loop]. rewrite gen_step_more.
    destruct (Z.leb_spec step cnt); [lia|]. repeat split; lia.
  - cbn [v2t_step_loop]. rewrite gen_step_more.
    destruct (Z.leb_spec step cnt) as [L|L].
    + rewrite gen_step_next. apply IH; [lia| |lia].
      replace (2 * step + 1) with (1 + step * 2) by lia.
      rewrite Z.quot_add by lia. cbn. lia.
    + exists step. repeat split; lia.
Qed.

Lemma pack_loop_ok fuel : forall left chain, left <= Z.of_nat fuel -> left <= Z.of_nat (rspine chain) ->
  exists t', v2t_pack_loop fuel left chain = Ok t' /\ inorder t' = inorder chain.
Proof.
  induction fuel as [|fuel IH]; intros left chain H1 H2.
  - cbn [v2t_pack_loop]. rewrite gen_left_more. destruct (Z.gtb_spec left 1); [lia|].
    exists chain. split; reflexivity.
  - cbn [v2t_pack_loop]. rewrite gen_left_more. destruct (Z.gtb_spec left 1) as [G|G].
    + rewrite gen_left_next, gen_loop_count.
      assert (Q : 0 <= Z.quot left 2 /\ 2 * Z.quot left 2 <= left /\ Z.quot left 2 < left).
      { pose proof (Z.quot_rem' left 2) as E. pose proof (Z.rem_bound_pos left 2). lia. }
      destruct (rotate_left_ok chain (Z.quot left 2)) as (c' & E & S1 & I1); [lia|].
      rewrite E. cbn [bind].
      destruct (IH (Z.quot left 2) c') as (t' & E2 & I2); [lia|lia|].
      exists t'. split; [exact E2|congruence].
    + exists chain. split; reflexivity.
Qed.

Lemma vine_to_tree_ok n cnt : cnt <= Z.of_nat (rspine n) ->
  exists t', vine_to_tree n cnt = Ok t' /\ inorder t' = inorder n.
Proof.
  intros H. unfold vine_to_tree.
  destruct (step_loop_ok cnt (v2t_fuel cnt) v2t_step0) as (s & E & S1 & S2 & S3).
  { rewrite gen_step0. lia. }
  { rewrite gen_step0. cbn. lia. }
  { rewrite gen_step0. unfold v2t_fuel. lia. }
  rewrite E. cbn [bind]. rewrite gen_step_final, gen_first_count.
  assert (Q : 0 <= Z.quot s 2 /\ s <= 2 * Z.quot s 2 + 1).
  { pose proof (Z.quot_rem' s 2) as E'. pose proof (Z.rem_bound_pos s 2). lia. }
  destruct (rotate_left_ok n (cnt - Z.quot s 2)) as (c' & E1 & R1 & I1); [lia|].
  rewrite E1. cbn [bind]. rewrite gen_left0.
  destruct (pack_loop_ok (v2t_fuel (Z.quot s 2)) (Z.quot s 2) c') as (t' & E2 & I2).
  { unfold v2t_fuel. lia. }
  { lia. }
  exists t'. split; [exact E2|congruence].
Qed.

(* ---- rewrite: with the exact node count it succeeds and keeps the order *)
Lemma rewrite_ok_le t sz : sz <= size t -> exists t', rewrite t sz = Ok t' /\ inorder t' = inorder t.
Proof.
  intros H. unfold rewrite. rewrite tree_to_vine_ok. cbn [bind]. rewrite gen_rewrite_count.
  destruct (vine_to_tree_ok (list_vine (inorder t)) sz) as (t' & E & I).
  - rewrite rspine_list_vine. rewrite size_inorder in H. exact H.
  - exists t'. split; [exact E|]. rewrite I. apply inorder_list_vine.
Qed.

Lemma rewrite_ok t sz : sz = size t -> exists t', rewrite t sz = Ok t' /\ inorder t' = inorder t.
Proof. intros ->. apply rewrite_ok_le. lia. Qed.

(* ---- extract *)
Lemma firstn_nth_skipn (l : list T) i x : nth_error l i = Some x -> firstn i l ++ x :: skipn (S i) l = l.
Proof.
  revert l. induction i as [|i IH]; intros [|a l] H; cbn in H |- *; try discriminate.
  - congruence.
  - f_equal. apply IH. exact H.
Qed.

Lemma extract_fuel_ok fuel : forall nodes, (length nodes <= fuel)%nat ->
  exists t, extract_fuel fuel nodes = Ok t /\ inorder t = nodes.
Proof.
  induction fuel as [|fuel IH]; intros nodes H.
  - destruct nodes; [|cbn in H; lia]. exists Leaf. split; reflexivity.
  - cbn [extract_fuel]. rewrite gen_ext_empty.
    destruct (Z.eqb_spec (Z.of_nat (length nodes)) 0) as [E0|E0].
    + destruct nodes; [|cbn in E0; lia]. exists Leaf. split; reflexivity.
    + pose proof (gen_ext_mid_range (Z.of_nat (length nodes)) ltac:(lia)) as M.
      set (mid := ext_mid (Z.of_nat (length nodes))) in *.
      rewrite gen_ext_root_idx, gen_ext_left_hi, gen_ext_right_lo.
      unfold index_at. destruct (Z.ltb_spec mid 0); [lia|].
      destruct (nth_error nodes (Z.to_nat mid)) as [x|] eqn:N.
      2:{ apply nth_error_None in N. lia. }
      cbn [bind]. unfold slice_to.
      destruct (Z.ltb_spec mid 0); [lia|]. destruct (Z.ltb_spec (Z.of_nat (length nodes)) mid); [lia|].
      cbn [orb bind].
      destruct (IH (firstn (Z.to_nat mid) nodes)) as (l & El & Il).
      { rewrite firstn_length. lia. }
      rewrite El. cbn [bind]. unfold slice_from.
      destruct (Z.ltb_spec (mid + 1) 0); [lia|]. destruct (Z.ltb_spec (Z.of_nat (length nodes)) (mid + 1)); [lia|].
      cbn [orb bind].
      destruct (IH (skipn (Z.to_nat (mid + 1)) nodes)) as (r & Er & Ir).
      { rewrite skipn_length. lia. }
      rewrite Er. cbn [bind]. exists (Node l x r). split; [reflexivity|].
      cbn [inorder]. rewrite Il, Ir.
      replace (Z.to_nat (mid + 1)) with (S (Z.to_nat mid)) by lia.
      apply firstn_nth_skipn. exact N.
Qed.

Lemma extract_ok (nodes : list T) : exists t, extract nodes = Ok t /\ inorder t = nodes.
Proof. apply extract_fuel_ok. lia. Qed.

End Trees.

Arguments list_vine {T} l.
Arguments rspine {T} t.
