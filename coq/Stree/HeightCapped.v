(* C02: the capped depth limit min(limit_exact b n, n) (what the replay driver computes) and the
   exact one drive the tree identically: every history has the same outputs and the same states
   under both.  Reason: a height-above never reaches the subtree size and a depth never reaches
   the tree size, so a limit value >= n behaves like any other value >= n.

   Stated for any two limit functions that [Agree]: equal at n, or both >= n. *)
From Coq Require Import ZArith List Bool Lia.
Import ListNotations.
From Mds Require Import Gen.StreeConst Gen.StreeNode Stree.StreeModel Stree.HeightModel
  Stree.HeightLimit Stree.HeightBasics Stree.HeightRewrite Stree.HeightProofs.
Local Open Scope Z_scope.

Section Capped.
Variable T : Type.
Variable cmp : T -> T -> Z.
Notation tree := (tree T).

(* ---- facts about insert that hold for every limit function *)

Section AnyLimit.
Variable lim : Z -> Z -> Z.
Variable b : Z.

(* while the goat search is on, nothing has been rebuilt *)
Lemma insert_seeking (key : T) (rep : bool) : forall (t t' : tree) L added sz ht,
  insert cmp lim b key rep t L = Ok (t', added, sz, ht) -> 0 < sz ->
  sz = size t' /\ size t' = size t + 1 /\ 0 <= ht <= height t + 1.
Proof.
  induction t as [|l IHl x r IHr]; intros t' L added sz ht E Hsz.
  - cbn [insert] in E. gen_unfold. inversion E; subst; clear E.
    destruct (L <? 0); [|lia]. cbn. lia.
  - cbn [insert] in E. gen_unfold.
    pose proof (height_ge_m1 T l). pose proof (height_ge_m1 T r).
    destruct (cmp key x <? 0).
    + destruct (insert cmp lim b key rep l (L - 1)) as [[[[ins a1] sz1] ht1]| | |] eqn:Ei;
        cbn [bind] in E; try discriminate.
      unfold ins_unwind in E. gen_unfold.
      destruct (sz1 >? 0) eqn:Es.
      * rewrite Z.gtb_ltb in Es. apply Z.ltb_lt in Es.
        destruct (IHl _ _ _ _ _ Ei Es) as [A [B C]].
        destruct (ht1 + 1 <=? lim b (size r + 1 + sz1)).
        -- inversion E; subst; clear E. rewrite !size_node. cbn [height]. lia.
        -- destruct (rewrite (Node ins x r) (size r + 1 + sz1)); cbn [bind] in E; try discriminate.
           inversion E; subst. lia.
      * rewrite Z.gtb_ltb in Es. apply Z.ltb_ge in Es. inversion E; subst. lia.
    + destruct (cmp key x >? 0).
      * destruct (insert cmp lim b key rep r (L - 1)) as [[[[ins a1] sz1] ht1]| | |] eqn:Ei;
          cbn [bind] in E; try discriminate.
        unfold ins_unwind in E. gen_unfold.
        destruct (sz1 >? 0) eqn:Es.
        -- rewrite Z.gtb_ltb in Es. apply Z.ltb_lt in Es.
           destruct (IHr _ _ _ _ _ Ei Es) as [A [B C]].
           destruct (ht1 + 1 <=? lim b (size l + 1 + sz1)).
           ++ inversion E; subst; clear E. rewrite !size_node. cbn [height]. lia.
           ++ destruct (rewrite (Node l x ins) (size l + 1 + sz1)); cbn [bind] in E; try discriminate.
              inversion E; subst. lia.
        -- rewrite Z.gtb_ltb in Es. apply Z.ltb_ge in Es. inversion E; subst. lia.
      * inversion E; subst. lia.
Qed.

Lemma insert_size (key : T) (rep : bool) : forall (t t' : tree) L added sz ht,
  insert cmp lim b key rep t L = Ok (t', added, sz, ht) ->
  size t' = size t + (if added then 1 else 0).
Proof.
  induction t as [|l IHl x r IHr]; intros t' L added sz ht E.
  - cbn [insert] in E. inversion E; subst. reflexivity.
  - cbn [insert] in E. gen_unfold.
    destruct (cmp key x <? 0).
    + destruct (insert cmp lim b key rep l (L - 1)) as [[[[ins a1] sz1] ht1]| | |] eqn:Ei;
        cbn [bind] in E; try discriminate.
      pose proof (IHl _ _ _ _ _ Ei) as Hs.
      unfold ins_unwind in E. gen_unfold.
      destruct (sz1 >? 0) eqn:Es.
      * rewrite Z.gtb_ltb in Es. apply Z.ltb_lt in Es.
        destruct (insert_seeking _ _ _ _ _ _ _ _ Ei Es) as [A _].
        destruct (ht1 + 1 <=? lim b (size r + 1 + sz1)).
        -- inversion E; subst. rewrite !size_node. lia.
        -- destruct (rewrite (Node ins x r) (size r + 1 + sz1)) as [root'| | |] eqn:Er; cbn [bind] in E; try discriminate.
           inversion E; subst.
           replace (size r + 1 + size ins) with (size (Node ins x r)) in Er by (rewrite size_node; lia).
           destruct (rewrite_size _ _ Er) as [Hrs _]. rewrite Hrs, !size_node. lia.
      * inversion E; subst. rewrite !size_node. lia.
    + destruct (cmp key x >? 0).
      * destruct (insert cmp lim b key rep r (L - 1)) as [[[[ins a1] sz1] ht1]| | |] eqn:Ei;
          cbn [bind] in E; try discriminate.
        pose proof (IHr _ _ _ _ _ Ei) as Hs.
        unfold ins_unwind in E. gen_unfold.
        destruct (sz1 >? 0) eqn:Es.
        -- rewrite Z.gtb_ltb in Es. apply Z.ltb_lt in Es.
           destruct (insert_seeking _ _ _ _ _ _ _ _ Ei Es) as [A _].
           destruct (ht1 + 1 <=? lim b (size l + 1 + sz1)).
           ++ inversion E; subst. rewrite !size_node. lia.
           ++ destruct (rewrite (Node l x ins) (size l + 1 + sz1)) as [root'| | |] eqn:Er; cbn [bind] in E; try discriminate.
              inversion E; subst.
              replace (size l + 1 + size ins) with (size (Node l x ins)) in Er by (rewrite size_node; lia).
              destruct (rewrite_size _ _ Er) as [Hrs _]. rewrite Hrs, !size_node. lia.
        -- inversion E; subst. rewrite !size_node. lia.
      * inversion E; subst. rewrite !size_node. lia.
Qed.

End AnyLimit.

(* ---- two limit functions that agree wherever it matters *)

Variable lim1 lim2 : Z -> Z -> Z.

Definition Agree (b : Z) : Prop :=
  forall n, 1 <= n -> lim1 b n = lim2 b n \/ (n <= lim1 b n /\ n <= lim2 b n).

Lemma unwind_agree b (root sib : tree) added sz1 ht : Agree b ->
  (0 < sz1 -> 0 <= ht <= sz1) ->
  ins_unwind lim1 b root sib added sz1 ht = ins_unwind lim2 b root sib added sz1 ht.
Proof.
  intros HA Hht. unfold ins_unwind. gen_unfold.
  destruct (sz1 >? 0) eqn:Es; [|reflexivity].
  rewrite Z.gtb_ltb in Es. apply Z.ltb_lt in Es. specialize (Hht Es).
  pose proof (size_nonneg T sib).
  destruct (HA (size sib + 1 + sz1) ltac:(lia)) as [->|[A B]]; [reflexivity|].
  destruct (ht <=? lim1 b (size sib + 1 + sz1)) eqn:E1; destruct (ht <=? lim2 b (size sib + 1 + sz1)) eqn:E2;
    try reflexivity;
    try apply Z.leb_le in E1; try apply Z.leb_gt in E1; try apply Z.leb_le in E2; try apply Z.leb_gt in E2; lia.
Qed.

Lemma insert_agree b (key : T) (rep : bool) : Agree b -> forall (t : tree) L1 L2,
  (L1 = L2 \/ (size t < L1 /\ size t < L2)) ->
  insert cmp lim1 b key rep t L1 = insert cmp lim2 b key rep t L2.
Proof.
  intros HA. induction t as [|l IHl x r IHr]; intros L1 L2 HL.
  - cbn [insert]. gen_unfold. destruct HL as [->|[A B]]; [reflexivity|]. cbn [size] in *.
    destruct (L1 <? 0) eqn:E1; [apply Z.ltb_lt in E1; lia|].
    destruct (L2 <? 0) eqn:E2; [apply Z.ltb_lt in E2; lia|]. reflexivity.
  - cbn [insert]. gen_unfold.
    pose proof (size_nonneg T l). pose proof (size_nonneg T r). rewrite size_node in HL.
    destruct (cmp key x <? 0).
    + rewrite (IHl (L1 - 1) (L2 - 1)) by lia.
      destruct (insert cmp lim2 b key rep l (L2 - 1)) as [[[[ins a1] sz1] ht1]| | |] eqn:Ei;
        cbn [bind]; try reflexivity.
      apply unwind_agree; [exact HA|]. intros Hp.
      destruct (insert_seeking lim2 b key rep _ _ _ _ _ _ Ei Hp) as [A [B C]].
      pose proof (height_lt_size T l). lia.
    + destruct (cmp key x >? 0); [|reflexivity].
      rewrite (IHr (L1 - 1) (L2 - 1)) by lia.
      destruct (insert cmp lim2 b key rep r (L2 - 1)) as [[[[ins a1] sz1] ht1]| | |] eqn:Ei;
        cbn [bind]; try reflexivity.
      apply unwind_agree; [exact HA|]. intros Hp.
      destruct (insert_seeking lim2 b key rep _ _ _ _ _ _ Ei Hp) as [A [B C]].
      pose proof (height_lt_size T r). lia.
Qed.

(* ---- the Tree object *)

Definition Good (t : Tree T) : Prop := tsize t = size (root t) /\ Agree (beta t).

Lemma top_limit_agree (t : Tree T) : Good t ->
  let n := tsize t + 1 in
  lim1 (beta t) n = lim2 (beta t) n \/ (size (root t) < lim1 (beta t) n /\ size (root t) < lim2 (beta t) n).
Proof.
  intros [Hs HA]. cbn zeta. pose proof (size_nonneg T (root t)).
  destruct (HA (tsize t + 1) ltac:(lia)) as [E|[A B]]; [left; exact E|right; lia].
Qed.

Lemma Add_agree (t : Tree T) key : Good t -> Add cmp lim1 t key = Add cmp lim2 t key.
Proof.
  intros HG. unfold Add. gen_unfold.
  rewrite (insert_agree (beta t) key false (proj2 HG) (root t) _ _ (top_limit_agree t HG)). reflexivity.
Qed.

Lemma Replace_agree (t : Tree T) key : Good t -> Replace cmp lim1 t key = Replace cmp lim2 t key.
Proof.
  intros HG. unfold Replace. gen_unfold.
  rewrite (insert_agree (beta t) key true (proj2 HG) (root t) _ _ (top_limit_agree t HG)). reflexivity.
Qed.

Lemma Add_good (t t' : Tree T) key ok : Good t -> Add cmp lim2 t key = Ok (t', ok) -> Good t'.
Proof.
  intros [Hs HA] E. unfold Add in E.
  destruct (insert cmp lim2 (beta t) key false (root t) _) as [[[[ins ok'] sz] ht]| | |] eqn:Ei;
    cbn [bind] in E; try discriminate.
  pose proof (insert_size lim2 _ _ _ _ _ _ _ _ _ Ei) as Hsz.
  unfold inc_size_of in E. gen_unfold.
  destruct ok'; inversion E; subst; clear E; split; cbn [tsize root beta]; try exact HA; lia.
Qed.

Lemma Replace_good (t t' : Tree T) key ok : Good t -> Replace cmp lim2 t key = Ok (t', ok) -> Good t'.
Proof.
  intros [Hs HA] E. unfold Replace in E.
  destruct (insert cmp lim2 (beta t) key true (root t) _) as [[[[ins ok'] sz] ht]| | |] eqn:Ei;
    cbn [bind] in E; try discriminate.
  pose proof (insert_size lim2 _ _ _ _ _ _ _ _ _ Ei) as Hsz.
  unfold inc_size_of in E. gen_unfold.
  destruct ok'; inversion E; subst; clear E; split; cbn [tsize root beta]; try exact HA; lia.
Qed.

Lemma Remove_good (t t' : Tree T) key ok : Good t -> Remove cmp t key = Ok (t', ok) -> Good t'.
Proof.
  intros [Hs HA] E. unfold Remove in E. gen_unfold.
  destruct (remove cmp key (root t)) as [[del ok']| | |] eqn:Er; cbn [bind] in E; try discriminate.
  destruct (remove_inv T cmp key _ _ _ Er) as [_ Hsz].
  destruct ok'.
  - destruct (tsize t - 1 <? rem_threshold (maxsize t) (beta t)).
    + destruct (rewrite del (tsize t - 1)) as [rt| | |] eqn:Ew; cbn [bind] in E; try discriminate.
      inversion E; subst; clear E.
      replace (tsize t - 1) with (size del) in Ew by lia.
      destruct (rewrite_size _ _ Ew) as [Hrs _].
      split; cbn [tsize root beta]; [lia|exact HA].
    + inversion E; subst; clear E. split; cbn [tsize root beta]; [lia|exact HA].
  - inversion E; subst; clear E. split; cbn [tsize root beta]; [lia|exact HA].
Qed.

(* ---- histories *)

Hypothesis AgreeAll : forall b, 0 <= b <= 1000 -> Agree b.

Lemma New_good b keys picks (t : Tree T) : New cmp b keys picks = Ok t -> Good t.
Proof.
  intros E. unfold New in E.
  destruct (new_beta_bad b) eqn:Eb; [discriminate|].
  assert (Hb : 0 <= b <= 1000).
  { unfold new_beta_bad in Eb. apply orb_false_iff in Eb. destruct Eb as [E1 E2].
    apply Z.ltb_ge in E1. rewrite Z.gtb_ltb in E2. apply Z.ltb_ge in E2. lia. }
  gen_unfold.
  destruct (negb (Z.of_nat (length keys) =? 0)).
  - destruct (sort_compact cmp keys picks) as [nodes| | |]; cbn [bind] in E; try discriminate.
    destruct (extract nodes) as [rt| | |] eqn:Ex; cbn [bind] in E; try discriminate.
    inversion E; subst; clear E. split; cbn [tsize root beta]; [|apply AgreeAll; exact Hb].
    destruct nodes as [|n0 nodes].
    + cbn in Ex. inversion Ex; subst. reflexivity.
    + destruct (extract_height (n0 :: nodes) ltac:(discriminate)) as [rt' [Ex' [_ [Hsz _]]]].
      rewrite Ex in Ex'. inversion Ex'; subst. lia.
  - inversion E; subst. split; cbn [tsize root beta]; [reflexivity|apply AgreeAll; exact Hb].
Qed.

Lemma Forall_set_nth {A} (Q : A -> Prop) i a : forall l, Forall Q l -> Q a -> Forall Q (set_nth i a l).
Proof.
  revert i. intros i l. revert i. induction l as [|x l IH]; intros [|i] HF Ha; cbn [set_nth]; try constructor;
    inversion HF; subst; auto.
Qed.

Lemma nth_error_Forall {A} (Q : A -> Prop) : forall l i a, Forall Q l -> nth_error l i = Some a -> Q a.
Proof.
  induction l as [|x l IH]; intros [|i] a HF E; cbn in E; try discriminate; inversion HF; subst.
  - inversion E; subst. assumption.
  - eapply IH; eassumption.
Qed.

Lemma step_agree (s : state T) (o : op T) : Forall Good s ->
  step cmp lim1 s o = step cmp lim2 s o /\ Forall Good (fst (step cmp lim2 s o)).
Proof.
  intros HF.
  destruct o as [b keys picks|i|i k|i k|i k|i|i|i|i k|i|i|i stop|i k stop]; cbn [step];
    try (split; [reflexivity|]; unfold step_obs; destruct (nth_error s i); exact HF).
  - split; [reflexivity|]. destruct (New cmp b keys picks) as [t| | |] eqn:En; cbn [fst out_of_fail]; try exact HF.
    apply Forall_app. split; [exact HF|]. constructor; [|constructor]. eapply New_good; exact En.
  - split; [reflexivity|]. destruct (nth_error s i) as [t|] eqn:En; cbn [fst]; [|exact HF].
    apply Forall_app. split; [exact HF|]. constructor; [|constructor].
    pose proof (nth_error_Forall _ _ _ _ HF En) as [A B]. split; cbn [Clone tsize root beta]; [rewrite clone_id; exact A|exact B].
  - unfold step_mut. destruct (nth_error s i) as [t|] eqn:En; [|split; [reflexivity|exact HF]].
    pose proof (nth_error_Forall _ _ _ _ HF En) as HG.
    rewrite (Add_agree t k HG). split; [reflexivity|].
    destruct (Add cmp lim2 t k) as [[t' ok]| | |] eqn:Ea; cbn [fst]; try exact HF.
    apply Forall_set_nth; [exact HF|]. eapply Add_good; eassumption.
  - unfold step_mut. destruct (nth_error s i) as [t|] eqn:En; [|split; [reflexivity|exact HF]].
    pose proof (nth_error_Forall _ _ _ _ HF En) as HG.
    rewrite (Replace_agree t k HG). split; [reflexivity|].
    destruct (Replace cmp lim2 t k) as [[t' ok]| | |] eqn:Ea; cbn [fst]; try exact HF.
    apply Forall_set_nth; [exact HF|]. eapply Replace_good; eassumption.
  - split; [reflexivity|]. unfold step_mut. destruct (nth_error s i) as [t|] eqn:En; [|exact HF].
    pose proof (nth_error_Forall _ _ _ _ HF En) as HG.
    destruct (Remove cmp t k) as [[t' ok]| | |] eqn:Ea; cbn [fst]; try exact HF.
    apply Forall_set_nth; [exact HF|]. eapply Remove_good; eassumption.
  - split; [reflexivity|]. destruct (nth_error s i) as [t|] eqn:En; cbn [fst]; [|exact HF].
    pose proof (nth_error_Forall _ _ _ _ HF En) as [A B].
    apply Forall_set_nth; [exact HF|]. split; cbn [Clear tsize root beta]; [reflexivity|exact B].
Qed.

Theorem histories_agree : forall (ops : list (op T)) (s : state T), Forall Good s ->
  run_from cmp lim1 s ops = run_from cmp lim2 s ops /\
  exec_from cmp lim1 s ops = exec_from cmp lim2 s ops.
Proof.
  induction ops as [|o ops IH]; intros s HF; [split; reflexivity|].
  cbn [run_from exec_from]. destruct (step_agree s o HF) as [E HF']. rewrite E.
  destruct (step cmp lim2 s o) as [s' x] eqn:Es. cbn [fst] in *.
  destruct (IH s' HF') as [A B]. rewrite A, B. split; reflexivity.
Qed.

End Capped.

(* ---- the instance: limit_capped and limit_exact *)

Lemma capped_exact_agree b : 0 <= b <= 1000 ->
  forall n, 1 <= n -> limit_capped b n = limit_exact b n \/ (n <= limit_capped b n /\ n <= limit_exact b n).
Proof.
  intros Hb n Hn. destruct (Z.eq_dec b 1000) as [->|Hne].
  - left. reflexivity.
  - rewrite limit_capped_spec by lia.
    destruct (Z_le_gt_dec (limit_exact b n) n) as [L|G]; [left; lia|right; lia].
Qed.

Theorem capped_same_histories (T : Type) (cmp : T -> T -> Z) (ops : list (op T)) :
  run cmp limit_capped ops = run cmp limit_exact ops /\
  exec_from cmp limit_capped [] ops = exec_from cmp limit_exact [] ops.
Proof.
  apply (histories_agree T cmp limit_capped limit_exact capped_exact_agree ops []). constructor.
Qed.
