(* The reference for C03.  No trees, no paths: a valid cursor is abstractly three indices into the
   ascending key list Ls of its tree,

        lo <= ix < hi <= length Ls      the cursor's subtree holds exactly Ls[lo..hi), its key is Ls[ix]

   and an invalid (or nil) cursor is [None].  [move_spec] says what each of the seven moves may do
   to such a position, [obs_spec] what every observer must answer.  Left/Right/Up/Min/Max are
   relations: which key of Ls[lo..ix) the left child holds depends on the shape of the tree, and
   the property does not say; it says that the new subtree is Ls[lo..ix) (so everything under Left
   is smaller than the key, as Ls is ascending), that Up reaches the key adjacent to the subtree's
   range, that Min/Max reach the ends of the range.  Next/Prev are exact: index +1 / -1, invalid
   past either end. *)
From Coq Require Import ZArith List Bool Arith.
Import ListNotations.
From Mds Require Import Stree.CursorModel.

Record pos : Type := mkPos { lo : nat; ix : nat; hi : nat }.

Definition ok_pos (n : nat) (a : pos) : Prop := (lo a <= ix a)%nat /\ (ix a < hi a)%nat /\ (hi a <= n)%nat.

Definition is_root (n : nat) (a : pos) : bool := (lo a =? 0)%nat && (hi a =? n)%nat.

(* a' is an allowed result of move m from the valid position a, over n keys *)
Definition move_spec (n : nat) (m : move) (a : pos) (a' : option pos) : Prop :=
  match m with
  | MNext => if (S (ix a) <? n)%nat then exists b, a' = Some b /\ ix b = S (ix a) else a' = None
  | MPrev => if (0 <? ix a)%nat then exists b, a' = Some b /\ S (ix b) = ix a else a' = None
  | MLeft => if (lo a <? ix a)%nat then exists b, a' = Some b /\ lo b = lo a /\ hi b = ix a else a' = None
  | MRight => if (S (ix a) <? hi a)%nat then exists b, a' = Some b /\ lo b = S (ix a) /\ hi b = hi a else a' = None
  | MUp => if is_root n a then a' = None
           else exists b, a' = Some b /\ (lo b <= lo a)%nat /\ (hi a <= hi b)%nat /\
                          ((ix b = hi a /\ lo b = lo a) \/ (S (ix b) = lo a /\ hi b = hi a))
  | MMin => exists b, a' = Some b /\ lo b = lo a /\ ix b = lo a /\ (hi b <= hi a)%nat
  | MMax => exists b, a' = Some b /\ hi b = hi a /\ S (ix b) = hi a /\ (lo a <= lo b)%nat
  end.

(* every move leaves an invalid cursor invalid *)
Definition move_ok (n : nat) (m : move) (a a' : option pos) : Prop :=
  match a with
  | None => a' = None
  | Some p => move_spec n m p a'
  end /\ match a' with Some b => ok_pos n b | None => True end.

(* the positions after each move of a history *)
Fixpoint follows (n : nat) (a : option pos) (ms : list move) (l : list (option pos)) : Prop :=
  match ms, l with
  | [], [] => True
  | m :: ms', a' :: l' => move_ok n m a a' /\ follows n a' ms' l'
  | _, _ => False
  end.

(* what Valid, Key, HasNext, HasPrev, HasLeft, HasRight, HasParent and Inorder answer at a position *)
Definition obs_spec {T : Type} (zero : T) (Ls : list T) (a : option pos) (o : obs T) : Prop :=
  match a with
  | None =>
    o_valid o = false /\ o_key o = zero /\ o_has_next o = false /\ o_has_prev o = false /\
    o_has_left o = false /\ o_has_right o = false /\ o_has_parent o = false /\ o_inorder o = []
  | Some p =>
    o_valid o = true /\ nth_error Ls (ix p) = Some (o_key o) /\
    o_has_next o = (S (ix p) <? length Ls)%nat /\ o_has_prev o = (0 <? ix p)%nat /\
    o_has_left o = (lo p <? ix p)%nat /\ o_has_right o = (S (ix p) <? hi p)%nat /\
    o_has_parent o = negb (is_root (length Ls) p) /\
    o_inorder o = firstn (hi p - lo p) (skipn (lo p) Ls)
  end.
