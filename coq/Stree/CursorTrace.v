(* The cursortrace line format, interpreted in Gallina.  DEFINITIONS ONLY.

   bin/incoq-cursor turns sampled trace lines (input and the IMPLEMENTATION's recorded output) into
   goals  [run_trace cmp t ops = <recorded items>]  decided by vm_compute inside Coq: the cursor
   model is then compared with the Go package without extraction, OCaml or the driver in between.
   The register machine below mirrors harness/cmd/cursortrace (four cursor registers, all nil at
   the start; after every op that is not i/j/N/P/G the state of every register assigned so far). *)
From Coq Require Import ZArith List Bool.
Import ListNotations.
From Mds Require Import Stree.StreeModel Stree.CursorModel.
Local Open Scope Z_scope.

(* the comparators of the trace generators (ints) *)
Definition sgn3 (a b : Z) : Z := if a <? b then -1 else if b <? a then 1 else 0.
Definition big : Z := 9223372036854775807.
Inductive cmpcode : Type :=
| CmpN | CmpR | CmpA | CmpT | CmpH | CmpAr | CmpD | CmpX | CmpXr
| CmpMod (k : Z) | CmpModMag (k : Z) | CmpModMagR (k : Z).

Definition cmp_of (c : cmpcode) (a b : Z) : Z :=
  match c with
  | CmpN => sgn3 a b
  | CmpR => sgn3 b a
  | CmpA => a - b
  | CmpT => 3 * (a - b)
  | CmpH => (a - b) * 4294967296
  | CmpAr => b - a
  | CmpD => 7 * (b - a)
  | CmpX => if a <? b then - big - 1 else if b <? a then big else 0
  | CmpXr => if b <? a then - big - 1 else if a <? b then big else 0
  | CmpMod k => sgn3 (a mod k) (b mod k)
  | CmpModMag k => (a mod k) - (b mod k)
  | CmpModMagR k => (b mod k) - (a mod k)
  end.

(* one letter of a compound walk w<r>:<seq>: a move, or HasNext / HasPrev / Valid / Key called there *)
Inductive wstep : Type := WMove (m : move) | WHasNext | WHasPrev | WValid | WKey.
(* what the observers inside a walk answered *)
Inductive wres : Type := RB (b : bool) | RK (k : Z).

Inductive cop : Type :=
| CK (r : nat) (k : Z)          (* reg r = Tree.Cursor(k) *)
| CO (r : nat)                  (* Tree.Root() *)
| CZ (r : nat)                  (* nil *)
| CE (r : nat)                  (* new(Cursor) *)
| CC (a b : nat)                (* reg b = reg a .Clone() *)
| CM (r : nat) (m : move)
| CI (r : nat)                  (* Inorder, all *)
| CJ (r : nat) (lim : nat)      (* Inorder, yield returns len(ks) < lim *)
| CN (r : nat) | CP (r : nat)   (* Next / Prev until invalid, at most Len+2 steps *)
| CG (k : Z)                    (* Tree.Get(k) *)
| CW (r : nat) (seq : list wstep). (* moves with nothing observed in between; observers inside the walk *)

(* one register as printed: path, Key, [Valid; HasNext; HasPrev; HasLeft; HasRight; HasParent] *)
Definition regobs : Type := (cursor * Z * list bool)%type.

Inductive citem : Type :=
| IState (rs : list regobs)
| IInorder (ks : list Z)
| ISweep (ks : list Z) (still_valid : bool)
| IGet (k : Z) (ok : bool)
| IWalk (answers : list wres) (rs : list regobs)
| IFail.

Section Trace.
Variable cmp : Z -> Z -> Z.
Variable t : tree Z.

Definition obs_of (c : cursor) : res regobs :=
  bind (key 0 t c) (fun k =>
  bind (has_next t c) (fun hn =>
  bind (has_prev t c) (fun hp =>
  bind (has_left t c) (fun hl =>
  bind (has_right t c) (fun hr =>
  Ok (c, k, [valid c; hn; hp; hl; hr; has_parent c])))))).

Fixpoint obs_all (cs : list cursor) : res (list regobs) :=
  match cs with
  | [] => Ok []
  | c :: r => bind (obs_of c) (fun o => bind (obs_all r) (fun os => Ok (o :: os)))
  end.

Fixpoint set_reg (r : nat) (c : cursor) (regs : list cursor) : list cursor :=
  match r, regs with
  | O, _ :: rest => c :: rest
  | S r', x :: rest => x :: set_reg r' c rest
  | _, [] => []
  end.

Definition get_reg (r : nat) (regs : list cursor) : cursor := nth r regs CNil.

Definition state (regs : list cursor) (used : nat) : res citem :=
  bind (obs_all (firstn used regs)) (fun os => Ok (IState os)).

(* for step := 0; c.Valid() && step < Len+2; step++ { ks = append(ks, c.Key()); c.Next() } *)
Fixpoint sweep (m : move) (fuel : nat) (c : cursor) (acc : list Z) : res (cursor * list Z) :=
  match fuel with
  | O => Ok (c, rev acc)
  | S fuel' =>
    if valid c then
      bind (key 0 t c) (fun k => bind (step t c m) (fun c' => sweep m fuel' c' (k :: acc)))
    else Ok (c, rev acc)
  end.

(* the letters of a compound walk, left to right; the answers of the observers in order *)
Fixpoint walk (seq : list wstep) (c : cursor) (acc : list wres) : res (cursor * list wres) :=
  match seq with
  | [] => Ok (c, rev acc)
  | WMove m :: rest => bind (step t c m) (fun c' => walk rest c' acc)
  | WHasNext :: rest => bind (has_next t c) (fun b => walk rest c (RB b :: acc))
  | WHasPrev :: rest => bind (has_prev t c) (fun b => walk rest c (RB b :: acc))
  | WValid :: rest => walk rest c (RB (valid c) :: acc)
  | WKey :: rest => bind (key 0 t c) (fun k => walk rest c (RK k :: acc))
  end.

Definition do_op (regs : list cursor) (used : nat) (o : cop) : res (list cursor * nat * citem) :=
  match o with
  | CK r k =>
    bind (tree_cursor cmp t k) (fun c =>
    let regs' := set_reg r c regs in let used' := Nat.max used (S r) in
    bind (state regs' used') (fun it => Ok (regs', used', it)))
  | CO r =>
    let regs' := set_reg r (tree_root t) regs in let used' := Nat.max used (S r) in
    bind (state regs' used') (fun it => Ok (regs', used', it))
  | CZ r =>
    let regs' := set_reg r CNil regs in let used' := Nat.max used (S r) in
    bind (state regs' used') (fun it => Ok (regs', used', it))
  | CE r =>
    let regs' := set_reg r CEmpty regs in let used' := Nat.max used (S r) in
    bind (state regs' used') (fun it => Ok (regs', used', it))
  | CC a b =>
    let regs' := set_reg b (clone (get_reg a regs)) regs in let used' := Nat.max (Nat.max used (S a)) (S b) in
    bind (state regs' used') (fun it => Ok (regs', used', it))
  | CM r m =>
    bind (step t (get_reg r regs) m) (fun c =>
    let regs' := set_reg r c regs in let used' := Nat.max used (S r) in
    bind (state regs' used') (fun it => Ok (regs', used', it)))
  | CI r =>
    bind (cinorder_all t (get_reg r regs)) (fun ks => Ok (regs, Nat.max used (S r), IInorder ks))
  | CJ r lim =>
    bind (cinorder t (get_reg r regs)
            (fun (s : list Z * nat) x => ((x :: fst s, S (snd s)), Nat.ltb (S (snd s)) lim)) ([], O)) (fun s =>
    Ok (regs, Nat.max used (S r), IInorder (rev (fst s))))
  | CN r =>
    bind (sweep MNext (length (inorder t) + 2) (get_reg r regs) []) (fun '(c, ks) =>
    Ok (set_reg r c regs, Nat.max used (S r), ISweep ks (valid c)))
  | CP r =>
    bind (sweep MPrev (length (inorder t) + 2) (get_reg r regs) []) (fun '(c, ks) =>
    Ok (set_reg r c regs, Nat.max used (S r), ISweep ks (valid c)))
  | CG k =>
    Ok (regs, used, match get cmp k t with Some x => IGet x true | None => IGet 0 false end)
  | CW r seq =>
    bind (walk seq (get_reg r regs) []) (fun '(c, answers) =>
    let regs' := set_reg r c regs in let used' := Nat.max used (S r) in
    bind (obs_all (firstn used' regs')) (fun os => Ok (regs', used', IWalk answers os)))
  end.

Fixpoint run_ops (regs : list cursor) (used : nat) (ops : list cop) : list citem :=
  match ops with
  | [] => []
  | o :: rest =>
    match do_op regs used o with
    | Ok (regs', used', it) => it :: run_ops regs' used' rest
    | _ => [IFail]
    end
  end.

(* the "t:" item (Tree.Inorder) and the items of the ops *)
Definition run_trace (ops : list cop) : list Z * list citem :=
  (inorder t, run_ops [CNil; CNil; CNil; CNil] O ops).

End Trace.
