(* C01 proofs, part 2: comparator laws, the sorted-list reference, and the correspondence between
   every tree operation and the reference operation on the in-order sequence. *)
From Coq Require Import ZArith List Bool Lia.
Import ListNotations.
From Mds Require Import Gen.StreeConst Gen.StreeNode Stree.StreeModel Stree.StreeSpec Stree.StreeProofsBase.
Local Open Scope Z_scope.

Lemma sgn_facts x y : Z.sgn y = - Z.sgn x ->
  (x < 0 <-> y > 0) /\ (x = 0 <-> y = 0) /\ (x > 0 <-> y < 0).
Proof. intros H. destruct x, y; cbn in H; try discriminate; lia. Qed.

Section SetProofs.
Variable T : Type.
Variable cmp : T -> T -> Z.
Hypothesis HP : total_preorder cmp.

Lemma flip a b : (cmp a b < 0 <-> cmp b a > 0) /\ (cmp a b = 0 <-> cmp b a = 0) /\ (cmp a b > 0 <-> cmp b a < 0).
Proof. apply sgn_facts. apply (cmp_flip cmp HP). Qed.

Lemma cmp_refl a : cmp a a = 0.
Proof. pose proof (flip a a). lia. Qed.

Lemma le_lt_trans a b c : cmp a b <= 0 -> cmp b c < 0 -> cmp a c < 0.
Proof.
  intros H1 H2. destruct (Z.lt_ge_cases (cmp a c) 0) as [L|G]; [exact L|exfalso].
  pose proof (flip a c). pose proof (flip b c).
  assert (cmp c a <= 0) by lia.
  pose proof (cmp_trans cmp HP c a b). lia.
Qed.

Lemma lt_le_trans a b c : cmp a b < 0 -> cmp b c <= 0 -> cmp a c < 0.
Proof.
  intros H1 H2. destruct (Z.lt_ge_cases (cmp a c) 0) as [L|G]; [exact L|exfalso].
  pose proof (flip a c). pose proof (flip a b).
  assert (cmp c a <= 0) by lia.
  pose proof (cmp_trans cmp HP b c a). lia.
Qed.

Lemma lt_trans a b c : cmp a b < 0 -> cmp b c < 0 -> cmp a c < 0.
Proof. intros. apply le_lt_trans with b; lia. Qed.

(* ------------------------------------------------------------------ sorted lists *)
Notation sorted := (sorted cmp).

Lemma sorted_app_inv l x r : sorted (l ++ x :: r) ->
  sorted l /\ sorted r /\ (forall y, In y l -> cmp y x < 0) /\ (forall y, In y r -> cmp x y < 0).
Proof.
  induction l as [|a l IH]; cbn [app sorted].
  - intros [H1 H2]. repeat split; auto. intros y [].
  - intros [H1 H2]. destruct (IH H2) as (S1 & S2 & S3 & S4). repeat split; auto.
    + intros y Hy. apply H1. apply in_or_app. left. exact Hy.
    + intros y [->|Hy]; [apply H1; apply in_or_app; right; left; reflexivity|auto].
Qed.

Lemma sorted_app l x r : sorted l -> sorted r ->
  (forall y, In y l -> cmp y x < 0) -> (forall y, In y r -> cmp x y < 0) -> sorted (l ++ x :: r).
Proof.
  induction l as [|a l IH]; cbn [app sorted]; intros S1 S2 S3 S4.
  - split; auto.
  - destruct S1 as [A1 A2]. split.
    + intros y Hy. apply in_app_or in Hy. destruct Hy as [Hy|[->|Hy]].
      * auto.
      * apply S3. left. reflexivity.
      * apply lt_trans with x; [apply S3; left; reflexivity|auto].
    + apply IH; auto. intros y Hy. apply S3. right. exact Hy.
Qed.

Lemma ascending_sorted l : s_ascending cmp l = true -> sorted l.
Proof.
  induction l as [|x r IH]; cbn [s_ascending sorted]; [auto|].
  destruct r as [|y r'].
  - intros _. split; [intros ? []|exact I].
  - intros H. apply andb_prop in H. destruct H as [H1 H2]. apply Z.ltb_lt in H1.
    specialize (IH H2). split; [|exact IH].
    intros z [->|Hz]; [exact H1|]. destruct IH as [IH1 _]. apply lt_trans with y; auto.
Qed.

(* ---- Add / Replace *)
Lemma s_insert_in rep k l y : In y (fst (s_insert cmp rep k l)) -> y = k \/ In y l.
Proof.
  induction l as [|x r IH]; cbn [s_insert].
  - cbn. intros [<-|[]]. auto.
  - destruct (cmp k x <? 0); [cbn; intros [<-|H]; auto|].
    destruct (cmp k x =? 0).
    + cbn [fst]. intros [H|H]; [destruct rep; subst; cbn; auto|right; right; exact H].
    + destruct (s_insert cmp rep k r) as [r' b]. cbn [fst] in *. intros [<-|H]; [right; left; reflexivity|].
      destruct (IH H); auto. right. right. assumption.
Qed.

Lemma s_insert_sorted rep k l : sorted l -> sorted (fst (s_insert cmp rep k l)).
Proof.
  induction l as [|x r IH]; cbn [s_insert sorted].
  - intros _. cbn. split; [intros ? []|exact I].
  - intros [H1 H2]. destruct (Z.ltb_spec (cmp k x) 0) as [L|G].
    + cbn [fst sorted]. repeat split; auto.
      intros y [<-|Hy]; [exact L|]. apply lt_trans with x; auto.
    + destruct (Z.eqb_spec (cmp k x) 0) as [E|N].
      * cbn [fst sorted]. split; [|exact H2]. destruct rep; [|exact H1].
        intros y Hy. apply le_lt_trans with x; [lia|auto].
      * pose proof (s_insert_in rep k r) as IN.
        destruct (s_insert cmp rep k r) as [r' b]. cbn [fst sorted] in *. split; [|auto].
        intros y Hy. destruct (IN y Hy) as [->|Hy']; [|auto].
        pose proof (flip k x). lia.
Qed.

Lemma s_insert_length rep k l :
  length (fst (s_insert cmp rep k l)) = if snd (s_insert cmp rep k l) then S (length l) else length l.
Proof.
  induction l as [|x r IH]; cbn [s_insert]; [reflexivity|].
  destruct (cmp k x <? 0); [reflexivity|]. destruct (cmp k x =? 0); [reflexivity|].
  destruct (s_insert cmp rep k r) as [r' b]. cbn [fst snd length] in *. rewrite IH. destruct b; reflexivity.
Qed.

Lemma s_insert_app_lt rep k l x r : cmp k x < 0 ->
  s_insert cmp rep k (l ++ x :: r) = (fst (s_insert cmp rep k l) ++ x :: r, snd (s_insert cmp rep k l)).
Proof.
  intros L. induction l as [|a l IH]; cbn [app s_insert].
  - destruct (Z.ltb_spec (cmp k x) 0); [reflexivity|lia].
  - destruct (cmp k a <? 0); [reflexivity|]. destruct (cmp k a =? 0); [reflexivity|].
    rewrite IH. destruct (s_insert cmp rep k l) as [l' b]. reflexivity.
Qed.

Lemma s_insert_app_ge rep k l x r : (forall y, In y l -> cmp y x < 0) -> 0 <= cmp k x ->
  s_insert cmp rep k (l ++ x :: r) = (l ++ fst (s_insert cmp rep k (x :: r)), snd (s_insert cmp rep k (x :: r))).
Proof.
  intros A G. remember (s_insert cmp rep k (x :: r)) as q eqn:Q. induction l as [|a l IH].
  - cbn [app]. rewrite <- Q. destruct q; reflexivity.
  - assert (cmp k a > 0).
    { pose proof (flip k a). pose proof (flip k x). assert (cmp a x < 0) by (apply A; left; reflexivity).
      destruct (Z.lt_ge_cases 0 (cmp k a)); [lia|]. pose proof (le_lt_trans k a x). lia. }
    change ((a :: l) ++ x :: r) with (a :: (l ++ x :: r)). cbn [s_insert].
    destruct (Z.ltb_spec (cmp k a) 0); [lia|]. destruct (Z.eqb_spec (cmp k a) 0); [lia|].
    rewrite IH by (intros; apply A; right; assumption).
    destruct q. reflexivity.
Qed.

(* ---- Remove *)
Lemma s_remove_in k l y : In y (fst (s_remove cmp k l)) -> In y l.
Proof.
  induction l as [|x r IH]; cbn [s_remove]; [auto|].
  destruct (cmp k x <? 0); [auto|]. destruct (cmp k x =? 0); [cbn; auto|].
  destruct (s_remove cmp k r) as [r' b]. cbn [fst] in *. intros [<-|H]; [left; reflexivity|right; auto].
Qed.

Lemma s_remove_sorted k l : sorted l -> sorted (fst (s_remove cmp k l)).
Proof.
  induction l as [|x r IH]; cbn [s_remove sorted]; [auto|].
  intros [H1 H2]. destruct (cmp k x <? 0); [cbn; auto|]. destruct (cmp k x =? 0); [cbn; auto|].
  pose proof (s_remove_in k r) as IN.
  destruct (s_remove cmp k r) as [r' b]. cbn [fst sorted] in *. split; auto.
Qed.

Lemma s_remove_length k l :
  length l = if snd (s_remove cmp k l) then S (length (fst (s_remove cmp k l))) else length (fst (s_remove cmp k l)).
Proof.
  induction l as [|x r IH]; cbn [s_remove]; [reflexivity|].
  destruct (cmp k x <? 0); [reflexivity|]. destruct (cmp k x =? 0); [reflexivity|].
  destruct (s_remove cmp k r) as [r' b]. cbn [fst snd length] in *. rewrite IH. destruct b; reflexivity.
Qed.

Lemma s_remove_app_lt k l x r : cmp k x < 0 ->
  s_remove cmp k (l ++ x :: r) = (fst (s_remove cmp k l) ++ x :: r, snd (s_remove cmp k l)).
Proof.
  intros L. induction l as [|a l IH]; cbn [app s_remove].
  - destruct (Z.ltb_spec (cmp k x) 0); [reflexivity|lia].
  - destruct (cmp k a <? 0); [reflexivity|]. destruct (cmp k a =? 0); [reflexivity|].
    rewrite IH. destruct (s_remove cmp k l) as [l' b]. reflexivity.
Qed.

Lemma gt_all k l x : (forall y, In y l -> cmp y x < 0) -> 0 <= cmp k x -> forall y, In y l -> cmp k y > 0.
Proof.
  intros A G y Hy. pose proof (flip k y). pose proof (flip k x). specialize (A y Hy).
  destruct (Z.lt_ge_cases 0 (cmp k y)); [lia|]. pose proof (le_lt_trans k y x). lia.
Qed.

Lemma s_remove_app_ge k l x r : (forall y, In y l -> cmp y x < 0) -> 0 <= cmp k x ->
  s_remove cmp k (l ++ x :: r) = (l ++ fst (s_remove cmp k (x :: r)), snd (s_remove cmp k (x :: r))).
Proof.
  intros A G. remember (s_remove cmp k (x :: r)) as q eqn:Q. induction l as [|a l IH].
  - cbn [app]. rewrite <- Q. destruct q; reflexivity.
  - assert (cmp k a > 0) by (apply (gt_all k (a :: l) x); auto; left; reflexivity).
    change ((a :: l) ++ x :: r) with (a :: (l ++ x :: r)). cbn [s_remove].
    destruct (Z.ltb_spec (cmp k a) 0); [lia|]. destruct (Z.eqb_spec (cmp k a) 0); [lia|].
    rewrite IH by (intros; apply A; right; assumption).
    destruct q. reflexivity.
Qed.

(* ---- Get *)
Lemma s_get_app_ge k l x r : (forall y, In y l -> cmp y x < 0) -> 0 <= cmp k x ->
  s_get cmp k (l ++ x :: r) = s_get cmp k (x :: r).
Proof.
  intros A G. unfold s_get. induction l as [|a l IH]; [reflexivity|].
  assert (cmp k a > 0) by (apply (gt_all k (a :: l) x); auto; left; reflexivity).
  cbn [app find]. destruct (Z.eqb_spec (cmp k a) 0); [lia|]. apply IH. intros; apply A; right; assumption.
Qed.

Lemma s_get_lt_all k r : (forall y, In y r -> cmp k y < 0) -> s_get cmp k r = None.
Proof.
  unfold s_get. induction r as [|a r IH]; intros A; [reflexivity|].
  cbn [find]. assert (cmp k a < 0) by (apply A; left; reflexivity).
  destruct (Z.eqb_spec (cmp k a) 0); [lia|]. apply IH. intros; apply A; right; assumption.
Qed.

Lemma s_get_app_lt k l x r : cmp k x < 0 -> (forall y, In y r -> cmp x y < 0) ->
  s_get cmp k (l ++ x :: r) = s_get cmp k l.
Proof.
  intros L A. unfold s_get. induction l as [|a l IH].
  - cbn [app find]. destruct (Z.eqb_spec (cmp k x) 0); [lia|].
    apply (s_get_lt_all k r). intros y Hy. apply lt_trans with x; auto.
  - cbn [app find]. destruct (cmp k a =? 0); [reflexivity|exact IH].
Qed.

(* ---- InorderAfter *)
Lemma s_after_all k r : (forall y, In y r -> cmp k y <= 0) -> s_after cmp k r = r.
Proof.
  unfold s_after. induction r as [|a r IH]; intros A; [reflexivity|].
  cbn [filter]. assert (cmp k a <= 0) by (apply A; left; reflexivity).
  pose proof (flip k a). destruct (Z.ltb_spec (cmp a k) 0); [lia|]. cbn [negb]. f_equal.
  apply IH. intros; apply A; right; assumption.
Qed.

Lemma s_after_none k l : (forall y, In y l -> cmp y k < 0) -> s_after cmp k l = [].
Proof.
  unfold s_after. induction l as [|a l IH]; intros A; [reflexivity|].
  cbn [filter]. assert (cmp a k < 0) by (apply A; left; reflexivity).
  destruct (Z.ltb_spec (cmp a k) 0); [|lia]. cbn [negb]. apply IH. intros; apply A; right; assumption.
Qed.

Lemma s_after_app k l r : s_after cmp k (l ++ r) = s_after cmp k l ++ s_after cmp k r.
Proof. unfold s_after. apply filter_app. Qed.

(* ------------------------------------------------------------------ insert *)
Variable limit : Z -> Z -> Z.

Lemma unwind_ok b (root sib : tree T) added sz ht :
  (sz = 0 \/ size sib + 1 + sz = size root) -> 0 <= sz ->
  exists root' sz', ins_unwind limit b root sib added sz ht = Ok (root', added, sz', ht)
                    /\ inorder root' = inorder root /\ (sz' = 0 \/ sz' = size root').
Proof.
  intros H N. unfold ins_unwind. cbv zeta. rewrite gen_ins_seeking. destruct (Z.gtb_spec sz 0) as [G|G].
  - rewrite gen_ins_root_size, gen_ins_keep_size, gen_ins_rewrite_size, gen_ins_goat_size.
    assert (E0 : size sib + 1 + sz = size root) by lia. rewrite ?E0. rewrite ?gen_ins_rewrite_size, ?gen_ins_keep_size.
    destruct (ins_not_goat _ _).
    + exists root, (size root). auto.
    + destruct (rewrite_ok T root (size root) eq_refl) as (root' & E & I).
      rewrite E. cbn [bind]. exists root', 0. auto.
  - exists root, sz. repeat split. left. lia.
Qed.

Lemma insert_ok b k rep : forall (t : tree T) lim, sorted (inorder t) ->
  exists ins sz ht,
    insert cmp limit b k rep t lim = Ok (ins, snd (s_insert cmp rep k (inorder t)), sz, ht)
    /\ inorder ins = fst (s_insert cmp rep k (inorder t))
    /\ (sz = 0 \/ sz = size ins).
Proof.
  induction t as [|l IHl x r IHr]; intros lim S.
  - cbn [insert inorder s_insert fst snd]. eexists _, _, _. split; [reflexivity|]. split; [reflexivity|].
    rewrite gen_ins_leaf_over, gen_ins_leaf_size. destruct (lim <? 0); [right|left]; reflexivity.
  - cbn [inorder] in S |- *. destruct (sorted_app_inv _ _ _ S) as (Sl & Sr & Al & Ar).
    cbn [insert]. rewrite gen_ins_lt, gen_ins_gt.
    destruct (Z.ltb_spec (cmp k x) 0) as [L|G].
    + destruct (IHl (ins_left_limit lim) Sl) as (ins & sz & ht & E & I & Z).
      rewrite E. cbn [bind].
      destruct (unwind_ok b (Node ins x r) r (snd (s_insert cmp rep k (inorder l))) sz (ins_left_height ht))
        as (root' & sz' & E' & I' & Z').
      { destruct Z as [Z|Z]; [left; exact Z|right]. cbn [size]. rewrite gen_node_size. lia. }
      { destruct Z as [Z|Z]; [lia|]. rewrite Z. apply size_nonneg. }
      rewrite s_insert_app_lt by exact L. cbn [fst snd].
      exists root', sz', (ins_left_height ht). split; [exact E'|]. split; [|exact Z'].
      rewrite I'. cbn [inorder]. rewrite I. reflexivity.
    + destruct (Z.gtb_spec (cmp k x) 0) as [G2|G2].
      * destruct (IHr (ins_right_limit lim) Sr) as (ins & sz & ht & E & I & Z).
        rewrite E. cbn [bind].
        rewrite s_insert_app_ge by (auto; lia). cbn [s_insert].
        destruct (Z.ltb_spec (cmp k x) 0); [lia|]. destruct (Z.eqb_spec (cmp k x) 0); [lia|].
        destruct (s_insert cmp rep k (inorder r)) as [r' added] eqn:SI. cbn [fst snd] in *.
        destruct (unwind_ok b (Node l x ins) l added sz (ins_right_height ht))
          as (root' & sz' & E' & I' & Z').
        { destruct Z as [Z|Z]; [left; exact Z|right]. cbn [size]. rewrite gen_node_size. lia. }
        { destruct Z as [Z|Z]; [lia|]. rewrite Z. apply size_nonneg. }
        exists root', sz', (ins_right_height ht). split; [exact E'|]. split; [|exact Z'].
        rewrite I'. cbn [inorder]. rewrite I. reflexivity.
      * rewrite s_insert_app_ge by (auto; lia). cbn [s_insert].
        destruct (Z.ltb_spec (cmp k x) 0); [lia|]. destruct (Z.eqb_spec (cmp k x) 0); [|lia].
        cbn [fst snd]. eexists _, _, _. split; [reflexivity|]. split; [reflexivity|].
        left. apply gen_ins_eq_size.
Qed.

(* ------------------------------------------------------------------ remove *)
Lemma pop_left_ok : forall (p : tree T), match p with Node (Node _ _ _) _ _ => True | _ => False end ->
  exists g p', pop_left p = Ok (g, p') /\ inorder p = g :: inorder p'
               /\ match p, p' with Node _ x r, Node _ x' r' => x' = x /\ r' = r | _, _ => False end.
Proof.
  induction p as [|l IHl x r _]; [intros []|].
  intros H. destruct l as [|ll g lr]; [destruct H|].
  destruct ll as [|a b c].
  - cbn [pop_left]. exists g, (Node lr x r). split; [reflexivity|]. split; [reflexivity|]. split; reflexivity.
  - destruct (IHl I) as (g' & l' & E & I1 & _).
    cbn [pop_left] in E |- *. rewrite E. cbn [bind].
    exists g', (Node l' x r). split; [reflexivity|]. split; [|split; reflexivity].
    cbn [inorder] in I1 |- *. rewrite I1. reflexivity.
Qed.

Lemma pop_min_right_ok l x (r : tree T) : r <> Leaf ->
  exists g r', pop_min_right (Node l x r) = Ok (g, Node l x r') /\ inorder r = g :: inorder r'.
Proof.
  intros N. destruct r as [|rl g rr]; [congruence|].
  destruct rl as [|a b c].
  - exists g, rr. split; reflexivity.
  - destruct (pop_left_ok (Node (Node a b c) g rr) I) as (g' & p' & E & I1 & Sh).
    destruct p' as [|pl px pr]; [destruct Sh|].
    exists g', (Node pl px pr). cbn [pop_min_right]. rewrite E. cbn [bind]. split; [reflexivity|exact I1].
Qed.

Lemma remove_ok k : forall (t : tree T), sorted (inorder t) ->
  exists t', remove cmp k t = Ok (t', snd (s_remove cmp k (inorder t)))
             /\ inorder t' = fst (s_remove cmp k (inorder t)).
Proof.
  induction t as [|l IHl x r IHr]; intros S.
  - exists Leaf. split; reflexivity.
  - cbn [inorder] in S |- *. destruct (sorted_app_inv _ _ _ S) as (Sl & Sr & Al & Ar).
    cbn [remove]. rewrite gen_rem_lt, gen_rem_gt.
    destruct (Z.ltb_spec (cmp k x) 0) as [L|G].
    + destruct (IHl Sl) as (l' & E & I). rewrite E. cbn [bind].
      rewrite s_remove_app_lt by exact L. cbn [fst snd].
      exists (Node l' x r). split; [reflexivity|]. cbn [inorder]. rewrite I. reflexivity.
    + rewrite s_remove_app_ge by (auto; lia). cbn [s_remove].
      destruct (Z.ltb_spec (cmp k x) 0); [lia|].
      destruct (Z.gtb_spec (cmp k x) 0) as [G2|G2].
      * destruct (Z.eqb_spec (cmp k x) 0); [lia|].
        destruct (IHr Sr) as (r' & E & I). rewrite E. cbn [bind].
        destruct (s_remove cmp k (inorder r)) as [rr ok]. cbn [fst snd] in *.
        exists (Node l x r'). split; [reflexivity|]. cbn [inorder]. rewrite I. reflexivity.
      * destruct (Z.eqb_spec (cmp k x) 0); [|lia]. cbn [fst snd].
        destruct l as [|ll lx lr].
        { exists r. split; reflexivity. }
        destruct r as [|rl rx rr].
        { exists (Node ll lx lr). split; [reflexivity|]. cbn [inorder]. rewrite app_nil_r. reflexivity. }
        destruct (pop_min_right_ok (Node ll lx lr) x (Node rl rx rr)) as (g & r' & E & I); [congruence|].
        rewrite E. cbn [bind]. exists (Node (Node ll lx lr) g r'). split; [reflexivity|].
        cbn [inorder] in I |- *. rewrite I. reflexivity.
Qed.

(* ------------------------------------------------------------------ queries *)
Lemma get_ok k : forall (t : tree T), sorted (inorder t) -> get cmp k t = s_get cmp k (inorder t).
Proof.
  induction t as [|l IHl x r IHr]; intros S; [reflexivity|].
  cbn [inorder] in S |- *. destruct (sorted_app_inv _ _ _ S) as (Sl & Sr & Al & Ar).
  cbn [get]. rewrite gen_get_lt, gen_get_gt.
  destruct (Z.ltb_spec (cmp k x) 0) as [L|G].
  - rewrite s_get_app_lt by auto. auto.
  - rewrite s_get_app_ge by (auto; lia). unfold s_get. cbn [find].
    destruct (Z.gtb_spec (cmp k x) 0) as [G2|G2].
    + destruct (Z.eqb_spec (cmp k x) 0); [lia|]. apply IHr. exact Sr.
    + destruct (Z.eqb_spec (cmp k x) 0); [reflexivity|lia].
Qed.

Lemma min_from_ok x (l : tree T) r : hd_error (inorder l ++ x :: r) = Some (min_from x l).
Proof.
  revert x r. induction l as [|ll IHl y lr _]; intros x r; [reflexivity|].
  cbn [inorder min_from]. rewrite <- app_assoc. cbn [app]. apply IHl.
Qed.

Lemma tree_min_ok (t : tree T) : tree_min t = s_min (inorder t).
Proof. destruct t as [|l x r]; [reflexivity|]. cbn [tree_min inorder]. unfold s_min. symmetry. apply min_from_ok. Qed.

Lemma max_from_ok x (r : tree T) l : hd_error (rev (l ++ x :: inorder r)) = Some (max_from x r).
Proof.
  revert x l. induction r as [|rl _ y rr IHr]; intros x l.
  - cbn [inorder max_from]. rewrite rev_app_distr. reflexivity.
  - cbn [inorder max_from].
    replace (l ++ x :: inorder rl ++ y :: inorder rr) with ((l ++ x :: inorder rl) ++ y :: inorder rr)
      by (rewrite <- app_assoc; reflexivity).
    apply IHr.
Qed.

Lemma tree_max_ok (t : tree T) : tree_max t = s_max (inorder t).
Proof. destruct t as [|l x r]; [reflexivity|]. cbn [tree_max inorder]. unfold s_max. symmetry. apply max_from_ok. Qed.

(* iteration with a consumer that may stop *)
Section Until.
Variable S : Type.
Variable f : S -> T -> S * bool.

Fixpoint list_until (l : list T) (s : S) : S * bool :=
  match l with
  | [] => (s, true)
  | x :: r => let '(s1, ok) := f s x in if negb ok then (s1, false) else list_until r s1
  end.

Lemma list_until_app l r s :
  list_until (l ++ r) s = let '(s1, ok) := list_until l s in if negb ok then (s1, false) else list_until r s1.
Proof.
  revert s. induction l as [|a l IH]; intros s; [reflexivity|].
  cbn [app list_until]. destruct (f s a) as [s1 ok]. destruct ok; cbn [negb]; [apply IH|reflexivity].
Qed.

Lemma inorder_until_ok : forall (t : tree T) s, inorder_until f t s = list_until (inorder t) s.
Proof.
  induction t as [|l IHl x r IHr]; intros s; [reflexivity|].
  cbn [inorder_until inorder]. rewrite list_until_app, IHl.
  destruct (list_until (inorder l) s) as [s1 ok1]. destruct ok1; cbn [negb]; [|reflexivity].
  cbn [list_until]. destruct (f s1 x) as [s2 ok2]. destruct ok2; cbn [negb]; [apply IHr|reflexivity].
Qed.

(* the loop of inorderAfter over (pre ++ pathTo key t), from its last index: it consumes the
   elements of t not less than key, then goes on with the part of the path above t *)
Lemma after_loop_ok key : forall (t : tree T) pre s fuel, sorted (inorder t) ->
  (length (pre ++ path_to cmp key t) <= fuel)%nat ->
  after_loop cmp f key (pre ++ path_to cmp key t) fuel (Z.of_nat (length (pre ++ path_to cmp key t)) - 1) s =
  let '(s1, ok) := list_until (s_after cmp key (inorder t)) s in
  if negb ok then Ok (s1, false)
  else after_loop cmp f key (pre ++ path_to cmp key t) (fuel - length (path_to cmp key t))
                  (Z.of_nat (length pre) - 1) s1.
Proof.
  induction t as [|l IHl x r IHr]; intros pre s fuel St Hf.
  - cbn [path_to inorder]. rewrite app_nil_r. cbn [length]. rewrite Nat.sub_0_r. reflexivity.
  - cbn [inorder] in St. destruct (sorted_app_inv _ _ _ St) as (Sl & Sr & Al & Ar).
    (* one iteration at the node itself, index length pre *)
    assert (STEP : forall path fuel' s0, nth_error path (length pre) = Some (Node l x r) ->
      after_loop cmp f key path (Datatypes.S fuel') (Z.of_nat (length pre)) s0 =
      if cmp x key <? 0 then after_loop cmp f key path fuel' (Z.of_nat (length pre) - 1) s0
      else let '(s1, ok1) := f s0 x in
           if negb ok1 then Ok (s1, false)
           else let '(s2, ok2) := list_until (inorder r) s1 in
                if negb ok2 then Ok (s2, false)
                else after_loop cmp f key path fuel' (Z.of_nat (length pre) - 1) s2).
    { intros path fuel' s0 N. cbn [after_loop]. rewrite gen_after_more.
      destruct (Z.geb_spec (Z.of_nat (length pre)) 0); [|lia].
      destruct (Z.ltb_spec (Z.of_nat (length pre)) 0); [lia|].
      rewrite Nat2Z.id, N. rewrite gen_after_skip, gen_after_next.
      destruct (cmp x key <? 0); [reflexivity|].
      destruct (f s0 x) as [s1 ok1]. destruct ok1; cbn [negb]; [|reflexivity].
      rewrite inorder_until_ok. reflexivity. }
    revert Hf. cbn [path_to inorder]. rewrite gen_path_lt, gen_path_gt.
    pose proof (flip key x) as FL.
    destruct (Z.ltb_spec (cmp key x) 0) as [L|G]; [|destruct (Z.gtb_spec (cmp key x) 0) as [G2|G2]]; intros Hf.
    + (* key < x: the path continues into l; afterwards x and all of r *)
      change (Node l x r :: path_to cmp key l) with ([Node l x r] ++ path_to cmp key l) in Hf |- *.
      rewrite app_assoc. rewrite app_assoc in Hf.
      rewrite IHl by (auto; exact Hf).
      rewrite s_after_app. cbn [s_after filter].
      destruct (Z.ltb_spec (cmp x key) 0); [lia|]. cbn [negb].
      change (filter (fun x0 => negb (cmp x0 key <? 0)) (inorder r)) with (s_after cmp key (inorder r)).
      rewrite (s_after_all key (inorder r)).
      2:{ intros y Hy. specialize (Ar y Hy). pose proof (lt_trans key x y). lia. }
      rewrite list_until_app.
      destruct (list_until (s_after cmp key (inorder l)) s) as [s1 ok]. destruct ok; cbn [negb]; [|reflexivity].
      rewrite app_length in Hf |- *. cbn [length] in Hf |- *.
      rewrite !app_length in Hf. cbn [length] in Hf.
      replace (fuel - length (path_to cmp key l))%nat with (Datatypes.S (fuel - length (path_to cmp key l) - 1))%nat by lia.
      replace (Z.of_nat (length pre + 1) - 1) with (Z.of_nat (length pre)) by lia.
      rewrite STEP.
      2:{ rewrite <- app_assoc. rewrite nth_error_app2 by lia. rewrite Nat.sub_diag. reflexivity. }
      destruct (Z.ltb_spec (cmp x key) 0); [lia|].
      cbn [list_until]. destruct (f s1 x) as [s2 ok2]. destruct ok2; cbn [negb]; [|reflexivity].
      destruct (list_until (inorder r) s2) as [s3 ok3]. destruct ok3; cbn [negb]; [|reflexivity].
      f_equal. rewrite ?app_length. cbn [length]. lia.
    + (* key > x: the path continues into r; x itself is skipped *)
      change (Node l x r :: path_to cmp key r) with ([Node l x r] ++ path_to cmp key r) in Hf |- *.
      rewrite app_assoc. rewrite app_assoc in Hf.
      rewrite IHr by (auto; exact Hf).
      rewrite s_after_app. rewrite (s_after_none key (inorder l)).
      2:{ intros y Hy. specialize (Al y Hy). apply lt_trans with x; lia. }
      cbn [app s_after filter]. destruct (Z.ltb_spec (cmp x key) 0); [|lia]. cbn [negb].
      change (filter (fun x0 => negb (cmp x0 key <? 0)) (inorder r)) with (s_after cmp key (inorder r)).
      destruct (list_until (s_after cmp key (inorder r)) s) as [s1 ok]. destruct ok; cbn [negb]; [|reflexivity].
      rewrite app_length in Hf |- *. cbn [length] in Hf |- *.
      rewrite !app_length in Hf. cbn [length] in Hf.
      replace (fuel - length (path_to cmp key r))%nat with (Datatypes.S (fuel - length (path_to cmp key r) - 1))%nat by lia.
      replace (Z.of_nat (length pre + 1) - 1) with (Z.of_nat (length pre)) by lia.
      rewrite STEP.
      2:{ rewrite <- app_assoc. rewrite nth_error_app2 by lia. rewrite Nat.sub_diag. reflexivity. }
      destruct (Z.ltb_spec (cmp x key) 0); [|lia].
      f_equal. rewrite ?app_length. cbn [length]. lia.
    + (* equivalent: the path ends here *)
      rewrite app_length in Hf |- *. cbn [length] in Hf |- *.
      replace fuel with (Datatypes.S (fuel - 1)) at 1 by lia.
      replace (Z.of_nat (length pre + 1) - 1) with (Z.of_nat (length pre)) by lia.
      rewrite STEP.
      2:{ rewrite nth_error_app2 by lia. rewrite Nat.sub_diag. reflexivity. }
      rewrite s_after_app. rewrite (s_after_none key (inorder l)).
      2:{ intros y Hy. specialize (Al y Hy). apply lt_le_trans with x; lia. }
      cbn [app s_after filter]. destruct (Z.ltb_spec (cmp x key) 0); [lia|]. cbn [negb].
      change (filter (fun x0 => negb (cmp x0 key <? 0)) (inorder r)) with (s_after cmp key (inorder r)).
      rewrite (s_after_all key (inorder r)).
      2:{ intros y Hy. specialize (Ar y Hy). pose proof (le_lt_trans key x y). lia. }
      cbn [list_until]. destruct (f s x) as [s1 ok1]. destruct ok1; cbn [negb]; [|reflexivity].
      destruct (list_until (inorder r) s1) as [s2 ok2]. destruct ok2; cbn [negb]; reflexivity.
Qed.

Lemma inorder_after_ok key (t : tree T) s : sorted (inorder t) ->
  inorder_after cmp f key t s = Ok (list_until (s_after cmp key (inorder t)) s).
Proof.
  intros St. unfold inorder_after. rewrite gen_after_start.
  pose proof (after_loop_ok key t [] s (length (path_to cmp key t)) St) as H.
  cbn [app] in H. rewrite H by lia.
  destruct (list_until (s_after cmp key (inorder t)) s) as [s1 ok]. destruct ok; cbn [negb]; [|reflexivity].
  cbn [length]. rewrite Nat.sub_diag.
  destruct (path_to cmp key t); cbn [after_loop]; rewrite gen_after_more; reflexivity.
Qed.

End Until.

(* the consumer used by histories sees a prefix *)
Lemma yield_log_ok stop : forall (l : list T) log n,
  match stop with Some m => (n <= m)%nat | None => True end ->
  fst (fst (list_until _ (yield_log stop) l (log, n))) =
  rev (match stop with None => l | Some m => firstn (Datatypes.S m - n) l end) ++ log.
Proof.
  induction l as [|x r IH]; intros log n Hn.
  - cbn. destruct stop; [rewrite firstn_nil|]; reflexivity.
  - cbn [list_until yield_log]. destruct stop as [m|].
    + destruct (Nat.eqb_spec n m) as [E|N]; cbn [negb].
      * subst. replace (Datatypes.S m - m)%nat with 1%nat by lia. cbn. reflexivity.
      * rewrite IH by lia.
        replace (Datatypes.S m - n)%nat with (Datatypes.S (Datatypes.S m - Datatypes.S n)) by lia.
        cbn [firstn rev]. rewrite <- app_assoc. reflexivity.
    + cbn [negb]. rewrite IH by exact I. cbn [rev]. rewrite <- app_assoc. reflexivity.
Qed.

End SetProofs.
