(* The storage side of stree/cursor.go: cursors as heap objects whose path is a Go slice.
   DEFINITIONS ONLY.

   CursorModel.v treats a cursor as a value (the list of directions from the root).  In Go a
   *Cursor points to a struct whose field `path` is a slice (backing array, length, capacity) of
   node pointers, and the methods update it in place:

        c.path = append(c.path, n)     writes INTO the backing array when len < cap, otherwise
                                       allocates a new array (capacity chosen by the runtime)
        c.path = c.path[:k]            keeps the array, shortens the length
        c.path = nil                   drops the array
        slices.Clone(c.path)           a new array holding a copy

   so two cursors whose slices share one backing array can overwrite each other's path.  This
   file models exactly that: a heap of backing arrays and of cursor objects, registers holding
   *Cursor pointers, and for every operation its effect on the store.  WHICH path a move produces
   is decided by the pure model (CursorModel.step applied to the path READ BACK from the array,
   every entry of it); WHERE it is stored follows the Go statements listed above: a path that
   extends the old one is appended entry by entry, a shorter one is a reslice, invalidation is nil
   (Up at the root: the empty reslice).  A node pointer is the node's address: the directions from
   the root of the (fixed, unmodified) tree.  The capacity an append or slices.Clone allocates is
   an oracle [grow] (any function: the theorems hold for all of them).

   [clone_fresh] is regenerated from the source: Cursor.Clone calls slices.Clone once
   (Gen/CursorStore.v).  Were it slices.Clip or the slice itself, [hclone] shares the array. *)
From Coq Require Import ZArith List Bool Arith.
Import ListNotations.
From Mds Require Import Gen.CursorStore Stree.StreeModel Stree.CursorModel.
Local Open Scope Z_scope.

Notation addr := (list dir) (only parsing).

Fixpoint addr_eqb (a b : addr) : bool :=
  match a, b with
  | [], [] => true
  | x :: a', y :: b' => dir_eqb x y && addr_eqb a' b'
  | _, _ => false
  end.

Fixpoint addrs_eqb (a b : list addr) : bool :=
  match a, b with
  | [], [] => true
  | x :: a', y :: b' => addr_eqb x y && addrs_eqb a' b'
  | _, _ => false
  end.

(* the addresses of the nodes from the root to p: [], [d1], [d1;d2], ..., p *)
Fixpoint prefixes (p : list dir) : list addr :=
  match p with
  | [] => [[]]
  | d :: q => [] :: map (cons d) (prefixes q)
  end.

(* the nodes below p on the way to p ++ ext: p++[e1], p++[e1;e2], ... *)
Definition new_addrs (p ext : list dir) : list addr := map (app p) (tl (prefixes ext)).

Record slice : Type := mkSlice { s_arr : nat; s_len : nat; s_cap : nat }.   (* offset 0: cursor.go only slices [:k] *)

(* arrays: the backing arrays (array id = position); objs: the Cursor structs, i.e. their path
   field (None = nil slice) *)
Record heap : Type := mkHeap { arrays : list (list addr); objs : list (option slice) }.

Notation ptr := (option nat) (only parsing).        (* a *Cursor: None = nil *)

Definition arr (h : heap) (a : nat) : list addr := nth a (arrays h) [].

Fixpoint upd {A : Type} (k : nat) (x : A) (l : list A) : list A :=
  match k, l with
  | O, _ :: r => x :: r
  | S k', y :: r => y :: upd k' x r
  | _, [] => []
  end.

Definition set_arr (h : heap) (a : nat) (l : list addr) : heap := mkHeap (upd a l (arrays h)) (objs h).
Definition set_obj (h : heap) (id : nat) (pa : option slice) : heap := mkHeap (arrays h) (upd id pa (objs h)).
Definition new_obj (h : heap) (pa : option slice) : heap * ptr :=
  (mkHeap (arrays h) (objs h ++ [pa]), Some (length (objs h))).

(* ---- reading a cursor back from the store: every entry of the slice is read; the path is the
   address of the last node, provided the entries are the chain root ... that node (anything else
   is a path that left the tree: Panic stands for "?") *)
Definition entries (h : heap) (s : slice) : list addr := firstn (s_len s) (arr h (s_arr s)).

Definition decode_path (h : heap) (pa : option slice) : res cursor :=
  match pa with
  | None => Ok CEmpty
  | Some s =>
    if (s_len s =? 0)%nat then Ok CEmpty
    else
      let es := entries h s in
      if negb (length es =? s_len s)%nat then Panic
      else match last es [] with a => if addrs_eqb es (prefixes a) then Ok (CAt a) else Panic end
  end.

Definition decode (h : heap) (c : ptr) : res cursor :=
  match c with
  | None => Ok CNil
  | Some id => match nth_error (objs h) id with Some pa => decode_path h pa | None => Panic end
  end.

(* ---- the Go statements on slices *)
Section Store.
Variable grow : nat -> nat -> nat.      (* capacity the runtime picks: old capacity, needed length *)
Variable fresh : bool.                  (* does Clone copy into a fresh array?  [clone_fresh] for the Go code *)

(* append(s, x) *)
Definition append1 (h : heap) (pa : option slice) (x : addr) : heap * slice :=
  match pa with
  | Some s =>
    if (s_len s <? s_cap s)%nat then
      (set_arr h (s_arr s) (upd (s_len s) x (arr h (s_arr s))), mkSlice (s_arr s) (S (s_len s)) (s_cap s))
    else
      let cap' := Nat.max (S (s_len s)) (grow (s_cap s) (S (s_len s))) in
      (mkHeap (arrays h ++ [entries h s ++ x :: repeat [] (cap' - S (s_len s))]) (objs h),
       mkSlice (length (arrays h)) (S (s_len s)) cap')
  | None =>
    let cap' := Nat.max 1 (grow 0 1) in
    (mkHeap (arrays h ++ [x :: repeat [] (cap' - 1)]) (objs h), mkSlice (length (arrays h)) 1 cap')
  end.

(* for ... { c.path = append(c.path, n) } *)
Fixpoint append_many (h : heap) (pa : option slice) (xs : list addr) : heap * option slice :=
  match xs with
  | [] => (h, pa)
  | x :: r => let '(h', s) := append1 h pa x in append_many h' (Some s) r
  end.

(* s[:hi]: legal up to the CAPACITY *)
Definition reslice (s : slice) (hi : nat) : res slice :=
  if (s_cap s <? hi)%nat then Panic else Ok (mkSlice (s_arr s) hi (s_cap s)).

(* slices.Clone(s), s not nil: a new array with a copy (possibly spare capacity) *)
Definition slices_clone (h : heap) (s : slice) : heap * slice :=
  let cap' := Nat.max (s_len s) (grow 0 (s_len s)) in
  (mkHeap (arrays h ++ [entries h s ++ repeat [] (cap' - s_len s)]) (objs h),
   mkSlice (length (arrays h)) (s_len s) cap').

(* slices.Clip(s) = s[:len(s):len(s)]: the SAME array *)
Definition slices_clip (s : slice) : slice := mkSlice (s_arr s) (s_len s) (s_len s).

Section Ops.
Variable T : Type.
Variable cmp : T -> T -> Z.
Variable t : tree T.

Definition is_prefix (p q : list dir) : bool := addr_eqb (firstn (length p) q) p.

(* a move through the pointer c: nothing happens unless c.Valid(); otherwise the new path is
   stored as the Go code stores it *)
Definition hmove (h : heap) (c : ptr) (m : move) : res heap :=
  match c with
  | None => Ok h
  | Some id =>
    bind (decode h c) (fun v =>
    if valid v then
      match v, nth_error (objs h) id with
      | CAt p, Some (Some s) =>
        bind (step t v m) (fun v' =>
        match v' with
        | CAt q =>
          if is_prefix p q then
            let '(h', pa') := append_many h (Some s) (new_addrs p (skipn (length p) q)) in
            Ok (set_obj h' id pa')
          else bind (reslice s (S (length q))) (fun s' => Ok (set_obj h id (Some s')))
        | CEmpty =>
          match m with
          | MUp => bind (reslice s 0) (fun s' => Ok (set_obj h id (Some s')))      (* c.path[:len-1] at the root *)
          | _ => Ok (set_obj h id None)                                               (* c.path = nil *)
          end
        | CNil => Panic
        end)
      | _, _ => Panic
      end
    else Ok h)
  end.

(* Clone: "if !c.Valid() { return c }; return &Cursor{path: slices.Clone(c.path)}" *)
Definition hclone (h : heap) (c : ptr) : res (heap * ptr) :=
  bind (decode h c) (fun v =>
  if negb (valid v) then Ok (h, c)
  else match c with
       | Some id =>
         match nth_error (objs h) id with
         | Some (Some s) =>
           if fresh then let '(h', s') := slices_clone h s in Ok (new_obj h' (Some s'))
           else Ok (new_obj h (Some (slices_clip s)))
         | _ => Panic
         end
       | None => Panic
       end).

(* Tree.Cursor(k): pathTo appends the nodes on the way to k to a nil slice *)
Definition hcursor (h : heap) (k : T) : res (heap * ptr) :=
  bind (tree_cursor cmp t k) (fun v =>
  match v with
  | CNil => Ok (h, None)
  | CAt p => let '(h', pa) := append_many h None (prefixes p) in Ok (new_obj h' pa)
  | CEmpty => Panic
  end).

(* Tree.Root(): &Cursor{path: []*node{t.root}} (a literal: length = capacity = 1) *)
Definition hroot (h : heap) : heap * ptr :=
  match tree_root t with
  | CAt _ => new_obj (mkHeap (arrays h ++ [[[]]]) (objs h)) (Some (mkSlice (length (arrays h)) 1 1))
  | _ => (h, None)
  end.

(* ---- the register machine: registers hold *Cursor pointers *)
Inductive hop : Type :=
| HK (r : nat) (k : T)        (* reg r = t.Cursor(k) *)
| HO (r : nat)                (* t.Root() *)
| HZ (r : nat)                (* nil *)
| HE (r : nat)                (* new(Cursor) *)
| HC (a b : nat)              (* reg b = reg a .Clone() *)
| HM (r : nat) (m : move).    (* reg r .Next() etc. *)

Definition hstep (st : heap * list ptr) (o : hop) : res (heap * list ptr) :=
  let '(h, regs) := st in
  match o with
  | HK r k => bind (hcursor h k) (fun '(h', c) => Ok (h', upd r c regs))
  | HO r => let '(h', c) := hroot h in Ok (h', upd r c regs)
  | HZ r => Ok (h, upd r None regs)
  | HE r => let '(h', c) := new_obj h None in Ok (h', upd r c regs)
  | HC a b => bind (hclone h (nth a regs None)) (fun '(h', c) => Ok (h', upd b c regs))
  | HM r m => bind (hmove h (nth r regs None) m) (fun h' => Ok (h', regs))
  end.

(* what every register shows, read back from the store *)
Fixpoint snapshot (h : heap) (regs : list ptr) : res (list cursor) :=
  match regs with
  | [] => Ok []
  | c :: r => bind (decode h c) (fun v => bind (snapshot h r) (fun vs => Ok (v :: vs)))
  end.

(* after every op: all registers; a failure ends the run *)
Fixpoint hrun (st : heap * list ptr) (ops : list hop) : list (res (list cursor)) :=
  match ops with
  | [] => []
  | o :: rest =>
    match hstep st o with
    | Ok st' => snapshot (fst st') (snd st') :: hrun st' rest
    | Panic => [Panic] | OutOfFuel => [OutOfFuel] | BadOracle => [BadOracle]
    end
  end.

(* ---- the same machine with cursors as values (registers cannot influence one another) *)
Definition vstep (regs : list cursor) (o : hop) : res (list cursor) :=
  match o with
  | HK r k => bind (tree_cursor cmp t k) (fun v =>
              match v with CEmpty => Panic | _ => Ok (upd r v regs) end)
  | HO r => Ok (upd r (tree_root t) regs)
  | HZ r => Ok (upd r CNil regs)
  | HE r => Ok (upd r CEmpty regs)
  | HC a b => Ok (upd b (clone (nth a regs CNil)) regs)
  | HM r m => bind (step t (nth r regs CNil) m) (fun v => Ok (upd r v regs))
  end.

Fixpoint vrun (regs : list cursor) (ops : list hop) : list (res (list cursor)) :=
  match ops with
  | [] => []
  | o :: rest =>
    match vstep regs o with
    | Ok regs' => Ok regs' :: vrun regs' rest
    | Panic => [Panic] | OutOfFuel => [OutOfFuel] | BadOracle => [BadOracle]
    end
  end.

End Ops.
End Store.

Definition empty_heap : heap := mkHeap [] [].

(* what the Go source does, regenerated on every run: Cursor.Clone calls slices.Clone exactly once *)
Definition clone_fresh : bool := clone_ncalls_slices_clone =? 1.

(* the machine of the Go code, started with n nil registers *)
Definition hrun_go (grow : nat -> nat -> nat) (T : Type) (cmp : T -> T -> Z) (t : tree T) (n : nat) (ops : list (hop T)) :=
  hrun grow clone_fresh T cmp t (empty_heap, repeat None n) ops.

Arguments HK {T} r k.
Arguments HO {T} r.
Arguments HZ {T} r.
Arguments HE {T} r.
Arguments HC {T} a b.
Arguments HM {T} r m.
