(* The functions, statement skeletons and package-level declarations of package queue that the
   models were transcribed from (written by bin/pin-inventory from Gen/InvQueue.v at pinning time, then
   kept under version control).  Gen/InvQueue.v is regenerated from /repo on every run; the lemmas say
   that, for the files a property's model covers, nothing was added, dropped or restructured. *)
From Coq Require Import ZArith List String Bool.
From Mds Require Gen.InvQueue.
Import ListNotations.
Local Open Scope string_scope.

Definition of_file {A} (key : A -> string) (f : string) (l : list A) : list A :=
  filter (fun x => String.prefix (f ++ ":") (key x)) l.

Definition pinned_files : list string := [ "queue.go" ].

Definition pinned_queue : list (string * Z) :=
  [ ("queue.go:New/0/1", 123919%Z);
    ("queue.go:NewSize/1/1", 123919%Z);
    ("queue.go:Queue.Add/1/0", 609810831201545533051171171750031%Z);
    ("queue.go:Queue.Clear/0/0", 7775%Z);
    ("queue.go:Queue.Each/1/0", 8536475374145791%Z);
    ("queue.go:Queue.Front/0/1", 8085131087%Z);
    ("queue.go:Queue.IsEmpty/0/1", 7759%Z);
    ("queue.go:Queue.Len/0/1", 7759%Z);
    ("queue.go:Queue.Peek/1/2", 135642290961993807%Z);
    ("queue.go:Queue.Pop/0/2", 142235130436412357545807%Z);
    ("queue.go:Queue.PopLast/0/2", 36412193359913866596605775%Z);
    ("queue.go:Queue.Push/1/0", 2497785231061471858054576855725704591%Z);
    ("queue.go:Queue.Slice/0/1", 34724148429802770255%Z) ].

Definition pinned_decls_queue : list string :=
  [ "queue.go:type Queue = struct { vs []T head int n int }" ].

Definition ok_queue : Prop :=
  of_file fst "queue.go" InvQueue.inventory = pinned_queue /\ of_file (fun s => s) "queue.go" InvQueue.decls = pinned_decls_queue.
