(* The functions, statement skeletons and package-level declarations of package stack that the
   models were transcribed from (written by bin/pin-inventory from Gen/InvStack.v at pinning time, then
   kept under version control).  Gen/InvStack.v is regenerated from /repo on every run; the lemmas say
   that, for the files a property's model covers, nothing was added, dropped or restructured. *)
From Coq Require Import ZArith List String Bool.
From Mds Require Gen.InvStack.
Import ListNotations.
Local Open Scope string_scope.

Definition of_file {A} (key : A -> string) (f : string) (l : list A) : list A :=
  filter (fun x => String.prefix (f ++ ":") (key x)) l.

Definition pinned_files : list string := [ "stack.go" ].

Definition pinned_stack : list (string * Z) :=
  [ ("stack.go:New/0/1", 123919%Z);
    ("stack.go:Stack.Add/1/0", 124175%Z);
    ("stack.go:Stack.Clear/0/0", 7775%Z);
    ("stack.go:Stack.Each/1/0", 8484969367097343%Z);
    ("stack.go:Stack.IsEmpty/0/1", 123919%Z);
    ("stack.go:Stack.Len/0/1", 123919%Z);
    ("stack.go:Stack.Peek/1/2", 2066123912207%Z);
    ("stack.go:Stack.Pop/0/2", 8532341580697423%Z);
    ("stack.go:Stack.Push/1/0", 124175%Z);
    ("stack.go:Stack.Slice/0/1", 2271722247747801184571215%Z);
    ("stack.go:Stack.Top/0/1", 2066123912207%Z) ].

Definition pinned_decls_stack : list string :=
  [ "stack.go:type Stack = struct { list []T }" ].

Definition ok_stack : Prop :=
  of_file fst "stack.go" InvStack.inventory = pinned_stack /\ of_file (fun s => s) "stack.go" InvStack.decls = pinned_decls_stack.
