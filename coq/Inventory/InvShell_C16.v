(* C16: the files of package shell that its model covers are as pinned (see InvShell.v). *)
From Coq Require Import ZArith List String Bool.
From Mds Require Gen.InvShell Inventory.InvShell.
Import Inventory.InvShell.
Local Open Scope string_scope.

Lemma C16_inventory_shell : InvShell.files = pinned_files /\ ok_shell.
Proof. unfold ok_shell; repeat split; vm_compute; reflexivity. Qed.
