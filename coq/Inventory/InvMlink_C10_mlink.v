(* C10_mlink: the files of package mlink that its model covers are as pinned (see InvMlink.v). *)
From Coq Require Import ZArith List String Bool.
From Mds Require Gen.InvMlink Inventory.InvMlink.
Import Inventory.InvMlink.
Local Open Scope string_scope.

Lemma C10_mlink_inventory_mlink : InvMlink.files = pinned_files /\ ok_list /\ ok_mlink /\ ok_queue.
Proof. unfold ok_list, ok_mlink, ok_queue; repeat split; vm_compute; reflexivity. Qed.
