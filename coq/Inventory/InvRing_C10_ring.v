(* C10_ring: the files of package ring that its model covers are as pinned (see InvRing.v). *)
From Coq Require Import ZArith List String Bool.
From Mds Require Gen.InvRing Inventory.InvRing.
Import Inventory.InvRing.
Local Open Scope string_scope.

Lemma C10_ring_inventory_ring : InvRing.files = pinned_files /\ ok_ring.
Proof. unfold ok_ring; repeat split; vm_compute; reflexivity. Qed.
