(* The functions, statement skeletons and package-level declarations of package cache that the
   models were transcribed from (written by bin/pin-inventory from Gen/InvCache.v at pinning time, then
   kept under version control).  Gen/InvCache.v is regenerated from /repo on every run; the lemmas say
   that, for the files a property's model covers, nothing was added, dropped or restructured. *)
From Coq Require Import ZArith List String Bool.
From Mds Require Gen.InvCache.
Import ListNotations.
Local Open Scope string_scope.

Definition of_file {A} (key : A -> string) (f : string) (l : list A) : list A :=
  filter (fun x => String.prefix (f ++ ":") (key x)) l.

Definition pinned_files : list string := [ "cache.go"; "lru.go" ].

Definition pinned_cache : list (string * Z) :=
  [ ("cache.go:Cache.Clear/0/0", 9401518643450921871982592255%Z);
    ("cache.go:Cache.Get/1/2", 130472281103%Z);
    ("cache.go:Cache.Has/1/1", 2087556501583%Z);
    ("cache.go:Cache.Len/0/1", 8154517583%Z);
    ("cache.go:Cache.Put/2/1", 2774838544622220096489024453988071147309413455951%Z);
    ("cache.go:Cache.Remove/1/1", 36724682087229092828565327%Z);
    ("cache.go:Cache.Size/0/1", 8154517583%Z);
    ("cache.go:Config.OnEvict/1/1", 124239%Z);
    ("cache.go:Config.WithSize/1/1", 124239%Z);
    ("cache.go:Config.WithStore/1/1", 124239%Z);
    ("cache.go:Config.onEvictFunc/0/1", 2069720518399%Z);
    ("cache.go:Config.sizeFunc/0/1", 33115528291583%Z);
    ("cache.go:Length/1/1", 1982479%Z);
    ("cache.go:New/2/1", 2170278662502301711%Z) ].

Definition pinned_decls_cache : list string :=
  [ "cache.go:type Cache = struct { μ sync.Mutex store Store[Key, Value] size, limit int64 count int sizeOf func(Value) int64 onEvict func(Key, Value) }";
    "cache.go:type Config = struct { store Store[Key, Value] sizeOf func(v Value) int64 onEvict func(key Key, val Value) }";
    "cache.go:type Store = interface { Access(key Key) (Value, bool) Check(key Key) (Value, bool) Store(key Key, val Value) Remove(key Key) Evict() (Key, Value) }" ].

Definition ok_cache : Prop :=
  of_file fst "cache.go" InvCache.inventory = pinned_cache /\ of_file (fun s => s) "cache.go" InvCache.decls = pinned_decls_cache.

Definition pinned_lru : list (string * Z) :=
  [ ("lru.go:LRU/0/1", 533264763608911%Z);
    ("lru.go:comparePrio/2/1", 123919%Z);
    ("lru.go:lruStore.Access/1/2", 2184783821994811471%Z);
    ("lru.go:lruStore.Check/1/2", 33337155473487%Z);
    ("lru.go:lruStore.Evict/0/2", 533271294206031%Z);
    ("lru.go:lruStore.Remove/1/0", 2083568771327%Z);
    ("lru.go:lruStore.Store/2/0", 8468326904254559%Z) ].

Definition pinned_decls_lru : list string :=
  [ "lru.go:type lruStore = struct { present map[Key]int access *heapq.Queue[prioKey[Key, Value]] clock int64 }";
    "lru.go:type prioKey = struct { lastAccess int64 key Key value Value }" ].

Definition ok_lru : Prop :=
  of_file fst "lru.go" InvCache.inventory = pinned_lru /\ of_file (fun s => s) "lru.go" InvCache.decls = pinned_decls_lru.
