(* The functions, statement skeletons and package-level declarations of package mstr that the
   models were transcribed from (written by bin/pin-inventory from Gen/InvMstr.v at pinning time, then
   kept under version control).  Gen/InvMstr.v is regenerated from /repo on every run; the lemmas say
   that, for the files a property's model covers, nothing was added, dropped or restructured. *)
From Coq Require Import ZArith List String Bool.
From Mds Require Gen.InvMstr.
Import ListNotations.
Local Open Scope string_scope.

Definition of_file {A} (key : A -> string) (f : string) (l : list A) : list A :=
  filter (fun x => String.prefix (f ++ ":") (key x)) l.

Definition pinned_files : list string := [ "mstr.go" ].

Definition pinned_mstr : list (string * Z) :=
  [ ("mstr.go:CompareNatural/2/1", 172302553649297657233880960630053143860596831247%Z);
    ("mstr.go:Lines/1/1", 129357529103%Z);
    ("mstr.go:Split/2/1", 8084845583%Z);
    ("mstr.go:Trunc/2/1", 34663730443305520975%Z);
    ("mstr.go:isDigit/1/1", 7759%Z);
    ("mstr.go:parseInt/1/3", 537798865096527%Z);
    ("mstr.go:parseStr/1/2", 2100776832847%Z) ].

Definition pinned_decls_mstr : list string :=
  [  ].

Definition ok_mstr : Prop :=
  of_file fst "mstr.go" InvMstr.inventory = pinned_mstr /\ of_file (fun s => s) "mstr.go" InvMstr.decls = pinned_decls_mstr.
