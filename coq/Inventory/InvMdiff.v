(* The functions, statement skeletons and package-level declarations of package mdiff that the
   models were transcribed from (written by bin/pin-inventory from Gen/InvMdiff.v at pinning time, then
   kept under version control).  Gen/InvMdiff.v is regenerated from /repo on every run; the lemmas say
   that, for the files a property's model covers, nothing was added, dropped or restructured. *)
From Coq Require Import ZArith List String Bool.
From Mds Require Gen.InvMdiff.
Import ListNotations.
Local Open Scope string_scope.

Definition of_file {A} (key : A -> string) (f : string) (l : list A) : list A :=
  filter (fun x => String.prefix (f ++ ":") (key x)) l.

Definition pinned_files : list string := [ "format.go"; "mdiff.go"; "reader.go" ].

Definition pinned_format : list (string * Z) :=
  [ ("format.go:Context/3/1", 4013785760740800687672369125087869365049186009413646372441350628811543470659098723361336055562063%Z);
    ("format.go:Normal/3/1", 53435582632545157428209314390568151357519160503857506518824860253570465615%Z);
    ("format.go:Unified/3/1", 197894916786324721151191260542230122981030840563521868111760326479%Z);
    ("format.go:dspan/2/1", 129356592143%Z);
    ("format.go:fmtFileHeader/5/0", 8549874995885583%Z);
    ("format.go:hasRelevantEdits/2/1", 2078259085135%Z);
    ("format.go:uspan/3/1", 129356592143%Z);
    ("format.go:writeLines/3/0", 507404543%Z) ].

Definition pinned_decls_format : list string :=
  [ "format.go:const TimeFormat = ""2006-01-02 15:04:05.999999 -0700""";
    "format.go:type FileInfo = struct { Left string Right string LeftTime time.Time RightTime time.Time TimeFormat string }";
    "format.go:type FormatFunc = func(w io.Writer, ch []*Chunk, fi *FileInfo) error" ].

Definition ok_format : Prop :=
  of_file fst "format.go" InvMdiff.inventory = pinned_format /\ of_file (fun s => s) "format.go" InvMdiff.decls = pinned_decls_format.

Definition pinned_mdiff : list (string * Z) :=
  [ ("mdiff.go:Diff.AddContext/1/1", 179984379518482513802970700138894559793373955375562575%Z);
    ("mdiff.go:Diff.Format/3/1", 123919%Z);
    ("mdiff.go:Diff.Unify/0/1", 1986639%Z);
    ("mdiff.go:Diff.findContext/3/2", 157497848067136028515344821276446543%Z);
    ("mdiff.go:New/2/1", 241212130783683079921050029775022200110664763571967684343382801767245847122111569313730383%Z);
    ("mdiff.go:UnifyChunks/1/1", 4208759445763987825657309486938077337201983223553849807247031290427641938255111595805391911860611387215%Z) ].

Definition pinned_decls_mdiff : list string :=
  [ "mdiff.go:type Chunk = struct { Edits []Edit LStart, LEnd int RStart, REnd int }";
    "mdiff.go:type Diff = struct { Left, Right []string Chunks []*Chunk Edits []Edit }";
    "mdiff.go:type Edit = slice.Edit[string]" ].

Definition ok_mdiff : Prop :=
  of_file fst "mdiff.go" InvMdiff.inventory = pinned_mdiff /\ of_file (fun s => s) "mdiff.go" InvMdiff.decls = pinned_decls_mdiff.

Definition pinned_reader : list (string * Z) :=
  [ ("reader.go:Patch.Format/2/1", 123919%Z);
    ("reader.go:Read/1/2", 33329299476303%Z);
    ("reader.go:ReadGitPatch/1/2", 221322648770371687616578629435415326150294161706265651518918821883713511817215%Z);
    ("reader.go:ReadUnified/1/2", 33329299476303%Z);
    ("reader.go:diffReader.readline/0/2", 610875535094297511795120137012239%Z);
    ("reader.go:diffReader.unread/1/0", 7775%Z);
    ("reader.go:parseFileLine/2/2", 559175442243777462095%Z);
    ("reader.go:parseSpan/2/3", 157393895472463491567768088266821455%Z);
    ("reader.go:readNormal/1/1", 89852535315001586794319370593491911941234386605712414682829896549833018804818709025378043286375696976902716467412902459015071568087527411967%Z);
    ("reader.go:readNormalEdit/1/2", 865002043671795062406908379497892906280689256139049811516784819101042736975%Z);
    ("reader.go:readUnified/1/1", 9310005048077037776712650751%Z);
    ("reader.go:readUnifiedChunk/1/1", 369646276219976533113221647596695082096966730413648379912233961290522847352343762535797183612788771506916109166565558329605811035968121161601103%Z);
    ("reader.go:readUnifiedHeader/1/1", 44302444357242890056554794685952999820135385859407%Z);
    ("reader.go:scanToPrefix/2/1", 8907832365761645531135%Z) ].

Definition pinned_decls_reader : list string :=
  [ "reader.go:type Patch = struct { FileInfo *FileInfo Chunks []*Chunk }";
    "reader.go:type diffReader = struct { br *bufio.Reader ln int saved *string fileInfo *FileInfo chunks []*Chunk }";
    "reader.go:var errUnexpectedPrefix = errors.New(""unexpected prefix"")" ].

Definition ok_reader : Prop :=
  of_file fst "reader.go" InvMdiff.inventory = pinned_reader /\ of_file (fun s => s) "reader.go" InvMdiff.decls = pinned_decls_reader.
