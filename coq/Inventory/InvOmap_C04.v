(* C04: the files of package omap that its model covers are as pinned (see InvOmap.v). *)
From Coq Require Import ZArith List String Bool.
From Mds Require Gen.InvOmap Inventory.InvOmap.
Import Inventory.InvOmap.
Local Open Scope string_scope.

Lemma C04_inventory_omap : InvOmap.files = pinned_files /\ ok_omap.
Proof. unfold ok_omap; repeat split; vm_compute; reflexivity. Qed.
