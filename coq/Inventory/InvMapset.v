(* The functions, statement skeletons and package-level declarations of package mapset that the
   models were transcribed from (written by bin/pin-inventory from Gen/InvMapset.v at pinning time, then
   kept under version control).  Gen/InvMapset.v is regenerated from /repo on every run; the lemmas say
   that, for the files a property's model covers, nothing was added, dropped or restructured. *)
From Coq Require Import ZArith List String Bool.
From Mds Require Gen.InvMapset.
Import ListNotations.
Local Open Scope string_scope.

Definition of_file {A} (key : A -> string) (f : string) (l : list A) : list A :=
  filter (fun x => String.prefix (f ++ ":") (key x)) l.

Definition pinned_files : list string := [ "mapset.go" ].

Definition pinned_mapset : list (string * Z) :=
  [ ("mapset.go:Intersect/1/1", 2619116239392300865374057760631037778857807%Z);
    ("mapset.go:Keys/1/1", 33329011625807%Z);
    ("mapset.go:New/1/1", 508560399%Z);
    ("mapset.go:NewSize/1/1", 123919%Z);
    ("mapset.go:Range/1/1", 2083124547407%Z);
    ("mapset.go:Set.Add/1/1", 2069721314319%Z);
    ("mapset.go:Set.AddAll/1/1", 8477579577024335%Z);
    ("mapset.go:Set.Append/1/1", 8462824831782735%Z);
    ("mapset.go:Set.Clear/0/1", 1990735%Z);
    ("mapset.go:Set.Clone/0/1", 129356592143%Z);
    ("mapset.go:Set.Equals/1/1", 554559271493557354319%Z);
    ("mapset.go:Set.Has/1/1", 124239%Z);
    ("mapset.go:Set.HasAll/1/1", 554619436769829257039%Z);
    ("mapset.go:Set.HasAny/1/1", 34663730509907296079%Z);
    ("mapset.go:Set.Intersects/1/1", 8947827842623589384015%Z);
    ("mapset.go:Set.IsEmpty/0/1", 123919%Z);
    ("mapset.go:Set.IsSubset/1/1", 9304974475495480338434817871%Z);
    ("mapset.go:Set.Len/0/1", 123919%Z);
    ("mapset.go:Set.Pop/0/1", 2078328289615%Z);
    ("mapset.go:Set.Remove/1/1", 8512491633381199%Z);
    ("mapset.go:Set.RemoveAll/1/1", 8512491633381199%Z);
    ("mapset.go:Set.Slice/0/1", 33057909506063%Z);
    ("mapset.go:Set.add/1/1", 507404111%Z);
    ("mapset.go:Values/1/1", 2083124547407%Z) ].

Definition pinned_decls_mapset : list string :=
  [ "mapset.go:type Set = map[T]struct{}" ].

Definition ok_mapset : Prop :=
  of_file fst "mapset.go" InvMapset.inventory = pinned_mapset /\ of_file (fun s => s) "mapset.go" InvMapset.decls = pinned_decls_mapset.
