(* The functions, statement skeletons and package-level declarations of package mbits that the
   models were transcribed from (written by bin/pin-inventory from Gen/InvMbits.v at pinning time, then
   kept under version control).  Gen/InvMbits.v is regenerated from /repo on every run; the lemmas say
   that, for the files a property's model covers, nothing was added, dropped or restructured. *)
From Coq Require Import ZArith List String Bool.
From Mds Require Gen.InvMbits.
Import ListNotations.
Local Open Scope string_scope.

Definition of_file {A} (key : A -> string) (f : string) (l : list A) : list A :=
  filter (fun x => String.prefix (f ++ ":") (key x)) l.

Definition pinned_files : list string := [ "mbits.go" ].

Definition pinned_mbits : list (string * Z) :=
  [ ("mbits.go:LeadingZeroes/1/1", 38427383193015299036793086578511%Z);
    ("mbits.go:TrailingZeroes/1/1", 2518371914335049724729043457231720271%Z);
    ("mbits.go:Zero/1/1", 2290445913181491871768399%Z) ].

Definition pinned_decls_mbits : list string :=
  [  ].

Definition ok_mbits : Prop :=
  of_file fst "mbits.go" InvMbits.inventory = pinned_mbits /\ of_file (fun s => s) "mbits.go" InvMbits.decls = pinned_decls_mbits.
