(* C09: the files of package heapq that its model covers are as pinned (see InvHeapq.v). *)
From Coq Require Import ZArith List String Bool.
From Mds Require Gen.InvHeapq Inventory.InvHeapq.
Import Inventory.InvHeapq.
Local Open Scope string_scope.

Lemma C09_inventory_heapq : InvHeapq.files = pinned_files /\ ok_heapq.
Proof. unfold ok_heapq; repeat split; vm_compute; reflexivity. Qed.
