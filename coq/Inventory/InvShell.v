(* The functions, statement skeletons and package-level declarations of package shell that the
   models were transcribed from (written by bin/pin-inventory from Gen/InvShell.v at pinning time, then
   kept under version control).  Gen/InvShell.v is regenerated from /repo on every run; the lemmas say
   that, for the files a property's model covers, nothing was added, dropped or restructured. *)
From Coq Require Import ZArith List String Bool.
From Mds Require Gen.InvShell.
Import ListNotations.
Local Open Scope string_scope.

Definition of_file {A} (key : A -> string) (f : string) (l : list A) : list A :=
  filter (fun x => String.prefix (f ++ ":") (key x)) l.

Definition pinned_files : list string := [ "shell.go" ].

Definition pinned_shell : list (string * Z) :=
  [ ("shell.go:Join/1/1", 2382073427874273065228732265487%Z);
    ("shell.go:NewScanner/1/1", 123919%Z);
    ("shell.go:Quote/1/1", 9321191524593694816508183567%Z);
    ("shell.go:Scanner.Complete/0/1", 7759%Z);
    ("shell.go:Scanner.Each/1/0", 530025003503615%Z);
    ("shell.go:Scanner.Err/0/1", 7759%Z);
    ("shell.go:Scanner.Next/0/1", 774374410663939830111896582545567649491464722701937021832658767%Z);
    ("shell.go:Scanner.Reset/1/0", 8154121567%Z);
    ("shell.go:Scanner.Rest/0/1", 508953935%Z);
    ("shell.go:Scanner.Split/0/1", 33612654186319%Z);
    ("shell.go:Scanner.Text/0/1", 123919%Z);
    ("shell.go:Split/1/2", 136528628174619663%Z);
    ("shell.go:quotable/1/2", 36990979829894155348606799%Z);
    ("shell.go:quote/2/0", 3024925993103422508417552968565539599345893596903485369901311%Z) ].

Definition pinned_decls_shell : list string :=
  [ "shell.go:const allQuote = mustQuote + shouldQuote + spaces";
    "shell.go:const clBreak = ";
    "shell.go:const clDouble = ";
    "shell.go:const clNewline = ";
    "shell.go:const clOther = iota";
    "shell.go:const clQuote = ";
    "shell.go:const clSingle = ";
    "shell.go:const drop = iota";
    "shell.go:const emit = ";
    "shell.go:const mustQuote = ""|&;<>()$`\\\""\t\n""";
    "shell.go:const push = ";
    "shell.go:const shouldQuote = `*?[#~=%`";
    "shell.go:const spaces = "" \t\n""";
    "shell.go:const stBreak = ";
    "shell.go:const stBreakQ = ";
    "shell.go:const stDouble = ";
    "shell.go:const stDoubleQ = ";
    "shell.go:const stNone = iota";
    "shell.go:const stSingle = ";
    "shell.go:const stWord = ";
    "shell.go:const stWordQ = ";
    "shell.go:const xpush = ";
    "shell.go:type Scanner = struct { buf *bufio.Reader cur bytes.Buffer st state err error }";
    "shell.go:type action = int";
    "shell.go:type class = int";
    "shell.go:type state = int";
    "shell.go:var bufPool = &sync.Pool{ New: func() any { return new(bytes.Buffer) }, }";
    "shell.go:var classOf = [256]class{ ' ': clBreak, '\t': clBreak, '\n': clNewline, '\\': clQuote, '\'': clSingle, '""': clDouble, }";
    "shell.go:var scanPool = &sync.Pool{ New: func() any { return NewScanner(nil) }, }";
    "shell.go:var update = [...][]struct { state action }{ stNone: {}, stBreak: { clBreak: {stBreak, drop}, clNewline: {stBreak, drop}, clQuote: {stBreakQ, drop}, clSingle: {stSingle, drop}, clDouble: {stDouble, drop}, clOther: {stWord, push}, }, stBreakQ: { clBreak: {stWord, push}, clNewline: {stBreak, drop}, clQuote: {stWord, push}, clSingle: {stWord, push}, clDouble: {stWord, push}, clOther: {stWord, push}, }, stWord: { clBreak: {stBreak, emit}, clNewline: {stBreak, emit}, clQuote: {stWordQ, drop}, clSingle: {stSingle, drop}, clDouble: {stDouble, drop}, clOther: {stWord, push}, }, stWordQ: { clBreak: {stWord, push}, clNewline: {stWord, drop}, clQuote: {stWord, push}, clSingle: {stWord, push}, clDouble: {stWord, push}, clOther: {stWord, push}, }, stSingle: { clBreak: {stSingle, push}, clNewline: {stSingle, push}, clQuote: {stSingle, push}, clSingle: {stWord, drop}, clDouble: {stSingle, push}, clOther: {stSingle, push}, }, stDouble: { clBreak: {stDouble, push}, clNewline: {stDouble, push}, clQuote: {stDoubleQ, drop}, clSingle: {stDouble, push}, clDouble: {stWord, drop}, clOther: {stDouble, push}, }, stDoubleQ: { clBreak: {stDouble, xpush}, clNewline: {stDouble, drop}, clQuote: {stDouble, push}, clSingle: {stDouble, xpush}, clDouble: {stDouble, push}, clOther: {stDouble, xpush}, }, }" ].

Definition ok_shell : Prop :=
  of_file fst "shell.go" InvShell.inventory = pinned_shell /\ of_file (fun s => s) "shell.go" InvShell.decls = pinned_decls_shell.
