(* C07: the files of package queue that its model covers are as pinned (see InvQueue.v). *)
From Coq Require Import ZArith List String Bool.
From Mds Require Gen.InvQueue Inventory.InvQueue.
Import Inventory.InvQueue.
Local Open Scope string_scope.

Lemma C07_inventory_queue : InvQueue.files = pinned_files /\ ok_queue.
Proof. unfold ok_queue; repeat split; vm_compute; reflexivity. Qed.
