(* C19: the files of package distinct that its model covers are as pinned (see InvDistinct.v). *)
From Coq Require Import ZArith List String Bool.
From Mds Require Gen.InvDistinct Inventory.InvDistinct.
Import Inventory.InvDistinct.
Local Open Scope string_scope.

Lemma C19_inventory_distinct : InvDistinct.files = pinned_files /\ ok_distinct.
Proof. unfold ok_distinct; repeat split; vm_compute; reflexivity. Qed.
