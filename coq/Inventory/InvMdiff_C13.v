(* C13: the files of package mdiff that its model covers are as pinned (see InvMdiff.v). *)
From Coq Require Import ZArith List String Bool.
From Mds Require Gen.InvMdiff Inventory.InvMdiff.
Import Inventory.InvMdiff.
Local Open Scope string_scope.

Lemma C13_inventory_mdiff : InvMdiff.files = pinned_files /\ ok_mdiff.
Proof. unfold ok_mdiff; repeat split; vm_compute; reflexivity. Qed.
