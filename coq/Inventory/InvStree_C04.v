(* C04: the files of package stree that its model covers are as pinned (see InvStree.v). *)
From Coq Require Import ZArith List String Bool.
From Mds Require Gen.InvStree Inventory.InvStree.
Import Inventory.InvStree.
Local Open Scope string_scope.

Lemma C04_inventory_stree : InvStree.files = pinned_files /\ ok_stree /\ ok_node /\ ok_cursor.
Proof. unfold ok_stree, ok_node, ok_cursor; repeat split; vm_compute; reflexivity. Qed.
