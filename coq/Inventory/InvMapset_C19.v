(* C19: the files of package mapset that its model covers are as pinned (see InvMapset.v). *)
From Coq Require Import ZArith List String Bool.
From Mds Require Gen.InvMapset Inventory.InvMapset.
Import Inventory.InvMapset.
Local Open Scope string_scope.

Lemma C19_inventory_mapset : InvMapset.files = pinned_files /\ ok_mapset.
Proof. unfold ok_mapset; repeat split; vm_compute; reflexivity. Qed.
