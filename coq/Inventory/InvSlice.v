(* The functions, statement skeletons and package-level declarations of package slice that the
   models were transcribed from (written by bin/pin-inventory from Gen/InvSlice.v at pinning time, then
   kept under version control).  Gen/InvSlice.v is regenerated from /repo on every run; the lemmas say
   that, for the files a property's model covers, nothing was added, dropped or restructured. *)
From Coq Require Import ZArith List String Bool.
From Mds Require Gen.InvSlice.
Import ListNotations.
Local Open Scope string_scope.

Definition of_file {A} (key : A -> string) (f : string) (l : list A) : list A :=
  filter (fun x => String.prefix (f ++ ":") (key x)) l.

Definition pinned_files : list string := [ "edit.go"; "lis.go"; "slice.go" ].

Definition pinned_edit : list (string * Z) :=
  [ ("edit.go:Edit.String/0/1", 622316869099688927967659884016655%Z);
    ("edit.go:EditScript/2/1", 123919%Z);
    ("edit.go:LCS/2/1", 123919%Z);
    ("edit.go:LCSFunc/3/1", 14258278253471986719469541787809849977028582095270965591732827339551616556271099983%Z);
    ("edit.go:editScriptFunc/3/1", 4046875747100362137632787875898743303645165191557632441483257635542669452727217348345146979012431%Z);
    ("edit.go:equal/2/1", 7759%Z) ].

Definition pinned_decls_edit : list string :=
  [ "edit.go:const OpCopy = '+'";
    "edit.go:const OpDrop = '-'";
    "edit.go:const OpEmit = '='";
    "edit.go:const OpReplace = '!'";
    "edit.go:type Edit = struct { Op EditOp X []T Y []T }";
    "edit.go:type EditOp = byte" ].

Definition ok_edit : Prop :=
  of_file fst "edit.go" InvSlice.inventory = pinned_edit /\ of_file (fun s => s) "edit.go" InvSlice.decls = pinned_decls_edit.

Definition pinned_lis : list (string * Z) :=
  [ ("lis.go:LIS/1/1", 123919%Z);
    ("lis.go:LISFunc/2/1", 810577590568564602834059168369611192701651079740767766562182265855823%Z);
    ("lis.go:LNDS/1/1", 123919%Z);
    ("lis.go:LNDSFunc/2/1", 810577590568564602834059168369611192701651079740767766562182265855823%Z);
    ("lis.go:bisectRight/3/1", 9381642202927585627717193807%Z) ].

Definition pinned_decls_lis : list string :=
  [  ].

Definition ok_lis : Prop :=
  of_file fst "lis.go" InvSlice.inventory = pinned_lis /\ of_file (fun s => s) "lis.go" InvSlice.decls = pinned_decls_lis.

Definition pinned_slice : list (string * Z) :=
  [ ("slice.go:At/2/1", 33328978071375%Z);
    ("slice.go:Batches/2/1", 704295708229020286507311591859976972260315661098831%Z);
    ("slice.go:Chunks/2/1", 9774066391742954080791735292682063%Z);
    ("slice.go:Dedup/1/1", 123919%Z);
    ("slice.go:Head/2/1", 8070778703%Z);
    ("slice.go:MapKeys/1/1", 34663730586998607695%Z);
    ("slice.go:MatchingKeys/2/1", 8943085466054586007551%Z);
    ("slice.go:Partition/2/1", 163694839535593898363312582966226366009167%Z);
    ("slice.go:PtrAt/2/1", 2067222384463%Z);
    ("slice.go:Reverse/1/0", 124431%Z);
    ("slice.go:Rotate/2/0", 2640593691083554983095409143881666599542783%Z);
    ("slice.go:Select/2/1", 2183370474890002431%Z);
    ("slice.go:Stripe/2/1", 8606844118433615%Z);
    ("slice.go:Tail/2/1", 129132459023%Z);
    ("slice.go:Zero/1/0", 513009151%Z);
    ("slice.go:gcd/2/1", 506355535%Z);
    ("slice.go:indexCheck/2/2", 505306959%Z);
    ("slice.go:sliceCheck/2/2", 505306959%Z) ].

Definition pinned_decls_slice : list string :=
  [  ].

Definition ok_slice : Prop :=
  of_file fst "slice.go" InvSlice.inventory = pinned_slice /\ of_file (fun s => s) "slice.go" InvSlice.decls = pinned_decls_slice.
