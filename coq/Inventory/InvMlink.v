(* The functions, statement skeletons and package-level declarations of package mlink that the
   models were transcribed from (written by bin/pin-inventory from Gen/InvMlink.v at pinning time, then
   kept under version control).  Gen/InvMlink.v is regenerated from /repo on every run; the lemmas say
   that, for the files a property's model covers, nothing was added, dropped or restructured. *)
From Coq Require Import ZArith List String Bool.
From Mds Require Gen.InvMlink.
Import ListNotations.
Local Open Scope string_scope.

Definition of_file {A} (key : A -> string) (f : string) (l : list A) : list A :=
  filter (fun x => String.prefix (f ++ ":") (key x)) l.

Definition pinned_files : list string := [ "list.go"; "mlink.go"; "queue.go" ].

Definition pinned_list : list (string * Z) :=
  [ ("list.go:Cursor.Add/1/0", 129895522559%Z);
    ("list.go:Cursor.AtEnd/0/1", 123919%Z);
    ("list.go:Cursor.Get/0/1", 2066123912207%Z);
    ("list.go:Cursor.Next/0/1", 2066119349263%Z);
    ("list.go:Cursor.Push/1/0", 1986655%Z);
    ("list.go:Cursor.Remove/0/1", 8462843545736527%Z);
    ("list.go:Cursor.Set/1/0", 528926830907647%Z);
    ("list.go:Cursor.Truncate/0/0", 31850591%Z);
    ("list.go:List.At/1/1", 36411234125036187671301967%Z);
    ("list.go:List.Clear/0/0", 1990751%Z);
    ("list.go:List.Each/1/0", 34754284981886799871%Z);
    ("list.go:List.End/0/1", 508584015%Z);
    ("list.go:List.Find/1/1", 559176184327583436623%Z);
    ("list.go:List.IsEmpty/0/1", 7759%Z);
    ("list.go:List.Last/0/1", 136516524123946831%Z);
    ("list.go:List.Len/0/1", 507416399%Z);
    ("list.go:List.Peek/1/2", 508575759%Z);
    ("list.go:List.cfirst/0/1", 7759%Z);
    ("list.go:NewList/0/1", 123919%Z) ].

Definition pinned_decls_list : list string :=
  [ "list.go:type Cursor = struct { pred *entry[T] }";
    "list.go:type List = struct { first entry[T] }" ].

Definition ok_list : Prop :=
  of_file fst "list.go" InvMlink.inventory = pinned_list /\ of_file (fun s => s) "list.go" InvMlink.decls = pinned_decls_list.

Definition pinned_mlink : list (string * Z) :=
  [ ("mlink.go:entry.checkValid/0/1", 8084918095%Z);
    ("mlink.go:entry.invalidate/0/0", 8101647871%Z) ].

Definition pinned_decls_mlink : list string :=
  [ "mlink.go:type entry = struct { X T link *entry[T] }" ].

Definition ok_mlink : Prop :=
  of_file fst "mlink.go" InvMlink.inventory = pinned_mlink /\ of_file (fun s => s) "mlink.go" InvMlink.decls = pinned_decls_mlink.

Definition pinned_queue : list (string * Z) :=
  [ ("queue.go:NewQueue/0/1", 508579919%Z);
    ("queue.go:Queue.Add/1/0", 2069722259599%Z);
    ("queue.go:Queue.Clear/0/0", 509628511%Z);
    ("queue.go:Queue.Each/1/0", 124431%Z);
    ("queue.go:Queue.Front/0/1", 1986639%Z);
    ("queue.go:Queue.IsEmpty/0/1", 123919%Z);
    ("queue.go:Queue.Len/0/1", 7759%Z);
    ("queue.go:Queue.Peek/1/2", 123919%Z);
    ("queue.go:Queue.Pop/0/2", 36647040863962657422905167%Z) ].

Definition pinned_decls_queue : list string :=
  [ "queue.go:type Queue = struct { list List[T] back Cursor[T] size int }" ].

Definition ok_queue : Prop :=
  of_file fst "queue.go" InvMlink.inventory = pinned_queue /\ of_file (fun s => s) "queue.go" InvMlink.decls = pinned_decls_queue.
