(* The functions, statement skeletons and package-level declarations of package distinct that the
   models were transcribed from (written by bin/pin-inventory from Gen/InvDistinct.v at pinning time, then
   kept under version control).  Gen/InvDistinct.v is regenerated from /repo on every run; the lemmas say
   that, for the files a property's model covers, nothing was added, dropped or restructured. *)
From Coq Require Import ZArith List String Bool.
From Mds Require Gen.InvDistinct.
Import ListNotations.
Local Open Scope string_scope.

Definition of_file {A} (key : A -> string) (f : string) (l : list A) : list A :=
  filter (fun x => String.prefix (f ++ ":") (key x)) l.

Definition pinned_files : list string := [ "distinct.go" ].

Definition pinned_distinct : list (string * Z) :=
  [ ("distinct.go:BufferSize/3/1", 38179928863953197345200205202447%Z);
    ("distinct.go:Counter.Add/1/0", 10230932984458269069664159104553706911231%Z);
    ("distinct.go:Counter.Count/0/1", 130191212559%Z);
    ("distinct.go:Counter.Len/0/1", 123919%Z);
    ("distinct.go:Counter.Reset/0/0", 1990751%Z);
    ("distinct.go:NewCounter/1/1", 137664415096848399%Z) ].

Definition pinned_decls_distinct : list string :=
  [ "distinct.go:type Counter = struct { buf mapset.Set[T] cap int p uint64 rng rand.Source }" ].

Definition ok_distinct : Prop :=
  of_file fst "distinct.go" InvDistinct.inventory = pinned_distinct /\ of_file (fun s => s) "distinct.go" InvDistinct.decls = pinned_decls_distinct.
