(* C09: the files of package cache that its model covers are as pinned (see InvCache.v). *)
From Coq Require Import ZArith List String Bool.
From Mds Require Gen.InvCache Inventory.InvCache.
Import Inventory.InvCache.
Local Open Scope string_scope.

Lemma C09_inventory_cache : InvCache.files = pinned_files /\ ok_cache /\ ok_lru.
Proof. unfold ok_cache, ok_lru; repeat split; vm_compute; reflexivity. Qed.
