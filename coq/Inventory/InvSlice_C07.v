(* C07: the files of package slice that its model covers are as pinned (see InvSlice.v). *)
From Coq Require Import ZArith List String Bool.
From Mds Require Gen.InvSlice Inventory.InvSlice.
Import Inventory.InvSlice.
Local Open Scope string_scope.

Lemma C07_inventory_slice : InvSlice.files = pinned_files /\ ok_slice.
Proof. unfold ok_slice; repeat split; vm_compute; reflexivity. Qed.
