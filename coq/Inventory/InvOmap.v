(* The functions, statement skeletons and package-level declarations of package omap that the
   models were transcribed from (written by bin/pin-inventory from Gen/InvOmap.v at pinning time, then
   kept under version control).  Gen/InvOmap.v is regenerated from /repo on every run; the lemmas say
   that, for the files a property's model covers, nothing was added, dropped or restructured. *)
From Coq Require Import ZArith List String Bool.
From Mds Require Gen.InvOmap.
Import ListNotations.
Local Open Scope string_scope.

Definition of_file {A} (key : A -> string) (f : string) (l : list A) : list A :=
  filter (fun x => String.prefix (f ++ ":") (key x)) l.

Definition pinned_files : list string := [ "omap.go" ].

Definition pinned_omap : list (string * Z) :=
  [ ("omap.go:Iter.IsValid/0/1", 123919%Z);
    ("omap.go:Iter.Key/0/1", 123919%Z);
    ("omap.go:Iter.Next/0/1", 1990735%Z);
    ("omap.go:Iter.Prev/0/1", 1990735%Z);
    ("omap.go:Iter.Seek/1/1", 136548559054438223%Z);
    ("omap.go:Iter.Value/0/1", 123919%Z);
    ("omap.go:Map.Clear/0/0", 505307391%Z);
    ("omap.go:Map.Delete/1/1", 8084845583%Z);
    ("omap.go:Map.First/0/1", 2083567701839%Z);
    ("omap.go:Map.Get/1/1", 1986639%Z);
    ("omap.go:Map.GetOK/1/2", 8477578756094287%Z);
    ("omap.go:Map.Keys/0/1", 34663730586998607695%Z);
    ("omap.go:Map.Last/0/1", 2083567701839%Z);
    ("omap.go:Map.Len/0/1", 8084845583%Z);
    ("omap.go:Map.Seek/1/1", 1982479%Z);
    ("omap.go:Map.Set/2/1", 123919%Z);
    ("omap.go:Map.String/0/1", 610873763663921260520590338819087%Z);
    ("omap.go:New/0/1", 123919%Z);
    ("omap.go:NewFunc/1/1", 32063503%Z) ].

Definition pinned_decls_omap : list string :=
  [ "omap.go:type Iter = struct { m *stree.Tree[stree.KV[T, U]] c *stree.Cursor[stree.KV[T, U]] }";
    "omap.go:type Map = struct { m *stree.Tree[stree.KV[T, U]] }" ].

Definition ok_omap : Prop :=
  of_file fst "omap.go" InvOmap.inventory = pinned_omap /\ of_file (fun s => s) "omap.go" InvOmap.decls = pinned_decls_omap.
