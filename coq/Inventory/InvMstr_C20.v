(* C20: the files of package mstr that its model covers are as pinned (see InvMstr.v). *)
From Coq Require Import ZArith List String Bool.
From Mds Require Gen.InvMstr Inventory.InvMstr.
Import Inventory.InvMstr.
Local Open Scope string_scope.

Lemma C20_inventory_mstr : InvMstr.files = pinned_files /\ ok_mstr.
Proof. unfold ok_mstr; repeat split; vm_compute; reflexivity. Qed.
