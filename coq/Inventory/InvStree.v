(* The functions, statement skeletons and package-level declarations of package stree that the
   models were transcribed from (written by bin/pin-inventory from Gen/InvStree.v at pinning time, then
   kept under version control).  Gen/InvStree.v is regenerated from /repo on every run; the lemmas say
   that, for the files a property's model covers, nothing was added, dropped or restructured. *)
From Coq Require Import ZArith List String Bool.
From Mds Require Gen.InvStree.
Import ListNotations.
Local Open Scope string_scope.

Definition of_file {A} (key : A -> string) (f : string) (l : list A) : list A :=
  filter (fun x => String.prefix (f ++ ":") (key x)) l.

Definition pinned_files : list string := [ "cursor.go"; "node.go"; "stree.go" ].

Definition pinned_cursor : list (string * Z) :=
  [ ("cursor.go:Cursor.Clone/0/1", 129132459023%Z);
    ("cursor.go:Cursor.HasLeft/0/1", 1982479%Z);
    ("cursor.go:Cursor.HasNext/0/1", 2066119413583%Z);
    ("cursor.go:Cursor.HasParent/0/1", 1982479%Z);
    ("cursor.go:Cursor.HasPrev/0/1", 2066119413583%Z);
    ("cursor.go:Cursor.HasRight/0/1", 1982479%Z);
    ("cursor.go:Cursor.Inorder/1/0", 129132527871%Z);
    ("cursor.go:Cursor.Key/0/1", 2066118408527%Z);
    ("cursor.go:Cursor.Left/0/1", 8873898632486356123471%Z);
    ("cursor.go:Cursor.Max/0/1", 2166483221365194575%Z);
    ("cursor.go:Cursor.Min/0/1", 2166483221365194575%Z);
    ("cursor.go:Cursor.Next/0/1", 609810813054947905441177740377935%Z);
    ("cursor.go:Cursor.Prev/0/1", 609810813054947905441177740377935%Z);
    ("cursor.go:Cursor.Right/0/1", 8873898632486356123471%Z);
    ("cursor.go:Cursor.Up/0/1", 129132465999%Z);
    ("cursor.go:Cursor.Valid/0/1", 123919%Z);
    ("cursor.go:Cursor.findNext/0/2", 2290372986677344525979471%Z);
    ("cursor.go:Cursor.findPrev/0/2", 2290372986677344525979471%Z) ].

Definition pinned_decls_cursor : list string :=
  [ "cursor.go:type Cursor = struct { path []*node[T] }" ].

Definition ok_cursor : Prop :=
  of_file fst "cursor.go" InvStree.inventory = pinned_cursor /\ of_file (fun s => s) "cursor.go" InvStree.decls = pinned_decls_cursor.

Definition pinned_node : list (string * Z) :=
  [ ("node.go:extract/1/1", 2166483161772478543%Z);
    ("node.go:node.clone/0/1", 129357529103%Z);
    ("node.go:node.inorder/1/1", 2280336991221838242602831%Z);
    ("node.go:node.inorderAfter/3/1", 40292974776103403220719924537622593359%Z);
    ("node.go:node.pathTo/2/1", 2423014131746259670186391502671%Z);
    ("node.go:node.size/0/1", 129357529103%Z);
    ("node.go:popMinRight/1/1", 8950012298594766247247%Z);
    ("node.go:rewrite/2/1", 1982479%Z);
    ("node.go:rotateLeft/2/0", 533530859099647%Z);
    ("node.go:treeToVine/1/1", 8952644089593036365647%Z);
    ("node.go:vineToTree/2/1", 143200197745117771468623%Z) ].

Definition pinned_decls_node : list string :=
  [ "node.go:type node = struct { X T left, right *node[T] }" ].

Definition ok_node : Prop :=
  of_file fst "node.go" InvStree.inventory = pinned_node /\ of_file (fun s => s) "node.go" InvStree.decls = pinned_decls_node.

Definition pinned_stree : list (string * Z) :=
  [ ("stree.go:KV.Compare/1/1", 8133689599%Z);
    ("stree.go:New/3/1", 44018481057460221974596792144755805476626528276303%Z);
    ("stree.go:Tree.Add/1/1", 130191590735%Z);
    ("stree.go:Tree.Clear/0/0", 1987935%Z);
    ("stree.go:Tree.Clone/0/1", 31805519%Z);
    ("stree.go:Tree.Cursor/1/1", 533267435376463%Z);
    ("stree.go:Tree.Get/1/2", 586547729299531779839164239%Z);
    ("stree.go:Tree.Inorder/1/0", 124431%Z);
    ("stree.go:Tree.InorderAfter/1/1", 8133697791%Z);
    ("stree.go:Tree.IsEmpty/0/1", 7759%Z);
    ("stree.go:Tree.Len/0/1", 7759%Z);
    ("stree.go:Tree.Max/0/1", 8534311798988623%Z);
    ("stree.go:Tree.Min/0/1", 8534311798988623%Z);
    ("stree.go:Tree.Remove/1/1", 559189984388168679247%Z);
    ("stree.go:Tree.Replace/1/1", 130191590735%Z);
    ("stree.go:Tree.Root/0/1", 505302863%Z);
    ("stree.go:Tree.String/0/1", 123919%Z);
    ("stree.go:Tree.incSize/1/0", 2069773574143%Z);
    ("stree.go:Tree.insert/4/4", 824161611464241826482256108559889933172586013345893576563302072713039%Z);
    ("stree.go:limitFunc/1/1", 586337965603597121117749503%Z);
    ("stree.go:node.remove/2/2", 2623682473970686488616265302596976618308943%Z);
    ("stree.go:toFraction/1/1", 123919%Z) ].

Definition pinned_decls_stree : list string :=
  [ "stree.go:const fracLimit = 2 * maxBalance";
    "stree.go:const maxBalance = 1000";
    "stree.go:type KV = struct { Key T Value U }";
    "stree.go:type Tree = struct { root *node[T] β int compare func(a, b T) int limit func(n int) int size int max int }" ].

Definition ok_stree : Prop :=
  of_file fst "stree.go" InvStree.inventory = pinned_stree /\ of_file (fun s => s) "stree.go" InvStree.decls = pinned_decls_stree.
