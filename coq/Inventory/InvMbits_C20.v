(* C20: the files of package mbits that its model covers are as pinned (see InvMbits.v). *)
From Coq Require Import ZArith List String Bool.
From Mds Require Gen.InvMbits Inventory.InvMbits.
Import Inventory.InvMbits.
Local Open Scope string_scope.

Lemma C20_inventory_mbits : InvMbits.files = pinned_files /\ ok_mbits.
Proof. unfold ok_mbits; repeat split; vm_compute; reflexivity. Qed.
