(* C10_mlink: the files of package stack that its model covers are as pinned (see InvStack.v). *)
From Coq Require Import ZArith List String Bool.
From Mds Require Gen.InvStack Inventory.InvStack.
Import Inventory.InvStack.
Local Open Scope string_scope.

Lemma C10_mlink_inventory_stack : InvStack.files = pinned_files /\ ok_stack.
Proof. unfold ok_stack; repeat split; vm_compute; reflexivity. Qed.
