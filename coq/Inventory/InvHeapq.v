(* The functions, statement skeletons and package-level declarations of package heapq that the
   models were transcribed from (written by bin/pin-inventory from Gen/InvHeapq.v at pinning time, then
   kept under version control).  Gen/InvHeapq.v is regenerated from /repo on every run; the lemmas say
   that, for the files a property's model covers, nothing was added, dropped or restructured. *)
From Coq Require Import ZArith List String Bool.
From Mds Require Gen.InvHeapq.
Import ListNotations.
Local Open Scope string_scope.

Definition of_file {A} (key : A -> string) (f : string) (l : list A) : list A :=
  filter (fun x => String.prefix (f ++ ":") (key x)) l.

Definition pinned_files : list string := [ "heapq.go" ].

Definition pinned_heapq : list (string * Z) :=
  [ ("heapq.go:New/1/1", 7759%Z);
    ("heapq.go:NewWithData/2/1", 533422202556239%Z);
    ("heapq.go:Queue.Add/1/1", 2083143418895%Z);
    ("heapq.go:Queue.Clear/0/0", 7775%Z);
    ("heapq.go:Queue.Each/1/0", 2078245015551%Z);
    ("heapq.go:Queue.Front/0/1", 129132744527%Z);
    ("heapq.go:Queue.IsEmpty/0/1", 123919%Z);
    ("heapq.go:Queue.Len/0/1", 123919%Z);
    ("heapq.go:Queue.Peek/1/2", 2170278710465875791%Z);
    ("heapq.go:Queue.Pop/0/2", 2066123912207%Z);
    ("heapq.go:Queue.Remove/1/2", 34724459367454012431%Z);
    ("heapq.go:Queue.Reorder/1/0", 33338887659775%Z);
    ("heapq.go:Queue.Set/1/1", 9755909892622686694424494052085583%Z);
    ("heapq.go:Queue.Update/1/1", 33115806261071%Z);
    ("heapq.go:Queue.pop/1/1", 143239104526879978557263%Z);
    ("heapq.go:Queue.pushDown/1/1", 9839574851467452174823885105028943%Z);
    ("heapq.go:Queue.pushUp/1/1", 2174764792774942543%Z);
    ("heapq.go:Queue.swap/2/0", 508954127%Z);
    ("heapq.go:Sort/2/0", 36347556021979400882774271%Z);
    ("heapq.go:nmove/2/0", 495%Z) ].

Definition pinned_decls_heapq : list string :=
  [ "heapq.go:type Queue = struct { data []T cmp func(a, b T) int move func(T, int) }" ].

Definition ok_heapq : Prop :=
  of_file fst "heapq.go" InvHeapq.inventory = pinned_heapq /\ of_file (fun s => s) "heapq.go" InvHeapq.decls = pinned_decls_heapq.
