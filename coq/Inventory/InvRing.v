(* The functions, statement skeletons and package-level declarations of package ring that the
   models were transcribed from (written by bin/pin-inventory from Gen/InvRing.v at pinning time, then
   kept under version control).  Gen/InvRing.v is regenerated from /repo on every run; the lemmas say
   that, for the files a property's model covers, nothing was added, dropped or restructured. *)
From Coq Require Import ZArith List String Bool.
From Mds Require Gen.InvRing.
Import ListNotations.
Local Open Scope string_scope.

Definition of_file {A} (key : A -> string) (f : string) (l : list A) : list A :=
  filter (fun x => String.prefix (f ++ ":") (key x)) l.

Definition pinned_files : list string := [ "ring.go" ].

Definition pinned_ring : list (string * Z) :=
  [ ("ring.go:New/1/1", 142230111927150340050767%Z);
    ("ring.go:Of/1/1", 8532232752140111%Z);
    ("ring.go:Ring.At/1/1", 9321192646937408935050567503%Z);
    ("ring.go:Ring.Each/1/0", 130473148671%Z);
    ("ring.go:Ring.IsEmpty/0/1", 7759%Z);
    ("ring.go:Ring.Join/1/1", 529848461514063%Z);
    ("ring.go:Ring.Len/0/1", 2170259576319397711%Z);
    ("ring.go:Ring.Next/0/1", 7759%Z);
    ("ring.go:Ring.Peek/1/2", 2083091205967%Z);
    ("ring.go:Ring.Pop/0/1", 33115629510479%Z);
    ("ring.go:Ring.Prev/0/1", 7759%Z);
    ("ring.go:Ring.String/0/1", 2069720465423%Z);
    ("ring.go:Ring.ptr/1/1", 2170259833347761407%Z);
    ("ring.go:newRing/0/1", 508581199%Z);
    ("ring.go:scan/2/0", 34724148548511004159%Z) ].

Definition pinned_decls_ring : list string :=
  [ "ring.go:type Ring = struct { Value T prev, next *Ring[T] }" ].

Definition ok_ring : Prop :=
  of_file fst "ring.go" InvRing.inventory = pinned_ring /\ of_file (fun s => s) "ring.go" InvRing.decls = pinned_decls_ring.
