(* C03: the files of package stree that its model covers are as pinned (see InvStree.v). *)
From Coq Require Import ZArith List String Bool.
From Mds Require Gen.InvStree Inventory.InvStree.
Import Inventory.InvStree.
Local Open Scope string_scope.

Lemma C03_inventory_stree : InvStree.files = pinned_files /\ ok_cursor /\ ok_stree /\ ok_node.
Proof. unfold ok_cursor, ok_stree, ok_node; repeat split; vm_compute; reflexivity. Qed.
