(* The dispatchers of Mdiff/FormatDispatch.v agree with how the C14 theorems compose the
   formatters: those theorems are stated about [unified .. fi cs], [context .. fi cs], [normal cs]
   applied directly to a chunk list; a caller of the package reaches the formatters only through
   Diff.Format / Patch.Format.  Below: the dispatcher applied to a formatter IS that direct
   application (with the receiver's chunks, and for a Patch its stored info), and three of the
   C14 theorems re-read through the dispatchers. *)
From Coq Require Import NArith ZArith List.
Import ListNotations.
From Mds Require Import Mdiff.MdiffModel Mdiff.FormatModel Mdiff.ReaderModel Mdiff.FormatSpec Mdiff.ApplySpec
  Mdiff.FormatDispatch Mdiff.ReaderNormalProofs Mdiff.ReaderUnifiedProofs Mdiff.ApplyNormalProofs.

Section Dispatch.
Variable time : Type.
Variable time_is_zero : time -> bool.
Variable format_time : time -> bytes.
Notation ffu := (ff_unified time_is_zero format_time).
Notation ffc := (ff_context time_is_zero format_time).

Lemma diff_format_unified d v (fi : option (file_info time)) :
  diff_format d (ffu v) fi = unified time_is_zero format_time v fi (Chunks d).
Proof. reflexivity. Qed.
Lemma diff_format_context d (fi : option (file_info time)) :
  diff_format d ffc fi = context time_is_zero format_time fi (Chunks d).
Proof. reflexivity. Qed.
Lemma diff_format_normal d (fi : option (file_info time)) :
  diff_format d ff_normal fi = normal (Chunks d).
Proof. reflexivity. Qed.

Lemma patch_format_unified (p : patch time) v :
  patch_format p (ffu v) = unified time_is_zero format_time v (p_info p) (p_chunks p).
Proof. reflexivity. Qed.
Lemma patch_format_context (p : patch time) :
  patch_format p ffc = context time_is_zero format_time (p_info p) (p_chunks p).
Proof. reflexivity. Qed.
Lemma patch_format_normal (p : patch time) :
  patch_format p ff_normal = normal (p_chunks p).
Proof. reflexivity. Qed.

(* a Patch made of a Diff's chunks and the caller's info formats like the Diff *)
Lemma patch_format_of_diff d (f : format_func time) fi :
  patch_format (mkPatch fi (Chunks d)) f = diff_format d f fi.
Proof. reflexivity. Qed.

(* C14_normal_apply through Diff.Format *)
Theorem diff_format_normal_apply d (fi : option (file_info time)) :
  patch_ok (Left d) (Right d) (Chunks d) -> normal_ok (Chunks d) -> lines_nf (Chunks d) ->
  apply_normal (Left d) (split_lines (diff_format d ff_normal fi)) = Some (Right d).
Proof. intros. rewrite diff_format_normal. apply apply_normal_text; assumption. Qed.

(* C14_normal_roundtrip + C14_normal_reformat through both dispatchers: what Read makes of
   Diff.Format(Normal) is a Patch whose Patch.Format(Normal) is the same text *)
Theorem format_read_format_normal d (fi : option (file_info time)) :
  normal_ok (Chunks d) -> lines_nf (Chunks d) ->
  exists cs', read_normal (diff_format d ff_normal fi) = ROk cs' /\
              patch_format (mkPatch (@None (file_info time)) cs') ff_normal = diff_format d ff_normal fi.
Proof.
  intros Hok Hnf. exists (normal_normalise (Chunks d)). split.
  - rewrite diff_format_normal. apply read_normal_normal; assumption.
  - rewrite patch_format_normal, diff_format_normal. apply normal_reformat.
Qed.
End Dispatch.
