(* Histories of the exported chunk operations of a Diff: after New, a caller may call AddContext(n)
   (any int n) and Unify() in any order, any number of times (the package comment suggests
   New -> AddContext -> Unify, but nothing enforces it).  Definitions only; the operations are
   the ones of Mdiff/MdiffModel.v. *)
From Coq Require Import ZArith List Bool.
Import ListNotations.
From Mds Require Import Mdiff.MdiffModel.
Local Open Scope Z_scope.

Inductive hop :=
| HAdd (n : Z)     (* d.AddContext(n) *)
| HUnify.          (* d.Unify() *)

Section Hist.
  Variable T : Type.
  Variable eqb : T -> T -> bool.

  Definition run_op (L R : list T) (cs : list (chunk T)) (o : hop) : res (list (chunk T)) :=
    match o with
    | HAdd n => add_context eqb L R n cs
    | HUnify => unify_chunks cs
    end.

  (* d.Chunks after the whole history *)
  Fixpoint run_ops (L R : list T) (cs : list (chunk T)) (ops : list hop) : res (list (chunk T)) :=
    match ops with
    | [] => Ok cs
    | o :: r => bind (run_op L R cs o) (fun cs' => run_ops L R cs' r)
    end.

  (* d.Chunks after every call (what the harness records); stops at the first panic *)
  Fixpoint run_trace (L R : list T) (cs : list (chunk T)) (ops : list hop) : list (res (list (chunk T))) :=
    match ops with
    | [] => []
    | o :: r =>
      match run_op L R cs o with
      | Ok cs' => Ok cs' :: run_trace L R cs' r
      | Panic k => [Panic k]
      end
    end.

  (* the same on the Diff value *)
  Definition diff_op (d : diff T) (o : hop) : res (diff T) :=
    match o with
    | HAdd n => diff_add_context eqb n d
    | HUnify => diff_unify d
    end.
  Fixpoint diff_run (d : diff T) (ops : list hop) : res (diff T) :=
    match ops with
    | [] => Ok d
    | o :: r => bind (diff_op d o) (fun d' => diff_run d' r)
    end.
End Hist.

Arguments run_op {T} eqb L R cs o.
Arguments run_ops {T} eqb L R cs ops.
Arguments run_trace {T} eqb L R cs ops.
Arguments diff_op {T} eqb d o.
Arguments diff_run {T} eqb d ops.
