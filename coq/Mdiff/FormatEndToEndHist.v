(* C14 end to end, for EVERY history of the exported chunk operations: after New(lhs, rhs) a caller
   may call AddContext(n) (any int n) and Unify() in any order, any number of times (C13's
   Mdiff/MdiffHistModel.v).  Whenever the last call was Unify - or there was no call at all - the
   chunk list satisfies every hypothesis of the format theorems, so all three renderings apply
   and (normal, unified) read back.  More generally this holds whenever the chunks of the result
   do not overlap ([separated 0]); after an AddContext that was not followed by Unify they may
   overlap, and then no rendering means anything (C13: add_context_overlap_not_patch_ok).
   Rests on C13's history_composed (Mdiff/MdiffHistory.v). *)
From Coq Require Import NArith ZArith List Bool Lia.
Import ListNotations.
From Mds Require Import Slice.EditModel Slice.EditSpec Slice.EditTheorems.
From Mds Require Import Mdiff.MdiffModel Mdiff.MdiffSpec Mdiff.MdiffCompose Mdiff.MdiffPatchOk
  Mdiff.MdiffHistModel Mdiff.MdiffHistory.
From Mds Require Import Mdiff.ReaderModel Mdiff.FormatSpec Mdiff.FormatProofs Mdiff.ReaderNormalProofs
  Mdiff.ReaderUnifiedProofs Mdiff.ApplySpec Mdiff.ApplyNormalProofs Mdiff.ApplyUnifiedProofs
  Mdiff.ApplyContextProofs Mdiff.FormatEndToEnd.
Local Open Scope Z_scope.

(* the history is empty or its last call is Unify *)
Definition ends_unified (ops : list hop) : Prop := ops = [] \/ exists ops', ops = ops' ++ [HUnify].

(* [cs] is d.Chunks after the calls [ops] on New(lhs, rhs) *)
Definition history_chunks (lhs rhs : list line) (ops : list hop) (cs : list (chunk line)) : Prop :=
  exists d, diff_run bytes_eqb (diff_new lhs rhs) ops = Ok d /\ cs = Chunks d.

(* no history panics *)
Theorem history_total (lhs rhs : list line) (ops : list hop) :
  exists cs, history_chunks lhs rhs ops cs.
Proof.
  destruct (history_composed line bytes_eqb bytes_eqb_iff lhs rhs ops) as (_ & d & Hrun & _).
  exists (Chunks d), d. split; [exact Hrun | reflexivity].
Qed.

Theorem history_well_formed (lhs rhs : list line) (ops : list hop) (cs : list (chunk line)) :
  Forall newline_free lhs -> Forall newline_free rhs -> file_fits lhs -> file_fits rhs ->
  history_chunks lhs rhs ops cs -> ends_unified ops \/ separated 0 cs ->
  well_formed lhs rhs cs.
Proof.
  intros HL HR HfL HfR (d & Hrun & ->) Hend.
  destruct (history_composed line bytes_eqb bytes_eqb_iff lhs rhs ops)
    as (_ & d' & Hrun' & _ & _ & _ & _ & Hch & Hhc & Hsep & Hun).
  fold (diff_new lhs rhs) in *.
  pose proof (eq_trans (eq_sym Hrun) Hrun') as E. injection E as ->.
  assert (Hp : patch_ok lhs rhs (Chunks d')).
  { destruct Hend as [He|Hs]; [destruct (Hun He) as (_ & Hp & _); exact Hp | destruct (Hsep Hs) as [Hp _]; exact Hp]. }
  apply assemble; try assumption.
  apply (chunk_edits_ok (edit_script_func bytes_eqb lhs rhs)); [apply script_nonempty|].
  intros e He.
  match type of Hch with _ = ?r => assert (He' : In e r) by (rewrite <- Hch; exact He) end.
  apply changes_in in He'. exact He'.
Qed.

Section EndToEndHist.
  Variable time : Type.
  Variable zero_time : time.
  Variable time_is_zero : time -> bool.
  Variable format_time : time -> bytes.
  Variable parse_time : bytes -> option time.
  Hypothesis parse_format : forall t, time_is_zero t = false -> parse_time (format_time t) = Some t.
  Hypothesis format_nf : forall t, newline_free (format_time t).
  Hypothesis zero_unique : forall t, time_is_zero t = true -> t = zero_time.

  (* everything at once, for a chunk list that satisfies the hypotheses of the format theorems *)
  Lemma all_formats (lhs rhs : list line) (cs : list (chunk line)) (fi : option (file_info time)) :
    well_formed lhs rhs cs -> info_ok time fi ->
    (* normal, code as it stands *)
    apply_normal lhs (split_lines (normal cs)) = Some rhs /\
    read_normal (normal cs) = ROk (normal_normalise cs) /\
    (* context, code as it stands *)
    apply_context lhs (split_lines (context time_is_zero format_time fi cs)) = Some rhs /\
    (* unified, for every variant outside its triggers (none for the repaired one) *)
    forall v,
      (appliable v cs ->
         apply_unified lhs (split_lines (unified time_is_zero format_time v fi cs)) = Some rhs) /\
      (readable v cs ->
         read_unified time zero_time parse_time v (unified time_is_zero format_time v fi cs)
         = ROk (mkPatch (expected_info time fi cs) (unified_normalise cs))).
  Proof.
    intros (Hp & Hn & Hc & Hl & Hfit) Hfi.
    split; [apply apply_normal_text; assumption|].
    split; [apply read_normal_normal; assumption|].
    split; [apply apply_context_text; assumption|].
    intros v. split; intros Hv.
    - apply apply_unified_text; assumption.
    - apply (read_unified_unified time zero_time time_is_zero format_time parse_time); assumption.
  Qed.

  Theorem e2e_history (lhs rhs : list line) (ops : list hop) (cs : list (chunk line)) (fi : option (file_info time)) :
    Forall newline_free lhs -> Forall newline_free rhs -> file_fits lhs -> file_fits rhs ->
    history_chunks lhs rhs ops cs -> ends_unified ops \/ separated 0 cs -> info_ok time fi ->
    apply_normal lhs (split_lines (normal cs)) = Some rhs /\
    read_normal (normal cs) = ROk (normal_normalise cs) /\
    apply_context lhs (split_lines (context time_is_zero format_time fi cs)) = Some rhs /\
    apply_unified lhs (split_lines (unified time_is_zero format_time repaired fi cs)) = Some rhs /\
    read_unified time zero_time parse_time repaired (unified time_is_zero format_time repaired fi cs)
      = ROk (mkPatch (expected_info time fi cs) (unified_normalise cs)).
  Proof.
    intros HL HR HfL HfR Hh Hend Hfi.
    pose proof (history_well_formed lhs rhs ops cs HL HR HfL HfR Hh Hend) as Hwf.
    destruct (all_formats lhs rhs cs fi Hwf Hfi) as (H1 & H2 & H3 & H4).
    destruct (H4 repaired) as (H5 & H6).
    split; [exact H1|]. split; [exact H2|]. split; [exact H3|].
    split; [apply H5; left; reflexivity | apply H6; left; reflexivity].
  Qed.
End EndToEndHist.

(* non-vacuity: New([a b c], [a x c y]); AddContext(1); AddContext(2); Unify(); AddContext(0); Unify() *)
Example history_ex :
  exists cs, history_chunks [[97]; [98]; [99]]%N [[97]; [120]; [99]; [121]]%N
               [HAdd 1; HAdd 2; HUnify; HAdd 0; HUnify] cs /\
             ends_unified [HAdd 1; HAdd 2; HUnify; HAdd 0; HUnify] /\ length cs = 1%nat.
Proof.
  eexists. split; [eexists; split; [vm_compute; reflexivity | reflexivity]|].
  split; [right; exists [HAdd 1; HAdd 2; HUnify; HAdd 0]; reflexivity | reflexivity].
Qed.
