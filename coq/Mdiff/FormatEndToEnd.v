(* C14 end to end: the chunk lists the package itself computes - New(lhs, rhs), and
   New(lhs, rhs).AddContext(n).Unify() - satisfy every hypothesis of the format theorems
   (patch_ok, normal_ok, context_ok, lines_nf), so the theorems can be stated from the two files
   alone.  The pipeline is C13's model (Mdiff/MdiffModel.v) composed with C11's model of
   slice.EditScript (Mdiff/MdiffCompose.v); that its chunks describe how lhs becomes rhs is
   C13's theorem composed_patch_ok (Mdiff/MdiffPatchOk.v). *)
From Coq Require Import NArith ZArith List Bool Lia.
Import ListNotations.
From Mds Require Import Slice.EditModel Slice.EditSpec Slice.EditTheorems.
From Mds Require Import Mdiff.MdiffModel Mdiff.MdiffSpec Mdiff.MdiffProofs Mdiff.MdiffCompose Mdiff.MdiffPatchOk.
From Mds Require Import Mdiff.ReaderModel Mdiff.FormatSpec Mdiff.FormatProofs Mdiff.ReaderNormalProofs
  Mdiff.ReaderUnifiedProofs Mdiff.ApplySpec Mdiff.ApplyNormalProofs Mdiff.ApplyUnifiedProofs
  Mdiff.ApplyContextProofs Mdiff.FormatInst Mdiff.FormatRefuted.
Local Open Scope Z_scope.

(* == on strings *)
Lemma bytes_eqb_iff : forall a b : line, bytes_eqb a b = true <-> a = b.
Proof. intros a b. split; [apply bytes_eqb_eq | intros ->; apply bytes_eqb_refl]. Qed.

(* New(lhs, rhs) and New(lhs, rhs).AddContext(n).Unify() on lines *)
Definition diff_new (lhs rhs : list line) : diff line := mdiff_new line bytes_eqb lhs rhs.

(* [cs] is what a caller can hand to a FormatFunc for the diff of lhs and rhs: d.Chunks of
   New(lhs, rhs), or of New(lhs, rhs).AddContext(n).Unify() *)
Definition rendered_chunks (lhs rhs : list line) (n : Z) (cs : list (chunk line)) : Prop :=
  cs = Chunks (diff_new lhs rhs) \/
  exists d1 d2, diff_add_context bytes_eqb n (diff_new lhs rhs) = Ok d1 /\ diff_unify d1 = Ok d2 /\
                cs = Chunks d2.

(* everything the format theorems ask of a chunk list *)
Definition well_formed (L R : list line) (cs : list (chunk line)) : Prop :=
  patch_ok L R cs /\ normal_ok cs /\ context_ok cs /\ lines_nf cs /\ ranges_fit cs.

(* files whose line numbers an int holds with room to spare: at most 2^61 - 1 lines (a Go slice
   of strings that long does not fit in any memory) *)
Definition file_fits (l : list line) : Prop := fits (llen l + 1).

(* ---- from patch_ok ---- *)
Lemma chunks_from_starts cs : forall lpos rpos (l r : list line),
  chunks_from lpos rpos l r cs -> 1 <= lpos -> 1 <= rpos ->
  Forall (fun c => 1 <= LStart c /\ 1 <= RStart c) cs.
Proof.
  intros lpos rpos l r H. induction H as [|lpos rpos g c cs l r HL HR HLe HRe _ IH]; intros Hl Hr; [constructor|].
  pose proof (llen_nonneg g). pose proof (llen_nonneg (consumed (edits c))). pose proof (llen_nonneg (produced (edits c))).
  constructor; [lia|]. apply IH; lia.
Qed.

(* where the chunks of a list that describes how l becomes r lie *)
Lemma chunks_from_bounds cs : forall lpos rpos (l r : list line),
  chunks_from lpos rpos l r cs ->
  Forall (fun c => lpos <= LStart c /\ LStart c + llen (consumed (edits c)) = LEnd c /\ LEnd c <= lpos + llen l /\
                   rpos <= RStart c /\ RStart c + llen (produced (edits c)) = REnd c /\ REnd c <= rpos + llen r) cs.
Proof.
  intros lpos rpos l r H. induction H as [|lpos rpos g c cs l r HL HR HLe HRe _ IH]; [constructor|].
  pose proof (llen_nonneg g). pose proof (llen_nonneg (consumed (edits c))). pose proof (llen_nonneg (produced (edits c))).
  pose proof (llen_nonneg l). pose proof (llen_nonneg r).
  constructor.
  - rewrite !llen_app. lia.
  - eapply Forall_impl; [|exact IH]. intros c' Hc'. cbn beta in Hc'. rewrite !llen_app. lia.
Qed.

Lemma edits_nf (es : list (edit line)) :
  Forall newline_free (consumed es) -> Forall newline_free (produced es) -> Forall edit_lines_nf es.
Proof.
  induction es as [|e es IH]; intros Hc Hp; [constructor|].
  rewrite consumed_cons in Hc. rewrite produced_cons in Hp.
  apply Forall_app in Hc. apply Forall_app in Hp. destruct Hc as [Hc1 Hc2]. destruct Hp as [Hp1 Hp2].
  constructor; [|apply IH; assumption].
  unfold edit_lines_nf. destruct (eop e); try split; assumption.
Qed.

Lemma chunks_from_nf cs : forall lpos rpos (l r : list line),
  chunks_from lpos rpos l r cs -> Forall newline_free l -> Forall newline_free r -> lines_nf cs.
Proof.
  intros lpos rpos l r H. induction H as [|lpos rpos g c cs l r _ _ _ _ _ IH]; intros Hl Hr; [constructor|].
  apply Forall_app in Hl. destruct Hl as [_ Hl]. apply Forall_app in Hl. destruct Hl as [Hc Hl].
  apply Forall_app in Hr. destruct Hr as [_ Hr]. apply Forall_app in Hr. destruct Hr as [Hp Hr].
  constructor; [apply edits_nf; assumption | apply IH; assumption].
Qed.

(* ---- from the edit script ---- *)
Lemma nonempty_normal_ok (e : edit line) : nonempty_edit e = true -> normal_edit_ok e.
Proof.
  unfold nonempty_edit, normal_edit_ok. destruct (eop e); intros H; try exact I.
  - destruct (X e); [discriminate | congruence].
  - destruct (Y e); [discriminate | congruence].
  - apply andb_true_iff in H. destruct H as [H1 H2].
    split; [destruct (X e) | destruct (Y e)]; first [discriminate | congruence].
Qed.

Lemma in_changes (e : edit line) es : In e es -> is_emit e = false -> In e (changes es).
Proof. intros Hin He. unfold changes. apply filter_In. split; [exact Hin|]. unfold non_emit. rewrite He. reflexivity. Qed.

Lemma changes_in (e : edit line) es : In e (changes es) -> In e es.
Proof. unfold changes. intros H. apply filter_In in H. tauto. Qed.

(* every non-context edit of [cs] is an edit of the script *)
Lemma chunk_edits_ok (script : list (edit line)) cs :
  (forall e, In e script -> nonempty_edit e = true) ->
  (forall e, In e (changes (flat_map edits cs)) -> In e script) ->
  Forall (fun c => Forall normal_edit_ok (edits c)) cs.
Proof.
  intros Hs Hin. apply Forall_forall. intros c Hc. apply Forall_forall. intros e He.
  destruct (is_emit e) eqn:Ee.
  - unfold is_emit in Ee. unfold normal_edit_ok. destruct (eop e); try discriminate Ee. exact I.
  - apply nonempty_normal_ok. apply Hs. apply Hin. apply in_changes; [|exact Ee].
    apply in_flat_map. exists c. split; assumption.
Qed.

Lemma has_change_relevant (es : list (edit line)) :
  existsb (@non_emit line) es = true ->
  has_relevant_edits es Drop || has_relevant_edits es Copy = true.
Proof.
  induction es as [|e es IH]; intros H; [discriminate H|].
  cbn [existsb] in H. unfold has_relevant_edits in *. cbn [existsb].
  unfold non_emit, is_emit in H.
  destruct (eop e); cbn [op_eqb negb orb] in *; try reflexivity.
  - specialize (IH H). apply orb_true_iff in IH. destruct IH as [IH|IH]; rewrite IH; [reflexivity | apply orb_true_r].
  - rewrite orb_true_r. reflexivity.
Qed.

Lemma assemble (L R : list line) cs :
  Forall newline_free L -> Forall newline_free R -> file_fits L -> file_fits R ->
  patch_ok L R cs -> Forall (@has_change line) cs ->
  Forall (fun c => Forall normal_edit_ok (edits c)) cs ->
  well_formed L R cs.
Proof.
  intros HL HR HfL HfR Hp Hch Hed.
  pose proof (chunks_from_bounds cs 1 1 L R Hp) as Hb.
  pose proof (llen_nonneg L) as HL0. pose proof (llen_nonneg R) as HR0.
  unfold file_fits, fits in HfL, HfR.
  split; [exact Hp|]. split; [|split; [|split]].
  - unfold normal_ok. rewrite Forall_forall in *. intros c Hc.
    destruct (Hb c Hc) as (H1 & H2 & H3 & H4 & H5 & H6).
    pose proof (llen_nonneg (consumed (edits c))). pose proof (llen_nonneg (produced (edits c))).
    split; [exact H1|]. split; [exact H4|]. split; [apply Hed; exact Hc|].
    split; unfold fits; lia.
  - unfold context_ok. rewrite Forall_forall in *. intros c Hc. split; [apply Hed; exact Hc|].
    apply has_change_relevant. apply Hch. exact Hc.
  - exact (chunks_from_nf cs 1 1 L R Hp HL HR).
  - unfold ranges_fit. rewrite Forall_forall in *. intros c Hc.
    destruct (Hb c Hc) as (H1 & H2 & H3 & H4 & H5 & H6).
    pose proof (llen_nonneg (consumed (edits c))). pose proof (llen_nonneg (produced (edits c))).
    unfold chunk_fits, fits. lia.
Qed.

(* ---- the pipeline ---- *)
Lemma script_nonempty lhs rhs :
  forall e, In e (edit_script_func bytes_eqb lhs rhs) -> nonempty_edit e = true.
Proof. intros e. apply (edit_script_nonempty line bytes_eqb bytes_eqb_iff). Qed.

(* the pipeline never fails, for every n (AddContext with n <= 0 does nothing) *)
Theorem pipeline_total (lhs rhs : list line) (n : Z) :
  exists d1 d2, diff_add_context bytes_eqb n (diff_new lhs rhs) = Ok d1 /\ diff_unify d1 = Ok d2.
Proof.
  destruct (composed_patch_ok line bytes_eqb bytes_eqb_iff lhs rhs n) as (d1 & d2 & H1 & H2 & _).
  exists d1, d2. split; assumption.
Qed.

Lemma pipeline_nonneg (lhs rhs : list line) (n : Z) cs :
  0 <= n -> Forall newline_free lhs -> Forall newline_free rhs -> file_fits lhs -> file_fits rhs ->
  rendered_chunks lhs rhs n cs -> well_formed lhs rhs cs.
Proof.
  intros Hn HL HR HfL HfR Hcs.
  destruct (composed_patch_ok line bytes_eqb bytes_eqb_iff lhs rhs n)
    as (d1 & d2 & Ha & Hu & Hp0 & Hc0 & _ & _ & Hp2 & Hc2).
  destruct (composed_correct line bytes_eqb bytes_eqb_iff lhs rhs n Hn)
    as (_ & d1' & d2' & Ha' & Hu' & _ & _ & _ & _ & _ & _ & _ & _ & He0 & He2 & _).
  fold (diff_new lhs rhs) in *.
  rewrite Ha in Ha'. injection Ha' as <-. rewrite Hu in Hu'. injection Hu' as <-.
  destruct Hcs as [-> | (e1 & e2 & Hb & Hv & ->)].
  - apply assemble; try assumption.
    apply (chunk_edits_ok (edit_script_func bytes_eqb lhs rhs)); [apply script_nonempty|].
    intros e He. apply changes_in in He.
    match type of He0 with _ = ?r => assert (He' : In e r) by (rewrite <- He0; exact He) end.
    apply changes_in in He'. exact He'.
  - pose proof (eq_trans (eq_sym Hb) Ha) as E1. injection E1 as ->.
    pose proof (eq_trans (eq_sym Hv) Hu) as E2. injection E2 as ->.
    apply assemble; try assumption.
    apply (chunk_edits_ok (edit_script_func bytes_eqb lhs rhs)); [apply script_nonempty|].
    intros e He.
    match type of He2 with _ = ?r => assert (He' : In e r) by (rewrite <- He2; exact He) end.
    apply changes_in in He'. exact He'.
Qed.

(* every chunk list the package hands to a FormatFunc for the diff of two newline-free texts
   satisfies the hypotheses of the format theorems: every n *)
Theorem pipeline_well_formed (lhs rhs : list line) (n : Z) cs :
  Forall newline_free lhs -> Forall newline_free rhs -> file_fits lhs -> file_fits rhs ->
  rendered_chunks lhs rhs n cs -> well_formed lhs rhs cs.
Proof.
  intros HL HR HfL HfR Hcs. destruct (Z_lt_le_dec n 0) as [Hneg|Hn]; [|apply (pipeline_nonneg lhs rhs n); assumption].
  apply (pipeline_nonneg lhs rhs 0); try assumption; [lia|].
  destruct Hcs as [-> | (d1 & d2 & Ha & Hu & ->)]; [left; reflexivity|].
  right. exists d1, d2. split; [|split; [exact Hu | reflexivity]].
  unfold diff_add_context in *.
  rewrite (add_context_nonpositive line bytes_eqb) in Ha by lia.
  rewrite (add_context_nonpositive line bytes_eqb) by lia. exact Ha.
Qed.

(* ---------------------------------------------------------------- the end-to-end statements *)
Section EndToEnd.
  Variable time : Type.
  Variable zero_time : time.
  Variable time_is_zero : time -> bool.
  Variable format_time : time -> bytes.
  Variable parse_time : bytes -> option time.
  Hypothesis parse_format : forall t, time_is_zero t = false -> parse_time (format_time t) = Some t.
  Hypothesis format_nf : forall t, newline_free (format_time t).
  Hypothesis zero_unique : forall t, time_is_zero t = true -> t = zero_time.

  Variables (lhs rhs : list line) (n : Z) (cs : list (chunk line)).
  Hypothesis lhs_nf : Forall newline_free lhs.
  Hypothesis rhs_nf : Forall newline_free rhs.
  Hypothesis lhs_fits : file_fits lhs.
  Hypothesis rhs_fits : file_fits rhs.
  Hypothesis Hcs : rendered_chunks lhs rhs n cs.

  Theorem e2e_normal :
    apply_normal lhs (split_lines (normal cs)) = Some rhs /\
    read_normal (normal cs) = ROk (normal_normalise cs) /\
    normal (normal_normalise cs) = normal cs.
  Proof.
    destruct (pipeline_well_formed lhs rhs n cs lhs_nf rhs_nf lhs_fits rhs_fits Hcs) as (Hp & Hn & _ & Hl & _).
    split; [apply apply_normal_text; assumption|]. split; [apply read_normal_normal; assumption | apply normal_reformat].
  Qed.

  Theorem e2e_context fi :
    info_ok time fi ->
    apply_context lhs (split_lines (context time_is_zero format_time fi cs)) = Some rhs.
  Proof.
    intros Hfi. destruct (pipeline_well_formed lhs rhs n cs lhs_nf rhs_nf lhs_fits rhs_fits Hcs) as (Hp & _ & Hc & Hl & _).
    apply apply_context_text; assumption.
  Qed.

  (* unified: in full for the repaired switches; on the code as it stands (pinned) outside the
     triggers of F5 (reading) and F6 (applying) *)
  Theorem e2e_unified v fi :
    info_ok time fi ->
    (appliable v cs ->
       apply_unified lhs (split_lines (unified time_is_zero format_time v fi cs)) = Some rhs) /\
    (readable v cs ->
       read_unified time zero_time parse_time v (unified time_is_zero format_time v fi cs)
       = ROk (mkPatch (expected_info time fi cs) (unified_normalise cs))) /\
    unified time_is_zero format_time v (expected_info time fi cs) (unified_normalise cs)
    = unified time_is_zero format_time v fi cs.
  Proof.
    intros Hfi. destruct (pipeline_well_formed lhs rhs n cs lhs_nf rhs_nf lhs_fits rhs_fits Hcs) as (Hp & _ & _ & Hl & Hfit).
    split; [|split].
    - intros Hv. apply apply_unified_text; assumption.
    - intros Hv. apply (read_unified_unified time zero_time time_is_zero format_time parse_time); assumption.
    - apply unified_reformat.
  Qed.
End EndToEnd.

(* ---------------------------------------------------------------- the known findings, end to end *)
(* New([a b], [a c]) is the one-hunk diff of F5, New([a], [b a]) the one of F6 *)
Lemma diff_new_f5 : Chunks (diff_new [[97]; [98]]%N [[97]; [99]]%N) = f5_cs.
Proof. vm_compute. reflexivity. Qed.
Lemma diff_new_f6 : Chunks (diff_new [[97]]%N [[98]; [97]]%N) = f6_cs.
Proof. vm_compute. reflexivity. Qed.

Lemma e2e_refuted :
  (exists lhs rhs cs, Forall newline_free lhs /\ Forall newline_free rhs /\ rendered_chunks lhs rhs 0 cs /\
     x_read_unified pinned (x_unified pinned None cs) <> ROk (mkPatch None (unified_normalise cs))) /\
  (exists lhs rhs cs, Forall newline_free lhs /\ Forall newline_free rhs /\ rendered_chunks lhs rhs 0 cs /\
     apply_unified lhs (split_lines (x_unified pinned None cs)) <> Some rhs /\
     apply_unified_gen false lhs (split_lines (x_unified pinned None cs)) <> Some rhs).
Proof.
  assert (Hnf : forall ls : list line, forallb (fun l => negb (existsb (N.eqb 10) l)) ls = true -> Forall newline_free ls).
  { intros ls H. apply Forall_forall. intros l Hl. rewrite forallb_forall in H. specialize (H l Hl).
    apply negb_true_iff in H. intros Hin. assert (existsb (N.eqb 10) l = true); [|congruence].
    apply existsb_exists. exists 10%N. split; [exact Hin | reflexivity]. }
  split.
  - exists [[97]; [98]]%N, [[97]; [99]]%N, f5_cs. split; [apply Hnf; reflexivity|]. split; [apply Hnf; reflexivity|].
    split; [left; symmetry; exact diff_new_f5|]. vm_compute. discriminate.
  - exists [[97]]%N, [[98]; [97]]%N, f6_cs. split; [apply Hnf; reflexivity|]. split; [apply Hnf; reflexivity|].
    split; [left; symmetry; exact diff_new_f6|]. split; vm_compute; discriminate.
Qed.

(* the same inputs under the repaired switches *)
Lemma e2e_repaired_examples :
  x_read_unified repaired (x_unified repaired None f5_cs) = ROk (mkPatch None (unified_normalise f5_cs)) /\
  apply_unified [[97]]%N (split_lines (x_unified repaired None f6_cs)) = Some [[98]; [97]]%N.
Proof. split; vm_compute; reflexivity. Qed.
