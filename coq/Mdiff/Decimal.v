(* Decimal numerals on byte lists: itoa models strconv.Itoa / fmt's %d, atoi the syntax of
   strconv.Atoi (optional sign, at least one digit, nothing else) on unbounded Z, and atoi64 is
   strconv.Atoi itself: a value outside int64 is an error.  wrap64 is Go's int arithmetic (two's
   complement, 64 bits).  Main lemmas: atoi (itoa n) = Some n for every n; atoi64 (itoa n) =
   Some n for every n an int holds. *)
From Coq Require Import NArith ZArith List Bool Lia.
Import ListNotations.
Local Open Scope Z_scope.

Definition bytes := list N.

Definition digit_byte (d : Z) : N := Z.to_N (48 + d).
Definition is_digit (b : N) : bool := (N.leb 48 b && N.leb b 57)%N.
Definition digit_val (b : N) : Z := Z.of_N b - 48.

(* Most significant digit first, built from the least significant end.  Each step divides by
   ten; [fuel] steps are enough for n < 2^fuel (itoa_atoi below covers every n, so running out
   never happens). *)
Fixpoint itoa_loop (fuel : nat) (n : Z) (acc : bytes) : bytes :=
  match fuel with
  | O => acc
  | S f =>
    let acc' := digit_byte (n mod 10) :: acc in
    if n / 10 =? 0 then acc' else itoa_loop f (n / 10) acc'
  end.

Definition itoa_nat (n : Z) : bytes := itoa_loop (S (Z.to_nat (Z.log2 n))) n [].

Definition itoa (n : Z) : bytes :=
  if n <? 0 then 45%N :: itoa_nat (- n) else itoa_nat n.

(* Horner evaluation of a digit string; None on a non-digit. *)
Fixpoint atoi_loop (s : bytes) (acc : Z) : option Z :=
  match s with
  | [] => Some acc
  | b :: s' => if is_digit b then atoi_loop s' (10 * acc + digit_val b) else None
  end.

Definition atoi_nat (s : bytes) : option Z :=
  match s with [] => None | _ => atoi_loop s 0 end.

Definition atoi (s : bytes) : option Z :=
  match s with
  | 45%N :: s' => match atoi_nat s' with Some v => Some (- v) | None => None end
  | 43%N :: s' => atoi_nat s'
  | _ => atoi_nat s
  end.

(* ---- machine ints ---- *)
Definition min_int64 : Z := -9223372036854775808.
Definition max_int64 : Z := 9223372036854775807.
Definition in_int64 (z : Z) : bool := (min_int64 <=? z) && (z <=? max_int64).
Definition wrap64 (z : Z) : Z := (z + 9223372036854775808) mod 18446744073709551616 - 9223372036854775808.

(* strconv.Atoi: syntax as atoi, "value out of range" beyond int64 *)
Definition atoi64 (s : bytes) : option Z :=
  match atoi s with
  | Some v => if in_int64 v then Some v else None
  | None => None
  end.

(* ---------------------------------------------------------------- proofs *)

Lemma is_digit_digit_byte d : 0 <= d < 10 -> is_digit (digit_byte d) = true.
Proof.
  intros H. unfold is_digit, digit_byte.
  apply andb_true_iff; split; apply N.leb_le; lia.
Qed.

Lemma digit_val_digit_byte d : 0 <= d < 10 -> digit_val (digit_byte d) = d.
Proof. intros H. unfold digit_val, digit_byte. rewrite Z2N.id; lia. Qed.

Definition all_digits (s : bytes) : Prop := Forall (fun b => is_digit b = true) s.

Lemma atoi_loop_app s t acc :
  atoi_loop (s ++ t) acc =
  match atoi_loop s acc with Some v => atoi_loop t v | None => None end.
Proof.
  revert acc; induction s as [|b s IH]; intros acc; cbn [atoi_loop app]; [reflexivity|].
  destruct (is_digit b); [apply IH | reflexivity].
Qed.

(* value of an accumulator of digits *)
Lemma itoa_loop_spec fuel : forall n acc,
  0 <= n < 2 ^ Z.of_nat fuel -> (fuel > 0)%nat ->
  exists ds, itoa_loop fuel n acc = ds ++ acc /\ ds <> [] /\ all_digits ds /\
             forall a, atoi_loop ds a = Some (a * 10 ^ Z.of_nat (length ds) + n).
Proof.
  induction fuel as [|f IH]; intros n acc Hn Hf; [lia|].
  cbn [itoa_loop].
  assert (Hm : 0 <= n mod 10 < 10) by (apply Z.mod_pos_bound; lia).
  destruct (n / 10 =? 0) eqn:E.
  - apply Z.eqb_eq in E.
    exists [digit_byte (n mod 10)]. split; [reflexivity|]. split; [|split].
    + discriminate.
    + constructor; [apply is_digit_digit_byte; exact Hm | constructor].
    + intros a. cbn [atoi_loop length]. rewrite is_digit_digit_byte by exact Hm.
      rewrite digit_val_digit_byte by exact Hm.
      f_equal. pose proof (Z.div_mod n 10 ltac:(lia)). change (Z.of_nat 1) with 1. lia.
  - apply Z.eqb_neq in E.
    assert (Hq : 0 <= n / 10 < 2 ^ Z.of_nat f).
    { split; [apply Z.div_pos; lia|].
      destruct f as [|f'].
      - exfalso. change (2 ^ Z.of_nat 1) with 2 in Hn.
        apply E. apply Z.div_small. lia.
      - apply Z.div_lt_upper_bound; [lia|].
        rewrite Nat2Z.inj_succ in Hn. rewrite Z.pow_succ_r in Hn by lia. lia. }
    assert (Hf' : (f > 0)%nat).
    { destruct f; [|lia]. exfalso. change (2 ^ Z.of_nat 0) with 1 in Hq. lia. }
    destruct (IH (n / 10) (digit_byte (n mod 10) :: acc) Hq Hf') as (ds & E1 & Hne & Hd & Hv).
    exists (ds ++ [digit_byte (n mod 10)]). split; [|split; [|split]].
    + rewrite E1, <- app_assoc. reflexivity.
    + destruct ds; discriminate.
    + apply Forall_app; split; [exact Hd|].
      constructor; [apply is_digit_digit_byte; exact Hm | constructor].
    + intros a. rewrite atoi_loop_app, Hv. cbn [atoi_loop].
      rewrite is_digit_digit_byte by exact Hm. rewrite digit_val_digit_byte by exact Hm.
      f_equal. rewrite app_length. cbn [length]. rewrite Nat2Z.inj_add.
      change (Z.of_nat 1) with 1. rewrite Z.pow_add_r by lia. change (10 ^ 1) with 10.
      pose proof (Z.div_mod n 10 ltac:(lia)). lia.
Qed.

Lemma itoa_nat_spec n : 0 <= n ->
  itoa_nat n <> [] /\ all_digits (itoa_nat n) /\ atoi_loop (itoa_nat n) 0 = Some n.
Proof.
  intros Hn. unfold itoa_nat.
  assert (Hb : 0 <= n < 2 ^ Z.of_nat (S (Z.to_nat (Z.log2 n)))).
  { split; [exact Hn|]. rewrite Nat2Z.inj_succ, Z2Nat.id by apply Z.log2_nonneg.
    destruct (Z.eq_dec n 0) as [->|Hz]; [cbn; lia|].
    apply Z.log2_spec. lia. }
  destruct (itoa_loop_spec _ n [] Hb ltac:(lia)) as (ds & E & Hne & Hd & Hv).
  rewrite E, app_nil_r. split; [exact Hne|]. split; [exact Hd|].
  rewrite Hv. f_equal; lia.
Qed.

Lemma atoi_nat_itoa_nat n : 0 <= n -> atoi_nat (itoa_nat n) = Some n.
Proof.
  intros Hn. destruct (itoa_nat_spec n Hn) as (Hne & _ & Hv).
  unfold atoi_nat. destruct (itoa_nat n); [contradiction Hne; reflexivity | exact Hv].
Qed.

Lemma itoa_nat_head_digit n : 0 <= n ->
  exists b s, itoa_nat n = b :: s /\ is_digit b = true.
Proof.
  intros Hn. destruct (itoa_nat_spec n Hn) as (Hne & Hd & _).
  destruct (itoa_nat n) as [|b s]; [contradiction Hne; reflexivity|].
  exists b, s. split; [reflexivity|]. inversion Hd; assumption.
Qed.

Theorem itoa_atoi : forall n : Z, atoi (itoa n) = Some n.
Proof.
  intros n. unfold itoa. destruct (n <? 0) eqn:E.
  - apply Z.ltb_lt in E. cbn [atoi]. rewrite atoi_nat_itoa_nat by lia. f_equal. lia.
  - apply Z.ltb_ge in E.
    destruct (itoa_nat_head_digit n E) as (b & s & Eq & Hb).
    pose proof (atoi_nat_itoa_nat n E) as Hv. rewrite Eq in *.
    unfold atoi.
    destruct (N.eq_dec b 45) as [->|N1]; [discriminate Hb|].
    destruct (N.eq_dec b 43) as [->|N2]; [discriminate Hb|].
    destruct b as [|p]; [exact Hv|].
    do 6 (destruct p as [p|p|]; try exact Hv); try (exfalso; apply N1; reflexivity);
      try (exfalso; apply N2; reflexivity).
Qed.

(* the bytes of a numeral: digits, after an optional minus sign *)
Definition numeral_byte (b : N) : bool := is_digit b || N.eqb b 45.

Lemma itoa_numeral n : Forall (fun b => numeral_byte b = true) (itoa n).
Proof.
  unfold itoa. destruct (n <? 0) eqn:E.
  - apply Z.ltb_lt in E. constructor; [reflexivity|].
    destruct (itoa_nat_spec (- n) ltac:(lia)) as (_ & Hd & _).
    eapply Forall_impl; [|exact Hd]. intros b Hb. unfold numeral_byte. rewrite Hb. reflexivity.
  - apply Z.ltb_ge in E.
    destruct (itoa_nat_spec n E) as (_ & Hd & _).
    eapply Forall_impl; [|exact Hd]. intros b Hb. unfold numeral_byte. rewrite Hb. reflexivity.
Qed.

Lemma itoa_nonneg_digits n : 0 <= n -> all_digits (itoa n).
Proof.
  intros Hn. unfold itoa. destruct (n <? 0) eqn:E; [apply Z.ltb_lt in E; lia|].
  apply itoa_nat_spec. exact Hn.
Qed.

Lemma itoa_nonempty n : itoa n <> [].
Proof.
  unfold itoa. destruct (n <? 0) eqn:E; [discriminate|].
  apply Z.ltb_ge in E. apply itoa_nat_spec. exact E.
Qed.

(* ---------------------------------------------------------------- machine ints *)
Lemma in_int64_iff z : in_int64 z = true <-> min_int64 <= z <= max_int64.
Proof.
  unfold in_int64. rewrite andb_true_iff, !Z.leb_le. tauto.
Qed.

Lemma wrap64_id z : in_int64 z = true -> wrap64 z = z.
Proof.
  intros H. apply in_int64_iff in H. unfold min_int64, max_int64 in H. unfold wrap64.
  rewrite Z.mod_small by lia. lia.
Qed.

Lemma wrap64_in z : in_int64 (wrap64 z) = true.
Proof.
  apply in_int64_iff. unfold wrap64, min_int64, max_int64.
  pose proof (Z.mod_pos_bound (z + 9223372036854775808) 18446744073709551616 ltac:(lia)). lia.
Qed.

Theorem itoa_atoi64 n : in_int64 n = true -> atoi64 (itoa n) = Some n.
Proof. intros H. unfold atoi64. rewrite itoa_atoi, H. reflexivity. Qed.

(* a bound that leaves room for every sum and difference the formatters and readers form *)
Definition fits (z : Z) : Prop := -2305843009213693952 <= z <= 2305843009213693952.

Lemma fits_int64 z : -4611686018427387904 <= z <= 4611686018427387904 -> in_int64 z = true.
Proof. intros H. apply in_int64_iff. unfold min_int64, max_int64. lia. Qed.
