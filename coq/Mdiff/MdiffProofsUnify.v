(* C13 proofs, part 3: UnifyChunks.  On the chunks AddContext n produced from a well-formed
   segment decomposition, Unify returns the AddContext-n chunks of the decomposition in which
   every two segments separated by a gap of at most 2n lines are merged (the gap becoming one Emit
   edit between the two cores); no panic. *)
From Coq Require Import ZArith List Bool Lia ZifyBool.
Import ListNotations.
From Mds Require Import Gen.MdiffIdx Mdiff.MdiffModel Mdiff.MdiffSpec Mdiff.MdiffProofsBase Mdiff.MdiffProofsCtx.
Local Open Scope Z_scope.

(* ---- pointer / slice helpers *)
Lemma ptr_at_last : forall A (l : list A) x, ptr_at (l ++ [x]) (Z.opp 1) = Some x.
Proof.
  intros. unfold ptr_at, norm_idx. cbn [Z.opp Z.ltb Z.compare]. lens.
  apply zth_app_mid. lia.
Qed.
Lemma ptr_at_first : forall A (l : list A) x, ptr_at (x :: l) 0 = Some x.
Proof. reflexivity. Qed.
Lemma set_at_last : forall A (l : list A) x y, set_at (l ++ [x]) (Z.opp 1) y = l ++ [y].
Proof.
  intros. unfold set_at, norm_idx. cbn [Z.opp Z.ltb Z.compare]. lens.
  replace (Z.to_nat (-1 + (len l + (1 + 0)))) with (length l) by (unfold len; lia).
  rewrite firstn_app_exact by reflexivity.
  replace (S (length l)) with (length (l ++ [x])) by (rewrite app_length; cbn; lia).
  rewrite skipn_all. reflexivity.
Qed.
Lemma take_ok : forall A (a b : list A) hi, hi = len a -> take (a ++ b) hi = Ok a.
Proof.
  intros A a b hi ->. unfold take, zslice. pose proof (len_nonneg _ a). pose proof (len_nonneg _ b).
  replace ((0 <=? 0) && (0 <=? len a) && (len a <=? zlen (a ++ b))) with true by (lens; lia).
  f_equal. rewrite Z.sub_0_r. cbn [Z.to_nat skipn]. apply firstn_app_exact. unfold len. lia.
Qed.
Lemma drop_ok : forall A (a b : list A) lo, lo = len a -> drop (a ++ b) lo = Ok b.
Proof.
  intros A a b lo ->. unfold drop, zslice. pose proof (len_nonneg _ a). pose proof (len_nonneg _ b).
  replace ((0 <=? len a) && (len a <=? len (a ++ b)) && (len (a ++ b) <=? zlen (a ++ b))) with true by (lens; lia).
  f_equal. rewrite skipn_app_exact by (unfold len; lia).
  apply firstn_all2. lens. unfold len. lia.
Qed.
Lemma drop_one : forall A (x : A) l, drop (x :: l) 1 = Ok l.
Proof. intros. apply (drop_ok A [x] l). reflexivity. Qed.

Section Unify.
  Variable T : Type.
  Notation edit := (edit T).
  Notation chunk := (chunk T).

  Lemma consume_emit_cons : forall (x : list T) (E : list edit), edits_consume (emit_edit x :: E) = x ++ edits_consume E.
  Proof. reflexivity. Qed.
  Lemma produce_emit_cons : forall (x : list T) (E : list edit), edits_produce (emit_edit x :: E) = x ++ edits_produce E.
  Proof. reflexivity. Qed.
  Lemma ctx_chunks_ext : forall n (s : list (seg T)) gt l r l' r', l = l' -> r = r' -> ctx_chunks n l r s gt = ctx_chunks n l' r' s gt.
  Proof. intros; subst; reflexivity. Qed.

  Lemma emit_opt_cons : forall (a : T) x, emit_opt (a :: x) = [emit_edit (a :: x)].
  Proof. reflexivity. Qed.
  Lemma emit_opt_ne : forall x : list T, x <> [] -> emit_opt x = [emit_edit x].
  Proof. intros [|a x] H; [congruence|reflexivity]. Qed.

  (* ---- the overlap-trimming block, when last ends with the post-context u ++ v of which the last
     |v| > 0 lines overlap c *)
  Lemma uc_trim_ok : forall (F : list edit) e (u v : list T) ls le rs re (c : chunk),
      is_emit e = false -> v <> [] -> LStart c = le - len v ->
      uc_trim (mkChunk (F ++ e :: emit_opt (u ++ v)) ls le rs re) c (len v) =
      Ok (mkChunk (F ++ e :: emit_opt u) ls (le - len v) rs (re - len v), c).
  Proof.
    intros F e u v ls le rs re c He Hv Hc.
    assert (Huv : u ++ v <> []) by (intros H; apply app_eq_nil in H; tauto).
    pose proof (len_nonneg _ u). pose proof (len_nonneg _ v).
    assert (0 < len v) by (destruct v; [congruence|lens; pose proof (len_nonneg _ v); lia]).
    unfold uc_trim. cbn [edits LStart LEnd RStart REnd].
    rewrite (emit_opt_ne _ Huv).
    replace (F ++ e :: [emit_edit (u ++ v)]) with ((F ++ [e]) ++ [emit_edit (u ++ v)]) by lapp.
    unfold uc_end_idx. rewrite ptr_at_last. cbn [deref bind].
    unfold uc_end_emit. cbn [is_emit emit_edit eop op_eqb X Y].
    unfold uc_end_whole, uc_end_drop_hi, uc_end_trim_hi, uc_end_lend, uc_end_rend, uc_bad_merge.
    destruct u as [|a u].
    - replace (len v >=? len ([] ++ v)) with true by (cbn [app]; lia).
      rewrite take_ok by (lens; lia). cbn [bind fst snd LStart LEnd].
      replace (LStart c <? le - len v) with false by lia.
      reflexivity.
    - replace (len v >=? len ((a :: u) ++ v)) with false by (lens; pose proof (len_nonneg _ u); lia).
      rewrite take_ok by (lens; lia). cbn [bind fst snd LStart LEnd].
      rewrite set_at_last.
      replace (LStart c <? le - len v) with false by lia.
      unfold set_X. cbn [eop Y emit_edit emit_opt]. f_equal. f_equal. f_equal. lapp.
  Qed.

  (* ---- fusion of the two context edits followed by the merge (k: what is done with the result) *)
  Lemma uc_fusion_merge_ok : forall (B : Type) (k : chunk -> res B)
      (F : list edit) e (u x : list T) e' (E1 : list edit) ls le rs re cs ce crs cre,
      is_emit e = false -> is_emit e' = false ->
      bind (uc_fusion (mkChunk (F ++ e :: emit_opt u) ls le rs re)
                      (mkChunk (emit_opt x ++ e' :: E1) cs ce crs cre))
           (fun lc => k (uc_merge (fst lc) (snd lc))) =
      k (mkChunk (F ++ e :: emit_opt (u ++ x) ++ e' :: E1) ls ce rs cre).
  Proof.
    intros B k F e u x e' E1 ls le rs re cs ce crs cre He He'.
    unfold uc_fusion. cbn [edits LStart LEnd RStart REnd]. unfold uc_end_idx, uc_start_idx.
    destruct u as [|a u].
    - cbn [emit_opt]. replace (F ++ [e]) with (F ++ [e]) by reflexivity.
      rewrite ptr_at_last. cbn [deref bind]. rewrite He.
      cbn [bind fst snd]. unfold uc_merge, uc_merge_lend, uc_merge_rend. cbn [edits LStart LEnd RStart REnd].
      f_equal. f_equal. lapp.
    - rewrite emit_opt_cons.
      replace (F ++ e :: [emit_edit (a :: u)]) with ((F ++ [e]) ++ [emit_edit (a :: u)]) by lapp.
      rewrite ptr_at_last. cbn [deref bind]. cbn [is_emit emit_edit eop op_eqb].
      destruct x as [|b x].
      + cbn [emit_opt]. change ([] ++ e' :: E1) with (e' :: E1).
        rewrite ptr_at_first. cbn [deref bind]. rewrite He'. unfold uc_fuse. cbn [andb].
        cbn [bind fst snd]. unfold uc_merge, uc_merge_lend, uc_merge_rend. cbn [edits LStart LEnd RStart REnd].
        rewrite ?app_nil_r. f_equal. f_equal. lapp.
      + rewrite emit_opt_cons. change ([emit_edit (b :: x)] ++ e' :: E1) with (emit_edit (b :: x) :: e' :: E1).
        rewrite ptr_at_first. cbn [deref bind].
        cbn [is_emit emit_edit eop op_eqb]. unfold uc_fuse. cbn [andb].
        unfold uc_fuse_drop_lo. rewrite drop_one. cbn [bind fst snd].
        rewrite set_at_last.
        unfold uc_merge, uc_merge_lend, uc_merge_rend. cbn [edits LStart LEnd RStart REnd].
        unfold set_X. cbn [eop X Y emit_edit].
        change ((a :: u) ++ b :: x) with (a :: (u ++ b :: x)). rewrite emit_opt_cons.
        f_equal. f_equal. lapp.
  Qed.

  (* ---- one iteration that merges: the gap between last and c is u ++ v ++ w, last ends with
     the context u ++ v, c starts with the context v ++ w *)
  Lemma unify_step_merge : forall done (F : list edit) e (u v w : list T) e' (E1 : list edit) ls rs p q ce cre,
      is_emit e = false -> is_emit e' = false -> u ++ v ++ w <> [] ->
      unify_step (done, mkChunk (F ++ e :: emit_opt (u ++ v)) ls (p + len (u ++ v)) rs (q + len (u ++ v)))
                 (mkChunk (emit_opt (v ++ w) ++ e' :: E1) (p + len u) ce (q + len u) cre) =
      Ok (done, mkChunk (F ++ e :: emit_edit (u ++ v ++ w) :: e' :: E1) ls ce rs cre).
  Proof.
    intros done F e u v w e' E1 ls rs p q ce cre He He' Hg.
    pose proof (len_nonneg _ u). pose proof (len_nonneg _ v).
    unfold unify_step. cbn [fst snd LStart LEnd RStart REnd].
    replace (uc_apart (p + len u) (p + len (u ++ v))) with false by (unfold uc_apart; lens; lia).
    replace (uc_lap (p + len u) (p + len (u ++ v))) with (len v) by (unfold uc_lap; lens; lia).
    change (emit_edit (u ++ v ++ w) :: e' :: E1) with ([emit_edit (u ++ v ++ w)] ++ e' :: E1).
    rewrite <- (emit_opt_ne (u ++ v ++ w) Hg).
    destruct v as [|a v].
    - replace (uc_overlap (len (@nil T))) with false by reflexivity.
      cbn [bind fst snd]. rewrite ?app_nil_r. change ([] ++ w) with w.
      apply (uc_fusion_merge_ok _ (fun c => Ok (done, c))); assumption.
    - replace (uc_overlap (len (a :: v))) with true by (unfold uc_overlap; lens; pose proof (len_nonneg _ v); lia).
      rewrite uc_trim_ok; try assumption; try discriminate.
      2:{ cbn [LStart]. lens. lia. }
      cbn [bind fst snd].
      apply (uc_fusion_merge_ok _ (fun c => Ok (done, c))); assumption.
  Qed.

  (* ---------------------------------------------------------------- merged segments *)
  Fixpoint merge_aux (n : Z) (g : list T) (E : list edit) (r : list (seg T)) : list (seg T) :=
    match r with
    | [] => [(g, E)]
    | (g', E') :: r' =>
      if len g' <=? 2 * n then merge_aux n g (E ++ emit_edit g' :: E') r'
      else (g, E) :: merge_aux n g' E' r'
    end.
  Definition merge_segs (n : Z) (s : list (seg T)) : list (seg T) :=
    match s with [] => [] | (g, E) :: r => merge_aux n g E r end.

  Definition ends_ok (E : list edit) : Prop :=
    (exists e0 E1, E = e0 :: E1 /\ is_emit e0 = false) /\ (exists E0 e, E = E0 ++ [e] /\ is_emit e = false).

  Lemma core_wf_ends : forall E, core_wf E -> ends_ok E.
  Proof.
    intros E [Hne Hr]. destruct E as [|e0 E1].
    - destruct Hr as [H|H]; cbn in H; congruence.
    - split.
      + exists e0, E1. split; [reflexivity|]. inversion Hne; assumption.
      + destruct (exists_last (l := e0 :: E1)) as (E0 & e & Heq); [discriminate|].
        exists E0, e. split; [assumption|]. unfold no_emit in Hne. rewrite Heq in Hne.
        apply Forall_app in Hne. destruct Hne as [_ Hl]. inversion Hl; assumption.
  Qed.

  Lemma ends_ok_join : forall E x E', ends_ok E -> ends_ok E' -> ends_ok (E ++ x :: E').
  Proof.
    intros E x E' [(e0 & E1 & -> & H0) _] [_ (E0' & e & -> & He)]. split.
    - exists e0, (E1 ++ x :: E0' ++ [e]). split; [reflexivity|assumption].
    - exists ((e0 :: E1) ++ x :: E0'), e. split; [lapp|assumption].
  Qed.

  Lemma merge_aux_head_gap : forall n r g E, exists E' r', merge_aux n g E r = (g, E') :: r'.
  Proof.
    intros n. induction r as [|[g' E'] r IH]; intros; cbn [merge_aux].
    - eauto.
    - destruct (len g' <=? 2 * n); [apply IH|eauto].
  Qed.

  (* the gap taken by both contexts: when |g| <= 2n the post-context of the chunk before and the
     pre-context of the chunk after overlap in v *)
  Lemma ctx_overlap_split : forall n (g : list T),
      len g <= 2 * n -> exists u v w, g = u ++ v ++ w /\ ctx_post n g = u ++ v /\ ctx_pre n g = v ++ w.
  Proof.
    intros n g Hle.
    pose proof (ctx_k_le n g) as Hk. pose proof (ctx_k_val n g) as Hkv. pose proof (len_nonneg _ g).
    set (k := ctx_k n g) in *.
    set (a := (length g - k)%nat).
    set (b := (k - a)%nat).
    assert (Hlen : len g = Z.of_nat (length g)) by reflexivity.
    exists (firstn a g), (firstn b (skipn a g)), (skipn b (skipn a g)).
    assert (Hpre : ctx_pre n g = firstn b (skipn a g) ++ skipn b (skipn a g)).
    { unfold ctx_pre. fold k. fold a. symmetry. apply firstn_skipn. }
    split; [|split].
    - rewrite firstn_skipn. symmetry. apply firstn_skipn.
    - unfold ctx_post. fold k.
      rewrite <- (firstn_skipn a g) at 1. rewrite <- (firstn_skipn b (skipn a g)) at 1.
      rewrite app_assoc. apply firstn_app_exact.
      rewrite app_length, !firstn_length, skipn_length. lia.
    - assumption.
  Qed.

  Section Loop.
    Variable n : Z.
    Variable gt : list T.

    (* all but the last element, and the last element, of the result list X *)
    Lemma unify_loop_ok : forall (r : list (seg T)) g E done lpos rpos,
        ends_ok E ->
        Forall (fun x => ends_ok (snd x) /\ fst x <> []) r ->
        exists st,
          unify_loop (done, ctx_chunk_at n lpos rpos g E (next_gap r gt))
                     (ctx_chunks n (lpos + len g + len (edits_consume E)) (rpos + len g + len (edits_produce E)) r gt)
          = Ok st /\
          fst st ++ [snd st] = done ++ ctx_chunks n lpos rpos (merge_aux n g E r) gt.
    Proof.
      induction r as [|[g' E'] r IH]; intros g E done lpos rpos HE Hr.
      - cbn [ctx_chunks unify_loop merge_aux next_gap]. eexists. split; [reflexivity|]. reflexivity.
      - inversion Hr as [|? ? [HE' Hg'] Hr']; subst. cbn [fst snd] in *.
        cbn [ctx_chunks unify_loop merge_aux next_gap].
        set (le := lpos + len g + len (edits_consume E)).
        set (re := rpos + len g + len (edits_produce E)).
        pose proof (len_nonneg _ g') as Hg0.
        assert (Hg1 : 0 < len g') by (destruct g'; [congruence|lens; pose proof (len_nonneg _ g'); lia]).
        pose proof (len_ctx_pre n g') as Hlpre. pose proof (len_ctx_post n g') as Hlpost.
        destruct (len g' <=? 2 * n) eqn:Hm.
        + (* merged *)
          destruct (ctx_overlap_split n g') as (u & v & w & Hguvw & Hpost & Hpre); [lia|].
          assert (Hgl : len g' = len u + len v + len w) by (rewrite Hguvw; lens; lia).
          assert (Hprel : len (ctx_pre n g') = len v + len w) by (rewrite Hpre; lens; lia).
          destruct HE as [HE0 (E0 & e & -> & He)].
          destruct HE' as [(e' & E1' & -> & He') HE'l].
          set (gn := next_gap r gt).
          set (F := emit_opt (ctx_pre n g) ++ E0).
          set (E1 := E1' ++ emit_opt (ctx_post n gn)).
          set (ce := le + len g' + len (edits_consume (e' :: E1')) + len (ctx_post n gn)).
          set (cre := re + len g' + len (edits_produce (e' :: E1')) + len (ctx_post n gn)).
          assert (Hlast : ctx_chunk_at n lpos rpos g (E0 ++ [e]) g' =
                          mkChunk (F ++ e :: emit_opt (u ++ v)) (lpos + len g - len (ctx_pre n g)) (le + len (u ++ v))
                                  (rpos + len g - len (ctx_pre n g)) (re + len (u ++ v))).
          { unfold ctx_chunk_at, F, le, re. rewrite Hpost. f_equal; try reflexivity. lapp. }
          assert (Hc : ctx_chunk_at n le re g' (e' :: E1') gn =
                       mkChunk (emit_opt (v ++ w) ++ e' :: E1) (le + len u) ce (re + len u) cre).
          { unfold ctx_chunk_at, E1, ce, cre. rewrite Hpre. f_equal; try reflexivity; try lapp; lens; lia. }
          rewrite Hlast, Hc.
          rewrite unify_step_merge; try assumption.
          2:{ rewrite <- Hguvw. assumption. }
          cbn [bind]. rewrite <- Hguvw.
          assert (Hnew : mkChunk (F ++ e :: emit_edit g' :: e' :: E1) (lpos + len g - len (ctx_pre n g)) ce
                                 (rpos + len g - len (ctx_pre n g)) cre =
                         ctx_chunk_at n lpos rpos g ((E0 ++ [e]) ++ emit_edit g' :: e' :: E1') gn).
          { unfold ctx_chunk_at, F, E1, ce, cre, le, re.
            rewrite !consume_app, !produce_app, !consume_emit_cons, !produce_emit_cons.
            f_equal; try lapp; lens; lia. }
          rewrite Hnew.
          destruct (IH g ((E0 ++ [e]) ++ emit_edit g' :: e' :: E1') done lpos rpos) as (st & Hst & Hres).
          { apply ends_ok_join; [split; [assumption|eauto]|split; [eauto|assumption]]. }
          { assumption. }
          exists st. split; [|assumption].
          rewrite <- Hst. f_equal. apply ctx_chunks_ext; unfold le, re;
            rewrite ?consume_app, ?produce_app, ?consume_emit_cons, ?produce_emit_cons; lens; lia.
        + (* kept apart *)
          unfold unify_step. cbn [fst snd].
          replace (uc_apart (LStart (ctx_chunk_at n le re g' E' (next_gap r gt)))
                            (LEnd (ctx_chunk_at n lpos rpos g E g'))) with true
            by (unfold uc_apart, ctx_chunk_at; cbn [LStart LEnd]; fold le; lia).
          cbn [bind].
          destruct (IH g' E' (done ++ [ctx_chunk_at n lpos rpos g E g']) le re HE' Hr') as (st & Hst & Hres).
          exists st. split; [exact Hst|].
          rewrite Hres. cbn [ctx_chunks].
          destruct (merge_aux_head_gap n r g' E') as (E'' & r'' & Hhd). rewrite Hhd. cbn [next_gap].
          rewrite <- Hhd. fold le. fold re. lapp.
    Qed.
  End Loop.
End Unify.
